import AscentVerif.Model.Engine
/-!
# Model of the static checks of the macro front end (C15)

What `ascent!` / `ascent_par!` / `ascent_run!` / `ascent_run_par!` / `ascent_source!` decide about a
program *before* any code is generated, in the ORDER in which the real code decides it:

1. `parse_ascent_program` (ascent_syntax.rs): items in textual order — an outer attribute in front of a
   rule / macro / `include_source!` is an error, a `lattice` with no column is an error
   (`field_types.is_empty()`; before fix 9d3a18a also one with a trailing comma), a rule whose body contains
   an empty disjunction `()` at any depth is an error (`DisjunctionNode::parse`, "empty disjunction", since fix
   361e42e; before it the rule silently disappeared in the disjunction product — finding FM4); the body of a
   macro DEFINITION is kept as tokens and not parsed here; the first `include_source!` ends parsing
   (`ascent_source!`: error; the other macros: the rest is re-submitted through the included macro, so
   nothing else is decided in this invocation);
2. `desugar_ascent_program`: macro expansion rule by rule (body items in order, then the heads; EVERYWHERE —
   rule bodies, invoked macro bodies, the alternatives of a disjunction and their items, rule heads, the bodies of
   head macros — left to right up to the FIRST error, `punctuated_try_map` / `collect::<Result<_>>`: since fix
   deae510; before it heads and disjunctions expanded all their items before looking for an error, which made a
   macro invoking itself twice per level cost 2^100 expansions — finding FM8),
   depth budget 100 shared by macro invocations and disjunction nesting; an invocation looks the macro up,
   matches the arguments, then PARSES the substituted body (here an empty disjunction anywhere in the body
   is reported, before any nested invocation is expanded), then expands the items of the body; `flatten_punctuated`
   (utils.rs; since fix 71f89c5 it no longer panics when an empty expansion is followed by a comma);
   then the disjunction product,
   `?pattern` arguments become `if let` conditions in front of the clause's own conditions, negation
   becomes `agg () = not() in r(..)`;
3. `compile_ascent_program_to_hir` (ascent_hir.rs): every rule in order, body items in order, then the
   heads: shadowing (`extend_grounded_vars`), undefined relation / arity (`prog_get_relation`: the LAST
   declaration with that name); an aggregation is first tested for "aggregated variable `z` must be an
   argument of the aggregated relation" (since fix 5862f99, at the START of the `Agg` arm: before the
   shadowing test of its pattern and before `prog_get_relation`; formerly `find_position(..).unwrap()`
   panicked in code generation — finding FM5), then its bound arguments are tested like binders against the
   grounded variables ("`y` shadows another variable with the same name", also when a bound argument is repeated;
   since fix 4509942, on a clone: they are NOT added to the grounded variables; formerly `c(y), agg m = min(y) in a(y)`
   was accepted — finding FM2), then the shadowing test of its pattern, then `prog_get_relation`;
   then `AscentConfig::new` (program attributes), then the
   declarations that survive `dedup_all_keep_last_by` (an identical re-declaration replaces the earlier copies:
   `Summary.effDecls`), in order (`get_ds_attr`, "`lattice`s cannot have custom data structure providers"), then the
   struct / impl signatures ("the identifiers of struct and impl must match", "the generic parameters of
   struct (..) and impl (..) must match": since fix dfbe0be; formerly two `assert_eq!` of `compile_mir`
   that came AFTER the stratification test — finding FM6);
4. `compile_hir_to_mir` (ascent_mir.rs): "use of aggregated relation cannot be stratified", decided with
   `Engine.feeds` / `Engine.dynRels` / `Engine.aggOverDynamic` over the strongly connected classes;
5. `compile_mir` (ascent_codegen.rs): no reachable panic is left (`check_never_panics`, Props/C15.lean).

The input is a *check-relevant summary* of the program text (`Summary`): names, arities, the variables
each pattern binds **as `pattern_get_vars` reports them** (`seen`) and the ones it binds without
reporting them (`hidden`: before fix f47e99d the variables under a parenthesised sub-pattern, syn's
`Pat::Paren`; since then only what no syntactic analysis can see, e.g. a macro in pattern position — the
generator of the tie produces none), attribute names and shapes, trailing commas.  The text → summary mapping
is done by the Python generator while it prints the text (tools/vlib/c15gen.py) and is trusted.

Macro hygiene is modelled as it behaves under real `rustc` spans: every name written literally in a
macro body is private to the invocation (it is tagged with the path of the invocation), parameters are
replaced by the call-site arguments.  (Under the in-process driver all spans compare equal and *every*
bound variable of an expansion is renamed; the tie compares only programs on which both agree.)
Core Lean only; executable.
-/
namespace AscentVerif.Check
open AscentVerif AscentVerif.Engine

abbrev Name := String

/-! ## Outcomes -/

inductive Err where
  | undefRel | arity | shadow | strat
  | recMacro | undefMacro | macroArgs | unexpectedToken
  | includeInSource | dsLattice | multiDs | unknownAttr | parOnlyAttr | attrOnItem | attrShape | emptyLattice
  /-- "aggregated variable `z` must be an argument of the aggregated relation" (ascent_hir.rs; fix 5862f99) -/
  | aggBoundArg
  /-- "the identifiers of struct and impl must match" (ascent_hir.rs; fix dfbe0be) -/
  | sigName
  /-- "the generic parameters of struct (..) and impl (..) must match" (ascent_hir.rs; fix dfbe0be) -/
  | sigGenerics
  /-- "empty disjunction" (`DisjunctionNode::parse`, ascent_syntax.rs; fix 361e42e) -/
  | emptyDisj
  /-- `Punctuated::push_punct` inside `flatten_punctuated` (utils.rs) -/
  | panicFlatten
  /-- `panic!("unexpected macro invocation")`, `panic!("unrecognized BodyItemNode variant")`,
  `panic!("unrecognized body item")`, `HeadItemNode::clause()`: a macro invocation or a disjunction that
  survived desugaring -/
  | panicLeftover
  /-- outside the fragment the summary can express (a body invocation of a head macro, …) -/
  | unsupported
deriving DecidableEq, Repr

def Err.isPanic : Err → Bool
  | .panicFlatten | .panicLeftover => true
  | _ => false

def Err.render : Err → String
  | .undefRel => "err undefRel" | .arity => "err arity" | .shadow => "err shadow" | .strat => "err strat"
  | .recMacro => "err recMacro" | .undefMacro => "err undefMacro" | .macroArgs => "err macroArgs"
  | .unexpectedToken => "err unexpectedToken"
  | .includeInSource => "err includeInSource" | .dsLattice => "err dsLattice" | .multiDs => "err multiDs"
  | .unknownAttr => "err unknownAttr" | .parOnlyAttr => "err parOnlyAttr" | .attrOnItem => "err attrOnItem"
  | .attrShape => "err attrShape" | .emptyLattice => "err emptyLattice"
  | .aggBoundArg => "err aggBoundArg" | .sigName => "err sigName" | .sigGenerics => "err sigGenerics"
  | .emptyDisj => "err emptyDisj" | .panicFlatten => "panic panicFlatten"
  | .panicLeftover => "panic panicLeftover" | .unsupported => "unsupported"

/-- `iter.map(f).collect::<Result<Vec<_>>>()`, `punctuated_try_map`: the first failure in order; later
elements are never evaluated -/
def collectLazy {α : Type} : List (Except Err α) → Except Err (List α)
  | [] => .ok []
  | .error e :: _ => .error e
  | .ok a :: rest =>
    match collectLazy rest with
    | .error e => .error e
    | .ok as => .ok (a :: as)

/-- `collectLazy (xs.map f)` computed without evaluating `f` behind the first failure -/
def mapLazy {α β : Type} (f : α → Except Err β) : List α → Except Err (List β)
  | [] => .ok []
  | x :: rest =>
    match f x with
    | .error e => .error e
    | .ok b =>
      match mapLazy f rest with
      | .error e => .error e
      | .ok bs => .ok (b :: bs)

/-! ## Summaries -/

structure Var where
  name : String
  /-- written `$name` inside a macro body -/
  param : Bool := false
  /-- path of the macro invocation the name is private to (`[]`: written in a rule) -/
  tag : List Nat := []
deriving DecidableEq, Repr

/-- a pattern (`let`, `if let`, `for`, `agg` pattern, `?pattern`); `if` conditions bind nothing -/
structure Binder where
  /-- what `pattern_get_vars` returns (with multiplicity, in order) -/
  seen : List Var
  /-- variables the pattern binds that `pattern_get_vars` does not return -/
  hidden : List Var := []
deriving DecidableEq, Repr

inductive Arg where
  | var (v : Var)
  /-- `_`, a literal, any expression that is not a plain identifier -/
  | other
  | pat (b : Binder)
deriving DecidableEq, Repr

inductive Item where
  | clause (rel : Name) (args : List Arg) (conds : List Binder)
  | binder (b : Binder)
  | agg (rel : Name) (args : List Arg) (pat : Binder) (bound : List Var)
  | neg (rel : Name) (nargs : Nat)
  | disj (alts : List (List Item))
  | mac (name : Name) (args : List Arg)
deriving Repr

inductive HItem where
  | clause (rel : Name) (nargs : Nat)
  | mac (name : Name) (args : List Arg)
deriving DecidableEq, Repr

structure MacroDef where
  name : Name
  params : List String
  /-- the body ends with a comma -/
  trailing : Bool
  isHead : Bool
  body : List Item
  hbody : List HItem
deriving Repr

inductive Shape where
  | path | list | nameValue
deriving DecidableEq, Repr

structure AttrS where
  name : String
  shape : Shape
deriving DecidableEq, Repr

structure Decl where
  name : Name
  arity : Nat
  lat : Bool
  /-- the column list ends with a comma -/
  trailing : Bool
  attrs : List AttrS
deriving DecidableEq, Repr

structure Rule where
  heads : List HItem
  /-- the head list ends with a comma (only possible inside `{ .. }`) -/
  htrailing : Bool
  body : List Item
deriving Repr

inductive Top where
  | rel (d : Decl)
  | mac (nattrs : Nat) (d : MacroDef)
  | rule (nattrs : Nat) (r : Rule)
  | incl (nattrs : Nat)
deriving Repr

inductive Kind where
  | ascent | ascentPar | ascentRun | ascentRunPar | source
deriving DecidableEq, Repr

def Kind.parallel : Kind → Bool
  | .ascentPar | .ascentRunPar => true
  | _ => false

structure Sig where
  structName : String
  implName : Option String
  /-- `quote!(#ty_generics).to_string()` of the struct and of the impl are equal -/
  genericsMatch : Bool
deriving DecidableEq, Repr

structure Summary where
  kind : Kind
  attrs : List AttrS
  sig : Option Sig
  items : List Top
deriving Repr

def Summary.decls (s : Summary) : List Decl := s.items.filterMap fun | .rel d => some d | _ => none

/-- `RelationIdentity::eq` (ascent_hir.rs: name, `field_types`, `is_lattice`).  The model records arities, not
column types; the generator re-declares a relation with identical column types only, so on the programs of the
tie "same arity" and "same column types" coincide. -/
def Decl.sameIdentity (d e : Decl) : Bool := d.name == e.name && d.arity == e.arity && d.lat == e.lat

/-- `dedup_all_keep_last_by(&mut rel_identities, RelationIdentity::eq)` (utils.rs): every declaration that has a
LATER declaration with the same identity is removed; the survivors keep their order.  (The real loop goes from the
last element down and marks the earlier equals of every unmarked element; identity is an equivalence, so exactly the
elements with a later equal get marked.) -/
def dedupKeepLast : List Decl → List Decl
  | [] => []
  | d :: rest => if rest.any (fun e => d.sameIdentity e) then dedupKeepLast rest else d :: dedupKeepLast rest

/-- the declarations `compile_ascent_program_to_hir` loops over: an identical re-declaration REPLACES the earlier
copies, the last copy is THE declaration of the relation (its attributes count, the attributes of the replaced
copies are never looked at) -/
def Summary.effDecls (s : Summary) : List Decl := dedupKeepLast s.decls
def Summary.macros (s : Summary) : List MacroDef := s.items.filterMap fun | .mac _ d => some d | _ => none
def Summary.rules (s : Summary) : List Rule := s.items.filterMap fun | .rule _ r => some r | _ => none

/-! ## 1. Parsing -/

inductive Parsed where
  | whole
  /-- an `include_source!` was met: the remainder is handed to the included macro -/
  | deferred
deriving DecidableEq, Repr

mutual
/-- the item contains, at any depth, a disjunction without alternatives `()`: `DisjunctionNode::parse`
answers "empty disjunction" (since fix 361e42e) -/
def Item.hasEmptyDisj : Item → Bool
  | .disj alts => alts.isEmpty || altsHaveEmptyDisj alts
  | _ => false
def itemsHaveEmptyDisj : List Item → Bool
  | [] => false
  | it :: rest => it.hasEmptyDisj || itemsHaveEmptyDisj rest
def altsHaveEmptyDisj : List (List Item) → Bool
  | [] => false
  | alt :: rest => itemsHaveEmptyDisj alt || altsHaveEmptyDisj rest
end

/-- the body of a macro DEFINITION is a token stream (`MacroDefNode`): nothing in it is decided here; the
body of a rule is parsed (`RuleNode::parse`), after the test for outer attributes -/
def parseItems : List Top → Except Err Parsed
  | [] => .ok .whole
  | .rel d :: rest => if d.lat && d.arity == 0 then .error .emptyLattice else parseItems rest
  | .mac n _ :: rest => if n != 0 then .error .attrOnItem else parseItems rest
  | .rule n r :: rest =>
    if n != 0 then .error .attrOnItem
    else if itemsHaveEmptyDisj r.body then .error .emptyDisj
    else parseItems rest
  | .incl n :: _ => if n != 0 then .error .attrOnItem else .ok .deferred

/-! ## 2. Macro expansion -/

/-- `macros.get(name)` on the `HashMap` collected from the definitions in order: the last one wins -/
def lookupMacro (ms : List MacroDef) (n : Name) : Option MacroDef := ms.reverse.find? fun d => d.name == n

/-- substitution performed by one invocation: parameters ↦ arguments, literal names ↦ private names -/
structure Env where
  params : List (String × Arg)
  tag : List Nat

def Env.top : Env := ⟨[], []⟩

def Env.var (σ : Env) (v : Var) : Arg :=
  if v.param then (σ.params.lookup v.name).getD .other else .var { v with tag := σ.tag }

def Env.vars (σ : Env) (vs : List Var) : List Var :=
  vs.filterMap fun v => match σ.var v with | .var w => some w | _ => none

def Env.binder (σ : Env) (b : Binder) : Binder := ⟨σ.vars b.seen, σ.vars b.hidden⟩

def Env.arg (σ : Env) : Arg → Arg
  | .var v => σ.var v
  | .other => .other
  | .pat b => .pat (σ.binder b)

/-- `flatten_punctuated` (utils.rs): the inner sequences concatenated.  Since fix 71f89c5 the separator
that follows an EMPTY inner sequence is dropped instead of being pushed (`Punctuated::push_punct` panicked
there: finding FM7), so the function is total; `trailing` (is the last inner sequence followed by a comma)
no longer matters.  The error type is kept so that the callers read as before. -/
def flattenP {α : Type} (inner : List (List α)) (_trailing : Bool) : Except Err (List α) :=
  .ok inner.flatten

/-- the depth budget of `rule_expand_macro_invocations` -/
def depthBudget : Nat := 100

/-- `body_item_expand_macros`; `π` is the position of the item (the tag given to the private names of an
invocation at that position).  An invocation: `macros.get` ("undefined macro"), `invoke_macro` (arguments),
`Parser::parse2(.., macro_invoked)` (the substituted body is parsed as a whole: "empty disjunction" for a `()`
anywhere in it, before any item of the body is expanded), then the items of the body in order.  A disjunction:
the alternatives left to right, the items of each alternative left to right, the first error is returned at once
(`punctuated_try_map` twice, since fix deae510; formerly every item of every alternative was expanded before an
error was looked for — finding FM8). -/
def expandItem (ms : List MacroDef) : Nat → Env → List Nat → Item → Except Err (List Item)
  | 0, _, _, _ => .error .recMacro
  | fuel + 1, σ, π, .mac name args =>
    match lookupMacro ms name with
    | none => .error .undefMacro
    | some d =>
      if d.isHead then .error .unsupported
      else if args.length < d.params.length then .error .macroArgs
      else if d.params.length < args.length then .error .unexpectedToken
      else if itemsHaveEmptyDisj d.body then .error .emptyDisj
      else
        let σ' : Env := ⟨d.params.zip (args.map σ.arg), π⟩
        match mapLazy (fun x => expandItem ms fuel σ' (π ++ [x.2]) x.1) d.body.zipIdx with
        | .error e => .error e
        | .ok inner => flattenP inner d.trailing
  | fuel + 1, σ, π, .disj alts =>
    match mapLazy (fun a =>
        match mapLazy (fun x => expandItem ms fuel σ (π ++ [a.2, x.2]) x.1) a.1.zipIdx with
        | .error e => .error e
        | .ok inner => flattenP inner false) alts.zipIdx with
    | .error e => .error e
    | .ok alts' => .ok [.disj alts']
  | _ + 1, σ, _, .clause rel args conds => .ok [.clause rel (args.map σ.arg) (conds.map σ.binder)]
  | _ + 1, σ, _, .binder b => .ok [.binder (σ.binder b)]
  | _ + 1, σ, _, .agg rel args pat bound => .ok [.agg rel (args.map σ.arg) (σ.binder pat) (σ.vars bound)]
  | _ + 1, _, _, .neg rel n => .ok [.neg rel n]

/-- `head_item_expand_macros`: the items of the expansion left to right, the first error is returned at once
(`punctuated_try_map`, since fix deae510; formerly `punctuated_map` + `punctuated_try_unwrap`: all of them were
expanded before an error was looked for — the same answer after 2^100 steps for a macro invoking itself twice,
finding FM8) -/
def expandHead (ms : List MacroDef) : Nat → HItem → Except Err (List HItem)
  | 0, _ => .error .recMacro
  | fuel + 1, .mac name args =>
    match lookupMacro ms name with
    | none => .error .undefMacro
    | some d =>
      if !d.isHead then .error .unsupported
      else if args.length < d.params.length then .error .macroArgs
      else if d.params.length < args.length then .error .unexpectedToken
      else
        match mapLazy (expandHead ms fuel) d.hbody with
        | .error e => .error e
        | .ok inner => flattenP inner d.trailing
  | _ + 1, .clause rel n => .ok [.clause rel n]

/-- `rule_expand_macro_invocations`: the body (a `Vec`, no punctuation), then the heads; both left to right up to
the first error (`punctuated_try_map` for the heads since fix deae510) -/
def expandRule (ms : List MacroDef) (r : Rule) : Except Err Rule :=
  match mapLazy (fun x => expandItem ms depthBudget Env.top [x.2] x.1) r.body.zipIdx with
  | .error e => .error e
  | .ok inner =>
    match mapLazy (expandHead ms depthBudget) r.heads with
    | .error e => .error e
    | .ok hs =>
      match flattenP hs r.htrailing with
      | .error e => .error e
      | .ok heads => .ok { heads := heads, htrailing := false, body := inner.flatten }

/-! ## Disjunction product and the remaining desugaring steps -/

/-- body events of a desugared rule -/
inductive Ev where
  | clause (rel : Name) (args : List Arg) (conds : List Binder)
  | binder (b : Binder)
  | agg (rel : Name) (args : List Arg) (pat : Binder) (bound : List Var)
deriving DecidableEq, Repr

def cross (a b : List (List Ev)) : List (List Ev) := a.flatMap fun x => b.map fun y => x ++ y

mutual
/-- `rule_desugar_disjunction_nodes::bitem_desugar` (+ `rule_desugar_negation`) -/
def prodItem : Item → Except Err (List (List Ev))
  | .clause rel args conds => .ok [[.clause rel args conds]]
  | .binder b => .ok [[.binder b]]
  | .agg rel args pat bound => .ok [[.agg rel args pat bound]]
  | .neg rel n => .ok [[.agg rel (List.replicate n .other) ⟨[], []⟩ []]]
  | .disj alts => prodAlts alts
  | .mac _ _ => .error .panicLeftover
def prodItems : List Item → Except Err (List (List Ev))
  | [] => .ok [[]]
  | it :: rest =>
    match prodItem it with
    | .error e => .error e
    | .ok a =>
      match prodItems rest with
      | .error e => .error e
      | .ok b => .ok (cross a b)
def prodAlts : List (List Item) → Except Err (List (List Ev))
  | [] => .ok []
  | alt :: rest =>
    match prodItems alt with
    | .error e => .error e
    | .ok a =>
      match prodAlts rest with
      | .error e => .error e
      | .ok b => .ok (a ++ b)
end

/-- head clauses of a desugared rule -/
structure Head where
  rel : Name
  nargs : Nat
deriving DecidableEq, Repr

structure CoreRule where
  heads : List Head
  body : List Ev
deriving DecidableEq, Repr

def coreHeads : List HItem → Except Err (List Head)
  | [] => .ok []
  | .clause rel n :: rest =>
    match coreHeads rest with
    | .error e => .error e
    | .ok hs => .ok (⟨rel, n⟩ :: hs)
  | .mac _ _ :: _ => .error .panicLeftover

/-- one macro-expanded rule becomes one core rule per conjunction of the product -/
def desugarRule (r : Rule) : Except Err (List CoreRule) :=
  match prodItems r.body with
  | .error e => .error e
  | .ok conjs =>
    match coreHeads r.heads with
    | .error e => .error e
    | .ok hs => .ok (conjs.map fun c => ⟨hs, c⟩)

/-- `desugar_ascent_program` -/
def desugar (ms : List MacroDef) (rules : List Rule) : Except Err (List CoreRule) :=
  match mapLazy (expandRule ms) rules with
  | .error e => .error e
  | .ok rs =>
    match mapLazy desugarRule rs with
    | .error e => .error e
    | .ok cs => .ok cs.flatten

/-! ## 3. HIR: shadowing, undefined relations, arity, attributes -/

/-- `prog.relations.iter().rev().find(|r| name == &r.name)` -/
def findDecl (ds : List Decl) (n : Name) : Option Decl := ds.reverse.find? fun d => d.name == n

/-- `prog_get_relation` -/
def getRelation (ds : List Decl) (n : Name) (arity : Nat) : Except Err Unit :=
  match findDecl ds n with
  | none => .error .undefRel
  | some d => if d.arity == arity then .ok () else .error .arity

/-- `extend_grounded_vars` -/
def extendGrounded : List Var → List Var → Except Err (List Var)
  | g, [] => .ok g
  | g, v :: vs => if g.contains v then .error .shadow else extendGrounded (g ++ [v]) vs

/-- identifier arguments of a clause that are not grounded yet become grounded (no error possible);
the fresh `__arg_pattern_` identifiers standing for `?pattern` arguments are not modelled -/
def groundArgs : List Var → List Arg → List Var
  | g, [] => g
  | g, .var v :: rest => if g.contains v then groundArgs g rest else groundArgs (g ++ [v]) rest
  | g, _ :: rest => groundArgs g rest

/-- `rule_desugar_pattern_args`: the `if let` conditions of the `?pattern` arguments, in argument order -/
def patConds : List Arg → List Binder
  | [] => []
  | .pat b :: rest => b :: patConds rest
  | _ :: rest => patConds rest

def extendBinders : List Var → List Binder → Except Err (List Var)
  | g, [] => .ok g
  | g, b :: bs =>
    match extendGrounded g b.seen with
    | .error e => .error e
    | .ok g' => extendBinders g' bs

/-- the identifier arguments (`expr_to_ident`) of a clause or of an aggregated relation -/
def argVars : List Arg → List Var
  | [] => []
  | .var v :: rest => v :: argVars rest
  | _ :: rest => argVars rest

/-- every bound argument of the aggregation (`agg p = f(bound..) in rel(args..)`) is one of the identifier
arguments of the aggregated relation -/
def aggBoundOk : Ev → Bool
  | .agg _ args _ bound => bound.all fun v => (argVars args).contains v
  | _ => true

/-- one body item of `compile_rule_to_ir_rule`; the `Agg` arm starts with the test of the bound arguments
(fix 5862f99: each is an identifier argument of the aggregated relation), then the bound arguments are tested like
binders against the variables grounded so far (fix 4509942: `extend_grounded_vars` on a CLONE of the grounded
variables — "shadows another variable", also for a repeated bound argument; they stay local: the grounded set is
not changed by this test), then the shadowing test of the pattern (against the grounded variables WITHOUT the
bound arguments), then `prog_get_relation` -/
def hirEv (ds : List Decl) (g : List Var) : Ev → Except Err (List Var)
  | .clause rel args conds =>
    match getRelation ds rel args.length with
    | .error e => .error e
    | .ok _ => extendBinders (groundArgs g args) (patConds args ++ conds)
  | .binder b => extendGrounded g b.seen
  | .agg rel args pat bound =>
    if !aggBoundOk (.agg rel args pat bound) then .error .aggBoundArg
    else
    match extendGrounded g bound with
    | .error e => .error e
    | .ok _ =>
    match extendGrounded g pat.seen with
    | .error e => .error e
    | .ok g' =>
      match getRelation ds rel args.length with
      | .error e => .error e
      | .ok _ => .ok g'

def hirBody (ds : List Decl) : List Var → List Ev → Except Err (List Var)
  | g, [] => .ok g
  | g, ev :: rest =>
    match hirEv ds g ev with
    | .error e => .error e
    | .ok g' => hirBody ds g' rest

def hirHeads (ds : List Decl) : List Head → Except Err Unit
  | [] => .ok ()
  | h :: rest =>
    match getRelation ds h.rel h.nargs with
    | .error e => .error e
    | .ok _ => hirHeads ds rest

def hirRule (ds : List Decl) (r : CoreRule) : Except Err Unit :=
  match hirBody ds [] r.body with
  | .error e => .error e
  | .ok _ => hirHeads ds r.heads

def hirRules (ds : List Decl) : List CoreRule → Except Err Unit
  | [] => .ok ()
  | r :: rest =>
    match hirRule ds r with
    | .error e => .error e
    | .ok _ => hirRules ds rest

def firstNamed (as : List AttrS) (n : String) : Option AttrS := as.find? fun a => a.name == n

/-- `.find(..).map(|attr| attr.meta.require_path_only()).transpose()?` -/
def requirePathOnly (as : List AttrS) (n : String) : Except Err Unit :=
  match firstNamed as n with
  | some a => if a.shape == .path then .ok () else .error .attrShape
  | none => .ok ()

def recognizedAttrs : List String := ["measure_rule_times", "generate_run_timeout", "inter_rule_parallelism", "ds"]

/-- `get_ds_attr`: `some true` when a `ds` attribute is present -/
def getDsAttr (as : List AttrS) : Except Err Bool :=
  match as.filter fun a => a.name == "ds" with
  | [] => .ok false
  | [a] => if a.shape == .list then .ok true else .error .attrShape
  | _ :: _ :: _ => .error .multiDs

/-- `AscentConfig::new` -/
def configCheck (as : List AttrS) (parallel : Bool) : Except Err Unit :=
  match requirePathOnly as "measure_rule_times" with
  | .error e => .error e
  | .ok _ =>
  match requirePathOnly as "generate_run_timeout" with
  | .error e => .error e
  | .ok _ =>
  match requirePathOnly as "inter_rule_parallelism" with
  | .error e => .error e
  | .ok _ =>
    if as.any fun a => !recognizedAttrs.contains a.name then .error .unknownAttr
    else if (firstNamed as "inter_rule_parallelism").isSome && !parallel then .error .parOnlyAttr
    else
      match getDsAttr as with
      | .error e => .error e
      | .ok _ => .ok ()

/-- the loop over the declarations in `compile_ascent_program_to_hir`: `get_ds_attr` (two `ds` attributes, a `ds`
attribute that is not a list) and "`lattice`s cannot have custom data structure providers", declaration by declaration
up to the first error.  The real loop runs AFTER `dedup_all_keep_last_by`: `compile` calls this function with
`Summary.effDecls`, so a declaration replaced by a later identical one is never tested (`#[ds(..)] lattice l(..);
lattice l(..);` is accepted, `relation r(..); relation r(..); #[ds(..)] lattice l(..);` is rejected for `l`). -/
def declsCheck : List Decl → Except Err Unit
  | [] => .ok ()
  | d :: rest =>
    match getDsAttr d.attrs with
    | .error e => .error e
    | .ok ds => if ds && d.lat then .error .dsLattice else declsCheck rest

/-! ## 4. MIR: stratification -/

def declIndex (ds : List Decl) (n : Name) : Nat :=
  ((List.range ds.length).reverse.find? fun i => (ds[i]?.map (·.name)) == some n).getD 0

abbrev Skel := Program Unit Unit Unit Unit Unit

def skelItem (ds : List Decl) : Ev → AscentVerif.Item Unit Unit Unit Unit Unit
  | .clause rel _ _ => .clause (declIndex ds rel) [] []
  | .binder _ => .cond (.ifc ())
  | .agg rel _ _ _ => .agg { outs := [], fn := (), boundArgs := [], rel := declIndex ds rel, args := [] }

/-- the rule skeleton the engine model is defined on -/
def skeleton (ds : List Decl) (rules : List CoreRule) : Skel :=
  { rels := ds.map fun d => ⟨d.arity, d.lat⟩,
    rules := rules.map fun r => { heads := r.heads.map fun h => ⟨declIndex ds h.rel, []⟩, body := r.body.map (skelItem ds) } }

/-- the strongly connected class of rule `i`, from the table of reachability lists -/
def classOf (p : Skel) (table : List (List Nat)) (i : Nat) : List Nat :=
  (List.range p.rules.length).filter fun j => (table.getD i []).contains j && (table.getD j []).contains i

/-- some strongly connected class aggregates over one of its own head relations -/
def stratError (p : Skel) : Bool :=
  let n := p.rules.length
  let table := (List.range n).map fun i => reachFrom p n [i]
  (List.range n).any fun i => aggOverDynamic p (classOf p table i)

/-! ## 3b. HIR, last step: the struct / impl signatures (the end of `compile_ascent_program_to_hir`, fix dfbe0be;
in the pipeline this comes after the declarations of section 3 and BEFORE the stratification test of section 4) -/

def sigCheck (sig : Option Sig) : Except Err Unit :=
  match sig with
  | none => .ok ()
  | some s =>
    match s.implName with
    | none => .ok ()
    | some i =>
      if i != s.structName then .error .sigName
      else if !s.genericsMatch then .error .sigGenerics
      else .ok ()

/-! ## The pipeline -/

/-- `ascent_impl` after parsing: `desugar_ascent_program`, `compile_ascent_program_to_hir` (rules, program
attributes, declarations, signatures), `compile_hir_to_mir` (stratification); code generation decides nothing.

Re-declared relations: the rules are resolved against ALL declarations (`hirRules s.decls`, `skeleton s.decls`) —
faithful: `prog_get_relation` is `prog.relations.iter().rev().find(|r| name == &r.name)` on the un-deduplicated
`prog.relations`, by NAME only, i.e. `findDecl s.decls`.  (The last declaration of a name has no later declaration
of the same identity, so it also survives the dedup: `findDecl s.decls n = findDecl s.effDecls n`; in the skeleton a
replaced copy is one more relation that no rule mentions, `declIndex` points at the last copy, which does not change
`stratError`.)  Only the declaration loop runs on the deduplicated list (`declsCheck s.effDecls`). -/
def compile (s : Summary) : Except Err Unit :=
  match desugar s.macros s.rules with
  | .error e => .error e
  | .ok rules =>
    match hirRules s.decls rules with
    | .error e => .error e
    | .ok _ =>
      match configCheck s.attrs s.kind.parallel with
      | .error e => .error e
      | .ok _ =>
        match declsCheck s.effDecls with
        | .error e => .error e
        | .ok _ =>
          match sigCheck s.sig with
          | .error e => .error e
          | .ok _ =>
            if stratError (skeleton s.decls rules) then .error .strat
            else .ok ()

/-- what the macro answers for the program: `.ok ()` = code is emitted -/
def check (s : Summary) : Except Err Unit :=
  match parseItems s.items with
  | .error e => .error e
  | .ok .deferred => if s.kind == .source then .error .includeInSource else .ok ()
  | .ok .whole => if s.kind == .source then .ok () else compile s

def render : Except Err Unit → String
  | .ok _ => "ok"
  | .error e => e.render

end AscentVerif.Check
