import AscentVerif.Model.EnginePhysParLat
import AscentVerif.Model.EnginePhysParTimeout
/-!
# `run_timeout` of a PARALLEL program WITH `lattice` relations (`ascent_par!` + `#![generate_run_timeout]`)

`Model/EnginePhysParTimeout.lean` (the deadline checks and the early return of the parallel code) on top of
`Model/EnginePhysParLat.lean` (`iteration` / `shift` / `enterScc` / `leaveScc` of the parallel code with lattices, both
rule-scheduling modes).  Aggregation-free.

`compile_mir` (`ascent_codegen.rs` l.194-212) emits ONE `run_timeout` whatever the relations are: `__start_time`, the macro
`__check_return_conditions!()` = `if timeout < Duration::MAX && __start_time.elapsed() >= timeout {return false;}` (l.202-204),
`self.update_indices_priv()`, the compiled SCCs, `true`; `run()` is `self.run_timeout(Duration::MAX)` (l.172-179).
`compile_mir_scc` (l.447-654) places the check after `unfreeze; merge; scc_iters += 1; if !changed {break;}` of a looping SCC
(l.615-623) and after `unfreeze; merge; merge; scc_iters += 1` of a non-looping one (l.632-641): the deadline is looked at
BETWEEN iterations only, outside the `rayon::scope` / the parallel iterators of the rules, with `new → delta → total` done for
every index of every dynamic relation — lattice or not — and every `total` / `delta` unfrozen again.

## the early `return false`: what is the same for a lattice and what is not

The same as for a plain relation (`Model/EnginePhysParTimeout.lean`):

* every index of a dynamic lattice lives in three LOCAL variables (`mem::take(&mut _self.field)` into `delta`, `Default` `total`
  and `new`, l.470-474), every index of a body-only lattice in one local (`_self.field.freeze()` then `mem::take`, l.527-535);
  `return false` skips `move_total_to_field` (l.499-501, 537-546) and DROPS them all: the key index `CRelFullIndex<key, usize>`,
  every `CLatIndex<K, usize>`, the all-columns index.  The struct keeps what `mem::take` left: `Default::default()` = empty,
  UNFROZEN (`LCx.fresh`).  The frozen `total` of a body-only lattice is dropped with the rest, so no frozen index can reach the
  struct; dropping reads and writes no index: the early-return path itself cannot panic;
* the next `run()` / `run_timeout()` begins with `update_indices_priv` (l.714-803): every index field `= Default::default()`
  (l.752), then the rows are re-inserted from a parallel loop: `updateIndices`.

Different for a lattice:

* **the rows never leave the struct.**  `rel_type` (l.395-413) gives a lattice in parallel mode the field
  `boxcar::Vec<RwLock<tuple>>`; it is not one of the `mem::take`n index fields, the head update pushes to it and joins INTO it
  (`_self.l[i].write().unwrap().last`, l.1274 / l.1285; `push`, l.1288) during the iterations.  At `return false` it therefore holds every
  row pushed and every value joined so far — also those of the abandoned SCC.  The row vector of a plain relation is a struct field
  pushed to by the head update in the same way (`push_code`, l.1201-1205), so in both cases `abandonScc` keeps the row vectors;
  for a lattice "kept" means the CURRENT, partially joined values;
* **the row lock.**  `rel[i].write()` guards are temporaries of the `join_mut` statement (l.1274, 1285), `tuple.read()` guards of
  a clause end with the clause's closure; the check is executed after the parallel iterators / the `rayon::scope` have joined,
  so no guard is alive, and — the model never panics there (`timeout_never_panics_physParLat`) — no `RwLock` is poisoned.  The
  `tuple.read().unwrap()` of the next `update_indices` (l.775-777, 790-791) succeeds.  Invisible in the atomic reading of
  `headLatPar`;
* **the insertion mutex.**  `__l_mutex: Vec<Mutex<()>>` (l.38-47) is a struct field of its own, `shards_count()` long at
  construction; it is never `mem::take`n, never reset by `update_indices`, and its guard `__lock` (l.1283) is a local of the
  head update's `else` branch.  It survives the early return untouched (and keeps the length of the pool the struct was
  constructed in: `hash % len` only spreads the keys).  Invisible here;
* **the key index is what the next call depends on.**  After the early return the only record of "which row holds key `k`" is
  the row vector itself; `update_indices` rebuilds the key index by `DashMap::insert(key, i)` for every row (overwriting), so
  the resumed call is correct only if the abandoned value has at most one row per key.  That is a THEOREM
  (`timeout_sound_physParLat`: the value left is `Legal`, i.e. `InputOK`), not something `abandonScc` does; it holds because the check is never taken inside
  an iteration, where the re-check under the mutex is what keeps two workers from pushing the same key;
* **the all-columns index** of a lattice (finding F9: never written by a head update, l.1136) is rebuilt from the current rows
  by the next `update_indices`, like the others.

`abandonScc`: the plain part by `PhysPar.abandonScc` (fresh `PCFull.new` / `PCx.new threads` for every relation the SCC
touched); every index of every lattice the SCC touched (dynamic or body-only) becomes `fresh`; the rows and the indices of the
other relations stay.  (As `enterScc` of both parallel models takes EVERY index of a relation the SCC reads out of the struct, where
the code takes the ones the SCC's rules use, `abandonScc` resets every index of a touched relation; the next call's
`update_indices` resets all of them anyway, so the difference shows in no row and no later index.)

The deadline is an oracle over the clock readings (`Engine.Deadline`); `checks` counts the readings, `clock` numbers the phases
for the schedule `σ` exactly as `PhysParLat.run` does (`iteration` returns the next phase number).  The result is
`Res (Outcome …)`: `.panic` is a violation of the frozen / unfrozen protocol or an out-of-bounds row number,
`.ok (.done _)` = returned `true`, `.ok (.timedOut _)` = returned `false`, `.ok .outOfFuel` = the model's fuel ran out.
Core Lean only; executable (driver op `runtoppl`).
-/
namespace AscentVerif.PhysParLat
open AscentVerif AscentVerif.Engine AscentVerif.Index
open AscentVerif.Phys (IxSets)
open AscentVerif.PhysPar (Sched)
open AscentVerif.PhysLat (isLatRel)

variable {E B G P A : Type}

structure RunStT where
  st : PLScc
  clock : Nat
  checks : Nat
  iters : Nat

/-- the `loop { … }` of a looping SCC: freeze, rules, unfreeze (`iteration`), merge (`shift`), `scc_iters += 1`,
`if !__changed.load() {break;}`, `__check_return_conditions!()` -/
def sccLoopT (I : Interp E B G P A) (V : Hir.VarsOf E B) (p : Program E B G P A) (σ : Sched E B G P A) (interRule : Bool)
    (dyn : List RelId) (rules : List (Rule E B G P A)) (dl : Deadline) : Nat → RunStT → Res (Outcome RunStT)
  | 0, _ => .ok .outOfFuel
  | fuel + 1, rs => do
    let s1 ← iteration I V p σ interRule rs.clock dyn rules rs.st
    let s2 ← shift s1.1
    let rs' : RunStT := { st := s2, clock := s1.2, checks := rs.checks, iters := rs.iters + 1 }
    if !s1.1.pc.changed then pure (.done rs')
    else if dl rs.checks then pure (.timedOut { rs' with checks := rs.checks + 1 })
    else sccLoopT I V p σ interRule dyn rules dl fuel { rs' with checks := rs.checks + 1 }

/-- early return: every local index of the SCC is dropped — for a plain relation `PhysPar.abandonScc`; for a lattice the three
versions of the key index and of every `CLatIndex` of a dynamic relation (unfrozen) and the frozen `total` of a body-only one.
The struct fields hold what `mem::take` left at SCC entry: `Default`, unfrozen.  The row vectors (with the values joined so far)
and the indices of the relations the SCC does not touch stay. -/
def abandonScc (threads : Nat) (p : Program E B G P A) (scc : List Nat) (s : PLScc) : PLSt :=
  let touched := dynRels p scc ++ (sccRules p scc).flatMap Rule.bodyRels
  { pc := PhysPar.abandonScc threads p scc s.pc
    lat := (List.range s.lrels.length).map fun r =>
      let l := lrel s.lrels r
      if isLatRel p r && touched.contains r then { l with idxs := l.idxs.map fun ci => (ci.1, ci.2.fresh) } else l }

structure ProgStT where
  st : PLSt
  clock : Nat
  checks : Nat
  iters : List Nat

def runSccT (I : Interp E B G P A) (V : Hir.VarsOf E B) (p : Program E B G P A) (σ : Sched E B G P A) (interRule : Bool)
    (threads : Nat) (dl : Deadline) (fuel : Nat) (scc : List Nat) (ps : ProgStT) : Res (Outcome ProgStT) := do
  let dyn := dynRels p scc
  let rules := sccRules p scc
  let s0 := enterScc threads p scc ps.st
  if isLooping p scc then
    let r ← sccLoopT I V p σ interRule dyn rules dl fuel { st := s0, clock := ps.clock, checks := ps.checks, iters := 0 }
    match r with
    | .done rs =>
      pure (.done { st := leaveScc p scc rs.st, clock := rs.clock, checks := rs.checks, iters := ps.iters ++ [rs.iters] })
    | .timedOut rs =>
      pure (.timedOut { st := abandonScc threads p scc rs.st, clock := rs.clock, checks := rs.checks,
                        iters := ps.iters ++ [rs.iters] })
    | .outOfFuel => pure .outOfFuel
  else
    let s1 ← iteration I V p σ interRule ps.clock dyn rules s0
    let s2 ← shift s1.1
    let s3 ← shift s2
    if dl ps.checks then
      pure (.timedOut { st := abandonScc threads p scc s3, clock := s1.2, checks := ps.checks + 1, iters := ps.iters ++ [1] })
    else
      pure (.done { st := leaveScc p scc s3, clock := s1.2, checks := ps.checks + 1, iters := ps.iters ++ [1] })

def runSccsT (I : Interp E B G P A) (V : Hir.VarsOf E B) (p : Program E B G P A) (σ : Sched E B G P A) (interRule : Bool)
    (threads : Nat) (dl : Deadline) (fuel : Nat) : SccOrder → ProgStT → Res (Outcome ProgStT)
  | [], ps => .ok (.done ps)
  | scc :: rest, ps =>
    match runSccT I V p σ interRule threads dl fuel scc ps with
    | .ok (.done ps') => runSccsT I V p σ interRule threads dl fuel rest ps'
    | other => other

/-- `run_timeout` in a pool of `threads` workers: `update_indices`, then the SCCs in order under the deadline;
`.ok (.done _)` = returned `true`, `.ok (.timedOut _)` = returned `false` -/
def runTimeout (I : Interp E B G P A) (V : Hir.VarsOf E B) (p : Program E B G P A) (ix : IxSets) (order : SccOrder)
    (σ : Sched E B G P A) (interRule : Bool) (threads : Nat) (dl : Deadline) (fuel : Nat) (s : PLSt) :
    Res (Outcome ProgStT) := do
  let s0 ← updateIndices threads σ p ix s
  runSccsT I V p σ interRule threads dl fuel order { st := s0, clock := 0, checks := 0, iters := [] }

end AscentVerif.PhysParLat
