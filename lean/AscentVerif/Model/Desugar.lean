import AscentVerif.Model.Surface
/-!
# The IMPLEMENTED desugaring pipeline (`ascent_macro/src/ascent_syntax.rs`, `desugar_ascent_program`)

In its real order:

1. `rule_expand_macro_invocations` — in-program macros, depth budget 100, per-invocation renaming of the
   variables that originate in the macro body (`body_items_rename_macro_originated_vars`; since fix 3a6dc9a it also
   visits the conditions ATTACHED to a body clause, `r(x) if c`, `r(x) let y = e`: finding F25); items are expanded
   left to right and the FIRST error is returned at once — in rule bodies, macro bodies, the alternatives of a
   disjunction and rule heads alike (`punctuated_try_map`; for heads and disjunctions since fix deae510: before it all
   their items were expanded before an error was looked for, the same answer after exponentially many steps for a
   macro that invokes itself twice per level — finding FM8).  The functions below thread `Except` (and the expansion
   state) through the items in that order, so they have had the first-error behaviour all along;
2. `rule_desugar_disjunction_nodes` — one rule per choice of disjuncts (`products`);
3. `rule_desugar_pattern_args` — `?pat` becomes a variable `__arg_pattern_N` plus `if let pat = __arg_pattern_N`;
4. `rule_desugar_wildcards` — `_` in clause arguments becomes `__N`;
5. `rule_desugar_negation` — `!r(a)` becomes `agg () = not() in r(a)`;
6. `rule_desugar_repeated_vars` — an argument mentioning a variable grounded earlier in the SAME clause becomes a
   fresh variable `x_N` plus `if x_N.eq(&(arg))`.

Variables are `Nat`.  The names the real code generates are modelled by gensym functions whose ranges are pairwise
disjoint and lie at or above `reservedBase`; user programs are expected to stay below (`NoReservedNames`, stated
where it is needed).  Three abstractions, all irrelevant for which names are equal to which:
* the real per-prefix counters of `fresh_ident` (`x_`, `x_1`, `y_`, ..: process wide) and of the per-rule
  `GenSym` of macro expansion (`__x_`, `__x_1`, ..) are one counter each (`gsRep k`, `gsMac k`);
* the identity of a token's span is modelled by tagging: while invocation `j` is being expanded, a variable `x`
  that originates in the macro definition's body is `tagVar j x`; the renaming pass renames exactly the tagged
  names it finds in binding positions (at the positions the real visitors reach), whatever is left is untagged
  (`x` again — the spelling the real token has);
* macro-local variables are `< paramBase`, parameter `i` is the variable `paramBase + i` inside a macro body.
Core Lean only; everything is structurally recursive (the depth budget is the fuel of the expansion).
-/
namespace AscentVerif.Surface
open AscentVerif

def reservedBase : Nat := 1000
def paramBase : Nat := 900
/-- `fresh_ident(prefix)`: `x_`, `x_1`, .. (process-wide counter) -/
def gsRep (k : Nat) : Var := reservedBase + 8 * k
/-- the per-rule `GenSym` of `rule_desugar_wildcards`: `__1`, `__2`, .. -/
def gsWild (k : Nat) : Var := reservedBase + 8 * k + 1
/-- the per-rule `GenSym` of `rule_desugar_pattern_args`: `__arg_pattern_`, `__arg_pattern_1`, .. -/
def gsPat (k : Nat) : Var := reservedBase + 8 * k + 2
/-- the per-rule `GenSym` of macro expansion: `__x_`, `__x_1`, .. -/
def gsMac (k : Nat) : Var := reservedBase + 8 * k + 3
/-- a variable `x` of a macro body while invocation number `j` is being expanded (model of "its span lies in the definition") -/
def tagVar (j x : Nat) : Var := reservedBase + 8 * (j * reservedBase + x) + 4

/-- the macro-local variable behind a tagged name of invocation `j` -/
def untag? (j : Nat) (v : Var) : Option Var :=
  if v ≥ reservedBase ∧ (v - reservedBase) % 8 = 4 ∧ (v - reservedBase) / 8 / reservedBase = j then
    some ((v - reservedBase) / 8 % reservedBase)
  else none

/-- the syntactic operations the pipeline performs on the embedded Rust fragments -/
structure Ops (E B G A : Type) where
  /-- the expression that is just a variable -/
  varE : Var → E
  /-- `v.eq(&(e))` -/
  eqB : Var → E → B
  /-- `::ascent::aggregators::not` -/
  notA : A
  /-- `expr_get_vars` -/
  varsE : E → List Var
  /-- replace the free variables of an expression / test / generator -/
  subE : (Var → E) → E → E
  subB : (Var → E) → B → B
  subG : (Var → E) → G → G

variable {E B G P A M : Type}

/-! ## 1. macro expansion -/

inductive ParamKind where
  | ident
  | expr
deriving DecidableEq, Repr

/-- `macro m($p0: kind, ..) { .. }`; a definition may be invoked in body position (`body`) or head position (`heads`) -/
structure MacroDef (E B G P A : Type) where
  params : List ParamKind
  body : SItems E B G P A (MInv E)
  heads : List (SHead E (MInv E))

inductive ExpandErr where
  | recursive          -- "recursively defined Ascent macro"
  | undefinedMacro
  | badArgs            -- argument parse error
deriving DecidableEq, Repr

/-- what an occurrence of variable `x` of the macro body becomes: parameters are replaced by the arguments, any other
variable `x` by `tag x` -/
def instVar (args : List (MArg E)) (tag : Var → Var) (x : Var) : MArg E :=
  if paramBase ≤ x then args.getD (x - paramBase) (.ident x) else .ident (tag x)

def MArg.toE (ops : Ops E B G A) : MArg E → E
  | .ident v => ops.varE v
  | .expr e => e

/-- a binding position (pattern variable, `let`, `for`, aggregation result): only identifiers make sense there -/
def instBinder (args : List (MArg E)) (tag : Var → Var) (x : Var) : Var :=
  match instVar args tag x with
  | .ident v => v
  | .expr _ => x

def instE (ops : Ops E B G A) (args : List (MArg E)) (tag : Var → Var) (e : E) : E :=
  ops.subE (fun x => (instVar args tag x).toE ops) e

def instCond (ops : Ops E B G A) (args : List (MArg E)) (tag : Var → Var) : Cond E B P → Cond E B P
  | .ifc b => .ifc (ops.subB (fun x => (instVar args tag x).toE ops) b)
  | .letc v e => .letc (instBinder args tag v) (instE ops args tag e)
  | .ifLet p vs e => .ifLet p (vs.map (instBinder args tag)) (instE ops args tag e)

def instSArg (ops : Ops E B G A) (args : List (MArg E)) (tag : Var → Var) : SArg E P → SArg E P
  | .var x => match instVar args tag x with
    | .ident v => .var v
    | .expr e => .expr e
  | .expr e => .expr (instE ops args tag e)
  | .wild => .wild
  | .pat p vs => .pat p (vs.map (instBinder args tag))

def instFItem (ops : Ops E B G A) (args : List (MArg E)) (tag : Var → Var) : FItem E B G P A → FItem E B G P A
  | .clause r as conds => .clause r (as.map (instSArg ops args tag)) (conds.map (instCond ops args tag))
  | .cond c => .cond (instCond ops args tag c)
  | .gen v g => .gen (instBinder args tag v) (ops.subG (fun x => (instVar args tag x).toE ops) g)
  | .agg a => .agg { outs := a.outs.map (instBinder args tag), fn := a.fn, boundArgs := a.boundArgs.map (instBinder args tag), rel := a.rel,
                     args := a.args.map fun
                       | .wild => .wild
                       | .bound v => .bound (instBinder args tag v)
                       | .key e => .key (instE ops args tag e) }
  | .neg r as => .neg r (as.map fun
      | .wild => .wild
      | .expr e => .expr (instE ops args tag e))

def instMInv (ops : Ops E B G A) (args : List (MArg E)) (tag : Var → Var) (inv : MInv E) : MInv E :=
  { mac := inv.mac, args := inv.args.map fun
      | .ident x => instVar args tag x
      | .expr e => .expr (instE ops args tag e) }

mutual
def instItem (ops : Ops E B G A) (args : List (MArg E)) (tag : Var → Var) : SItem E B G P A (MInv E) → SItem E B G P A (MInv E)
  | .flat f => .flat (instFItem ops args tag f)
  | .disj alts => .disj (instAlts ops args tag alts)
  | .mac m => .mac (instMInv ops args tag m)
def instItems (ops : Ops E B G A) (args : List (MArg E)) (tag : Var → Var) : SItems E B G P A (MInv E) → SItems E B G P A (MInv E)
  | .nil => .nil
  | .cons i rest => .cons (instItem ops args tag i) (instItems ops args tag rest)
def instAlts (ops : Ops E B G A) (args : List (MArg E)) (tag : Var → Var) : SAlts E B G P A (MInv E) → SAlts E B G P A (MInv E)
  | .nil => .nil
  | .cons a rest => .cons (instItems ops args tag a) (instAlts ops args tag rest)
end

def instHead (ops : Ops E B G A) (args : List (MArg E)) (tag : Var → Var) : SHead E (MInv E) → SHead E (MInv E)
  | .clause h => .clause { rel := h.rel, args := h.args.map (instE ops args tag) }
  | .mac m => .mac (instMInv ops args tag m)

/-- `parse_args`: one argument per parameter; an `ident` parameter takes an identifier -/
def argsOk : List ParamKind → List (MArg E) → Bool
  | [], [] => true
  | .ident :: ks, .ident _ :: as => argsOk ks as
  | .expr :: ks, _ :: as => argsOk ks as
  | _, _ => false

/-! ### the renaming pass of one invocation -/

def renE (ops : Ops E B G A) (τ : Var → Var) (e : E) : E := ops.subE (fun x => ops.varE (τ x)) e

/-- a condition with every variable renamed -/
def renCond (ops : Ops E B G A) (τ : Var → Var) : Cond E B P → Cond E B P
  | .ifc b => .ifc (ops.subB (fun x => ops.varE (τ x)) b)
  | .letc v e => .letc (τ v) (renE ops τ e)
  | .ifLet p vs e => .ifLet p (vs.map τ) (renE ops τ e)

def renSArg (ops : Ops E B G A) (τ : Var → Var) : SArg E P → SArg E P
  | .var v => .var (τ v)
  | .expr e => .expr (renE ops τ e)
  | .wild => .wild
  | .pat p vs => .pat p (vs.map τ)

/-- rename at the positions `body_item_visit_bound_vars_mut` and `body_item_visit_exprs_free_vars_mut` reach.  The conditions
ATTACHED to a body clause are visited like free-standing ones (fix 3a6dc9a of finding F25; before, they were skipped).
`full = false` is the real code: the list of aggregated variables of an `agg` is not visited (its relation arguments are).
`full = true` renames everywhere. -/
def renFItem (ops : Ops E B G A) (full : Bool) (τ : Var → Var) : FItem E B G P A → FItem E B G P A
  | .clause r as conds => .clause r (as.map (renSArg ops τ)) (conds.map (renCond ops τ))
  | .cond c => .cond (renCond ops τ c)
  | .gen v g => .gen (τ v) (ops.subG (fun x => ops.varE (τ x)) g)
  | .agg a =>
    let bound' := if full then a.boundArgs.map τ else a.boundArgs
    .agg { outs := a.outs.map τ, fn := a.fn, boundArgs := bound', rel := a.rel,
           args := a.args.map fun
             | .wild => .wild
             | .bound v => if bound'.contains (τ v) then .bound (τ v) else .key (ops.varE (τ v))
             | .key e => .key (renE ops τ e) }
  | .neg r as => .neg r (as.map fun
      | .wild => .wild
      | .expr e => .expr (renE ops τ e))

def renMInv (ops : Ops E B G A) (τ : Var → Var) (inv : MInv E) : MInv E :=
  { mac := inv.mac, args := inv.args.map fun
      | .ident x => .ident (τ x)
      | .expr e => .expr (renE ops τ e) }

mutual
def renItem (ops : Ops E B G A) (full : Bool) (τ : Var → Var) : SItem E B G P A (MInv E) → SItem E B G P A (MInv E)
  | .flat f => .flat (renFItem ops full τ f)
  | .disj alts => .disj (renAlts ops full τ alts)
  | .mac m => .mac (renMInv ops τ m)
def renItems (ops : Ops E B G A) (full : Bool) (τ : Var → Var) : SItems E B G P A (MInv E) → SItems E B G P A (MInv E)
  | .nil => .nil
  | .cons i rest => .cons (renItem ops full τ i) (renItems ops full τ rest)
def renAlts (ops : Ops E B G A) (full : Bool) (τ : Var → Var) : SAlts E B G P A (MInv E) → SAlts E B G P A (MInv E)
  | .nil => .nil
  | .cons a rest => .cons (renItems ops full τ a) (renAlts ops full τ rest)
end

/-- `CondClause::bound_vars`: the variables a condition binds (`let` / `if let` patterns) -/
def boundVarsC : Cond E B P → List Var
  | .ifc _ => []
  | .letc v _ => [v]
  | .ifLet _ vs _ => vs

/-- `body_item_get_bound_vars`: the variables in binding positions (clause arguments that are identifiers, pattern variables,
the `let` / `if let` patterns of the conditions attached to a clause — since fix 3a6dc9a —, `let` / `if let` / `for` /
aggregation results of free-standing items) -/
def boundVarsF : FItem E B G P A → List Var
  | .clause _ as conds => (as.flatMap fun
      | .var v => [v]
      | .pat _ vs => vs
      | _ => []) ++ conds.flatMap boundVarsC
  | .cond c => boundVarsC c
  | .gen v _ => [v]
  | .agg a => a.outs
  | .neg _ _ => []

mutual
def boundVarsI : SItem E B G P A M → List Var
  | .flat f => boundVarsF f
  | .disj alts => boundVarsA alts
  | .mac _ => []
def boundVarsS : SItems E B G P A M → List Var
  | .nil => []
  | .cons i rest => boundVarsI i ++ boundVarsS rest
def boundVarsA : SAlts E B G P A M → List Var
  | .nil => []
  | .cons a rest => boundVarsS a ++ boundVarsA rest
end

/-- position of `v` in `l` -/
def indexOf? (v : Var) : List Var → Option Nat
  | [] => none
  | x :: xs => if x = v then some 0 else (indexOf? v xs).map (· + 1)

/-- `macro_originated_vars` / `var_mappings` of invocation `j`: the tagged names in binding positions, each mapped to a fresh
`gsMac` name (numbered from `gs` in order of first occurrence) -/
def originated (j : Nat) (items : SItems E B G P A M) : List Var :=
  ((boundVarsS items).filter fun v => (untag? j v).isSome).eraseDups

def renameMap (j gs : Nat) (items : SItems E B G P A M) (v : Var) : Var :=
  match indexOf? v (originated j items) with
  | some i => gsMac (gs + i)
  | none => v

/-- whatever is still tagged afterwards has its plain spelling -/
def untagMap (j : Nat) (v : Var) : Var := (untag? j v).getD v

structure ExpSt where
  /-- number of invocations expanded so far (the tag of the next one) -/
  inv : Nat := 0
  /-- the per-rule `GenSym` counter of macro expansion -/
  gs : Nat := 0
deriving Repr, DecidableEq

abbrev Defs (E B G P A : Type) := List (MacroDef E B G P A)

/-- expansion of ONE invocation, given the expansion of its (instantiated) body items at the next depth:
`full` selects the real renaming pass (`false`) or the one that also reaches the aggregated variables of an `agg` (`true`) -/
def expandInv (ops : Ops E B G A) (defs : Defs E B G P A) (full : Bool)
    (recur : ExpSt → SItems E B G P A (MInv E) → Except ExpandErr (SItems E B G P A (MInv E) × ExpSt))
    (st : ExpSt) (inv : MInv E) : Except ExpandErr (SItems E B G P A (MInv E) × ExpSt) :=
  match defs[inv.mac]? with
  | none => .error .undefinedMacro
  | some d =>
    if !argsOk d.params inv.args then .error .badArgs else
    let j := st.inv
    let body := instItems ops inv.args (tagVar j) d.body
    match recur { st with inv := j + 1 } body with
    | .error e => .error e
    | .ok (exp, st') =>
      let τ := renameMap j st'.gs exp
      let renamed := renItems ops full τ exp
      .ok (renItems ops true (untagMap j) renamed, { st' with gs := st'.gs + (originated j exp).length })

/-- the alternatives of a disjunction: every alternative is expanded at the next depth, left to right, up to the first
error (`punctuated_try_map`, fix deae510) -/
def expandAltsWith {S : Type} (recur : S → SItems E B G P A (MInv E) → Except ExpandErr (SItems E B G P A (MInv E) × S)) :
    S → SAlts E B G P A (MInv E) → Except ExpandErr (SAlts E B G P A (MInv E) × S)
  | st, .nil => .ok (.nil, st)
  | st, .cons a rest =>
    match recur st a with
    | .error e => .error e
    | .ok (a', st1) =>
      match expandAltsWith recur st1 rest with
      | .error e => .error e
      | .ok (rest', st2) => .ok (.cons a' rest', st2)

/-- the items of one sequence at one depth; `recur` expands at the next depth -/
def expandItemsWith (ops : Ops E B G A) (defs : Defs E B G P A) (full : Bool)
    (recur : ExpSt → SItems E B G P A (MInv E) → Except ExpandErr (SItems E B G P A (MInv E) × ExpSt)) :
    ExpSt → SItems E B G P A (MInv E) → Except ExpandErr (SItems E B G P A (MInv E) × ExpSt)
  | st, .nil => .ok (.nil, st)
  | st, .cons i rest =>
    let one : Except ExpandErr (SItems E B G P A (MInv E) × ExpSt) :=
      match i with
      | .flat f => .ok (.cons (.flat f) .nil, st)
      | .disj alts =>
        match expandAltsWith recur st alts with
        | .error e => .error e
        | .ok (alts', st1) => .ok (.cons (.disj alts') .nil, st1)
      | .mac inv => expandInv ops defs full recur st inv
    match one with
    | .error e => .error e
    | .ok (is, st1) =>
      match expandItemsWith ops defs full recur st1 rest with
      | .error e => .error e
      | .ok (rest', st2) => .ok (is.append rest', st2)

/-- `body_item_expand_macros` applied to every item of a sequence with depth budget `depth`:
an item at budget 0 is the error "recursively defined Ascent macro" -/
def expandBody (ops : Ops E B G A) (defs : Defs E B G P A) (full : Bool) :
    Nat → ExpSt → SItems E B G P A (MInv E) → Except ExpandErr (SItems E B G P A (MInv E) × ExpSt)
  | 0 => fun st items =>
    match items with
    | .nil => .ok (.nil, st)
    | .cons _ _ => .error .recursive
  | d + 1 => fun st items => expandItemsWith ops defs full (expandBody ops defs full d) st items

/-- head position: no renaming (head clauses bind nothing); identifiers of the macro body keep their spelling; the head
items left to right up to the first error (`punctuated_try_map`, fix deae510; a head clause never fails) -/
def expandHeadsWith (ops : Ops E B G A) (defs : Defs E B G P A)
    (recur : List (SHead E (MInv E)) → Except ExpandErr (List (SHead E (MInv E)))) :
    List (SHead E (MInv E)) → Except ExpandErr (List (SHead E (MInv E)))
  | [] => .ok []
  | .clause h :: rest =>
    match expandHeadsWith ops defs recur rest with
    | .error e => .error e
    | .ok rest' => .ok (.clause h :: rest')
  | .mac inv :: rest =>
    match defs[inv.mac]? with
    | none => .error .undefinedMacro
    | some d =>
      if !argsOk d.params inv.args then .error .badArgs else
      match recur (d.heads.map (instHead ops inv.args id)) with
      | .error e => .error e
      | .ok hs =>
        match expandHeadsWith ops defs recur rest with
        | .error e => .error e
        | .ok rest' => .ok (hs ++ rest')

def expandHeads (ops : Ops E B G A) (defs : Defs E B G P A) : Nat → List (SHead E (MInv E)) → Except ExpandErr (List (SHead E (MInv E)))
  | 0 => fun hs =>
    match hs with
    | [] => .ok []
    | _ :: _ => .error .recursive
  | d + 1 => fun hs => expandHeadsWith ops defs (expandHeads ops defs d) hs

def macroDepth : Nat := 100

/-- `rule_expand_macro_invocations`: body first (its own `GenSym`), then the heads -/
def expandRule (ops : Ops E B G A) (defs : Defs E B G P A) (full : Bool) (r : SRule E B G P A (MInv E)) :
    Except ExpandErr (SRule E B G P A (MInv E)) :=
  match expandBody ops defs full macroDepth {} r.body with
  | .error e => .error e
  | .ok (body, _) =>
    match expandHeads ops defs macroDepth r.heads with
    | .error e => .error e
    | .ok heads => .ok { heads := heads, body := body }

/-! ## 2. disjunctions: one flat body per choice of disjuncts -/

mutual
/-- `bitems_desugar` -/
def productsS : SItems E B G P A M → List (List (FItem E B G P A))
  | .nil => [[]]
  | .cons i rest => (productsI i).flatMap fun a => (productsS rest).map fun b => a ++ b
/-- `bitem_desugar`; an unexpanded macro invocation is a panic in the real code: no rule here -/
def productsI : SItem E B G P A M → List (List (FItem E B G P A))
  | .flat f => [[f]]
  | .disj alts => productsA alts
  | .mac _ => []
def productsA : SAlts E B G P A M → List (List (FItem E B G P A))
  | .nil => []
  | .cons a rest => productsS a ++ productsA rest
end

/-! ## 3. pattern arguments (per-rule counter from 0) -/

def patArgs (ops : Ops E B G A) : List (SArg E P) → Nat → List (SArg E P) × List (Cond E B P) × Nat
  | [], k => ([], [], k)
  | .pat p vs :: as, k =>
    let r := patArgs ops as (k + 1)
    (.var (gsPat k) :: r.1, .ifLet p vs (ops.varE (gsPat k)) :: r.2.1, r.2.2)
  | a :: as, k =>
    let r := patArgs ops as k
    (a :: r.1, r.2.1, r.2.2)

def patItems (ops : Ops E B G A) : List (FItem E B G P A) → Nat → List (FItem E B G P A)
  | [], _ => []
  | .clause r as conds :: rest, k =>
    let x := patArgs ops as k
    .clause r x.1 (x.2.1 ++ conds) :: patItems ops rest x.2.2
  | f :: rest, k => f :: patItems ops rest k

/-! ## 4. wildcards (per-rule counter from 1: the `GenSym` is moved past `_` first) -/

def wildArgs : List (SArg E P) → Nat → List (SArg E P) × Nat
  | [], k => ([], k)
  | .wild :: as, k =>
    let r := wildArgs as (k + 1)
    (.var (gsWild k) :: r.1, r.2)
  | a :: as, k =>
    let r := wildArgs as k
    (a :: r.1, r.2)

def wildItems : List (FItem E B G P A) → Nat → List (FItem E B G P A)
  | [], _ => []
  | .clause r as conds :: rest, k =>
    let x := wildArgs as k
    .clause r x.1 conds :: wildItems rest x.2
  | f :: rest, k => f :: wildItems rest k

/-! ## 5. negation -/

def NArg.toAgg : NArg E → AggArg E
  | .wild => .wild
  | .expr e => .key e

def negItem (ops : Ops E B G A) : FItem E B G P A → FItem E B G P A
  | .neg r as => .agg { outs := [], fn := ops.notA, boundArgs := [], rel := r, args := as.map NArg.toAgg }
  | f => f

/-! ## 6. repeated variables (process-wide counter, threaded through the whole program) -/

/-- `grounded_vars: HashMap<Ident, usize>` — the index of the body item where a variable was first grounded -/
abbrev Grounded := List (Var × Nat)

def Grounded.lookup (g : Grounded) (v : Var) : Option Nat :=
  match g with
  | [] => none
  | (w, i) :: rest => if w = v then some i else Grounded.lookup rest v

/-- `entry(v).or_insert(i)` -/
def Grounded.orInsert (g : Grounded) (v : Var) (i : Nat) : Grounded :=
  if (g.lookup v).isSome then g else (v, i) :: g

def SArg.vars (ops : Ops E B G A) : SArg E P → List Var
  | .var v => [v]
  | .expr e => ops.varsE e
  | _ => []

def SArg.toE (ops : Ops E B G A) : SArg E P → E
  | .var v => ops.varE v
  | .expr e => e
  | _ => ops.varE 0

structure RepOut (E B P : Type) where
  args : List (SArg E P)
  conds : List (Cond E B P)
  g : Grounded
  c : Nat

def repArgs (ops : Ops E B G A) (i : Nat) : List (SArg E P) → Grounded → Nat → RepOut E B P
  | [], g, c => ⟨[], [], g, c⟩
  | a :: as, g, c =>
    if (a.vars ops).any (fun v => g.lookup v == some i) then
      let r := repArgs ops i as g (c + 1)
      ⟨.var (gsRep c) :: r.args, .ifc (ops.eqB (gsRep c) (a.toE ops)) :: r.conds, r.g, r.c⟩
    else
      let g1 := match a with
        | .var v => g.orInsert v i
        | _ => g
      let r := repArgs ops i as g1 c
      ⟨a :: r.args, r.conds, r.g, r.c⟩

def orInsertAll (g : Grounded) (vs : List Var) (i : Nat) : Grounded := vs.foldl (fun g v => g.orInsert v i) g

def repItems (ops : Ops E B G A) : List (FItem E B G P A) → Nat → Grounded → Nat → List (FItem E B G P A) × Nat
  | [], _, _, c => ([], c)
  | .clause r as conds :: rest, i, g, c =>
    let x := repArgs ops i as g c
    let y := repItems ops rest (i + 1) x.g x.c
    (.clause r x.args (x.conds ++ conds) :: y.1, y.2)
  | .gen v gn :: rest, i, g, c =>
    let y := repItems ops rest (i + 1) (g.orInsert v i) c
    (.gen v gn :: y.1, y.2)
  | .cond (.ifc b) :: rest, i, g, c =>
    let y := repItems ops rest (i + 1) g c
    (.cond (.ifc b) :: y.1, y.2)
  | .cond (.letc v e) :: rest, i, g, c =>
    let y := repItems ops rest (i + 1) (g.orInsert v i) c
    (.cond (.letc v e) :: y.1, y.2)
  | .cond (.ifLet p vs e) :: rest, i, g, c =>
    let y := repItems ops rest (i + 1) (orInsertAll g vs i) c
    (.cond (.ifLet p vs e) :: y.1, y.2)
  | .agg a :: rest, i, g, c =>
    let y := repItems ops rest (i + 1) (orInsertAll g a.outs i) c
    (.agg a :: y.1, y.2)
  | .neg r as :: rest, i, g, c =>
    let y := repItems ops rest (i + 1) g c
    (.neg r as :: y.1, y.2)

/-! ## the core rule -/

def SArg.toCore : SArg E P → Option (Arg E)
  | .var v => some (.var v)
  | .expr e => some (.expr e)
  | _ => none

def FItem.toCore : FItem E B G P A → Option (Item E B G P A)
  | .clause r as conds => (as.mapM SArg.toCore).map fun as' => .clause r as' conds
  | .cond c => some (.cond c)
  | .gen v g => some (.gen v g)
  | .agg a => some (.agg a)
  | .neg _ _ => none

/-- passes 3–5 (pattern arguments, wildcards, negation) on one disjunction-free body, each with its own per-rule `GenSym` -/
def pwn (ops : Ops E B G A) (flat : List (FItem E B G P A)) : List (FItem E B G P A) :=
  (wildItems (patItems ops flat 0) 1).map (negItem ops)

/-- passes 3–6 on one disjunction-free body; `c` is the process-wide counter of `fresh_ident` -/
def desugarFlat (ops : Ops E B G A) (c : Nat) (flat : List (FItem E B G P A)) : Option (List (Item E B G P A) × Nat) :=
  let b4 := repItems ops (pwn ops flat) 0 [] c
  (b4.1.mapM FItem.toCore).map fun items => (items, b4.2)

def SHead.toCore? : SHead E M → Option (HeadClause E)
  | .clause h => some h
  | .mac _ => none

def desugarFlats (ops : Ops E B G A) (heads : List (HeadClause E)) : List (List (FItem E B G P A)) → Nat → Option (List (Rule E B G P A) × Nat)
  | [], c => some ([], c)
  | flat :: rest, c =>
    match desugarFlat ops c flat with
    | none => none
    | some (body, c1) =>
      match desugarFlats ops heads rest c1 with
      | none => none
      | some (rs, c2) => some ({ heads := heads, body := body } :: rs, c2)

/-- passes 2–6 on one macro-free rule: one core rule per choice of disjuncts, each with all head clauses -/
def desugarRule (ops : Ops E B G A) (c : Nat) (r : SRule E B G P A M) : Option (List (Rule E B G P A) × Nat) :=
  match r.heads.mapM SHead.toCore? with
  | none => none
  | some heads => desugarFlats ops heads (productsS r.body) c

def desugarRules (ops : Ops E B G A) : List (SRule E B G P A M) → Nat → Option (List (Rule E B G P A) × Nat)
  | [], c => some ([], c)
  | r :: rest, c =>
    match desugarRule ops c r with
    | none => none
    | some (rs, c1) =>
      match desugarRules ops rest c1 with
      | none => none
      | some (rs', c2) => some (rs ++ rs', c2)

inductive DesugarErr where
  | expand (e : ExpandErr)
  | leftover          -- a form survived its pass (a panic in the real code; ruled out by `desugarRule_isSome`)
deriving Repr

/-- `desugar_ascent_program`: expand the macros of every rule, then passes 2–6 -/
def desugarProgram (ops : Ops E B G A) (defs : Defs E B G P A) (rules : List (SRule E B G P A (MInv E))) (c : Nat := 0) :
    Except DesugarErr (List (Rule E B G P A)) :=
  match rules.mapM (expandRule ops defs false) with
  | .error e => .error (.expand e)
  | .ok rs =>
    match desugarRules ops rs c with
    | none => .error .leftover
    | some (out, _) => .ok out

end AscentVerif.Surface
