import AscentVerif.Model.Syntax
import AscentVerif.Spec.Datalog
/-!
# The surface rule language (what the user writes) and its DOCUMENTED meaning

Surface rules extend the core rule language of `Model/Syntax.lean` (same `Cond`, `AggClause`,
`HeadClause`, `Interp`) by the sugar of README.MD / MACROS.MD:

* clause arguments `SArg`: a variable, an expression (it may mention earlier columns of the same
  clause), the wildcard `_`, a `?pattern`;
* negation `!r(args)`;
* disjunctions `(a, b | c, d)`, nested to any depth (mutual inductives `SItem` / `SItems` / `SAlts`);
* macro invocations `m!(args)` in body and head position (payload type `M`; C08);
* several head clauses, and rules without body (facts).

`SatS` gives every sugar form its documented meaning DIRECTLY (no desugaring): a disjunction holds
when some disjunct holds; a `?pattern` argument matches the column value against the pattern; a
repeated variable / an expression argument is an equality test against the column; `_` accepts any
value; `!r(args)` holds when no tuple of the final relation matches.  `ConsS` is the one-step
consequence operator of a surface rule: with several head clauses every head clause's fact is a
consequence; with an empty body the facts are unconditional.  Core Lean only.
-/
namespace AscentVerif.Surface
open AscentVerif

/-- argument of a body clause in the surface language -/
inductive SArg (E P : Type) where
  | var (v : Var)
  | expr (e : E)
  | wild                              -- `_`
  | pat (p : P) (vs : List Var)       -- `?pattern`, binding `vs`
deriving Repr

/-- argument of a negated clause `!r(args)`: every argument is an expression or `_` (negation binds nothing) -/
inductive NArg (E : Type) where
  | wild
  | expr (e : E)
deriving Repr

/-- body items without disjunction and macro invocation ("flat" items) -/
inductive FItem (E B G P A : Type) where
  | clause (r : RelId) (args : List (SArg E P)) (conds : List (Cond E B P))
  | cond (c : Cond E B P)
  | gen (v : Var) (g : G)
  | agg (a : AggClause E A)
  | neg (r : RelId) (args : List (NArg E))
deriving Repr

/-- argument of a macro invocation: an identifier (for an `ident` parameter, or an `expr` parameter given a plain variable)
or an expression -/
inductive MArg (E : Type) where
  | ident (v : Var)
  | expr (e : E)
deriving Repr

/-- the payload of a macro invocation `m!(args)`; macros are numbered -/
structure MInv (E : Type) where
  mac : Nat
  args : List (MArg E)
deriving Repr

mutual
/-- a surface body item; `M` is the payload of a macro invocation -/
inductive SItem (E B G P A M : Type) where
  | flat (f : FItem E B G P A)
  | disj (alts : SAlts E B G P A M)
  | mac (m : M)
/-- a comma separated sequence of items -/
inductive SItems (E B G P A M : Type) where
  | nil
  | cons (i : SItem E B G P A M) (rest : SItems E B G P A M)
/-- the alternatives of one disjunction -/
inductive SAlts (E B G P A M : Type) where
  | nil
  | cons (a : SItems E B G P A M) (rest : SAlts E B G P A M)
end

/-- a head item: a head clause or a macro invocation -/
inductive SHead (E M : Type) where
  | clause (h : HeadClause E)
  | mac (m : M)

structure SRule (E B G P A M : Type) where
  heads : List (SHead E M)
  body : SItems E B G P A M

variable {E B G P A M : Type}

def SItems.append : SItems E B G P A M → SItems E B G P A M → SItems E B G P A M
  | .nil, ys => ys
  | .cons i rest, ys => .cons i (SItems.append rest ys)

def SItems.ofList : List (SItem E B G P A M) → SItems E B G P A M
  | [] => .nil
  | i :: is => .cons i (SItems.ofList is)

def SItems.toList : SItems E B G P A M → List (SItem E B G P A M)
  | .nil => []
  | .cons i rest => i :: SItems.toList rest

def SAlts.ofList : List (SItems E B G P A M) → SAlts E B G P A M
  | [] => .nil
  | a :: as => .cons a (SAlts.ofList as)

def SAlts.toList : SAlts E B G P A M → List (SItems E B G P A M)
  | .nil => []
  | .cons a rest => a :: SAlts.toList rest

/-! ## documented meaning -/

/-- match the arguments of one surface clause against a tuple, left to right; `ρ` is the environment so far
(it already contains the earlier columns of this clause): a variable binds at its first occurrence and is an
equality test afterwards; an expression is an equality test and sees the earlier columns; `_` matches
anything; a pattern must match and binds its variables -/
def matchSArgs (I : Interp E B G P A) : List (SArg E P) → Tuple → Env → Option Env
  | [], [], ρ => some ρ
  | .var v :: as, x :: xs, ρ =>
      match ρ.get? v with
      | some y => if x = y then matchSArgs I as xs ρ else none
      | none => matchSArgs I as xs ((v, x) :: ρ)
  | .expr e :: as, x :: xs, ρ => if I.expr e ρ = x then matchSArgs I as xs ρ else none
  | .wild :: as, _ :: xs, ρ => matchSArgs I as xs ρ
  | .pat p vs :: as, x :: xs, ρ =>
      (I.pat p x).bind fun ys => if ys.length = vs.length then matchSArgs I as xs (vs.zip ys ++ ρ) else none
  | _, _, _ => none

/-- does the tuple match the arguments of a negated clause -/
def matchNArgs (I : Interp E B G P A) (ρ : Env) : List (NArg E) → Tuple → Bool
  | [], [] => true
  | .wild :: as, _ :: xs => matchNArgs I ρ as xs
  | .expr e :: as, x :: xs => decide (I.expr e ρ = x) && matchNArgs I ρ as xs
  | _, _ => false

/-- one flat item as a transition between environments. `agg r` is the complete (final) content of relation `r`
(stratified semantics, as in `Spec/Datalog.lean`) -/
def StepF (I : Interp E B G P A) (D : DB) (agg : RelId → List Tuple) : FItem E B G P A → Env → Env → Prop
  | .clause r args conds, ρ, ρ' => ∃ t ρ₁, D ⟨r, t⟩ ∧ matchSArgs I args t ρ = some ρ₁ ∧ satConds I conds ρ₁ = some ρ'
  | .cond c, ρ, ρ' => satCond I c ρ = some ρ'
  | .gen v g, ρ, ρ' => ∃ x, x ∈ I.gen g ρ ∧ ρ' = (v, x) :: ρ
  | .agg a, ρ, ρ' => ρ' ∈ aggEnvs I a ρ (agg a.rel)
  | .neg r args, ρ, ρ' => ρ' = ρ ∧ ∀ t ∈ agg r, matchNArgs I ρ args t = false

/-- a sequence of flat items -/
def SatF (I : Interp E B G P A) (D : DB) (agg : RelId → List Tuple) : List (FItem E B G P A) → Env → Env → Prop
  | [], ρ, ρ' => ρ' = ρ
  | f :: fs, ρ, ρ' => ∃ ρ₁, StepF I D agg f ρ ρ₁ ∧ SatF I D agg fs ρ₁ ρ'

mutual
/-- the documented meaning of a surface body: items left to right -/
def SatS (I : Interp E B G P A) (D : DB) (agg : RelId → List Tuple) : SItems E B G P A M → Env → Env → Prop
  | .nil, ρ, ρ' => ρ' = ρ
  | .cons i rest, ρ, ρ' => ∃ ρ₁, SatI I D agg i ρ ρ₁ ∧ SatS I D agg rest ρ₁ ρ'
/-- a disjunction holds when some disjunct holds; an unexpanded macro invocation has no meaning here -/
def SatI (I : Interp E B G P A) (D : DB) (agg : RelId → List Tuple) : SItem E B G P A M → Env → Env → Prop
  | .flat f, ρ, ρ' => StepF I D agg f ρ ρ'
  | .disj alts, ρ, ρ' => SatA I D agg alts ρ ρ'
  | .mac _, _, _ => False
def SatA (I : Interp E B G P A) (D : DB) (agg : RelId → List Tuple) : SAlts E B G P A M → Env → Env → Prop
  | .nil, _, _ => False
  | .cons a rest, ρ, ρ' => SatS I D agg a ρ ρ' ∨ SatA I D agg rest ρ ρ'
end

/-- one-step consequences of a surface rule: the body holds (from the empty environment) and the fact is
denoted by one of the head clauses.  Several head clauses: each contributes; empty body: unconditional. -/
def ConsS (I : Interp E B G P A) (r : SRule E B G P A M) (agg : RelId → List Tuple) (D : DB) (f : Fact) : Prop :=
  ∃ ρ, SatS I D agg r.body [] ρ ∧ ∃ h, SHead.clause h ∈ r.heads ∧ f = headFact I h ρ

/-- one-step consequences of a list of surface rules -/
def ConsSL (I : Interp E B G P A) (rs : List (SRule E B G P A M)) (agg : RelId → List Tuple) (D : DB) (f : Fact) : Prop :=
  ∃ r ∈ rs, ConsS I r agg D f

/-- the least model of a surface program (same shape as `Derivable`) -/
def DerivableS (I : Interp E B G P A) (rs : List (SRule E B G P A M)) (agg : RelId → List Tuple) (inp : DB) (f : Fact) : Prop :=
  ∀ D : DB, (∀ g, inp g → D g) → (∀ g, ConsSL I rs agg D g → D g) → D f

end AscentVerif.Surface
