import AscentVerif.Model.StdInterp
import AscentVerif.Spec.LatticeLfp
/-!
# The `i64` (max) and `Dual<i64>` (min) lattice columns of the standard interpretation
satisfy what the engine relies on (`LatOrder`) — used by `std_latOrder_maxmin` of C03.
-/
namespace AscentVerif.Std
open AscentVerif

theorem intOf_int (n : Int) : intOf (.int n) = n := rfl

theorem joinMut_maxInt (a b : Val) :
    LatKind.joinMut .maxInt a b = if intOf a < intOf b then (.int (intOf b), true) else (a, false) := by
  simp only [LatKind.joinMut, Lat.joinMut]
  rcases Int.lt_trichotomy (intOf a) (intOf b) with h | h | h
  · have hc : Lat.LinOrd.cmp (intOf a) (intOf b) = .lt := Int.compare_eq_lt.mpr h
    simp [hc, h]
  · have hc : Lat.LinOrd.cmp (intOf a) (intOf b) = .eq := Int.compare_eq_eq.mpr h
    have : ¬ intOf a < intOf b := by omega
    simp [hc, this]
  · have hc : Lat.LinOrd.cmp (intOf a) (intOf b) = .gt := Int.compare_eq_gt.mpr h
    have : ¬ intOf a < intOf b := by omega
    simp [hc, this]

theorem joinMut_minInt (a b : Val) :
    LatKind.joinMut .minInt a b = if intOf b < intOf a then (.int (intOf b), true) else (a, false) := by
  simp only [LatKind.joinMut, Lat.joinMut, Lat.meetMut]
  rcases Int.lt_trichotomy (intOf a) (intOf b) with h | h | h
  · have hc : Lat.LinOrd.cmp (intOf a) (intOf b) = .lt := Int.compare_eq_lt.mpr h
    have : ¬ intOf b < intOf a := by omega
    simp [hc, this]
  · have hc : Lat.LinOrd.cmp (intOf a) (intOf b) = .eq := Int.compare_eq_eq.mpr h
    have : ¬ intOf b < intOf a := by omega
    simp [hc, this]
  · have hc : Lat.LinOrd.cmp (intOf a) (intOf b) = .gt := Int.compare_eq_gt.mpr h
    simp [hc, h]

end AscentVerif.Std
