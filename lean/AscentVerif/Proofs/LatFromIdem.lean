import AscentVerif.Proofs.LatFromQuiet
/-!
# A run over a closed, quiet value changes no row (idempotence of `run()` with lattices, C13)

If the facts of the start value are closed under the rules up to domination (`LClosedRules`) and
every head is quiet (`QClosedRules`), then — for antisymmetric lattice orders — no head update of
the run changes any row vector: relation heads are present already, lattice heads join into a row
that dominates them, and the written value equals the stored one.
-/
namespace AscentVerif.Engine
open AscentVerif

variable {E B G P A : Type}

/-- all row vectors of the SCC state are the given ones -/
def SameRows (R : RelId → List Tuple) (s : SccSt) : Prop := ∀ r, rowsOf s r = R r

/-- the database of given row vectors -/
def DBof (R : RelId → List Tuple) : DB := fun f => f.args ∈ R f.rel

theorem FactsS_of_same {R : RelId → List Tuple} {s : SccSt} (h : SameRows R s) : FactsS s = DBof R := by
  funext f
  simp only [FactsS, DBof, h f.rel]

theorem foldl_inv {σ α : Type} (f : σ → α → σ) (Inv : σ → Prop) :
    ∀ (l : List α), (∀ s a, a ∈ l → Inv s → Inv (f s a)) → ∀ s, Inv s → Inv (l.foldl f s) := by
  intro l
  induction l with
  | nil => intro _ s hs; exact hs
  | cons a l ih =>
    intro step s hs
    exact ih (fun s b hb => step s b (List.mem_cons_of_mem _ hb)) (f s a) (step s a (by simp) hs)

/-- a state predicate kept by every head update of every enumerated instance is kept by a pass -/
theorem evalRules_inv {I : Interp E B G P A} {p : Program E B G P A} {dynR : List RelId}
    (Inv : SccSt → Prop) (Good : Rule E B G P A → Env → Prop) (rules : List (Rule E B G P A))
    (hgood : ∀ rule ∈ rules, ∀ vs s, Inv s → ∀ ρ ∈ evalBody I {} p s rule.body vs [], Good rule ρ)
    (hstep : ∀ rule ∈ rules, ∀ ρ, Good rule ρ → ∀ h ∈ rule.heads, ∀ s, Inv s → Inv (headUpdate I {} p s h ρ)) :
    ∀ s, Inv s → Inv (evalRules I {} p dynR rules s) := by
  unfold evalRules
  refine foldl_inv _ Inv rules ?_
  intro s rule hr hs
  refine foldl_inv _ Inv (variants dynR rule) ?_ s hs
  intro s vs _ hs
  unfold evalVariant
  refine foldl_inv _ Inv (evalBody I {} p s rule.body vs []) ?_ s hs
  intro s' ρ hρ hs'
  refine foldl_inv _ Inv rule.heads ?_ s' hs'
  intro s'' h hh hs''
  exact hstep rule hr ρ (hgood rule hr vs s hs ρ hρ) h hh s'' hs''

section Same
variable {I : Interp E B G P A} {L : LatOrder I} {p : Program E B G P A} {inp : RelId → List Tuple}
  {dynR : List RelId}

theorem snoc_key_val {t : Tuple} (h : t ≠ []) : keyOf t ++ [valOf t] = t := by
  unfold keyOf valOf
  rw [List.getLastD_eq_getLast?, List.getLast?_eq_some_getLast h]
  exact List.dropLast_concat_getLast h

theorem headLat_same (hanti : ∀ r a b, L.le r a b → L.le r b a → a = b)
    {s : SccSt} (hinv : LInv I L p inp dynR s) (r : RelId) (row : Tuple)
    (hlat : (declOf p r).lat = true) (hdyn : dynR.contains r = true)
    (hdom : Dominated I L p (FactsS s) ⟨r, row⟩) (hq : Quiet I p (FactsS s) ⟨r, row⟩) :
    ∀ r', rowsOf (headLat I {} s r row) r' = rowsOf s r' := by
  have hr := hinv.dlt r hdyn
  have hr' : r < s.rels.length := by rw [hinv.wf.len]; exact hr
  obtain ⟨d, hd⟩ := findDyn_of_dyn hinv hdyn
  have hcov := hinv.wf.cover r d hd
  have hkeys := hinv.keys r hlat
  obtain ⟨t, ht, hk, hv⟩ := (dominated_lat I L p (f := ⟨r, row⟩) hlat).mp hdom
  have ht' : t ∈ rowsOf s r := ht
  have hk' : keyOf t = keyOf row := hk
  have hv' : L.le r (valOf row) (valOf t) := hv
  rw [headLat_eq, hd]
  simp only []
  cases hkr : keyRow (rowsOf s r) d (keyOf row) with
  | none => exact absurd hk' (keyRow_fresh hcov hkr t ht')
  | some i =>
    obtain ⟨hi, hkey⟩ := keyRow_found hcov hkr
    simp only []
    by_cases hj : (I.joinMut r (valOf (rowAt (rowsOf s r) i)) (valOf row)).2 = true
    · rw [if_pos hj]
      intro r'
      by_cases hne : r' = r
      · subst hne
        rw [joinSt_rows_self hr']
        have hti : rowAt (rowsOf s r') i = t :=
          row_of_key hkeys (rowAt_mem _ _ hi) ht' (hkey.trans hk'.symm)
        have hx : (I.joinMut r' (valOf (rowAt (rowsOf s r') i)) (valOf row)).1 = valOf (rowAt (rowsOf s r') i) := by
          apply hanti
          · exact L.join_least _ _ _ _ (L.refl _ _) (by rw [hti]; exact hv')
          · exact L.join_left _ _ _
        have hne0 : rowAt (rowsOf s r') i ≠ [] := by
          intro h0
          have hq' := hq hlat (by
            show [] ∈ rowsOf s r'
            rw [← h0]; exact rowAt_mem _ _ hi) (by
            show keyOf row = []
            rw [← hkey, h0]; rfl)
          rw [h0] at hj
          have hq'' : (I.joinMut r' Val.unit (valOf row)).2 = false := hq'
          have : valOf ([] : Tuple) = Val.unit := rfl
          rw [this, hq''] at hj
          cases hj
        unfold joinRows
        rw [hx, snoc_key_val hne0, setNth_eq_set, rowAt_eq_getElem _ _ hi]
        exact List.set_getElem_self hi
      · exact joinSt_rows_ne hne
    · rw [if_neg hj]
      intro r'; rfl

theorem headRel_same {s : SccSt} (hinv : LInv I L p inp dynR s) (r : RelId) (row : Tuple)
    (hlat : (declOf p r).lat = false) (hdyn : dynR.contains r = true)
    (hdom : Dominated I L p (FactsS s) ⟨r, row⟩) : headRel s r row = s := by
  obtain ⟨d, hd⟩ := findDyn_of_dyn hinv hdyn
  have hcov := hinv.wf.cover r d hd
  have hmem : row ∈ rowsOf s r := (dominated_rel I L p (f := ⟨r, row⟩) hlat).mp hdom
  rw [headRel_eq, hd]
  simp only []
  rw [if_pos]
  rw [Bool.or_eq_true, Bool.or_eq_true, mem_bagTuples, mem_bagTuples, mem_bagTuples]
  obtain ⟨i, hi, h⟩ := (mem_iff_rowAt _ _).mp hmem
  rcases (hcov i).mp hi with hi | hi | hi
  · exact .inl (.inl ⟨i, hi, h⟩)
  · exact .inl (.inr ⟨i, hi, h⟩)
  · exact .inr ⟨i, hi, h⟩

theorem headUpdate_same (hanti : ∀ r a b, L.le r a b → L.le r b a → a = b)
    {s : SccSt} (hinv : LInv I L p inp dynR s) (h : HeadClause E) (ρ : Env)
    (hdyn : dynR.contains h.rel = true)
    (hdom : Dominated I L p (FactsS s) (headFact I h ρ)) (hq : Quiet I p (FactsS s) (headFact I h ρ)) :
    ∀ r', rowsOf (headUpdate I {} p s h ρ) r' = rowsOf s r' := by
  unfold headUpdate
  cases hlat : (declOf p h.rel).lat with
  | true => exact headLat_same hanti hinv h.rel _ hlat hdyn hdom hq
  | false =>
    intro r'
    simp only [Bool.false_eq_true, if_false]
    rw [headRel_same hinv h.rel _ hlat hdyn hdom]

variable (hanti : ∀ r a b, L.le r a b → L.le r b a → a = b) (R : RelId → List Tuple)
  (hcl : LClosedRules I L p p.rules (DBof R)) (hqcl : QClosedRules I p p.rules (DBof R))

include hanti hcl hqcl in
/-- one pass changes no row -/
theorem evalRules_same (rules : List (Rule E B G P A))
    (hrules : ∀ rule ∈ rules, rule ∈ p.rules) (haf : ∀ rule ∈ rules, rule.aggFree = true)
    (hdyn : ∀ rule ∈ rules, ∀ h ∈ rule.heads, dynR.contains h.rel = true)
    (s : SccSt) (hinv : LInv I L p inp dynR s) (hsame : SameRows R s) :
    SameRows R (evalRules I {} p dynR rules s) := by
  refine (evalRules_inv (fun s => LInv I L p inp dynR s ∧ SameRows R s)
    (fun rule ρ => ∀ h ∈ rule.heads, BelowF I L p inp (headFact I h ρ) ∧
      Dominated I L p (DBof R) (headFact I h ρ) ∧ Quiet I p (DBof R) (headFact I h ρ))
    rules ?_ ?_ s ⟨hinv, hsame⟩).2
  · intro rule hr vs s hs ρ hρ h hh
    have hsv := SatV_of_evalBody I {} p s rule.body vs [] ρ (haf rule hr) hρ
    have hsat : Sat I (FactsS s) nAgg rule.body [] ρ :=
      SatV.toSat (fun r v t hv => view_sub_rows' {} p hs.1.wf hv) hsv
    rw [FactsS_of_same hs.2] at hsat
    exact ⟨belowF_evalBody rule (hrules rule hr) (haf rule hr) vs s hs.1 ρ hρ h hh,
      hcl rule (hrules rule hr) ρ hsat h hh, hqcl rule (hrules rule hr) ρ hsat h hh⟩
  · intro rule hr ρ hg h hh s hs
    obtain ⟨hbf, hdom, hq⟩ := hg h hh
    rw [← FactsS_of_same hs.2] at hdom hq
    refine ⟨(headUpdate_step hs.1 h ρ (hdyn rule hr h hh) hbf).1, ?_⟩
    intro r'
    rw [headUpdate_same hanti hs.1 h ρ (hdyn rule hr h hh) hdom hq r']
    exact hs.2 r'

include hanti hcl hqcl in
theorem sccLoop_same (rules : List (Rule E B G P A))
    (hrules : ∀ rule ∈ rules, rule ∈ p.rules) (haf : ∀ rule ∈ rules, rule.aggFree = true)
    (hdyn : ∀ rule ∈ rules, ∀ h ∈ rule.heads, dynR.contains h.rel = true)
    (dl : Deadline) : ∀ (fuel : Nat) (rs rs' : RunSt),
      LLoopInv I L p inp dynR rules (hasDyn dynR) rs.st → SameRows R rs.st →
      sccLoop I {} p dynR rules dl fuel rs = .done rs' → SameRows R rs'.st := by
  intro fuel
  induction fuel with
  | zero => intro rs rs' _ _ h; simp [sccLoop] at h
  | succ fuel ih =>
    intro rs rs' hinv hsame h
    obtain ⟨hinv', _⟩ := iter_step' rules hrules haf hdyn rs.st hinv
    have hsame' : SameRows R (shift (evalRules I {} p dynR rules { rs.st with changed := false })) :=
      evalRules_same hanti R hcl hqcl rules hrules haf hdyn _ (LInv_reset hinv.inv) hsame
    simp only [sccLoop] at h
    split at h
    · simp only [Outcome.done.injEq] at h
      subst h
      exact hsame'
    · split at h
      · cases h
      · exact ih _ rs' (hinv'.weaken fun _ _ => trivial) hsame' h

theorem rows_leave {s : SccSt} (hinv : LInv I L p inp dynR s) (r : RelId) :
    (relSt (leaveScc s) r).rows = rowsOf s r := by
  have hwf := hinv.wf
  have hdlt : ∀ d ∈ s.dyn, d.rel < s.rels.length := by
    intro d hd
    rw [hwf.len]
    apply hinv.dlt
    rw [← hwf.dyn_iff, hwf.uniq d hd]; rfl
  rw [leaveScc_eq]; exact leave_rows r s.dyn s.rels hdlt

include hanti hcl hqcl in
theorem runScc_same (haf : ∀ r ∈ p.rules, r.aggFree = true)
    (hh : ∀ r ∈ p.rules, ∀ h ∈ r.heads, h.rel < p.rels.length)
    (dl : Deadline) (fuel : Nat) (scc : List Nat) (ps ps' : ProgSt)
    (hp : LPInv I L p inp ps.st) (hsame : ∀ r, (relSt ps.st r).rows = R r)
    (h : runScc I {} p dl fuel scc ps = .done ps') :
    ∀ r, (relSt ps'.st r).rows = R r := by
  have hrules := sccRules_sub p scc
  have hafs : ∀ rule ∈ sccRules p scc, rule.aggFree = true := fun r hr => haf r (hrules r hr)
  have hdyn : ∀ rule ∈ sccRules p scc, ∀ h ∈ rule.heads, (dynRels p scc).contains h.rel = true :=
    fun rule hr h hhd => (dynRels_mem p scc h.rel).mpr ⟨rule, hr, h, hhd, rfl⟩
  have hlt : ∀ r, (dynRels p scc).contains r = true → r < p.rels.length := by
    intro r hr
    obtain ⟨rule, hrule, h, hhd, rfl⟩ := (dynRels_mem p scc r).mp hr
    exact hh rule (hrules rule hrule) h hhd
  have hinv0 := LLoopInv_enter (dynRels p scc) hlt hp (sccRules p scc)
  have hb0 : LBase I L p (dynRels p scc) ps.st (enterScc ps.st (dynRels p scc)) := LBase_enter ps.st (dynRels p scc)
  have hs0 : SameRows R (enterScc ps.st (dynRels p scc)) := by
    intro r
    simp only [rowsOf, enterScc_rels]; exact hsame r
  simp only [runScc] at h
  split at h
  · split at h
    · rename_i rs hloop
      simp only [Outcome.done.injEq] at h
      subst h
      obtain ⟨hinv, _, _⟩ := sccLoop_spec' (sccRules p scc) hrules hafs hdyn dl ps.st fuel _ rs hinv0 hb0 hloop
      have hs := sccLoop_same hanti R hcl hqcl (sccRules p scc) hrules hafs hdyn dl fuel _ rs hinv0 hs0 hloop
      intro r
      show (relSt (leaveScc rs.st) r).rows = R r
      rw [rows_leave hinv.inv]; exact hs r
    · cases h
    · cases h
  · split at h
    · cases h
    · simp only [Outcome.done.injEq] at h
      subst h
      obtain ⟨hinv, _⟩ := iter_step' (sccRules p scc) hrules hafs hdyn _ hinv0
      have hs : SameRows R (evalRules I {} p (dynRels p scc) (sccRules p scc) (enterScc ps.st (dynRels p scc))) :=
        evalRules_same hanti R hcl hqcl (sccRules p scc) hrules hafs hdyn _ hinv0.inv hs0
      have hinv2 : LInv I L p inp (dynRels p scc) (shift (shift (evalRules I {} p (dynRels p scc) (sccRules p scc)
          (enterScc ps.st (dynRels p scc))))) := LInv_shift hinv.inv
      intro r
      show (relSt (leaveScc _) r).rows = R r
      rw [rows_leave hinv2]; exact hs r

include hanti hcl hqcl in
theorem runSccs_same (haf : ∀ r ∈ p.rules, r.aggFree = true)
    (hh : ∀ r ∈ p.rules, ∀ h ∈ r.heads, h.rel < p.rels.length)
    (dl : Deadline) (fuel : Nat) : ∀ (rest : SccOrder) (ps ps' : ProgSt),
    LPInv I L p inp ps.st → (∀ r, (relSt ps.st r).rows = R r) →
    runSccs I {} p dl fuel rest ps = .done ps' → ∀ r, (relSt ps'.st r).rows = R r := by
  intro rest
  induction rest with
  | nil =>
    intro ps ps' _ hsame h
    simp only [runSccs, Outcome.done.injEq] at h
    subst h
    exact hsame
  | cons scc rest ih =>
    intro ps ps' hp hsame h
    simp only [runSccs] at h
    split at h
    · rename_i ps1 hscc
      obtain ⟨hp1, _, _, _⟩ := runScc_spec' haf hh dl fuel scc ps ps1 hp hscc
      exact ih ps1 ps' hp1 (runScc_same hanti R hcl hqcl haf hh dl fuel scc ps ps1 hp hsame hscc) h
    · rename_i hne'
      cases hr : runScc I {} p dl fuel scc ps with
      | done x => exact absurd hr (hne' x)
      | timedOut x => rw [hr] at h; cases h
      | outOfFuel => rw [hr] at h; cases h

end Same

/-- **a completed run from a closed and quiet value changes no row** -/
theorem run_same {I : Interp E B G P A} {L : LatOrder I} {p : Program E B G P A}
    (hanti : ∀ r a b, L.le r a b → L.le r b a → a = b)
    (haf : ∀ r ∈ p.rules, r.aggFree = true)
    (hh : ∀ r ∈ p.rules, ∀ h ∈ r.heads, h.rel < p.rels.length)
    (o : SccOrder) (dl : Deadline) (fuel : Nat) (s : St) (ps : ProgSt)
    (hs : WFSt' p s)
    (hk : ∀ r, r < p.rels.length → (declOf p r).lat = true → ((relSt s r).rows.map keyOf).Nodup)
    (hcl : LClosedRules I L p p.rules (DBof (rowsFn s))) (hqcl : QClosedRules I p p.rules (DBof (rowsFn s)))
    (hrun : runTimeout I {} p o dl fuel s = .done ps) :
    ∀ r, (relSt ps.st r).rows = (relSt s r).rows := by
  obtain ⟨hp0, _⟩ := LPInv_from (I := I) (L := L) s hs hk
  exact runSccs_same hanti (rowsFn s) hcl hqcl haf hh dl fuel o _ ps hp0
    (fun r => by rw [relSt_updateIndices]; rfl) hrun

end AscentVerif.Engine
