import AscentVerif.Proofs.PhysParLatRun
/-!
# The parallel engine with lattices: the loop of a looping SCC, one SCC, the SCCs in order
-/
namespace AscentVerif.PhysParLat
open AscentVerif AscentVerif.Engine AscentVerif.Index AscentVerif.Phys AscentVerif.PhysLat AscentVerif.PhysPar

variable {E B G P A : Type}

theorem sccLoop_succ (I : Interp E B G P A) (V : Hir.VarsOf E B) (p : Program E B G P A) (σ : PhysPar.Sched E B G P A)
    (interRule : Bool) (dyn : List RelId) (rules : List (Rule E B G P A)) (fuel : Nat) (rs : RunSt) :
    sccLoop I V p σ interRule dyn rules (fuel + 1) rs =
      (iteration I V p σ interRule rs.clock dyn rules rs.st >>= fun s1 =>
       shift s1.1 >>= fun s2 =>
       if !s1.1.pc.changed then pure (some { st := s2, clock := s1.2, iters := rs.iters + 1 })
       else sccLoop I V p σ interRule dyn rules fuel { st := s2, clock := s1.2, iters := rs.iters + 1 }) := rfl

section Loop
variable (I : Interp E B G P A) (L : LatOrder I) (hI : Plan.Ext I) (V : Hir.VarsOf E B) (hS : Plan.Supp I V)
  (hff : ∀ r a b, (I.joinMut r a b).2 = false → (I.joinMut r a b).1 = a)
  (p : Program E B G P A) (ix : IxSets) (inp : RelId → List Tuple) (dynR : List RelId) (rules : List (Rule E B G P A))
  (N : Nat) (hN : 0 < N) (bo : List RelId) (σ : PhysPar.Sched E B G P A) (interRule : Bool)
  (hlt : ∀ r, dynR.contains r = true → r < p.rels.length)
  (har : ∀ r, isLatRel p r = true → 0 < arityOf p r)
  (hrules : ∀ rule ∈ rules, rule ∈ p.rules)
  (hdyn : ∀ rule ∈ rules, ∀ h ∈ rule.heads, dynR.contains h.rel = true)
  (hR : ∀ rule ∈ rules, RuleFitL V p (ixP p ix) rule)
  (hbo : ∀ rule ∈ rules, ∀ r ∈ rule.bodyRels, dynR.contains r = false → bo.contains r = true ∧ r < p.rels.length)

include hI hS hff hN hlt har hrules hdyn hR hbo in
/-- one iteration followed by the merge -/
theorem iterShift_simP (k : Nat) {a : SccSt} {s : PLScc} (h : PIS p ix N bo false a s)
    (hinv : LLoopInv I L p inp dynR rules (hasDyn dynR) a) :
    ∃ s1 k' s2, iteration I V p σ interRule k dynR rules s = .ok (s1, k') ∧ shift s1 = .ok s2 ∧
      ∃ a1, PassNDL I p dynR rules a a1 ∧ a1.changed = s1.pc.changed ∧ PIS p ix N bo false (Engine.shift a1) s2 ∧
        LInv I L p inp dynR a1 := by
  obtain ⟨s1, k', hit, a1, hpass, h1⟩ := iteration_simP I L hI V hS hff p ix inp dynR rules N hN bo σ hlt har hrules hdyn hR
    hbo interRule k h (LInv_reset hinv.inv) hinv.newE
  obtain ⟨hinv1, _, _⟩ := passNDL_spec rules hrules hdyn a a1 (LInv_reset hinv.inv) hpass
  obtain ⟨s2, hsh, g1, g2, g3, g4, _⟩ := shift_simP h1.sim hinv1.wf (fun r hl => hinv1.keys r hl) h1.wf h1.pfl h1.lfl
  exact ⟨s1, k', s2, hit, hsh, a1, hpass, h1.sim.changed, ⟨g1, g2, g3, g4⟩, hinv1⟩

include hI hS hff hN hlt har hrules hdyn hR hbo in
theorem sccLoop_simP :
    ∀ (fuel : Nat) (rs : RunSt) (a : SccSt), LLoopInv I L p inp dynR rules (hasDyn dynR) a → PIS p ix N bo false a rs.st →
      ∃ res, sccLoop I V p σ interRule dynR rules fuel rs = .ok res ∧ ∀ rs', res = some rs' →
        ∃ a', LoopNDL I p dynR rules a a' ∧ PIS p ix N bo false a' rs'.st ∧ LInv I L p inp dynR a' := by
  have haf : ∀ rule ∈ rules, rule.aggFree = true := fun r hr => (hR r hr).aggFree
  intro fuel
  induction fuel with
  | zero =>
    intro rs a _ _
    exact ⟨none, rfl, fun rs' h => by cases h⟩
  | succ fuel ih =>
    intro rs a hinv h
    obtain ⟨s1, k', s2, hit, hsh, a1, hpass, hch, h2, _⟩ := iterShift_simP I L hI V hS hff p ix inp dynR rules N hN bo σ
      interRule hlt har hrules hdyn hR hbo rs.clock h hinv
    obtain ⟨hinv', _⟩ := iter_step_ndl rules hrules haf hdyn a a1 hinv hpass
    rw [sccLoop_succ, hit, bind_ok, hsh, bind_ok]
    cases hc : s1.pc.changed with
    | false =>
      refine ⟨some { st := s2, clock := k', iters := rs.iters + 1 }, rfl, ?_⟩
      intro rs' hrs
      simp only [Option.some.injEq] at hrs
      subst hrs
      exact ⟨_, LoopNDL.exit hpass (by rw [hch, hc]), h2, hinv'.inv⟩
    | true =>
      obtain ⟨res, hres, hspec⟩ := ih { st := s2, clock := k', iters := rs.iters + 1 } (Engine.shift a1)
        (hinv'.weaken fun _ _ => trivial) h2
      refine ⟨res, hres, ?_⟩
      intro rs' hrs
      obtain ⟨a', hloop, g1, g2⟩ := hspec rs' hrs
      exact ⟨a', LoopNDL.more hpass (by rw [hch, hc]) hloop, g1, g2⟩

end Loop

/-! ## one SCC, the SCCs in order -/

theorem runScc_eq (I : Interp E B G P A) (V : Hir.VarsOf E B) (p : Program E B G P A) (σ : PhysPar.Sched E B G P A)
    (interRule : Bool) (threads fuel : Nat) (scc : List Nat) (ps : ProgSt) :
    runScc I V p σ interRule threads fuel scc ps =
      if isLooping p scc then
        sccLoop I V p σ interRule (dynRels p scc) (sccRules p scc) fuel
          { st := enterScc threads p scc ps.st, clock := ps.clock, iters := 0 } >>= fun r =>
        pure (r.map fun rs => { st := leaveScc p scc rs.st, clock := rs.clock, iters := ps.iters ++ [rs.iters] })
      else
        iteration I V p σ interRule ps.clock (dynRels p scc) (sccRules p scc) (enterScc threads p scc ps.st) >>= fun s1 =>
        shift s1.1 >>= fun s2 =>
        shift s2 >>= fun s3 =>
        pure (some { st := leaveScc p scc s3, clock := s1.2, iters := ps.iters ++ [1] }) := rfl

section Run
variable (I : Interp E B G P A) (L : LatOrder I) (hI : Plan.Ext I) (V : Hir.VarsOf E B) (hS : Plan.Supp I V)
  (hff : ∀ r a b, (I.joinMut r a b).2 = false → (I.joinMut r a b).1 = a)
  (p : Program E B G P A) (hp : LatticeProg p) (hb : BodyDeclared p) (ix : IxSets) (inp : RelId → List Tuple)
  (har : ∀ r, isLatRel p r = true → 0 < arityOf p r)
  (hR : ∀ r ∈ p.rules, RuleFitL V p (ixP p ix) r) (σ : PhysPar.Sched E B G P A) (interRule : Bool) (threads : Nat)

include hI hS hff hp hb har hR in
theorem runScc_simP (fuel : Nat) (scc : List Nat) (ps : ProgSt) (st : St)
    (hinv : LPInv I L p inp st) (hs : PStInv p ix (max threads 1) st ps.st) :
    ∃ res, runScc I V p σ interRule threads fuel scc ps = .ok res ∧ ∀ ps', res = some ps' →
      ∃ st', SccNDL I p scc st st' ∧ PStInv p ix (max threads 1) st' ps'.st := by
  obtain ⟨_, hh, _, _⟩ := hp
  have hN : 0 < max threads 1 := by omega
  have hrules := sccRules_sub p scc
  have hRs : ∀ r ∈ sccRules p scc, RuleFitL V p (ixP p ix) r := fun r hr => hR r (hrules r hr)
  have hdyn : ∀ rule ∈ sccRules p scc, ∀ h ∈ rule.heads, (dynRels p scc).contains h.rel = true :=
    fun rule hr h hhd => (dynRels_mem p scc h.rel).mpr ⟨rule, hr, h, hhd, rfl⟩
  have hlt : ∀ r, (dynRels p scc).contains r = true → r < p.rels.length := by
    intro r hr
    obtain ⟨rule, hrule, h, hhd, rfl⟩ := (dynRels_mem p scc r).mp hr
    exact hh rule (hrules rule hrule) h hhd
  have hbo : ∀ rule ∈ sccRules p scc, ∀ r ∈ rule.bodyRels, (dynRels p scc).contains r = false →
      (bodyOnly p scc).contains r = true ∧ r < p.rels.length := by
    intro rule hrule r hr hnd
    refine ⟨?_, hb rule (hrules rule hrule) r hr⟩
    rw [List.contains_iff_mem]
    unfold bodyOnly
    rw [List.mem_filter]
    exact ⟨List.mem_flatMap.mpr ⟨rule, hrule, hr⟩, by rw [hnd]; rfl⟩
  have hinv0 := LLoopInv_enter (dynRels p scc) hlt hinv (sccRules p scc)
  have hfl0 := enter_flags threads p scc hs
  have h0 : PIS p ix (max threads 1) (bodyOnly p scc) false (Engine.enterScc st (dynRels p scc)) (enterScc threads p scc ps.st) :=
    ⟨enter_simP threads p scc hs hlt, enter_wf threads p scc hs, hfl0.1, hfl0.2⟩
  have hdlt : ∀ a : SccSt, WF p.rels.length (dynRels p scc) a → ∀ d ∈ a.dyn, d.rel < a.rels.length := by
    intro a hwf d hd
    rw [hwf.len]; apply hlt
    rw [← hwf.dyn_iff, hwf.uniq d hd]; rfl
  have hleave : ∀ (a : SccSt) (s : PLScc), WF p.rels.length (dynRels p scc) a →
      PIS p ix (max threads 1) (bodyOnly p scc) false a s →
      PStInv p ix (max threads 1) (Engine.leaveScc a) (leaveScc p scc s) :=
    fun a s hwf h => leave_inv p scc h.sim hwf (hdlt a hwf) h.wf h.pfl h.lfl
  rw [runScc_eq]
  by_cases hlp : isLooping p scc = true
  · rw [if_pos hlp]
    obtain ⟨res, hres, hspec⟩ := sccLoop_simP I L hI V hS hff p ix inp (dynRels p scc) (sccRules p scc) (max threads 1) hN
      (bodyOnly p scc) σ interRule hlt har hrules hdyn hRs hbo fuel
      { st := enterScc threads p scc ps.st, clock := ps.clock, iters := 0 } _ hinv0 h0
    rw [hres]
    refine ⟨_, rfl, ?_⟩
    intro ps' h
    simp only [Option.map_eq_some_iff] at h
    obtain ⟨rs, hrs, rfl⟩ := h
    obtain ⟨a', hnd, h', hinva'⟩ := hspec rs hrs
    refine ⟨Engine.leaveScc a', ?_, hleave a' rs.st hinva'.wf h'⟩
    unfold SccNDL
    rw [if_pos hlp]
    exact ⟨a', hnd, rfl⟩
  · rw [if_neg hlp]
    obtain ⟨s1, k', s2, hit, hsh, a1, hpass, _, h2, hinv1⟩ := iterShift_simP I L hI V hS hff p ix inp (dynRels p scc)
      (sccRules p scc) (max threads 1) hN (bodyOnly p scc) σ interRule hlt har hrules hdyn hRs hbo ps.clock h0 hinv0
    have hinv2 := LInv_shift hinv1
    obtain ⟨s3, hsh3, g1, g2, g3, g4, _⟩ := shift_simP h2.sim hinv2.wf (fun r hl => hinv2.keys r hl) h2.wf h2.pfl h2.lfl
    have hinv3 := LInv_shift hinv2
    rw [hit, bind_ok, hsh, bind_ok, hsh3, bind_ok]
    refine ⟨_, rfl, ?_⟩
    intro ps' h
    simp only [Option.some.injEq] at h
    subst h
    refine ⟨Engine.leaveScc (Engine.shift (Engine.shift a1)), ?_, hleave _ s3 hinv3.wf ⟨g1, g2, g3, g4⟩⟩
    unfold SccNDL
    rw [if_neg hlp]
    exact ⟨a1, hpass, rfl⟩

include hI hS hff hp hb har hR in
theorem runSccs_simP (fuel : Nat) : ∀ (order : SccOrder) (ps : ProgSt) (st : St),
    LPInv I L p inp st → PStInv p ix (max threads 1) st ps.st →
    ∃ res, runSccs I V p σ interRule threads fuel order ps = .ok res ∧ ∀ ps', res = some ps' →
      ∃ st', SccsNDL I p order st st' ∧ PStInv p ix (max threads 1) st' ps'.st := by
  intro order
  induction order with
  | nil =>
    intro ps st _ hs
    refine ⟨some ps, rfl, ?_⟩
    intro ps' h
    simp only [Option.some.injEq] at h
    subst h
    exact ⟨st, SccsNDL.nil, hs⟩
  | cons scc rest ih =>
    intro ps st hinv hs
    obtain ⟨res, hres, hspec⟩ := runScc_simP I L hI V hS hff p hp hb ix inp har hR σ interRule threads fuel scc ps st hinv hs
    cases res with
    | none =>
      refine ⟨none, by simp only [runSccs, hres], fun ps' h => by cases h⟩
    | some ps1 =>
      obtain ⟨st1, hnd, hs1⟩ := hspec ps1 rfl
      have hinv1 := (sccNDL_spec hp.1 hp.2.1 scc st st1 hinv hnd).1
      obtain ⟨res2, hres2, hspec2⟩ := ih ps1 st1 hinv1 hs1
      refine ⟨res2, by simp only [runSccs, hres]; exact hres2, ?_⟩
      intro ps' h
      obtain ⟨st2, hnd2, hs2⟩ := hspec2 ps' h
      exact ⟨st2, SccsNDL.cons hnd hnd2, hs2⟩

end Run

end AscentVerif.PhysParLat
