import AscentVerif.Model.EqRelInd
import AscentVerif.Proofs.TrRelBasic
/-!
# The `set_subsumptions` forest of `EqRel` (union_find.rs)

`Dom subs i d`: following `set_subsumptions` from set id `i` ends in the dominant id `d`.
`Ranked subs r`: a rank that strictly increases along every subsumption edge and is bounded by
the size of the map — the invariant that makes the recursion of `get_dominant_id` terminate within
the model's fuel, is untouched by path compression and is re-established by a union of two roots.
-/
namespace AscentVerif.EqRelM
open AscentVerif.TrRel (Res unwrap alGet alSet alGet_alSet)
open AscentVerif.TrRel.TrRel (getDominantIdAux getDominantIdMutAux)

abbrev Subs := List (Nat × Nat)

inductive Dom (subs : Subs) : Nat → Nat → Prop where
  | root {i : Nat} : alGet subs i = none → Dom subs i i
  | step {i j d : Nat} : alGet subs i = some j → Dom subs j d → Dom subs i d

theorem Dom.is_root {subs : Subs} {i d : Nat} (h : Dom subs i d) : alGet subs d = none := by
  induction h with
  | root h => exact h
  | step _ _ ih => exact ih

theorem Dom.functional {subs : Subs} {i d d' : Nat} (h : Dom subs i d) (h' : Dom subs i d') : d = d' := by
  induction h generalizing d' with
  | root hi =>
    cases h' with
    | root _ => rfl
    | step hj _ => rw [hi] at hj; cases hj
  | step hi _ ih =>
    cases h' with
    | root hi' => rw [hi] at hi'; cases hi'
    | step hj hd => rw [hi] at hj; cases hj; exact ih hd

theorem Dom.of_root {subs : Subs} {d d' : Nat} (h : alGet subs d = none) (h' : Dom subs d d') : d' = d :=
  Dom.functional h' (.root h)

def Ranked (subs : Subs) (r : Nat → Nat) : Prop :=
  (∀ i j, alGet subs i = some j → r i < r j) ∧ ∀ i, r i ≤ subs.length

theorem ranked_nil : Ranked [] fun _ => 0 := ⟨fun _ _ h => by simp [alGet] at h, fun _ => Nat.le_refl _⟩

theorem Dom.rank_le {subs : Subs} {r : Nat → Nat} (hr : Ranked subs r) {i d : Nat} (h : Dom subs i d) : r i ≤ r d := by
  induction h with
  | root _ => exact Nat.le_refl _
  | step hi _ ih => exact Nat.le_of_lt (Nat.lt_of_lt_of_le (hr.1 _ _ hi) ih)

theorem Dom.rank_lt {subs : Subs} {r : Nat → Nat} (hr : Ranked subs r) {i d p : Nat} (h : Dom subs i d)
    (hp : alGet subs i = some p) : r i < r d := by
  cases h with
  | root hi => rw [hi] at hp; cases hp
  | step hi hd => exact Nat.lt_of_lt_of_le (hr.1 _ _ hi) (hd.rank_le hr)

/-! ## `get_dominant_id` -/

theorem getDomAux_sound {subs : Subs} : ∀ (fuel i d : Nat), getDominantIdAux subs i fuel = .ok d → Dom subs i d := by
  intro fuel
  induction fuel with
  | zero => intro i d h; simp [getDominantIdAux] at h
  | succ n ih =>
    intro i d h
    unfold getDominantIdAux at h
    split at h
    · rename_i dom hd
      exact .step hd (ih _ _ h)
    · rename_i hd
      cases h
      exact .root hd

theorem getDomAux_complete {subs : Subs} {r : Nat → Nat} (hr : Ranked subs r) :
    ∀ (fuel i : Nat), subs.length < fuel + r i → ∃ d, getDominantIdAux subs i fuel = .ok d := by
  intro fuel
  induction fuel with
  | zero =>
    intro i h
    have := hr.2 i
    omega
  | succ n ih =>
    intro i h
    unfold getDominantIdAux
    split
    · rename_i dom hd
      have := hr.1 _ _ hd
      exact ih dom (by omega)
    · exact ⟨i, rfl⟩

/-- under the rank invariant the model's fuel suffices: `get_dominant_id` is total and computes `Dom` -/
theorem getDominantId_spec {e : EqRel} {r : Nat → Nat} (hr : Ranked e.subs r) (i : Nat) :
    ∃ d, e.getDominantId i = .ok d ∧ Dom e.subs i d := by
  obtain ⟨d, hd⟩ := getDomAux_complete hr (e.subs.length + 1) i (by omega)
  exact ⟨d, hd, getDomAux_sound _ _ _ hd⟩

theorem getDominantId_eq {e : EqRel} {r : Nat → Nat} (hr : Ranked e.subs r) {i d : Nat} (h : Dom e.subs i d) :
    e.getDominantId i = .ok d := by
  obtain ⟨d', hd', hdom⟩ := getDominantId_spec hr i
  rw [hd', Dom.functional hdom h]

/-! ## path compression preserves dominant ids -/

/-- the two maps have the same dominant ids and the same size -/
def SameDom (subs subs' : Subs) : Prop := (∀ k d, Dom subs' k d ↔ Dom subs k d) ∧ subs'.length = subs.length

theorem SameDom.refl (subs : Subs) : SameDom subs subs := ⟨fun _ _ => Iff.rfl, rfl⟩

theorem SameDom.trans {a b c : Subs} (h : SameDom a b) (h' : SameDom b c) : SameDom a c :=
  ⟨fun k d => (h'.1 k d).trans (h.1 k d), h'.2.trans h.2⟩

theorem SameDom.roots {a b : Subs} (h : SameDom a b) (k : Nat) : alGet b k = none ↔ alGet a k = none := by
  constructor
  · intro hk; exact ((h.1 k k).1 (.root hk)).is_root
  · intro hk; exact ((h.1 k k).2 (.root hk)).is_root

theorem alSet_length_of_some {κ β : Type} [DecidableEq κ] (m : List (κ × β)) (k : κ) (v v' : β)
    (h : alGet m k = some v') : (alSet m k v).length = m.length := by
  induction m with
  | nil => simp [alGet] at h
  | cons a t ih =>
    obtain ⟨a1, a2⟩ := a
    simp only [alSet]
    by_cases hk : a1 = k
    · simp [hk]
    · simp only [if_neg hk, List.length_cons]
      simp only [alGet, if_neg hk] at h
      rw [ih h]

theorem alSet_length_of_none {κ β : Type} [DecidableEq κ] (m : List (κ × β)) (k : κ) (v : β)
    (h : alGet m k = none) : (alSet m k v).length = m.length + 1 := by
  induction m with
  | nil => simp [alSet]
  | cons a t ih =>
    obtain ⟨a1, a2⟩ := a
    simp only [alSet]
    by_cases hk : a1 = k
    · simp [alGet, hk] at h
    · simp only [if_neg hk, List.length_cons]
      simp only [alGet, if_neg hk] at h
      rw [ih h]

/-- re-pointing a non-root node to its own dominant id changes no dominant id -/
theorem dom_repoint {subs : Subs} {i d p : Nat} (hd : Dom subs i d) (hp : alGet subs i = some p) :
    SameDom subs (alSet subs i d) := by
  have hdi : d ≠ i := by
    intro e; subst e
    rw [hd.is_root] at hp; cases hp
  refine ⟨fun k d' => ⟨fun h => ?_, fun h => ?_⟩, alSet_length_of_some _ _ _ _ hp⟩
  · induction h with
    | @root k hk =>
      rw [alGet_alSet] at hk
      by_cases hik : i = k
      · rw [if_pos hik] at hk; cases hk
      · rw [if_neg hik] at hk
        exact .root hk
    | @step k j d'' hk _ ih =>
      rw [alGet_alSet] at hk
      by_cases hik : i = k
      · rw [if_pos hik] at hk
        cases hk
        subst hik
        have := Dom.of_root hd.is_root ih
        subst this
        exact hd
      · rw [if_neg hik] at hk
        exact .step hk ih
  · induction h with
    | @root k hk =>
      have hik : i ≠ k := by
        intro e; subst e; rw [hk] at hp; cases hp
      exact .root (by rw [alGet_alSet, if_neg hik]; exact hk)
    | @step k j d'' hk hj ih =>
      by_cases hik : i = k
      · subst hik
        have : d'' = d := Dom.functional (.step hk hj) hd
        subst this
        refine .step (j := d'') (by rw [alGet_alSet, if_pos rfl]) (.root ?_)
        rw [alGet_alSet, if_neg (Ne.symm hdi)]
        exact hd.is_root
      · exact .step (by rw [alGet_alSet, if_neg hik]; exact hk) ih

theorem ranked_repoint {subs : Subs} {r : Nat → Nat} (hr : Ranked subs r) {i d p : Nat} (hd : Dom subs i d)
    (hp : alGet subs i = some p) : Ranked (alSet subs i d) r := by
  refine ⟨fun k j hk => ?_, fun k => ?_⟩
  · rw [alGet_alSet] at hk
    by_cases hik : i = k
    · subst hik
      simp only [if_true, Option.some.injEq] at hk
      subst hk
      exact hd.rank_lt hr hp
    · simp only [if_neg hik] at hk
      exact hr.1 _ _ hk
  · rw [alSet_length_of_some _ _ _ _ hp]; exact hr.2 k

/-- `get_dominant_id_update`: total under the rank invariant; returns the dominant id; the compressed map has the
same dominant ids, the same size and the same rank -/
theorem getDomMutAux_spec {subs : Subs} {r : Nat → Nat} (hr : Ranked subs r) :
    ∀ (fuel i : Nat), subs.length < fuel + r i →
      ∃ subs' d, getDominantIdMutAux subs i fuel = .ok (subs', d) ∧ Dom subs i d ∧ SameDom subs subs' ∧ Ranked subs' r := by
  intro fuel
  induction fuel with
  | zero =>
    intro i h
    have := hr.2 i
    omega
  | succ n ih =>
    intro i h
    unfold getDominantIdMutAux
    split
    · rename_i parent hp
      have hlt := hr.1 _ _ hp
      obtain ⟨subs', d, he, hd, hs, hr'⟩ := ih parent (by omega)
      rw [he]
      simp only
      have hdi : Dom subs i d := .step hp hd
      by_cases hne : d ≠ parent
      · rw [if_pos hne]
        -- `i` is still a non-root of the compressed map, with the same dominant id
        have hi' : Dom subs' i d := (hs.1 i d).2 hdi
        have hp' : ∃ p', alGet subs' i = some p' := by
          cases hq : alGet subs' i with
          | none => rw [(hs.roots i).1 hq] at hp; cases hp
          | some p' => exact ⟨p', rfl⟩
        obtain ⟨p', hp'⟩ := hp'
        exact ⟨_, d, rfl, hdi, hs.trans (dom_repoint hi' hp'), ranked_repoint hr' hi' hp'⟩
      · rw [if_neg hne]
        exact ⟨subs', d, rfl, hdi, hs, hr'⟩
    · rename_i hp
      exact ⟨subs, i, rfl, .root hp, SameDom.refl _, hr⟩

/-! ## union of two roots -/

private theorem dom_link_aux {subs : Subs} {xs ys : Nat} (hx : alGet subs xs = none) (hy : alGet subs ys = none) (hne : xs ≠ ys)
    {k z : Nat} (h : Dom subs k z) (hz : z = ys) : Dom (alSet subs ys xs) k xs := by
  have hxs' : alGet (alSet subs ys xs) xs = none := by rw [alGet_alSet, if_neg (Ne.symm hne)]; exact hx
  induction h with
  | @root k hk =>
    subst hz
    exact .step (j := xs) (by rw [alGet_alSet, if_pos rfl]) (.root hxs')
  | @step k j d hk _ ih =>
    subst hz
    have hyk : d ≠ k := by
      intro e; subst e; rw [hy] at hk; cases hk
    exact .step (by rw [alGet_alSet, if_neg hyk]; exact hk) (ih rfl)

theorem dom_link {subs : Subs} {xs ys : Nat} (hx : alGet subs xs = none) (hy : alGet subs ys = none) (hne : xs ≠ ys)
    (k d : Nat) : Dom (alSet subs ys xs) k d ↔ (Dom subs k d ∧ d ≠ ys) ∨ (Dom subs k ys ∧ d = xs) := by
  have hxs' : alGet (alSet subs ys xs) xs = none := by rw [alGet_alSet, if_neg (Ne.symm hne)]; exact hx
  constructor
  · intro h
    induction h with
    | @root k hk =>
      rw [alGet_alSet] at hk
      by_cases hyk : ys = k
      · rw [if_pos hyk] at hk; cases hk
      · rw [if_neg hyk] at hk
        exact .inl ⟨.root hk, Ne.symm hyk⟩
    | @step k j d hk _ ih =>
      rw [alGet_alSet] at hk
      by_cases hyk : ys = k
      · rw [if_pos hyk] at hk
        cases hk
        subst hyk
        rcases ih with ⟨h1, _⟩ | ⟨h1, _⟩
        · have := Dom.of_root hx h1
          exact .inr ⟨.root hy, this⟩
        · have := Dom.of_root hx h1
          exact absurd this.symm hne
      · rw [if_neg hyk] at hk
        rcases ih with ⟨h1, h2⟩ | ⟨h1, h2⟩
        · exact .inl ⟨.step hk h1, h2⟩
        · exact .inr ⟨.step hk h1, h2⟩
  · rintro (⟨h, hd⟩ | ⟨h, rfl⟩)
    · induction h with
      | @root k hk =>
        exact .root (by rw [alGet_alSet, if_neg (Ne.symm hd)]; exact hk)
      | @step k j d hk _ ih =>
        have hyk : ys ≠ k := by
          intro e; subst e; rw [hy] at hk; cases hk
        exact .step (by rw [alGet_alSet, if_neg hyk]; exact hk) (ih hd)
    · exact dom_link_aux hx hy hne h rfl

theorem ranked_link {subs : Subs} {r : Nat → Nat} (hr : Ranked subs r) {xs ys : Nat} (hx : alGet subs xs = none)
    (hy : alGet subs ys = none) (hne : xs ≠ ys) :
    Ranked (alSet subs ys xs) fun i => if i = xs then Nat.max (r xs) (r ys + 1) else r i := by
  refine ⟨fun k j hk => ?_, fun k => ?_⟩
  · rw [alGet_alSet] at hk
    by_cases hyk : ys = k
    · subst hyk
      simp only [if_true, Option.some.injEq] at hk
      subst hk
      simp only [if_neg (Ne.symm hne), if_true]
      exact Nat.lt_of_lt_of_le (Nat.lt_succ_self _) (Nat.le_max_right _ _)
    · simp only [if_neg hyk] at hk
      have hkx : k ≠ xs := by
        intro e; subst e; rw [hx] at hk; cases hk
      have := hr.1 _ _ hk
      simp only [if_neg hkx]
      by_cases hj : j = xs
      · simp only [hj, if_true]
        subst hj
        exact Nat.lt_of_lt_of_le this (Nat.le_max_left _ _)
      · simp only [if_neg hj]; exact this
  · rw [alSet_length_of_none _ _ _ hy]
    by_cases hk : k = xs
    · simp only [hk, if_true]
      have h1 := hr.2 xs
      have h2 := hr.2 ys
      exact Nat.max_le.2 ⟨by omega, by omega⟩
    · simp only [if_neg hk]
      have := hr.2 k
      omega

end AscentVerif.EqRelM
