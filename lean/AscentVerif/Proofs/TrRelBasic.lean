import AscentVerif.Model.TrRelUF
import AscentVerif.Spec.UFSpec
/-!
# Basic facts about the building blocks of `Model/TrRelUF.lean`

Association lists (`alGet` / `alSet`), the set-valued maps used for `set_connections` /
`reverse_set_connections` (`rel m a b` = "`b` is in the set stored under key `a`"), and upper
bounds ("every stored pair satisfies `G`") for each map primitive.
-/
namespace AscentVerif.TrRel

/-! ## `Res` is a lawful monad -/

@[simp] theorem Res.bind_ok {α β : Type} (a : α) (f : α → Res β) : (Res.ok a >>= f) = f a := rfl
@[simp] theorem Res.bind_panic {α β : Type} (f : α → Res β) : ((Res.panic : Res α) >>= f) = .panic := rfl
@[simp] theorem Res.pure_eq {α : Type} (a : α) : (pure a : Res α) = .ok a := rfl

instance : LawfulMonad Res := LawfulMonad.mk'
  (id_map := fun x => by cases x <;> rfl)
  (pure_bind := fun _ _ => rfl)
  (bind_assoc := fun x _ _ => by cases x <;> rfl)

theorem Res.bind_eq_ok {α β : Type} {x : Res α} {f : α → Res β} {b : β} (h : (x >>= f) = .ok b) :
    ∃ a, x = .ok a ∧ f a = .ok b := by
  cases x with
  | ok a => exact ⟨a, rfl, h⟩
  | panic => cases h

theorem unwrap_eq_ok {α : Type} {o : Option α} {a : α} (h : unwrap o = .ok a) : o = some a := by
  cases o with
  | none => cases h
  | some b => cases h; rfl

/-! ## association lists -/

section AL
variable {κ β : Type} [DecidableEq κ]

theorem alGet_alSet (m : List (κ × β)) (k : κ) (v : β) (k' : κ) :
    alGet (alSet m k v) k' = if k = k' then some v else alGet m k' := by
  induction m with
  | nil =>
    simp only [alSet, alGet]
  | cons a t ih =>
    obtain ⟨a1, a2⟩ := a
    simp only [alSet]
    by_cases h : a1 = k
    · subst h
      simp only [if_true, alGet]
      by_cases h' : a1 = k' <;> simp [h']
    · simp only [if_neg h, alGet, ih]
      by_cases h' : a1 = k'
      · subst h'; simp [Ne.symm h]
      · simp [h']

end AL

/-- `b` is in the set stored under `a` -/
def rel (m : NMap) (a b : Nat) : Prop := ∃ s, alGet m a = some s ∧ b ∈ s

theorem rel_alSet (m : NMap) (k : Nat) (s : NSet) (a b : Nat) :
    rel (alSet m k s) a b ↔ if k = a then b ∈ s else rel m a b := by
  unfold rel; rw [alGet_alSet]
  by_cases h : k = a
  · simp [h]
  · simp [h]

theorem mem_nsInsert (s : NSet) (x y : Nat) : y ∈ (nsInsert s x).1 ↔ y ∈ s ∨ y = x := by
  by_cases h : x ∈ s
  · simp only [nsInsert, List.contains_eq_mem, h, decide_true, if_true]
    constructor
    · exact Or.inl
    · rintro (h' | rfl)
      · exact h'
      · exact h
  · simp [nsInsert, h]

theorem mem_nsRemove (s : NSet) (x y : Nat) : y ∈ nsRemove s x ↔ y ∈ s ∧ y ≠ x := by
  simp [nsRemove]

theorem mem_nsDiff (a b : NSet) (y : Nat) : y ∈ nsDiff a b ↔ y ∈ a ∧ y ∉ b := by
  simp [nsDiff]

theorem mem_nsInter (a b : NSet) (y : Nat) : y ∈ nsInter a b ↔ y ∈ a ∧ y ∈ b := by
  simp [nsInter]

theorem mem_nsExtend (s : NSet) (xs : List Nat) (y : Nat) : y ∈ nsExtend s xs ↔ y ∈ s ∨ y ∈ xs := by
  unfold nsExtend
  induction xs generalizing s with
  | nil => simp
  | cons x t ih =>
    simp only [List.foldl_cons, ih, mem_nsInsert, List.mem_cons]
    constructor
    · rintro ((h | h) | h)
      · exact Or.inl h
      · exact Or.inr (Or.inl h)
      · exact Or.inr (Or.inr h)
    · rintro (h | h | h)
      · exact Or.inl (Or.inl h)
      · exact Or.inl (Or.inr h)
      · exact Or.inr h

/-- the value `entry(k).or_default()` refers to -/
theorem entryOrDefault_snd (m : NMap) (k : Nat) : (entryOrDefault m k).2 = (alGet m k).getD [] := by
  unfold entryOrDefault; cases alGet m k <;> rfl

theorem rel_entryOrDefault (m : NMap) (k a b : Nat) : rel (entryOrDefault m k).1 a b ↔ rel m a b := by
  unfold entryOrDefault
  cases h : alGet m k with
  | some s => rfl
  | none =>
    simp only []
    rw [rel_alSet]
    by_cases hk : k = a
    · subst hk; simp [rel, h]
    · simp [hk]

theorem alGet_entryOrDefault_self (m : NMap) (k : Nat) :
    alGet (entryOrDefault m k).1 k = some ((alGet m k).getD []) := by
  unfold entryOrDefault
  cases h : alGet m k with
  | some s => simp [h]
  | none => simp [alGet_alSet]

theorem mem_entryOrDefault_snd (m : NMap) (k b : Nat) : b ∈ (entryOrDefault m k).2 ↔ rel m k b := by
  rw [entryOrDefault_snd]; unfold rel
  cases alGet m k with
  | none => simp
  | some s => simp

theorem rel_entryInsert (m : NMap) (k x a b : Nat) :
    rel (entryInsert m k x).1 a b ↔ rel m a b ∨ (a = k ∧ b = x) := by
  unfold entryInsert
  simp only []
  rw [rel_alSet]
  by_cases h : k = a
  · subst h
    simp only [if_true, mem_nsInsert, mem_entryOrDefault_snd]
    constructor
    · rintro (h | h)
      · exact Or.inl h
      · exact Or.inr ⟨trivial, h⟩
    · rintro (h | ⟨_, h⟩)
      · exact Or.inl h
      · exact Or.inr h
  · simp only [if_neg h, rel_entryOrDefault]
    constructor
    · exact Or.inl
    · rintro (h' | ⟨h', _⟩)
      · exact h'
      · exact absurd h'.symm h

/-- `entryInsert` reports `false` exactly when the pair was already stored -/
theorem entryInsert_snd (m : NMap) (k x : Nat) : (entryInsert m k x).2 = true ↔ ¬ rel m k x := by
  unfold entryInsert
  simp only []
  rw [← mem_entryOrDefault_snd]
  unfold nsInsert
  by_cases h : (entryOrDefault m k).2.contains x
  · simp only [h, if_true]
    simp at h
    simp [h]
  · simp only [h]
    simp at h
    simp [h]

theorem rel_entryExtend (m : NMap) (k : Nat) (xs : List Nat) (a b : Nat) :
    rel (entryExtend m k xs) a b ↔ rel m a b ∨ (a = k ∧ b ∈ xs) := by
  unfold entryExtend
  simp only []
  rw [rel_alSet]
  by_cases h : k = a
  · subst h
    simp only [if_true, mem_nsExtend, mem_entryOrDefault_snd]
    constructor
    · rintro (h | h)
      · exact Or.inl h
      · exact Or.inr ⟨trivial, h⟩
    · rintro (h | ⟨_, h⟩)
      · exact Or.inl h
      · exact Or.inr h
  · simp only [if_neg h, rel_entryOrDefault]
    constructor
    · exact Or.inl
    · rintro (h' | ⟨h', _⟩)
      · exact h'
      · exact absurd h'.symm h

/-! ## upper bounds -/

/-- every pair stored in `m` satisfies `G` -/
def MapLe (G : Nat → Nat → Prop) (m : NMap) : Prop := ∀ a b, rel m a b → G a b

theorem MapLe.insert {G : Nat → Nat → Prop} {m : NMap} (h : MapLe G m) {k x : Nat} (hg : G k x) :
    MapLe G (entryInsert m k x).1 := by
  intro a b hr
  rcases (rel_entryInsert m k x a b).mp hr with h' | ⟨rfl, rfl⟩
  · exact h a b h'
  · exact hg

theorem MapLe.extend {G : Nat → Nat → Prop} {m : NMap} (h : MapLe G m) {k : Nat} {xs : List Nat}
    (hg : ∀ x ∈ xs, G k x) : MapLe G (entryExtend m k xs) := by
  intro a b hr
  rcases (rel_entryExtend m k xs a b).mp hr with h' | ⟨rfl, hb⟩
  · exact h a b h'
  · exact hg b hb

theorem MapLe.set {G : Nat → Nat → Prop} {m : NMap} (h : MapLe G m) {k : Nat} {s : NSet}
    (hg : ∀ x ∈ s, G k x) : MapLe G (alSet m k s) := by
  intro a b hr
  rw [rel_alSet] at hr
  by_cases hk : k = a
  · subst hk; rw [if_pos rfl] at hr; exact hg b hr
  · rw [if_neg hk] at hr; exact h a b hr

theorem MapLe.orDefault {G : Nat → Nat → Prop} {m : NMap} (h : MapLe G m) (k : Nat) :
    MapLe G (entryOrDefault m k).1 := fun a b hr => h a b ((rel_entryOrDefault m k a b).mp hr)

theorem MapLe.of_orDefault_snd {G : Nat → Nat → Prop} {m : NMap} (h : MapLe G m) (k : Nat) :
    ∀ x ∈ (entryOrDefault m k).2, G k x := fun x hx => h k x ((mem_entryOrDefault_snd m k x).mp hx)

theorem MapLe.foldl_insert_key {G : Nat → Nat → Prop} (l : List Nat) (to : Nat) {m : NMap} (h : MapLe G m)
    (hg : ∀ z ∈ l, G z to) : MapLe G (l.foldl (fun c z => (TrRel.entryInsert c z to).1) m) := by
  induction l generalizing m with
  | nil => exact h
  | cons z t ih =>
    simp only [List.foldl_cons]
    exact ih (h.insert (hg z (List.mem_cons_self ..))) fun z' hz' => hg z' (List.mem_cons_of_mem _ hz')

end AscentVerif.TrRel
