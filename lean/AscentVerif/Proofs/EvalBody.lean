import AscentVerif.Model.Engine
import AscentVerif.Spec.Datalog
import AscentVerif.Proofs.Versions
/-!
# Body evaluation = `Sat` over a versioned database (step 2 of the C01 proof)

`SatV I view items vs ρ ρ'` mirrors `Sat`, except that the clause at body position `j` draws
its tuple from `view r vs[j]`.  `evalBody` enumerates exactly the `SatV` derivations over the
view of the current state; the semi-naive covering lemma says that a derivation over
`total ∪ delta` is either a derivation over `total` or a `SatV` derivation of one variant.
-/
namespace AscentVerif.Engine
open AscentVerif

variable {E B G P A : Type}

/-- no aggregated relation is consulted in this fragment (same as `noAgg` of `Props/C01`) -/
def nAgg : RelId → List Tuple := fun _ => []

def aggFreeL (items : List (Item E B G P A)) : Bool := items.all fun i => !i.isAgg

theorem aggFree_eq (r : Rule E B G P A) : r.aggFree = aggFreeL r.body := rfl

inductive SatV (I : Interp E B G P A) (view : RelId → Option Ver → Tuple → Prop) :
    List (Item E B G P A) → List (Option Ver) → Env → Env → Prop where
  | nil (vs : List (Option Ver)) (ρ : Env) : SatV I view [] vs ρ ρ
  | clause {r : RelId} {args : List (Arg E)} {conds : List (Cond E B P)} {rest : List (Item E B G P A)}
      {vs : List (Option Ver)} {ρ ρ₁ ρ₂ ρ₃ : Env} (t : Tuple) :
      view r (vs.headD none) t → matchArgs I ρ args t ρ = some ρ₁ → satConds I conds ρ₁ = some ρ₂ →
      SatV I view rest vs.tail ρ₂ ρ₃ → SatV I view (.clause r args conds :: rest) vs ρ ρ₃
  | cond {c : Cond E B P} {rest : List (Item E B G P A)} {vs : List (Option Ver)} {ρ ρ₁ ρ₂ : Env} :
      satCond I c ρ = some ρ₁ → SatV I view rest vs.tail ρ₁ ρ₂ → SatV I view (.cond c :: rest) vs ρ ρ₂
  | gen {v : Var} {g : G} {rest : List (Item E B G P A)} {vs : List (Option Ver)} {ρ ρ₂ : Env} (x : Val) :
      x ∈ I.gen g ρ → SatV I view rest vs.tail ((v, x) :: ρ) ρ₂ → SatV I view (.gen v g :: rest) vs ρ ρ₂

theorem SatV.mono {I : Interp E B G P A} {view view' : RelId → Option Ver → Tuple → Prop}
    (h : ∀ r v t, view r v t → view' r v t) :
    ∀ {items : List (Item E B G P A)} {vs : List (Option Ver)} {ρ ρ' : Env},
      SatV I view items vs ρ ρ' → SatV I view' items vs ρ ρ' := by
  intro items vs ρ ρ' hs
  induction hs with
  | nil vs ρ => exact .nil vs ρ
  | clause t hd hm hc _ ih => exact .clause t (h _ _ _ hd) hm hc ih
  | cond hc _ ih => exact .cond hc ih
  | gen x hx _ ih => exact .gen x hx ih

theorem SatV.toSat {I : Interp E B G P A} {view : RelId → Option Ver → Tuple → Prop} {D : DB}
    {agg : RelId → List Tuple} (h : ∀ r v t, view r v t → D ⟨r, t⟩) :
    ∀ {items : List (Item E B G P A)} {vs : List (Option Ver)} {ρ ρ' : Env},
      SatV I view items vs ρ ρ' → Sat I D agg items ρ ρ' := by
  intro items vs ρ ρ' hs
  induction hs with
  | nil vs ρ => exact .nil ρ
  | clause t hd hm hc _ ih => exact .clause t (h _ _ _ hd) hm hc ih
  | cond hc _ ih => exact .cond hc ih
  | gen x hx _ ih => exact .gen x hx ih

/-- `Sat` only looks at the relations occurring in the body -/
theorem Sat.congr_rels {I : Interp E B G P A} {agg : RelId → List Tuple} {D D' : DB} :
    ∀ {items : List (Item E B G P A)} {ρ ρ' : Env}, Sat I D agg items ρ ρ' →
      (∀ r ∈ items.filterMap Item.rel?, ∀ t, D ⟨r, t⟩ → D' ⟨r, t⟩) → Sat I D' agg items ρ ρ' := by
  intro items ρ ρ' hs
  induction hs with
  | nil ρ => intro _; exact .nil ρ
  | @clause r args conds rest ρ ρ₁ ρ₂ ρ₃ t hd hm hc _ ih =>
    intro h
    refine .clause t (h r ?_ t hd) hm hc (ih fun r' hr' => h r' ?_)
    · simp [Item.rel?]
    · simp only [List.filterMap_cons, Item.rel?, List.mem_cons]; exact .inr hr'
  | cond hc _ ih =>
    intro h
    exact .cond hc (ih fun r' hr' => h r' (by simpa [List.filterMap_cons, Item.rel?] using hr'))
  | gen x hx _ ih =>
    intro h
    exact .gen x hx (ih fun r' hr' => h r' (by simpa [List.filterMap_cons, Item.rel?] using hr'))
  | @aggr a rest ρ ρ₁ ρ₂ ha _ ih =>
    intro h
    refine .aggr ha (ih fun r' hr' => h r' ?_)
    simp only [List.filterMap_cons, Item.rel?, List.mem_cons]; exact .inr hr'

/-! ## `evalBody` enumerates the `SatV` derivations over the state's view -/

/-- the tuples a clause on `r` with version `v` ranges over -/
def viewOf (cfg : Config) (p : Program E B G P A) (s : SccSt) (r : RelId) (v : Option Ver) (t : Tuple) : Prop :=
  ∃ i ∈ clauseRows cfg p s r v, rowAt (relSt s.rels r).rows i = t

theorem evalBody_of_SatV (I : Interp E B G P A) (cfg : Config) (p : Program E B G P A) (s : SccSt) :
    ∀ {items : List (Item E B G P A)} {vs : List (Option Ver)} {ρ ρ' : Env},
      SatV I (viewOf cfg p s) items vs ρ ρ' → ρ' ∈ evalBody I cfg p s items vs ρ := by
  intro items vs ρ ρ' hs
  induction hs with
  | nil vs ρ => simp [evalBody]
  | @clause r args conds rest vs ρ ρ₁ ρ₂ ρ₃ t hd hm hc _ ih =>
    obtain ⟨i, hi, rfl⟩ := hd
    simp only [evalBody, List.mem_flatMap]
    exact ⟨i, hi, by rw [hm]; simp only []; rw [hc]; exact ih⟩
  | cond hc _ ih =>
    simp only [evalBody]; rw [hc]; exact ih
  | gen x hx _ ih =>
    simp only [evalBody, List.mem_flatMap]
    exact ⟨x, hx, ih⟩

theorem SatV_of_evalBody (I : Interp E B G P A) (cfg : Config) (p : Program E B G P A) (s : SccSt) :
    ∀ (items : List (Item E B G P A)) (vs : List (Option Ver)) (ρ ρ' : Env),
      aggFreeL items = true → ρ' ∈ evalBody I cfg p s items vs ρ → SatV I (viewOf cfg p s) items vs ρ ρ' := by
  intro items
  induction items with
  | nil =>
    intro vs ρ ρ' _ h
    simp only [evalBody, List.mem_singleton] at h
    subst h; exact .nil vs _
  | cons it rest ih =>
    intro vs ρ ρ' haf h
    have haf' : aggFreeL rest = true := by
      simp only [aggFreeL, List.all_cons, Bool.and_eq_true] at haf; exact haf.2
    cases it with
    | clause r args conds =>
      simp only [evalBody, List.mem_flatMap] at h
      obtain ⟨i, hi, h⟩ := h
      split at h
      · simp at h
      · rename_i ρ₁ hm
        split at h
        · simp at h
        · rename_i ρ₂ hc
          exact .clause _ ⟨i, hi, rfl⟩ hm hc (ih _ _ _ haf' h)
    | cond c =>
      simp only [evalBody] at h
      split at h
      · simp at h
      · rename_i ρ₁ hc
        exact .cond hc (ih _ _ _ haf' h)
    | gen v g =>
      simp only [evalBody, List.mem_flatMap] at h
      obtain ⟨x, hx, h⟩ := h
      exact .gen x hx (ih _ _ _ haf' h)
    | agg a =>
      simp [aggFreeL, Item.isAgg] at haf

/-! ## the semi-naive covering lemma, abstractly over a view -/

/-- number of dynamic clauses of a body -/
def dynCount (dynR : List RelId) (items : List (Item E B G P A)) : Nat :=
  ((dynClauses dynR items).filter id).length

theorem dynCount_clause_false (dynR : List RelId) (r : RelId) (args : List (Arg E)) (conds : List (Cond E B P))
    (rest : List (Item E B G P A)) (h : dynR.contains r = false) :
    dynCount dynR (.clause r args conds :: rest) = dynCount dynR rest := by
  simp only [dynCount, dynClauses, h, List.filter_cons]; rfl

theorem dynCount_clause_true (dynR : List RelId) (r : RelId) (args : List (Arg E)) (conds : List (Cond E B P))
    (rest : List (Item E B G P A)) (h : dynR.contains r = true) :
    dynCount dynR (.clause r args conds :: rest) = dynCount dynR rest + 1 := by
  simp only [dynCount, dynClauses, h, List.filter_cons]; rfl

theorem map_none_eq_spread (dc : List Bool) : (dc.map fun _ => (none : Option Ver)) = spread dc [] := by
  induction dc with
  | nil => rfl
  | cons b bs ih => cases b <;> simp [spread, ih]

section Cover
variable (I : Interp E B G P A) (view : RelId → Option Ver → Tuple → Prop) (dynR : List RelId)
  (hnd : ∀ r, dynR.contains r = false → ∀ v v' t, view r v t → view r v' t)
  (hsplit : ∀ r t, view r (some .totalDelta) t → view r (some .total) t ∨ view r (some .delta) t)

include hnd in
/-- a derivation over `total ∪ delta` is a derivation of the all-`TotalDelta` version vector -/
theorem SatV_allTD :
    ∀ {items : List (Item E B G P A)} {ρ ρ' : Env},
      Sat I (fun f => view f.rel (some .totalDelta) f.args) nAgg items ρ ρ' → aggFreeL items = true →
      ∀ m, dynCount dynR items ≤ m →
        SatV I view items (spread (dynClauses dynR items) (List.replicate m Ver.totalDelta)) ρ ρ' := by
  intro items ρ ρ' hs
  induction hs with
  | nil ρ => intro _ m _; exact .nil _ ρ
  | @clause r args conds rest ρ ρ₁ ρ₂ ρ₃ t hd hm hc _ ih =>
    intro haf m hle
    have haf' : aggFreeL rest = true := by
      simp only [aggFreeL, List.all_cons, Bool.and_eq_true] at haf; exact haf.2
    cases hdy : dynR.contains r with
    | false =>
      have hcnt : dynCount dynR rest ≤ m := by
        rw [dynCount_clause_false dynR r args conds rest hdy] at hle; exact hle
      simp only [dynClauses, hdy, spread]
      exact .clause t (hnd r hdy _ _ t hd) hm hc (ih haf' m hcnt)
    | true =>
      have hcnt : dynCount dynR rest + 1 ≤ m := by
        rw [dynCount_clause_true dynR r args conds rest hdy] at hle; exact hle
      obtain ⟨m', rfl⟩ : ∃ m', m = m' + 1 := ⟨m - 1, by omega⟩
      simp only [dynClauses, hdy, spread, List.replicate_succ]
      exact .clause t hd hm hc (ih haf' m' (by omega))
  | cond hc _ ih =>
    intro haf m hle
    have haf' := by
      simp only [aggFreeL, List.all_cons, Bool.and_eq_true] at haf; exact haf.2
    have hcnt := by simpa [dynCount, dynClauses] using hle
    simp only [dynClauses, spread]
    exact .cond hc (ih haf' m hcnt)
  | gen x hx _ ih =>
    intro haf m hle
    have haf' := by
      simp only [aggFreeL, List.all_cons, Bool.and_eq_true] at haf; exact haf.2
    have hcnt := by simpa [dynCount, dynClauses] using hle
    simp only [dynClauses, spread]
    exact .gen x hx (ih haf' m hcnt)
  | aggr ha _ ih =>
    intro haf
    simp [aggFreeL, Item.isAgg] at haf

include hnd hsplit in
theorem seminaive_aux :
    ∀ {items : List (Item E B G P A)} {ρ ρ' : Env},
      Sat I (fun f => view f.rel (some .totalDelta) f.args) nAgg items ρ ρ' → aggFreeL items = true →
      Sat I (fun f => view f.rel (some .total) f.args) nAgg items ρ ρ' ∨
      ∃ vs ∈ versionsBase (dynCount dynR items), SatV I view items (spread (dynClauses dynR items) vs) ρ ρ' := by
  intro items ρ ρ' hs
  induction hs with
  | nil ρ => intro _; exact .inl (.nil ρ)
  | @clause r args conds rest ρ ρ₁ ρ₂ ρ₃ t hd hm hc hrest ih =>
    intro haf
    have haf' : aggFreeL rest = true := by
      simp only [aggFreeL, List.all_cons, Bool.and_eq_true] at haf; exact haf.2
    cases hdy : dynR.contains r with
    | false =>
      have hcnt := dynCount_clause_false dynR r args conds rest hdy
      rcases ih haf' with h | ⟨vs, hvs, h⟩
      · exact .inl (.clause t (hnd r hdy _ _ t hd) hm hc h)
      · refine .inr ⟨vs, by rw [hcnt]; exact hvs, ?_⟩
        simp only [dynClauses, hdy, spread]
        exact .clause t (hnd r hdy _ _ t hd) hm hc h
    | true =>
      have hcnt := dynCount_clause_true dynR r args conds rest hdy
      rcases hsplit r t hd with htot | hdel
      · rcases ih haf' with h | ⟨vs, hvs, h⟩
        · exact .inl (.clause t htot hm hc h)
        · refine .inr ⟨Ver.total :: vs, ?_, ?_⟩
          · rw [hcnt]; exact (mem_versionsBase_succ _ _).mpr (.inr ⟨vs, hvs, rfl⟩)
          · simp only [dynClauses, hdy, spread]
            exact .clause t htot hm hc h
      · refine .inr ⟨Ver.delta :: List.replicate (dynCount dynR rest) Ver.totalDelta, ?_, ?_⟩
        · rw [hcnt]; exact (mem_versionsBase_succ _ _).mpr (.inl rfl)
        · simp only [dynClauses, hdy, spread]
          exact .clause t hdel hm hc (SatV_allTD I view dynR hnd hrest haf' _ (Nat.le_refl _))
  | cond hc _ ih =>
    intro haf
    have haf' := by
      simp only [aggFreeL, List.all_cons, Bool.and_eq_true] at haf; exact haf.2
    rcases ih haf' with h | ⟨vs, hvs, h⟩
    · exact .inl (.cond hc h)
    · refine .inr ⟨vs, by simpa [dynCount, dynClauses] using hvs, ?_⟩
      simp only [dynClauses, spread]
      exact .cond hc h
  | gen x hx _ ih =>
    intro haf
    have haf' := by
      simp only [aggFreeL, List.all_cons, Bool.and_eq_true] at haf; exact haf.2
    rcases ih haf' with h | ⟨vs, hvs, h⟩
    · exact .inl (.gen x hx h)
    · refine .inr ⟨vs, by simpa [dynCount, dynClauses] using hvs, ?_⟩
      simp only [dynClauses, spread]
      exact .gen x hx h
  | aggr ha _ ih =>
    intro haf
    simp [aggFreeL, Item.isAgg] at haf

include hnd hsplit in
/-- **semi-naive covering**: every rule instance over `total ∪ delta` is either an instance over
`total` alone (of a rule with a dynamic clause) or is enumerated by one of the rule's variants -/
theorem seminaive_cover (r : Rule E B G P A) (haf : r.aggFree = true) {ρ' : Env}
    (hs : Sat I (fun f => view f.rel (some .totalDelta) f.args) nAgg r.body [] ρ') :
    (dynCount dynR r.body ≠ 0 ∧ Sat I (fun f => view f.rel (some .total) f.args) nAgg r.body [] ρ') ∨
    ∃ vs ∈ variants dynR r, SatV I view r.body vs [] ρ' := by
  by_cases hn : dynCount dynR r.body = 0
  · right
    refine ⟨(dynClauses dynR r.body).map fun _ => none, ?_, ?_⟩
    · have : ((dynClauses dynR r.body).filter id).length = 0 := hn
      simp [variants, this]
    · rw [map_none_eq_spread]
      have := SatV_allTD I view dynR hnd hs haf 0 (by omega)
      simpa using this
  · rcases seminaive_aux I view dynR hnd hsplit hs haf with h | ⟨vs, hvs, h⟩
    · exact .inl ⟨hn, h⟩
    · right
      refine ⟨spread (dynClauses dynR r.body) vs, ?_, h⟩
      have hn' : ¬ ((dynClauses dynR r.body).filter id).length = 0 := hn
      simp only [variants, hn', if_false, List.mem_map]
      exact ⟨vs, hvs, rfl⟩

end Cover

/-- with no fact in any dynamic relation, a body with a dynamic clause has no instance -/
theorem Sat.no_dyn {I : Interp E B G P A} {D : DB} {agg : RelId → List Tuple} (dynR : List RelId)
    (hD : ∀ r t, dynR.contains r = true → ¬ D ⟨r, t⟩) :
    ∀ {items : List (Item E B G P A)} {ρ ρ' : Env}, Sat I D agg items ρ ρ' → dynCount dynR items = 0 := by
  intro items ρ ρ' hs
  induction hs with
  | nil ρ => rfl
  | @clause r args conds rest ρ ρ₁ ρ₂ ρ₃ t hd hm hc _ ih =>
    cases hdy : dynR.contains r with
    | false => rw [dynCount_clause_false dynR r args conds rest hdy]; exact ih
    | true => exact absurd hd (hD r t hdy)
  | cond hc _ ih => simpa [dynCount, dynClauses] using ih
  | gen x hx _ ih => simpa [dynCount, dynClauses] using ih
  | aggr ha _ ih => simpa [dynCount, dynClauses] using ih

end AscentVerif.Engine
