import AscentVerif.Proofs.TrRelIndMaps
import AscentVerif.Proofs.TrRelIndSpec
/-!
# The merge loop of `TrRelIndCommon` (`joinCands`, `joinInto`, `loopStep`, `loopRun`, `Common.merge`)
computes `DeltaSpec`
-/
namespace AscentVerif.TrRelInd
namespace Common

/-! ## `joinCands` -/

theorem mem_joinCands {r1 r2 : SetMap} {w y : Int} :
    (w, y) ∈ joinCands r1 r2 ↔ ∃ x, (x, y) ∈ smPairs r1 ∧ smHas r2 x w = true := by
  unfold joinCands
  simp only [List.mem_flatMap]
  constructor
  · rintro ⟨⟨x, s⟩, hm, hin⟩
    cases hg : smGet r2 x with
    | none => simp [hg] at hin
    | some ws =>
      simp only [hg, List.mem_flatMap, List.mem_map, Prod.mk.injEq] at hin
      obtain ⟨w', hw', y', hy', rfl, rfl⟩ := hin
      exact ⟨x, mem_smPairs.mpr ⟨s, hm, hy'⟩, smHas_iff.mpr ⟨ws, hg, hw'⟩⟩
  · rintro ⟨x, hp, hh⟩
    obtain ⟨s, hm, hy⟩ := mem_smPairs.mp hp
    obtain ⟨ws, hg, hw⟩ := smHas_iff.mp hh
    refine ⟨(x, s), hm, ?_⟩
    simp only [hg, List.mem_flatMap, List.mem_map, Prod.mk.injEq]
    exact ⟨w, hw, y, hy, rfl, rfl⟩

theorem mem_joinCands' {r1 r2 : SetMap} (hk : KeysNodup r1) {w y : Int} :
    (w, y) ∈ joinCands r1 r2 ↔ ∃ x, smHas r1 x y = true ∧ smHas r2 x w = true := by
  rw [mem_joinCands]
  constructor
  · rintro ⟨x, h1, h2⟩; exact ⟨x, smHas_of_mem_smPairs hk h1, h2⟩
  · rintro ⟨x, h1, h2⟩; exact ⟨x, mem_smPairs_of_smHas h1, h2⟩

/-! ## `joinInto` -/

/-- a join target: a well-formed relation, empty as long as `changed` is unset -/
def TgtWF (t : Tgt) : Prop :=
  RelWF { map := t.map, rev := t.rev } ∧ (t.changed = false → t.map = [] ∧ t.rev = [])

theorem TgtWF.empty : TgtWF {} := ⟨RelWF.empty, fun _ => ⟨rfl, rfl⟩⟩

theorem joinInto_nil (can : Int → Int → Bool) (t : Tgt) : joinInto can t [] = t := rfl

theorem joinInto_cons (can : Int → Int → Bool) (t : Tgt) (p : Int × Int) (cs : List (Int × Int)) :
    joinInto can t (p :: cs) =
      joinInto can (if can p.1 p.2 && !smHas t.map p.1 p.2 then
        { map := smPush t.map p.1 p.2, rev := smPush t.rev p.2 p.1, changed := true } else t) cs := rfl

theorem joinInto_spec (can : Int → Int → Bool) (cs : List (Int × Int)) (t : Tgt) (ht : TgtWF t) :
    TgtWF (joinInto can t cs) ∧
    ∀ a b, smHas (joinInto can t cs).map a b = true ↔ (smHas t.map a b = true ∨ ((a, b) ∈ cs ∧ can a b = true)) := by
  induction cs generalizing t with
  | nil => simp [joinInto_nil, ht]
  | cons p rest ih =>
    obtain ⟨p1, p2⟩ := p
    rw [joinInto_cons]
    by_cases hc : (can p1 p2 && !smHas t.map p1 p2) = true
    · rw [if_pos hc]
      have hc' : can p1 p2 = true ∧ smHas t.map p1 p2 = false := by simpa using hc
      have ht' : TgtWF { map := smPush t.map p1 p2, rev := smPush t.rev p2 p1, changed := true } :=
        ⟨ht.1.push hc'.2, fun h => by cases h⟩
      obtain ⟨h1, h2⟩ := ih _ ht'
      refine ⟨h1, fun a b => ?_⟩
      rw [h2, smHas_smPush]
      simp only [List.mem_cons, Prod.mk.injEq]
      constructor
      · rintro ((h | ⟨rfl, rfl⟩) | ⟨h, hcan⟩)
        · exact Or.inl h
        · exact Or.inr ⟨Or.inl ⟨rfl, rfl⟩, hc'.1⟩
        · exact Or.inr ⟨Or.inr h, hcan⟩
      · rintro (h | ⟨h | h, hcan⟩)
        · exact Or.inl (Or.inl h)
        · exact Or.inl (Or.inr h)
        · exact Or.inr ⟨h, hcan⟩
    · rw [if_neg hc]
      obtain ⟨h1, h2⟩ := ih _ ht
      refine ⟨h1, fun a b => ?_⟩
      rw [h2]
      simp only [List.mem_cons, Prod.mk.injEq]
      constructor
      · rintro (h | ⟨h, hcan⟩)
        · exact Or.inl h
        · exact Or.inr ⟨Or.inr h, hcan⟩
      · rintro (h | ⟨⟨rfl, rfl⟩ | h, hcan⟩)
        · exact Or.inl h
        · left
          cases hh : smHas t.map a b with
          | true => rfl
          | false => exact absurd (by simp [hcan, hh]) hc
        · exact Or.inr ⟨h, hcan⟩

/-! ## one pass -/

structure LoopWF (s : Loop) : Prop where
  dd : RelWF { map := s.ddMap, rev := s.ddRev }
  dt : RelWF { map := s.dtMap, rev := s.dtRev }
  disj : ∀ a b, smHas s.ddMap a b = true → smHas s.dtMap a b = false

/-- the candidates of the three joins of a pass -/
def Cand (tot : BinaryRel) (newMap : SetMap) (s : Loop) (a b : Int) : Prop :=
  (∃ x, smHas s.ddMap x b = true ∧ smHas tot.map a x = true) ∨
  (∃ x, smHas tot.map x b = true ∧ smHas s.ddMap a x = true) ∨
  (∃ x, smHas newMap x b = true ∧ smHas s.ddMap a x = true)

theorem loopStep_spec (tot : BinaryRel) (newMap : SetMap) (s : Loop) (htot : RelWF tot) (hnew : KeysNodup newMap)
    (hs : LoopWF s) :
    LoopWF (loopStep true tot newMap s).1 ∧
    (∀ a b, smHas (loopStep true tot newMap s).1.dtMap a b = true ↔ (smHas s.dtMap a b = true ∨ smHas s.ddMap a b = true)) ∧
    (∀ a b, smHas (loopStep true tot newMap s).1.ddMap a b = true ↔ (Cand tot newMap s a b ∧ canAdd true tot s a b = true)) ∧
    ((loopStep true tot newMap s).2 = false → (loopStep true tot newMap s).1.ddMap = []) := by
  have e1 := joinInto_spec (canAdd true tot s) (joinCands s.ddMap tot.rev) {} TgtWF.empty
  have e2 := joinInto_spec (canAdd true tot s) (joinCands tot.map s.ddRev) _ e1.1
  have e3 := joinInto_spec (canAdd true tot s) (joinCands newMap s.ddRev) _ e2.1
  have hdt : ∀ a b, smHas (smAppend s.dtMap s.ddMap) a b = true ↔ (smHas s.dtMap a b = true ∨ smHas s.ddMap a b = true) :=
    fun a b => smHas_smAppend hs.dd.km a b
  have hddmir : ∀ x y, smHas s.ddRev y x = smHas s.ddMap x y := hs.dd.mir
  have hdd : ∀ a b, smHas (loopStep true tot newMap s).1.ddMap a b = true ↔
      (Cand tot newMap s a b ∧ canAdd true tot s a b = true) := by
    intro a b
    show smHas (joinInto _ _ _).map a b = true ↔ _
    rw [e3.2, e2.2, e1.2, mem_joinCands' hs.dd.km, mem_joinCands' htot.km, mem_joinCands' hnew]
    simp only [smHas_nil, Cand, htot.mir, hddmir]
    constructor
    · rintro (((h | ⟨h, hc⟩) | ⟨h, hc⟩) | ⟨h, hc⟩)
      · cases h
      · exact ⟨Or.inl h, hc⟩
      · exact ⟨Or.inr (Or.inl h), hc⟩
      · exact ⟨Or.inr (Or.inr h), hc⟩
    · rintro ⟨h | h | h, hc⟩
      · exact Or.inl (Or.inl (Or.inr ⟨h, hc⟩))
      · exact Or.inl (Or.inr ⟨h, hc⟩)
      · exact Or.inr ⟨h, hc⟩
  refine ⟨⟨e3.1.1, ?_, ?_⟩, hdt, hdd, fun hch => (e3.1.2 hch).1⟩
  · exact RelWF.append hs.dt hs.dd hs.disj
  · intro a b hab
    have hc := ((hdd a b).mp hab).2
    show smHas (smAppend s.dtMap s.ddMap) a b = false
    rw [smHas_false_iff, hdt]
    simp only [canAdd, Bool.and_eq_true, Bool.not_eq_true'] at hc
    rintro (h | h)
    · rw [hc.1.2] at h; cases h
    · rw [hc.1.1.2] at h; cases h

/-! ## the loop invariant, set level -/

structure LoopInv (T N dd dt : Int → Int → Prop) : Prop where
  sound : ∀ x y, dd x y ∨ dt x y → (N x y ∨ (x ≠ y ∧ Reach (fun a b => T a b ∨ N a b) x y)) ∧ ¬ T x y
  nsub : ∀ x y, N x y → dd x y ∨ dt x y
  procL : ∀ x y w, dt x y → T w x → w ≠ y → T w y ∨ dt w y ∨ dd w y
  procR : ∀ x y z, dt x y → T y z → x ≠ z → T x z ∨ dt x z ∨ dd x z
  procN : ∀ x y z, dt x y → N y z → x ≠ z → T x z ∨ dt x z ∨ dd x z

theorem LoopInv.start {T N : Int → Int → Prop} (hdis : ∀ x y, N x y → ¬ T x y) :
    LoopInv T N N (fun _ _ => False) :=
  ⟨fun x y h => (by rcases h with h | h; exact ⟨Or.inl h, hdis _ _ h⟩; cases h), fun _ _ h => Or.inl h,
    fun _ _ _ h => (by cases h), fun _ _ _ h => (by cases h), fun _ _ _ h => (by cases h)⟩

theorem LoopInv.reach {T N dd dt : Int → Int → Prop} (h : LoopInv T N dd dt) {x y : Int} (hh : dd x y ∨ dt x y) :
    Reach (fun a b => T a b ∨ N a b) x y := by
  rcases (h.sound x y hh).1 with h1 | h1
  · exact .one (Or.inr h1)
  · exact h1.2

/-- one pass at set level: `dd'` = admissible candidates, `dt'` = `dt ∪ dd` -/
theorem LoopInv.step {T N dd dt dd' dt' : Int → Int → Prop} (h : LoopInv T N dd dt)
    (hdt : ∀ a b, dt' a b ↔ (dt a b ∨ dd a b))
    (hdd : ∀ a b, dd' a b ↔ (((∃ x, dd x b ∧ T a x) ∨ (∃ x, T x b ∧ dd a x) ∨ (∃ x, N x b ∧ dd a x)) ∧
      (a ≠ b ∧ ¬ dd a b ∧ ¬ dt a b ∧ ¬ T a b))) :
    LoopInv T N dd' dt' := by
  have key : ∀ a b, ((∃ x, dd x b ∧ T a x) ∨ (∃ x, T x b ∧ dd a x) ∨ (∃ x, N x b ∧ dd a x)) → a ≠ b →
      T a b ∨ dt' a b ∨ dd' a b := by
    intro a b hc hne
    by_cases ht : T a b
    · exact Or.inl ht
    · by_cases h1 : dd a b
      · exact Or.inr (Or.inl ((hdt a b).mpr (Or.inr h1)))
      · by_cases h2 : dt a b
        · exact Or.inr (Or.inl ((hdt a b).mpr (Or.inl h2)))
        · exact Or.inr (Or.inr ((hdd a b).mpr ⟨hc, hne, h1, h2, ht⟩))
  have old : ∀ a b, T a b ∨ dt a b ∨ dd a b → T a b ∨ dt' a b ∨ dd' a b := by
    intro a b hh
    rcases hh with hh | hh | hh
    · exact Or.inl hh
    · exact Or.inr (Or.inl ((hdt a b).mpr (Or.inl hh)))
    · exact Or.inr (Or.inl ((hdt a b).mpr (Or.inr hh)))
  constructor
  · intro x y hh
    rcases hh with hh | hh
    · obtain ⟨hc, hne, _, _, hnt⟩ := (hdd x y).mp hh
      refine ⟨Or.inr ⟨hne, ?_⟩, hnt⟩
      rcases hc with ⟨v, h1, h2⟩ | ⟨v, h1, h2⟩ | ⟨v, h1, h2⟩
      · exact .cons (Or.inl h2) (h.reach (Or.inl h1))
      · exact (h.reach (Or.inl h2)).snoc (Or.inl h1)
      · exact (h.reach (Or.inl h2)).snoc (Or.inr h1)
    · rcases (hdt x y).mp hh with hh | hh
      · exact h.sound x y (Or.inr hh)
      · exact h.sound x y (Or.inl hh)
  · intro x y hn
    rcases h.nsub x y hn with hh | hh
    · exact Or.inr ((hdt x y).mpr (Or.inr hh))
    · exact Or.inr ((hdt x y).mpr (Or.inl hh))
  · intro x y w hxy hw hne
    rcases (hdt x y).mp hxy with hh | hh
    · exact old _ _ (h.procL x y w hh hw hne)
    · exact key w y (Or.inl ⟨x, hh, hw⟩) hne
  · intro x y z hxy hz hne
    rcases (hdt x y).mp hxy with hh | hh
    · exact old _ _ (h.procR x y z hh hz hne)
    · exact key x z (Or.inr (Or.inl ⟨y, hz, hh⟩)) hne
  · intro x y z hxy hz hne
    rcases (hdt x y).mp hxy with hh | hh
    · exact old _ _ (h.procN x y z hh hz hne)
    · exact key x z (Or.inr (Or.inr ⟨y, hz, hh⟩)) hne

/-- at the fixpoint (`dd = ∅`) `dt` is the delta of the specification, if `T` is closed under composition for distinct end
points -/
theorem LoopInv.final {T N dd dt : Int → Int → Prop} (h : LoopInv T N dd dt) (hdd : ∀ x y, ¬ dd x y)
    (hcl : ∀ x y z, T x y → T y z → x ≠ z → T x z) (x y : Int) : dt x y ↔ DeltaSpec T N x y := by
  constructor
  · intro hh; exact h.sound x y (Or.inr hh)
  · rintro ⟨hh, hnt⟩
    have nd : ∀ a b, N a b → dt a b := by
      intro a b hn
      rcases h.nsub a b hn with h1 | h1
      · exact absurd h1 (hdd a b)
      · exact h1
    have fin : ∀ a b, T a b ∨ dt a b ∨ dd a b → T a b ∨ dt a b := by
      intro a b h1
      rcases h1 with h1 | h1 | h1
      · exact Or.inl h1
      · exact Or.inr h1
      · exact absurd h1 (hdd a b)
    rcases hh with hh | ⟨hne, hr⟩
    · exact nd _ _ hh
    · have base : ∀ a b, (T a b ∨ N a b) → T a b ∨ dt a b := by
        intro a b hab
        rcases hab with hab | hab
        · exact Or.inl hab
        · exact Or.inr (nd _ _ hab)
      have : x ≠ y → T x y ∨ dt x y := by
        refine Reach.snoc_induction (R := fun a b => T a b ∨ N a b) (P := fun a b => a ≠ b → T a b ∨ dt a b)
          (fun a b hab _ => base a b hab) ?_ hr
        intro a v b _ ih hvb hab
        by_cases hav : a = v
        · subst hav; exact base _ _ hvb
        · rcases ih hav with h1 | h1
          · rcases hvb with h2 | h2
            · exact Or.inl (hcl _ _ _ h1 h2 hab)
            · exact fin _ _ (h.procL v b a (nd _ _ h2) h1 hab)
          · rcases hvb with h2 | h2
            · exact fin _ _ (h.procR a v b h1 h2 hab)
            · exact fin _ _ (h.procN a v b h1 h2 hab)
      rcases this hne with h1 | h1
      · exact absurd h1 hnt
      · exact h1

/-! ## the loop -/

theorem loopRun_ok {P : Loop → Prop} {tot : BinaryRel} {newMap : SetMap}
    (hstep : ∀ s, P s → P (loopStep true tot newMap s).1) :
    ∀ (fuel : Nat) (s s' : Loop), P s → loopRun true tot newMap fuel s = .ok s' →
      ∃ s0, P s0 ∧ (loopStep true tot newMap s0).1 = s' ∧ (loopStep true tot newMap s0).2 = false := by
  intro fuel
  induction fuel with
  | zero => intro s s' _ h; simp [loopRun] at h
  | succ n ih =>
    intro s s' hp h
    simp only [loopRun] at h
    split at h
    · exact ih _ _ (hstep s hp) h
    · rename_i hc
      cases h
      exact ⟨s, hp, rfl, by simpa using hc⟩

/-- the state of the loop: well formed, and its two relations satisfy the set-level invariant -/
def LoopOK (tot : BinaryRel) (newMap : SetMap) (s : Loop) : Prop :=
  LoopWF s ∧ LoopInv (fun a b => smHas tot.map a b = true) (fun a b => smHas newMap a b = true)
    (fun a b => smHas s.ddMap a b = true) (fun a b => smHas s.dtMap a b = true)

theorem LoopOK.step {tot : BinaryRel} {newMap : SetMap} (htot : RelWF tot) (hnew : KeysNodup newMap) (s : Loop)
    (h : LoopOK tot newMap s) : LoopOK tot newMap (loopStep true tot newMap s).1 := by
  obtain ⟨h1, h2, h3, _⟩ := loopStep_spec tot newMap s htot hnew h.1
  refine ⟨h1, h.2.step h2 ?_⟩
  intro a b
  rw [h3 a b]
  simp only [Cand, canAdd, Bool.true_and, Bool.and_eq_true, Bool.not_eq_true', beq_eq_false_iff_ne, ne_eq,
    smHas_false_iff]
  constructor
  · rintro ⟨hc, ⟨⟨h4, h5⟩, h6⟩, h7⟩; exact ⟨hc, h4, h5, h6, h7⟩
  · rintro ⟨hc, h4, h5, h6, h7⟩; exact ⟨hc, ⟨⟨h4, h5⟩, h6⟩, h7⟩

/-! ## `Common.merge` -/

theorem DeltaSpec.congr {T T' N N' : Int → Int → Prop} (hT : ∀ a b, T a b ↔ T' a b) (hN : ∀ a b, N a b ↔ N' a b)
    (x y : Int) : DeltaSpec T N x y ↔ DeltaSpec T' N' x y := by
  have hT' : T = T' := funext fun a => funext fun b => propext (hT a b)
  have hN' : N = N' := funext fun a => funext fun b => propext (hN a b)
  rw [hT', hN']

theorem merge_spec {rn rd rt : BinaryRel} {n d t : Common} (hn : RelWF rn) (hd : RelWF rd) (ht : RelWF rt)
    (hdisj : ∀ a b, smHas rd.map a b = true → smHas rt.map a b = false)
    (hndisj : ∀ a b, smHas rn.map a b = true → smHas rt.map a b = false ∧ smHas rd.map a b = false)
    (hcl : ∀ x y z, (smHas rt.map x y = true ∨ smHas rd.map x y = true) → (smHas rt.map y z = true ∨ smHas rd.map y z = true) →
      x ≠ z → (smHas rt.map x z = true ∨ smHas rd.map x z = true))
    (hm : Common.merge (.new rn true) (.old rd true) (.old rt true) = .ok (n, d, t)) :
    ∃ rd' rt', n = .new {} true ∧ d = .old rd' true ∧ t = .old rt' true ∧ RelWF rd' ∧ RelWF rt' ∧
      (∀ a b, smHas rt'.map a b = true ↔ (smHas rt.map a b = true ∨ smHas rd.map a b = true)) ∧
      (∀ a b, smHas rd'.map a b = true ↔
        DeltaSpec (fun p q => smHas rt.map p q = true ∨ smHas rd.map p q = true) (fun p q => smHas rn.map p q = true) a b) := by
  have htot : RelWF { map := smAppend rt.map rd.map, rev := smAppend rt.rev rd.rev } := RelWF.append ht hd hdisj
  have htotHas : ∀ a b, smHas (smAppend rt.map rd.map) a b = true ↔ (smHas rt.map a b = true ∨ smHas rd.map a b = true) :=
    fun a b => smHas_smAppend hd.km a b
  simp only [Common.merge, Common.antiReflexive] at hm
  split at hm
  · cases hm
  · rename_i s hrun
    cases hm
    have hstart : LoopOK { map := smAppend rt.map rd.map, rev := smAppend rt.rev rd.rev } rn.map
        { ddMap := rn.map, ddRev := rn.rev } := by
      refine ⟨⟨hn, RelWF.empty, fun _ _ _ => rfl⟩, ?_⟩
      have := LoopInv.start (T := fun a b => smHas (smAppend rt.map rd.map) a b = true)
        (N := fun a b => smHas rn.map a b = true) (by
          intro x y hxy
          rw [htotHas]
          have := hndisj x y hxy
          rintro (h | h)
          · rw [this.1] at h; cases h
          · rw [this.2] at h; cases h)
      simpa [smHas_nil] using this
    obtain ⟨s0, hs0, hres, hch⟩ := loopRun_ok (P := LoopOK _ rn.map) (LoopOK.step htot hn.km) _ _ _ hstart hrun
    have hfin := LoopOK.step htot hn.km s0 hs0
    rw [hres] at hfin
    obtain ⟨_, _, _, hempty⟩ := loopStep_spec _ rn.map s0 htot hn.km hs0.1
    have hdd : s.ddMap = [] := by rw [← hres]; exact hempty hch
    refine ⟨{ map := s.dtMap, rev := s.dtRev }, _, rfl, rfl, rfl, hfin.1.dt, htot, htotHas, ?_⟩
    intro a b
    have hcl' : ∀ x y z, smHas (smAppend rt.map rd.map) x y = true → smHas (smAppend rt.map rd.map) y z = true → x ≠ z →
        smHas (smAppend rt.map rd.map) x z = true := by
      intro x y z h1 h2 hne
      rw [htotHas] at *
      exact hcl x y z h1 h2 hne
    have := hfin.2.final (by intro x y; rw [hdd]; simp [smHas_nil]) hcl' a b
    rw [this]
    exact DeltaSpec.congr htotHas (fun _ _ => Iff.rfl) a b

end Common
end AscentVerif.TrRelInd
