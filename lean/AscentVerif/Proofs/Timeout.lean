import AscentVerif.Proofs.Strata
/-!
# `run_timeout` with an arbitrary deadline oracle: whatever is returned is sound and resumable
-/
namespace AscentVerif.Engine
open AscentVerif

variable {E B G P A : Type}

section Timeout
variable (I : Interp E B G P A) (cfg : Config) (p : Program E B G P A) (inp : RelId → List Tuple)

/-- what survives an early return: rows are derivable and extend the input; stored index entries
are valid row numbers (possibly not all of them) -/
structure SInv (n : Nat) (st : St) : Prop where
  len : st.length = n
  good : ∀ r, r < n → GoodRows I p inp r (relSt st r).rows
  idxIn : ∀ r i, i ∈ (relSt st r).idx → i < (relSt st r).rows.length

theorem PInv.sinv {n : Nat} {st : St} (h : PInv I p inp n st) : SInv I p inp n st :=
  ⟨h.len, h.good, fun r i hi => (h.idxAll r i).mpr hi⟩

theorem SInv.wfSt {st : St} (h : SInv I p inp p.rels.length st) : WFSt' p st := by
  refine ⟨h.len, ?_⟩
  intro rs hrs i hi
  obtain ⟨r, hr, rfl⟩ := List.mem_iff_getElem.mp hrs
  have : relSt st r = st[r] := by
    simp [relSt, List.getD_eq_getElem?_getD, List.getElem?_eq_getElem hr]
  rw [← this] at hi ⊢
  exact h.idxIn r i hi

variable (n : Nat) (dynR : List RelId) (hlt : ∀ r, dynR.contains r = true → r < n)
  (hl : ∀ d ∈ p.rels, d.lat = false)

include hlt hl in
/-- the loop of a looping SCC, interrupted -/
theorem sccLoop_timedOut (rules : List (Rule E B G P A))
    (hrules : ∀ rule ∈ rules, rule ∈ p.rules) (haf : ∀ rule ∈ rules, rule.aggFree = true)
    (hdyn : ∀ rule ∈ rules, ∀ h ∈ rule.heads, dynR.contains h.rel = true)
    (dl : Deadline) (st : St) : ∀ (fuel : Nat) (rs rs' : RunSt),
      LoopInv I cfg p inp n dynR rules (hasDyn dynR) rs.st → Base dynR st rs.st →
      sccLoop I cfg p dynR rules dl fuel rs = .timedOut rs' →
      WF n dynR rs'.st ∧ Good I p inp n rs'.st := by
  intro fuel
  induction fuel with
  | zero => intro rs rs' _ _ h; simp [sccLoop] at h
  | succ fuel ih =>
    intro rs rs' hinv hb h
    obtain ⟨hinv', hext⟩ := iter_step I cfg p inp n dynR hlt hl rules hrules haf hdyn rs.st hinv
    have hb' := Base_step n dynR hinv.wf hb hext
    simp only [sccLoop] at h
    split at h
    · cases h
    · split at h
      · simp only [Outcome.timedOut.injEq] at h
        subst h
        exact ⟨hinv'.wf, hinv'.good⟩
      · exact ih _ rs' (hinv'.weaken I cfg p inp n dynR fun _ _ => trivial) hb' h

theorem relSt_abandon (scc : List Nat) (s : SccSt) (r : RelId) :
    relSt (abandonScc p scc s) r =
      if r < s.rels.length then
        (if (dynRels p scc ++ (sccRules p scc).flatMap Rule.bodyRels).contains r then
          { relSt s.rels r with idx := [] } else relSt s.rels r)
      else ⟨[], []⟩ := by
  by_cases hr : r < s.rels.length
  · rw [if_pos hr]
    exact relSt_init (abandonScc p scc s) _ s.rels.length rfl r hr
  · rw [if_neg hr]
    apply relSt_of_ge
    simp only [abandonScc, List.length_map, List.length_range]
    exact Nat.le_of_not_lt hr

/-- dropping the local indices keeps the rows and leaves only valid index entries -/
theorem abandon_spec (scc : List Nat) {s : SccSt} (hwf : WF n (dynRels p scc) s) (hgood : Good I p inp n s) :
    SInv I p inp n (abandonScc p scc s) := by
  refine ⟨by simp [abandonScc, hwf.len], ?_, ?_⟩
  · intro r hr
    have hr' : r < s.rels.length := by rw [hwf.len]; exact hr
    rw [relSt_abandon, if_pos hr']
    split
    · exact hgood r hr
    · exact hgood r hr
  · intro r i hi
    rw [relSt_abandon] at hi ⊢
    split at hi
    · rename_i hr
      rw [if_pos hr]
      split at hi
      · simp at hi
      · rename_i hc
        rw [if_neg hc]
        have hnd : (dynRels p scc).contains r = false := by
          cases hc' : (dynRels p scc).contains r with
          | false => rfl
          | true =>
            exfalso; apply hc
            rw [List.contains_iff_mem] at hc' ⊢
            exact List.mem_append_left _ hc'
        have hd : findDyn s.dyn r = none := by
          have := hwf.dyn_iff r
          rw [hnd] at this
          cases h' : findDyn s.dyn r with
          | none => rfl
          | some d => rw [h'] at this; cases this
        exact (hwf.cover_nd r hd i).mpr hi
    · simp at hi

end Timeout

section Timeout2
variable (I : Interp E B G P A) (cfg : Config) (p : Program E B G P A) (inp : RelId → List Tuple)
  (hl : ∀ d ∈ p.rels, d.lat = false) (haf : ∀ r ∈ p.rules, r.aggFree = true)
  (hh : ∀ r ∈ p.rules, ∀ h ∈ r.heads, h.rel < p.rels.length)

include hl haf hh in
theorem runScc_timedOut (dl : Deadline) (fuel : Nat) (scc : List Nat) (ps ps' : ProgSt)
    (hp : PInv I p inp p.rels.length ps.st) (h : runScc I cfg p dl fuel scc ps = .timedOut ps') :
    SInv I p inp p.rels.length ps'.st := by
  have hrules := sccRules_sub p scc
  have hafs : ∀ rule ∈ sccRules p scc, rule.aggFree = true := fun r hr => haf r (hrules r hr)
  have hdyn : ∀ rule ∈ sccRules p scc, ∀ h ∈ rule.heads, (dynRels p scc).contains h.rel = true :=
    fun rule hr h hhd => (dynRels_mem p scc h.rel).mpr ⟨rule, hr, h, hhd, rfl⟩
  have hlt : ∀ r, (dynRels p scc).contains r = true → r < p.rels.length := by
    intro r hr
    obtain ⟨rule, hrule, h, hhd, rfl⟩ := (dynRels_mem p scc r).mp hr
    exact hh rule (hrules rule hrule) h hhd
  have hinv0 := LoopInv_enter I cfg p inp p.rels.length (dynRels p scc) hl hp (sccRules p scc)
  have hb0 := Base_enter (dynRels p scc) ps.st
  simp only [runScc] at h
  split at h
  · split at h
    · cases h
    · rename_i rs hloop
      simp only [Outcome.timedOut.injEq] at h
      subst h
      obtain ⟨hwf, hgood⟩ := sccLoop_timedOut I cfg p inp p.rels.length (dynRels p scc) hlt hl (sccRules p scc)
        hrules hafs hdyn dl ps.st fuel _ rs hinv0 hb0 hloop
      exact abandon_spec I p inp p.rels.length scc hwf hgood
    · cases h
  · split at h
    · simp only [Outcome.timedOut.injEq] at h
      subst h
      obtain ⟨hinv, _⟩ := iter_step I cfg p inp p.rels.length (dynRels p scc) hlt hl (sccRules p scc)
        hrules hafs hdyn _ hinv0
      exact abandon_spec I p inp p.rels.length scc (WF_shift hinv.wf) hinv.good
    · cases h

include hl haf hh in
theorem runSccs_timedOut (dl : Deadline) (fuel : Nat) : ∀ (rest : SccOrder) (ps ps' : ProgSt),
    PInv I p inp p.rels.length ps.st → runSccs I cfg p dl fuel rest ps = .timedOut ps' →
    SInv I p inp p.rels.length ps'.st := by
  intro rest
  induction rest with
  | nil => intro ps ps' _ h; simp [runSccs] at h
  | cons scc rest ih =>
    intro ps ps' hp h
    simp only [runSccs] at h
    split at h
    · rename_i ps1 hscc
      exact ih ps1 ps' (runScc_spec I cfg p inp hl haf hh dl fuel scc ps ps1 hp hscc).1 h
    · exact runScc_timedOut I cfg p inp hl haf hh dl fuel scc ps ps' hp h

variable (o : SccOrder) (ho : validOrder p o = true)

include hl haf hh ho in
/-- `run_timeout` under any deadline oracle: the returned value (finished or not) is a well-formed
program value, holds only derivable facts, and has lost no input fact -/
theorem runTimeout_sound' (dl : Deadline) (fuel : Nat) (s : St) (ps : ProgSt) (hs : WFSt' p s)
    (hinp : ∀ r, r < p.rels.length → (relSt s r).rows = inp r)
    (hrun : runTimeout I cfg p o dl fuel s = .done ps ∨ runTimeout I cfg p o dl fuel s = .timedOut ps) :
    WFSt' p ps.st ∧ (∀ f, factsOf ps.st f → Derivable I p.rules nAgg (inDB p inp) f) ∧
      (∀ f, f.rel < p.rels.length → f.args ∈ inp f.rel → factsOf ps.st f) := by
  have hsinv : SInv I p inp p.rels.length ps.st := by
    rcases hrun with hrun | hrun
    · exact (run_spec I cfg p inp hl haf hh o ho dl fuel s ps hs hinp hrun).1.sinv
    · exact runSccs_timedOut I cfg p inp hl haf hh dl fuel o _ ps (PInv_start I p inp s hs hinp) hrun
  refine ⟨hsinv.wfSt, ?_, ?_⟩
  · intro f hf
    have hr : f.rel < p.rels.length := by
      have := lt_of_mem_rows ps.st f.rel f.args hf
      rw [hsinv.len] at this; exact this
    have := (hsinv.good f.rel hr).1 f.args hf
    cases f; exact this
  · intro f hr hf
    obtain ⟨_, derived, hrows, _, _⟩ := hsinv.good f.rel hr
    show f.args ∈ (relSt ps.st f.rel).rows
    rw [hrows]; exact List.mem_append_left _ hf

end Timeout2

end AscentVerif.Engine
