import AscentVerif.Proofs.TrRelIndMerge
/-!
# The driven model (`St.run`) simulates `Spec.run`; invariants of reachable states
-/
namespace AscentVerif.TrRelInd

/-- a reachable state: `new` is `New`, `delta`/`total` are `Old`, anti-reflexive, all three relations well formed -/
def StWF (s : St) : Prop :=
  ∃ rn rd rt, s = ⟨.new rn true, .old rd true, .old rt true⟩ ∧ RelWF rn ∧ RelWF rd ∧ RelWF rt

theorem St.init_eq : St.init = .ok ⟨.new {} true, .old {} true, .old {} true⟩ := rfl

theorem StWF.init {s₀ : St} (h₀ : St.init = .ok s₀) : StWF s₀ := by
  rw [St.init_eq] at h₀
  cases h₀
  exact ⟨{}, {}, {}, rfl, RelWF.empty, RelWF.empty, RelWF.empty⟩

theorem Sim.init {s₀ : St} (h₀ : St.init = .ok s₀) : Sim s₀ Spec.init := by
  rw [St.init_eq] at h₀
  cases h₀
  refine ⟨fun x y => ?_, fun x y => ?_, fun x y => ?_⟩ <;>
    simp [Common.Has, Common.containsKey, Common.rel, BinaryRel.contains, smHas_nil, Spec.init]

theorem has_new (r : BinaryRel) (b : Bool) (x y : Int) : (Common.new r b).Has x y ↔ smHas r.map x y = true := Iff.rfl
theorem has_old (r : BinaryRel) (b : Bool) (x y : Int) : (Common.old r b).Has x y ↔ smHas r.map x y = true := Iff.rfl

theorem step_inv {s s' : St} {a : Spec} (hwf : StWF s) (hsim : Sim s a) (hinv : SpecInv a) (o : Op)
    (h : s.step o = .ok s') : StWF s' ∧ Sim s' (a.step o) := by
  obtain ⟨rn, rd, rt, rfl, hn, hd, ht⟩ := hwf
  obtain ⟨sN, sD, sT⟩ := hsim
  simp only [has_new, has_old] at sN sD sT
  cases o with
  | add x y =>
    simp only [St.step] at h
    split at h
    · rename_i hc
      cases h
      refine ⟨⟨rn, rd, rt, rfl, hn, hd, ht⟩, ?_, sD, sT⟩
      intro p q
      simp only [has_new, Spec.step]
      constructor
      · intro hh; exact Or.inl ((sN p q).mp hh)
      · rintro (hh | ⟨rfl, rfl, h1, h2⟩)
        · exact (sN p q).mpr hh
        · exfalso
          simp only [Common.containsKey, Common.rel, BinaryRel.contains, Bool.or_eq_true] at hc
          rcases hc with hc | hc
          · exact h1 ((sT _ _).mp hc)
          · exact h2 ((sD _ _).mp hc)
    · rename_i hc
      simp only [Common.insertIfNotPresent] at h
      cases h
      refine ⟨⟨_, rd, rt, rfl, hn.insert x y, hd, ht⟩, ?_, sD, sT⟩
      intro p q
      simp only [has_new, Spec.step, smHas_insert]
      simp only [Common.containsKey, Common.rel, BinaryRel.contains, Bool.or_eq_true, not_or] at hc
      have h1 : ¬ a.T x y := fun hh => hc.1 ((sT _ _).mpr hh)
      have h2 : ¬ a.D x y := fun hh => hc.2 ((sD _ _).mpr hh)
      constructor
      · rintro (hh | ⟨rfl, rfl⟩)
        · exact Or.inl ((sN p q).mp hh)
        · exact Or.inr ⟨rfl, rfl, h1, h2⟩
      · rintro (hh | ⟨rfl, rfl, _, _⟩)
        · exact Or.inl ((sN p q).mpr hh)
        · exact Or.inr ⟨rfl, rfl⟩
  | merge =>
    simp only [St.step] at h
    split at h
    · rename_i n d t hm
      cases h
      have hdisj : ∀ p q, smHas rd.map p q = true → smHas rt.map p q = false := by
        intro p q hh
        rw [smHas_false_iff]
        intro h2
        exact hinv.disjDT p q ((sD p q).mp hh) ((sT p q).mp h2)
      have hndisj : ∀ p q, smHas rn.map p q = true → smHas rt.map p q = false ∧ smHas rd.map p q = false := by
        intro p q hh
        have := hinv.disjN p q ((sN p q).mp hh)
        rw [smHas_false_iff, smHas_false_iff]
        exact ⟨fun h2 => this.1 ((sT p q).mp h2), fun h2 => this.2 ((sD p q).mp h2)⟩
      have hcl : ∀ x y z, (smHas rt.map x y = true ∨ smHas rd.map x y = true) →
          (smHas rt.map y z = true ∨ smHas rd.map y z = true) → x ≠ z →
          (smHas rt.map x z = true ∨ smHas rd.map x z = true) := by
        intro x y z
        rw [sT, sD, sT, sD, sT, sD]
        exact hinv.closed x y z
      obtain ⟨rd', rt', rfl, rfl, rfl, hd', ht', hT, hD⟩ := Common.merge_spec hn hd ht hdisj hndisj hcl hm
      refine ⟨⟨{}, rd', rt', rfl, RelWF.empty, hd', ht'⟩, ?_, ?_, ?_⟩
      · intro p q
        simp [has_new, Spec.step, smHas_nil]
      · intro p q
        simp only [has_old, Spec.step]
        rw [hD]
        exact Common.DeltaSpec.congr (fun a b => by rw [sT, sD]) sN p q
      · intro p q
        simp only [has_old, Spec.step]
        rw [hT, sT, sD]
    · cases h

theorem run_inv {s s' : St} {a : Spec} (hwf : StWF s) (hsim : Sim s a) (hinv : SpecInv a) (ops : List Op)
    (h : s.run ops = .ok s') : StWF s' ∧ Sim s' (a.run ops) := by
  induction ops generalizing s a with
  | nil => simp only [St.run] at h; cases h; exact ⟨hwf, hsim⟩
  | cons o rest ih =>
    simp only [St.run] at h
    split at h
    · rename_i s1 hs1
      obtain ⟨h1, h2⟩ := step_inv hwf hsim hinv o hs1
      exact ih h1 h2 (hinv.step o) h
    · cases h

/-- everything known about a state reached from `init` -/
theorem reachable {ops : List Op} {s₀ s : St} (h₀ : St.init = .ok s₀) (h : St.run s₀ ops = .ok s) :
    StWF s ∧ Sim s (Spec.run Spec.init ops) ∧ SpecInv (Spec.run Spec.init ops) :=
  have := run_inv (StWF.init h₀) (Sim.init h₀) SpecInv.init ops h
  ⟨this.1, this.2, SpecInv.init.run ops⟩

/-! ## the variant discipline alone -/

def StShape (s : St) : Prop := ∃ rn rd rt a b c, s = ⟨.new rn a, .old rd b, .old rt c⟩

theorem StShape.init {s₀ : St} (h₀ : St.init = .ok s₀) : StShape s₀ := by
  rw [St.init_eq] at h₀
  cases h₀
  exact ⟨_, _, _, _, _, _, rfl⟩

theorem merge_shape {nw dl tt n d t : Common} (h : Common.merge nw dl tt = .ok (n, d, t)) :
    ∃ rn rd rt a b c, (⟨n, d, t⟩ : St) = ⟨.new rn a, .old rd b, .old rt c⟩ := by
  simp only [Common.merge] at h
  split at h
  · cases h
  · split at h
    · cases h
    · cases h
      exact ⟨_, _, _, _, _, _, rfl⟩

theorem StShape.step {s s' : St} (hs : StShape s) (o : Op) (h : s.step o = .ok s') : StShape s' := by
  obtain ⟨rn, rd, rt, a, b, c, rfl⟩ := hs
  cases o with
  | add x y =>
    simp only [St.step] at h
    split at h
    · cases h; exact ⟨_, _, _, _, _, _, rfl⟩
    · simp only [Common.insertIfNotPresent] at h
      cases h; exact ⟨_, _, _, _, _, _, rfl⟩
  | merge =>
    simp only [St.step] at h
    split at h
    · rename_i n d t hm
      cases h
      exact merge_shape hm
    · cases h

theorem StShape.add_ok {s : St} (hs : StShape s) (x y : Int) : s.step (.add x y) ≠ .panic := by
  obtain ⟨rn, rd, rt, a, b, c, rfl⟩ := hs
  simp only [St.step]
  split
  · intro h; cases h
  · simp only [Common.insertIfNotPresent]
    intro h; cases h

theorem run_panic {ops : List Op} {s : St} (hs : StShape s) (h : St.run s ops = .panic) :
    ∃ pre nw dl tt, (∃ post, ops = pre ++ [Op.merge] ++ post) ∧ St.run s pre = .ok ⟨nw, dl, tt⟩ ∧
      Common.merge nw dl tt = .panic := by
  induction ops generalizing s with
  | nil => simp [St.run] at h
  | cons o rest ih =>
    simp only [St.run] at h
    split at h
    · rename_i s1 hs1
      obtain ⟨pre, nw, dl, tt, ⟨post, hp⟩, hr, hm⟩ := ih (hs.step o hs1) h
      refine ⟨o :: pre, nw, dl, tt, ⟨post, by simp [hp]⟩, ?_, hm⟩
      simp only [St.run, hs1]
      exact hr
    · rename_i hs1
      cases o with
      | add x y => exact absurd hs1 (hs.add_ok x y)
      | merge =>
        refine ⟨[], s.nw, s.dl, s.tt, ⟨rest, rfl⟩, rfl, ?_⟩
        simp only [St.step] at hs1
        split at hs1
        · cases hs1
        · assumption

/-! ## the views of a well-formed `Old` copy -/

theorem mem_getD_smGet (m : SetMap) (x y : Int) : y ∈ (smGet m x).getD [] ↔ smHas m x y = true := by
  unfold smHas
  cases smGet m x with
  | none => simp
  | some s => simp

theorem getD_smGet_nodup {m : SetMap} (hs : SetsNodup m) (x : Int) : ((smGet m x).getD []).Nodup := by
  cases hg : smGet m x with
  | none => simp
  | some s => exact smGet_nodup hs hg

theorem view0_old {r : BinaryRel} (hr : RelWF r) (b : Bool) (x : Int) :
    ∃ res, (Common.old r b).get0 x = .ok res ∧ (∀ y, y ∈ res.getD [] ↔ (Common.old r b).Has x y) ∧ (res.getD []).Nodup :=
  ⟨smGet r.map x, rfl, fun y => by rw [has_old]; exact mem_getD_smGet _ _ _, getD_smGet_nodup hr.sm x⟩

theorem view1_old {r : BinaryRel} (hr : RelWF r) (b : Bool) (y : Int) :
    (∀ x, x ∈ ((Common.old r b).get1 y).getD [] ↔ (Common.old r b).Has x y) ∧ (((Common.old r b).get1 y).getD []).Nodup := by
  refine ⟨fun x => ?_, getD_smGet_nodup hr.sr y⟩
  rw [has_old, ← hr.mir]
  exact mem_getD_smGet _ _ _

theorem viewNone_old {r : BinaryRel} (hr : RelWF r) (b : Bool) :
    (∀ x y, (x, y) ∈ (Common.old r b).getNone ↔ (Common.old r b).Has x y) ∧ (Common.old r b).getNone.Nodup :=
  ⟨fun x y => by rw [has_old]; exact mem_smPairs_iff hr.km, smPairs_nodup hr.km hr.sm⟩

/-- a copy `c = s.dl ∨ c = s.tt` of a well-formed state is a well-formed `Old` -/
theorem StWF.old_copy {s : St} (h : StWF s) {c : Common} (hc : c = s.dl ∨ c = s.tt) :
    ∃ r, c = .old r true ∧ RelWF r := by
  obtain ⟨rn, rd, rt, rfl, _, hd, ht⟩ := h
  rcases hc with rfl | rfl
  · exact ⟨rd, rfl, hd⟩
  · exact ⟨rt, rfl, ht⟩

end AscentVerif.TrRelInd
