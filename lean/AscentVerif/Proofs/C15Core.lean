import AscentVerif.Proofs.C15Basic
import AscentVerif.Proofs.C15CoreHir
import AscentVerif.Proofs.C15CoreReach
import AscentVerif.Proofs.C15CoreStrat
import AscentVerif.Proofs.C15CoreAccept
/-!
# C15: the checks on desugared rules (HIR: undeclared / arity / rebinding / aggregated variables; MIR: stratification)
-/
namespace AscentVerif.Check
open AscentVerif AscentVerif.Engine

/-- what a successful HIR pass over a rule body establishes: every relation occurrence resolves with the
right arity, every aggregated variable is an argument of the aggregated relation, and the patterns of every
item and the bound arguments of every aggregation are fresh at their position -/
theorem hirRules_ok_iff (ds : List Decl) (rules : List CoreRule) :
    hirRules ds rules = .ok () ↔
      (∀ r ∈ rules, ∀ o ∈ r.occurrences, ∃ d, findDecl ds o.1 = some d ∧ d.arity = o.2) ∧
      ¬ IllFormedAggBound rules ∧
      (∀ r ∈ rules, ∀ pre ev post, r.body = pre ++ ev :: post →
        ev.binderVars.Nodup ∧ (∀ v ∈ ev.binderVars, v ∉ pre.flatMap Ev.grounds ++ ev.argIdents) ∧
          ev.boundVars.Nodup ∧ ∀ v ∈ ev.boundVars, v ∉ pre.flatMap Ev.grounds) := by
  rw [hirRules_ok_iff', ← aggBound_iff]
  simp only [hirRule_ok_iff]
  constructor
  · intro h
    exact ⟨fun r hr => (h r hr).1, fun r hr => (h r hr).2.1, fun r hr => (h r hr).2.2⟩
  · rintro ⟨h1, h2, h3⟩ r hr
    exact ⟨h1 r hr, h2 r hr, h3 r hr⟩

theorem undeclared_rejected (s : Summary) (rules : List CoreRule) (hr : Reaches s)
    (hd : desugar s.macros s.rules = .ok rules) (h : IllFormedUndeclared s rules) : Rejected s := by
  apply rejected_of_not_compile hr
  intro hc
  obtain ⟨rules', hd', hh, _⟩ := (compile_ok_iff s).1 hc
  rw [hd] at hd'
  cases hd'
  obtain ⟨r, hr', o, ho, hnone⟩ := h
  obtain ⟨d, hd2, _⟩ := ((hirRules_ok_iff s.decls rules).1 hh).1 r hr' o ho
  rw [hnone] at hd2
  cases hd2

theorem arity_rejected (s : Summary) (rules : List CoreRule) (hr : Reaches s)
    (hd : desugar s.macros s.rules = .ok rules) (h : IllFormedArity s rules) : Rejected s := by
  apply rejected_of_not_compile hr
  intro hc
  obtain ⟨rules', hd', hh, _⟩ := (compile_ok_iff s).1 hc
  rw [hd] at hd'
  cases hd'
  obtain ⟨r, hr', o, ho, d, hf, hne⟩ := h
  obtain ⟨d', hd2, ha⟩ := ((hirRules_ok_iff s.decls rules).1 hh).1 r hr' o ho
  rw [hf] at hd2
  cases hd2
  exact hne ha

theorem rebind_rejected (s : Summary) (rules : List CoreRule) (hr : Reaches s)
    (hd : desugar s.macros s.rules = .ok rules) (h : IllFormedRebind rules) : Rejected s := by
  apply rejected_of_not_compile hr
  intro hc
  obtain ⟨rules', hd', hh, _⟩ := (compile_ok_iff s).1 hc
  rw [hd] at hd'
  cases hd'
  obtain ⟨r, hr', pre, ev, post, heq, hbad⟩ := h
  obtain ⟨h1, h2, h3, h4⟩ := ((hirRules_ok_iff s.decls rules).1 hh).2.2 r hr' pre ev post heq
  rcases hbad with hbad | ⟨v, hv, hm⟩ | hbad | ⟨v, hv, hm⟩
  · exact hbad h1
  · exact h2 v hv hm
  · exact hbad h3
  · exact h4 v hv hm

/-- an aggregation over a variable that is no argument of the aggregated relation is rejected, in whatever
rule and at whatever position it stands -/
theorem aggBound_rejected (s : Summary) (rules : List CoreRule) (hr : Reaches s)
    (hd : desugar s.macros s.rules = .ok rules) (h : IllFormedAggBound rules) : Rejected s := by
  apply rejected_of_not_compile hr
  intro hc
  obtain ⟨rules', hd', hh, _⟩ := (compile_ok_iff s).1 hc
  rw [hd] at hd'
  cases hd'
  exact ((hirRules_ok_iff s.decls rules).1 hh).2.1 h

/-- the stratification test of the model is exactly the declarative condition -/
theorem stratError_iff (s : Summary) (rules : List CoreRule) :
    stratError (skeleton s.decls rules) = true ↔ IllFormedStrat s rules := by
  exact stratError_iff' (skeleton s.decls rules)

theorem stratification_rejected (s : Summary) (rules : List CoreRule) (hr : Reaches s)
    (hd : desugar s.macros s.rules = .ok rules) (h : IllFormedStrat s rules) : Rejected s := by
  apply rejected_of_not_compile hr
  intro hc
  obtain ⟨rules', hd', _, _, _, _, hs⟩ := (compile_ok_iff s).1 hc
  rw [hd] at hd'
  cases hd'
  rw [(stratError_iff s rules).2 h] at hs
  cases hs

/-- the breadth-first search behind `sameScc` finds every dependency path -/
theorem reaches_of_path (p : Skel) (i j : Nat) (h : Path p i j) : reaches p p.rules.length i j = true := by
  exact reaches_of_path' p i j h

/-- mutual reachability along dependency paths puts two rules into one class -/
theorem sameScc_of_paths (p : Skel) (i j : Nat) (h1 : Path p i j) (h2 : Path p j i) : sameScc p i j = true := by
  unfold sameScc
  rw [reaches_of_path p i j h1, reaches_of_path p j i h2]
  rfl

theorem wellFormed_accepted (s : Summary) (rules : List CoreRule) (hr : Reaches s)
    (hd : desugar s.macros s.rules = .ok rules) (h : WellFormedCore s rules) : check s = .ok () := by
  rw [check_of_reaches hr, compile_ok_iff]
  refine ⟨rules, hd, ?_, ?_, ?_, ?_, ?_⟩
  · exact (hirRules_ok_iff s.decls rules).2 ⟨h.declared, h.aggBound, h.fresh⟩
  · exact configCheck_of h.attrsKnown h.attrsPlain h.parOnly h.progDs
  · exact declsCheck_of s.effDecls h.declDs
  · exact (sigCheck_ok_iff s.sig).2 h.sigOk
  · cases hs : stratError (skeleton s.decls rules) with
    | false => rfl
    | true => exact absurd ((stratError_iff s rules).1 hs) h.stratified

/-- conversely, an accepted program is well formed in the declarative sense, except that of several
attributes with the same name only the first is inspected by the real code -/
theorem accepted_wellFormed (s : Summary) (hr : Reaches s) (h : check s = .ok ()) :
    ∃ rules, desugar s.macros s.rules = .ok rules ∧
      (∀ r ∈ rules, ∀ o ∈ r.occurrences, ∃ d, findDecl s.decls o.1 = some d ∧ d.arity = o.2) ∧
      ¬ IllFormedRebind rules ∧ ¬ IllFormedStrat s rules ∧ ¬ IllFormedDsLattice s ∧ ¬ IllFormedTwoDs s ∧
      ¬ IllFormedUnknownAttr s ∧ ¬ IllFormedParOnlyAttr s ∧
      ¬ IllFormedAggBound rules ∧ ¬ IllFormedSig s ∧ ¬ IllFormedEmptyDisj s := by
  have hnr : ¬ Rejected s := by
    rintro ⟨e, he⟩
    rw [h] at he
    cases he
  rw [check_of_reaches hr] at h
  obtain ⟨rules, hd, hh, _, _, hsg, hs⟩ := (compile_ok_iff s).1 h
  obtain ⟨h1, h3, h2⟩ := (hirRules_ok_iff s.decls rules).1 hh
  refine ⟨rules, hd, h1, ?_, ?_, ?_, ?_, ?_, ?_, h3, (sigCheck_ok_iff s.sig).1 hsg, not_emptyDisj_of_whole hr.1⟩
  · rintro ⟨r, hr', pre, ev, post, heq, hbad⟩
    obtain ⟨k1, k2, k3, k4⟩ := h2 r hr' pre ev post heq
    rcases hbad with hbad | ⟨v, hv, hm⟩ | hbad | ⟨v, hv, hm⟩
    · exact hbad k1
    · exact k2 v hv hm
    · exact hbad k3
    · exact k4 v hv hm
  · intro hi
    rw [(stratError_iff s rules).2 hi] at hs
    cases hs
  · exact fun hi => hnr (dsLattice_rejected s hr hi)
  · exact fun hi => hnr (twoDs_rejected s hr hi)
  · exact fun hi => hnr (unknownAttr_rejected s hr hi)
  · exact fun hi => hnr (parOnlyAttr_rejected s hr hi)

end AscentVerif.Check
