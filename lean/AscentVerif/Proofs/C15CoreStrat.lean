import AscentVerif.Proofs.C15Basic
/-!
# C15: the stratification test, unfolded — helper lemmas for `C15Core`
-/
set_option linter.unusedSimpArgs false
namespace AscentVerif.Check
open AscentVerif AscentVerif.Engine

theorem table_getD (f : Nat → List Nat) (n i : Nat) (h : i < n) : ((List.range n).map f).getD i [] = f i := by
  simp [List.getD_eq_getElem?_getD, List.getElem?_map, List.getElem?_range, h]

/-- the reachability table of `stratError` -/
def reachTable (p : Skel) : List (List Nat) := (List.range p.rules.length).map fun i => reachFrom p p.rules.length [i]

theorem mem_classOf (p : Skel) (i j : Nat) (hi : i < p.rules.length) :
    j ∈ classOf p (reachTable p) i ↔ j < p.rules.length ∧ sameScc p i j = true := by
  unfold classOf
  rw [List.mem_filter, List.mem_range]
  constructor
  · rintro ⟨hj, h⟩
    unfold reachTable at h
    rw [table_getD _ _ _ hi, table_getD _ _ _ hj] at h
    exact ⟨hj, h⟩
  · rintro ⟨hj, h⟩
    unfold reachTable
    rw [table_getD _ _ _ hi, table_getD _ _ _ hj]
    exact ⟨hj, h⟩

theorem mem_sccRules (p : Skel) (scc : List Nat) (r : AscentVerif.Rule Unit Unit Unit Unit Unit) :
    r ∈ sccRules p scc ↔ ∃ k ∈ scc, p.rules[k]? = some r := by
  unfold sccRules
  rw [List.mem_filterMap]

theorem mem_dynRels (p : Skel) (scc : List Nat) (x : RelId) :
    x ∈ dynRels p scc ↔ ∃ j ∈ scc, ∃ rj, p.rules[j]? = some rj ∧ x ∈ rj.headRels := by
  unfold dynRels
  rw [List.mem_eraseDups, List.mem_flatMap]
  constructor
  · rintro ⟨r, hr, hx⟩
    obtain ⟨j, hj, hrj⟩ := (mem_sccRules p scc r).1 hr
    exact ⟨j, hj, r, hrj, hx⟩
  · rintro ⟨j, hj, r, hrj, hx⟩
    exact ⟨r, (mem_sccRules p scc r).2 ⟨j, hj, hrj⟩, hx⟩

theorem aggOverDynamic_iff (p : Skel) (scc : List Nat) :
    aggOverDynamic p scc = true ↔
      ∃ k ∈ scc, ∃ rk, p.rules[k]? = some rk ∧ ∃ a, AscentVerif.Item.agg a ∈ rk.body ∧
        ∃ j ∈ scc, ∃ rj, p.rules[j]? = some rj ∧ a.rel ∈ rj.headRels := by
  unfold aggOverDynamic
  rw [List.any_eq_true]
  constructor
  · rintro ⟨r, hr, h⟩
    obtain ⟨k, hk, hrk⟩ := (mem_sccRules p scc r).1 hr
    rw [List.any_eq_true] at h
    obtain ⟨it, hit, h⟩ := h
    cases it with
    | agg a =>
      simp only [List.contains_iff_mem] at h
      exact ⟨k, hk, r, hrk, a, hit, (mem_dynRels p scc a.rel).1 h⟩
    | clause r' args conds => simp at h
    | cond c => simp at h
    | gen v g => simp at h
  · rintro ⟨k, hk, rk, hrk, a, ha, hdyn⟩
    refine ⟨rk, (mem_sccRules p scc rk).2 ⟨k, hk, hrk⟩, ?_⟩
    rw [List.any_eq_true]
    refine ⟨_, ha, ?_⟩
    simp only [List.contains_iff_mem]
    exact (mem_dynRels p scc a.rel).2 hdyn

theorem stratError_eq (p : Skel) :
    stratError p = (List.range p.rules.length).any fun i => aggOverDynamic p (classOf p (reachTable p) i) := rfl

theorem stratError_iff' (p : Skel) :
    stratError p = true ↔
      ∃ i k j rk rj a, i < p.rules.length ∧ sameScc p i k = true ∧ sameScc p i j = true ∧
        p.rules[k]? = some rk ∧ p.rules[j]? = some rj ∧ AscentVerif.Item.agg a ∈ rk.body ∧ a.rel ∈ rj.headRels := by
  rw [stratError_eq, List.any_eq_true]
  constructor
  · rintro ⟨i, hi, h⟩
    rw [List.mem_range] at hi
    obtain ⟨k, hk, rk, hrk, a, ha, j, hj, rj, hrj, hx⟩ := (aggOverDynamic_iff p _).1 h
    exact ⟨i, k, j, rk, rj, a, hi, ((mem_classOf p i k hi).1 hk).2, ((mem_classOf p i j hi).1 hj).2, hrk, hrj, ha, hx⟩
  · rintro ⟨i, k, j, rk, rj, a, hi, hsk, hsj, hrk, hrj, ha, hx⟩
    refine ⟨i, List.mem_range.2 hi, (aggOverDynamic_iff p _).2 ?_⟩
    obtain ⟨hk, _⟩ := List.getElem?_eq_some_iff.1 hrk
    obtain ⟨hj, _⟩ := List.getElem?_eq_some_iff.1 hrj
    exact ⟨k, (mem_classOf p i k hi).2 ⟨hk, hsk⟩, rk, hrk, a, ha, j, (mem_classOf p i j hi).2 ⟨hj, hsj⟩, rj, hrj, hx⟩

end AscentVerif.Check
