import AscentVerif.Model.TrRelUFInd
import AscentVerif.Props.C18
/-!
# C12 (b): the provider model — definitions of the statements and their proofs
-/
namespace AscentVerif.C12
open AscentVerif AscentVerif.TrInd AscentVerif.TrRel

/-- the content of `new` after inserting `ps` one by one (a set: first occurrences, in order) -/
def batchOf (ps : List (Int × Int)) : PSet := ps.foldl (fun s p => (psInsert s p).1) []

/-- `insert_if_not_present` of every pair, in order -/
def insertAll (c : Common) : List (Int × Int) → Res Common
  | [] => .ok c
  | (x, y) :: rest => match c.insert x y with
    | .ok (c', _) => insertAll c' rest
    | .panic => .panic

/-- run an op sequence on a binary triple: `none` = merge, `some (x, y)` = head-style insert into `new` -/
def runBin (pol : Policy) : List (Option (Int × Int)) → Common × Common × Common → Res (Common × Common × Common)
  | [], s => .ok s
  | none :: rest, (n, d, t) => match merge pol n d t with
    | .ok s' => runBin pol rest s'
    | .panic => .panic
  | some (x, y) :: rest, (n, d, t) => match n.insert x y with
    | .ok (n', _) => runBin pol rest (n', d, t)
    | .panic => .panic

/-- the same for the ternary wrapper -/
def runTer (pol : Policy) : List (Option (Int × Int × Int)) → Ternary × Ternary × Ternary → Res (Ternary × Ternary × Ternary)
  | [], s => .ok s
  | none :: rest, (n, d, t) => match Ternary.merge pol n d t with
    | .ok s' => runTer pol rest s'
    | .panic => .panic
  | some (k, x, y) :: rest, (n, d, t) => match n.insert k x y with
    | .ok (n', _) => runTer pol rest (n', d, t)
    | .panic => .panic

/-- observe a result -/
def obs {α β : Type} (r : Res α) (f : α → β) : Res β :=
  match r with
  | .ok a => .ok (f a)
  | .panic => .panic

def bin0 : Common × Common × Common := (.new [], Common.default, Common.default)
def ter0 : Ternary × Ternary × Ternary := (Ternary.default true true, Ternary.default true true, Ternary.default true true)

def f12State := runBin {} [some (1, 2), none, some (2, 3), none] bin0
def f11State := runTer {} [some (0, 1, 2), none] ter0
def f14State := runTer {} [some (0, 1, 2), none, some (0, 2, 3), none] ter0
def f8Result := runTer {} [some (0, 1, 2), none, none, some (0, 2, 3), none] ter0
def f18State := runTer {} [some (0, 1, 2), none, some (0, 3, 3), none] ter0

abbrev Tups := Option (List (List Int))

/-- what the witnesses observe -/
def f12Obs : Res (List (Int × Int) × Bool × Bool) := do
  let s ← f12State
  pure (← s.2.1.iterAll, ← s.2.1.contains 3 3, ← s.2.2.contains 3 3)
def f11Obs : Res (Tups × Tups × Tups) := do
  let s ← f11State
  pure (← s.2.1.get1 false 2, ← s.2.1.get1 true 1, ← s.2.1.get0x false 0 2)
def f14Obs : Res (Tups × Tups) := do
  let s ← f14State
  pure (← s.2.1.get1 false 1, ← s.2.1.get0x false 0 1)
/-- the op sequence itself runs (no panic in the merges) … -/
def f18Runs : Res Unit := obs f18State fun _ => ()
/-- … and then the probe of the delta view [1] panics -/
def f18Obs : Res Tups := do
  let s ← f18State
  s.2.1.get1 false 3

/-! ## helper lemmas -/

theorem insertAll_new (ps : List (Int × Int)) : ∀ s : PSet,
    insertAll (.new s) ps = .ok (.new (ps.foldl (fun s p => (psInsert s p).1) s)) := by
  induction ps with
  | nil => intro s; rfl
  | cons p rest ih =>
    intro s
    obtain ⟨x, y⟩ := p
    have h : (Common.new s).insert x y = .ok (.new (psInsert s (x, y)).1, (psInsert s (x, y)).2) := rfl
    simp only [insertAll, h, List.foldl_cons]
    exact ih _

theorem foldlM_add_eq_run (l : List (Int × Int)) : ∀ t : TrRel,
    l.foldlM (fun t p => do let (t, _) ← t.add p.1 p.2; pure t) t = TrRel.run t l := by
  induction l with
  | nil => intro t; rfl
  | cons p rest ih =>
    intro t
    obtain ⟨x, y⟩ := p
    simp only [List.foldlM_cons, TrRel.run]
    cases h : t.add x y with
    | panic => rfl
    | ok r =>
      obtain ⟨t', b⟩ := r
      exact ih t'

theorem mem_orderBatch (pol : Policy) (s : PSet) (p : Int × Int) : p ∈ orderBatch pol s ↔ p ∈ s := by
  unfold orderBatch
  by_cases h : p.1 = p.2 <;> cases pol.selfFirst <;> simp [List.mem_append, List.mem_filter, h]

theorem mem_psFold (ps : List (Int × Int)) (p : Int × Int) : ∀ s : PSet,
    p ∈ ps.foldl (fun s q => (psInsert s q).1) s ↔ p ∈ s ∨ p ∈ ps := by
  induction ps with
  | nil => intro s; simp
  | cons q rest ih =>
    intro s
    rw [List.foldl_cons, ih]
    unfold psInsert
    by_cases hq : s.contains q = true
    · simp only [hq, if_true, List.mem_cons]
      have hq' : q ∈ s := by simpa using hq
      constructor
      · rintro (h | h)
        · exact Or.inl h
        · exact Or.inr (Or.inr h)
      · rintro (h | h | h)
        · exact Or.inl h
        · exact Or.inl (h ▸ hq')
        · exact Or.inr h
    · simp only [hq, List.mem_cons]
      simp only [Bool.false_eq_true, if_false, List.mem_append, List.mem_singleton]
      constructor
      · rintro ((h | h) | h)
        · exact Or.inl h
        · exact Or.inr (Or.inl h)
        · exact Or.inr (Or.inr h)
      · rintro (h | h | h)
        · exact Or.inl (Or.inl h)
        · exact Or.inl (Or.inr h)
        · exact Or.inr h

theorem mem_batchOf (ps : List (Int × Int)) (p : Int × Int) : p ∈ batchOf ps ↔ p ∈ ps := by
  unfold batchOf
  rw [mem_psFold]; simp

theorem closure_congr {l l' : List (Int × Int)} (h : ∀ p, p ∈ l ↔ p ∈ l') (x y : Int) :
    Closure l x y ↔ Closure l' x y := by
  have hm : ∀ z, Mentioned l z ↔ Mentioned l' z := by
    intro z; unfold Mentioned
    constructor
    · rintro ⟨p, hp, hz⟩; exact ⟨p, (h p).mp hp, hz⟩
    · rintro ⟨p, hp, hz⟩; exact ⟨p, (h p).mpr hp, hz⟩
  unfold Closure
  rw [hm x, hm y]
  constructor
  · rintro ⟨a, b, c⟩; exact ⟨a, b, ReflTransGen.mono (fun _ _ hp => (h _).mp hp) c⟩
  · rintro ⟨a, b, c⟩; exact ⟨a, b, ReflTransGen.mono (fun _ _ hp => (h _).mpr hp) c⟩

theorem join_nil_left (tg tr r2 : NMap) (c : Nat → Nat → Bool) : join tg tr [] r2 c = (tg, tr, false) := by
  unfold join
  split
  · rfl
  · have : ∀ (l : NMap) (st : NMap × NMap × Bool),
        l.foldl (fun st (p : Nat × NSet) =>
          match alGet ([] : NMap) p.1 with
          | some xSet => joinBody c xSet p.2 st
          | none => st) st = st := by
      intro l
      induction l with
      | nil => intro st; rfl
      | cons p rest ih => intro st; exact ih st
    exact this r2 _

theorem join_nil_right (tg tr r1 : NMap) (c : Nat → Nat → Bool) : join tg tr r1 [] c = (tg, tr, false) := by
  unfold join
  split
  · have : ∀ (l : NMap) (st : NMap × NMap × Bool),
        l.foldl (fun st (p : Nat × NSet) =>
          match alGet ([] : NMap) p.1 with
          | some xRevSet => joinBody c p.2 xRevSet st
          | none => st) st = st := by
      intro l
      induction l with
      | nil => intro st; rfl
      | cons p rest ih => intro st; exact ih st
    exact this r1 _
  · rfl

theorem merge_first (pol : Policy) (b : PSet) :
    merge pol (.new b) Common.default Common.default =
      (do let nd ← TrRel.run {} (orderBatch pol b); pure (.new [], .total nd, .total {})) := by
  rw [← foldlM_add_eq_run]
  rfl

theorem mergeLoop_nil (c rc : NMap) (k : Nat) :
    mergeLoop c rc [] (k + 2) { dd := [], ddRev := [], dt := [], dtRev := [] } =
      .ok { dd := [], ddRev := [], dt := [], dtRev := [] } := by
  simp only [mergeLoop, join_nil_left, join_nil_right]
  rfl

theorem merge_second (pol : Policy) (nd : TrRel) (h : nd.sets ≠ []) :
    merge pol (.new []) (.total nd) (.total {}) = .ok (.new [], .delta { total := nd }, .total nd) := by
  have he : nd.sets.isEmpty = false := by
    cases hh : nd.sets with
    | nil => exact absurd hh h
    | cons a l => rfl
  simp only [merge, Common.isEmptyInh, Common.unwrapNewMut, bind, Res.bind, pure, he, List.isEmpty_nil, List.foldlM_nil, Bool.false_and, if_true, Bool.false_eq_true, if_false,
    mergeLoop_nil]

theorem first_batch_contract (pol : Policy) (ps : List (Int × Int)) (nd : TrRel)
    (hrun : TrRel.run {} (orderBatch pol (batchOf ps)) = .ok nd) (hs : nd.subs = []) :
    insertAll (.new []) ps = .ok (.new (batchOf ps)) ∧
    merge pol (.new (batchOf ps)) Common.default Common.default = .ok (.new [], .total nd, .total {}) ∧
    (∀ x y, ((Common.total nd).contains x y = .ok true ↔ Closure ps x y) ∧
            ((Common.total nd).contains x y = .ok false ↔ ¬ Closure ps x y)) ∧
    (∀ x y, (Common.total {}).contains x y = .ok false) ∧
    (nd.sets ≠ [] →
      merge pol (.new []) (.total nd) (.total {}) = .ok (.new [], .delta { total := nd }, .total nd) ∧
      (Common.delta { total := nd }).iterAll = .ok []) := by
  have hmem : ∀ p, p ∈ orderBatch pol (batchOf ps) ↔ p ∈ ps := fun p => by rw [mem_orderBatch, mem_batchOf]
  refine ⟨insertAll_new ps [], ?_, ?_, ?_, ?_⟩
  · rw [merge_first, hrun]; rfl
  · intro x y
    have h := tr_contains_iff_partial hrun hs x y
    rw [closure_congr hmem x y] at h
    exact h
  · intro x y; rfl
  · intro hne
    exact ⟨merge_second pol nd hne, rfl⟩

theorem merge_never_new (pol : Policy) (n d t n' d' t' : Common) (h : merge pol n d t = .ok (n', d', t')) :
    n' = .new [] ∧ ((∃ r, d' = .delta r) ∨ (∃ r, d' = .total r)) ∧ ∃ r, t' = .total r := by
  simp only [merge, bind, Res.bind, pure] at h
  repeat' (split at h)
  all_goals (first | (cases h; done) | skip)
  all_goals
    cases h
    first
      | exact ⟨rfl, Or.inl ⟨_, rfl⟩, _, rfl⟩
      | exact ⟨rfl, Or.inr ⟨_, rfl⟩, _, rfl⟩

#print axioms first_batch_contract
#print axioms merge_never_new

end AscentVerif.C12
