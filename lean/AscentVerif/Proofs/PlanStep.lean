import AscentVerif.Proofs.PlanHir
/-!
# Plan proofs, part 3: the ordinary clause step, and bodies without a simple join

`clauseStep_eq`: for ANY environment whose domain is the grounded set `g`, a clause whose not-yet-grounded variable
arguments are pairwise distinct, index columns = the expression arguments and the grounded variables, and a
`pre_clause_vars` list with the same members as `g`: the index look-up followed by the new-variable assignments is, row by
row, what `matchArgs` does on every row of the version.
-/
namespace AscentVerif.Plan
open AscentVerif AscentVerif.Engine AscentVerif.Hir

variable {E B G P A : Type}

/-- the environment binds exactly the variables of `g` -/
def DomEq (ρ : Env) (g : List Var) : Prop := ∀ v, v ∈ keys ρ ↔ v ∈ g

/-- the variable arguments that are not grounded yet -/
def freshVars (g : List Var) (args : List (Arg E)) : List Var :=
  (args.filterMap argVar?).filter fun v => !g.contains v

/-- the check the index look-up performs, argument by argument -/
def keyOk (I : Interp E B G P A) (g : List Var) (ρ₀ : Env) : List (Arg E) → Tuple → Bool
  | a :: as, x :: xs => (!isIdx g a || x == argVal I ρ₀ a) && keyOk I g ρ₀ as xs
  | _, _ => true


theorem freshVars_cons_expr (g : List Var) (e : E) (as : List (Arg E)) :
    freshVars g (Arg.expr e :: as) = freshVars g as := rfl

theorem freshVars_cons_mem (g : List Var) (v : Var) (as : List (Arg E)) (hv : v ∈ g) :
    freshVars g (Arg.var v :: as) = freshVars g as := by
  show List.filter _ (v :: List.filterMap argVar? as) = _
  rw [List.filter_cons, List.contains_iff_mem.2 hv]; rfl

theorem contains_false_of_not_mem {l : List Var} {v : Var} (h : v ∉ l) : l.contains v = false := by
  cases hc : l.contains v with
  | false => rfl
  | true => exact absurd (List.contains_iff_mem.1 hc) h

theorem freshVars_cons_not_mem (g : List Var) (v : Var) (as : List (Arg E)) (hv : v ∉ g) :
    freshVars g (Arg.var v :: as) = v :: freshVars g as := by
  show List.filter _ (v :: List.filterMap argVar? as) = _
  rw [List.filter_cons, contains_false_of_not_mem hv]; rfl

theorem matchArgs_length (I : Interp E B G P A) (ρ₀ : Env) :
    ∀ (as : List (Arg E)) (xs : Tuple) (acc ρ' : Env), matchArgs I ρ₀ as xs acc = some ρ' → xs.length = as.length
  | [], [], _, _, _ => rfl
  | [], _ :: _, _, _, h => by simp [matchArgs] at h
  | _ :: _, [], _, _, h => by
    rename_i a as
    cases a <;> simp [matchArgs] at h
  | .var v :: as, x :: xs, acc, ρ', h => by
    simp only [matchArgs] at h
    cases hg : Env.get? acc v with
    | some y =>
      rw [hg] at h
      dsimp only at h
      by_cases hxy : x = y
      · rw [if_pos hxy] at h; simp [matchArgs_length I ρ₀ as xs _ _ h]
      · rw [if_neg hxy] at h; cases h
    | none =>
      rw [hg] at h
      simp [matchArgs_length I ρ₀ as xs _ _ h]
  | .expr e :: as, x :: xs, acc, ρ', h => by
    simp only [matchArgs] at h
    by_cases hxy : I.expr e ρ₀ = x
    · rw [if_pos hxy] at h; simp [matchArgs_length I ρ₀ as xs _ _ h]
    · rw [if_neg hxy] at h; cases h

theorem bindArgs_length (skip : Nat → Var → Bool) :
    ∀ (as : List (Arg E)) (xs : Tuple) (j : Nat) (acc ρ' : Env), bindArgs skip j as xs acc = some ρ' → xs.length = as.length
  | [], [], _, _, _, _ => rfl
  | [], _ :: _, _, _, _, h => by simp [bindArgs] at h
  | _ :: _, [], _, _, _, h => by
    rename_i a as
    cases a <;> simp [bindArgs] at h
  | .var v :: as, x :: xs, j, acc, ρ', h => by
    simp only [bindArgs] at h
    simp [bindArgs_length skip as xs _ _ _ h]
  | .expr e :: as, x :: xs, j, acc, ρ', h => by
    simp only [bindArgs] at h
    simp [bindArgs_length skip as xs _ _ _ h]

/-- `matchArgs` = the look-up's check, then the assignments of the new variables -/
theorem matchArgs_eq_bind (I : Interp E B G P A) (ρ₀ : Env) (g pre : List Var) (hdom : DomEq ρ₀ g)
    (hpre : ∀ v, v ∈ pre ↔ v ∈ g) :
    ∀ (as : List (Arg E)) (xs : Tuple) (j : Nat) (bl : Env),
      (∀ v ∈ keys bl, v ∉ g) → (∀ v ∈ keys bl, Arg.var v ∉ as) → (freshVars g as).Nodup →
      matchArgs I ρ₀ as xs (bl ++ ρ₀) =
        if keyOk I g ρ₀ as xs then bindArgs (fun _ v => pre.contains v) j as xs (bl ++ ρ₀) else none
  | [], [], _, _, _, _, _ => by simp [matchArgs, keyOk, bindArgs]
  | [], _ :: _, _, _, _, _, _ => by simp [matchArgs, keyOk, bindArgs]
  | a :: as, [], _, _, _, _, _ => by cases a <;> simp [matchArgs, keyOk, bindArgs]
  | .var v :: as, x :: xs, j, bl, h1, h2, h3 => by
    by_cases hv : v ∈ g
    · -- an index column
      have hvb : v ∉ keys bl := fun h => h1 v h hv
      have hget : Env.get? (bl ++ ρ₀) v = Env.get? ρ₀ v := by
        rw [get?_append, (get?_eq_none_iff bl v).2 hvb]
      have hsome : (Env.get? ρ₀ v).isSome := (get?_isSome_iff ρ₀ v).2 ((hdom v).2 hv)
      obtain ⟨y, hy⟩ := Option.isSome_iff_exists.1 hsome
      have hfresh : freshVars g (Arg.var v :: as) = freshVars g as := freshVars_cons_mem g v as hv
      have ih := matchArgs_eq_bind I ρ₀ g pre hdom hpre as xs (j + 1) bl h1
        (fun w hw hm => h2 w hw (List.mem_cons_of_mem _ hm)) (hfresh ▸ h3)
      have hskip : pre.contains v = true := List.contains_iff_mem.2 ((hpre v).2 hv)
      simp only [matchArgs, keyOk, bindArgs, hget, hy, isIdx, argVal, Option.getD_some, hskip, if_true]
      rw [List.contains_iff_mem.2 hv]
      by_cases hxy : x = y
      · subst hxy; simp [ih]
      · simp [hxy]
    · -- a new variable
      have hvb : v ∉ keys bl := fun h => h2 v h List.mem_cons_self
      have hget : Env.get? (bl ++ ρ₀) v = none := by
        rw [get?_append, (get?_eq_none_iff bl v).2 hvb]
        exact (get?_eq_none_iff ρ₀ v).2 fun h => hv ((hdom v).1 h)
      have hfresh : freshVars g (Arg.var v :: as) = v :: freshVars g as := freshVars_cons_not_mem g v as hv
      rw [hfresh, List.nodup_cons] at h3
      have hnot : Arg.var v ∉ as := by
        intro hm
        apply h3.1
        simp only [freshVars, List.mem_filter, List.mem_filterMap]
        refine ⟨⟨_, hm, rfl⟩, ?_⟩
        cases hc : g.contains v with
        | false => rfl
        | true => exact absurd (List.contains_iff_mem.1 hc) hv
      have ih := matchArgs_eq_bind I ρ₀ g pre hdom hpre as xs (j + 1) ((v, x) :: bl)
        (by
          intro w hw
          simp only [keys, List.map_cons, List.mem_cons] at hw
          rcases hw with h | h
          · subst h; exact hv
          · exact h1 w h)
        (by
          intro w hw hm
          simp only [keys, List.map_cons, List.mem_cons] at hw
          rcases hw with h | h
          · subst h; exact hnot hm
          · exact h2 w h (List.mem_cons_of_mem _ hm))
        h3.2
      have hskip : pre.contains v = false := by
        cases hc : pre.contains v with
        | false => rfl
        | true => exact absurd ((hpre v).1 (List.contains_iff_mem.1 hc)) hv
      have hidx : g.contains v = false := by
        cases hc : g.contains v with
        | false => rfl
        | true => exact absurd (List.contains_iff_mem.1 hc) hv
      simp only [matchArgs, keyOk, bindArgs, hget, isIdx, hidx, hskip, Bool.not_false, Bool.true_or, Bool.true_and]
      exact ih
  | .expr e :: as, x :: xs, j, bl, h1, h2, h3 => by
    have hfresh : freshVars g (Arg.expr e :: as) = freshVars g as := rfl
    have ih := matchArgs_eq_bind I ρ₀ g pre hdom hpre as xs (j + 1) bl h1
      (fun w hw hm => h2 w hw (List.mem_cons_of_mem _ hm)) (hfresh ▸ h3)
    simp only [matchArgs, keyOk, bindArgs, isIdx, argVal, Bool.not_true, Bool.false_or]
    by_cases hxy : I.expr e ρ₀ = x
    · subst hxy; simp [ih]
    · have : (x == I.expr e ρ₀) = false := by
        rw [beq_eq_false_iff_ne]; exact fun h => hxy h.symm
      simp [hxy, this]

theorem keyOk_iff (I : Interp E B G P A) (g : List Var) (ρ₀ : Env) :
    ∀ (as : List (Arg E)) (xs : Tuple), xs.length = as.length →
      (keyOk I g ρ₀ as xs = true ↔
        ∀ j a, as[j]? = some a → isIdx g a = true → xs.getD j .unit = argVal I ρ₀ a)
  | [], [], _ => by simp [keyOk]
  | [], _ :: _, h => by simp at h
  | _ :: _, [], h => by simp at h
  | a :: as, x :: xs, h => by
    have ih := keyOk_iff I g ρ₀ as xs (by simpa using h)
    simp only [keyOk, Bool.and_eq_true, ih]
    constructor
    · rintro ⟨h0, hr⟩ j b hb hi
      cases j with
      | zero =>
        simp only [List.getElem?_cons_zero, Option.some.injEq] at hb
        subst hb
        simp only [hi, Bool.not_true, Bool.false_or, beq_iff_eq] at h0
        simpa using h0
      | succ j =>
        simp only [List.getElem?_cons_succ] at hb
        simpa using hr j b hb hi
    · intro hall
      refine ⟨?_, fun j b hb hi => ?_⟩
      · cases hi : isIdx g a with
        | false => simp
        | true =>
          have := hall 0 a (by simp) hi
          simpa using this
      · have := hall (j + 1) b (by simpa using hb) hi
        simpa using this

/-- the look-up's key comparison is `keyOk` -/
theorem proj_eq_key (I : Interp E B G P A) (g : List Var) (ρ₀ : Env) (as : List (Arg E)) (xs : Tuple) (cols : List Nat)
    (hcols : ∀ j, j ∈ cols ↔ ∃ a, as[j]? = some a ∧ isIdx g a = true) (hlen : xs.length = as.length) :
    (proj cols xs == keyOf I ρ₀ as cols) = keyOk I g ρ₀ as xs := by
  rw [Bool.eq_iff_iff, beq_iff_eq, keyOk_iff I g ρ₀ as xs hlen]
  unfold proj keyOf
  rw [List.map_inj_left]
  constructor
  · intro h j a ha hi
    have := h j ((hcols j).2 ⟨a, ha, hi⟩)
    rw [ha] at this
    exact this
  · intro h j hj
    obtain ⟨a, ha, hi⟩ := (hcols j).1 hj
    rw [ha]
    exact h j a ha hi

/-- row by row: index look-up + new-variable assignments = `matchArgs` -/
theorem clause_row_eq (I : Interp E B G P A) (ρ₀ : Env) (g pre : List Var) (hdom : DomEq ρ₀ g)
    (hpre : ∀ v, v ∈ pre ↔ v ∈ g) (as : List (Arg E)) (cols : List Nat)
    (hcols : ∀ j, j ∈ cols ↔ ∃ a, as[j]? = some a ∧ isIdx g a = true) (hnd : (freshVars g as).Nodup) (xs : Tuple) :
    (if proj cols xs == keyOf I ρ₀ as cols then bindArgs (fun _ v => pre.contains v) 0 as xs ρ₀ else none) =
      matchArgs I ρ₀ as xs ρ₀ := by
  by_cases hlen : xs.length = as.length
  · rw [proj_eq_key I g ρ₀ as xs cols hcols hlen]
    have := matchArgs_eq_bind I ρ₀ g pre hdom hpre as xs 0 [] (fun _ h => by cases h) (fun _ h => by cases h) hnd
    simpa using this.symm
  · have h1 : bindArgs (fun _ v => pre.contains v) 0 as xs ρ₀ = none := by
      cases hb : bindArgs (fun _ v => pre.contains v) 0 as xs ρ₀ with
      | none => rfl
      | some ρ' => exact absurd (bindArgs_length _ as xs 0 ρ₀ ρ' hb) hlen
    have h2 : matchArgs I ρ₀ as xs ρ₀ = none := by
      cases hb : matchArgs I ρ₀ as xs ρ₀ with
      | none => rfl
      | some ρ' => exact absurd (matchArgs_length I ρ₀ as xs ρ₀ ρ' hb) hlen
    rw [h1, h2]; simp


theorem argsOk_nodup (V : VarsOf E B) (dg : List Var) :
    ∀ (as : List (Arg E)) (here : List Var), argsOk V dg as here = true →
      (∀ w ∈ (as.filterMap argVar?).filter (fun v => !dg.contains v), w ∉ here) ∧
      ((as.filterMap argVar?).filter fun v => !dg.contains v).Nodup
  | [], _, _ => by simp
  | .var v :: as, here, h => by
    simp only [argsOk, Bool.and_eq_true, Bool.not_eq_true'] at h
    obtain ⟨ih1, ih2⟩ := argsOk_nodup V dg as (hereStep dg here v) h.2
    have hvh : v ∉ here := fun hm => by
      have := List.contains_iff_mem.2 hm; rw [h.1] at this; cases this
    cases hc : dg.contains v with
    | true =>
      have hf : ((Arg.var v :: as).filterMap argVar?).filter (fun v => !dg.contains v)
          = (as.filterMap argVar?).filter (fun v => !dg.contains v) := by
        show List.filter _ (v :: List.filterMap argVar? as) = _
        rw [List.filter_cons, hc]; rfl
      have hs : hereStep dg here v = here := by unfold hereStep; rw [hc]; rfl
      rw [hf]; rw [hs] at ih1
      exact ⟨ih1, ih2⟩
    | false =>
      have hf : ((Arg.var v :: as).filterMap argVar?).filter (fun v => !dg.contains v)
          = v :: (as.filterMap argVar?).filter (fun v => !dg.contains v) := by
        show List.filter _ (v :: List.filterMap argVar? as) = _
        rw [List.filter_cons, hc]; rfl
      have hs : hereStep dg here v = here ++ [v] := by unfold hereStep; rw [hc]; rfl
      rw [hf]; rw [hs] at ih1
      refine ⟨?_, ?_⟩
      · intro w hw
        rcases List.mem_cons.1 hw with e | hm
        · subst e; exact hvh
        · exact fun hh => ih1 w hm (List.mem_append_left _ hh)
      · rw [List.nodup_cons]
        exact ⟨fun hm => ih1 v hm (List.mem_append_right _ List.mem_cons_self), ih2⟩
  | .expr e :: as, here, h => by
    simp only [argsOk, Bool.and_eq_true] at h
    exact argsOk_nodup V dg as here h.2

/-- in a desugared clause the variables that are not grounded yet are pairwise distinct -/
theorem freshVars_nodup (V : VarsOf E B) (gd : List Var × List Var) (hgd : GdOk gd) (args : List (Arg E))
    (hok : argsOk V gd.2 args [] = true) : (freshVars gd.1 args).Nodup := by
  have h := (argsOk_nodup V gd.2 args [] hok).2
  have : freshVars gd.1 args =
      ((args.filterMap argVar?).filter fun v => !gd.2.contains v).filter fun v => !gd.1.contains v := by
    unfold freshVars
    rw [List.filter_filter]
    apply List.filter_congr
    intro v _
    cases hg : gd.1.contains v with
    | true => rfl
    | false =>
      have : gd.2.contains v = false := by
        cases hc : gd.2.contains v with
        | false => rfl
        | true =>
          have := List.contains_iff_mem.2 (hgd v (List.contains_iff_mem.1 hc))
          rw [hg] at this; cases this
      rw [this]; rfl
  rw [this]
  exact List.Pairwise.filter _ h

/-- the clause case of `evalBody`, with the rest of the body as a continuation -/
def semClause (I : Interp E B G P A) (rows : List Tuple) (bag : List Nat) (args : List (Arg E))
    (conds : List (Cond E B P)) (ρ : Env) (k : Env → List Env) : List Env :=
  bag.flatMap fun i =>
    match matchArgs I ρ args (rowAt rows i) ρ with
    | none => []
    | some ρ₁ =>
      match satConds I conds ρ₁ with
      | none => []
      | some ρ₂ => k ρ₂

theorem evalBody_clause (I : Interp E B G P A) (cfg : Config) (p : Program E B G P A) (s : SccSt) (r : RelId)
    (args : List (Arg E)) (conds : List (Cond E B P)) (rest : List (Item E B G P A)) (vs : List (Option Ver)) (ρ : Env) :
    evalBody I cfg p s (.clause r args conds :: rest) vs ρ =
      semClause I (relSt s.rels r).rows (clauseRows cfg p s r (vs.headD none)) args conds ρ
        fun ρ' => evalBody I cfg p s rest vs.tail ρ' := rfl

/-- **the clause step**: an index look-up on the chosen columns, with the key built before the clause and only the new
variables bound, enumerates exactly what the filter semantics enumerates, in the same order -/
theorem clauseStep_eq (I : Interp E B G P A) (rows : List Tuple) (bag : List Nat) (ρ : Env) (g pre : List Var)
    (hdom : DomEq ρ g) (hpre : ∀ v, v ∈ pre ↔ v ∈ g) (args : List (Arg E)) (conds : List (Cond E B P)) (cols : List Nat)
    (hcols : ∀ j, j ∈ cols ↔ ∃ a, args[j]? = some a ∧ isIdx g a = true) (hnd : (freshVars g args).Nodup)
    (k k' : Env → List Env)
    (hk : ∀ row ρ₁ ρ₂, matchArgs I ρ args row ρ = some ρ₁ → satConds I conds ρ₁ = some ρ₂ → k ρ₂ = k' ρ₂) :
    clauseStep I rows bag cols pre args conds ρ k = semClause I rows bag args conds ρ k' := by
  unfold clauseStep semClause idxGet
  rw [filter_flatMap_eq]
  apply flatMap_congr'
  intro i _
  rw [← clause_row_eq I ρ g pre hdom hpre args cols hcols hnd (rowAt rows i)]
  by_cases hc : (proj cols (rowAt rows i) == keyOf I ρ args cols) = true
  · rw [if_pos hc, if_pos hc]
    have hm := clause_row_eq I ρ g pre hdom hpre args cols hcols hnd (rowAt rows i)
    rw [if_pos hc] at hm
    cases hb : bindArgs (fun _ v => pre.contains v) 0 args (rowAt rows i) ρ with
    | none => rfl
    | some ρ₁ =>
      dsimp only
      cases hsc : satConds I conds ρ₁ with
      | none => rfl
      | some ρ₂ => exact hk (rowAt rows i) ρ₁ ρ₂ (by rw [← hm, hb]) hsc
  · rw [if_neg hc, if_neg hc]

/-! ## domains -/

theorem matchArgs_keys (I : Interp E B G P A) (ρ₀ : Env) :
    ∀ (as : List (Arg E)) (xs : Tuple) (acc ρ' : Env), matchArgs I ρ₀ as xs acc = some ρ' →
      ∀ v, v ∈ keys ρ' ↔ v ∈ keys acc ∨ v ∈ as.filterMap argVar?
  | [], [], acc, ρ', h => by
    simp only [matchArgs, Option.some.injEq] at h; subst h; simp
  | [], _ :: _, _, _, h => by simp [matchArgs] at h
  | a :: _, [], _, _, h => by cases a <;> simp [matchArgs] at h
  | .var w :: as, x :: xs, acc, ρ', h => by
    simp only [matchArgs] at h
    intro v
    cases hg : Env.get? acc w with
    | some y =>
      rw [hg] at h
      dsimp only at h
      by_cases hxy : x = y
      · rw [if_pos hxy] at h
        rw [matchArgs_keys I ρ₀ as xs acc ρ' h v]
        have hw : w ∈ keys acc := (get?_isSome_iff acc w).1 (by simp [hg])
        simp only [List.filterMap_cons, argVar?, List.mem_cons]
        constructor
        · rintro (h | h)
          · exact .inl h
          · exact .inr (.inr h)
        · rintro (h | h | h)
          · exact .inl h
          · subst h; exact .inl hw
          · exact .inr h
      · rw [if_neg hxy] at h; cases h
    | none =>
      rw [hg] at h
      dsimp only at h
      rw [matchArgs_keys I ρ₀ as xs _ ρ' h v]
      simp only [keys, List.map_cons, List.filterMap_cons, argVar?, List.mem_cons]
      constructor
      · rintro ((h | h) | h)
        · exact .inr (.inl h)
        · exact .inl h
        · exact .inr (.inr h)
      · rintro (h | h | h)
        · exact .inl (.inr h)
        · exact .inl (.inl h)
        · exact .inr h
  | .expr e :: as, x :: xs, acc, ρ', h => by
    simp only [matchArgs] at h
    by_cases hxy : I.expr e ρ₀ = x
    · rw [if_pos hxy] at h
      intro v
      rw [matchArgs_keys I ρ₀ as xs acc ρ' h v]
      simp [argVar?]
    · rw [if_neg hxy] at h; cases h

theorem keys_append (a b : Env) : keys (a ++ b) = keys a ++ keys b := by simp [keys]

theorem keys_zip (vs : List Var) (xs : List Val) (h : xs.length = vs.length) : keys (vs.zip xs) = vs := by
  unfold keys
  rw [List.map_fst_zip]
  omega

/-- a condition only adds a block of bindings for its bound variables -/
theorem satCond_form (I : Interp E B G P A) (c : Cond E B P) (ρ ρ' : Env) (h : satCond I c ρ = some ρ') :
    ∃ bl, ρ' = bl ++ ρ ∧ keys bl = Cond.boundVars c := by
  cases c with
  | ifc b =>
    simp only [satCond] at h
    by_cases hb : I.test b ρ = true
    · rw [if_pos hb] at h; cases h; exact ⟨[], rfl, rfl⟩
    · rw [if_neg hb] at h; cases h
  | letc v e =>
    simp only [satCond, Option.some.injEq] at h; subst h
    exact ⟨[(v, I.expr e ρ)], rfl, rfl⟩
  | ifLet pt vs e =>
    simp only [satCond] at h
    cases hp : I.pat pt (I.expr e ρ) with
    | none => rw [hp] at h; cases h
    | some xs =>
      rw [hp] at h
      simp only [Option.bind_some] at h
      by_cases hl : xs.length = vs.length
      · rw [if_pos hl] at h; cases h
        exact ⟨vs.zip xs, rfl, keys_zip vs xs hl⟩
      · rw [if_neg hl] at h; cases h

theorem satConds_form (I : Interp E B G P A) :
    ∀ (cs : List (Cond E B P)) (ρ ρ' : Env), satConds I cs ρ = some ρ' →
      ∃ bl, ρ' = bl ++ ρ ∧ ∀ v, v ∈ keys bl ↔ v ∈ cs.flatMap Cond.boundVars
  | [], ρ, ρ', h => by
    simp only [satConds, Option.some.injEq] at h; subst h
    exact ⟨[], rfl, by simp [keys]⟩
  | c :: cs, ρ, ρ', h => by
    simp only [satConds] at h
    cases hc : satCond I c ρ with
    | none => rw [hc] at h; cases h
    | some ρ₁ =>
      rw [hc] at h
      simp only [Option.bind_some] at h
      obtain ⟨b1, e1, k1⟩ := satCond_form I c ρ ρ₁ hc
      obtain ⟨b2, e2, k2⟩ := satConds_form I cs ρ₁ ρ' h
      refine ⟨b2 ++ b1, by rw [e2, e1, List.append_assoc], fun v => ?_⟩
      rw [keys_append, List.mem_append, k2 v, k1]
      simp only [List.flatMap_cons, List.mem_append]
      exact Or.comm

theorem satConds_keys (I : Interp E B G P A) (cs : List (Cond E B P)) (ρ ρ' : Env) (h : satConds I cs ρ = some ρ') :
    ∀ v, v ∈ keys ρ' ↔ v ∈ keys ρ ∨ v ∈ cs.flatMap Cond.boundVars := by
  obtain ⟨bl, e, k⟩ := satConds_form I cs ρ ρ' h
  intro v
  rw [e, keys_append, List.mem_append, k v]
  exact Or.comm

theorem aggEnvs_keys (I : Interp E B G P A) (a : AggClause E A) (ρ : Env) (tuples : List Tuple) (ρ' : Env)
    (h : ρ' ∈ aggEnvs I a ρ tuples) : ∀ v, v ∈ keys ρ' ↔ v ∈ keys ρ ∨ v ∈ a.outs := by
  simp only [aggEnvs, List.mem_filterMap] at h
  obtain ⟨out, _, ho⟩ := h
  by_cases hl : out.length = a.outs.length
  · rw [if_pos hl] at ho
    cases ho
    intro v
    rw [keys_append, List.mem_append, keys_zip _ _ hl]
    exact Or.comm
  · rw [if_neg hl] at ho; cases ho

/-- the domain after one body item -/
theorem domEq_clause (I : Interp E B G P A) {ρ ρ₁ ρ₂ : Env} {g g' : List Var} {row : Tuple} {r : RelId}
    {args : List (Arg E)} {conds : List (Cond E B P)} (hdom : DomEq ρ g)
    (hg' : ∀ v, v ∈ g' ↔ v ∈ g ∨ v ∈ itemBound (Item.clause r args conds : Item E B G P A))
    (hm : matchArgs I ρ args row ρ = some ρ₁) (hc : satConds I conds ρ₁ = some ρ₂) : DomEq ρ₂ g' := by
  intro v
  rw [satConds_keys I conds ρ₁ ρ₂ hc v, matchArgs_keys I ρ args row ρ ρ₁ hm v, hg' v, hdom v]
  simp only [itemBound, List.mem_append, or_assoc]

/-! ## the positions of the compiled rule a body suffix is evaluated against -/

/-- from position `i` on, the compiled rule `h` is what `gd` and the body suffix `rest` say -/
structure Agree (V : VarsOf E B) (h : HRule) (i : Nat) (gd : List Var × List Var) (rest : List (Item E B G P A)) : Prop where
  items : h.items.drop i = hitems V gd rest
  pre : ∀ v, v ∈ preVars h i ↔ v ∈ gd.1
  bound : h.bound.drop i = rest.map itemBound

theorem drop_cons_inv {α : Type} {l : List α} {i : Nat} {x : α} {xs : List α} (h : l.drop i = x :: xs) :
    l[i]? = some x ∧ l.drop (i + 1) = xs := by
  have hlt : i < l.length := by
    apply Classical.byContradiction; intro hn
    rw [List.drop_eq_nil_of_le (Nat.le_of_not_lt hn)] at h; cases h
  rw [List.drop_eq_getElem_cons hlt] at h
  cases h
  exact ⟨List.getElem?_eq_getElem hlt, rfl⟩

theorem Agree.step {V : VarsOf E B} {h : HRule} {i : Nat} {gd : List Var × List Var} {it : Item E B G P A}
    {rest : List (Item E B G P A)} (ha : Agree V h i gd (it :: rest)) (hgd : GdOk gd) (hok : itemOk V gd it = true) :
    h.items[i]? = some (hitemOf V gd it) ∧ Agree V h (i + 1) (gdStep V gd it) rest := by
  obtain ⟨h1, h2⟩ := drop_cons_inv (ha.items.trans rfl)
  obtain ⟨h3, h4⟩ := drop_cons_inv (ha.bound.trans rfl)
  refine ⟨h1, ⟨h2, fun v => ?_, h4⟩⟩
  have hlt : i < h.bound.length := (List.getElem?_eq_some_iff.1 h3).1
  have hb : h.bound[i] = itemBound it := by
    have := List.getElem?_eq_getElem hlt; rw [h3] at this; exact (Option.some.inj this).symm
  unfold preVars
  rw [← List.take_append_getElem hlt, List.flatten_append, List.mem_append, hb]
  have := ha.pre v
  unfold preVars at this
  rw [this, (gdStep_spec V gd hgd it hok).2 v]
  simp

theorem colsAt_of {h : HRule} {i : Nat} {r : RelId} {cols : List Nat} {b : Bool}
    (hi : h.items[i]? = some (.clause r cols b)) : colsAt h i = cols := by
  unfold colsAt; rw [hi]

/-! ## `evalFrom`, unfolded -/

theorem evalFrom_clause_ne (I : Interp E B G P A) (cfg : Config) (p : Program E B G P A) (s : SccSt) (h : HRule)
    (swap : Bool) (i : Nat) (r : RelId) (args : List (Arg E)) (conds : List (Cond E B P)) (rest : List (Item E B G P A))
    (vs : List (Option Ver)) (ρ : Env) (hne : h.simpleJoinStart ≠ some i) :
    evalFrom I cfg p s h swap i (.clause r args conds :: rest) vs ρ =
      clauseStep I (relSt s.rels r).rows (clauseRows cfg p s r (vs.headD none)) (colsAt h i) (preVars h i) args conds ρ
        fun ρ' => evalFrom I cfg p s h swap (i + 1) rest vs.tail ρ' := by
  cases rest with
  | nil => simp [evalFrom]
  | cons it rest' =>
    cases it with
    | clause r2 a2 c2 => simp [evalFrom, hne]
    | cond c => simp [evalFrom]
    | gen v g => simp [evalFrom]
    | agg a => simp [evalFrom]

/-- **bodies evaluated without a simple join**: from any position after which no simple join starts, for any environment
whose domain is the grounded set, the plan evaluation IS the filter evaluation (same environments, same order) -/
theorem evalFrom_eq_evalBody (I : Interp E B G P A) (cfg : Config) (p : Program E B G P A) (s : SccSt)
    (V : VarsOf E B) (h : HRule) (swap : Bool) :
    ∀ (rest : List (Item E B G P A)) (i : Nat) (gd : List Var × List Var) (vs : List (Option Ver)) (ρ : Env),
      GdOk gd → desugFrom V gd rest = true → DomEq ρ gd.1 → Agree V h i gd rest →
      (∀ j, i ≤ j → h.simpleJoinStart ≠ some j) →
      evalFrom I cfg p s h swap i rest vs ρ = evalBody I cfg p s rest vs ρ
  | [], _, _, _, _, _, _, _, _, _ => by simp [evalFrom, evalBody]
  | .clause r args conds :: rest, i, gd, vs, ρ, hgd, hd, hdom, ha, hsj => by
    simp only [desugFrom, Bool.and_eq_true] at hd
    obtain ⟨hit, ha'⟩ := ha.step hgd hd.1
    obtain ⟨hgd', hg'⟩ := gdStep_spec V gd hgd _ hd.1
    obtain ⟨hc1, _, _⟩ := scanOf_spec V gd hgd args hd.1
    rw [evalFrom_clause_ne I cfg p s h swap i r args conds rest vs ρ (hsj i (Nat.le_refl _)), evalBody_clause,
      colsAt_of hit]
    apply clauseStep_eq I _ _ ρ gd.1 (preVars h i) hdom ha.pre args conds _ hc1
    · -- the new variables are pairwise distinct
      exact freshVars_nodup V gd hgd args hd.1
    · intro row ρ₁ ρ₂ hm hc
      exact evalFrom_eq_evalBody I cfg p s V h swap rest (i + 1) _ vs.tail ρ₂ hgd' hd.2
        (domEq_clause I hdom hg' hm hc) ha' (fun j hj => hsj j (by omega))
  | .cond c :: rest, i, gd, vs, ρ, hgd, hd, hdom, ha, hsj => by
    simp only [desugFrom, Bool.and_eq_true] at hd
    obtain ⟨_, ha'⟩ := ha.step hgd hd.1
    obtain ⟨hgd', hg'⟩ := gdStep_spec V gd hgd _ hd.1
    simp only [evalFrom, evalBody]
    cases hc : satCond I c ρ with
    | none => rfl
    | some ρ₁ =>
      dsimp only
      apply evalFrom_eq_evalBody I cfg p s V h swap rest (i + 1) _ vs.tail ρ₁ hgd' hd.2 _ ha' (fun j hj => hsj j (by omega))
      intro v
      obtain ⟨bl, e, k⟩ := satCond_form I c ρ ρ₁ hc
      rw [e, keys_append, List.mem_append, k, hg' v, hdom v]
      simp only [itemBound]
      exact Or.comm
  | .gen w g :: rest, i, gd, vs, ρ, hgd, hd, hdom, ha, hsj => by
    simp only [desugFrom, Bool.and_eq_true] at hd
    obtain ⟨_, ha'⟩ := ha.step hgd hd.1
    obtain ⟨hgd', hg'⟩ := gdStep_spec V gd hgd _ hd.1
    simp only [evalFrom, evalBody]
    apply flatMap_congr'
    intro x _
    apply evalFrom_eq_evalBody I cfg p s V h swap rest (i + 1) _ vs.tail _ hgd' hd.2 _ ha' (fun j hj => hsj j (by omega))
    intro v
    rw [hg' v, ← hdom v]
    simp only [keys, List.map_cons, List.mem_cons, itemBound, List.not_mem_nil, or_false]
    exact Or.comm
  | .agg a :: rest, i, gd, vs, ρ, hgd, hd, hdom, ha, hsj => by
    simp only [desugFrom, Bool.and_eq_true] at hd
    obtain ⟨_, ha'⟩ := ha.step hgd hd.1
    obtain ⟨hgd', hg'⟩ := gdStep_spec V gd hgd _ hd.1
    simp only [evalFrom, evalBody]
    apply flatMap_congr'
    intro ρ₁ hρ₁
    apply evalFrom_eq_evalBody I cfg p s V h swap rest (i + 1) _ vs.tail _ hgd' hd.2 _ ha' (fun j hj => hsj j (by omega))
    intro v
    rw [aggEnvs_keys I a ρ _ ρ₁ hρ₁ v, hg' v, hdom v]
    simp only [itemBound]

end AscentVerif.Plan
