import AscentVerif.Model.EnginePhys
import AscentVerif.Props.C19
import AscentVerif.Proofs.StBasics
/-!
# The physical indices of one relation version against the bag of row numbers of the engine model

`IxOk rows bag cols m`: the hash index `m` (key = projection on `cols`, value = the other columns) holds exactly the
entries of the rows numbered by `bag`; `FullOk`: the full index holds exactly their tuples.  Established by
`update_indices` (`buildIx`, `buildFull`), kept by the head update (`Idx.insert`, `FullIdx.insertIfNotPresent`) and by
`merge_delta_to_total_new_to_delta` (`shiftIx`, `shiftFull`, through the swap branches of C19's `mergeStep`); and what
`index_get` / `iter_all` / `len_estimate` return under them.
-/
namespace AscentVerif.Phys
open AscentVerif AscentVerif.Engine AscentVerif.Index

/-- usable index columns: strictly increasing column numbers below the arity -/
def ColsOk (arity : Nat) (cols : List Nat) : Prop := increasing cols = true ∧ ∀ j ∈ cols, j < arity

theorem filter_range_getElem? (p : Nat → Bool) (n j : Nat) (hj : j < n) (hp : p j = true) :
    ((List.range n).filter p)[((List.range j).filter p).length]? = some j := by
  induction n with
  | zero => omega
  | succ n ih =>
    rw [List.range_succ, List.filter_append]
    by_cases h : j < n
    · have h3 := ih h
      have hlt : ((List.range j).filter p).length < ((List.range n).filter p).length := by
        apply Classical.byContradiction
        intro hh
        rw [List.getElem?_eq_none (Nat.le_of_not_lt hh)] at h3
        cases h3
      rw [List.getElem?_append_left hlt]
      exact h3
    · have hjn : j = n := by omega
      subst hjn
      rw [List.getElem?_append_right (Nat.le_refl _)]
      simp [hp]

theorem rebuild_proj (cols : List Nat) (row : Tuple) (h : ColsOk row.length cols) :
    rebuild cols row.length (Plan.proj cols row) (projC cols row) = row := by
  have _ := h
  apply List.ext_getElem
  · simp [rebuild]
  · intro j h1 h2
    simp only [rebuild, List.getElem_map, List.getElem_range]
    cases ht : cols.idxOf? j with
    | some t =>
      have h3 := List.findIdx?_eq_some_iff_getElem.mp ht
      obtain ⟨htl, heq, _⟩ := h3
      have hc : cols[t] = j := by simpa using heq
      simp only [Plan.proj, List.getD_eq_getElem?_getD, List.getElem?_map, List.getElem?_eq_getElem htl, hc,
        List.getElem?_eq_getElem h2, Option.map_some, Option.getD_some]
    | none =>
      have hnot : j ∉ cols := List.idxOf?_eq_none_iff.mp ht
      have hp : (fun i => !cols.contains i) j = true := by simpa using hnot
      have := filter_range_getElem? (fun i => !cols.contains i) row.length j h2 hp
      simp only [projC, rank, List.getD_eq_getElem?_getD, List.getElem?_map, this, List.getElem?_eq_getElem h2,
        Option.map_some, Option.getD_some]

theorem increasing_cons_cons {a b : Nat} {t : List Nat} (h : increasing (a :: b :: t) = true) :
    a < b ∧ increasing (b :: t) = true := by
  simpa [increasing] using h

theorem increasing_bound : ∀ (t : List Nat) (a hi : Nat), increasing (a :: t) = true → (∀ x ∈ a :: t, x < hi) →
    a + (t.length + 1) ≤ hi
  | [], a, hi, _, hb => by have := hb a (by simp); simp; omega
  | b :: t, a, hi, h, hb => by
    obtain ⟨hab, hi2⟩ := increasing_cons_cons h
    have := increasing_bound t b hi hi2 (fun x hx => hb x (List.mem_cons_of_mem _ hx))
    simp only [List.length_cons]
    omega

theorem increasing_eq_range' : ∀ (t : List Nat) (a : Nat), increasing (a :: t) = true →
    (∀ x ∈ a :: t, x < a + (t.length + 1)) → a :: t = List.range' a (t.length + 1)
  | [], a, _, _ => by simp [List.range']
  | b :: t, a, h, hb => by
    obtain ⟨hab, hi2⟩ := increasing_cons_cons h
    have hb' : ∀ x ∈ b :: t, x < a + ((b :: t).length + 1) := fun x hx => hb x (List.mem_cons_of_mem _ hx)
    have h1 := increasing_bound t b _ hi2 hb'
    simp only [List.length_cons] at h1 hb'
    have hba : b = a + 1 := by omega
    subst hba
    have ih := increasing_eq_range' t (a + 1) hi2 (fun x hx => by have := hb' x hx; omega)
    rw [ih]
    simp [List.range']

theorem cols_full (arity : Nat) (cols : List Nat) (h : ColsOk arity cols) (hl : cols.length = arity) :
    cols = List.range arity := by
  obtain ⟨hinc, hlt⟩ := h
  cases cols with
  | nil => subst hl; rfl
  | cons a t =>
    have h1 := increasing_bound t a arity hinc hlt
    simp only [List.length_cons] at hl
    have ha : a = 0 := by omega
    subst ha
    rw [increasing_eq_range' t 0 hinc (fun x hx => by have := hlt x hx; omega), List.range_eq_range', hl]

theorem proj_range (row : Tuple) : Plan.proj (List.range row.length) row = row := by
  apply List.ext_getElem
  · simp [Plan.proj]
  · intro j h1 h2
    simp [Plan.proj, List.getD_eq_getElem?_getD, List.getElem?_eq_getElem h2]

def IxOk (rows : List Tuple) (bag : List Nat) (cols : List Nat) (m : PIx) : Prop :=
  NoDupKeys m ∧ (∀ kv ∈ m, kv.2 ≠ []) ∧
  ∀ k x, (k, x) ∈ Idx.entries m ↔ ∃ i ∈ bag, k = Plan.proj cols (rowAt rows i) ∧ x = projC cols (rowAt rows i)

def FullOk (rows : List Tuple) (bag : List Nat) (m : FIx) : Prop :=
  NoDupKeys m ∧ ∀ t, FullIdx.containsKey m t = true ↔ t ∈ bagTuples rows bag

/-- one version of all the indices of a relation whose non-full index column sets are `ixr` -/
def VerOk (ixr : List (List Nat)) (rows : List Tuple) (bag : List Nat) (full : FIx) (idxs : List (List Nat × PIx)) : Prop :=
  FullOk rows bag full ∧ idxs.map (·.1) = ixr ∧ ∀ ci ∈ idxs, IxOk rows bag ci.1 ci.2

section hmap
variable {K V : Type} [DecidableEq K]

theorem mem_of_get?_eq_some (m : HMap K V) (k : K) (v : V) (h : HMap.get? m k = some v) : (k, v) ∈ m := by
  induction m with
  | nil => cases h
  | cons hd tl ih =>
    obtain ⟨a, b⟩ := hd
    rw [HMap.get?_cons] at h
    by_cases hak : a = k
    · subst hak
      simp only [if_true, Option.some.injEq] at h
      subst h
      exact List.mem_cons_self
    · simp only [hak, if_false] at h
      exact List.mem_cons_of_mem _ (ih h)

theorem get?_eq_some_of_mem (m : HMap K V) (k : K) (v : V) (hn : NoDupKeys m) (h : (k, v) ∈ m) : HMap.get? m k = some v := by
  induction m with
  | nil => cases h
  | cons hd tl ih =>
    obtain ⟨a, b⟩ := hd
    have hnd : a ∉ tl.map (·.1) ∧ (tl.map (·.1)).Nodup := by simpa [NoDupKeys] using hn
    rw [HMap.get?_cons]
    rcases List.mem_cons.mp h with h | h
    · injection h with h1 h2
      subst h1; subst h2
      simp
    · have hak : ¬ a = k := by
        intro e; subst e
        exact hnd.1 (List.mem_map.mpr ⟨(a, v), h, rfl⟩)
      simp only [hak, if_false]
      exact ih hnd.2 h

omit [DecidableEq K] in
theorem mem_entries {V : Type} (m : Idx K V) (k : K) (x : V) : (k, x) ∈ Idx.entries m ↔ ∃ vs, (k, vs) ∈ m ∧ x ∈ vs := by
  unfold Idx.entries
  rw [List.mem_flatMap]
  constructor
  · rintro ⟨⟨a, vs⟩, hm, hx⟩
    rw [List.mem_map] at hx
    obtain ⟨v, hv, he⟩ := hx
    injection he with h1 h2
    subst h1; subst h2
    exact ⟨vs, hm, hv⟩
  · rintro ⟨vs, hm, hx⟩
    exact ⟨(k, vs), hm, List.mem_map.mpr ⟨x, hx, rfl⟩⟩

theorem mem_entries_iff_vals {V : Type} (m : Idx K V) (hn : NoDupKeys m) (k : K) (x : V) :
    (k, x) ∈ Idx.entries m ↔ x ∈ Idx.vals m k := by
  rw [mem_entries]
  unfold Idx.vals Idx.get
  constructor
  · rintro ⟨vs, hm, hx⟩
    rw [get?_eq_some_of_mem m k vs hn hm]
    exact hx
  · intro hx
    cases hg : HMap.get? m k with
    | none => rw [hg] at hx; cases hx
    | some vs =>
      rw [hg] at hx
      exact ⟨vs, mem_of_get?_eq_some m k vs hg, hx⟩

theorem insert_nonempty {V : Type} (m : Idx K V) (k : K) (v : V) (h : ∀ kv ∈ m, kv.2 ≠ []) :
    ∀ kv ∈ Idx.insert m k v, kv.2 ≠ [] := by
  unfold Idx.insert
  induction m with
  | nil =>
    intro kv hkv
    simp only [HMap.upsert_nil, List.mem_singleton] at hkv
    subst hkv
    simp
  | cons hd tl ih =>
    obtain ⟨a, b⟩ := hd
    rw [HMap.upsert_cons]
    have htl : ∀ kv ∈ tl, kv.2 ≠ [] := fun kv hkv => h kv (List.mem_cons_of_mem _ hkv)
    by_cases hak : a = k
    · simp only [hak, if_true]
      intro kv hkv
      rcases List.mem_cons.mp hkv with e | e
      · subst e; simp
      · exact htl kv e
    · simp only [hak, if_false]
      intro kv hkv
      rcases List.mem_cons.mp hkv with e | e
      · subst e; exact h _ List.mem_cons_self
      · exact ih htl kv e

theorem foldl_insert_inv {V : Type} (ops : List (K × V)) (m : Idx K V) (hn : NoDupKeys m) (hne : ∀ kv ∈ m, kv.2 ≠ []) :
    NoDupKeys (ops.foldl (fun m kv => Idx.insert m kv.1 kv.2) m) ∧
      ∀ kv ∈ ops.foldl (fun m kv => Idx.insert m kv.1 kv.2) m, kv.2 ≠ [] := by
  induction ops generalizing m with
  | nil => exact ⟨hn, hne⟩
  | cons hd tl ih =>
    rw [List.foldl_cons]
    exact ih _ (HMap.nodup_keys_upsert _ _ _ hn) (insert_nonempty m hd.1 hd.2 hne)

theorem containsKey_foldl_insert {V : Type} (ops : List K) (v : V) (m : FullIdx K V) (hn : NoDupKeys m) :
    NoDupKeys (ops.foldl (fun m k => FullIdx.insert m k v) m) ∧
      ∀ t, FullIdx.containsKey (ops.foldl (fun m k => FullIdx.insert m k v) m) t = true ↔
        (FullIdx.containsKey m t = true ∨ t ∈ ops) := by
  induction ops generalizing m with
  | nil => exact ⟨hn, fun t => by simp⟩
  | cons hd tl ih =>
    rw [List.foldl_cons]
    have hn' : NoDupKeys (FullIdx.insert m hd v) := HMap.nodup_keys_upsert _ _ _ hn
    obtain ⟨h1, h2⟩ := ih _ hn'
    refine ⟨h1, fun t => ?_⟩
    rw [h2 t]
    unfold FullIdx.containsKey FullIdx.insert
    rw [HMap.get?_upsert]
    by_cases ht : t = hd
    · simp [ht]
    · simp [ht]

theorem containsKey_iff_mem_keys {V : Type} (m : FullIdx K V) (k : K) :
    FullIdx.containsKey m k = true ↔ k ∈ m.map (·.1) := HMap.get?_isSome_iff m k

end hmap

theorem mem_bagTuples' (rows : List Tuple) (bag : List Nat) (t : Tuple) :
    t ∈ bagTuples rows bag ↔ ∃ i ∈ bag, rowAt rows i = t := by
  simp [bagTuples]

theorem mem_bagTuples_range (rows : List Tuple) (t : Tuple) : t ∈ bagTuples rows (List.range rows.length) ↔ t ∈ rows := by
  rw [mem_bagTuples', mem_iff_rowAt]
  constructor
  · rintro ⟨i, hi, h⟩; exact ⟨i, List.mem_range.mp hi, h⟩
  · rintro ⟨i, hi, h⟩; exact ⟨i, List.mem_range.mpr hi, h⟩

theorem IxOk_nil (rows : List Tuple) (cols : List Nat) : IxOk rows [] cols [] := by
  refine ⟨List.nodup_nil, fun kv h => (by cases h), fun k x => ?_⟩
  simp [Idx.entries]

theorem FullOk_nil (rows : List Tuple) : FullOk rows [] [] := by
  refine ⟨List.nodup_nil, fun t => ?_⟩
  simp [FullIdx.containsKey, HMap.get?_nil, bagTuples]

theorem buildIx_eq (cols : List Nat) (rows : List Tuple) :
    buildIx cols rows = (rows.map fun row => (Plan.proj cols row, projC cols row)).foldl
      (fun m kv => Idx.insert m kv.1 kv.2) [] := by
  unfold buildIx buildIx.proj
  rw [List.foldl_map]

/-- `update_indices` -/
theorem IxOk_build (cols : List Nat) (rows : List Tuple) : IxOk rows (List.range rows.length) cols (buildIx cols rows) := by
  rw [buildIx_eq]
  obtain ⟨h1, h2⟩ := foldl_insert_inv (rows.map fun row => (Plan.proj cols row, projC cols row)) ([] : PIx)
    List.nodup_nil (fun kv h => by cases h)
  refine ⟨h1, h2, fun k x => ?_⟩
  have hp := Idx.entries_foldl_insert (rows.map fun row => (Plan.proj cols row, projC cols row)) ([] : PIx)
  rw [hp.mem_iff, Idx.entries_nil, List.nil_append, List.mem_map]
  constructor
  · rintro ⟨row, hrow, he⟩
    obtain ⟨i, hi, hr⟩ := (mem_iff_rowAt rows row).mp hrow
    injection he with e1 e2
    exact ⟨i, List.mem_range.mpr hi, by rw [hr, e1], by rw [hr, e2]⟩
  · rintro ⟨i, hi, e1, e2⟩
    exact ⟨rowAt rows i, rowAt_mem rows i (List.mem_range.mp hi), by rw [e1, e2]⟩

theorem FullOk_build (rows : List Tuple) : FullOk rows (List.range rows.length) (buildFull rows) := by
  obtain ⟨h1, h2⟩ := containsKey_foldl_insert rows () ([] : FIx) List.nodup_nil
  refine ⟨h1, fun t => ?_⟩
  unfold buildFull
  rw [h2 t, mem_bagTuples_range]
  simp [FullIdx.containsKey, HMap.get?_nil]

theorem bag_rowAt_append {rows : List Tuple} {bag : List Nat} (t : Tuple) (hb : ∀ i ∈ bag, i < rows.length)
    (P : Tuple → Prop) : (∃ i ∈ bag, P (rowAt (rows ++ [t]) i)) ↔ ∃ i ∈ bag, P (rowAt rows i) := by
  constructor
  · rintro ⟨i, hi, h⟩; exact ⟨i, hi, by rwa [rowAt_append_left rows [t] i (hb i hi)] at h⟩
  · rintro ⟨i, hi, h⟩; exact ⟨i, hi, by rwa [rowAt_append_left rows [t] i (hb i hi)]⟩

/-- pushing a row leaves the indices of the old rows alone -/
theorem IxOk_rows_append {rows : List Tuple} {bag cols : List Nat} {m : PIx} (t : Tuple) (h : IxOk rows bag cols m)
    (hb : ∀ i ∈ bag, i < rows.length) : IxOk (rows ++ [t]) bag cols m := by
  obtain ⟨h1, h2, h3⟩ := h
  refine ⟨h1, h2, fun k x => ?_⟩
  rw [h3 k x]
  exact (bag_rowAt_append t hb (fun r => k = Plan.proj cols r ∧ x = projC cols r)).symm

theorem FullOk_rows_append {rows : List Tuple} {bag : List Nat} {m : FIx} (t : Tuple) (h : FullOk rows bag m)
    (hb : ∀ i ∈ bag, i < rows.length) : FullOk (rows ++ [t]) bag m := by
  obtain ⟨h1, h2⟩ := h
  refine ⟨h1, fun u => ?_⟩
  rw [h2 u, mem_bagTuples', mem_bagTuples']
  exact (bag_rowAt_append t hb (fun r => r = u)).symm

theorem exists_mem_append_singleton (bag : List Nat) (n : Nat) (P : Nat → Prop) :
    (∃ i ∈ bag ++ [n], P i) ↔ (∃ i ∈ bag, P i) ∨ P n := by
  constructor
  · rintro ⟨i, hi, h⟩
    rcases List.mem_append.mp hi with hi | hi
    · exact .inl ⟨i, hi, h⟩
    · rw [List.mem_singleton] at hi; subst hi; exact .inr h
  · rintro (⟨i, hi, h⟩ | h)
    · exact ⟨i, List.mem_append_left _ hi, h⟩
    · exact ⟨n, List.mem_append_right _ (List.mem_singleton.mpr rfl), h⟩

/-- head update, non-full index: `index_insert(new, key, value)` of the pushed row -/
theorem IxOk_insert {rows : List Tuple} {bag cols : List Nat} {m : PIx} (t : Tuple) (h : IxOk rows bag cols m)
    (hb : ∀ i ∈ bag, i < rows.length) :
    IxOk (rows ++ [t]) (bag ++ [rows.length]) cols (Idx.insert m (Plan.proj cols t) (projC cols t)) := by
  obtain ⟨h1, h2, h3⟩ := IxOk_rows_append t h hb
  refine ⟨Idx.insert_noDup _ _ _ h1, insert_nonempty _ _ _ h2, fun k x => ?_⟩
  rw [(Idx.entries_insert m _ _).mem_iff, List.mem_append, List.mem_singleton, h3 k x,
    exists_mem_append_singleton bag rows.length
      (fun i => k = Plan.proj cols (rowAt (rows ++ [t]) i) ∧ x = projC cols (rowAt (rows ++ [t]) i)),
    rowAt_length_append, Prod.mk.injEq]

/-- head update, full index: `insert_if_not_present(new, row)` on a row that is not there -/
theorem FullOk_insertIfNotPresent {rows : List Tuple} {bag : List Nat} {m : FIx} (t : Tuple) (h : FullOk rows bag m)
    (hb : ∀ i ∈ bag, i < rows.length) (hnot : FullIdx.containsKey m t = false) :
    (FullIdx.insertIfNotPresent m t ()).2 = true ∧
      FullOk (rows ++ [t]) (bag ++ [rows.length]) (FullIdx.insertIfNotPresent m t ()).1 := by
  obtain ⟨s1, _, s3, s4⟩ := FullIdx.insertIfNotPresent_spec m t ()
  have hg : HMap.get? m t = none := by
    unfold FullIdx.containsKey at hnot
    cases hh : HMap.get? m t with
    | none => rfl
    | some x => rw [hh] at hnot; cases hnot
  obtain ⟨h1, h2⟩ := FullOk_rows_append t h hb
  refine ⟨s1.mpr hg, s4 h1, fun u => ?_⟩
  rw [mem_bagTuples', exists_mem_append_singleton bag rows.length (fun i => rowAt (rows ++ [t]) i = u),
    rowAt_length_append, ← mem_bagTuples', ← h2 u]
  unfold FullIdx.containsKey
  rw [s3 u]
  by_cases hu : u = t
  · simp [hu]
  · have hu' : ¬ t = u := fun e => hu e.symm
    simp [hu, hu']

theorem insertIfNotPresent_present {m : FIx} {t : Tuple} (h : FullIdx.containsKey m t = true) :
    FullIdx.insertIfNotPresent m t () = (m, false) := by
  unfold FullIdx.containsKey at h
  unfold FullIdx.insertIfNotPresent
  cases hh : HMap.get? m t with
  | none => rw [hh] at h; cases h
  | some x => rfl

theorem exists_mem_append (a b : List Nat) (P : Nat → Prop) :
    (∃ i ∈ a ++ b, P i) ↔ (∃ i ∈ a, P i) ∨ ∃ i ∈ b, P i := by
  constructor
  · rintro ⟨i, hi, h⟩
    rcases List.mem_append.mp hi with hi | hi
    · exact .inl ⟨i, hi, h⟩
    · exact .inr ⟨i, hi, h⟩
  · rintro (⟨i, hi, h⟩ | ⟨i, hi, h⟩)
    · exact ⟨i, List.mem_append_left _ hi, h⟩
    · exact ⟨i, List.mem_append_right _ hi, h⟩

/-- `merge_delta_to_total_new_to_delta` on one non-full index -/
theorem IxOk_shift {rows : List Tuple} {bt bd bn cols : List Nat} {t : Tri PIx}
    (ht : IxOk rows bt cols t.total) (hd : IxOk rows bd cols t.delta) (hn : IxOk rows bn cols t.new) :
    IxOk rows (bt ++ bd) cols (shiftIx t).total ∧ IxOk rows bn cols (shiftIx t).delta ∧ (shiftIx t).new = [] := by
  obtain ⟨ht1, ht2, ht3⟩ := ht
  obtain ⟨hd1, hd2, hd3⟩ := hd
  obtain ⟨s1, s2, s3, s4, _⟩ := Idx.mergeStep_spec t.new t.delta t.total hd1 ht1
  have hne := Idx.mergeStep_nonempty t.new t.delta t.total
    (fun k vs h => hd2 (k, vs) (mem_of_get?_eq_some _ _ _ h))
    (fun k vs h => ht2 (k, vs) (mem_of_get?_eq_some _ _ _ h))
  refine ⟨⟨s3, ?_, ?_⟩, ?_, s1⟩
  · intro kv hkv
    exact hne kv.1 kv.2 (get?_eq_some_of_mem _ _ _ s3 hkv)
  · intro k x
    show (k, x) ∈ Idx.entries (Idx.mergeStep t.new t.delta t.total).2.2 ↔ _
    rw [mem_entries_iff_vals _ s3, (s4 k).mem_iff, List.mem_append, ← mem_entries_iff_vals _ ht1,
      ← mem_entries_iff_vals _ hd1, ht3, hd3]
    exact (exists_mem_append bt bd
      (fun i => k = Plan.proj cols (rowAt rows i) ∧ x = projC cols (rowAt rows i))).symm
  · show IxOk rows bn cols (Idx.mergeStep t.new t.delta t.total).2.1
    rw [s2]
    exact hn

/-- … and on the full index (`total` and `delta` never share a row: the head update checks both) -/
theorem FullOk_shift {rows : List Tuple} {bt bd bn : List Nat} {t : Tri FIx}
    (ht : FullOk rows bt t.total) (hd : FullOk rows bd t.delta) (hn : FullOk rows bn t.new) :
    FullOk rows (bt ++ bd) (shiftFull t).total ∧ FullOk rows bn (shiftFull t).delta ∧ (shiftFull t).new = [] := by
  obtain ⟨ht1, ht2⟩ := ht
  obtain ⟨hd1, hd2⟩ := hd
  obtain ⟨s1, s2, s3, s4, _⟩ := FullIdx.mergeStep_spec t.new t.delta t.total hd1 ht1
  refine ⟨⟨s3, ?_⟩, ?_, s1⟩
  · intro u
    show (HMap.get? (FullIdx.mergeStep t.new t.delta t.total).2.2 u).isSome = true ↔ _
    rw [s4 u, Bool.or_eq_true, mem_bagTuples', exists_mem_append bt bd (fun i => rowAt rows i = u),
      ← mem_bagTuples', ← mem_bagTuples', ← ht2 u, ← hd2 u]
    rfl
  · show FullOk rows bn (FullIdx.mergeStep t.new t.delta t.total).2.1
    rw [s2]
    exact hn

theorem lookupIx_ok {ixr : List (List Nat)} {rows : List Tuple} {bag : List Nat} {idxs : List (List Nat × PIx)}
    {cols : List Nat} (hm : idxs.map (·.1) = ixr) (hc : cols ∈ ixr) (h : ∀ ci ∈ idxs, IxOk rows bag ci.1 ci.2) :
    IxOk rows bag cols (lookupIx idxs cols) := by
  unfold lookupIx
  cases hf : idxs.find? (·.1 == cols) with
  | none =>
    rw [← hm, List.mem_map] at hc
    obtain ⟨ci, hci, e⟩ := hc
    have := List.find?_eq_none.mp hf ci hci
    simp [e] at this
  | some ci =>
    have h1 := List.mem_of_find?_eq_some hf
    have h2 := List.find?_some hf
    have e : ci.1 = cols := by simpa using h2
    have h3 := h ci h1
    rw [e] at h3
    exact h3

/-- what the full index answers about a key that is a whole row -/
theorem full_branch {rows : List Tuple} {bag : List Nat} {full : FIx} (arity : Nat) (hf : FullOk rows bag full)
    (hty : ∀ i ∈ bag, (rowAt rows i).length = arity) (k : List Val) (t : Tuple) :
    (∃ i ∈ bag, rowAt rows i = t ∧ Plan.proj (List.range arity) t = k) ↔
      (t = k ∧ FullIdx.containsKey full k = true) := by
  constructor
  · rintro ⟨i, hi, e, hk⟩
    have hlen : t.length = arity := by rw [← e]; exact hty i hi
    have hkt : t = k := by rw [← hk, ← hlen, proj_range]
    refine ⟨hkt, ?_⟩
    rw [← hkt]
    exact (hf.2 t).mpr ((mem_bagTuples' rows bag t).mpr ⟨i, hi, e⟩)
  · rintro ⟨e, hck⟩
    subst e
    obtain ⟨i, hi, e⟩ := (mem_bagTuples' rows bag t).mp ((hf.2 t).mp hck)
    refine ⟨i, hi, e, ?_⟩
    have hlen : t.length = arity := by rw [← e]; exact hty i hi
    rw [← hlen, proj_range]

/-- what a hash index holds under a key: the values whose rebuilt rows are the rows of the bag with that projection -/
theorem ix_branch {rows : List Tuple} {bag cols : List Nat} {m : PIx} (arity : Nat) (hm : IxOk rows bag cols m)
    (hc : ColsOk arity cols) (hty : ∀ i ∈ bag, (rowAt rows i).length = arity) (k : List Val) (t : Tuple) :
    (∃ i ∈ bag, rowAt rows i = t ∧ Plan.proj cols t = k) ↔
      ∃ x, (k, x) ∈ Idx.entries m ∧ rebuild cols arity k x = t := by
  have hr : ∀ i ∈ bag, rebuild cols arity (Plan.proj cols (rowAt rows i)) (projC cols (rowAt rows i)) = rowAt rows i := by
    intro i hi
    have h1 := rebuild_proj cols (rowAt rows i) (by rw [hty i hi]; exact hc)
    rw [hty i hi] at h1
    exact h1
  constructor
  · rintro ⟨i, hi, e, hk⟩
    subst e
    subst hk
    exact ⟨projC cols (rowAt rows i), (hm.2.2 _ _).mpr ⟨i, hi, rfl, rfl⟩, hr i hi⟩
  · rintro ⟨x, hx, e⟩
    obtain ⟨i, hi, e1, e2⟩ := (hm.2.2 _ _).mp hx
    subst e1
    subst e2
    rw [hr i hi] at e
    subst e
    exact ⟨i, hi, rfl, rfl⟩

/-- `index_get` returns exactly the rows of the version whose projection on the index columns is the key -/
theorem get1_spec {ixr : List (List Nat)} {rows : List Tuple} {bag : List Nat} {full : FIx} {idxs : List (List Nat × PIx)}
    (arity : Nat) (cols : List Nat) (key : List Val) (hv : VerOk ixr rows bag full idxs) (hc : ColsOk arity cols)
    (hix : cols.length = arity ∨ cols ∈ ixr) (hty : ∀ i ∈ bag, (rowAt rows i).length = arity) (t : Tuple) :
    t ∈ get1 arity full idxs cols key ↔ ∃ i ∈ bag, rowAt rows i = t ∧ Plan.proj cols t = key := by
  unfold get1
  by_cases hl : cols.length = arity
  · have hcols := cols_full arity cols hc hl
    rw [hcols, full_branch arity hv.1 hty key t]
    simp only [List.length_range, beq_self_eq_true, if_true]
    cases hck : FullIdx.containsKey full key with
    | false => simp
    | true => simp
  · have hok := lookupIx_ok hv.2.1 (hix.resolve_left hl) hv.2.2
    have hne : (cols.length == arity) = false := by simpa using hl
    rw [ix_branch arity hok hc hty key t]
    simp only [hne, Bool.false_eq_true, if_false]
    rw [List.mem_map]
    constructor
    · rintro ⟨x, hx, e⟩
      exact ⟨x, (mem_entries_iff_vals _ hok.1 key x).mpr hx, e⟩
    · rintro ⟨x, hx, e⟩
      exact ⟨x, (mem_entries_iff_vals _ hok.1 key x).mp hx, e⟩

/-- `iter_all` enumerates every row of the version under the key equal to its projection, and nothing else -/
theorem all1_spec {ixr : List (List Nat)} {rows : List Tuple} {bag : List Nat} {full : FIx} {idxs : List (List Nat × PIx)}
    (arity : Nat) (cols : List Nat) (hv : VerOk ixr rows bag full idxs) (hc : ColsOk arity cols)
    (hix : cols.length = arity ∨ cols ∈ ixr) (hty : ∀ i ∈ bag, (rowAt rows i).length = arity) (k : List Val) (t : Tuple) :
    (∃ kr ∈ all1 arity full idxs cols, kr.1 = k ∧ t ∈ kr.2) ↔ ∃ i ∈ bag, rowAt rows i = t ∧ Plan.proj cols t = k := by
  unfold all1
  by_cases hl : cols.length = arity
  · have hcols := cols_full arity cols hc hl
    rw [hcols, full_branch arity hv.1 hty k t, containsKey_iff_mem_keys]
    simp only [List.length_range, beq_self_eq_true, if_true]
    constructor
    · rintro ⟨kr, hkr, e1, e2⟩
      obtain ⟨kv, hkv, e⟩ := List.mem_map.mp hkr
      subst e
      simp only [List.mem_singleton] at e1 e2
      subst e1
      exact ⟨e2, List.mem_map.mpr ⟨kv, hkv, rfl⟩⟩
    · rintro ⟨e, hk⟩
      obtain ⟨kv, hkv, e1⟩ := List.mem_map.mp hk
      exact ⟨(kv.1, [kv.1]), List.mem_map.mpr ⟨kv, hkv, rfl⟩, e1, by rw [e, ← e1]; exact List.mem_singleton.mpr rfl⟩
  · have hok := lookupIx_ok hv.2.1 (hix.resolve_left hl) hv.2.2
    have hne : (cols.length == arity) = false := by simpa using hl
    rw [ix_branch arity hok hc hty k t]
    simp only [hne, Bool.false_eq_true, if_false]
    constructor
    · rintro ⟨kr, hkr, e1, e2⟩
      obtain ⟨kv, hkv, e⟩ := List.mem_map.mp hkr
      subst e
      obtain ⟨a, vs⟩ := kv
      simp only at e1 e2
      subst e1
      obtain ⟨x, hx, e⟩ := List.mem_map.mp e2
      exact ⟨x, (mem_entries _ a x).mpr ⟨vs, hkv, hx⟩, e⟩
    · rintro ⟨x, hx, e⟩
      obtain ⟨vs, hvs, hxv⟩ := (mem_entries _ k x).mp hx
      exact ⟨(k, vs.map (rebuild cols arity k)), List.mem_map.mpr ⟨(k, vs), hvs, rfl⟩, rfl,
        List.mem_map.mpr ⟨x, hxv, e⟩⟩

/-- `len_estimate` is zero exactly on an empty version (so `is_empty` is exact) -/
theorem len1_eq_zero {ixr : List (List Nat)} {rows : List Tuple} {bag : List Nat} {full : FIx} {idxs : List (List Nat × PIx)}
    (arity : Nat) (cols : List Nat) (hv : VerOk ixr rows bag full idxs) (hix : cols.length = arity ∨ cols ∈ ixr) :
    len1 arity full idxs cols = 0 ↔ bag = [] := by
  unfold len1
  by_cases hl : cols.length = arity
  · simp only [hl, beq_self_eq_true, if_true]
    obtain ⟨_, hf⟩ := hv.1
    rw [List.length_eq_zero_iff]
    constructor
    · intro e
      subst e
      cases bag with
      | nil => rfl
      | cons i b =>
        have := (hf (rowAt rows i)).mpr ((mem_bagTuples' _ _ _).mpr ⟨i, List.mem_cons_self, rfl⟩)
        simp [FullIdx.containsKey, HMap.get?_nil] at this
    · intro e
      subst e
      cases full with
      | nil => rfl
      | cons hd tl =>
        obtain ⟨a, u⟩ := hd
        have h1 : FullIdx.containsKey ((a, u) :: tl) a = true := by
          simp [FullIdx.containsKey, HMap.get?_cons]
        have := (hf a).mp h1
        simp [bagTuples] at this
  · obtain ⟨_, o2, o3⟩ := lookupIx_ok hv.2.1 (hix.resolve_left hl) hv.2.2
    have hne : (cols.length == arity) = false := by simpa using hl
    simp only [hne, Bool.false_eq_true, if_false]
    generalize lookupIx idxs cols = m at o2 o3
    rw [List.length_eq_zero_iff]
    constructor
    · intro e
      subst e
      cases bag with
      | nil => rfl
      | cons i b =>
        have := (o3 _ _).mpr ⟨i, List.mem_cons_self, rfl, rfl⟩
        simp [Idx.entries] at this
    · intro e
      subst e
      cases m with
      | nil => rfl
      | cons hd tl =>
        obtain ⟨a, vs⟩ := hd
        cases vs with
        | nil => exact absurd rfl (o2 (a, []) List.mem_cons_self)
        | cons v vs =>
          have h1 : (a, v) ∈ Idx.entries ((a, v :: vs) :: tl) := by
            rw [Idx.entries_cons]; simp
          obtain ⟨i, hi, _⟩ := (o3 _ _).mp h1
          cases hi

/-! ## axiom audit -/
#print axioms rebuild_proj
#print axioms cols_full
#print axioms proj_range
#print axioms IxOk_build
#print axioms FullOk_build
#print axioms IxOk_rows_append
#print axioms FullOk_rows_append
#print axioms IxOk_insert
#print axioms FullOk_insertIfNotPresent
#print axioms insertIfNotPresent_present
#print axioms IxOk_shift
#print axioms FullOk_shift
#print axioms get1_spec
#print axioms all1_spec
#print axioms len1_eq_zero

end AscentVerif.Phys
