import AscentVerif.Proofs.PhysAggTimeout
import AscentVerif.Props.C04Phys
/-!
# Stratified restart over the physical indices (the statements of `Props/C13PhysAgg.lean` for any usable plan)

`Proofs/PhysAggTimeout.lean` (a physical `run` / `run_timeout` is an execution / a prefix of an execution of the nondeterministic
engine) combined with `Proofs/NDAggRestart.lean` (restart theory of the nondeterministic engine).  `PExt` is `ExtendsP` of
`Props/C13PhysAgg.lean`.
-/
namespace AscentVerif.Phys
open AscentVerif AscentVerif.Engine AscentVerif.Index

variable {E B G P A : Type}

/-- `t` extends `s` (`ExtendsP` of `Props/C13PhysAgg.lean`) -/
def PExt (p : Program E B G P A) (s t : PSt) : Prop :=
  ∀ r, r < p.rels.length → ∃ extra : List Tuple,
    (prel t r).rows = (prel s r).rows ++ extra ∧ extra.Nodup ∧ ∀ x ∈ extra, x ∉ (prel s r).rows

theorem PExt.abs {p : Program E B G P A} {s t : PSt} (h : PExt p s t) : Agg.ExtSt p (absSt s) (absSt t) := by
  intro r hr
  obtain ⟨extra, he, hn, hd⟩ := h r hr
  refine ⟨extra, ?_, hn, ?_⟩
  · rw [relSt_absSt, relSt_absSt]; exact he
  · intro x hx
    rw [relSt_absSt]; exact hd x hx

theorem PExt.refl (p : Program E B G P A) (s : PSt) : PExt p s s :=
  fun _ _ => ⟨[], by simp, List.nodup_nil, fun x hx => by simp at hx⟩

theorem PExt.facts {p : Program E B G P A} {s t : PSt} (h : PExt p s t) (hs : WFPSt p s) :
    ∀ f, factsOf s f → factsOf t f := by
  intro f hf
  have hr : f.rel < p.rels.length := by
    rcases Nat.lt_or_ge f.rel p.rels.length with h' | h'
    · exact h'
    · exfalso
      have hf' : f.args ∈ (prel s f.rel).rows := hf
      rw [prel_of_ge _ _ (by rw [hs.1]; exact h')] at hf'
      cases hf'
  obtain ⟨extra, he, _, _⟩ := h f.rel hr
  show f.args ∈ (prel t f.rel).rows
  rw [he]; exact List.mem_append_left _ hf

section Link
variable (I : Interp E B G P A) (hI : Plan.Ext I) (V : Hir.VarsOf E B) (hS : Plan.Supp I V)
  (hperm : AggPermInvariant I)
  (p : Program E B G P A) (ix : IxSets) (order : SccOrder)
  (hp : RelationalAgg p) (ho : validOrder p order = true) (hst : Stratified p order)
  (hplan : planOk V p ix = true) (hagg : aggPlanOk V p ix = true)
  (hd : ∀ r ∈ p.rules, Hir.Desugared V r = true ∧ Plan.WellScoped V r = true)

include hI hS hperm hp ho hst hplan hagg hd in
/-- **stratified restart over the physical indices** -/
theorem restart_physA (s t : PSt) (fuelM fuel : Nat) (oM o : ProgSt)
    (hs : WFPSt p s) (ht : WFPSt p t)
    (hM : run I V p ix order fuelM s = some oM)
    (hext : PExt p s t) (hsound : ∀ f, factsOf t f → factsOf oM.st f)
    (hrun : run I V p ix order fuel t = some o) :
    ∀ f, factsOf o.st f ↔ factsOf oM.st f := by
  obtain ⟨stM, hMnd, hsimM⟩ := run_is_RunND_agg I hI V hS hperm p ix order s fuelM oM hp hst hplan hagg hd hs hM
  obtain ⟨st', hnd, hsim⟩ := run_is_RunND_agg I hI V hS hperm p ix order t fuel o hp hst hplan hagg hd ht hrun
  have hsound' : ∀ f, Engine.factsOf (absSt t) f → Engine.factsOf stM f := by
    intro f hf
    have hf' : f.args ∈ (relSt (absSt t) f.rel).rows := hf
    rw [relSt_absSt] at hf'
    show f.args ∈ (relSt stM f.rel).rows
    rw [hsimM.rows]
    exact hsound f hf'
  have h := Agg.restartND_facts I {} p order hp.1 hp.2 ho hst hperm (absSt s) (absSt t) stM st'
    (wfSt'_absSt p s hs) (wfSt'_absSt p t ht) hMnd hext.abs hsound' hnd
  intro f
  have hf := h f
  simp only [Engine.factsOf, hsim.rows, hsimM.rows] at hf
  exact hf

include hI hS hperm hp ho hst hplan hagg hd in
/-- **`run_timeout` returned `false`, from any value between the inputs and the reference result** -/
theorem timeout_false_physA (dl : Deadline) (s t : PSt) (fuelM fuel : Nat) (oM : ProgSt) (o : ProgStT)
    (hs : WFPSt p s) (ht : WFPSt p t)
    (hM : run I V p ix order fuelM s = some oM)
    (hext : PExt p s t) (hsound : ∀ f, factsOf t f → factsOf oM.st f)
    (hrun : runTimeout I V p ix order dl fuel t = .timedOut o) :
    WFPSt p o.st ∧ PExt p s o.st ∧ (∀ f, factsOf o.st f → factsOf oM.st f) := by
  obtain ⟨stM, hMnd, hsimM⟩ := run_is_RunND_agg I hI V hS hperm p ix order s fuelM oM hp hst hplan hagg hd hs hM
  obtain ⟨a', hpre, hlen, hrows, htyped⟩ := runTimeout_timedOutA I hI V hS hperm p ix order dl t fuel o hp hst hplan hagg hd
    ht hrun
  have hsound' : ∀ f, Engine.factsOf (absSt t) f → Engine.factsOf stM f := by
    intro f hf
    have hf' : f.args ∈ (relSt (absSt t) f.rel).rows := hf
    rw [relSt_absSt] at hf'
    show f.args ∈ (relSt stM f.rel).rows
    rw [hsimM.rows]
    exact hsound f hf'
  obtain ⟨h1, h2, h3⟩ := Agg.timeoutND_sound_from I {} p order hp.1 hp.2 ho hst hperm (absSt s) (absSt t) stM a'
    (wfSt'_absSt p s hs) (wfSt'_absSt p t ht) hMnd hext.abs hsound' hpre
  refine ⟨⟨by rw [← hlen]; exact h1, htyped⟩, ?_, ?_⟩
  · intro r hr
    obtain ⟨extra, he, hn, hdj⟩ := h2 r hr
    rw [hrows r, relSt_absSt] at he
    rw [relSt_absSt] at hdj
    exact ⟨extra, he, hn, hdj⟩
  · intro f hf
    have hf' : f.args ∈ (prel o.st f.rel).rows := hf
    rw [← hrows] at hf'
    have := h3 f hf'
    show f.args ∈ (prel oM.st f.rel).rows
    rw [← hsimM.rows]
    exact this

include hI hS hperm hp ho hst hplan hagg hd in
/-- **`run_timeout` returned `true`** -/
theorem timeout_true_physA (dl : Deadline) (s t : PSt) (fuelM fuel : Nat) (oM : ProgSt) (o : ProgStT)
    (hs : WFPSt p s) (ht : WFPSt p t)
    (hM : run I V p ix order fuelM s = some oM)
    (hext : PExt p s t) (hsound : ∀ f, factsOf t f → factsOf oM.st f)
    (hrun : runTimeout I V p ix order dl fuel t = .done o) :
    ∀ f, factsOf o.st f ↔ factsOf oM.st f :=
  restart_physA I hI V hS hperm p ix order hp ho hst hplan hagg hd s t fuelM fuel oM ⟨o.st, o.iters⟩ hs ht hM hext hsound
    (runTimeout_done I V p ix order dl fuel t o hrun)

include hI hS hperm hp ho hst hplan hagg hd in
/-- a completed run leaves a typed value that extends the start value -/
theorem run_wf_extends_physA (s : PSt) (fuel : Nat) (o : ProgSt) (hs : WFPSt p s)
    (hrun : run I V p ix order fuel s = some o) :
    WFPSt p o.st ∧ PExt p s o.st := by
  obtain ⟨st', hnd, hsim⟩ := run_is_RunND_agg I hI V hS hperm p ix order s fuel o hp hst hplan hagg hd hs hrun
  obtain ⟨hw, hext, _⟩ := Agg.runND_wf_extends I {} p order hp.1 hp.2 ho hst (absSt s) st' (wfSt'_absSt p s hs) hnd
  refine ⟨⟨by rw [← hsim.len]; exact hw.1, ?_⟩, ?_⟩
  · intro r t ht
    rw [← hsim.rows] at ht
    exact hsim.typed r t ht
  · intro r hr
    obtain ⟨extra, he, hn, hdj⟩ := hext r hr
    rw [hsim.rows, relSt_absSt] at he
    rw [relSt_absSt] at hdj
    exact ⟨extra, he, hn, hdj⟩

include hI hS hperm hp ho hst hplan hagg hd in
/-- **run() is idempotent over the physical indices** -/
theorem rerun_idempotent_physA (s : PSt) (fuel₁ fuel₂ : Nat) (o₁ o₂ : ProgSt) (hs : WFPSt p s)
    (h₁ : run I V p ix order fuel₁ s = some o₁)
    (h₂ : run I V p ix order fuel₂ o₁.st = some o₂) :
    (∀ r, r < p.rels.length → (prel o₂.st r).rows = (prel o₁.st r).rows) ∧ (∀ f, factsOf o₂.st f ↔ factsOf o₁.st f) := by
  obtain ⟨hw₁, hext₁⟩ := run_wf_extends_physA I hI V hS hperm p ix order hp ho hst hplan hagg hd s fuel₁ o₁ hs h₁
  obtain ⟨_, hext₂⟩ := run_wf_extends_physA I hI V hS hperm p ix order hp ho hst hplan hagg hd o₁.st fuel₂ o₂ hw₁ h₂
  have hfacts := restart_physA I hI V hS hperm p ix order hp ho hst hplan hagg hd s o₁.st fuel₁ fuel₂ o₁ o₂ hs hw₁ h₁ hext₁
    (fun _ hf => hf) h₂
  have hrows : ∀ r, r < p.rels.length → (prel o₂.st r).rows = (prel o₁.st r).rows := by
    intro r hr
    obtain ⟨derived, hd', _, hnot⟩ := hext₂ r hr
    cases derived with
    | nil => simpa using hd'
    | cons t ts =>
      exfalso
      have hin : factsOf o₂.st ⟨r, t⟩ := by show t ∈ (prel o₂.st r).rows; rw [hd']; simp
      exact hnot t (by simp) ((hfacts ⟨r, t⟩).mp hin)
  exact ⟨hrows, hfacts⟩

end Link

end AscentVerif.Phys
