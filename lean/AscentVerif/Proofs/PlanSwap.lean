import AscentVerif.Proofs.PlanBody
/-!
# Plan proofs, part 8: the simple join with the two clauses swapped

In the swapped copy of a reorderable rule the second clause is iterated, its index-column variables are `let`-bound
from the key, the first clause is looked up on ITS index columns, and the conditions of the second clause run before
the first clause's variables are assigned.  `pairS`: for every pair of rows the environment reached is look-up-equal
to the one `evalBody` reaches — provided no variable bound before the join is an argument of the second clause or bound
by its conditions (`reorderable`), conditions do not rebind, and the interpreted functions depend only on the
variables `VarsOf` reports (`Supp`).
-/
namespace AscentVerif.Plan
open AscentVerif AscentVerif.Engine AscentVerif.Hir

variable {E B G P A : Type}

/-- expressions and tests depend only on the variables `V` reports for them -/
structure Supp (I : Interp E B G P A) (V : VarsOf E B) : Prop where
  expr : ∀ e ρ ρ', (∀ v ∈ V.e e, Env.get? ρ v = Env.get? ρ' v) → I.expr e ρ = I.expr e ρ'
  test : ∀ b ρ ρ', (∀ v ∈ V.b b, Env.get? ρ v = Env.get? ρ' v) → I.test b ρ = I.test b ρ'

/-! ## the bindings a list of conditions adds -/

def cblock (I : Interp E B G P A) : Cond E B P → Env → Option Env
  | .ifc b, ρ => if I.test b ρ then some [] else none
  | .letc v e, ρ => some [(v, I.expr e ρ)]
  | .ifLet p vs e, ρ => (I.pat p (I.expr e ρ)).bind fun xs => if xs.length = vs.length then some (vs.zip xs) else none

def condBlock (I : Interp E B G P A) : List (Cond E B P) → Env → Option Env
  | [], _ => some []
  | c :: cs, ρ => (cblock I c ρ).bind fun b => (condBlock I cs (b ++ ρ)).map (· ++ b)

theorem satCond_eq (I : Interp E B G P A) (c : Cond E B P) (ρ : Env) : satCond I c ρ = (cblock I c ρ).map (· ++ ρ) := by
  cases c with
  | ifc b =>
    simp only [satCond, cblock]
    by_cases h : I.test b ρ = true
    · rw [if_pos h, if_pos h]; rfl
    · rw [if_neg h, if_neg h]; rfl
  | letc v e => rfl
  | ifLet pt vs e =>
    simp only [satCond, cblock]
    cases I.pat pt (I.expr e ρ) with
    | none => rfl
    | some xs =>
      simp only [Option.bind_some]
      by_cases h : xs.length = vs.length
      · rw [if_pos h, if_pos h]; rfl
      · rw [if_neg h, if_neg h]; rfl

theorem satConds_eq (I : Interp E B G P A) :
    ∀ (cs : List (Cond E B P)) (ρ : Env), satConds I cs ρ = (condBlock I cs ρ).map (· ++ ρ)
  | [], _ => rfl
  | c :: cs, ρ => by
    simp only [satConds, condBlock, satCond_eq]
    cases cblock I c ρ with
    | none => rfl
    | some b =>
      simp only [Option.map_some, Option.bind_some]
      rw [satConds_eq I cs (b ++ ρ)]
      cases condBlock I cs (b ++ ρ) with
      | none => rfl
      | some x => simp

theorem cblock_keys (I : Interp E B G P A) (c : Cond E B P) (ρ b : Env) (h : cblock I c ρ = some b) :
    keys b = Cond.boundVars c := by
  cases c with
  | ifc t =>
    simp only [cblock] at h
    by_cases ht : I.test t ρ = true
    · rw [if_pos ht] at h; cases h; rfl
    · rw [if_neg ht] at h; cases h
  | letc v e => simp only [cblock, Option.some.injEq] at h; subst h; rfl
  | ifLet pt vs e =>
    simp only [cblock] at h
    cases hp : I.pat pt (I.expr e ρ) with
    | none => rw [hp] at h; cases h
    | some xs =>
      rw [hp] at h
      simp only [Option.bind_some] at h
      by_cases hl : xs.length = vs.length
      · rw [if_pos hl] at h; cases h; exact keys_zip vs xs hl
      · rw [if_neg hl] at h; cases h

theorem condBlock_keys (I : Interp E B G P A) :
    ∀ (cs : List (Cond E B P)) (ρ C : Env), condBlock I cs ρ = some C → ∀ v, v ∈ keys C ↔ v ∈ cs.flatMap Cond.boundVars
  | [], _, C, h => by simp only [condBlock, Option.some.injEq] at h; subst h; simp [keys]
  | c :: cs, ρ, C, h => by
    simp only [condBlock] at h
    cases hb : cblock I c ρ with
    | none => rw [hb] at h; cases h
    | some b =>
      rw [hb] at h
      simp only [Option.bind_some] at h
      cases hx : condBlock I cs (b ++ ρ) with
      | none => rw [hx] at h; cases h
      | some x =>
        rw [hx] at h
        simp only [Option.map_some, Option.some.injEq] at h
        subst h
        intro v
        rw [keys_append, List.mem_append, condBlock_keys I cs _ x hx v, cblock_keys I c ρ b hb]
        simp only [List.flatMap_cons, List.mem_append]
        exact Or.comm

theorem cblock_congr (I : Interp E B G P A) (V : VarsOf E B) (hS : Supp I V) (c : Cond E B P) (ρ ρ' : Env)
    (h : ∀ v ∈ Cond.exprVars V c, Env.get? ρ v = Env.get? ρ' v) : cblock I c ρ = cblock I c ρ' := by
  cases c with
  | ifc b => simp only [cblock]; rw [hS.test b ρ ρ' h]
  | letc v e => simp only [cblock]; rw [hS.expr e ρ ρ' h]
  | ifLet pt vs e => simp only [cblock]; rw [hS.expr e ρ ρ' h]

/-- conditions whose expressions only mention variables of `S` (and variables bound by earlier conditions of the list)
add the same bindings in any two environments that agree on `S` -/
theorem condBlock_congr (I : Interp E B G P A) (V : VarsOf E B) (hS : Supp I V) :
    ∀ (cs : List (Cond E B P)) (S : List Var) (ρ ρ' : Env), condsIn V S cs = true →
      (∀ v ∈ S, Env.get? ρ v = Env.get? ρ' v) → condBlock I cs ρ = condBlock I cs ρ'
  | [], _, _, _, _, _ => rfl
  | c :: cs, S, ρ, ρ', hin, hag => by
    simp only [condsIn, Bool.and_eq_true, List.all_eq_true] at hin
    have hc : cblock I c ρ = cblock I c ρ' :=
      cblock_congr I V hS c ρ ρ' fun v hv => hag v (List.contains_iff_mem.1 (hin.1 v hv))
    simp only [condBlock]
    rw [← hc]
    cases hb : cblock I c ρ with
    | none => rfl
    | some b =>
      simp only [Option.bind_some]
      rw [condBlock_congr I V hS cs (S ++ Cond.boundVars c) (b ++ ρ) (b ++ ρ') hin.2]
      intro v hv
      rw [get?_append, get?_append]
      cases hg : Env.get? b v with
      | some x => rfl
      | none =>
        have hvb : v ∉ keys b := (get?_eq_none_iff b v).1 hg
        rw [cblock_keys I c ρ b hb] at hvb
        rcases List.mem_append.1 hv with h | h
        · exact hag v h
        · exact absurd h hvb

/-! ## rows as valuations -/

/-- the variables of a clause paired with the values of a row -/
def zrow (args : List (Arg E)) (row : Tuple) : Env := bl (fun _ _ => false) 0 args row

theorem mem_zrow (args : List (Arg E)) (row : Tuple) (v : Var) (x : Val) :
    (v, x) ∈ zrow args row ↔ ∃ t : Nat, args[t]? = some (Arg.var v) ∧ row[t]? = some x := by
  unfold zrow
  rw [mem_bl]
  constructor
  · rintro ⟨t, v', x', h1, h2, _, h4⟩; cases h4; exact ⟨t, h1, h2⟩
  · rintro ⟨t, h1, h2⟩; exact ⟨t, v, x, h1, h2, rfl, rfl⟩

theorem bl_sub_zrow (skip : Nat → Var → Bool) (args : List (Arg E)) (row : Tuple) (p : Var × Val)
    (h : p ∈ bl skip 0 args row) : p ∈ zrow args row := by
  obtain ⟨t, v, x, h1, h2, _, rfl⟩ := (mem_bl skip p args row 0).1 h
  exact (mem_zrow args row v x).2 ⟨t, h1, h2⟩

theorem kb_sub_zrow (args : List (Arg E)) (row : Tuple) (cols : List Nat) (hlen : row.length = args.length)
    (p : Var × Val) (h : p ∈ kb args row cols) : p ∈ zrow args row := by
  obtain ⟨j, v, _, h2, rfl⟩ := (mem_kb args row cols p).1 h
  have hj : j < row.length := by rw [hlen]; exact (List.getElem?_eq_some_iff.1 h2).1
  exact (mem_zrow args row v _).2 ⟨j, h2, getElem?_getD hj⟩

theorem keys_zrow (args : List (Arg E)) (row : Tuple) (hlen : row.length = args.length) :
    keys (zrow args row) = args.filterMap argVar? := by
  have h := keys_bl [] args row 0 hlen
  have e1 : (fun (_ : Nat) (v : Var) => ([] : List Var).contains v) = fun _ _ => false := by
    funext _ v; rfl
  rw [e1] at h
  unfold zrow
  rw [h]
  unfold freshVars
  rw [List.filter_eq_self]
  intro v _; rfl

theorem zrow_unique {args : List (Arg E)} {row : Tuple} (hn : (keys (zrow args row)).Nodup) {v : Var} {x y : Val}
    (hx : (v, x) ∈ zrow args row) (hy : (v, y) ∈ zrow args row) : x = y := by
  have h1 := get?_of_mem_nodup hn hx
  have h2 := get?_of_mem_nodup hn hy
  rw [h1] at h2; exact Option.some.inj h2

/-- look-up in a block of bindings taken from a row -/
theorem get?_sub {bk z : Env} (hsub : ∀ p ∈ bk, p ∈ z) {v : Var} (hv : v ∈ keys bk) :
    ∃ x, Env.get? bk v = some x ∧ (v, x) ∈ z := by
  obtain ⟨x, hx⟩ := Option.isSome_iff_exists.1 ((get?_isSome_iff bk v).2 hv)
  exact ⟨x, hx, hsub _ (get?_mem hx)⟩

theorem keys_reverse (l : Env) : ∀ v, v ∈ keys l.reverse ↔ v ∈ keys l := by
  intro v; simp [keys]

theorem keys_sub {bk z : Env} (hsub : ∀ p ∈ bk, p ∈ z) : ∀ v ∈ keys bk, v ∈ keys z := by
  intro v hv
  obtain ⟨p, hp, rfl⟩ := List.mem_map.1 hv
  exact List.mem_map.2 ⟨p, hsub p hp, rfl⟩

/-- the look-up's key comparison for a clause all of whose arguments are variables, in terms of the row's valuation -/
theorem keycond_iff (I : Interp E B G P A) (σ : Env) (args : List (Arg E)) (row : Tuple) (cols : List Nat) (X : List Var)
    (hcols : ∀ j, j ∈ cols ↔ ∃ v, args[j]? = some (Arg.var v) ∧ v ∈ X) (hlen : row.length = args.length) :
    (proj cols row == keyOf I σ args cols) = true ↔
      ∀ v x, (v, x) ∈ zrow args row → v ∈ X → x = (Env.get? σ v).getD .unit := by
  rw [beq_iff_eq]
  unfold proj keyOf
  rw [List.map_inj_left]
  constructor
  · intro h v x hz hX
    obtain ⟨t, h1, h2⟩ := (mem_zrow args row v x).1 hz
    have := h t ((hcols t).2 ⟨v, h1, hX⟩)
    rw [h1, List.getD_eq_getElem?_getD, h2] at this
    exact this
  · intro h j hj
    obtain ⟨v, h1, hX⟩ := (hcols j).1 hj
    rw [h1]
    have hjl : j < row.length := by rw [hlen]; exact (List.getElem?_eq_some_iff.1 h1).1
    exact h v _ ((mem_zrow args row v _).2 ⟨j, h1, getElem?_getD hjl⟩) hX

theorem zrow_total (args : List (Arg E)) (row : Tuple) (hlen : row.length = args.length) (v : Var)
    (hv : v ∈ args.filterMap argVar?) : ∃ x, (v, x) ∈ zrow args row := by
  rw [← keys_zrow args row hlen] at hv
  obtain ⟨p, hp, rfl⟩ := List.mem_map.1 hv
  exact ⟨p.2, hp⟩

end AscentVerif.Plan
