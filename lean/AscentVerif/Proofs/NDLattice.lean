import AscentVerif.Props.C03
import AscentVerif.Proofs.NDLatticeExt
/-!
# The nondeterministic lattice engine: any processing order, row values read at any earlier moment of the pass

`Model/Engine.lean` evaluates a rule variant against a SNAPSHOT of the state taken when the variant starts, variant after
variant in a fixed order.  The generated code does something looser: it walks the frozen `total` / `delta` indices (row
numbers) in hash order and reads the rows — whose lattice values other head updates of the same pass keep improving in
place — LIVE, when its loops reach them.  This file gives the engine in that generality, as a relation:

* a pass is a TRACE of micro-steps; each micro-step takes some rule variant, an environment `ρ` that satisfies the body over
  the version bags with the row values of SOME state `sr` the pass has already been through (the state at pass start, at the
  start of the variant, just now, …), and applies the head updates to the current state;
* the pass is COMPLETE: every instance over the *stable* part of the final state (`PView`: rows of the version bags that were
  not re-queued, hence never changed during the pass — whenever the loops reach such an instance they see exactly it) was
  processed by some micro-step (up to the head facts it denotes);
* loops, SCCs and `run` are as in `Model/Engine.lean`.

`runNDL_spec`: every such execution ends with one row per lattice key, closed, and — for monotone programs — below every
closed key-unique database: the least fixed point.  `run_is_NDL`: the deterministic engine is one such execution.
-/
namespace AscentVerif.Engine
open AscentVerif

variable {E B G P A : Type}

/-- one entry of a pass trace: the state reached and the (rule, environment) whose head updates produced it -/
structure EntryL (E B G P A : Type) where
  st : SccSt
  src : Option (Rule E B G P A × Env)

/-- traces of one pass, newest entry first -/
inductive TraceL (I : Interp E B G P A) (p : Program E B G P A) (dyn : List RelId) (rules : List (Rule E B G P A)) :
    List (EntryL E B G P A) → Prop where
  | start (s₀ : SccSt) : TraceL I p dyn rules [{ st := s₀, src := none }]
  | step {e : EntryL E B G P A} {hist : List (EntryL E B G P A)} (rule : Rule E B G P A) (vs : List (Option Ver))
      (sr : SccSt) (ρ : Env) :
      TraceL I p dyn rules (e :: hist) → rule ∈ rules → vs ∈ variants dyn rule →
      sr ∈ (e :: hist).map (·.st) → SatV I (viewOf {} p sr) rule.body vs [] ρ →
      TraceL I p dyn rules ({ st := rule.heads.foldl (fun s h => headUpdate I {} p s h ρ) e.st, src := some (rule, ρ) } :: e :: hist)

/-- one pass from `s` (flag reset) to `s₁`: a trace, complete on the stable part of `s₁` -/
def PassNDL (I : Interp E B G P A) (p : Program E B G P A) (dyn : List RelId) (rules : List (Rule E B G P A))
    (s s₁ : SccSt) : Prop :=
  ∃ tr : List (EntryL E B G P A), TraceL I p dyn rules tr ∧
    tr.head?.map (·.st) = some s₁ ∧ tr.getLast?.map (·.st) = some { s with changed := false } ∧
    ∀ rule ∈ rules, ∀ vs ∈ variants dyn rule, ∀ ρ, SatV I (PView s₁) rule.body vs [] ρ →
      ∃ e ∈ tr, ∃ ρ', e.src = some (rule, ρ') ∧ ∀ h ∈ rule.heads, headFact I h ρ' = headFact I h ρ

inductive LoopNDL (I : Interp E B G P A) (p : Program E B G P A) (dyn : List RelId) (rules : List (Rule E B G P A)) :
    SccSt → SccSt → Prop where
  | exit {s s₁ : SccSt} : PassNDL I p dyn rules s s₁ → s₁.changed = false → LoopNDL I p dyn rules s (shift s₁)
  | more {s s₁ s' : SccSt} : PassNDL I p dyn rules s s₁ → s₁.changed = true → LoopNDL I p dyn rules (shift s₁) s' →
      LoopNDL I p dyn rules s s'

def SccNDL (I : Interp E B G P A) (p : Program E B G P A) (scc : List Nat) (st st' : St) : Prop :=
  if isLooping p scc then
    ∃ s', LoopNDL I p (dynRels p scc) (sccRules p scc) (enterScc st (dynRels p scc)) s' ∧ st' = leaveScc s'
  else
    ∃ s₁, PassNDL I p (dynRels p scc) (sccRules p scc) (enterScc st (dynRels p scc)) s₁ ∧ st' = leaveScc (shift (shift s₁))

inductive SccsNDL (I : Interp E B G P A) (p : Program E B G P A) : SccOrder → St → St → Prop where
  | nil {st : St} : SccsNDL I p [] st st
  | cons {scc : List Nat} {rest : SccOrder} {st st₁ st₂ : St} : SccNDL I p scc st st₁ → SccsNDL I p rest st₁ st₂ →
      SccsNDL I p (scc :: rest) st st₂

def RunNDL (I : Interp E B G P A) (p : Program E B G P A) (order : SccOrder) (s s' : St) : Prop :=
  SccsNDL I p order (updateIndices s) s'

/-! ## the trace invariant -/

section TraceInv
variable {I : Interp E B G P A} {L : LatOrder I} {p : Program E B G P A} {inp : RelId → List Tuple}
  {dynR : List RelId}

/-- the head facts of an environment that satisfies the body over the view of a state with `LInv` are below every target -/
theorem belowF_of_view (rule : Rule E B G P A) (hrule : rule ∈ p.rules) (vs : List (Option Ver)) (sr : SccSt)
    (hinv : LInv I L p inp dynR sr) (ρ : Env) (hsv : SatV I (viewOf {} p sr) rule.body vs [] ρ) :
    ∀ h ∈ rule.heads, BelowF I L p inp (headFact I h ρ) := by
  intro h hh M hM
  have hsat : Sat I (FactsS sr) (fun _ => []) rule.body [] ρ :=
    SatV.toSat (fun r v t hv => view_sub_rows' {} p hinv.wf hv) hsv
  obtain ⟨ρ', hsat', hdom⟩ := hM.1 (FactsS sr) M hinv.keyUnique hM.2.1 (hinv.below M hM) rule hrule ρ hsat
  exact Dominated.single (hdom h hh) (hM.2.2.2 rule hrule ρ' hsat' h hh)

variable (I L p inp dynR) in
/-- what holds of a trace whose oldest state satisfies `LInv` -/
def TrOK (tr : List (EntryL E B G P A)) : Prop :=
  (∀ e' ∈ tr, LInv I L p inp dynR e'.st) ∧
  ∀ e, tr.head? = some e → (∀ e' ∈ tr, LExt I L p e'.st e.st) ∧
    ∀ e' ∈ tr, ∀ rule ρ', e'.src = some (rule, ρ') → ∀ h ∈ rule.heads,
      Dominated I L p (FactsS e.st) (headFact I h ρ')

theorem trace_inv (rules : List (Rule E B G P A)) (hrules : ∀ rule ∈ rules, rule ∈ p.rules)
    (hdyn : ∀ rule ∈ rules, ∀ h ∈ rule.heads, dynR.contains h.rel = true)
    {tr : List (EntryL E B G P A)} (htr : TraceL I p dynR rules tr) :
    ∀ s₀, tr.getLast?.map (·.st) = some s₀ → LInv I L p inp dynR s₀ → TrOK I L p inp dynR tr := by
  induction htr with
  | start s =>
    intro s₀ hlast hinv
    simp only [List.getLast?_singleton, Option.map_some, Option.some.injEq] at hlast
    subst hlast
    refine ⟨?_, ?_⟩
    · intro e' he'
      simp only [List.mem_singleton] at he'
      subst he'; exact hinv
    · intro e he
      simp only [List.head?_cons, Option.some.injEq] at he
      subst he
      refine ⟨?_, ?_⟩
      · intro e' he'
        simp only [List.mem_singleton] at he'
        subst he'; exact LExt.refl I L p _
      · intro e' he' rule ρ' hsrc
        simp only [List.mem_singleton] at he'
        subst he'
        cases hsrc
  | @step e hist rule vs sr ρ _ hrule hvs hsr hsat ih =>
    intro s₀ hlast hinv
    rw [List.getLast?_cons_cons] at hlast
    obtain ⟨hall, hhead⟩ := ih s₀ hlast hinv
    obtain ⟨hext, hdom⟩ := hhead e rfl
    obtain ⟨er, her, rfl⟩ := List.mem_map.mp hsr
    have hinvr := hall er her
    have hbf := belowF_of_view rule (hrules rule hrule) vs er.st hinvr ρ hsat
    obtain ⟨h1, h2, h3⟩ := heads_step' rule.heads ρ hbf (hdyn rule hrule) e.st (hall e (by simp))
    refine ⟨?_, ?_⟩
    · intro e' he'
      rcases List.mem_cons.mp he' with rfl | he'
      · exact h1
      · exact hall e' he'
    · intro e₁ he₁
      simp only [List.head?_cons, Option.some.injEq] at he₁
      subst he₁
      refine ⟨?_, ?_⟩
      · intro e' he'
        rcases List.mem_cons.mp he' with rfl | he'
        · exact LExt.refl I L p _
        · exact LExt.trans (hext e' he') h2
      · intro e' he' rule' ρ' hsrc h hh
        rcases List.mem_cons.mp he' with rfl | he'
        · simp only [Option.some.injEq, Prod.mk.injEq] at hsrc
          obtain ⟨rfl, rfl⟩ := hsrc
          exact h3 h hh
        · exact Dominated.mono (hdom e' he' rule' ρ' hsrc h hh) h2.dble

/-- **one pass of the nondeterministic engine**: what `iter_step'` needs from it -/
theorem passNDL_spec (rules : List (Rule E B G P A)) (hrules : ∀ rule ∈ rules, rule ∈ p.rules)
    (hdyn : ∀ rule ∈ rules, ∀ h ∈ rule.heads, dynR.contains h.rel = true)
    (s s₁ : SccSt) (hinv : LInv I L p inp dynR { s with changed := false })
    (hpass : PassNDL I p dynR rules s s₁) :
    LInv I L p inp dynR s₁ ∧ LExt I L p { s with changed := false } s₁ ∧
      ∀ rule ∈ rules, ∀ vs ∈ variants dynR rule, DoneV I L p rule vs s₁ := by
  obtain ⟨tr, htr, hhead, hlast, hcomp⟩ := hpass
  obtain ⟨hall, hh⟩ := trace_inv rules hrules hdyn htr _ hlast hinv
  obtain ⟨e₁, he₁, hst₁⟩ := Option.map_eq_some_iff.mp hhead
  obtain ⟨e₀, he₀, hst₀⟩ := Option.map_eq_some_iff.mp hlast
  have hm₁ : e₁ ∈ tr := List.mem_of_head? he₁
  have hm₀ : e₀ ∈ tr := List.mem_of_getLast? he₀
  obtain ⟨hext, hdom⟩ := hh e₁ he₁
  subst hst₁
  refine ⟨hall e₁ hm₁, ?_, ?_⟩
  · rw [← hst₀]; exact hext e₀ hm₀
  · intro rule hrule vs hvs ρ hρ h hhd
    obtain ⟨e, he, ρ', hsrc, heq⟩ := hcomp rule hrule vs hvs ρ hρ
    rw [← heq h hhd]
    exact hdom e he rule ρ' hsrc h hhd

end TraceInv

/-! ## one iteration, the loop, an SCC, the strata -/

section IterNDL
variable {I : Interp E B G P A} {L : LatOrder I} {p : Program E B G P A} {inp : RelId → List Tuple}
  {dynR : List RelId}

/-- **one iteration** (a pass from a state with `changed = false`, then `shift`) -/
theorem iter_step_ndl (rules : List (Rule E B G P A))
    (hrules : ∀ rule ∈ rules, rule ∈ p.rules) (haf : ∀ rule ∈ rules, rule.aggFree = true)
    (hdyn : ∀ rule ∈ rules, ∀ h ∈ rule.heads, dynR.contains h.rel = true)
    (s s₁ : SccSt) (hinv : LLoopInv I L p inp dynR rules (hasDyn dynR) s)
    (hpass : PassNDL I p dynR rules s s₁) :
    LLoopInv I L p inp dynR rules (fun _ => True) (shift s₁) ∧ LExt I L p { s with changed := false } s₁ := by
  obtain ⟨hinv1, hext, hdone⟩ := passNDL_spec rules hrules hdyn s s₁ (LInv_reset hinv.inv) hpass
  refine ⟨⟨LInv_shift hinv1, ?_, ?_⟩, hext⟩
  · intro r d' hd'
    rw [findDyn_shift] at hd'
    cases hd : findDyn s₁.dyn r with
    | none => rw [hd] at hd'; cases hd'
    | some d => rw [hd] at hd'; cases hd'; rfl
  · intro rule hr _ ρ hsat h hh
    show Dominated I L p (FactsS s₁) (headFact I h ρ)
    have hsat' : Sat I (fun f => PView s₁ f.rel (some .totalDelta) f.args) nAgg rule.body [] ρ :=
      Sat.mono (fun f hf => PView_shift hf) hsat
    rcases seminaive_cover I (PView s₁) dynR
        (fun r hr v v' t hv => PView_nd hinv1.wf hr v v' t hv)
        (fun r t hv => PView_split r t hv) rule (haf rule hr) hsat' with ⟨hn, htot⟩ | ⟨vs, hvs, hsv⟩
    · have htot' : Sat I (fun f => PView s f.rel (some .total) f.args) nAgg rule.body [] ρ :=
        Sat.mono (fun f hf => PView_anti hext hf) htot
      exact Dominated.mono (hinv.front rule hr hn ρ htot' h hh) hext.dble
    · exact hdone rule hr vs hvs ρ hsv h hh

/-- the loop of a looping SCC -/
theorem loopNDL_spec (rules : List (Rule E B G P A))
    (hrules : ∀ rule ∈ rules, rule ∈ p.rules) (haf : ∀ rule ∈ rules, rule.aggFree = true)
    (hdyn : ∀ rule ∈ rules, ∀ h ∈ rule.heads, dynR.contains h.rel = true)
    (st : St) {s s' : SccSt} (hloop : LoopNDL I p dynR rules s s') :
    LLoopInv I L p inp dynR rules (hasDyn dynR) s → LBase I L p dynR st s →
      LLoopInv I L p inp dynR rules (fun _ => True) s' ∧ Settled s' ∧ LBase I L p dynR st s' := by
  induction hloop with
  | @exit s s₁ hpass hch =>
    intro hinv hb
    obtain ⟨hinv', hext⟩ := iter_step_ndl rules hrules haf hdyn s s₁ hinv hpass
    have hb' := LBase_step hinv.inv.wf hb hext
    refine ⟨hinv', ?_, hb'⟩
    have heq := hext.unchanged hch
    intro r d' hd'
    rw [findDyn_shift, heq] at hd'
    cases hd : findDyn s.dyn r with
    | none =>
      have : findDyn ({ s with changed := false } : SccSt).dyn r = none := hd
      rw [this] at hd'; cases hd'
    | some d =>
      have : findDyn ({ s with changed := false } : SccSt).dyn r = some d := hd
      rw [this] at hd'; cases hd'
      exact ⟨hinv.newE r d hd, rfl⟩
  | @more s s₁ s' hpass _ _ ih =>
    intro hinv hb
    obtain ⟨hinv', hext⟩ := iter_step_ndl rules hrules haf hdyn s s₁ hinv hpass
    have hb' := LBase_step hinv.inv.wf hb hext
    exact ih (hinv'.weaken fun _ _ => trivial) hb'

end IterNDL

section SccNDL
variable {I : Interp E B G P A} {L : LatOrder I} {p : Program E B G P A} {inp : RelId → List Tuple}

/-- **one SCC** -/
theorem sccNDL_spec (haf : ∀ r ∈ p.rules, r.aggFree = true)
    (hh : ∀ r ∈ p.rules, ∀ h ∈ r.heads, h.rel < p.rels.length)
    (scc : List Nat) (st st' : St)
    (hp : LPInv I L p inp st) (h : SccNDL I p scc st st') :
    LPInv I L p inp st' ∧
      (∀ r, (dynRels p scc).contains r = false → relSt st' r = relSt st r) ∧
      DBLe I L p (factsOf st) (factsOf st') ∧
      LClosedRules I L p (sccRules p scc) (factsOf st') := by
  have hrules := sccRules_sub p scc
  have hafs : ∀ rule ∈ sccRules p scc, rule.aggFree = true := fun r hr => haf r (hrules r hr)
  have hdyn : ∀ rule ∈ sccRules p scc, ∀ h ∈ rule.heads, (dynRels p scc).contains h.rel = true :=
    fun rule hr h hhd => (dynRels_mem p scc h.rel).mpr ⟨rule, hr, h, hhd, rfl⟩
  have hlt : ∀ r, (dynRels p scc).contains r = true → r < p.rels.length := by
    intro r hr
    obtain ⟨rule, hrule, h, hhd, rfl⟩ := (dynRels_mem p scc r).mp hr
    exact hh rule (hrules rule hrule) h hhd
  have hinv0 := LLoopInv_enter (dynRels p scc) hlt hp (sccRules p scc)
  have hb0 : LBase I L p (dynRels p scc) st (enterScc st (dynRels p scc)) := LBase_enter st (dynRels p scc)
  unfold SccNDL at h
  split at h
  · -- looping
    obtain ⟨s', hloop, rfl⟩ := h
    obtain ⟨hinv, hset, hb⟩ := loopNDL_spec (sccRules p scc) hrules hafs hdyn st hloop hinv0 hb0
    apply leave_full' (sccRules p scc) hinv.inv hset hb
    intro rule hr ρ hsat hd hhd
    refine hinv.front rule hr trivial ρ (Sat.mono ?_ hsat) hd hhd
    exact fun f hf => facts_sub_PView hinv.inv.wf hset f hf
  · -- not looping
    rename_i hnl
    have hnl' : isLooping p scc = false := by simpa using hnl
    obtain ⟨s₁, hpass, rfl⟩ := h
    obtain ⟨hinv, hext⟩ := iter_step_ndl (sccRules p scc) hrules hafs hdyn _ s₁ hinv0 hpass
    have hb := LBase_step hinv0.inv.wf hb0 hext
    have hinv2 := LInv_shift hinv.inv
    have hset : Settled (shift (shift s₁)) := by
      intro r d'' hd''
      rw [findDyn_shift] at hd''
      cases hd : findDyn (shift s₁).dyn r with
      | none => rw [hd] at hd''; cases hd''
      | some d' =>
        rw [hd] at hd''; cases hd''
        exact ⟨hinv.newE r d' hd, rfl⟩
    have hb2 : LBase I L p (dynRels p scc) st (shift (shift s₁)) := hb
    apply leave_full' (sccRules p scc) hinv2 hset hb2
    intro rule hr ρ hsat hd hhd
    refine hinv.front rule hr trivial ρ (Sat.congr_rels hsat ?_) hd hhd
    intro r hr' t ht
    exact facts_sub_PView_nd hinv.inv.wf r (notLooping p scc hnl' rule hr r hr') t ht

theorem sccsNDL_spec (haf : ∀ r ∈ p.rules, r.aggFree = true)
    (hh : ∀ r ∈ p.rules, ∀ h ∈ r.heads, h.rel < p.rels.length)
    (o : SccOrder) (ho : validOrder p o = true) {rest : SccOrder} {st st' : St}
    (hrun : SccsNDL I p rest st st') :
    ∀ (done : SccOrder), done ++ rest = o → LPInv I L p inp st →
    (∀ scc ∈ done, LClosedRules I L p (sccRules p scc) (factsOf st)) →
    DBLe I L p (inDB p inp) (factsOf st) →
    LPInv I L p inp st' ∧ (∀ scc ∈ o, LClosedRules I L p (sccRules p scc) (factsOf st')) ∧
      DBLe I L p (inDB p inp) (factsOf st') := by
  induction hrun with
  | nil =>
    intro done hdone hp hcl hin
    rw [List.append_nil] at hdone
    subst hdone
    exact ⟨hp, hcl, hin⟩
  | @cons scc rest st st₁ st₂ hscc _ ih =>
    intro done hdone hp hcl hin
    obtain ⟨hp1, hsame, hle, hcl1⟩ := sccNDL_spec haf hh scc st st₁ hp hscc
    refine ih (done ++ [scc]) (by rw [List.append_assoc]; exact hdone) hp1 ?_ (DBLe.trans hin hle)
    intro scc' hscc'
    rcases List.mem_append.mp hscc' with hscc' | hscc'
    · intro rule hrule ρ hsat hd hhd
      have hfw := validOrder_forward p o ho done scc rest hdone scc' hscc' rule hrule
      have hsat' : Sat I (factsOf st) nAgg rule.body [] ρ := by
        refine Sat.congr_rels hsat ?_
        intro r hr t ht
        have : relSt st₁ r = relSt st r := hsame r (hfw r hr)
        simp only [factsOf] at ht ⊢
        rw [← this]; exact ht
      exact Dominated.mono (hcl scc' hscc' rule hrule ρ hsat' hd hhd) hle
    · simp only [List.mem_singleton] at hscc'
      subst hscc'
      exact hcl1

/-- everything the final theorem needs about an execution -/
theorem runNDL_spec' (haf : ∀ r ∈ p.rules, r.aggFree = true)
    (hh : ∀ r ∈ p.rules, ∀ h ∈ r.heads, h.rel < p.rels.length)
    (hi1 : ∀ r, r < p.rels.length → (declOf p r).lat = true → ((inp r).map keyOf).Nodup)
    (o : SccOrder) (ho : validOrder p o = true) (s' : St)
    (hrun : RunNDL I p o (initSt p inp) s') :
    LPInv I L p inp s' ∧ LClosedRules I L p p.rules (factsOf s') ∧
      DBLe I L p (inDB p inp) (factsOf s') := by
  obtain ⟨hp0, hin0⟩ := LPInv_start (I := I) (L := L) (p := p) (inp := inp) hi1
  have h := sccsNDL_spec haf hh o ho hrun [] (by simp) hp0 (by intro scc hscc; simp at hscc) hin0
  refine ⟨h.1, ?_, h.2.2⟩
  intro rule hrule ρ hsat hd hhd
  obtain ⟨i, hi, hri⟩ := List.mem_iff_getElem.mp hrule
  obtain ⟨scc, hscc, hiscc⟩ := validOrder_cover p o ho i hi
  have : rule ∈ sccRules p scc := (mem_sccRules p scc rule).mpr ⟨i, hiscc, by rw [List.getElem?_eq_getElem hi, hri]⟩
  exact h.2.1 scc hscc rule this ρ hsat hd hhd

end SccNDL

/-- **every execution of the nondeterministic lattice engine reaches the least fixed point** -/
theorem runNDL_spec (I : Interp E B G P A) (L : LatOrder I) (p : Program E B G P A) (order : SccOrder)
    (inp : RelId → List Tuple) (s' : St)
    (hp : LatticeProg p) (ho : validOrder p order = true) (hi : InputOK p inp)
    (hrun : RunNDL I p order (initSt p inp) s') :
    (∀ r, r < p.rels.length → (declOf p r).lat = true → ((relSt s' r).rows.map keyOf).Nodup) ∧
    LClosed I L p (inputDB p inp) (factsOf s') ∧
    (MonotoneProg I L p → ∀ M : DB, KeyUnique p M → LClosed I L p (inputDB p inp) M → DBLe I L p (factsOf s') M) ∧
    (∀ r, r < p.rels.length → (declOf p r).lat = false → ∃ derived : List Tuple,
      (relSt s' r).rows = inp r ++ derived ∧ derived.Nodup ∧ ∀ t ∈ derived, t ∉ inp r) := by
  have h := runNDL_spec' (L := L) hp.1 hp.2.1 hi.2 order ho s' hrun
  exact ⟨fun r _ hl => h.1.keys r hl, ⟨h.2.2, h.2.1⟩, fun hm M hMk hM => h.1.below M ⟨hm, hMk, hM⟩,
    fun r hr hl => h.1.relset r hr hl⟩

/-! ## the deterministic engine is one execution -/

section Det
variable {I : Interp E B G P A} {p : Program E B G P A} {dyn : List RelId} {rules : List (Rule E B G P A)}

variable (I p dyn rules) in
/-- a trace whose newest state is `s` -/
def TrAt (tr : List (EntryL E B G P A)) (s : SccSt) : Prop :=
  TraceL I p dyn rules tr ∧ tr.head?.map (·.st) = some s

theorem TrAt.step {tr : List (EntryL E B G P A)} {s : SccSt} (h : TrAt I p dyn rules tr s)
    (rule : Rule E B G P A) (hrule : rule ∈ rules) (vs : List (Option Ver)) (hvs : vs ∈ variants dyn rule)
    (sr : SccSt) (hsr : sr ∈ tr.map (·.st)) (ρ : Env) (hsat : SatV I (viewOf {} p sr) rule.body vs [] ρ) :
    TrAt I p dyn rules
      ({ st := rule.heads.foldl (fun s h => headUpdate I {} p s h ρ) s, src := some (rule, ρ) } :: tr)
      (rule.heads.foldl (fun s h => headUpdate I {} p s h ρ) s) := by
  obtain ⟨htr, hh⟩ := h
  cases tr with
  | nil => simp at hh
  | cons e hist =>
    simp only [List.head?_cons, Option.map_some, Option.some.injEq] at hh
    subst hh
    exact ⟨TraceL.step rule vs sr ρ htr hrule hvs hsr hsat, rfl⟩

theorem TrAt.mem {tr : List (EntryL E B G P A)} {s : SccSt} (h : TrAt I p dyn rules tr s) : s ∈ tr.map (·.st) := by
  obtain ⟨_, hh⟩ := h
  cases tr with
  | nil => simp at hh
  | cons e hist =>
    simp only [List.head?_cons, Option.map_some, Option.some.injEq] at hh
    subst hh
    simp

/-- the environments of one variant, all read from `sr` -/
theorem envs_trace (rule : Rule E B G P A) (hrule : rule ∈ rules) (vs : List (Option Ver))
    (hvs : vs ∈ variants dyn rule) (sr : SccSt) (l : List Env)
    (hl : ∀ ρ ∈ l, SatV I (viewOf {} p sr) rule.body vs [] ρ) :
    ∀ (s : SccSt) (tr : List (EntryL E B G P A)), TrAt I p dyn rules tr s ∧ sr ∈ tr.map (·.st) →
      ∃ tr', (TrAt I p dyn rules tr' (l.foldl (fun s ρ => rule.heads.foldl (fun s h => headUpdate I {} p s h ρ) s) s) ∧
          sr ∈ tr'.map (·.st)) ∧
        (tr <:+ tr' ∧ PExt s (l.foldl (fun s ρ => rule.heads.foldl (fun s h => headUpdate I {} p s h ρ) s) s)) ∧
        ∀ ρ ∈ l, ∃ e ∈ tr', e.src = some (rule, ρ) := by
  refine foldl_trackE (fun s ρ => rule.heads.foldl (fun s h => headUpdate I {} p s h ρ) s)
    (fun tr s => TrAt I p dyn rules tr s ∧ sr ∈ tr.map (·.st))
    (fun tr s tr' s' => tr <:+ tr' ∧ PExt s s')
    (fun ρ tr _ => ∃ e ∈ tr, e.src = some (rule, ρ))
    (fun t s => ⟨List.suffix_refl t, PExt.refl s⟩)
    (fun _ _ _ _ _ _ h₁ h₂ => ⟨h₁.1.trans h₂.1, h₁.2.trans h₂.2⟩)
    (fun ρ t s t' s' hd hR => by
      obtain ⟨e, he, hsrc⟩ := hd
      exact ⟨e, hR.1.subset he, hsrc⟩) l ?_
  intro s tr ρ hρ hinv
  obtain ⟨hat, hsr⟩ := hinv
  refine ⟨_, ⟨hat.step rule hrule vs hvs sr hsr ρ (hl ρ hρ), ?_⟩, ⟨List.suffix_cons _ _, PExt_heads I p ρ rule.heads s⟩,
    _, List.mem_cons_self, rfl⟩
  simp only [List.map_cons, List.mem_cons]
  exact .inr hsr

variable (I) in
/-- every instance of variant `vs` of `rule` over the stable part of `s` was processed in the trace -/
def DoneT (rule : Rule E B G P A) (vs : List (Option Ver)) (tr : List (EntryL E B G P A)) (s : SccSt) : Prop :=
  ∀ ρ, SatV I (PView s) rule.body vs [] ρ → ∃ e ∈ tr, e.src = some (rule, ρ)

theorem DoneT.mono {rule : Rule E B G P A} {vs : List (Option Ver)} {tr tr' : List (EntryL E B G P A)} {s s' : SccSt}
    (h : DoneT I rule vs tr s) (hsuf : tr <:+ tr') (hext : PExt s s') : DoneT I rule vs tr' s' := by
  intro ρ hρ
  obtain ⟨e, he, hsrc⟩ := h ρ (SatV.mono (fun r v t hv => PView_anti' hext hv) hρ)
  exact ⟨e, hsuf.subset he, hsrc⟩

theorem variant_trace (rule : Rule E B G P A) (hrule : rule ∈ rules) (haf : rule.aggFree = true)
    (vs : List (Option Ver)) (hvs : vs ∈ variants dyn rule)
    (s : SccSt) (tr : List (EntryL E B G P A)) (hat : TrAt I p dyn rules tr s) :
    ∃ tr', TrAt I p dyn rules tr' (evalVariant I {} p s rule vs) ∧
      (tr <:+ tr' ∧ PExt s (evalVariant I {} p s rule vs)) ∧ DoneT I rule vs tr' (evalVariant I {} p s rule vs) := by
  obtain ⟨tr', ⟨h1, _⟩, ⟨h2, h3⟩, h4⟩ := envs_trace rule hrule vs hvs s (evalBody I {} p s rule.body vs [])
    (fun ρ hρ => SatV_of_evalBody I {} p s rule.body vs [] ρ haf hρ) s tr ⟨hat, hat.mem⟩
  refine ⟨tr', h1, ⟨h2, h3⟩, ?_⟩
  intro ρ hρ
  have hρ' : SatV I (viewOf {} p s) rule.body vs [] ρ :=
    SatV.mono (fun r v t hv => PView_sub_view {} p (PView_anti' h3 hv)) hρ
  exact h4 ρ (evalBody_of_SatV I {} p s hρ')

theorem rule_trace (rule : Rule E B G P A) (hrule : rule ∈ rules) (haf : rule.aggFree = true)
    (s : SccSt) (tr : List (EntryL E B G P A)) (hat : TrAt I p dyn rules tr s) :
    ∃ tr', TrAt I p dyn rules tr' ((variants dyn rule).foldl (fun s vs => evalVariant I {} p s rule vs) s) ∧
      (tr <:+ tr' ∧ PExt s ((variants dyn rule).foldl (fun s vs => evalVariant I {} p s rule vs) s)) ∧
      ∀ vs ∈ variants dyn rule, DoneT I rule vs tr' ((variants dyn rule).foldl (fun s vs => evalVariant I {} p s rule vs) s) := by
  refine foldl_trackE (fun s vs => evalVariant I {} p s rule vs)
    (fun tr s => TrAt I p dyn rules tr s)
    (fun tr s tr' s' => tr <:+ tr' ∧ PExt s s')
    (fun vs tr s => DoneT I rule vs tr s)
    (fun t s => ⟨List.suffix_refl t, PExt.refl s⟩)
    (fun _ _ _ _ _ _ h₁ h₂ => ⟨h₁.1.trans h₂.1, h₁.2.trans h₂.2⟩)
    (fun vs t s t' s' hd hR => hd.mono hR.1 hR.2) (variants dyn rule) ?_ s tr hat
  intro s tr vs hvs hat
  exact variant_trace rule hrule haf vs hvs s tr hat

theorem rules_trace (haf : ∀ rule ∈ rules, rule.aggFree = true)
    (s : SccSt) (tr : List (EntryL E B G P A)) (hat : TrAt I p dyn rules tr s) :
    ∃ tr', TrAt I p dyn rules tr' (evalRules I {} p dyn rules s) ∧
      (tr <:+ tr' ∧ PExt s (evalRules I {} p dyn rules s)) ∧
      ∀ rule ∈ rules, ∀ vs ∈ variants dyn rule, DoneT I rule vs tr' (evalRules I {} p dyn rules s) := by
  unfold evalRules
  -- the list folded over is generalised; the `rules` of the trace stay
  have key : ∀ l : List (Rule E B G P A), (∀ rule ∈ l, rule ∈ rules) → ∀ s tr, TrAt I p dyn rules tr s →
      ∃ tr', TrAt I p dyn rules tr'
          (l.foldl (fun s r => (variants dyn r).foldl (fun s vs => evalVariant I {} p s r vs) s) s) ∧
        (tr <:+ tr' ∧ PExt s (l.foldl (fun s r => (variants dyn r).foldl (fun s vs => evalVariant I {} p s r vs) s) s)) ∧
        ∀ rule ∈ l, ∀ vs ∈ variants dyn rule, DoneT I rule vs tr'
          (l.foldl (fun s r => (variants dyn r).foldl (fun s vs => evalVariant I {} p s r vs) s) s) := by
    intro l hl
    refine foldl_trackE (fun s r => (variants dyn r).foldl (fun s vs => evalVariant I {} p s r vs) s)
      (fun tr s => TrAt I p dyn rules tr s)
      (fun tr s tr' s' => tr <:+ tr' ∧ PExt s s')
      (fun rule tr s => ∀ vs ∈ variants dyn rule, DoneT I rule vs tr s)
      (fun t s => ⟨List.suffix_refl t, PExt.refl s⟩)
      (fun _ _ _ _ _ _ h₁ h₂ => ⟨h₁.1.trans h₂.1, h₁.2.trans h₂.2⟩)
      (fun rule t s t' s' hd hR vs hvs => (hd vs hvs).mono hR.1 hR.2) l ?_
    intro s tr rule hr hat
    exact rule_trace rule (hl rule hr) (haf rule (hl rule hr)) s tr hat
  exact key rules (fun _ h => h) s tr hat

/-- **one deterministic pass is a pass of the nondeterministic engine** -/
theorem evalRules_is_pass (haf : ∀ rule ∈ rules, rule.aggFree = true) (s : SccSt) :
    PassNDL I p dyn rules s (evalRules I {} p dyn rules { s with changed := false }) := by
  have h0 : TrAt I p dyn rules [{ st := { s with changed := false }, src := none }] { s with changed := false } :=
    ⟨TraceL.start _, rfl⟩
  obtain ⟨tr', ⟨htr, hhead⟩, ⟨hsuf, _⟩, hdone⟩ := rules_trace haf _ _ h0
  refine ⟨tr', htr, hhead, ?_, ?_⟩
  · obtain ⟨pre, rfl⟩ := hsuf
    simp [List.getLast?_append]
  · intro rule hrule vs hvs ρ hρ
    obtain ⟨e, he, hsrc⟩ := hdone rule hrule vs hvs ρ hρ
    exact ⟨e, he, ρ, hsrc, fun _ _ => rfl⟩

end Det

section DetRun
variable {I : Interp E B G P A} {p : Program E B G P A}

theorem sccLoop_is_NDL {dyn : List RelId} {rules : List (Rule E B G P A)} (haf : ∀ rule ∈ rules, rule.aggFree = true) :
    ∀ (fuel : Nat) (rs rs' : RunSt), sccLoop I {} p dyn rules never fuel rs = .done rs' →
      LoopNDL I p dyn rules rs.st rs'.st := by
  intro fuel
  induction fuel with
  | zero => intro rs rs' h; simp [sccLoop] at h
  | succ fuel ih =>
    intro rs rs' h
    have hpass := evalRules_is_pass (I := I) (p := p) (dyn := dyn) haf rs.st
    simp only [sccLoop] at h
    split at h
    · rename_i hch
      simp only [Outcome.done.injEq] at h
      subst h
      have hch' : (evalRules I {} p dyn rules { rs.st with changed := false }).changed = false := by
        simpa using hch
      exact LoopNDL.exit hpass hch'
    · rename_i hch
      have hch' : (evalRules I {} p dyn rules { rs.st with changed := false }).changed = true := by
        simpa using hch
      split at h
      · rename_i hdl
        simp [never] at hdl
      · exact LoopNDL.more hpass hch' (ih _ rs' h)

theorem runScc_is_NDL (haf : ∀ r ∈ p.rules, r.aggFree = true) (fuel : Nat) (scc : List Nat) (ps ps' : ProgSt)
    (h : runScc I {} p never fuel scc ps = .done ps') : SccNDL I p scc ps.st ps'.st := by
  have hafs : ∀ rule ∈ sccRules p scc, rule.aggFree = true := fun r hr => haf r (sccRules_sub p scc r hr)
  unfold SccNDL
  simp only [runScc] at h
  split at h
  · rename_i hl
    rw [if_pos hl]
    split at h
    · rename_i rs hloop
      simp only [Outcome.done.injEq] at h
      subst h
      exact ⟨rs.st, sccLoop_is_NDL hafs fuel _ rs hloop, rfl⟩
    · cases h
    · cases h
  · rename_i hl
    rw [if_neg hl]
    split at h
    · cases h
    · simp only [Outcome.done.injEq] at h
      subst h
      exact ⟨_, evalRules_is_pass hafs (enterScc ps.st (dynRels p scc)), rfl⟩

theorem runSccs_is_NDL (haf : ∀ r ∈ p.rules, r.aggFree = true) (fuel : Nat) :
    ∀ (order : SccOrder) (ps ps' : ProgSt), runSccs I {} p never fuel order ps = .done ps' →
      SccsNDL I p order ps.st ps'.st := by
  intro order
  induction order with
  | nil =>
    intro ps ps' h
    simp only [runSccs, Outcome.done.injEq] at h
    subst h
    exact SccsNDL.nil
  | cons scc rest ih =>
    intro ps ps' h
    simp only [runSccs] at h
    split at h
    · rename_i ps1 hscc
      exact SccsNDL.cons (runScc_is_NDL haf fuel scc ps ps1 hscc) (ih ps1 ps' h)
    · rename_i hne
      cases hr : runScc I {} p never fuel scc ps with
      | done x => exact absurd hr (hne x)
      | timedOut x => rw [hr] at h; cases h
      | outOfFuel => rw [hr] at h; cases h

end DetRun

/-- the deterministic engine (snapshot at variant start, fixed order) is one execution -/
theorem run_is_NDL (I : Interp E B G P A) (p : Program E B G P A) (order : SccOrder) (inp : RelId → List Tuple)
    (fuel : Nat) (ps : ProgSt) (hp : LatticeProg p)
    (hrun : run I {} p order fuel (initSt p inp) = .done ps) : RunNDL I p order (initSt p inp) ps.st :=
  runSccs_is_NDL hp.1 fuel order _ ps hrun

#print axioms runNDL_spec
#print axioms run_is_NDL

end AscentVerif.Engine
