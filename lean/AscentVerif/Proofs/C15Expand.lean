import AscentVerif.Proofs.C15Basic
import AscentVerif.Proofs.C15ExpandList
import AscentVerif.Proofs.C15ExpandDiv
import AscentVerif.Proofs.C15ExpandErr
/-!
# C15: macro expansion — rejection of self-referential macros and of macros that reach an empty disjunction, success
within the depth budget, no panic anywhere in the pipeline
-/
namespace AscentVerif.Check
open AscentVerif AscentVerif.Engine

/-- `mapLazy` computes `collectLazy ∘ map` -/
theorem mapLazy_eq_collectLazy {α β : Type} (f : α → Except Err β) (xs : List α) :
    mapLazy f xs = collectLazy (xs.map f) := by
  exact mapLazy_eq_collectLazy' f xs

/-- an item that contains an invocation of a macro of a diverging set is never expanded successfully,
whatever the depth budget, the substitution and the position -/
theorem expandItem_diverging (ms : List MacroDef) (D : Name → Prop) (hD : Diverging ms D) :
    ∀ (fuel : Nat) (σ : Env) (π : List Nat) (it : Item) (m : Name), D m → Invokes it m →
      ∃ e, expandItem ms fuel σ π it = .error e := by
  exact expandItem_diverging' ms D hD

theorem expandRule_diverging (ms : List MacroDef) (D : Name → Prop) (hD : Diverging ms D) (r : Rule)
    (h : ∃ it ∈ r.body, ∃ m, D m ∧ Invokes it m) : ∃ e, expandRule ms r = .error e := by
  exact expandRule_diverging' ms D hD r h

theorem expandHead_diverging (ms : List MacroDef) (D : Name → Prop) (hD : HDiverging ms D) :
    ∀ (fuel : Nat) (h : HItem) (m : Name), D m → HInvokes h m → ∃ e, expandHead ms fuel h = .error e := by
  exact expandHead_diverging' ms D hD

/-- every program one of whose rules invokes (at any position) a macro of a diverging set is rejected -/
theorem self_referential_rejected (s : Summary) (D : Name → Prop) (hr : Reaches s) (hD : Diverging s.macros D)
    (h : ∃ r ∈ s.rules, ∃ it ∈ r.body, ∃ m, D m ∧ Invokes it m) : Rejected s := by
  obtain ⟨r, hr', hbody⟩ := h
  obtain ⟨e, he⟩ := expandRule_diverging' s.macros D hD r hbody
  obtain ⟨e', he'⟩ := desugar_error_of_expandRule hr' he
  exact rejected_of_desugar_error hr he'

theorem self_referential_head_rejected (s : Summary) (D : Name → Prop) (hr : Reaches s) (hD : HDiverging s.macros D)
    (h : ∃ r ∈ s.rules, ∃ hd ∈ r.heads, ∃ m, D m ∧ HInvokes hd m) : Rejected s := by
  obtain ⟨r, hr', hheads⟩ := h
  obtain ⟨e, he⟩ := expandRule_head_diverging s.macros D hD r hheads
  obtain ⟨e', he'⟩ := desugar_error_of_expandRule hr' he
  exact rejected_of_desugar_error hr he'

/-- every program one of whose rules invokes (at any position) a macro from which an empty disjunction is
reached through invocations is rejected -/
theorem reachesEmptyDisj_rejected (s : Summary) (D : Name → Prop) (hr : Reaches s) (hD : ReachesEmptyDisj s.macros D)
    (h : ∃ r ∈ s.rules, ∃ it ∈ r.body, ∃ m, D m ∧ Invokes it m) : Rejected s := by
  obtain ⟨r, hr', hbody⟩ := h
  obtain ⟨e, he⟩ := expandRule_reachesEmptyDisj s.macros D hD r hbody
  obtain ⟨e', he'⟩ := desugar_error_of_expandRule hr' he
  exact rejected_of_desugar_error hr he'

/-- within the budget expansion succeeds (before fix 71f89c5 it could still fail with the
`flatten_punctuated` panic, finding FM7) -/
theorem expandItem_fits (ms : List MacroDef) :
    ∀ (n : Nat) (it : Item), Fits ms n it → ∀ (fuel : Nat) (σ : Env) (π : List Nat), n ≤ fuel →
      ∃ its, expandItem ms fuel σ π it = .ok its := by
  intro n it h fuel σ π hn
  cases hex : expandItem ms fuel σ π it with
  | ok its => exact ⟨its, rfl⟩
  | error e =>
    have := expandItem_fits_err ms n it h fuel σ π hn e hex
    subst this
    exact absurd hex (expandItem_ne_panicFlatten ms fuel σ π it)

/-- expansion never returns a macro invocation -/
inductive NoMac : Item → Prop
  | clause (rel : Name) (args : List Arg) (conds : List Binder) : NoMac (.clause rel args conds)
  | binder (b : Binder) : NoMac (.binder b)
  | agg (rel : Name) (args : List Arg) (pat : Binder) (bound : List Var) : NoMac (.agg rel args pat bound)
  | neg (rel : Name) (k : Nat) : NoMac (.neg rel k)
  | disj {alts : List (List Item)} : (∀ alt ∈ alts, ∀ it ∈ alt, NoMac it) → NoMac (.disj alts)

theorem expandItem_noMac (ms : List MacroDef) :
    ∀ (fuel : Nat) (σ : Env) (π : List Nat) (it : Item) (its : List Item),
      expandItem ms fuel σ π it = .ok its → ∀ x ∈ its, NoMac x := by
  intro fuel
  induction fuel with
  | zero =>
    intro σ π it its h
    rw [expandItem] at h
    cases h
  | succ fuel ih =>
    intro σ π it its h
    cases it with
    | clause rel args conds =>
      simp only [expandItem, Except.ok.injEq] at h
      subst h
      intro x hx
      rw [List.mem_singleton.1 hx]
      exact NoMac.clause _ _ _
    | binder b =>
      simp only [expandItem, Except.ok.injEq] at h
      subst h
      intro x hx
      rw [List.mem_singleton.1 hx]
      exact NoMac.binder _
    | agg rel args pat bound =>
      simp only [expandItem, Except.ok.injEq] at h
      subst h
      intro x hx
      rw [List.mem_singleton.1 hx]
      exact NoMac.agg _ _ _ _
    | neg rel n =>
      simp only [expandItem, Except.ok.injEq] at h
      subst h
      intro x hx
      rw [List.mem_singleton.1 hx]
      exact NoMac.neg _ _
    | disj alts =>
      rw [expandItem] at h
      split at h
      · cases h
      · rename_i alts' halts'
        simp only [Except.ok.injEq] at h
        subst h
        intro x hx
        rw [List.mem_singleton.1 hx]
        refine NoMac.disj ?_
        intro alt halt y hy
        obtain ⟨a, ha, hfa⟩ := mapLazy_ok_mem halts' halt
        split at hfa
        · cases hfa
        · rename_i inner hinner
          rw [flattenP_ok hfa] at hy
          obtain ⟨l, hl, hyl⟩ := List.mem_flatten.1 hy
          obtain ⟨z, hz, hfz⟩ := mapLazy_ok_mem hinner hl
          exact ih _ _ _ _ hfz y hyl
    | mac name args =>
      rw [expandItem] at h
      split at h
      · cases h
      · split at h
        · cases h
        · split at h
          · cases h
          · split at h
            · cases h
            · split at h
              · cases h
              · dsimp only at h
                split at h
                · cases h
                · rename_i inner hinner
                  rw [flattenP_ok h]
                  intro x hx
                  obtain ⟨l, hl, hxl⟩ := List.mem_flatten.1 hx
                  obtain ⟨z, hz, hfz⟩ := mapLazy_ok_mem hinner hl
                  exact ih _ _ _ _ hfz x hxl

mutual
theorem prodItem_noMac' : ∀ (it : Item), NoMac it → ∃ conjs, prodItem it = .ok conjs
  | .clause rel args conds, _ => ⟨_, by rw [prodItem]⟩
  | .binder b, _ => ⟨_, by rw [prodItem]⟩
  | .agg rel args pat bound, _ => ⟨_, by rw [prodItem]⟩
  | .neg rel n, _ => ⟨_, by rw [prodItem]⟩
  | .disj alts, h => by
    rw [prodItem]
    exact prodAlts_noMac' alts (by cases h with | disj h => exact h)
  | .mac name args, h => by cases h
theorem prodItems_noMac' : ∀ (its : List Item), (∀ x ∈ its, NoMac x) → ∃ conjs, prodItems its = .ok conjs
  | [], _ => ⟨_, by rw [prodItems]⟩
  | it :: rest, h => by
    obtain ⟨a, ha⟩ := prodItem_noMac' it (h it List.mem_cons_self)
    obtain ⟨b, hb⟩ := prodItems_noMac' rest (fun x hx => h x (List.mem_cons_of_mem _ hx))
    exact ⟨cross a b, by rw [prodItems, ha, hb]⟩
theorem prodAlts_noMac' : ∀ (alts : List (List Item)), (∀ alt ∈ alts, ∀ x ∈ alt, NoMac x) →
    ∃ conjs, prodAlts alts = .ok conjs
  | [], _ => ⟨_, by rw [prodAlts]⟩
  | alt :: rest, h => by
    obtain ⟨a, ha⟩ := prodItems_noMac' alt (h alt List.mem_cons_self)
    obtain ⟨b, hb⟩ := prodAlts_noMac' rest (fun x hx => h x (List.mem_cons_of_mem _ hx))
    exact ⟨a ++ b, by rw [prodAlts, ha, hb]⟩
end

theorem prodItems_noMac : ∀ (its : List Item), (∀ x ∈ its, NoMac x) → ∃ conjs, prodItems its = .ok conjs := by
  exact prodItems_noMac'

theorem expandRule_noMac {ms : List MacroDef} {r r' : Rule} (h : expandRule ms r = .ok r') :
    ∀ x ∈ r'.body, NoMac x := by
  unfold expandRule at h
  split at h
  · cases h
  · rename_i inner hinner
    split at h
    · cases h
    · split at h
      · cases h
      · simp only [Except.ok.injEq] at h
        subst h
        simp only
        intro x hx
        obtain ⟨l, hl, hxl⟩ := List.mem_flatten.1 hx
        obtain ⟨z, hz, hfz⟩ := mapLazy_ok_mem hinner hl
        exact expandItem_noMac ms _ _ _ _ _ hfz x hxl

theorem desugarRule_ok_of_expandRule {ms : List MacroDef} {r r' : Rule} (h : expandRule ms r = .ok r') :
    ∃ cs, desugarRule r' = .ok cs := by
  obtain ⟨conjs, hconjs⟩ := prodItems_noMac' r'.body (expandRule_noMac h)
  obtain ⟨hs, hhs⟩ := coreHeads_ok r'.heads (expandRule_heads_clause h)
  unfold desugarRule
  rw [hconjs, hhs]
  exact ⟨_, rfl⟩

/-- `desugar` only fails in macro expansion -/
theorem desugar_err {ms : List MacroDef} {rules : List Rule} {e : Err} (h : desugar ms rules = .error e) :
    e.expandErr = true := by
  unfold desugar at h
  split at h
  · rename_i e1 he1
    cases h
    obtain ⟨r, hr, hfr⟩ := mapLazy_error he1
    exact expandRule_err hfr
  · rename_i rs hrs
    split at h
    · rename_i e1 he1
      exfalso
      obtain ⟨r', hr', hfr'⟩ := mapLazy_error he1
      obtain ⟨r, hr, hfr⟩ := mapLazy_ok_mem hrs hr'
      obtain ⟨cs, hcs⟩ := desugarRule_ok_of_expandRule hfr
      rw [hcs] at hfr'
      cases hfr'
    · cases h

/-- the `panic!`s guarding against a macro invocation that survived expansion are unreachable -/
theorem desugar_no_leftover (ms : List MacroDef) (rules : List Rule) : desugar ms rules ≠ .error .panicLeftover := by
  intro h
  have := desugar_err h
  cases this

/-- every error of the pipeline belongs to one of the stages -/
theorem check_error_stage {s : Summary} {e : Err} (h : check s = .error e) :
    e.parseErr = true ∨ e = .includeInSource ∨ e.expandErr = true ∨ e.hirErr = true ∨ e.attrErr = true ∨
      e.sigErr = true ∨ e = .strat := by
  rcases check_error_cases h with h | h | h
  · exact Or.inl (parseItems_err _ _ h)
  · exact Or.inr (Or.inl h)
  · rcases compile_error_cases h with h | ⟨rules, _, h | h | h | h | h⟩
    · exact Or.inr (Or.inr (Or.inl (desugar_err h)))
    · exact Or.inr (Or.inr (Or.inr (Or.inl (hirRules_err _ _ h))))
    · exact Or.inr (Or.inr (Or.inr (Or.inr (Or.inl (configCheck_err h)))))
    · exact Or.inr (Or.inr (Or.inr (Or.inr (Or.inl (declsCheck_err _ _ h)))))
    · exact Or.inr (Or.inr (Or.inr (Or.inr (Or.inr (Or.inl (sigCheck_err h))))))
    · exact Or.inr (Or.inr (Or.inr (Or.inr (Or.inr (Or.inr h)))))

theorem check_no_leftover (s : Summary) : check s ≠ .error .panicLeftover := by
  intro h
  have := check_error_stage h
  revert this
  decide

/-- no stage of the pipeline returns a panic: since the fixes 71f89c5 (`flatten_punctuated`), 5862f99 (aggregated
variable) and dfbe0be (signatures) every answer of the macro is `ok` or a proper error -/
theorem check_no_panic (s : Summary) (e : Err) (h : check s = .error e) : e.isPanic = false := by
  have := check_error_stage h
  revert this
  cases e <;> decide

end AscentVerif.Check
