import AscentVerif.Proofs.SccStep
/-!
# A whole SCC: `enterScc`, the loop, `leaveScc` (`runScc`) — step 4/5 of the C01 proof
-/
namespace AscentVerif.Engine
open AscentVerif

variable {E B G P A : Type}

/-! ## `enterScc` -/

theorem enterScc_rels (st : St) (dynR : List RelId) : (enterScc st dynR).rels = st := by
  simp [enterScc]

theorem findDyn_enter (st : St) (dynR : List RelId) (r : RelId) :
    findDyn (enterScc st dynR).dyn r =
      if dynR.contains r then some ⟨r, [], (relSt st r).idx, []⟩ else none := by
  simp only [enterScc]
  induction dynR with
  | nil => rfl
  | cons x xs ih =>
    simp only [List.map_cons, findDyn, List.find?_cons, List.contains_cons]
    by_cases hx : x = r
    · subst hx; simp
    · have h1 : (x == r) = false := by simpa using hx
      have h2 : (r == x) = false := by simpa using (fun h : r = x => hx h.symm)
      simp only [h1, h2, Bool.false_or]
      exact ih

/-! ## `leaveScc` -/

def leaveStep (st : St) (d : Dyn) : St := setNth st d.rel { relSt st d.rel with idx := d.total }

theorem leaveScc_eq (s : SccSt) : leaveScc s = s.dyn.foldl leaveStep s.rels := rfl

theorem leave_length : ∀ (L : List Dyn) (st : St), (L.foldl leaveStep st).length = st.length
  | [], _ => rfl
  | d :: L, st => by
    rw [List.foldl_cons, leave_length L]; simp [leaveStep]

theorem leaveStep_rows (st : St) (d : Dyn) (r : RelId) (hd : d.rel < st.length) :
    (relSt (leaveStep st d) r).rows = (relSt st r).rows := by
  by_cases h : r = d.rel
  · subst h; simp [leaveStep, relSt_setNth_self _ _ _ hd]
  · simp [leaveStep, relSt_setNth_ne _ _ _ _ h]

theorem leave_rows (r : RelId) : ∀ (L : List Dyn) (st : St), (∀ d ∈ L, d.rel < st.length) →
    (relSt (L.foldl leaveStep st) r).rows = (relSt st r).rows
  | [], _, _ => rfl
  | d :: L, st, h => by
    rw [List.foldl_cons, leave_rows r L _ (fun d' hd' => by
      simp only [leaveStep, length_setNth]; exact h d' (List.mem_cons_of_mem _ hd'))]
    exact leaveStep_rows st d r (h d (by simp))

theorem leave_untouched (r : RelId) : ∀ (L : List Dyn) (st : St), (∀ d ∈ L, d.rel ≠ r) →
    relSt (L.foldl leaveStep st) r = relSt st r
  | [], _, _ => rfl
  | d :: L, st, h => by
    rw [List.foldl_cons, leave_untouched r L _ (fun d' hd' => h d' (List.mem_cons_of_mem _ hd'))]
    exact relSt_setNth_ne _ _ _ _ (Ne.symm (h d (by simp)))

theorem leave_touched (r : RelId) (T : List Nat) : ∀ (L : List Dyn) (st : St), (∀ d ∈ L, d.rel < st.length) →
    (∀ d ∈ L, d.rel = r → d.total = T) → ((∃ d ∈ L, d.rel = r) ∨ (relSt st r).idx = T) →
    (relSt (L.foldl leaveStep st) r).idx = T
  | [], _, _, _, h => by
    rcases h with ⟨d, hd, _⟩ | h
    · simp at hd
    · exact h
  | d :: L, st, hlt, hT, h => by
    rw [List.foldl_cons]
    apply leave_touched r T L
    · intro d' hd'
      simp only [leaveStep, length_setNth]; exact hlt d' (List.mem_cons_of_mem _ hd')
    · intro d' hd'; exact hT d' (List.mem_cons_of_mem _ hd')
    · by_cases hr : d.rel = r
      · right
        subst hr
        simp [leaveStep, relSt_setNth_self _ _ _ (hlt d (by simp)), hT d (by simp) rfl]
      · rcases h with ⟨d', hd', hr'⟩ | h
        · rcases List.mem_cons.mp hd' with rfl | hd'
          · exact absurd hr' hr
          · exact .inl ⟨d', hd', hr'⟩
        · right
          rw [show relSt (leaveStep st d) r = relSt st r from relSt_setNth_ne _ _ _ _ (Ne.symm hr)]
          exact h

/-! ## the program-level state invariant -/

section Scc
variable (I : Interp E B G P A) (cfg : Config) (p : Program E B G P A) (inp : RelId → List Tuple)
  (n : Nat)

structure PInv (st : St) : Prop where
  len : st.length = n
  good : ∀ r, r < n → GoodRows I p inp r (relSt st r).rows
  idxAll : ∀ r i, i < (relSt st r).rows.length ↔ i ∈ (relSt st r).idx

variable (dynR : List RelId) (hlt : ∀ r, dynR.contains r = true → r < n)
  (hl : ∀ d ∈ p.rels, d.lat = false)

theorem WF_enter {st : St} (hp : PInv I p inp n st) : WF n dynR (enterScc st dynR) := by
  refine ⟨by rw [enterScc_rels]; exact hp.len, ?_, ?_, ?_, ?_⟩
  · intro r
    rw [findDyn_enter]
    cases dynR.contains r <;> rfl
  · intro d hd
    simp only [enterScc, List.mem_map] at hd
    obtain ⟨x, hx, rfl⟩ := hd
    have := findDyn_enter st dynR x
    rw [List.contains_iff_mem.mpr hx] at this
    exact this
  · intro r d hd i
    rw [findDyn_enter] at hd
    cases hc : dynR.contains r with
    | false => rw [hc] at hd; cases hd
    | true =>
      rw [hc] at hd; cases hd
      simp only [rowsOf, enterScc_rels, List.not_mem_nil, false_or, or_false]
      exact hp.idxAll r i
  · intro r _ i
    simp only [rowsOf, enterScc_rels]
    exact hp.idxAll r i

/-- what an SCC state keeps from the state `st` at SCC entry -/
def Base (st : St) (s : SccSt) : Prop :=
  (∀ r, dynR.contains r = false → relSt s.rels r = relSt st r) ∧
  (∀ r t, t ∈ (relSt st r).rows → t ∈ rowsOf s r)

theorem Base_step {st : St} {s s₁ : SccSt} (hwf : WF n dynR s) (hb : Base dynR st s)
    (hext : Ext { s with changed := false } s₁) : Base dynR st (shift s₁) := by
  refine ⟨?_, ?_⟩
  · intro r hr
    have hd : findDyn s.dyn r = none := by
      have := hwf.dyn_iff r
      rw [hr] at this
      cases h' : findDyn s.dyn r with
      | none => rfl
      | some d => rw [h'] at this; cases this
    rw [shift_rels, (hext.nondyn r hd).2]
    exact hb.1 r hr
  · intro r t ht
    rw [shift_rowsOf]
    exact hext.le r t (hb.2 r t ht)

include hl in
theorem LoopInv_enter {st : St} (hp : PInv I p inp n st) (rules : List (Rule E B G P A)) :
    LoopInv I cfg p inp n dynR rules (hasDyn dynR) (enterScc st dynR) := by
  have hwf := WF_enter I p inp n dynR hp
  refine ⟨hwf, ?_, ?_, ?_⟩
  · intro r hr
    simp only [rowsOf, enterScc_rels]; exact hp.good r hr
  · intro r d hd
    rw [findDyn_enter] at hd
    cases hc : dynR.contains r with
    | false => rw [hc] at hd; cases hd
    | true => rw [hc] at hd; cases hd; rfl
  · intro rule _ hq ρ hsat
    exfalso
    apply hq
    refine Sat.no_dyn dynR ?_ hsat
    intro r t hc hD
    obtain ⟨i, hi, _⟩ := hD
    have hd : findDyn (enterScc st dynR).dyn r = some ⟨r, [], (relSt st r).idx, []⟩ := by
      rw [findDyn_enter, hc]; rfl
    have : i ∈ clauseRows cfg p (enterScc st dynR) r (some .total) := hi
    rw [clauseRows_some cfg p hl _ hd] at this
    cases this

theorem Base_enter (st : St) : Base dynR st (enterScc st dynR) :=
  ⟨fun r _ => by rw [enterScc_rels], fun r t h => by simpa [rowsOf, enterScc_rels] using h⟩

include hlt hl in
/-- the loop of a looping SCC -/
theorem sccLoop_spec (rules : List (Rule E B G P A))
    (hrules : ∀ rule ∈ rules, rule ∈ p.rules) (haf : ∀ rule ∈ rules, rule.aggFree = true)
    (hdyn : ∀ rule ∈ rules, ∀ h ∈ rule.heads, dynR.contains h.rel = true)
    (dl : Deadline) (st : St) : ∀ (fuel : Nat) (rs rs' : RunSt),
      LoopInv I cfg p inp n dynR rules (hasDyn dynR) rs.st → Base dynR st rs.st →
      sccLoop I cfg p dynR rules dl fuel rs = .done rs' →
      LoopInv I cfg p inp n dynR rules (fun _ => True) rs'.st ∧ Settled rs'.st ∧ Base dynR st rs'.st := by
  intro fuel
  induction fuel with
  | zero => intro rs rs' _ _ h; simp [sccLoop] at h
  | succ fuel ih =>
    intro rs rs' hinv hb h
    obtain ⟨hinv', hext⟩ := iter_step I cfg p inp n dynR hlt hl rules hrules haf hdyn rs.st hinv
    have hb' := Base_step n dynR hinv.wf hb hext
    simp only [sccLoop] at h
    split at h
    · rename_i hch
      simp only [Outcome.done.injEq] at h
      subst h
      refine ⟨hinv', ?_, hb'⟩
      have hch' : (evalRules I cfg p dynR rules { rs.st with changed := false }).changed = false := by
        simpa using hch
      have heq := hext.unchanged hch'
      intro r d' hd'
      simp only [] at hd'
      rw [findDyn_shift, heq] at hd'
      cases hd : findDyn rs.st.dyn r with
      | none =>
        have : findDyn ({ rs.st with changed := false } : SccSt).dyn r = none := hd
        rw [this] at hd'; cases hd'
      | some d =>
        have : findDyn ({ rs.st with changed := false } : SccSt).dyn r = some d := hd
        rw [this] at hd'; cases hd'
        exact ⟨hinv.newE r d hd, rfl⟩
    · split at h
      · cases h
      · exact ih _ rs' (hinv'.weaken I cfg p inp n dynR fun _ _ => trivial) hb' h

end Scc

end AscentVerif.Engine
