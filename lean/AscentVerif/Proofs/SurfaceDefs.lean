import AscentVerif.Model.Desugar
import AscentVerif.Props.C06
/-!
# Hypotheses and auxiliary notions of the C07 theorems (definitions only)
-/
namespace AscentVerif.Surface
open AscentVerif AscentVerif.Engine

variable {E B G P A M : Type}

/-- what the syntactic operations of the pipeline mean under the interpretation -/
structure SugarSound (I : Interp E B G P A) (ops : Ops E B G A) : Prop where
  /-- the expression that is just a variable reads that variable -/
  varE : ∀ v ρ x, Env.get? ρ v = some x → I.expr (ops.varE v) ρ = x
  /-- `expr_get_vars` of an identifier expression is that identifier -/
  varsE_varE : ∀ v, ops.varsE (ops.varE v) = [v]
  /-- `v.eq(&(e))` -/
  eqB : ∀ v e ρ x, Env.get? ρ v = some x → I.test (ops.eqB v e) ρ = decide (x = I.expr e ρ)
  /-- `not()`: one unit iff nothing matches -/
  notA : ∀ bag, I.agg ops.notA bag = if bag.isEmpty then [[]] else []

def SArg.mentions (varsE : E → List Var) : SArg E P → List Var
  | .var v => [v]
  | .expr e => varsE e
  | .wild => []
  | .pat _ vs => vs

/-- the variable of a plain variable column -/
def SArg.varCol : SArg E P → List Var
  | .var v => [v]
  | _ => []

def FItem.mentions (varsE : E → List Var) (varsB : B → List Var) (varsG : G → List Var) : FItem E B G P A → List Var
  | .clause _ as conds => as.flatMap (SArg.mentions varsE) ++ conds.flatMap (Cond.vars varsE varsB)
  | .cond c => Cond.vars varsE varsB c
  | .gen v g => v :: varsG g
  | .agg a => a.outs ++ a.boundArgs ++ a.args.flatMap fun
      | .wild => []
      | .bound v => [v]
      | .key e => varsE e
  | .neg _ as => as.flatMap fun
      | .wild => []
      | .expr e => varsE e

/-- the rule mentions no generated name -/
def NoReservedNames (varsE : E → List Var) (varsB : B → List Var) (varsG : G → List Var) (r : SRule E B G P A M) : Prop :=
  (∀ flat ∈ productsS r.body, ∀ f ∈ flat, ∀ v ∈ FItem.mentions varsE varsB varsG f, v < reservedBase) ∧
  (∀ h, SHead.clause h ∈ r.heads → ∀ e ∈ h.args, ∀ v ∈ varsE e, v < reservedBase)

/-- an expression argument mentions a LATER variable column of its clause only if the variable also is an EARLIER variable column -/
def ExprScopedArgs (varsE : E → List Var) (args : List (SArg E P)) : Prop :=
  ∀ pre e post, args = pre ++ .expr e :: post → ∀ v ∈ varsE e, v ∈ post.flatMap SArg.varCol → v ∈ pre.flatMap SArg.varCol

/-- the variables of a pattern argument occur in no other argument of the clause -/
def PatScopedArgs (varsE : E → List Var) (args : List (SArg E P)) : Prop :=
  ∀ pre p vs post, args = pre ++ .pat p vs :: post → ∀ v ∈ vs, v ∉ (pre ++ post).flatMap (SArg.mentions varsE)

def WellScopedArgs (varsE : E → List Var) (args : List (SArg E P)) : Prop :=
  ExprScopedArgs varsE args ∧ PatScopedArgs varsE args

def WellScoped (varsE : E → List Var) (r : SRule E B G P A M) : Prop :=
  ∀ flat ∈ productsS r.body, ∀ rel args conds, FItem.clause rel args conds ∈ flat → WellScopedArgs varsE args

def isRep (v : Var) : Prop := ∃ k, v = gsRep k
def isWild (v : Var) : Prop := ∃ k, v = gsWild k
def isPat (v : Var) : Prop := ∃ k, v = gsPat k

/-- environments that agree on every variable outside `Gn` -/
def AgreeOff (Gn : Var → Prop) (ρ σ : Env) : Prop := ∀ v, ¬ Gn v → Env.get? ρ v = Env.get? σ v

/-- environments that agree on every variable below `reservedBase` -/
def AgreeUser (ρ σ : Env) : Prop := ∀ v, v < reservedBase → Env.get? ρ v = Env.get? σ v

/-- clause arguments are variables or expressions only, and there is no negation item: what `FItem.toCore` accepts -/
def CoreShaped (fs : List (FItem E B G P A)) : Prop :=
  ∀ f ∈ fs, (∀ r as cs, f = .clause r as cs → ∀ a ∈ as, (∃ v, a = SArg.var v) ∨ ∃ e, a = SArg.expr e) ∧ (∀ r as, f ≠ .neg r as)

end AscentVerif.Surface
