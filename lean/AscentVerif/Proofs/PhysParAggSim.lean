import AscentVerif.Proofs.PhysParAggIdx
/-!
# The steps of the parallel physical engine keep the multiplicity invariant of the erased state

`Proofs/PhysParSim.lean` with `SimM` / `SimStM` (`Proofs/PhysAggSim.lean`) next to `Sim` / `SimSt`: the head update, the merge
and `update_indices` (whose rows are inserted in schedule order — a permutation of the row vector).  SCC entry and exit need
nothing new: `erase` commutes with them (`erase_enterScc`, `erase_leaveScc`).
-/
namespace AscentVerif.PhysPar
open AscentVerif AscentVerif.Engine AscentVerif.Index AscentVerif.Phys

variable {E B G P A : Type}

/-! ## inverting the folds of the model -/

theorem foldRes_ok_inv {σ α : Type} (f : σ → α → Res σ) (Inv : List α → σ → Prop) (l : List α)
    (step : ∀ done s a s1, a ∈ l → Inv done s → f s a = .ok s1 → Inv (done ++ [a]) s1) :
    ∀ s s', Inv [] s → foldRes f l s = .ok s' → Inv l s' := by
  have gen : ∀ (rest done : List α) (s s' : σ), done ++ rest = l → Inv done s → foldRes f rest s = .ok s' → Inv l s' := by
    intro rest
    induction rest with
    | nil =>
      intro done s s' hd hi hf
      rw [List.append_nil] at hd
      subst hd
      simp only [foldRes] at hf
      injection hf with hf
      subst hf
      exact hi
    | cons a rest ih =>
      intro done s s' hd hi hf
      simp only [foldRes] at hf
      cases h1 : f s a with
      | panic => rw [h1] at hf; cases hf
      | ok s1 =>
        rw [h1] at hf
        exact ih (done ++ [a]) s1 s' (by rw [List.append_assoc]; exact hd)
          (step done s a s1 (by rw [← hd]; simp) hi h1) hf
  intro s s' hi hf
  exact gen l [] s s' rfl hi hf

/-- a successful "collect" fold transformed every element successfully -/
theorem foldRes_collect_inv {α β γ : Type} (h : α → Res γ) (g : α → γ → β) (l : List α) (out : List β)
    (hf : foldRes (fun (done : List β) (a : α) => h a >>= fun x => pure (done ++ [g a x])) l [] = .ok out) :
    Rel2 (fun a b => ∃ x, h a = .ok x ∧ b = g a x) l out := by
  refine foldRes_ok_inv (fun (done : List β) (a : α) => h a >>= fun x => pure (done ++ [g a x]))
    (fun done out => Rel2 (fun a b => ∃ x, h a = .ok x ∧ b = g a x) done out) l ?_ [] out .nil hf
  intro done s a s1 _ hinv hs
  cases hx : h a with
  | panic => rw [hx] at hs; cases hs
  | ok x =>
    rw [hx] at hs
    simp only [bind_ok, pure_eq_ok] at hs
    injection hs with hs
    subst hs
    exact hinv.snoc ⟨x, hx, rfl⟩

theorem Rel2_mem_right {α β : Type} {R : α → β → Prop} {l : List α} {l' : List β} (h : Rel2 R l l') :
    Rel2 (fun _ b => b ∈ l') l l' := by
  induction h with
  | nil => exact .nil
  | cons _ _ ih => exact .cons List.mem_cons_self (Rel2.mono (fun _ _ hb => List.mem_cons_of_mem _ hb) ih)

/-! ## the head update -/

/-- `push_simM` of `Proofs/PhysAggSim.lean` for ANY new dynamic entry that satisfies the multiplicity invariant -/
theorem push_simM' {p : Program E B G P A} {ix : IxSets} {a : SccSt} {ph : PScc}
    (hsim : Sim p ix a ph) (hm : SimM a ph) {r : RelId} {d : Dyn} {pd : PDyn}
    (hd : findDyn a.dyn r = some d) (hok : DynOk ix (fun r => (relSt a.rels r).rows) d pd) (hr : r < a.rels.length)
    (row : Tuple) (pd' : PDyn) (hrel' : pd'.rel = pd.rel)
    (htri : TriM ((relSt a.rels r).rows ++ [row]) { d with new := d.new ++ [(relSt a.rels r).rows.length] } pd'.idxs) :
    SimM (pushRow a r d row)
      { rels := setNth ph.rels r { prel ph.rels r with rows := (prel ph.rels r).rows ++ [row] }
        dyn := setPDyn ph.dyn pd', changed := true } := by
  have hrel : d.rel = r := findDyn_rel hd
  have hprel : pd.rel = r := by rw [hok.rel, hrel]
  have hrows_self : (relSt (pushRow a r d row).rels r).rows = (relSt a.rels r).rows ++ [row] := by
    simp [pushRow, relSt_setNth_self _ _ _ hr]
  have hrows_ne : ∀ r', r' ≠ r → relSt (pushRow a r d row).rels r' = relSt a.rels r' := by
    intro r' hne; simp [pushRow, relSt_setNth_ne _ _ _ _ hne]
  refine ⟨?_, ?_⟩
  · show Rel2 _ (setDyn a.dyn _) (setPDyn ph.dyn _)
    rw [setDyn_eq_map]
    unfold setPDyn
    refine Rel2.map _ _ ?_ (sim_both hsim hm)
    rintro x px ⟨hx, hxm⟩
    have hxr : px.rel = x.rel := hx.rel
    by_cases hc : x.rel = r
    · have h1 : (x.rel == ({ d with new := d.new ++ [(relSt a.rels r).rows.length] } : Dyn).rel) = true := by
        simp [hc, hrel]
      have h2 : (px.rel == pd'.rel) = true := by simp [hxr, hc, hprel, hrel']
      simp only [h1, h2, if_true]
      show TriM (relSt (pushRow a r d row).rels d.rel).rows _ _
      rw [show (relSt (pushRow a r d row).rels d.rel).rows = (relSt a.rels r).rows ++ [row] from by
        rw [hrel]; exact hrows_self]
      exact htri
    · have h1 : (x.rel == ({ d with new := d.new ++ [(relSt a.rels r).rows.length] } : Dyn).rel) = false := by
        simp [hc, hrel]
      have h2 : (px.rel == pd'.rel) = false := by simp [hxr, hc, hprel, hrel']
      simp only [h1, h2, Bool.false_eq_true, if_false]
      show TriM (relSt (pushRow a r d row).rels x.rel).rows _ _
      rw [hrows_ne _ hc]
      exact hxm
  · intro r' hnd
    have hnd0 : findDyn a.dyn r' = none := by
      have : findDyn (pushRow a r d row).dyn r' = none := hnd
      simp only [pushRow, findDyn_setDyn, Option.map_eq_none_iff] at this
      exact this
    have hne : r' ≠ r := by intro h; rw [h, hd] at hnd0; cases hnd0
    rw [hrows_ne r' hne]
    simp only [prel_setNth_ne _ _ _ _ hne]
    exact hm.nd r' hnd0

/-- what the index inserts of a head update establish, per index -/
structure InsQ (N : Nat) (rows' : List Tuple) (d' : Dyn) (ci ci' : List Nat × Tri PCx) : Prop where
  col : ci'.1 = ci.1
  st : Shape N ci'.1 ci'.2.total
  sd : Shape N ci'.1 ci'.2.delta
  sn : Shape N ci'.1 ci'.2.new
  ft : ci'.2.total.isFrozen = true
  fd : ci'.2.delta.isFrozen = true
  fn : ci'.2.new.isFrozen = false
  ot : IxOk rows' d'.total ci'.1 ci'.2.total.erase
  od : IxOk rows' d'.delta ci'.1 ci'.2.delta.erase
  on : IxOk rows' d'.new ci'.1 ci'.2.new.erase
  mt : IxM rows' d'.total ci'.1 ci'.2.total.erase
  md : IxM rows' d'.delta ci'.1 ci'.2.delta.erase
  mn : IxM rows' d'.new ci'.1 ci'.2.new.erase

/-- `headRelPar_sim` of `Proofs/PhysParSim.lean` carrying the multiplicities -/
theorem headRelPar_simA {p : Program E B G P A} {ix : IxSets} {dynR : List RelId} {n N : Nat} {bo : List RelId}
    {a : SccSt} {s : PCScc} (hN : 0 < N) (hsim : Sim p ix a s.erase) (hm : SimM a s.erase) (hwf : WF n dynR a)
    (hlt : ∀ r, dynR.contains r = true → r < n) (hfl : Flags N bo true s) (tid : Nat) (r : RelId) (row : Tuple)
    (hlen : row.length = arityOf p r) :
    ∃ s', headRelPar s tid r row = .ok s' ∧ Sim p ix (Engine.headRel a r row) s'.erase ∧
      SimM (Engine.headRel a r row) s'.erase ∧ Flags N bo true s' := by
  rw [headRel_eq, headRelPar_eq]
  have hfind : findPDyn s.erase.dyn r = (findPCDyn s.dyn r).map PCDyn.erase := findPDyn_erase s.dyn r
  rcases sim_find hsim hm r with ⟨h1, h2⟩ | ⟨d, pd, h1, h2, hok, hdm⟩
  · rw [h2] at hfind
    have hnone : findPCDyn s.dyn r = none := by
      cases hh : findPCDyn s.dyn r with
      | none => rfl
      | some x => rw [hh] at hfind; cases hfind
    rw [h1, hnone]
    exact ⟨s, rfl, hsim, hm, hfl⟩
  · rw [h2] at hfind
    obtain ⟨cd, hcd, rfl⟩ : ∃ cd, findPCDyn s.dyn r = some cd ∧ pd = cd.erase := by
      cases hh : findPCDyn s.dyn r with
      | none => rw [hh] at hfind; cases hfind
      | some x =>
        rw [hh] at hfind
        simp only [Option.map_some, Option.some.injEq] at hfind
        exact ⟨x, rfl, hfind⟩
    rw [h1, hcd]
    obtain ⟨hdf, _⟩ := hfl.dyn cd (findPCDyn_mem hcd)
    have hrel : d.rel = r := findDyn_rel h1
    have hr : r < a.rels.length := by
      rw [hwf.len]; apply hlt
      rw [← hwf.dyn_iff, h1]; rfl
    have tri : TriOk (ix r) (relSt a.rels r).rows d cd.erase.full cd.erase.idxs := by
      have := hok.tri; rw [hrel] at this; exact this
    have trm : TriM (relSt a.rels r).rows d cd.erase.idxs := by
      have := hdm; unfold DynM at this; rw [hrel] at this; exact this
    have hbT : ∀ i ∈ d.total, i < (relSt a.rels r).rows.length := fun i hi => (hwf.cover r d h1 i).mpr (.inl hi)
    have hbD : ∀ i ∈ d.delta, i < (relSt a.rels r).rows.length := fun i hi => (hwf.cover r d h1 i).mpr (.inr (.inl hi))
    have hbN : ∀ i ∈ d.new, i < (relSt a.rels r).rows.length := fun i hi => (hwf.cover r d h1 i).mpr (.inr (.inr hi))
    have eT := contains_eq_of_fullOk tri.ft row
    have eD := contains_eq_of_fullOk tri.fd row
    have eN := contains_eq_of_fullOk tri.fn row
    simp only [containsKey_frozen _ _ hdf.ft, containsKey_frozen _ _ hdf.fd, bind_ok,
      insertIfNotPresent_unfrozen _ _ hdf.fn]
    show ∃ s' : PCScc, _ = Res.ok s' ∧ Sim p ix (if ((bagTuples (relSt a.rels r).rows d.total).contains row ||
        (bagTuples (relSt a.rels r).rows d.delta).contains row || (bagTuples (relSt a.rels r).rows d.new).contains row) = true
        then a else pushRow a r d row) s'.erase ∧ SimM (if ((bagTuples (relSt a.rels r).rows d.total).contains row ||
        (bagTuples (relSt a.rels r).rows d.delta).contains row || (bagTuples (relSt a.rels r).rows d.new).contains row) = true
        then a else pushRow a r d row) s'.erase ∧ _
    rw [← eT, ← eD, ← eN]
    change ∃ s' : PCScc, _ = Res.ok s' ∧ Sim p ix (if (FullIdx.containsKey cd.full.total.m row ||
        FullIdx.containsKey cd.full.delta.m row || FullIdx.containsKey cd.full.new.m row) = true
        then a else pushRow a r d row) s'.erase ∧ SimM (if (FullIdx.containsKey cd.full.total.m row ||
        FullIdx.containsKey cd.full.delta.m row || FullIdx.containsKey cd.full.new.m row) = true
        then a else pushRow a r d row) s'.erase ∧ _
    by_cases h12 : (FullIdx.containsKey cd.full.total.m row || FullIdx.containsKey cd.full.delta.m row) = true
    · rw [if_pos h12, if_pos (by rw [h12]; rfl)]
      exact ⟨s, rfl, hsim, hm, hfl⟩
    · rw [if_neg h12]
      have h12' : (FullIdx.containsKey cd.full.total.m row || FullIdx.containsKey cd.full.delta.m row) = false := by
        simpa using h12
      by_cases hNw : FullIdx.containsKey cd.full.new.m row = true
      · rw [insertIfNotPresent_present hNw, if_pos (show (FullIdx.containsKey cd.full.total.m row ||
          FullIdx.containsKey cd.full.delta.m row || FullIdx.containsKey cd.full.new.m row) = true by rw [hNw]; simp)]
        simp only [Bool.not_false, if_true, pure_eq_ok]
        exact ⟨s, rfl, hsim, hm, hfl⟩
      · have hN' : FullIdx.containsKey cd.full.new.m row = false := by simpa using hNw
        have tfn : FullOk (relSt a.rels r).rows d.new cd.full.new.m := tri.fn
        obtain ⟨hi2, hfull⟩ := FullOk_insertIfNotPresent row tfn hbN hN'
        rw [if_neg (show ¬ (FullIdx.containsKey cd.full.total.m row ||
          FullIdx.containsKey cd.full.delta.m row || FullIdx.containsKey cd.full.new.m row) = true by rw [h12', hN']; simp), hi2]
        simp only [Bool.not_true, Bool.false_eq_true, if_false]
        -- the index inserts
        obtain ⟨idxs, hfold, hrel2⟩ := foldRes_collect
          (fun (ci : List Nat × Tri PCx) => ci.2.new.insert tid (Plan.proj ci.1 row) (projC ci.1 row))
          (fun ci x => (ci.1, { ci.2 with new := x }))
          (InsQ N ((relSt a.rels r).rows ++ [row]) { d with new := d.new ++ [(relSt a.rels r).rows.length] })
          cd.idxs (by
            intro ci hci
            obtain ⟨s1, s2, s3, f1, f2, f3⟩ := hdf.ix ci hci
            have hmem : (ci.1, eraseTri ci.2) ∈ cd.erase.idxs := List.mem_map.mpr ⟨ci, hci, rfl⟩
            have i1 : IxOk (relSt a.rels r).rows d.total ci.1 ci.2.total.erase := tri.it _ hmem
            have i2 : IxOk (relSt a.rels r).rows d.delta ci.1 ci.2.delta.erase := tri.id _ hmem
            have i3 : IxOk (relSt a.rels r).rows d.new ci.1 ci.2.new.erase := tri.inw _ hmem
            have m1 : IxM (relSt a.rels r).rows d.total ci.1 ci.2.total.erase := trm.it _ hmem
            have m2 : IxM (relSt a.rels r).rows d.delta ci.1 ci.2.delta.erase := trm.id _ hmem
            have m3 : IxM (relSt a.rels r).rows d.new ci.1 ci.2.new.erase := trm.inw _ hmem
            obtain ⟨x', hx1, hx2, hx3, hx4⟩ := PCx_insert_ok hN s3 f3 i3 hbN tid row
            exact ⟨x', hx1, ⟨rfl, s1, s2, hx2, f1, f2, hx3, IxOk_rows_append row i1 hbT, IxOk_rows_append row i2 hbD, hx4,
              IxM_rows_append row m1 hbT, IxM_rows_append row m2 hbD, PCx_insert_M hN s3 m3 hbN tid row hx1⟩⟩)
        rw [hfold]
        simp only [bind_ok, pure_eq_ok]
        have hall : ∀ c' ∈ idxs, ∃ c, InsQ N ((relSt a.rels r).rows ++ [row])
            { d with new := d.new ++ [(relSt a.rels r).rows.length] } c c' := by
          intro c' hc'
          obtain ⟨c, _, hq⟩ := hrel2.forall_right c' hc'
          exact ⟨c, hq⟩
        refine ⟨_, rfl, ?_, ?_, ?_⟩
        · rw [erase_push]
          refine push_sim' hsim hwf h1 hok hr row hlen _ rfl ?_
          refine ⟨FullOk_rows_append row tri.ft hbT, FullOk_rows_append row tri.fd hbD, hfull, ?_, ?_, ?_, ?_⟩
          · show (idxs.map fun ci => (ci.1, eraseTri ci.2)).map (·.1) = _
            rw [← tri.cols]
            show _ = (cd.idxs.map fun ci => (ci.1, eraseTri ci.2)).map (·.1)
            rw [List.map_map, List.map_map]
            exact (Rel2.map_eq _ _ (fun c c' (hq : InsQ N _ _ c c') => hq.col.symm) hrel2).symm
          · intro ci hci
            obtain ⟨c', hc', rfl⟩ := List.mem_map.mp hci
            obtain ⟨c, hq⟩ := hall c' hc'
            exact hq.ot
          · intro ci hci
            obtain ⟨c', hc', rfl⟩ := List.mem_map.mp hci
            obtain ⟨c, hq⟩ := hall c' hc'
            exact hq.od
          · intro ci hci
            obtain ⟨c', hc', rfl⟩ := List.mem_map.mp hci
            obtain ⟨c, hq⟩ := hall c' hc'
            exact hq.on
        · rw [erase_push]
          refine push_simM' hsim hm h1 hok hr row _ rfl ⟨?_, ?_, ?_⟩
          · intro ci hci
            obtain ⟨c', hc', rfl⟩ := List.mem_map.mp hci
            obtain ⟨c, hq⟩ := hall c' hc'
            exact hq.mt
          · intro ci hci
            obtain ⟨c', hc', rfl⟩ := List.mem_map.mp hci
            obtain ⟨c, hq⟩ := hall c' hc'
            exact hq.md
          · intro ci hci
            obtain ⟨c', hc', rfl⟩ := List.mem_map.mp hci
            obtain ⟨c, hq⟩ := hall c' hc'
            exact hq.mn
        · refine Flags_push hfl hcd row _ idxs hdf.fn ?_
          intro c' hc'
          obtain ⟨c, hq⟩ := hall c' hc'
          exact ⟨hq.st, hq.sd, hq.sn, hq.ft, hq.fd, hq.fn⟩

/-! ## the merge -/

theorem mergeDyn_M {N : Nat} {d d' : PCDyn} (hf : DynFlags N false d) (hd' : mergeDyn d = .ok d')
    {ixr : List (List Nat)} {rows : List Tuple} {ad : Dyn} (tri : TriOk ixr rows ad d.erase.full d.erase.idxs)
    (trm : TriM rows ad d.erase.idxs) : TriM rows (shiftD ad) d'.erase.idxs := by
  rw [mergeDyn_eq] at hd'
  cases hfull : mergeFull d.full with
  | panic => rw [hfull] at hd'; cases hd'
  | ok full' =>
    rw [hfull, bind_ok] at hd'
    cases hfold : foldRes (fun (done : List (List Nat × Tri PCx)) (ci : List Nat × Tri PCx) =>
        mergeIx ci.2 >>= fun t => pure (done ++ [(ci.1, t)])) d.idxs [] with
    | panic => rw [hfold] at hd'; cases hd'
    | ok idxs =>
      rw [hfold, bind_ok] at hd'
      simp only [pure_eq_ok] at hd'
      injection hd' with hd'
      subst hd'
      have hrel2 := foldRes_collect_inv (fun (ci : List Nat × Tri PCx) => mergeIx ci.2) (fun ci t => (ci.1, t)) d.idxs idxs hfold
      have hmem : ∀ c ∈ d.idxs, (c.1, eraseTri c.2) ∈ d.erase.idxs := fun c hc => List.mem_map.mpr ⟨c, hc, rfl⟩
      have hall : ∀ c' ∈ idxs, IxM rows (ad.total ++ ad.delta) c'.1 c'.2.total.erase ∧ IxM rows ad.new c'.1 c'.2.delta.erase ∧
          IxM rows [] c'.1 c'.2.new.erase := by
        intro c' hc'
        obtain ⟨c, hc, t, ht, rfl⟩ := hrel2.forall_right c' hc'
        obtain ⟨s1, s2, _, _, _, _⟩ := hf.ix c hc
        exact mergeIx_M s1 s2 ht (tri.it _ (hmem c hc)) (tri.id _ (hmem c hc)) (tri.inw _ (hmem c hc))
          (trm.it _ (hmem c hc)) (trm.id _ (hmem c hc)) (trm.inw _ (hmem c hc))
      refine ⟨?_, ?_, ?_⟩
      · intro ci hci
        obtain ⟨c', hc', rfl⟩ := List.mem_map.mp hci
        exact (hall c' hc').1
      · intro ci hci
        obtain ⟨c', hc', rfl⟩ := List.mem_map.mp hci
        exact (hall c' hc').2.1
      · intro ci hci
        obtain ⟨c', hc', rfl⟩ := List.mem_map.mp hci
        exact (hall c' hc').2.2

theorem mergeDyn_rel {d d' : PCDyn} (hd' : mergeDyn d = .ok d') : d'.rel = d.rel := by
  rw [mergeDyn_eq] at hd'
  cases hfull : mergeFull d.full with
  | panic => rw [hfull] at hd'; cases hd'
  | ok full' =>
    rw [hfull, bind_ok] at hd'
    cases hfold : foldRes (fun (done : List (List Nat × Tri PCx)) (ci : List Nat × Tri PCx) =>
        mergeIx ci.2 >>= fun t => pure (done ++ [(ci.1, t)])) d.idxs [] with
    | panic => rw [hfold] at hd'; cases hd'
    | ok idxs =>
      rw [hfold, bind_ok] at hd'
      simp only [pure_eq_ok] at hd'
      injection hd' with hd'
      subst hd'
      rfl

/-- the merge keeps the multiplicities -/
theorem shiftPar_simM {p : Program E B G P A} {ix : IxSets} {N : Nat} {bo : List RelId} {a : SccSt} {s s' : PCScc}
    (hsim : Sim p ix a s.erase) (hm : SimM a s.erase) (hfl : Flags N bo false s) (hs' : shiftPar s = .ok s') :
    SimM (Engine.shift a) s'.erase := by
  rw [shiftPar_eq] at hs'
  cases hfold : foldRes (fun (done : List PCDyn) (d : PCDyn) => mergeDyn d >>= fun d' => pure (done ++ [d'])) s.dyn [] with
  | panic => rw [hfold] at hs'; cases hs'
  | ok dyn' =>
    rw [hfold, bind_ok] at hs'
    simp only [pure_eq_ok] at hs'
    injection hs' with hs'
    subst hs'
    have hrel2 := foldRes_collect_inv mergeDyn (fun _ d' => d') s.dyn dyn' hfold
    refine ⟨?_, ?_⟩
    · have h1 : Rel2 (fun (d : Dyn) (cd : PCDyn) => (DynOk ix (fun r => (relSt a.rels r).rows) d cd.erase ∧
          DynM (fun r => (relSt a.rels r).rows) d cd.erase) ∧ cd ∈ s.dyn) a.dyn s.dyn := by
        have h0 : Rel2 (fun (d : Dyn) (cd : PCDyn) => DynOk ix (fun r => (relSt a.rels r).rows) d cd.erase ∧
            DynM (fun r => (relSt a.rels r).rows) d cd.erase) a.dyn s.dyn :=
          Rel2.of_map_right PCDyn.erase (sim_both hsim hm)
        exact Rel2.and h0 (Rel2_mem_right h0)
      show Rel2 _ (a.dyn.map _) (dyn'.map PCDyn.erase)
      refine Rel2.map _ _ ?_ (h1.comp hrel2)
      rintro d cd' ⟨cd, ⟨⟨hok, hdm⟩, hcd⟩, x, hx, rfl⟩
      show TriM _ (shiftD d) _
      exact mergeDyn_M (hfl.dyn cd hcd).1 hx hok.tri hdm
    · intro r hnd
      have hnd0 : findDyn a.dyn r = none := by
        rw [findDyn_shift, Option.map_eq_none_iff] at hnd; exact hnd
      exact hm.nd r hnd0

/-! ## `update_indices` -/

theorem PCx_insert_shape {N : Nat} {cols : List Nat} {x x' : PCx} (hs : Shape N cols x) {tid : Nat} {k v : List Val}
    (hx : x.insert tid k v = .ok x') : Shape N cols x' := by
  cases x with
  | map fz m =>
    simp only [PCx.insert] at hx
    split at hx
    · cases hx
    · injection hx with hx
      subst hx
      exact hs
  | noidx c =>
    simp only [PCx.insert, CNoIdx.insert] at hx
    split at hx
    · cases hx
    · simp only [map_ok] at hx
      injection hx with hx
      subst hx
      exact ⟨hs.1, by simp only [CNoIdx.insertMut, length_modifyNth, hs.2]⟩

/-- the indices `update_indices` builds hold every row with its multiplicity, in whatever order the rows were inserted -/
theorem updateRel_M (threads : Nat) (σ : Sched E B G P A) (k : Nat) (ixr : List (List Nat)) (rows : List Tuple) (pr : PCRel)
    (h : updateRel threads σ k ixr rows = .ok pr) : ∀ ci ∈ pr.idxs, IxMT rows ci.1 ci.2.erase := by
  have hN : 0 < max threads 1 := by omega
  rw [updateRel_eq] at h
  cases hfold : foldRes (insRow σ) (σ.permRows k rows) (PCFull.new, ixr.map fun c => (c, PCx.new threads c), k * 1000003) with
  | panic => rw [hfold] at h; cases h
  | ok acc =>
    rw [hfold, map_ok] at h
    injection h with h
    subst h
    have hinv := foldRes_ok_inv (insRow σ)
      (fun done (acc : PCFull × List (List Nat × PCx) × Nat) =>
        ∀ ci ∈ acc.2.1, Shape (max threads 1) ci.1 ci.2 ∧ IxMT done ci.1 ci.2.erase)
      (σ.permRows k rows) (by
        intro done acc row acc1 _ hinv hstep
        unfold insRow at hstep
        cases h1 : acc.1.insert row with
        | panic => rw [h1] at hstep; cases hstep
        | ok full =>
          rw [h1, bind_ok] at hstep
          cases h2 : foldRes (fun (done : List (List Nat × PCx)) (ci : List Nat × PCx) =>
              ci.2.insert (σ.tid acc.2.2) (Plan.proj ci.1 row) (projC ci.1 row) >>= fun x => pure (done ++ [(ci.1, x)]))
              acc.2.1 [] with
          | panic => rw [h2] at hstep; cases hstep
          | ok idxs =>
            rw [h2, bind_ok] at hstep
            simp only [pure_eq_ok] at hstep
            injection hstep with hstep
            subst hstep
            have hrel2 := foldRes_collect_inv
              (fun (ci : List Nat × PCx) => ci.2.insert (σ.tid acc.2.2) (Plan.proj ci.1 row) (projC ci.1 row))
              (fun ci x => (ci.1, x)) acc.2.1 idxs h2
            intro c' hc'
            obtain ⟨c, hc, x, hx, rfl⟩ := hrel2.forall_right c' hc'
            obtain ⟨s1, m1⟩ := hinv c hc
            exact ⟨PCx_insert_shape s1 hx, PCx_insert_MT hN s1 m1 _ row hx⟩)
      (PCFull.new, ixr.map fun c => (c, PCx.new threads c), k * 1000003) acc (by
        intro ci hci
        obtain ⟨c, _, rfl⟩ := List.mem_map.mp hci
        refine ⟨Shape_new _ _, ?_⟩
        show IxMT [] c (PCx.new threads c).erase
        rw [erase_new]; exact IxMT_nil _) hfold
    intro ci hci
    exact IxMT_perm (σ.permRows_perm k rows) (hinv ci hci).2

theorem updateIndices_simStM (threads : Nat) (σ : Sched E B G P A) (ix : IxSets) (s st : PCSt)
    (h : updateIndices threads σ ix s = .ok st) :
    SimStM (Engine.updateIndices (absSt (s.map PCRel.erase))) (st.map PCRel.erase) := by
  rw [updateIndices_eq] at h
  have hrel2 := foldRes_collect_inv (fun r => updateRel threads σ r (ix r) (pcrel s r).rows) (fun _ pr => pr)
    (List.range s.length) st h
  have hlen : st.length = s.length := by rw [← hrel2.length_eq, List.length_range]
  intro r ci hci
  rw [prel_erase] at hci
  rw [relSt_updateIndices, relSt_absSt, prel_erase]
  show IxM (pcrel s r).rows (List.range (pcrel s r).rows.length) ci.1 ci.2
  unfold IxM
  rw [bagTuples_range]
  by_cases hr : r < s.length
  · have hr' : r < st.length := by rw [hlen]; exact hr
    obtain ⟨pr, hpr, hpe⟩ := hrel2.get r r (pcrel st r) (List.getElem?_range hr) (by
      simp [pcrel, List.getD_eq_getElem?_getD, List.getElem?_eq_getElem hr'])
    subst hpe
    obtain ⟨c, hc, rfl⟩ := List.mem_map.mp hci
    exact updateRel_M threads σ r (ix r) (pcrel s r).rows _ hpr c hc
  · have hr' : st.length ≤ r := by rw [hlen]; exact Nat.le_of_not_lt hr
    rw [pcrel_of_ge _ _ hr'] at hci
    cases hci

end AscentVerif.PhysPar
