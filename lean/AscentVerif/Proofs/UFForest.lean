import AscentVerif.Model.UnionFind
/-!
# The union-find forest: roots, the `Forest` invariant, `find` (path halving) and `union_by_rank`

Helper development for `Props/C18.lean`.  `RootOf es i r` says that following the parent links
from `i` ends at the root `r`.  `Forest es` is the part of the invariant about parents and ranks:

* parents are in range,
* rank strictly increases along parent links (hence the parent graph is acyclic),
* every rank is below the number of elements (hence `find`'s fuel is enough),
* the potential `Σ_{roots r} (rank r + 1)` is at most the number of elements (this is what
  keeps the rank bound true although `Elem::union` increments the winner's rank on *every*
  union, not only on ties).
-/
namespace AscentVerif.UF

def parentOf (es : Elems) (i : Nat) : Nat := match es[i]? with | some e => e.parent | none => i
def rankOf (es : Elems) (i : Nat) : Nat := match es[i]? with | some e => e.rank | none => 0
def nextOf (es : Elems) (i : Nat) : Nat := match es[i]? with | some e => e.next | none => i
def valueOf (es : Elems) (i : Nat) : Int := match es[i]? with | some e => e.value | none => 0

/-- following parent links from `i` ends at the root `r` -/
inductive RootOf (es : Elems) : Nat → Nat → Prop
  | root {i : Nat} : i < es.length → parentOf es i = i → RootOf es i i
  | step {i r : Nat} : i < es.length → parentOf es i ≠ i → RootOf es (parentOf es i) r → RootOf es i r

/-- contribution of element `e` at index `k` to the potential: `rank + 1` for roots -/
def weight (k : Nat) (e : Elem) : Nat := if e.parent = k then e.rank + 1 else 0

/-- potential of the elements `es`, the first of which has index `k` -/
def sumFrom : Nat → Elems → Nat
  | _, [] => 0
  | k, e :: t => weight k e + sumFrom (k + 1) t

structure Forest (es : Elems) : Prop where
  parent_lt : ∀ i, i < es.length → parentOf es i < es.length
  rank_lt_parent : ∀ i, i < es.length → parentOf es i ≠ i → rankOf es i < rankOf es (parentOf es i)
  rank_lt : ∀ i, i < es.length → rankOf es i < es.length
  weight_le : sumFrom 0 es ≤ es.length

/-! ## projections after `set` / `push` -/

theorem parentOf_set {es : Elems} {i : Nat} (j : Nat) (e' : Elem) (h : i < es.length) :
    parentOf (es.set i e') j = if i = j then e'.parent else parentOf es j := by
  unfold parentOf
  by_cases hij : i = j
  · subst hij; simp [List.getElem?_set_self h]
  · simp [List.getElem?_set_ne hij, hij]

theorem rankOf_set {es : Elems} {i : Nat} (j : Nat) (e' : Elem) (h : i < es.length) :
    rankOf (es.set i e') j = if i = j then e'.rank else rankOf es j := by
  unfold rankOf
  by_cases hij : i = j
  · subst hij; simp [List.getElem?_set_self h]
  · simp [List.getElem?_set_ne hij, hij]

theorem nextOf_set {es : Elems} {i : Nat} (j : Nat) (e' : Elem) (h : i < es.length) :
    nextOf (es.set i e') j = if i = j then e'.next else nextOf es j := by
  unfold nextOf
  by_cases hij : i = j
  · subst hij; simp [List.getElem?_set_self h]
  · simp [List.getElem?_set_ne hij, hij]

theorem valueOf_set {es : Elems} {i : Nat} (j : Nat) (e' : Elem) (h : i < es.length) :
    valueOf (es.set i e') j = if i = j then e'.value else valueOf es j := by
  unfold valueOf
  by_cases hij : i = j
  · subst hij; simp [List.getElem?_set_self h]
  · simp [List.getElem?_set_ne hij, hij]

theorem parentOf_of_get {es : Elems} {i : Nat} {e : Elem} (h : es[i]? = some e) : parentOf es i = e.parent := by
  simp [parentOf, h]
theorem rankOf_of_get {es : Elems} {i : Nat} {e : Elem} (h : es[i]? = some e) : rankOf es i = e.rank := by
  simp [rankOf, h]
theorem nextOf_of_get {es : Elems} {i : Nat} {e : Elem} (h : es[i]? = some e) : nextOf es i = e.next := by
  simp [nextOf, h]
theorem valueOf_of_get {es : Elems} {i : Nat} {e : Elem} (h : es[i]? = some e) : valueOf es i = e.value := by
  simp [valueOf, h]

theorem lt_of_get {es : Elems} {i : Nat} {e : Elem} (h : es[i]? = some e) : i < es.length := by
  rcases List.getElem?_eq_some_iff.mp h with ⟨h, _⟩; exact h

theorem get_of_lt {es : Elems} {i : Nat} (h : i < es.length) : ∃ e, es[i]? = some e :=
  ⟨es[i], List.getElem?_eq_getElem h⟩

/-! ## the potential -/

theorem sumFrom_set {es : Elems} {i : Nat} {e : Elem} (k : Nat) (e' : Elem) (h : es[i]? = some e) :
    sumFrom k (es.set i e') + weight (k + i) e = sumFrom k es + weight (k + i) e' := by
  induction es generalizing i k with
  | nil => simp at h
  | cons a t ih =>
    cases i with
    | zero =>
      simp at h; subst h
      simp [sumFrom]; omega
    | succ i =>
      simp at h
      have := ih (k + 1) h
      simp only [List.set_cons_succ, sumFrom]
      have e1 : k + 1 + i = k + (i + 1) := by omega
      rw [e1] at this
      omega

theorem weight_le_sumFrom {es : Elems} {i : Nat} {e : Elem} (k : Nat) (h : es[i]? = some e) :
    weight (k + i) e ≤ sumFrom k es := by
  induction es generalizing i k with
  | nil => simp at h
  | cons a t ih =>
    cases i with
    | zero => simp at h; subst h; simp [sumFrom]
    | succ i =>
      simp at h
      have := ih (k + 1) h
      have e1 : k + 1 + i = k + (i + 1) := by omega
      rw [e1] at this
      simp only [sumFrom]; omega

theorem sumFrom_append (k : Nat) (a b : Elems) : sumFrom k (a ++ b) = sumFrom k a + sumFrom (k + a.length) b := by
  induction a generalizing k with
  | nil => simp [sumFrom]
  | cons x t ih =>
    simp only [List.cons_append, sumFrom, List.length_cons, ih]
    have : k + 1 + t.length = k + (t.length + 1) := by omega
    rw [this]; omega

/-! ## roots -/

theorem RootOf.lt {es : Elems} {i r : Nat} (h : RootOf es i r) : i < es.length := by
  cases h <;> assumption

theorem RootOf.root_lt {es : Elems} {i r : Nat} (h : RootOf es i r) : r < es.length := by
  induction h with
  | root h _ => exact h
  | step _ _ _ ih => exact ih

theorem RootOf.is_root {es : Elems} {i r : Nat} (h : RootOf es i r) : parentOf es r = r := by
  induction h with
  | root _ h => exact h
  | step _ _ _ ih => exact ih

theorem RootOf.self {es : Elems} {i r : Nat} (h : RootOf es i r) : RootOf es r r :=
  .root h.root_lt h.is_root

/-- a node has at most one root -/
theorem RootOf.unique {es : Elems} {i r r' : Nat} (h : RootOf es i r) (h' : RootOf es i r') : r = r' := by
  induction h with
  | root _ hp =>
    cases h' with
    | root => rfl
    | step _ hn _ => exact absurd hp hn
  | step _ hn _ ih =>
    cases h' with
    | root _ hp => exact absurd hp hn
    | step _ _ h2 => exact ih h2

theorem RootOf.of_root {es : Elems} {i r : Nat} (h : RootOf es i r) (hp : parentOf es i = i) : r = i := by
  cases h with
  | root => rfl
  | step _ hn _ => exact absurd hp hn

/-- every node of a forest has a root -/
theorem Forest.exists_root {es : Elems} (F : Forest es) {i : Nat} (hi : i < es.length) : ∃ r, RootOf es i r := by
  generalize hm : es.length - rankOf es i = m
  induction m using Nat.strongRecOn generalizing i with
  | _ m ih =>
    by_cases hp : parentOf es i = i
    · exact ⟨i, .root hi hp⟩
    · have h1 := F.rank_lt_parent i hi hp
      have h2 := F.parent_lt i hi
      have h3 := F.rank_lt _ h2
      obtain ⟨r, hr⟩ := ih (es.length - rankOf es (parentOf es i)) (by omega) h2 rfl
      exact ⟨r, .step hi hp hr⟩

/-- ranks do not decrease towards the root; they are equal only at the root itself -/
theorem Forest.rank_le_root {es : Elems} (F : Forest es) {i r : Nat} (h : RootOf es i r) :
    rankOf es i ≤ rankOf es r ∧ (rankOf es i = rankOf es r → i = r) := by
  induction h with
  | root => exact ⟨Nat.le_refl _, fun _ => rfl⟩
  | step hi hn _ ih =>
    have := F.rank_lt_parent _ hi hn
    exact ⟨by omega, fun h => by omega⟩

/-- two nodes are in the same class -/
def Same (es : Elems) (i j : Nat) : Prop := ∃ r, RootOf es i r ∧ RootOf es j r

/-! ## transfer of roots between two forests -/

/-- if every root derivation of `es` maps to a root derivation of `es'` through `f`, the roots
of `es'` are exactly the `f`-images of the roots of `es` -/
theorem rootOf_transfer {es es' : Elems} (F : Forest es) (hlen : es'.length = es.length) (f : Nat → Nat)
    (hf : ∀ j r, RootOf es j r → RootOf es' j (f r)) (j r : Nat) :
    RootOf es' j r ↔ ∃ r0, RootOf es j r0 ∧ r = f r0 := by
  constructor
  · intro h
    obtain ⟨r0, hr0⟩ := F.exists_root (hlen ▸ h.lt)
    exact ⟨r0, hr0, h.unique (hf _ _ hr0)⟩
  · rintro ⟨r0, hr0, rfl⟩
    exact hf _ _ hr0

/-! ## path halving -/

/-- one halving step `elem.parent.set(grandparent_id)` keeps the forest and every root -/
theorem halve_spec {es : Elems} (F : Forest es) {id : Nat} {e p : Elem} (he : es[id]? = some e)
    (hne : id ≠ e.parent) (hp : es[e.parent]? = some p) (hpg : p.parent ≠ e.parent) :
    Forest (es.set id { e with parent := p.parent }) ∧
    (∀ j r, RootOf (es.set id { e with parent := p.parent }) j r ↔ RootOf es j r) := by
  have hid := lt_of_get he
  have hpl := lt_of_get hp
  have hpe : parentOf es id = e.parent := parentOf_of_get he
  have hpp : parentOf es e.parent = p.parent := parentOf_of_get hp
  have hre : rankOf es id = e.rank := rankOf_of_get he
  have hr1 : rankOf es id < rankOf es e.parent := by
    have := F.rank_lt_parent id hid (by rw [hpe]; exact fun h => hne h.symm); rwa [hpe] at this
  have hr2 : rankOf es e.parent < rankOf es p.parent := by
    have := F.rank_lt_parent e.parent hpl (by rw [hpp]; exact hpg); rwa [hpp] at this
  have hgid : p.parent ≠ id := by intro h; rw [h] at hr2; omega
  have hgl : p.parent < es.length := by have := F.parent_lt e.parent hpl; rwa [hpp] at this
  have hrank : ∀ j, rankOf (es.set id { e with parent := p.parent }) j = rankOf es j := by
    intro j; rw [rankOf_set j _ hid]; split
    · next h => subst h; simp [hre]
    · rfl
  have hpar : ∀ j, parentOf (es.set id { e with parent := p.parent }) j = if id = j then p.parent else parentOf es j :=
    fun j => parentOf_set j _ hid
  have F1 : Forest (es.set id { e with parent := p.parent }) := by
    refine ⟨?_, ?_, ?_, ?_⟩
    · intro j hj; simp only [List.length_set] at hj ⊢; rw [hpar]; split
      · exact hgl
      · exact F.parent_lt j hj
    · intro j hj; simp only [List.length_set] at hj; rw [hpar, hrank, hrank]; split
      · next h => subst h; intro _; omega
      · exact F.rank_lt_parent j hj
    · intro j hj; simp only [List.length_set] at hj ⊢; rw [hrank]; exact F.rank_lt j hj
    · have := sumFrom_set 0 { e with parent := p.parent } he
      simp only [weight, Nat.zero_add] at this
      rw [if_neg (fun h => hne h.symm), if_neg hgid] at this
      simp only [List.length_set]; have := F.weight_le; omega
  refine ⟨F1, ?_⟩
  have hf : ∀ j r, RootOf es j r → RootOf (es.set id { e with parent := p.parent }) j r := by
    intro j r h
    induction h with
    | @root j hj hpj =>
      have : id ≠ j := by intro h; subst h; rw [hpe] at hpj; exact hne hpj.symm
      exact .root (by simpa using hj) (by rw [hpar, if_neg this]; exact hpj)
    | @step j r hj hn _ ih =>
      by_cases hji : id = j
      · subst hji
        rw [hpe] at ih
        have hne' : id ≠ e.parent := hne
        cases ih with
        | root _ h2 => rw [hpar, if_neg hne', hpp] at h2; exact absurd h2 hpg
        | step _ _ h3 =>
          rw [hpar, if_neg hne', hpp] at h3
          exact .step (by simpa using hj) (by rw [hpar, if_pos rfl]; exact hgid) (by rw [hpar, if_pos rfl]; exact h3)
      · exact .step (by simpa using hj) (by rw [hpar, if_neg hji]; exact hn) (by rw [hpar, if_neg hji]; exact ih)
  intro j r
  rw [rootOf_transfer F (by simp) (fun x => x) hf j r]
  constructor
  · rintro ⟨r0, h, rfl⟩; exact h
  · intro h; exact ⟨r, h, rfl⟩

/-- what `find` guarantees -/
structure FindPost (es es' : Elems) (id r : Nat) : Prop where
  length_eq : es'.length = es.length
  forest : Forest es'
  root : RootOf es id r
  roots : ∀ j r, RootOf es' j r ↔ RootOf es j r
  rank_eq : ∀ j, rankOf es' j = rankOf es j
  next_eq : ∀ j, nextOf es' j = nextOf es j
  value_eq : ∀ j, valueOf es' j = valueOf es j

/-- `find` on a forest: enough fuel never panics, returns the root, keeps forest and partition -/
theorem find_spec {es : Elems} (F : Forest es) {id fuel : Nat} (hid : id < es.length)
    (hfuel : es.length ≤ fuel + rankOf es id) :
    ∃ es' r, Elems.find es id fuel = .ok (es', r) ∧ FindPost es es' id r := by
  induction fuel generalizing es id with
  | zero => have := F.rank_lt id hid; omega
  | succ fuel ih =>
    obtain ⟨e, he⟩ := get_of_lt hid
    have hpe : parentOf es id = e.parent := parentOf_of_get he
    unfold Elems.find
    simp only [he]
    by_cases h1 : id = e.parent
    · rw [if_pos h1]
      exact ⟨es, id, rfl, rfl, F, .root hid (by rw [hpe]; exact h1.symm), fun _ _ => Iff.rfl, fun _ => rfl, fun _ => rfl, fun _ => rfl⟩
    · rw [if_neg h1]
      have hpl : e.parent < es.length := by have := F.parent_lt id hid; rwa [hpe] at this
      obtain ⟨p, hp⟩ := get_of_lt hpl
      have hpp : parentOf es e.parent = p.parent := parentOf_of_get hp
      simp only [hp]
      have hn1 : parentOf es id ≠ id := by rw [hpe]; exact fun h => h1 h.symm
      by_cases h2 : p.parent = e.parent
      · rw [if_pos h2]
        refine ⟨es, e.parent, rfl, rfl, F, ?_, fun _ _ => Iff.rfl, fun _ => rfl, fun _ => rfl, fun _ => rfl⟩
        exact .step hid hn1 (by rw [hpe]; exact .root hpl (by rw [hpp]; exact h2))
      · rw [if_neg h2]
        obtain ⟨F1, hroots⟩ := halve_spec F he h1 hp h2
        have hr1 : rankOf es id < rankOf es e.parent := by
          have := F.rank_lt_parent id hid hn1; rwa [hpe] at this
        have hr2 : rankOf es e.parent < rankOf es p.parent := by
          have := F.rank_lt_parent e.parent hpl (by rw [hpp]; exact h2); rwa [hpp] at this
        have hgl : p.parent < es.length := by have := F.parent_lt e.parent hpl; rwa [hpp] at this
        have hre : rankOf es id = e.rank := rankOf_of_get he
        have hrank : ∀ j, rankOf (es.set id { e with parent := p.parent }) j = rankOf es j := by
          intro j; rw [rankOf_set j _ hid]; split
          · next h => subst h; simp [hre]
          · rfl
        have hnext : ∀ j, nextOf (es.set id { e with parent := p.parent }) j = nextOf es j := by
          intro j; rw [nextOf_set j _ hid]; split
          · next h => subst h; simp [nextOf_of_get he]
          · rfl
        have hval : ∀ j, valueOf (es.set id { e with parent := p.parent }) j = valueOf es j := by
          intro j; rw [valueOf_set j _ hid]; split
          · next h => subst h; simp [valueOf_of_get he]
          · rfl
        obtain ⟨es', r, hfind, P⟩ := ih F1 (id := p.parent) (by simpa using hgl) (by rw [hrank]; simp only [List.length_set]; omega)
        refine ⟨es', r, hfind, ?_, P.forest, ?_, ?_, ?_, ?_, ?_⟩
        · rw [P.length_eq]; simp
        · have hg : RootOf es p.parent r := (hroots _ _).mp P.root
          exact .step hid hn1 (by rw [hpe]; exact .step hpl (by rw [hpp]; exact h2) (by rw [hpp]; exact hg))
        · intro j r; rw [P.roots, hroots]
        · intro j; rw [P.rank_eq, hrank]
        · intro j; rw [P.next_eq, hnext]
        · intro j; rw [P.value_eq, hval]

theorem findTop_spec {es : Elems} (F : Forest es) {id : Nat} (hid : id < es.length) :
    ∃ es' r, Elems.findTop es id = .ok (es', r) ∧ FindPost es es' id r :=
  find_spec F hid (Nat.le_add_right _ _)

/-! ## union by rank -/

/-- what linking root `o` below root `r` guarantees -/
structure LinkPost (es es' : Elems) (r o : Nat) : Prop where
  length_eq : es'.length = es.length
  forest : Forest es'
  roots : ∀ j q, RootOf es' j q ↔ ∃ q0, RootOf es j q0 ∧ q = (if q0 = r ∨ q0 = o then r else q0)
  value_eq : ∀ j, valueOf es' j = valueOf es j
  next_eq : ∀ j, nextOf es' j = if j = r then nextOf es o else if j = o then nextOf es r else nextOf es j

/-- `Elem::union` on two distinct roots, the first of rank at least the second's -/
theorem unionElem_spec {es : Elems} (F : Forest es) {r o : Nat} (hr : r < es.length) (ho : o < es.length)
    (hpr : parentOf es r = r) (hpo : parentOf es o = o) (hro : r ≠ o) (hrank : rankOf es o ≤ rankOf es r) :
    ∃ es', Elems.unionElem es r o = .ok es' ∧ LinkPost es es' r o := by
  obtain ⟨s, hs⟩ := get_of_lt hr
  obtain ⟨t, ht⟩ := get_of_lt ho
  have hsp : s.parent = r := by rw [← parentOf_of_get hs]; exact hpr
  have htp : t.parent = o := by rw [← parentOf_of_get ht]; exact hpo
  have hsr : rankOf es r = s.rank := rankOf_of_get hs
  have htr : rankOf es o = t.rank := rankOf_of_get ht
  have hne : s.parent ≠ t.parent := by rw [hsp, htp]; exact hro
  have hnlt : ¬ s.rank < t.rank := by omega
  refine ⟨(es.set r { s with next := t.next, rank := s.rank + 1 }).set o { t with next := s.next, parent := s.parent },
    by simp only [Elems.unionElem, hs, ht, if_neg hne, if_neg hnlt], ?_⟩
  generalize hs' : ({ s with next := t.next, rank := s.rank + 1 } : Elem) = s'
  generalize ht' : ({ t with next := s.next, parent := s.parent } : Elem) = t'
  have hs'p : s'.parent = r := by subst hs'; exact hsp
  have hs'r : s'.rank = s.rank + 1 := by subst hs'; rfl
  have ht'p : t'.parent = r := by subst ht'; exact hsp
  have ht'r : t'.rank = t.rank := by subst ht'; rfl
  have ho1 : o < (es.set r s').length := by simpa using ho
  have hpar : ∀ j, parentOf ((es.set r s').set o t') j = if j = o then r else parentOf es j := by
    intro j; rw [parentOf_set j _ ho1, parentOf_set j _ hr]
    by_cases h1 : o = j
    · simp [h1, ht'p]
    · by_cases h2 : r = j
      · subst h2; simp [h1, hs'p, hpr, Ne.symm h1]
      · simp [h1, h2, Ne.symm h1]
  have hrk : ∀ j, rankOf ((es.set r s').set o t') j = if j = r then rankOf es r + 1 else rankOf es j := by
    intro j; rw [rankOf_set j _ ho1, rankOf_set j _ hr]
    by_cases h1 : o = j
    · subst h1; simp [ht'r, htr, Ne.symm hro]
    · by_cases h2 : r = j
      · subst h2; simp [h1, hs'r, hsr]
      · simp [h1, h2, Ne.symm h2]
  have hW : sumFrom 0 ((es.set r s').set o t') + t.rank = sumFrom 0 es := by
    have h1 := sumFrom_set 0 s' hs
    have hget : (es.set r s')[o]? = some t := by rw [List.getElem?_set_ne hro]; exact ht
    have h2 := sumFrom_set 0 t' hget
    simp only [weight, Nat.zero_add, hsp, htp, hs'p, ht'p, hs'r, if_true, if_neg hro] at h1 h2
    omega
  have hlen : ((es.set r s').set o t').length = es.length := by simp
  have F' : Forest ((es.set r s').set o t') := by
    refine ⟨?_, ?_, ?_, ?_⟩
    · intro j hj; rw [hlen] at hj ⊢; rw [hpar]; split
      · exact hr
      · exact F.parent_lt j hj
    · intro j hj; rw [hlen] at hj; rw [hpar]; split
      · next h => subst h; intro _; rw [hrk, hrk, if_neg (Ne.symm hro), if_pos rfl]; omega
      · next h =>
        intro hn
        have hjr : j ≠ r := by intro h'; subst h'; exact hn hpr
        have := F.rank_lt_parent j hj hn
        rw [hrk, hrk, if_neg hjr]; split
        · next h' => rw [h'] at this; omega
        · omega
    · intro j hj; rw [hlen] at hj ⊢; rw [hrk]; split
      · have hget : ((es.set r s').set o t')[r]? = some s' := by
          rw [List.getElem?_set_ne (Ne.symm hro)]; exact List.getElem?_set_self hr
        have := weight_le_sumFrom 0 hget
        simp only [weight, Nat.zero_add, hs'p, if_true, hs'r] at this
        have := F.weight_le; omega
      · exact F.rank_lt j hj
    · rw [hlen]; have := F.weight_le; omega
  have hf : ∀ j q, RootOf es j q → RootOf ((es.set r s').set o t') j (if q = r ∨ q = o then r else q) := by
    intro j q h
    induction h with
    | @root j hj hpj =>
      by_cases hjo : j = o
      · subst hjo
        rw [if_pos (Or.inr rfl)]
        exact .step (by rw [hlen]; exact hj) (by rw [hpar, if_pos rfl]; exact hro)
          (by rw [hpar, if_pos rfl]; exact .root (by rw [hlen]; exact hr) (by rw [hpar, if_neg hro]; exact hpr))
      · have : (if j = r ∨ j = o then r else j) = j := by
          by_cases hjr : j = r
          · simp [hjr]
          · simp [hjr, hjo]
        rw [this]
        exact .root (by rw [hlen]; exact hj) (by rw [hpar, if_neg hjo]; exact hpj)
    | @step j q hj hn _ ih =>
      have hjo : j ≠ o := by intro h; subst h; exact hn hpo
      exact .step (by rw [hlen]; exact hj) (by rw [hpar, if_neg hjo]; exact hn) (by rw [hpar, if_neg hjo]; exact ih)
  refine ⟨hlen, F', fun j q => rootOf_transfer F hlen _ hf j q, ?_, ?_⟩
  · intro j; rw [valueOf_set j _ ho1, valueOf_set j _ hr]
    by_cases h1 : o = j
    · subst h1; subst ht'; simp [valueOf_of_get ht]
    · by_cases h2 : r = j
      · subst h2; subst hs'; simp [h1, valueOf_of_get hs]
      · simp [h1, h2]
  · intro j; rw [nextOf_set j _ ho1, nextOf_set j _ hr]
    by_cases h1 : o = j
    · subst h1; subst ht'; simp [nextOf_of_get hs, Ne.symm hro]
    · by_cases h2 : r = j
      · subst h2; subst hs'; simp [h1, nextOf_of_get ht]
      · simp [h1, h2, Ne.symm h1, Ne.symm h2]

/-- what `union_by_rank` on two distinct roots guarantees: both classes end up under the winner `w` -/
structure UnionPost (es es' : Elems) (a b w : Nat) : Prop where
  length_eq : es'.length = es.length
  forest : Forest es'
  winner : w = a ∨ w = b
  roots : ∀ j q, RootOf es' j q ↔ ∃ q0, RootOf es j q0 ∧ q = (if q0 = a ∨ q0 = b then w else q0)
  value_eq : ∀ j, valueOf es' j = valueOf es j
  next_eq : ∀ j, nextOf es' j = if j = a then nextOf es b else if j = b then nextOf es a else nextOf es j

theorem unionByRank_spec {es : Elems} (F : Forest es) {a b : Nat} (ha : a < es.length) (hb : b < es.length)
    (hpa : parentOf es a = a) (hpb : parentOf es b = b) (hab : a ≠ b) :
    ∃ es' w, Elems.unionByRank es a b = .ok (es', w) ∧ UnionPost es es' a b w := by
  obtain ⟨s, hs⟩ := get_of_lt ha
  obtain ⟨t, ht⟩ := get_of_lt hb
  have hsp : s.parent = a := by rw [← parentOf_of_get hs]; exact hpa
  have htp : t.parent = b := by rw [← parentOf_of_get ht]; exact hpb
  have hne : s.parent ≠ t.parent := by rw [hsp, htp]; exact hab
  by_cases hge : s.rank ≥ t.rank
  · obtain ⟨es', hu, P⟩ := unionElem_spec F ha hb hpa hpb hab (by rw [rankOf_of_get hs, rankOf_of_get ht]; exact hge)
    refine ⟨es', a, by simp only [Elems.unionByRank, hs, ht, if_neg hne, if_pos hge, hu]; rw [hsp], ?_⟩
    exact ⟨P.length_eq, P.forest, Or.inl rfl, P.roots, P.value_eq, P.next_eq⟩
  · obtain ⟨es', hu, P⟩ := unionElem_spec F hb ha hpb hpa (Ne.symm hab) (by rw [rankOf_of_get hs, rankOf_of_get ht]; omega)
    refine ⟨es', b, by simp only [Elems.unionByRank, hs, ht, if_neg hne, if_neg hge, hu]; rw [htp], ?_⟩
    refine ⟨P.length_eq, P.forest, Or.inr rfl, ?_, P.value_eq, ?_⟩
    · intro j q; rw [P.roots]
      constructor <;> rintro ⟨q0, h, rfl⟩ <;> exact ⟨q0, h, by simp only [Or.comm]⟩
    · intro j; rw [P.next_eq]
      by_cases h1 : j = a
      · subst h1; simp [hab]
      · by_cases h2 : j = b
        · subst h2; simp [h1]
        · simp [h1, h2]

end AscentVerif.UF
