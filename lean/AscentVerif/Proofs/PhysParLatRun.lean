import AscentVerif.Proofs.PhysParLatSt
/-!
# The parallel engine with lattices is one execution of the nondeterministic lattice engine, and never panics

Rule evaluation over the frozen indices (`evalRulePar`, `phaseTasks`), the head updates of a phase in schedule order
(`applyTasks`: every task is one micro-step of a `TraceL` whose rows are read in the abstract state at the start of the phase),
one iteration (a `PassNDL`, for both rule-scheduling modes), the loop, one SCC, the SCCs in order, `run`.
-/
namespace AscentVerif.PhysParLat
open AscentVerif AscentVerif.Engine AscentVerif.Index AscentVerif.Phys AscentVerif.PhysLat AscentVerif.PhysPar

variable {E B G P A : Type}

/-! ## the views a rule reads are frozen -/

theorem frozenAt_map (idxs : List (List Nat × Tri LCx)) (f : Tri LCx → LCx) (cols : List Nat)
    (h : ∀ ci ∈ idxs, (f ci.2).isFrozen = true) : frozenAt (idxs.map fun ci => (ci.1, f ci.2)) cols = true := by
  unfold frozenAt
  rw [lookupL_map]
  cases hf : idxs.find? (·.1 == cols) with
  | none => rfl
  | some c => exact h c (List.mem_of_find?_eq_some hf)

theorem viewFrozenP_ok {p : Program E B G P A} {N : Nat} {bo : List RelId} {s : PLScc} (hpfl : Flags N bo true s.pc)
    (hlfl : LFlags p bo true s) (hpl : PLWf p s) (r : RelId) (v : Option Ver) (cols : List Nat)
    (hP : isLatRel p r = false → findPCDyn s.pc.dyn r = none → bo.contains r = true ∧ r < p.rels.length)
    (hL : isLatRel p r = true → findLDyn s.ldyn r = none → bo.contains r = true) :
    viewFrozen p s r v cols = true := by
  unfold viewFrozen
  cases hl : isLatRel p r with
  | false =>
    simp only [Bool.not_false, if_true]
    exact PhysPar.viewFrozen_ok hpfl r v (fun hn => ⟨(hP hl hn).1, by rw [hpl.len]; exact (hP hl hn).2⟩)
  | true =>
    simp only [Bool.not_true, Bool.false_eq_true, if_false]
    cases hd : findLDyn s.ldyn r with
    | none =>
      simp only []
      have hb := hL hl hd
      have hr : r < s.lrels.length := by rw [hpl.llen]; exact lat_lt p hl
      have := hlfl.rels r hr hl
      rw [hb] at this
      unfold frozenAt
      cases hlk : lookupL (lrel s.lrels r).idxs cols with
      | none => rfl
      | some x =>
        simp only []
        unfold lookupL at hlk
        cases hf : (lrel s.lrels r).idxs.find? (·.1 == cols) with
        | none => rw [hf] at hlk; cases hlk
        | some c =>
          rw [hf] at hlk
          simp only [Option.map_some, Option.some.injEq] at hlk
          subst hlk
          exact (this c (List.mem_of_find?_eq_some hf)).2
    | some d =>
      simp only []
      have hfl := (hlfl.dyn d (findLDyn_mem hd)).1
      have hT : frozenAt (d.idxs.map fun ci => (ci.1, ci.2.total)) cols = true :=
        frozenAt_map d.idxs (·.total) cols (fun ci hci => (hfl ci hci).ft)
      have hD : frozenAt (d.idxs.map fun ci => (ci.1, ci.2.delta)) cols = true :=
        frozenAt_map d.idxs (·.delta) cols (fun ci hci => (hfl ci hci).fd)
      cases v with
      | none => exact hT
      | some v =>
        cases v with
        | total => exact hT
        | delta => exact hD
        | totalDelta =>
          show (frozenAt _ cols && frozenAt _ cols) = true
          rw [hT, hD]; rfl

/-! ## `is_empty` of a plain relation in the two erasures -/

theorem lenV_plain_eq (p : Program E B G P A) (s : PLScc) (hpl : PLWf p s) (r : RelId) (hl : isLatRel p r = false)
    (v : Option Ver) (cols : List Nat) :
    PhysLat.lenV false (arityOf p r) (PhysLat.viewOf (s.erase p) r v) cols =
      Phys.lenV (arityOf p r) (Phys.viewOf s.pc.erase r v) cols := by
  have hfx := findXDyn_erase_plain p s hpl.ldyn r hl
  have hfp : findPDyn s.pc.erase.dyn r = (findPCDyn s.pc.dyn r).map PCDyn.erase := findPDyn_erase s.pc.dyn r
  have hxr : xrel (s.erase p).rels r = eraseRel p s.pc.rels s.lrels r := xrel_erase p s hpl.len r
  have hpr : prel s.pc.erase.rels r = (pcrel s.pc.rels r).erase := prel_erase s.pc.rels r
  have key : ∀ (full : FIx) (idxs : List (List Nat × PCx)) (rows : List Tuple),
      PhysLat.len1 false (arityOf p r) ⟨rows, full, idxs.map fun ci => (ci.1, XIx.vals ci.2.erase)⟩ cols =
        Phys.len1 (arityOf p r) full (idxs.map fun ci => (ci.1, ci.2.erase)) cols := by
    intro full idxs rows
    have := (plain_reads (arityOf p r) ⟨rows, full, idxs.map fun ci => (ci.1, XIx.vals ci.2.erase)⟩ (by
      intro ci hci
      obtain ⟨c, _, rfl⟩ := List.mem_map.mp hci
      exact ⟨_, rfl⟩) cols).2.2
    rw [this]
    simp only [List.map_map]
    rfl
  have key3 : ∀ (idxs : List (List Nat × Tri PCx)) (sel : Tri XIx → XIx) (sel' : Tri PIx → PIx) (selc : Tri PCx → PCx)
      (h1 : ∀ t : Tri PCx, sel ⟨.vals t.total.erase, .vals t.delta.erase, .vals t.new.erase⟩ = .vals (selc t).erase)
      (h2 : ∀ t : Tri PCx, sel' (eraseTri t) = (selc t).erase) (full : FIx) (rows : List Tuple),
      PhysLat.len1 false (arityOf p r)
        ⟨rows, full, (idxs.map fun ci => (ci.1, (⟨.vals ci.2.total.erase, .vals ci.2.delta.erase, .vals ci.2.new.erase⟩ : Tri XIx))).map
          fun ci => (ci.1, sel ci.2)⟩ cols =
      Phys.len1 (arityOf p r) full ((idxs.map fun ci => (ci.1, eraseTri ci.2)).map fun ci => (ci.1, sel' ci.2)) cols := by
    intro idxs sel sel' selc h1 h2 full rows
    have e1 : ((idxs.map fun ci => (ci.1, (⟨.vals ci.2.total.erase, .vals ci.2.delta.erase, .vals ci.2.new.erase⟩ : Tri XIx))).map
        fun ci => (ci.1, sel ci.2)) = (idxs.map fun ci => (ci.1, selc ci.2)).map fun ci => (ci.1, XIx.vals ci.2.erase) := by
      simp only [List.map_map]
      apply List.map_congr_left
      intro ci _
      simp [h1]
    have e2 : ((idxs.map fun ci => (ci.1, eraseTri ci.2)).map fun ci => (ci.1, sel' ci.2)) =
        (idxs.map fun ci => (ci.1, selc ci.2)).map fun ci => (ci.1, ci.2.erase) := by
      simp only [List.map_map]
      apply List.map_congr_left
      intro ci _
      simp [h2]
    rw [e1, e2]
    exact key full _ rows
  unfold PhysLat.viewOf Phys.viewOf
  rw [hfx, hfp]
  cases hd : findPCDyn s.pc.dyn r with
  | none =>
    simp only [Option.map_none]
    rw [hxr, hpr, eraseRel_plain p _ _ r hl]
    exact key _ _ _
  | some cd =>
    simp only [Option.map_some]
    have hT := key3 cd.idxs (·.total) (·.total) (·.total) (fun _ => rfl) (fun _ => rfl) cd.full.total.m
      (xrel (s.erase p).rels r).rows
    have hD := key3 cd.idxs (·.delta) (·.delta) (·.delta) (fun _ => rfl) (fun _ => rfl) cd.full.delta.m
      (xrel (s.erase p).rels r).rows
    cases v with
    | none => exact hT
    | some v =>
      cases v with
      | total => exact hT
      | delta => exact hD
      | totalDelta =>
        show PhysLat.len1 _ _ _ _ + PhysLat.len1 _ _ _ _ = Phys.len1 _ _ _ _ + Phys.len1 _ _ _ _
        exact congr (congrArg _ hT) hD

/-! ## one MIR rule over the frozen indices -/

theorem anyEmptyPar_sound (I : Interp E B G P A) (p : Program E B G P A) (ixs : IxSets) (a : SccSt) (s : PLScc)
    (hpl : PLWf p s) (hV : ViewsOkL p ixs a (s.erase p)) (h : Hir.HRule) (body : List (Item E B G P A))
    (vs : List (Option Ver)) (hok : ClOk p ixs h 0 body) (hokl : ClL p h 0 body)
    (he : anyEmptyPar p s h body vs = true) : evalBody I {} p a body vs [] = [] := by
  simp only [anyEmptyPar, Bool.and_eq_true, List.any_eq_true] at he
  obtain ⟨_, c, hc, hemp⟩ := he
  apply evalBody_nil_of_empty I {} p a body 0 vs [] ⟨c, hc, ?_⟩
  obtain ⟨h1, h2⟩ := clausesOf_ok body 0 vs hok c hc
  have hv := hV c.2.1 c.2.2 _ h1 h2 (clausesOf_okL body 0 vs hokl c hc)
  apply hv.len
  unfold isEmptyPar at hemp
  cases hl : isLatRel p c.2.1 with
  | true =>
    rw [hl] at hemp
    simpa using hemp
  | false =>
    rw [hl] at hemp
    simp only [Bool.false_eq_true, if_false] at hemp
    unfold PhysPar.isEmptyPar at hemp
    split at hemp
    · cases hemp
    · rw [lenV_plain_eq p s hpl c.2.1 hl]
      simpa [isEmptyV] using hemp

theorem swapPar_reorderable (p : Program E B G P A) (σ : PhysPar.Sched E B G P A) (n : Nat) (s : PLScc) (h : Hir.HRule)
    (body : List (Item E B G P A)) (vs : List (Option Ver)) (hs : swapPar p σ n s h body vs = true) :
    Plan.reorderable h = true := by
  unfold swapPar at hs
  split at hs
  · exact chooseSwap_reorderableL p _ h body vs hs
  · simp only [Bool.and_eq_true] at hs
    exact hs.1

theorem evalRulePar_envs (I : Interp E B G P A) (hI : Plan.Ext I) (V : Hir.VarsOf E B) (hS : Plan.Supp I V)
    (p : Program E B G P A) (ixs : IxSets) (σ : PhysPar.Sched E B G P A) (n : Nat) (a : SccSt) (s : PLScc) (hpl : PLWf p s)
    (hV : ViewsOkL p ixs a (s.erase p)) (r : Rule E B G P A) (hd : Hir.Desugared V r = true)
    (hw : Plan.WellScoped V r = true) (hok : ClOk p ixs (Hir.compileRule V r) 0 r.body)
    (hokl : ClL p (Hir.compileRule V r) 0 r.body) (haf : r.aggFree = true) (vs : List (Option Ver))
    (hfz : ∀ c ∈ clausesOf 0 r.body vs, viewFrozen p s c.2.1 c.2.2 (Plan.colsAt (Hir.compileRule V r) c.1) = true) :
    ∃ envs, evalRulePar I p σ n s (Hir.compileRule V r) r.body vs = .ok envs ∧
      (∀ ρ ∈ envs, ∃ ρ' ∈ evalBody I {} p a r.body vs [], Plan.headRows I r.heads ρ = Plan.headRows I r.heads ρ') ∧
      (∀ ρ' ∈ evalBody I {} p a r.body vs [], ∃ ρ ∈ envs, Plan.headRows I r.heads ρ = Plan.headRows I r.heads ρ') := by
  have hall : (clausesOf 0 r.body vs).all
      (fun c => viewFrozen p s c.2.1 c.2.2 (Plan.colsAt (Hir.compileRule V r) c.1)) = true := List.all_eq_true.mpr hfz
  unfold evalRulePar
  rw [hall]
  simp only [Bool.not_true, Bool.false_eq_true, if_false]
  split
  · rename_i he
    rw [anyEmptyPar_sound I p ixs a s hpl hV _ r.body vs hok hokl he]
    exact ⟨[], rfl, fun ρ hρ => (by cases hρ), fun ρ hρ => (by cases hρ)⟩
  · refine ⟨_, rfl, ?_⟩
    have hmem : ∀ ρ, ρ ∈ PhysLat.evalFrom I p (s.erase p) (Hir.compileRule V r)
          (swapPar p σ n s (Hir.compileRule V r) r.body vs) 0 r.body vs [] ↔
        ρ ∈ Plan.evalBodyPlan I {} p a (Hir.compileRule V r) (swapPar p σ n s (Hir.compileRule V r) r.body vs) r.body vs [] :=
      fun ρ => evalFrom_memL I p ixs a (s.erase p) hV _ _ _ r.body 0 vs [] (Nat.le_refl _) hok hokl haf ρ
    have hperm : ((Plan.evalBodyPlan I {} p a (Hir.compileRule V r) (swapPar p σ n s (Hir.compileRule V r) r.body vs) r.body vs
        []).map (Plan.headRows I r.heads)).Perm ((evalBody I {} p a r.body vs []).map (Plan.headRows I r.heads)) := by
      cases hs : swapPar p σ n s (Hir.compileRule V r) r.body vs with
      | false => exact Plan.head_rows_perm I hI {} p a V r hd vs
      | true =>
        exact Plan.head_rows_perm_swapped I hI {} p a V hS r hd hw (swapPar_reorderable p σ n s _ r.body vs hs) vs
    refine ⟨?_, ?_⟩
    · intro ρ hρ
      exact exists_of_map_perm _ hperm ρ ((hmem ρ).mp hρ)
    · intro ρ' hρ'
      obtain ⟨ρ, hρ, e⟩ := exists_of_map_perm _ hperm.symm ρ' hρ'
      exact ⟨ρ, (hmem ρ).mpr hρ, e.symm⟩

/-! ## the tasks of a phase -/

theorem phaseTasks_eq (I : Interp E B G P A) (V : Hir.VarsOf E B) (p : Program E B G P A) (σ : PhysPar.Sched E B G P A)
    (n : Nat) (rvs : List (Rule E B G P A × List (Option Ver))) (s : PLScc) :
    phaseTasks I V p σ n rvs s =
      foldRes (fun (acc : List (Rule E B G P A × Env)) (rv : Rule E B G P A × List (Option Ver)) =>
        evalRulePar I p σ (n + acc.length) s (Hir.compileRule V rv.1) rv.1.body rv.2 >>= fun envs =>
        pure (acc ++ envs.map fun ρ => (rv.1, ρ))) rvs [] := rfl

theorem phaseTasks_ok (I : Interp E B G P A) (hI : Plan.Ext I) (V : Hir.VarsOf E B) (hS : Plan.Supp I V)
    (p : Program E B G P A) (ix : IxSets) (σ : PhysPar.Sched E B G P A) (n : Nat) (a : SccSt) (s : PLScc) (hpl : PLWf p s)
    (hV : ViewsOkL p (fun r => ixOf p ix r) a (s.erase p)) (rvs : List (Rule E B G P A × List (Option Ver)))
    (hR : ∀ rv ∈ rvs, RuleFitL V p ix rv.1)
    (hfz : ∀ rv ∈ rvs, ∀ c ∈ clausesOf 0 rv.1.body rv.2,
      viewFrozen p s c.2.1 c.2.2 (Plan.colsAt (Hir.compileRule V rv.1) c.1) = true) :
    ∃ tasks, phaseTasks I V p σ n rvs s = .ok tasks ∧
      (∀ t ∈ tasks, ∃ vs, (t.1, vs) ∈ rvs ∧ ∃ ρ' ∈ evalBody I {} p a t.1.body vs [],
        Plan.headRows I t.1.heads t.2 = Plan.headRows I t.1.heads ρ') ∧
      (∀ rv ∈ rvs, ∀ ρ' ∈ evalBody I {} p a rv.1.body rv.2 [], ∃ t ∈ tasks, t.1 = rv.1 ∧
        Plan.headRows I rv.1.heads t.2 = Plan.headRows I rv.1.heads ρ') := by
  obtain ⟨tasks, hfold, h1, h2⟩ := foldRes_inv
    (fun (acc : List (Rule E B G P A × Env)) (rv : Rule E B G P A × List (Option Ver)) =>
      evalRulePar I p σ (n + acc.length) s (Hir.compileRule V rv.1) rv.1.body rv.2 >>= fun envs =>
      pure (acc ++ envs.map fun ρ => (rv.1, ρ)))
    (fun done acc => (∀ t ∈ acc, ∃ vs, (t.1, vs) ∈ rvs ∧ ∃ ρ' ∈ evalBody I {} p a t.1.body vs [],
        Plan.headRows I t.1.heads t.2 = Plan.headRows I t.1.heads ρ') ∧
      (∀ rv ∈ done, ∀ ρ' ∈ evalBody I {} p a rv.1.body rv.2 [], ∃ t ∈ acc, t.1 = rv.1 ∧
        Plan.headRows I rv.1.heads t.2 = Plan.headRows I rv.1.heads ρ'))
    rvs (by
      intro done acc rv hrv hinv
      have fit := hR rv hrv
      obtain ⟨envs, he, hA, hB⟩ := evalRulePar_envs I hI V hS p _ σ (n + acc.length) a s hpl hV rv.1 fit.desug fit.wscoped
        fit.clok fit.cll fit.aggFree rv.2 (hfz rv hrv)
      refine ⟨acc ++ envs.map fun ρ => (rv.1, ρ), by rw [he]; rfl, ?_, ?_⟩
      · intro t ht
        rcases List.mem_append.mp ht with ht | ht
        · exact hinv.1 t ht
        · obtain ⟨ρ, hρ, rfl⟩ := List.mem_map.mp ht
          obtain ⟨ρ', hρ', heq⟩ := hA ρ hρ
          exact ⟨rv.2, hrv, ρ', hρ', heq⟩
      · intro rv' hrv' ρ' hρ'
        rcases List.mem_append.mp hrv' with hrv' | hrv'
        · obtain ⟨t, ht, e1, e2⟩ := hinv.2 rv' hrv' ρ' hρ'
          exact ⟨t, List.mem_append_left _ ht, e1, e2⟩
        · simp only [List.mem_singleton] at hrv'
          subst hrv'
          obtain ⟨ρ, hρ, heq⟩ := hB ρ' hρ'
          exact ⟨(rv'.1, ρ), List.mem_append_right _ (List.mem_map.mpr ⟨ρ, hρ, rfl⟩), rfl, heq⟩)
    [] ⟨fun t ht => (by cases ht), fun rv hrv => (by cases hrv)⟩
  exact ⟨tasks, by rw [phaseTasks_eq, hfold], h1, h2⟩

/-! ## the head updates of a phase -/

/-- the invariant between the abstract state and the parallel state inside an SCC -/
structure PIS (p : Program E B G P A) (ix : IxSets) (N : Nat) (bo : List RelId) (fz : Bool) (a : SccSt) (s : PLScc) : Prop where
  sim : SimP p (ixP p ix) a (s.erase p)
  wf : PLWf p s
  pfl : Flags N bo fz s.pc
  lfl : LFlags p bo fz s

section Pass
variable (I : Interp E B G P A) (L : LatOrder I) (hI : Plan.Ext I) (V : Hir.VarsOf E B) (hS : Plan.Supp I V)
  (hff : ∀ r a b, (I.joinMut r a b).2 = false → (I.joinMut r a b).1 = a)
  (p : Program E B G P A) (ix : IxSets) (inp : RelId → List Tuple) (dynR : List RelId) (rules : List (Rule E B G P A))
  (N : Nat) (hN : 0 < N) (bo : List RelId) (σ : PhysPar.Sched E B G P A)
  (hlt : ∀ r, dynR.contains r = true → r < p.rels.length)
  (har : ∀ r, isLatRel p r = true → 0 < arityOf p r)
  (hrules : ∀ rule ∈ rules, rule ∈ p.rules)
  (hdyn : ∀ rule ∈ rules, ∀ h ∈ rule.heads, dynR.contains h.rel = true)
  (hR : ∀ rule ∈ rules, RuleFitL V p (ixP p ix) rule)
  (hbo : ∀ rule ∈ rules, ∀ r ∈ rule.bodyRels, dynR.contains r = false → bo.contains r = true ∧ r < p.rels.length)

include hff hN hlt har in
theorem headUpdatePar_sim {a : SccSt} {s : PLScc} (h : PIS p ix N bo true a s) (hnc : NewCh a)
    (hinv : LInv I L p inp dynR a) (hd : HeadClause E) (ρ ρ' : Env) (tid : Nat)
    (hh : hd.args.length = arityOf p hd.rel) (hdy : dynR.contains hd.rel = true)
    (heq : (hd.args.map fun e => I.expr e ρ) = hd.args.map fun e => I.expr e ρ')
    (hbf : BelowF I L p inp (headFact I hd ρ')) :
    ∃ s', headUpdatePar I p s tid hd ρ = .ok s' ∧ PIS p ix N bo true (Engine.headUpdate I {} p a hd ρ') s' ∧
      NewCh (Engine.headUpdate I {} p a hd ρ') ∧ LInv I L p inp dynR (Engine.headUpdate I {} p a hd ρ') := by
  obtain ⟨hinv', hext, _⟩ := headUpdate_step hinv hd ρ' hdy hbf
  have hnc' : NewCh (Engine.headUpdate I {} p a hd ρ') := by
    intro hc
    have := hext.unchanged hc
    rw [this] at hc ⊢
    exact hnc hc
  have hrowlen : (hd.args.map fun e => I.expr e ρ').length = arityOf p hd.rel := by rw [List.length_map]; exact hh
  cases hl : isLatRel p hd.rel with
  | true =>
    have hl' : (declOf p hd.rel).lat = true := hl
    obtain ⟨s', h1, h2, h3, h4, h5, h6⟩ := headLatPar_sim I hff (ix := ix) h.sim hinv.wf hlt hnc h.wf h.lfl hd.rel
      (hd.args.map fun e => I.expr e ρ') hl (har _ hl) hrowlen (hinv.keys hd.rel hl')
    refine ⟨s', ?_, ⟨?_, h3, ⟨by rw [h6]; exact h.pfl.dyn, by rw [h5]; exact h.pfl.rels⟩, h4⟩, hnc', hinv'⟩
    · show (if isLatRel p hd.rel then headLatPar I p s hd.rel (hd.args.map fun e => I.expr e ρ) else _) = _
      rw [hl, heq]
      exact h1
    · show SimP p (ixP p ix) (if (declOf p hd.rel).lat then Engine.headLat I {} a hd.rel (hd.args.map fun e => I.expr e ρ')
        else Engine.headRel a hd.rel (hd.args.map fun e => I.expr e ρ')) _
      rw [hl']; exact h2
  | false =>
    have hl' : (declOf p hd.rel).lat = false := hl
    obtain ⟨pc', h1, h2, h3, h4⟩ := headRelPar_simP (ix := ix) hN h.sim hinv.wf hlt h.wf h.pfl tid hd.rel
      (hd.args.map fun e => I.expr e ρ') hl hrowlen
    refine ⟨{ s with pc := pc' }, ?_, ⟨?_, h3, h4, ⟨h.lfl.dyn, h.lfl.rels⟩⟩, hnc', hinv'⟩
    · show (if isLatRel p hd.rel then _ else
        (headRelPar s.pc tid hd.rel (hd.args.map fun e => I.expr e ρ)).map fun pc => ({ s with pc := pc } : PLScc)) = _
      rw [hl, heq]
      simp only [Bool.false_eq_true, if_false, h1]
      rfl
    · show SimP p (ixP p ix) (if (declOf p hd.rel).lat then Engine.headLat I {} a hd.rel (hd.args.map fun e => I.expr e ρ')
        else Engine.headRel a hd.rel (hd.args.map fun e => I.expr e ρ')) _
      rw [hl']; exact h2

include hff hN hlt har in
theorem heads_simP (heads : List (HeadClause E)) (ρ ρ' : Env) (tid : Nat)
    (hh : ∀ h ∈ heads, h.args.length = arityOf p h.rel) (hdy : ∀ h ∈ heads, dynR.contains h.rel = true)
    (heq : ∀ h ∈ heads, (h.args.map fun e => I.expr e ρ) = h.args.map fun e => I.expr e ρ')
    (hbf : ∀ h ∈ heads, BelowF I L p inp (headFact I h ρ'))
    {a : SccSt} {s : PLScc} (h : PIS p ix N bo true a s) (hnc : NewCh a) (hinv : LInv I L p inp dynR a) :
    ∃ s', foldRes (fun (st : PLScc) (hd : HeadClause E) => headUpdatePar I p st tid hd ρ) heads s = .ok s' ∧
      PIS p ix N bo true (heads.foldl (fun s h => Engine.headUpdate I {} p s h ρ') a) s' ∧
      NewCh (heads.foldl (fun s h => Engine.headUpdate I {} p s h ρ') a) := by
  obtain ⟨s', hfold, h1, h2, _⟩ := foldRes_inv
    (fun (st : PLScc) (hd : HeadClause E) => headUpdatePar I p st tid hd ρ)
    (fun done st => PIS p ix N bo true (done.foldl (fun s h => Engine.headUpdate I {} p s h ρ') a) st ∧
      NewCh (done.foldl (fun s h => Engine.headUpdate I {} p s h ρ') a) ∧
      LInv I L p inp dynR (done.foldl (fun s h => Engine.headUpdate I {} p s h ρ') a))
    heads (by
      rintro done st hd hhd ⟨g1, g2, g3⟩
      obtain ⟨st', e1, e2, e3, e4⟩ := headUpdatePar_sim I L hff p ix inp dynR N hN bo hlt har g1 g2 g3 hd ρ ρ' tid
        (hh hd hhd) (hdy hd hhd) (heq hd hhd) (hbf hd hhd)
      refine ⟨st', e1, ?_⟩
      rw [List.foldl_append]
      exact ⟨e2, e3, e4⟩)
    s ⟨h, hnc, hinv⟩
  exact ⟨s', hfold, h1, h2⟩

/-- the invariant of the head updates of a pass: a trace from `a₀` whose newest state simulates the parallel state -/
structure PIT (a₀ : SccSt) (t : List (EntryL E B G P A) × SccSt) (s : PLScc) : Prop where
  tr : TrAt I p dynR rules t.1 t.2
  last : t.1.getLast?.map (·.st) = some a₀
  st : PIS p ix N bo true t.2 s
  nc : NewCh t.2

include hrules hdyn in
theorem PIT.invs {a₀ : SccSt} (hinv0 : LInv I L p inp dynR a₀) {t : List (EntryL E B G P A) × SccSt} {s : PLScc}
    (h : PIT I p ix dynR rules N bo a₀ t s) : ∀ x ∈ t.1.map (·.st), LInv I L p inp dynR x := by
  obtain ⟨hall, _⟩ := trace_inv (L := L) (inp := inp) rules hrules hdyn h.tr.1 a₀ h.last hinv0
  intro x hx
  obtain ⟨e, he, rfl⟩ := List.mem_map.mp hx
  exact hall e he

include hff hN hlt har hrules hdyn hR in
/-- one task of a phase = one micro-step -/
theorem task_simP {a₀ : SccSt} (hinv0 : LInv I L p inp dynR a₀) (rule : Rule E B G P A) (hrule : rule ∈ rules)
    (vs : List (Option Ver)) (hvs : vs ∈ variants dynR rule) (sr : SccSt) (ρ ρ' : Env) (tid : Nat)
    (hsat : SatV I (Engine.viewOf {} p sr) rule.body vs [] ρ')
    (heq : Plan.headRows I rule.heads ρ = Plan.headRows I rule.heads ρ')
    (s : PLScc) (t : List (EntryL E B G P A) × SccSt) (h : PIT I p ix dynR rules N bo a₀ t s) (hsr : sr ∈ t.1.map (·.st)) :
    ∃ s', foldRes (fun (st : PLScc) (hd : HeadClause E) => headUpdatePar I p st tid hd ρ) rule.heads s = .ok s' ∧
      ∃ t' : List (EntryL E B G P A) × SccSt, PIT I p ix dynR rules N bo a₀ t' s' ∧ sr ∈ t'.1.map (·.st) ∧
        t.1 <:+ t'.1 ∧ PExt t.2 t'.2 ∧
        ∃ e ∈ t'.1, ∃ ρ'', e.src = some (rule, ρ'') ∧ Plan.headRows I rule.heads ρ'' = Plan.headRows I rule.heads ρ := by
  have hinvs := h.invs I L p ix inp dynR rules N bo hrules hdyn hinv0
  have hinv : LInv I L p inp dynR t.2 := hinvs _ h.tr.mem
  have hinvr : LInv I L p inp dynR sr := hinvs _ hsr
  have hbf := belowF_of_view rule (hrules rule hrule) vs sr hinvr ρ' hsat
  have hstep := h.tr.step rule hrule vs hvs sr hsr ρ' hsat
  obtain ⟨s', hfold, g1, g2⟩ := heads_simP I L hff p ix inp dynR N hN bo hlt har rule.heads ρ ρ' tid (hR rule hrule).heads
    (hdyn rule hrule) (PhysLat.headRows_eq I heq) hbf h.st h.nc hinv
  refine ⟨s', hfold, (_, _), ⟨hstep, ?_, g1, g2⟩, ?_, List.suffix_cons _ _, PExt_heads I p ρ' rule.heads t.2,
    _, List.mem_cons_self, ρ', rfl, heq.symm⟩
  · have hl := h.last
    obtain ⟨t1, t2⟩ := t
    cases t1 with
    | nil => simp at hl
    | cons e0 hist => simpa [List.getLast?_cons_cons] using hl
  · simp only [List.map_cons, List.mem_cons]
    exact .inr hsr

theorem applyTasks_eq (k : Nat) (order : List (Rule E B G P A × Env)) (s : PLScc) :
    applyTasks I p σ k order s =
      (foldRes (fun (acc : PLScc × Nat) (t : Rule E B G P A × Env) =>
        foldRes (fun (st : PLScc) (h : HeadClause E) => headUpdatePar I p st (σ.tid (k * 1000003 + acc.2)) h t.2) t.1.heads acc.1
          >>= fun s' => pure (s', acc.2 + 1)) order (s, 0)).map (·.1) := rfl

include hff hN hlt har hrules hdyn hR in
/-- the head updates of a phase, every task read from `sr` -/
theorem applyTasks_simP {a₀ : SccSt} (hinv0 : LInv I L p inp dynR a₀) (sr : SccSt) (k : Nat)
    (order : List (Rule E B G P A × Env))
    (hord : ∀ tk ∈ order, tk.1 ∈ rules ∧ ∃ vs ∈ variants dynR tk.1, ∃ ρ', SatV I (Engine.viewOf {} p sr) tk.1.body vs [] ρ' ∧
      Plan.headRows I tk.1.heads tk.2 = Plan.headRows I tk.1.heads ρ')
    (s : PLScc) (t : List (EntryL E B G P A) × SccSt) (h : PIT I p ix dynR rules N bo a₀ t s) (hsr : sr ∈ t.1.map (·.st)) :
    ∃ s', applyTasks I p σ k order s = .ok s' ∧
      ∃ t' : List (EntryL E B G P A) × SccSt, PIT I p ix dynR rules N bo a₀ t' s' ∧ t.1 <:+ t'.1 ∧ PExt t.2 t'.2 ∧
        ∀ tk ∈ order, ∃ e ∈ t'.1, ∃ ρ'', e.src = some (tk.1, ρ'') ∧
          Plan.headRows I tk.1.heads ρ'' = Plan.headRows I tk.1.heads tk.2 := by
  obtain ⟨acc, hfold, t', g1, g2, g3, g4, g5⟩ := foldRes_inv
    (fun (acc : PLScc × Nat) (tk : Rule E B G P A × Env) =>
      foldRes (fun (st : PLScc) (h : HeadClause E) => headUpdatePar I p st (σ.tid (k * 1000003 + acc.2)) h tk.2) tk.1.heads acc.1
        >>= fun s' => pure (s', acc.2 + 1))
    (fun done (acc : PLScc × Nat) => ∃ t' : List (EntryL E B G P A) × SccSt, PIT I p ix dynR rules N bo a₀ t' acc.1 ∧
      sr ∈ t'.1.map (·.st) ∧ t.1 <:+ t'.1 ∧ PExt t.2 t'.2 ∧
      ∀ tk ∈ done, ∃ e ∈ t'.1, ∃ ρ'', e.src = some (tk.1, ρ'') ∧
        Plan.headRows I tk.1.heads ρ'' = Plan.headRows I tk.1.heads tk.2)
    order (by
      rintro done acc tk htk ⟨t1, e1, e2, e3, e4, e5⟩
      obtain ⟨hrule, vs, hvs, ρ', hsat, heq⟩ := hord tk htk
      obtain ⟨s', hf, t2, f1, f2, f3, f4, f5⟩ := task_simP I L V hff p ix inp dynR rules N hN bo hlt har hrules hdyn hR hinv0
        tk.1 hrule vs hvs sr tk.2 ρ' (σ.tid (k * 1000003 + acc.2)) hsat heq acc.1 t1 e1 e2
      refine ⟨(s', acc.2 + 1), by rw [hf]; rfl, t2, f1, f2, e3.trans f3, e4.trans f4, ?_⟩
      intro tk' htk'
      rcases List.mem_append.mp htk' with htk' | htk'
      · obtain ⟨e, he, ρ'', hsrc, hh⟩ := e5 tk' htk'
        exact ⟨e, f3.subset he, ρ'', hsrc, hh⟩
      · simp only [List.mem_singleton] at htk'
        subst htk'
        exact f5)
    (s, 0) ⟨t, h, hsr, List.suffix_refl _, PExt.refl _, fun tk htk => (by cases htk)⟩
  exact ⟨acc.1, by rw [applyTasks_eq, hfold]; rfl, t', g1, g3, g4, g5⟩

include hI hS hff hN hlt har hrules hdyn hR hbo in
/-- **one phase**: the bodies of its MIR rules on the state at phase start, then the head updates in schedule order -/
theorem phase_simP {a₀ : SccSt} (hinv0 : LInv I L p inp dynR a₀) (ph : List (Rule E B G P A × List (Option Ver)))
    (hph : ∀ rv ∈ ph, rv.1 ∈ rules ∧ rv.2 ∈ variants dynR rv.1) (k n : Nat)
    (s : PLScc) (t : List (EntryL E B G P A) × SccSt) (h : PIT I p ix dynR rules N bo a₀ t s) :
    ∃ tasks s', phaseTasks I V p σ n ph s = .ok tasks ∧ applyTasks I p σ k (σ.permTasks k tasks) s = .ok s' ∧
      ∃ t' : List (EntryL E B G P A) × SccSt, PIT I p ix dynR rules N bo a₀ t' s' ∧ t.1 <:+ t'.1 ∧ PExt t.2 t'.2 ∧
        ∀ rv ∈ ph, DoneL (I := I) rv.1 rv.2 t' := by
  have hinvs := h.invs I L p ix inp dynR rules N bo hrules hdyn hinv0
  have hinv : LInv I L p inp dynR t.2 := hinvs _ h.tr.mem
  have hV := sim_viewsOkP p (ixP p ix) h.st.sim hinv.wf har
  have hnd : ∀ r, findXDyn (s.erase p).dyn r = none → dynR.contains r = false := by
    intro r hx
    rw [← hinv.wf.dyn_iff]
    cases hd : findDyn t.2.dyn r with
    | none => rfl
    | some d =>
      obtain ⟨pd, h1, _⟩ := h.st.sim.dynS r d hd
      rw [hx] at h1; cases h1
  have hfz : ∀ rv ∈ ph, ∀ c ∈ clausesOf 0 rv.1.body rv.2,
      viewFrozen p s c.2.1 c.2.2 (Plan.colsAt (Hir.compileRule V rv.1) c.1) = true := by
    intro rv hrv c hc
    have hcr : c.2.1 ∈ rv.1.bodyRels := clausesOf_rel rv.1.body 0 rv.2 c hc
    apply viewFrozenP_ok h.st.pfl h.st.lfl h.st.wf
    · intro hl hn
      apply hbo rv.1 (hph rv hrv).1 c.2.1 hcr
      apply hnd
      rw [findXDyn_erase_plain p s h.st.wf.ldyn _ hl, hn]; rfl
    · intro hl hn
      refine (hbo rv.1 (hph rv hrv).1 c.2.1 hcr ?_).1
      apply hnd
      rw [findXDyn_erase_lat p s h.st.wf.pdyn _ hl, hn]; rfl
  obtain ⟨tasks, htasks, hA, hB⟩ := phaseTasks_ok I hI V hS p (ixP p ix) σ n t.2 s h.st.wf hV ph
    (fun rv hrv => hR rv.1 (hph rv hrv).1) hfz
  have hperm := σ.permTasks_perm k tasks
  obtain ⟨s', happ, t', g1, g2, g3, g4⟩ := applyTasks_simP I L V hff p ix inp dynR rules N hN bo σ hlt har hrules hdyn hR
    hinv0 t.2 k (σ.permTasks k tasks) (by
      intro tk htk
      obtain ⟨vs, hvs, ρ', hρ', heq⟩ := hA tk (hperm.mem_iff.mp htk)
      obtain ⟨hr1, hr2⟩ := hph _ hvs
      exact ⟨hr1, vs, hr2, ρ', SatV_of_evalBody I {} p t.2 tk.1.body vs [] ρ' (hR tk.1 hr1).aggFree hρ', heq⟩)
    s t h h.tr.mem
  refine ⟨tasks, s', htasks, happ, t', g1, g2, g3, ?_⟩
  intro rv hrv ρ hρ
  have hρ' : SatV I (Engine.viewOf {} p t.2) rv.1.body rv.2 [] ρ :=
    SatV.mono (fun r v t hv => PView_sub_view {} p (PView_anti' g3 hv)) hρ
  obtain ⟨tk, htk, e1, e2⟩ := hB rv hrv ρ (evalBody_of_SatV I {} p t.2 hρ')
  obtain ⟨e, he, ρ'', hsrc, heq⟩ := g4 tk (hperm.mem_iff.mpr htk)
  rw [e1] at hsrc heq
  refine ⟨e, he, ρ'', hsrc, ?_⟩
  intro hd hhd
  have := PhysLat.headRows_eq I (heq.trans e2) hd hhd
  simp only [headFact, this]

theorem iteration_eq (interRule : Bool) (k : Nat) (dyn : List RelId) (rls : List (Rule E B G P A)) (s : PLScc) :
    iteration I V p σ interRule k dyn rls s =
      (foldRes (fun (acc : PLScc × Nat) (ph : List (Rule E B G P A × List (Option Ver))) =>
          phaseTasks I V p σ (acc.2 * 1000003) ph acc.1 >>= fun tasks =>
          applyTasks I p σ acc.2 (σ.permTasks acc.2 tasks) acc.1 >>= fun s' => pure (s', acc.2 + 1))
        (if interRule then [rls.flatMap fun r => (variants dyn r).map fun vs => (r, vs)]
          else (rls.flatMap fun r => (variants dyn r).map fun vs => (r, vs)).map fun rv => [rv])
        (freezeAll s, k) >>= fun s1 => pure (unfreezeAll s1.1, s1.2)) := rfl

include hI hS hff hN hlt har hrules hdyn hR hbo in
/-- **one iteration** never panics and is a pass of the nondeterministic lattice engine, in both rule-scheduling modes -/
theorem iteration_simP (interRule : Bool) (k : Nat) {a : SccSt} {s : PLScc} (h : PIS p ix N bo false a s)
    (hinv : LInv I L p inp dynR { a with changed := false }) (hne : NewEmpty a) :
    ∃ s1 k', iteration I V p σ interRule k dynR rules s = .ok (s1, k') ∧
      ∃ a1, PassNDL I p dynR rules a a1 ∧ PIS p ix N bo false a1 s1 := by
  have h0 : PIT I p ix dynR rules N bo { a with changed := false }
      ([{ st := { a with changed := false }, src := none }], { a with changed := false }) (freezeAll s) := by
    refine ⟨⟨TraceL.start _, rfl⟩, rfl, ⟨?_, PLWf_freezeAll h.wf, Flags_freezeAll h.pfl, LFlags_freezeAll h.lfl⟩, ?_⟩
    · rw [erase_freezeAll]
      exact reset_simP h.sim rfl rfl rfl
    · intro _ r d hd
      exact hne r d hd
  obtain ⟨acc, hfold, t', g1, g2, g3⟩ := foldRes_inv
    (fun (acc : PLScc × Nat) (ph : List (Rule E B G P A × List (Option Ver))) =>
      phaseTasks I V p σ (acc.2 * 1000003) ph acc.1 >>= fun tasks =>
      applyTasks I p σ acc.2 (σ.permTasks acc.2 tasks) acc.1 >>= fun s' => pure (s', acc.2 + 1))
    (fun done (acc : PLScc × Nat) => ∃ t' : List (EntryL E B G P A) × SccSt,
      PIT I p ix dynR rules N bo { a with changed := false } t' acc.1 ∧
      ([{ st := { a with changed := false }, src := none }] : List (EntryL E B G P A)) <:+ t'.1 ∧
      ∀ ph ∈ done, ∀ rv ∈ ph, DoneL (I := I) rv.1 rv.2 t')
    (if interRule then [rules.flatMap fun r => (variants dynR r).map fun vs => (r, vs)]
      else (rules.flatMap fun r => (variants dynR r).map fun vs => (r, vs)).map fun rv => [rv]) (by
      rintro done acc ph hph ⟨t1, e1, e2, e3⟩
      have hphm : ∀ rv ∈ ph, rv.1 ∈ rules ∧ rv.2 ∈ variants dynR rv.1 := by
        intro rv hrv
        have hall : rv ∈ rules.flatMap fun r => (variants dynR r).map fun vs => (r, vs) := by
          cases interRule with
          | true =>
            simp only [if_true, List.mem_singleton] at hph
            subst hph; exact hrv
          | false =>
            simp only [Bool.false_eq_true, if_false, List.mem_map] at hph
            obtain ⟨rv', hrv', rfl⟩ := hph
            simp only [List.mem_singleton] at hrv
            subst hrv; exact hrv'
        obtain ⟨r, hr, hrv'⟩ := List.mem_flatMap.mp hall
        obtain ⟨vs, hvs, rfl⟩ := List.mem_map.mp hrv'
        exact ⟨hr, hvs⟩
      obtain ⟨tasks, s', f1, f2, t2, f3, f4, f5, f6⟩ := phase_simP I L hI V hS hff p ix inp dynR rules N hN bo σ hlt har hrules
        hdyn hR hbo hinv ph hphm acc.2 (acc.2 * 1000003) acc.1 t1 e1
      refine ⟨(s', acc.2 + 1), by rw [f1, bind_ok, f2]; rfl, t2, f3, e2.trans f4, ?_⟩
      intro ph' hph' rv hrv
      rcases List.mem_append.mp hph' with hph' | hph'
      · exact (e3 ph' hph' rv hrv).mono I f4 f5
      · simp only [List.mem_singleton] at hph'
        subst hph'
        exact f6 rv hrv)
    (freezeAll s, k) ⟨_, h0, List.suffix_refl _, fun ph hph => (by cases hph)⟩
  refine ⟨unfreezeAll acc.1, acc.2, by rw [iteration_eq, hfold]; rfl, t'.2, ⟨t'.1, g1.tr.1, g1.tr.2, g1.last, ?_⟩,
    ⟨by rw [erase_unfreezeAll]; exact g1.st.sim, PLWf_unfreezeAll g1.st.wf, Flags_unfreezeAll g1.st.pfl,
      LFlags_unfreezeAll g1.st.lfl⟩⟩
  intro rule hrule vs hvs ρ hρ
  have hall : (rule, vs) ∈ rules.flatMap fun r => (variants dynR r).map fun vs => (r, vs) :=
    List.mem_flatMap.mpr ⟨rule, hrule, List.mem_map.mpr ⟨vs, hvs, rfl⟩⟩
  cases interRule with
  | true => exact g3 _ (by simp) (rule, vs) hall ρ hρ
  | false =>
    exact g3 [(rule, vs)] (by
      simp only [Bool.false_eq_true, if_false, List.mem_map]
      exact ⟨(rule, vs), hall, rfl⟩) (rule, vs) (by simp) ρ hρ

end Pass

end AscentVerif.PhysParLat
