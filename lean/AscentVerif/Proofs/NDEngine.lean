import AscentVerif.Proofs.ParStrata
import AscentVerif.Props.C02
/-!
# The nondeterministic engine: any enumeration of an iteration's head rows

`EngineSched` fixes the head updates of an iteration to a *permutation* of the task list.  Real executions of the generated
code are looser than that: the environments reach the head update in hash-map order, through the index chosen by the
plan, possibly through the swapped copy of a simple join, with a row found once per stored duplicate — the list of derived
head rows of an iteration is only *set-equal* to the one the filter semantics produces.  This file gives the engine in
that generality, as a relation: one pass applies `headRel` to ANY list of `(relation, row)` pairs that has exactly the
members of `iterRows` (the head rows of every variant instance over the state at pass start), in any order and with any
multiplicity.  `runND_eq_leastModel`: every such execution computes the least model.  Used by `Props/C01Phys.lean` (the
engine over the physical indices is one such execution).
-/
namespace AscentVerif.Engine
open AscentVerif

variable {E B G P A : Type}

/-- the tuples the head clauses are instantiated to -/
def headRows (I : Interp E B G P A) (heads : List (HeadClause E)) (ρ : Env) : List (RelId × Tuple) :=
  heads.map fun h => (h.rel, h.args.map fun e => I.expr e ρ)

/-- every head row of every variant instance of this iteration, computed with total/delta frozen -/
def iterRows (I : Interp E B G P A) (cfg : Config) (p : Program E B G P A) (dyn : List RelId)
    (rules : List (Rule E B G P A)) (s : SccSt) : List (RelId × Tuple) :=
  (iterTasks I cfg p dyn rules s).flatMap fun t => headRows I t.1.heads t.2

def applyRows (s : SccSt) (l : List (RelId × Tuple)) : SccSt := l.foldl (fun s x => headRel s x.1 x.2) s

/-- one pass: the head updates of any list of rows with exactly the members of `iterRows` -/
def PassND (I : Interp E B G P A) (cfg : Config) (p : Program E B G P A) (dyn : List RelId)
    (rules : List (Rule E B G P A)) (s s1 : SccSt) : Prop :=
  ∃ l : List (RelId × Tuple), (∀ x, x ∈ l ↔ x ∈ iterRows I cfg p dyn rules { s with changed := false }) ∧
    s1 = applyRows { s with changed := false } l

/-- the loop of a looping SCC; the `Nat` counts the iterations (`scc_iters`) -/
inductive LoopND (I : Interp E B G P A) (cfg : Config) (p : Program E B G P A) (dyn : List RelId)
    (rules : List (Rule E B G P A)) : SccSt → SccSt → Nat → Prop where
  | exit {s s1 : SccSt} : PassND I cfg p dyn rules s s1 → s1.changed = false → LoopND I cfg p dyn rules s (shift s1) 1
  | more {s s1 s' : SccSt} {n : Nat} : PassND I cfg p dyn rules s s1 → s1.changed = true →
      LoopND I cfg p dyn rules (shift s1) s' n → LoopND I cfg p dyn rules s s' (n + 1)

def SccND (I : Interp E B G P A) (cfg : Config) (p : Program E B G P A) (scc : List Nat) (st st' : St) : Prop :=
  if isLooping p scc then
    ∃ s' n, LoopND I cfg p (dynRels p scc) (sccRules p scc) (enterScc st (dynRels p scc)) s' n ∧ st' = leaveScc s'
  else
    ∃ s1, PassND I cfg p (dynRels p scc) (sccRules p scc) (enterScc st (dynRels p scc)) s1 ∧ st' = leaveScc (shift (shift s1))

inductive SccsND (I : Interp E B G P A) (cfg : Config) (p : Program E B G P A) : SccOrder → St → St → Prop where
  | nil {st : St} : SccsND I cfg p [] st st
  | cons {scc : List Nat} {rest : SccOrder} {st st1 st2 : St} : SccND I cfg p scc st st1 → SccsND I cfg p rest st1 st2 →
      SccsND I cfg p (scc :: rest) st st2

/-- `run()`: `update_indices`, then the SCCs in order, every pass enumerated in any way -/
def RunND (I : Interp E B G P A) (cfg : Config) (p : Program E B G P A) (order : SccOrder) (s s' : St) : Prop :=
  SccsND I cfg p order (updateIndices s) s'

/-! ## one pass (mirrors `Proofs/ParPass.lean`) -/

theorem mem_headRows (I : Interp E B G P A) (heads : List (HeadClause E)) (ρ : Env) (x : RelId × Tuple) :
    x ∈ headRows I heads ρ ↔ ∃ h ∈ heads, x = (h.rel, h.args.map fun e => I.expr e ρ) := by
  simp only [headRows, List.mem_map]
  constructor
  · rintro ⟨h, hh, rfl⟩; exact ⟨h, hh, rfl⟩
  · rintro ⟨h, hh, rfl⟩; exact ⟨h, hh, rfl⟩

theorem mem_iterRows (I : Interp E B G P A) (cfg : Config) (p : Program E B G P A) (dynR : List RelId)
    (rules : List (Rule E B G P A)) (s : SccSt) (x : RelId × Tuple) :
    x ∈ iterRows I cfg p dynR rules s ↔
      ∃ t ∈ iterTasks I cfg p dynR rules s, ∃ h ∈ t.1.heads, x = (h.rel, h.args.map fun e => I.expr e t.2) := by
  simp only [iterRows, List.mem_flatMap, mem_headRows]

section NDPass
variable (I : Interp E B G P A) (cfg : Config) (p : Program E B G P A) (inp : RelId → List Tuple)
  (n : Nat) (dynR : List RelId) (hlt : ∀ r, dynR.contains r = true → r < n)
  (hl : ∀ d ∈ p.rels, d.lat = false)

include hlt hl in
/-- folding `headRel` over ANY list of head rows of variant instances over the state `s₀` at pass start -/
theorem rows_step {s₀ : SccSt} (hwf0 : WF n dynR s₀) (hgood0 : Good I p inp n s₀)
    (rules : List (Rule E B G P A))
    (hrules : ∀ rule ∈ rules, rule ∈ p.rules) (haf : ∀ rule ∈ rules, rule.aggFree = true)
    (hdyn : ∀ rule ∈ rules, ∀ h ∈ rule.heads, dynR.contains h.rel = true)
    (l : List (RelId × Tuple)) (hl' : ∀ x ∈ l, x ∈ iterRows I cfg p dynR rules s₀)
    (s : SccSt) (hpost : Post I p inp n dynR s₀ s) :
    Post I p inp n dynR s₀ (applyRows s l) ∧ Le s (applyRows s l) ∧
      ∀ x ∈ l, FactsS (applyRows s l) ⟨x.1, x.2⟩ := by
  refine foldl_track (fun s (x : RelId × Tuple) => headRel s x.1 x.2)
    (Post I p inp n dynR s₀) Le (fun x s => FactsS s ⟨x.1, x.2⟩) Le.refl (fun _ _ _ => Le.trans)
    (fun x s s' hd hle => hle _ _ hd) l ?_ s hpost
  intro s x hx hs
  obtain ⟨t, ht, h, hh, rfl⟩ := (mem_iterRows I cfg p dynR rules s₀ x).mp (hl' x hx)
  obtain ⟨hr, vs, _, hρ⟩ := (mem_iterTasks I cfg p dynR rules s₀ t).mp ht
  have hder : Derivable I p.rules nAgg (inDB p inp) (headFact I h t.2) := by
    have hsv := SatV_of_evalBody I cfg p s₀ t.1.body vs [] t.2 (haf t.1 hr) hρ
    have hsat : Sat I (Derivable I p.rules nAgg (inDB p inp)) nAgg t.1.body [] t.2 := by
      refine SatV.toSat ?_ hsv
      intro r v x hv
      have hmem := view_sub_rows cfg p hl hwf0 hv
      have hrn : r < n := by
        have := lt_of_mem_rows s₀.rels r x hmem
        rw [hwf0.len] at this; exact this
      exact (hgood0 r hrn).1 x hmem
    exact derivable_cons ⟨t.1, hrules t.1 hr, t.2, hsat, h, hh, rfl⟩
  obtain ⟨h1, h2, h3⟩ := headRel_step I p inp n dynR hlt hs h.rel (h.args.map fun e => I.expr e t.2) hder
  exact ⟨h1, h2, h3 (hdyn t.1 hr h hh)⟩

include hlt hl in
/-- **one pass, any enumeration**: the invariants are kept and every variant instance over the
view at the start of the pass has all its head facts stored afterwards -/
theorem passND_spec {s₀ : SccSt} (hwf0 : WF n dynR s₀) (hgood0 : Good I p inp n s₀)
    (rules : List (Rule E B G P A))
    (hrules : ∀ rule ∈ rules, rule ∈ p.rules) (haf : ∀ rule ∈ rules, rule.aggFree = true)
    (hdyn : ∀ rule ∈ rules, ∀ h ∈ rule.heads, dynR.contains h.rel = true)
    (l : List (RelId × Tuple)) (hmem : ∀ x, x ∈ l ↔ x ∈ iterRows I cfg p dynR rules s₀) :
    Post I p inp n dynR s₀ (applyRows s₀ l) ∧ Le s₀ (applyRows s₀ l) ∧
      ∀ rule ∈ rules, ∀ vs ∈ variants dynR rule, ∀ ρ, SatV I (viewOf cfg p s₀) rule.body vs [] ρ →
        ∀ h ∈ rule.heads, FactsS (applyRows s₀ l) (headFact I h ρ) := by
  obtain ⟨h1, h2, h3⟩ := rows_step I cfg p inp n dynR hlt hl hwf0 hgood0 rules hrules haf hdyn
    l (fun x hx => (hmem x).mp hx) s₀ ⟨hwf0, Ext.refl _, hgood0⟩
  refine ⟨h1, h2, ?_⟩
  intro rule hr vs hvs ρ hρ h hh
  have hx : (h.rel, h.args.map fun e => I.expr e ρ) ∈ l :=
    (hmem _).mpr ((mem_iterRows I cfg p dynR rules s₀ _).mpr
      ⟨(rule, ρ), (mem_iterTasks I cfg p dynR rules s₀ (rule, ρ)).mpr ⟨hr, vs, hvs, evalBody_of_SatV I cfg p s₀ hρ⟩,
        h, hh, rfl⟩)
  exact h3 _ hx

include hlt hl in
/-- **one iteration** (a pass from the state with `changed = false`, then `shift`) -/
theorem iter_step_nd (rules : List (Rule E B G P A))
    (hrules : ∀ rule ∈ rules, rule ∈ p.rules) (haf : ∀ rule ∈ rules, rule.aggFree = true)
    (hdyn : ∀ rule ∈ rules, ∀ h ∈ rule.heads, dynR.contains h.rel = true)
    (s s1 : SccSt) (hinv : LoopInv I cfg p inp n dynR rules (hasDyn dynR) s)
    (hpass : PassND I cfg p dynR rules s s1) :
    LoopInv I cfg p inp n dynR rules (fun _ => True) (shift s1) ∧ Ext { s with changed := false } s1 := by
  obtain ⟨l, hmem, rfl⟩ := hpass
  have hwf0 : WF n dynR { s with changed := false } := WF_reset n dynR hinv.wf
  obtain ⟨hpost, hle, hproc⟩ := passND_spec I cfg p inp n dynR hlt hl hwf0 hinv.good rules hrules haf hdyn l hmem
  refine ⟨⟨WF_shift hpost.wf, hpost.good, ?_, ?_⟩, hpost.ext⟩
  · intro r d' hd'
    rw [findDyn_shift] at hd'
    cases hd : findDyn (applyRows { s with changed := false } l).dyn r with
    | none => rw [hd] at hd'; cases hd'
    | some d => rw [hd] at hd'; cases hd'; rfl
  · intro rule hr _ ρ hsat h hh
    have hsat' : Sat I (Dall cfg p { s with changed := false }) nAgg rule.body [] ρ :=
      Sat.mono (fun f hf => Dtot_shift_sub cfg p n dynR hl hwf0 hpost.ext f hf) hsat
    show FactsS (applyRows { s with changed := false } l) (headFact I h ρ)
    rcases seminaive_cover I (viewOf cfg p { s with changed := false }) dynR
        (fun r hr v v' t hv => view_nd cfg p hl hwf0 hr v v' t hv)
        (fun r t hv => view_split cfg p hl hwf0 r t hv) rule (haf rule hr) hsat' with ⟨hn, htot⟩ | ⟨vs, hvs, hsv⟩
    · exact hle _ _ (hinv.front rule hr hn ρ htot h hh)
    · exact hproc rule hr vs hvs ρ hsv h hh

include hlt hl in
/-- the loop of a looping SCC, any enumeration in every pass -/
theorem loopND_spec (rules : List (Rule E B G P A))
    (hrules : ∀ rule ∈ rules, rule ∈ p.rules) (haf : ∀ rule ∈ rules, rule.aggFree = true)
    (hdyn : ∀ rule ∈ rules, ∀ h ∈ rule.heads, dynR.contains h.rel = true)
    (st : St) (s s' : SccSt) (k : Nat) (hloop : LoopND I cfg p dynR rules s s' k) :
    LoopInv I cfg p inp n dynR rules (hasDyn dynR) s → Base dynR st s →
      LoopInv I cfg p inp n dynR rules (fun _ => True) s' ∧ Settled s' ∧ Base dynR st s' := by
  induction hloop with
  | @exit s s1 hpass hch =>
    intro hinv hb
    obtain ⟨hinv', hext⟩ := iter_step_nd I cfg p inp n dynR hlt hl rules hrules haf hdyn s s1 hinv hpass
    have hb' := Base_step n dynR hinv.wf hb hext
    refine ⟨hinv', ?_, hb'⟩
    have heq := hext.unchanged hch
    intro r d' hd'
    rw [findDyn_shift, heq] at hd'
    cases hd : findDyn s.dyn r with
    | none =>
      have : findDyn ({ s with changed := false } : SccSt).dyn r = none := hd
      rw [this] at hd'; cases hd'
    | some d =>
      have : findDyn ({ s with changed := false } : SccSt).dyn r = some d := hd
      rw [this] at hd'; cases hd'
      exact ⟨hinv.newE r d hd, rfl⟩
  | @more s s1 s' k hpass _ _ ih =>
    intro hinv hb
    obtain ⟨hinv', hext⟩ := iter_step_nd I cfg p inp n dynR hlt hl rules hrules haf hdyn s s1 hinv hpass
    have hb' := Base_step n dynR hinv.wf hb hext
    exact ih (hinv'.weaken I cfg p inp n dynR fun _ _ => trivial) hb'

end NDPass

/-! ## one SCC and the strata (mirrors `Proofs/ParScc.lean`, `Proofs/ParStrata.lean`) -/

section NDScc
variable (I : Interp E B G P A) (cfg : Config) (p : Program E B G P A) (inp : RelId → List Tuple)
  (hl : ∀ d ∈ p.rels, d.lat = false) (haf : ∀ r ∈ p.rules, r.aggFree = true)
  (hh : ∀ r ∈ p.rules, ∀ h ∈ r.heads, h.rel < p.rels.length)

include hl haf hh in
theorem sccND_spec (scc : List Nat) (st st' : St)
    (hp : PInv I p inp p.rels.length st) (h : SccND I cfg p scc st st') :
    PInv I p inp p.rels.length st' ∧
      (∀ r, (dynRels p scc).contains r = false → relSt st' r = relSt st r) ∧
      (∀ r t, t ∈ (relSt st r).rows → t ∈ (relSt st' r).rows) ∧
      ClosedRules I (sccRules p scc) (factsOf st') := by
  have hrules := sccRules_sub p scc
  have hafs : ∀ rule ∈ sccRules p scc, rule.aggFree = true := fun r hr => haf r (hrules r hr)
  have hdyn : ∀ rule ∈ sccRules p scc, ∀ h ∈ rule.heads, (dynRels p scc).contains h.rel = true :=
    fun rule hr h hhd => (dynRels_mem p scc h.rel).mpr ⟨rule, hr, h, hhd, rfl⟩
  have hlt : ∀ r, (dynRels p scc).contains r = true → r < p.rels.length := by
    intro r hr
    obtain ⟨rule, hrule, h, hhd, rfl⟩ := (dynRels_mem p scc r).mp hr
    exact hh rule (hrules rule hrule) h hhd
  have hinv0 := LoopInv_enter I cfg p inp p.rels.length (dynRels p scc) hl hp (sccRules p scc)
  have hb0 := Base_enter (dynRels p scc) st
  unfold SccND at h
  split at h
  · -- looping
    obtain ⟨s', k, hloop, rfl⟩ := h
    obtain ⟨hinv, hset, hb⟩ := loopND_spec I cfg p inp p.rels.length (dynRels p scc) hlt hl (sccRules p scc)
      hrules hafs hdyn st _ s' k hloop hinv0 hb0
    apply leave_full I p inp p.rels.length (dynRels p scc) hlt (sccRules p scc) hinv.wf hinv.good hset hb
    intro rule hr ρ hsat hd hhd
    refine hinv.front rule hr trivial ρ (Sat.mono ?_ hsat) hd hhd
    exact fun f hf => facts_sub_Dtot cfg p p.rels.length (dynRels p scc) hl hinv.wf hset f hf
  · -- not looping
    rename_i hnl
    have hnl' : isLooping p scc = false := by simpa using hnl
    obtain ⟨s1, hpass, rfl⟩ := h
    obtain ⟨hinv, hext⟩ := iter_step_nd I cfg p inp p.rels.length (dynRels p scc) hlt hl (sccRules p scc)
      hrules hafs hdyn _ s1 hinv0 hpass
    have hb := Base_step p.rels.length (dynRels p scc) hinv0.wf hb0 hext
    have hwf2 := WF_shift hinv.wf
    have hset : Settled (shift (shift s1)) := by
      intro r d'' hd''
      rw [findDyn_shift] at hd''
      cases hd : findDyn (shift s1).dyn r with
      | none => rw [hd] at hd''; cases hd''
      | some d' =>
        rw [hd] at hd''; cases hd''
        exact ⟨hinv.newE r d' hd, rfl⟩
    have hb2 : Base (dynRels p scc) st (shift (shift s1)) := hb
    apply leave_full I p inp p.rels.length (dynRels p scc) hlt (sccRules p scc) hwf2 hinv.good hset hb2
    intro rule hr ρ hsat hd hhd
    refine hinv.front rule hr trivial ρ (Sat.congr_rels hsat ?_) hd hhd
    intro r hr' t ht
    exact facts_sub_Dtot_nd cfg p p.rels.length (dynRels p scc) hl hinv.wf r (notLooping p scc hnl' rule hr r hr') t ht

variable (o : SccOrder) (ho : validOrder p o = true)

include hl haf hh ho in
theorem sccsND_spec : ∀ (rest : SccOrder) (st st' : St), SccsND I cfg p rest st st' → ∀ (done : SccOrder),
    done ++ rest = o → PInv I p inp p.rels.length st →
    (∀ scc ∈ done, ClosedRules I (sccRules p scc) (factsOf st)) →
    PInv I p inp p.rels.length st' ∧ ∀ scc ∈ o, ClosedRules I (sccRules p scc) (factsOf st') := by
  intro rest st st' hrun
  induction hrun with
  | nil =>
    intro done hdone hp hcl
    rw [List.append_nil] at hdone
    subst hdone
    exact ⟨hp, hcl⟩
  | @cons scc rest st st1 st2 hscc _ ih =>
    intro done hdone hp hcl
    obtain ⟨hp1, hsame, hmono, hcl1⟩ := sccND_spec I cfg p inp hl haf hh scc st st1 hp hscc
    refine ih (done ++ [scc]) (by rw [List.append_assoc]; exact hdone) hp1 ?_
    intro scc' hscc'
    rcases List.mem_append.mp hscc' with hscc' | hscc'
    · intro rule hrule ρ hsat hd hhd
      have hfw := validOrder_forward p o ho done scc rest hdone scc' hscc' rule hrule
      have hsat' : Sat I (factsOf st) nAgg rule.body [] ρ := by
        refine Sat.congr_rels hsat ?_
        intro r hr t ht
        have : relSt st1 r = relSt st r := hsame r (hfw r hr)
        simp only [factsOf] at ht ⊢
        rw [← this]; exact ht
      exact hmono _ _ (hcl scc' hscc' rule hrule ρ hsat' hd hhd)
    · simp only [List.mem_singleton] at hscc'
      subst hscc'
      exact hcl1

include hl haf hh ho in
/-- everything the final theorem needs about a completed run -/
theorem runND_spec (s s' : St) (hs : WFSt' p s)
    (hinp : ∀ r, r < p.rels.length → (relSt s r).rows = inp r)
    (hrun : RunND I cfg p o s s') :
    PInv I p inp p.rels.length s' ∧ ClosedRules I p.rules (factsOf s') := by
  have h := sccsND_spec I cfg p inp hl haf hh o ho o _ s' hrun [] (by simp)
    (PInv_start I p inp s hs hinp) (by intro scc hscc; simp at hscc)
  refine ⟨h.1, ?_⟩
  intro rule hrule ρ hsat hd hhd
  obtain ⟨i, hi, hri⟩ := List.mem_iff_getElem.mp hrule
  obtain ⟨scc, hscc, hiscc⟩ := validOrder_cover p o ho i hi
  have : rule ∈ sccRules p scc := (mem_sccRules p scc rule).mpr ⟨i, hiscc, by rw [List.getElem?_eq_getElem hi, hri]⟩
  exact h.2 scc hscc rule this ρ hsat hd hhd

end NDScc

/-- **every execution of the nondeterministic engine computes the least model** (from any well-formed program value):
the result is well-formed, holds exactly the derivable facts, keeps the old rows as a prefix and appends every new tuple once -/
theorem runND_eq_leastModel (I : Interp E B G P A) (cfg : Config) (p : Program E B G P A) (order : SccOrder)
    (s s' : St) (hp : Relational p) (ho : validOrder p order = true) (hs : WFSt p s)
    (hrun : RunND I cfg p order s s') :
    WFSt p s' ∧
    (∀ f, factsOf s' f ↔ Derivable I p.rules noAgg (fun g => g.rel < p.rels.length ∧ factsOf s g) f) ∧
    (∀ r, r < p.rels.length → ∃ derived, (relSt s' r).rows = (relSt s r).rows ++ derived ∧
      derived.Nodup ∧ ∀ t ∈ derived, t ∉ (relSt s r).rows) := by
  obtain ⟨hpinv, hclosed⟩ := runND_spec I cfg p (fun r => (relSt s r).rows) hp.2.1 hp.1 hp.2.2 order ho s s' hs
    (fun _ _ => rfl) hrun
  refine ⟨hpinv.wfSt I p _, fun f => ⟨?_, ?_⟩, fun r hr => (hpinv.good r hr).2⟩
  · intro hf
    have hr : f.rel < p.rels.length := by
      have := lt_of_mem_rows s' f.rel f.args hf
      rw [hpinv.len] at this; exact this
    have := (hpinv.good f.rel hr).1 f.args hf
    cases f; exact this
  · revert f
    apply derivable_least
    refine ⟨?_, ?_⟩
    · rintro f ⟨hr, hf⟩
      obtain ⟨_, derived, hrows, _, _⟩ := hpinv.good f.rel hr
      show f.args ∈ (relSt s' f.rel).rows
      rw [hrows]; exact List.mem_append_left _ hf
    · rintro f ⟨rule, hrule, ρ, hsat, h, hhd, rfl⟩
      exact hclosed rule hrule ρ hsat h hhd

/-! ## the schedule-based parallel engine is one execution -/

theorem applyRows_append (s : SccSt) (l₁ l₂ : List (RelId × Tuple)) :
    applyRows s (l₁ ++ l₂) = applyRows (applyRows s l₁) l₂ := by
  simp only [applyRows, List.foldl_append]

theorem heads_fold_eq (I : Interp E B G P A) (cfg : Config) (p : Program E B G P A)
    (hl : ∀ d ∈ p.rels, d.lat = false) (ρ : Env) : ∀ (heads : List (HeadClause E)) (s : SccSt),
    heads.foldl (fun s h => headUpdate I cfg p s h ρ) s = applyRows s (headRows I heads ρ) := by
  intro heads
  induction heads with
  | nil => intro s; rfl
  | cons h heads ih =>
    intro s
    have hupd : headUpdate I cfg p s h ρ = headRel s h.rel (h.args.map fun e => I.expr e ρ) := by
      simp [headUpdate, declOf_lat p hl]
    rw [List.foldl_cons, ih, hupd]
    rfl

theorem tasks_fold_eq (I : Interp E B G P A) (cfg : Config) (p : Program E B G P A)
    (hl : ∀ d ∈ p.rels, d.lat = false) : ∀ (l : List (Rule E B G P A × Env)) (s : SccSt),
    l.foldl (fun s t => t.1.heads.foldl (fun s h => headUpdate I cfg p s h t.2) s) s =
      applyRows s (l.flatMap fun t => headRows I t.1.heads t.2) := by
  intro l
  induction l with
  | nil => intro s; rfl
  | cons t l ih =>
    intro s
    rw [List.foldl_cons, ih, List.flatMap_cons, applyRows_append, heads_fold_eq I cfg p hl]

theorem passND_of_par (I : Interp E B G P A) (cfg : Config) (p : Program E B G P A)
    (hl : ∀ d ∈ p.rels, d.lat = false) (dyn : List RelId) (rules : List (Rule E B G P A))
    (σ : Sched E B G P A) (k : Nat) (s : SccSt) :
    PassND I cfg p dyn rules s (evalRulesPar I cfg p dyn rules σ k { s with changed := false }) := by
  refine ⟨(σ.perm k (iterTasks I cfg p dyn rules { s with changed := false })).flatMap
    fun t => headRows I t.1.heads t.2, ?_, ?_⟩
  · intro x
    have hperm := σ.isPerm k (iterTasks I cfg p dyn rules { s with changed := false })
    simp only [iterRows, List.mem_flatMap]
    constructor
    · rintro ⟨t, ht, hx⟩; exact ⟨t, hperm.mem_iff.mp ht, hx⟩
    · rintro ⟨t, ht, hx⟩; exact ⟨t, hperm.mem_iff.mpr ht, hx⟩
  · exact tasks_fold_eq I cfg p hl _ _

theorem loopND_of_par (I : Interp E B G P A) (cfg : Config) (p : Program E B G P A)
    (hl : ∀ d ∈ p.rels, d.lat = false) (dyn : List RelId) (rules : List (Rule E B G P A))
    (σ : Sched E B G P A) : ∀ (fuel : Nat) (rs rs' : ParSt),
    sccLoopPar I cfg p dyn rules σ fuel rs = some rs' → ∃ n, LoopND I cfg p dyn rules rs.st rs'.st n := by
  intro fuel
  induction fuel with
  | zero => intro rs rs' h; simp [sccLoopPar] at h
  | succ fuel ih =>
    intro rs rs' h
    have hpass := passND_of_par I cfg p hl dyn rules σ rs.clock rs.st
    simp only [sccLoopPar] at h
    split at h
    · rename_i hch
      simp only [Option.some.injEq] at h
      subst h
      have hch' : (evalRulesPar I cfg p dyn rules σ rs.clock { rs.st with changed := false }).changed = false := by
        simpa using hch
      exact ⟨1, LoopND.exit hpass hch'⟩
    · rename_i hch
      have hch' : (evalRulesPar I cfg p dyn rules σ rs.clock { rs.st with changed := false }).changed = true := by
        simpa using hch
      obtain ⟨n, hn⟩ := ih _ rs' h
      exact ⟨n + 1, LoopND.more hpass hch' hn⟩

theorem sccND_of_par (I : Interp E B G P A) (cfg : Config) (p : Program E B G P A)
    (hl : ∀ d ∈ p.rels, d.lat = false) (σ : Sched E B G P A) (fuel : Nat) (scc : List Nat) (ps ps' : ParProgSt)
    (h : runSccPar I cfg p σ fuel scc ps = some ps') : SccND I cfg p scc ps.st ps'.st := by
  unfold SccND
  simp only [runSccPar] at h
  split at h
  · rename_i hlp
    rw [if_pos hlp]
    simp only [Option.map_eq_some_iff] at h
    obtain ⟨rs, hloop, rfl⟩ := h
    obtain ⟨n, hn⟩ := loopND_of_par I cfg p hl (dynRels p scc) (sccRules p scc) σ fuel _ rs hloop
    exact ⟨rs.st, n, hn, rfl⟩
  · rename_i hlp
    rw [if_neg hlp]
    simp only [Option.some.injEq] at h
    subst h
    exact ⟨_, passND_of_par I cfg p hl (dynRels p scc) (sccRules p scc) σ ps.clock (enterScc ps.st (dynRels p scc)), rfl⟩

theorem sccsND_of_par (I : Interp E B G P A) (cfg : Config) (p : Program E B G P A)
    (hl : ∀ d ∈ p.rels, d.lat = false) (σ : Sched E B G P A) (fuel : Nat) : ∀ (o : SccOrder) (ps ps' : ParProgSt),
    runSccsPar I cfg p σ fuel o ps = some ps' → SccsND I cfg p o ps.st ps'.st := by
  intro o
  induction o with
  | nil =>
    intro ps ps' h
    simp only [runSccsPar, Option.some.injEq] at h
    subst h
    exact SccsND.nil
  | cons scc rest ih =>
    intro ps ps' h
    simp only [runSccsPar, Option.bind_eq_some_iff] at h
    obtain ⟨ps1, hscc, h⟩ := h
    exact SccsND.cons (sccND_of_par I cfg p hl σ fuel scc ps ps1 hscc) (ih ps1 ps' h)

/-- the parallel engine under any schedule is one execution of the nondeterministic engine -/
theorem runPar_is_ND (I : Interp E B G P A) (cfg : Config) (p : Program E B G P A) (order : SccOrder)
    (σ : Sched E B G P A) (s : St) (fuel : Nat) (ps : ParProgSt) (hp : Relational p)
    (hrun : runPar I cfg p order σ fuel s = some ps) : RunND I cfg p order s ps.st :=
  sccsND_of_par I cfg p hp.2.1 σ fuel order _ ps hrun

/-! ## axiom audit -/
#print axioms AscentVerif.Engine.runND_eq_leastModel
#print axioms AscentVerif.Engine.runPar_is_ND

end AscentVerif.Engine
