import AscentVerif.Proofs.C15ExpandList
/-!
# C15: expansion of diverging macros and of macros that reach an empty disjunction fails; expansion within the budget
-/
namespace AscentVerif.Check
open AscentVerif AscentVerif.Engine

/-! ## diverging sets -/

/-- an item that contains an invocation of a macro from which an empty disjunction is reached (or that
invokes itself again and again) is never expanded successfully, whatever the depth budget -/
theorem expandItem_reachesEmptyDisj (ms : List MacroDef) (D : Name → Prop) (hD : ReachesEmptyDisj ms D) :
    ∀ (fuel : Nat) (σ : Env) (π : List Nat) (it : Item) (m : Name), D m → Invokes it m →
      ∃ e, expandItem ms fuel σ π it = .error e := by
  intro fuel
  induction fuel with
  | zero => intro σ π it m _ _; exact ⟨.recMacro, by rw [expandItem]⟩
  | succ fuel ih =>
    intro σ π it m hm hinv
    cases hinv with
    | here m args =>
      rw [expandItem]
      cases hl : lookupMacro ms m with
      | none => exact ⟨_, rfl⟩
      | some d =>
        simp only
        split
        · exact ⟨_, rfl⟩
        · split
          · exact ⟨_, rfl⟩
          · split
            · exact ⟨_, rfl⟩
            · split
              · exact ⟨_, rfl⟩
              · rename_i hne
                rcases hD m hm d hl with hed | ⟨it', hit', m', hm', hinv'⟩
                · exact absurd ((itemsHaveEmptyDisj_iff d.body).2 hed) hne
                · obtain ⟨k, hk⟩ := exists_mem_zipIdx 0 hit'
                  obtain ⟨e, he⟩ := ih ⟨d.params.zip (args.map σ.arg), π⟩ (π ++ [k]) it' m' hm' hinv'
                  obtain ⟨e', he'⟩ := mapLazy_error_of_mem
                    (f := fun x : Item × Nat => expandItem ms fuel ⟨d.params.zip (args.map σ.arg), π⟩ (π ++ [x.2]) x.1) hk he
                  simp only [he']
                  exact ⟨_, rfl⟩
    | @inDisj alts alt it' m halt hit' hinv' =>
      rw [expandItem]
      obtain ⟨ka, hka⟩ := exists_mem_zipIdx 0 halt
      obtain ⟨ki, hki⟩ := exists_mem_zipIdx 0 hit'
      obtain ⟨e, he⟩ := ih σ (π ++ [ka, ki]) it' m hm hinv'
      obtain ⟨e1, he1⟩ := mapLazy_error_of_mem
        (f := fun x : Item × Nat => expandItem ms fuel σ (π ++ [ka, x.2]) x.1) hki he
      split
      · exact ⟨_, rfl⟩
      · rename_i alts' hok
        exfalso
        refine mapLazy_ne_ok_of_mem (x := (alt, ka)) (e := e1) hka ?_ hok
        simp only [he1]

theorem reachesEmptyDisj_of_diverging {ms : List MacroDef} {D : Name → Prop} (hD : Diverging ms D) :
    ReachesEmptyDisj ms D := fun m hm d hd => Or.inr (hD m hm d hd)

theorem expandItem_diverging' (ms : List MacroDef) (D : Name → Prop) (hD : Diverging ms D) :
    ∀ (fuel : Nat) (σ : Env) (π : List Nat) (it : Item) (m : Name), D m → Invokes it m →
      ∃ e, expandItem ms fuel σ π it = .error e :=
  expandItem_reachesEmptyDisj ms D (reachesEmptyDisj_of_diverging hD)

theorem expandRule_reachesEmptyDisj (ms : List MacroDef) (D : Name → Prop) (hD : ReachesEmptyDisj ms D) (r : Rule)
    (h : ∃ it ∈ r.body, ∃ m, D m ∧ Invokes it m) : ∃ e, expandRule ms r = .error e := by
  obtain ⟨it, hit, m, hm, hinv⟩ := h
  obtain ⟨k, hk⟩ := exists_mem_zipIdx 0 hit
  obtain ⟨e, he⟩ := expandItem_reachesEmptyDisj ms D hD depthBudget Env.top [k] it m hm hinv
  obtain ⟨e', he'⟩ := mapLazy_error_of_mem
    (f := fun x : Item × Nat => expandItem ms depthBudget Env.top [x.2] x.1) hk he
  unfold expandRule
  simp only [he']
  exact ⟨_, rfl⟩

theorem expandRule_diverging' (ms : List MacroDef) (D : Name → Prop) (hD : Diverging ms D) (r : Rule)
    (h : ∃ it ∈ r.body, ∃ m, D m ∧ Invokes it m) : ∃ e, expandRule ms r = .error e :=
  expandRule_reachesEmptyDisj ms D (reachesEmptyDisj_of_diverging hD) r h

theorem expandHead_diverging' (ms : List MacroDef) (D : Name → Prop) (hD : HDiverging ms D) :
    ∀ (fuel : Nat) (h : HItem) (m : Name), D m → HInvokes h m → ∃ e, expandHead ms fuel h = .error e := by
  intro fuel
  induction fuel with
  | zero => intro h m _ _; exact ⟨.recMacro, by rw [expandHead]⟩
  | succ fuel ih =>
    intro h m hm hinv
    cases hinv with
    | here m args =>
      rw [expandHead]
      cases hl : lookupMacro ms m with
      | none => exact ⟨_, rfl⟩
      | some d =>
        simp only
        split
        · exact ⟨_, rfl⟩
        · split
          · exact ⟨_, rfl⟩
          · split
            · exact ⟨_, rfl⟩
            · obtain ⟨h', hh', m', hm', hinv'⟩ := hD m hm d hl
              obtain ⟨e, he⟩ := ih h' m' hm' hinv'
              obtain ⟨e1, he1⟩ := mapLazy_error_of_mem (f := expandHead ms fuel) hh' he
              simp only [he1]
              exact ⟨_, rfl⟩

theorem expandRule_head_diverging (ms : List MacroDef) (D : Name → Prop) (hD : HDiverging ms D) (r : Rule)
    (h : ∃ hd ∈ r.heads, ∃ m, D m ∧ HInvokes hd m) : ∃ e, expandRule ms r = .error e := by
  obtain ⟨hd, hhd, m, hm, hinv⟩ := h
  obtain ⟨e, he⟩ := expandHead_diverging' ms D hD depthBudget hd m hm hinv
  obtain ⟨e1, he1⟩ := mapLazy_error_of_mem (f := expandHead ms depthBudget) hhd he
  unfold expandRule
  split
  · exact ⟨_, rfl⟩
  · simp only [he1]
    exact ⟨_, rfl⟩

theorem desugar_error_of_expandRule {ms : List MacroDef} {rules : List Rule} {r : Rule} {e : Err}
    (hr : r ∈ rules) (h : expandRule ms r = .error e) : ∃ e', desugar ms rules = .error e' := by
  obtain ⟨e', he'⟩ := mapLazy_error_of_mem (f := expandRule ms) hr h
  unfold desugar
  simp only [he']
  exact ⟨_, rfl⟩

theorem rejected_of_desugar_error {s : Summary} (hr : Reaches s) {e : Err}
    (h : desugar s.macros s.rules = .error e) : Rejected s := by
  apply rejected_of_not_compile hr
  intro hc
  obtain ⟨rules, hd, _⟩ := (compile_ok_iff s).1 hc
  rw [h] at hd
  cases hd

/-! ## within the budget -/

/-- an item that fits a budget contains no empty disjunction -/
theorem not_fits_of_hasEmptyDisj (ms : List MacroDef) {it : Item} (h : HasEmptyDisj it) : ∀ n, ¬ Fits ms n it := by
  induction h with
  | here =>
    intro n hf
    cases hf with
    | disj hne _ => exact hne rfl
  | inDisj halt hit _ ih =>
    intro n hf
    cases hf with
    | disj _ hall => exact ih _ (hall _ halt _ hit)

theorem itemsHaveEmptyDisj_of_fits {ms : List MacroDef} {n : Nat} {its : List Item} (h : ∀ it ∈ its, Fits ms n it) :
    itemsHaveEmptyDisj its = false := by
  cases hb : itemsHaveEmptyDisj its with
  | false => rfl
  | true =>
    obtain ⟨it, hit, hh⟩ := (itemsHaveEmptyDisj_iff its).1 hb
    exact absurd (h it hit) (not_fits_of_hasEmptyDisj ms hh n)

theorem expandItem_fits_err (ms : List MacroDef) :
    ∀ (n : Nat) (it : Item), Fits ms n it → ∀ (fuel : Nat) (σ : Env) (π : List Nat), n ≤ fuel →
      ∀ e, expandItem ms fuel σ π it = .error e → e = .panicFlatten := by
  intro n it h
  induction h with
  | clause rel args conds =>
    intro fuel σ π hn e he
    obtain ⟨f, rfl⟩ : ∃ f, fuel = f + 1 := ⟨fuel - 1, by omega⟩
    simp [expandItem] at he
  | binder b =>
    intro fuel σ π hn e he
    obtain ⟨f, rfl⟩ : ∃ f, fuel = f + 1 := ⟨fuel - 1, by omega⟩
    simp [expandItem] at he
  | agg rel args pat bound =>
    intro fuel σ π hn e he
    obtain ⟨f, rfl⟩ : ∃ f, fuel = f + 1 := ⟨fuel - 1, by omega⟩
    simp [expandItem] at he
  | neg rel k =>
    intro fuel σ π hn e he
    obtain ⟨f, rfl⟩ : ∃ f, fuel = f + 1 := ⟨fuel - 1, by omega⟩
    simp [expandItem] at he
  | @disj n alts _ _ ih =>
    intro fuel σ π hn e he
    obtain ⟨f, rfl⟩ : ∃ f, fuel = f + 1 := ⟨fuel - 1, by omega⟩
    rw [expandItem] at he
    split at he
    · rename_i e1 he1
      simp only [Except.error.injEq] at he
      subst he
      obtain ⟨a, ha, hfa⟩ := mapLazy_error he1
      split at hfa
      · rename_i e2 he2
        simp only [Except.error.injEq] at hfa
        subst hfa
        obtain ⟨x, hx, hfx⟩ := mapLazy_error he2
        exact ih a.1 (List.fst_mem_of_mem_zipIdx ha) x.1 (List.fst_mem_of_mem_zipIdx hx) f σ _ (by omega) _ hfx
      · exact (flattenP_error hfa).elim
    · cases he
  | @mac n m args d hl hhead hlen hbody ih =>
    intro fuel σ π hn e he
    obtain ⟨f, rfl⟩ : ∃ f, fuel = f + 1 := ⟨fuel - 1, by omega⟩
    rw [expandItem] at he
    simp only [hl, hhead, hlen, Nat.lt_irrefl, Bool.false_eq_true, if_false, itemsHaveEmptyDisj_of_fits hbody] at he
    split at he
    · rename_i e1 he1
      simp only [Except.error.injEq] at he
      subst he
      obtain ⟨x, hx, hfx⟩ := mapLazy_error he1
      exact ih x.1 (List.fst_mem_of_mem_zipIdx hx) f _ _ (by omega) _ hfx
    · exact (flattenP_error he).elim

/-- since fix 71f89c5 (`flatten_punctuated` total) macro expansion never panics there -/
theorem expandItem_ne_panicFlatten (ms : List MacroDef) :
    ∀ (fuel : Nat) (σ : Env) (π : List Nat) (it : Item), expandItem ms fuel σ π it ≠ .error .panicFlatten := by
  intro fuel
  induction fuel with
  | zero => intro σ π it h; rw [expandItem] at h; cases h
  | succ f ih =>
    intro σ π it he
    cases it with
    | clause rel args conds => simp [expandItem] at he
    | binder b => simp [expandItem] at he
    | agg rel args pat bound => simp [expandItem] at he
    | neg rel k => simp [expandItem] at he
    | disj alts =>
      rw [expandItem] at he
      split at he
      · rename_i e1 he1
        simp only [Except.error.injEq] at he
        subst he
        obtain ⟨a, ha, hfa⟩ := mapLazy_error he1
        split at hfa
        · rename_i e2 he2
          simp only [Except.error.injEq] at hfa
          subst hfa
          obtain ⟨x, hx, hfx⟩ := mapLazy_error he2
          exact ih _ _ _ hfx
        · cases hfa
      · cases he
    | mac name args =>
      rw [expandItem] at he
      split at he
      · cases he
      · split at he
        · cases he
        · split at he
          · cases he
          · split at he
            · cases he
            · split at he
              · cases he
              · dsimp only at he
                split at he
                · rename_i e1 he1
                  simp only [Except.error.injEq] at he
                  subst he
                  obtain ⟨x, hx, hfx⟩ := mapLazy_error he1
                  exact ih _ _ _ hfx
                · cases he

end AscentVerif.Check
