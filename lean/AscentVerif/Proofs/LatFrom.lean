import AscentVerif.Proofs.LatStrata
import AscentVerif.Proofs.Timeout
/-!
# Lattice programs from an arbitrary well-formed start value, with any deadline oracle (C13/C14 for C03)

The invariants of the C03 proof (`LInv`, `LPInv`, …) are parametric in the "input" `inp`; here they
are instantiated with the row vectors of the start value (`rowsFn s`).  A timed-out run keeps the
weak part of the invariant (`LSInv`): keys unique, stored index entries valid, facts below every target.
-/
namespace AscentVerif.Engine
open AscentVerif

variable {E B G P A : Type}

/-- the row vectors of a program value in the role of the input -/
def rowsFn (s : St) : RelId → List Tuple := fun r => (relSt s r).rows

section From
variable {I : Interp E B G P A} {L : LatOrder I} {p : Program E B G P A} {inp : RelId → List Tuple}

/-- any well-formed value with one row per lattice key, after `update_indices` -/
theorem LPInv_from (s : St) (hs : WFSt' p s)
    (hk : ∀ r, r < p.rels.length → (declOf p r).lat = true → ((relSt s r).rows.map keyOf).Nodup) :
    LPInv I L p (rowsFn s) (updateIndices s) ∧
      DBLe I L p (inDB p (rowsFn s)) (factsOf (updateIndices s)) := by
  have hrows : ∀ r, (relSt (updateIndices s) r).rows = (relSt s r).rows := by
    intro r; rw [relSt_updateIndices]
  have hlen : (updateIndices s).length = p.rels.length := by simpa [updateIndices] using hs.1
  refine ⟨⟨hlen, ?_, ?_, ?_, ?_⟩, ?_⟩
  · intro r hl
    rw [hrows]; exact hk r (lat_lt p hl) hl
  · intro r _ _
    rw [hrows]
    exact ⟨[], by simp [rowsFn], List.nodup_nil, fun t ht => by simp at ht⟩
  · intro r i
    rw [relSt_updateIndices]
    simp only [List.mem_range]
  · intro M hM f hf
    have hr : f.rel < p.rels.length := by
      have := lt_of_mem_rows _ f.rel f.args hf
      rw [hlen] at this; exact this
    have hf' : f.args ∈ (relSt (updateIndices s) f.rel).rows := hf
    rw [hrows] at hf'
    exact hM.2.2.1 f ⟨hr, hf'⟩
  · intro f hf
    apply Dominated.of_mem
    show f.args ∈ (relSt (updateIndices s) f.rel).rows
    rw [hrows]; exact hf.2

/-- a completed run (any deadline oracle) from any such value -/
theorem run_from_spec (haf : ∀ r ∈ p.rules, r.aggFree = true)
    (hh : ∀ r ∈ p.rules, ∀ h ∈ r.heads, h.rel < p.rels.length)
    (o : SccOrder) (ho : validOrder p o = true) (dl : Deadline) (fuel : Nat) (s : St) (ps : ProgSt)
    (hs : WFSt' p s)
    (hk : ∀ r, r < p.rels.length → (declOf p r).lat = true → ((relSt s r).rows.map keyOf).Nodup)
    (hrun : runTimeout I {} p o dl fuel s = .done ps) :
    LPInv I L p (rowsFn s) ps.st ∧ LClosedRules I L p p.rules (factsOf ps.st) ∧
      DBLe I L p (inDB p (rowsFn s)) (factsOf ps.st) := by
  obtain ⟨hp0, hin0⟩ := LPInv_from (I := I) (L := L) s hs hk
  have h := runSccs_spec' haf hh o ho dl fuel o [] _ ps (by simp) hp0
    (by intro scc hscc; simp at hscc) hin0 hrun
  refine ⟨h.1, ?_, h.2.2⟩
  intro rule hrule ρ hsat hd hhd
  obtain ⟨i, hi, hri⟩ := List.mem_iff_getElem.mp hrule
  obtain ⟨scc, hscc, hiscc⟩ := validOrder_cover p o ho i hi
  have : rule ∈ sccRules p scc := (mem_sccRules p scc rule).mpr ⟨i, hiscc, by rw [List.getElem?_eq_getElem hi, hri]⟩
  exact h.2.1 scc hscc rule this ρ hsat hd hhd

/-! ## early return -/

variable (I L p inp) in
/-- what survives an early return -/
structure LSInv (st : St) : Prop where
  len : st.length = p.rels.length
  keys : ∀ r, (declOf p r).lat = true → ((relSt st r).rows.map keyOf).Nodup
  idxIn : ∀ r i, i ∈ (relSt st r).idx → i < (relSt st r).rows.length
  below : ∀ M, Tgt I L p inp M → DBLe I L p (factsOf st) M

theorem LPInv.lsinv {st : St} (h : LPInv I L p inp st) : LSInv I L p inp st :=
  ⟨h.len, h.keys, fun r i hi => (h.idxAll r i).mpr hi, h.below⟩

theorem LSInv.wfSt {st : St} (h : LSInv I L p inp st) : WFSt' p st := by
  refine ⟨h.len, ?_⟩
  intro rs hrs i hi
  obtain ⟨r, hr, rfl⟩ := List.mem_iff_getElem.mp hrs
  have : relSt st r = st[r] := by
    simp [relSt, List.getD_eq_getElem?_getD, List.getElem?_eq_getElem hr]
  rw [← this] at hi ⊢
  exact h.idxIn r i hi

/-- the loop of a looping SCC, interrupted -/
theorem sccLoop_timedOut' {dynR : List RelId} (rules : List (Rule E B G P A))
    (hrules : ∀ rule ∈ rules, rule ∈ p.rules) (haf : ∀ rule ∈ rules, rule.aggFree = true)
    (hdyn : ∀ rule ∈ rules, ∀ h ∈ rule.heads, dynR.contains h.rel = true)
    (dl : Deadline) (st : St) : ∀ (fuel : Nat) (rs rs' : RunSt),
      LLoopInv I L p inp dynR rules (hasDyn dynR) rs.st → LBase I L p dynR st rs.st →
      sccLoop I {} p dynR rules dl fuel rs = .timedOut rs' →
      LInv I L p inp dynR rs'.st ∧ LBase I L p dynR st rs'.st := by
  intro fuel
  induction fuel with
  | zero => intro rs rs' _ _ h; simp [sccLoop] at h
  | succ fuel ih =>
    intro rs rs' hinv hb h
    obtain ⟨hinv', hext⟩ := iter_step' rules hrules haf hdyn rs.st hinv
    have hb' := LBase_step hinv.inv.wf hb hext
    simp only [sccLoop] at h
    split at h
    · cases h
    · split at h
      · simp only [Outcome.timedOut.injEq] at h
        subst h
        exact ⟨hinv'.inv, hb'⟩
      · exact ih _ rs' (hinv'.weaken fun _ _ => trivial) hb' h

theorem rows_abandon (scc : List Nat) (s : SccSt) (r : RelId) :
    (relSt (abandonScc p scc s) r).rows = rowsOf s r := by
  rw [relSt_abandon]
  split
  · split <;> rfl
  · rename_i h
    simp [rowsOf, relSt_of_ge _ _ (Nat.le_of_not_lt h)]

theorem facts_abandon (scc : List Nat) (s : SccSt) : factsOf (abandonScc p scc s) = FactsS s := by
  funext f
  simp only [factsOf, FactsS, rows_abandon]

/-- dropping the local indices keeps the rows and leaves only valid index entries -/
theorem abandon_spec' (scc : List Nat) {s : SccSt} (hinv : LInv I L p inp (dynRels p scc) s) :
    LSInv I L p inp (abandonScc p scc s) := by
  have hwf := hinv.wf
  refine ⟨by simp [abandonScc, hwf.len], ?_, ?_, ?_⟩
  · intro r hl
    rw [rows_abandon]; exact hinv.keys r hl
  · intro r i hi
    rw [rows_abandon]
    rw [relSt_abandon] at hi
    split at hi
    · split at hi
      · simp at hi
      · rename_i hc
        have hnd : (dynRels p scc).contains r = false := by
          cases hc' : (dynRels p scc).contains r with
          | false => rfl
          | true =>
            exfalso; apply hc
            rw [List.contains_iff_mem] at hc' ⊢
            exact List.mem_append_left _ hc'
        have hd : findDyn s.dyn r = none := by
          have := hwf.dyn_iff r
          rw [hnd] at this
          cases h' : findDyn s.dyn r with
          | none => rfl
          | some d => rw [h'] at this; cases this
        exact (hwf.cover_nd r hd i).mpr hi
    · simp at hi
  · intro M hM
    rw [facts_abandon]; exact hinv.below M hM

/-- one SCC, interrupted -/
theorem runScc_timedOut' (haf : ∀ r ∈ p.rules, r.aggFree = true)
    (hh : ∀ r ∈ p.rules, ∀ h ∈ r.heads, h.rel < p.rels.length)
    (dl : Deadline) (fuel : Nat) (scc : List Nat) (ps ps' : ProgSt)
    (hp : LPInv I L p inp ps.st) (h : runScc I {} p dl fuel scc ps = .timedOut ps') :
    LSInv I L p inp ps'.st ∧ DBLe I L p (factsOf ps.st) (factsOf ps'.st) := by
  have hrules := sccRules_sub p scc
  have hafs : ∀ rule ∈ sccRules p scc, rule.aggFree = true := fun r hr => haf r (hrules r hr)
  have hdyn : ∀ rule ∈ sccRules p scc, ∀ h ∈ rule.heads, (dynRels p scc).contains h.rel = true :=
    fun rule hr h hhd => (dynRels_mem p scc h.rel).mpr ⟨rule, hr, h, hhd, rfl⟩
  have hlt : ∀ r, (dynRels p scc).contains r = true → r < p.rels.length := by
    intro r hr
    obtain ⟨rule, hrule, h, hhd, rfl⟩ := (dynRels_mem p scc r).mp hr
    exact hh rule (hrules rule hrule) h hhd
  have hinv0 := LLoopInv_enter (dynRels p scc) hlt hp (sccRules p scc)
  have hb0 : LBase I L p (dynRels p scc) ps.st (enterScc ps.st (dynRels p scc)) := LBase_enter ps.st (dynRels p scc)
  simp only [runScc] at h
  split at h
  · split at h
    · cases h
    · rename_i rs hloop
      simp only [Outcome.timedOut.injEq] at h
      subst h
      obtain ⟨hinv, hb⟩ := sccLoop_timedOut' (sccRules p scc) hrules hafs hdyn dl ps.st fuel _ rs hinv0 hb0 hloop
      refine ⟨abandon_spec' scc hinv, ?_⟩
      show DBLe I L p (factsOf ps.st) (factsOf (abandonScc p scc rs.st))
      rw [facts_abandon]; exact hb.2
    · cases h
  · split at h
    · simp only [Outcome.timedOut.injEq] at h
      subst h
      obtain ⟨hinv, hext⟩ := iter_step' (sccRules p scc) hrules hafs hdyn _ hinv0
      have hb := LBase_step hinv0.inv.wf hb0 hext
      refine ⟨abandon_spec' scc (LInv_shift hinv.inv), ?_⟩
      show DBLe I L p (factsOf ps.st) (factsOf (abandonScc p scc _))
      rw [facts_abandon]; exact hb.2
    · cases h

theorem runSccs_timedOut' (haf : ∀ r ∈ p.rules, r.aggFree = true)
    (hh : ∀ r ∈ p.rules, ∀ h ∈ r.heads, h.rel < p.rels.length)
    (dl : Deadline) (fuel : Nat) : ∀ (rest : SccOrder) (ps ps' : ProgSt),
    LPInv I L p inp ps.st → runSccs I {} p dl fuel rest ps = .timedOut ps' →
    LSInv I L p inp ps'.st ∧ DBLe I L p (factsOf ps.st) (factsOf ps'.st) := by
  intro rest
  induction rest with
  | nil => intro ps ps' _ h; simp [runSccs] at h
  | cons scc rest ih =>
    intro ps ps' hp h
    simp only [runSccs] at h
    split at h
    · rename_i ps1 hscc
      obtain ⟨hp1, _, hle, _⟩ := runScc_spec' haf hh dl fuel scc ps ps1 hp hscc
      obtain ⟨h1, h2⟩ := ih ps1 ps' hp1 h
      exact ⟨h1, DBLe.trans hle h2⟩
    · exact runScc_timedOut' haf hh dl fuel scc ps ps' hp h

/-- `run_timeout` under any deadline oracle, finished or not -/
theorem runTimeout_lat (haf : ∀ r ∈ p.rules, r.aggFree = true)
    (hh : ∀ r ∈ p.rules, ∀ h ∈ r.heads, h.rel < p.rels.length)
    (o : SccOrder) (ho : validOrder p o = true) (dl : Deadline) (fuel : Nat) (s : St) (ps : ProgSt)
    (hs : WFSt' p s)
    (hk : ∀ r, r < p.rels.length → (declOf p r).lat = true → ((relSt s r).rows.map keyOf).Nodup)
    (hrun : runTimeout I {} p o dl fuel s = .done ps ∨ runTimeout I {} p o dl fuel s = .timedOut ps) :
    LSInv I L p (rowsFn s) ps.st ∧ DBLe I L p (inDB p (rowsFn s)) (factsOf ps.st) := by
  rcases hrun with hrun | hrun
  · obtain ⟨h1, _, h3⟩ := run_from_spec (L := L) haf hh o ho dl fuel s ps hs hk hrun
    exact ⟨h1.lsinv, h3⟩
  · obtain ⟨hp0, hin0⟩ := LPInv_from (I := I) (L := L) s hs hk
    obtain ⟨h1, h2⟩ := runSccs_timedOut' haf hh dl fuel o _ ps hp0 hrun
    exact ⟨h1, DBLe.trans hin0 h2⟩

end From

end AscentVerif.Engine
