import AscentVerif.Proofs.C15ExpandList
/-!
# C15: which errors each stage of the pipeline can return
-/
namespace AscentVerif.Check
open AscentVerif AscentVerif.Engine

/-! ## macro expansion -/

/-- the errors macro expansion can return -/
def Err.expandErr : Err → Bool
  | .recMacro | .undefMacro | .macroArgs | .unexpectedToken | .emptyDisj | .unsupported => true
  | _ => false

theorem expandItem_err (ms : List MacroDef) :
    ∀ (fuel : Nat) (σ : Env) (π : List Nat) (it : Item) (e : Err),
      expandItem ms fuel σ π it = .error e → e.expandErr = true := by
  intro fuel
  induction fuel with
  | zero =>
    intro σ π it e h
    rw [expandItem] at h
    cases h
    rfl
  | succ fuel ih =>
    intro σ π it e h
    cases it with
    | clause rel args conds => simp [expandItem] at h
    | binder b => simp [expandItem] at h
    | agg rel args pat bound => simp [expandItem] at h
    | neg rel n => simp [expandItem] at h
    | disj alts =>
      rw [expandItem] at h
      split at h
      · rename_i e1 he1
        simp only [Except.error.injEq] at h
        subst h
        obtain ⟨a, ha, hfa⟩ := mapLazy_error he1
        split at hfa
        · rename_i e2 he2
          simp only [Except.error.injEq] at hfa
          subst hfa
          obtain ⟨x, hx, hfx⟩ := mapLazy_error he2
          exact ih _ _ _ _ hfx
        · exact (flattenP_error hfa).elim
      · cases h
    | mac name args =>
      rw [expandItem] at h
      split at h
      · cases h; rfl
      · split at h
        · cases h; rfl
        · split at h
          · cases h; rfl
          · split at h
            · cases h; rfl
            · split at h
              · cases h; rfl
              · dsimp only at h
                split at h
                · rename_i e1 he1
                  simp only [Except.error.injEq] at h
                  subst h
                  obtain ⟨x, hx, hfx⟩ := mapLazy_error he1
                  exact ih _ _ _ _ hfx
                · exact (flattenP_error h).elim

theorem expandHead_err (ms : List MacroDef) :
    ∀ (fuel : Nat) (hd : HItem) (e : Err), expandHead ms fuel hd = .error e → e.expandErr = true := by
  intro fuel
  induction fuel with
  | zero =>
    intro hd e h
    rw [expandHead] at h
    cases h
    rfl
  | succ fuel ih =>
    intro hd e h
    cases hd with
    | clause rel n => simp [expandHead] at h
    | mac name args =>
      rw [expandHead] at h
      split at h
      · cases h; rfl
      · split at h
        · cases h; rfl
        · split at h
          · cases h; rfl
          · split at h
            · cases h; rfl
            · split at h
              · rename_i e1 he1
                simp only [Except.error.injEq] at h
                subst h
                obtain ⟨x, hx, hfx⟩ := mapLazy_error he1
                exact ih _ _ hfx
              · exact (flattenP_error h).elim

/-- expansion of a head never returns a macro invocation -/
theorem expandHead_clause (ms : List MacroDef) :
    ∀ (fuel : Nat) (hd : HItem) (hs : List HItem), expandHead ms fuel hd = .ok hs →
      ∀ x ∈ hs, ∃ rel n, x = .clause rel n := by
  intro fuel
  induction fuel with
  | zero =>
    intro hd hs h
    rw [expandHead] at h
    cases h
  | succ fuel ih =>
    intro hd hs h
    cases hd with
    | clause rel n =>
      simp only [expandHead, Except.ok.injEq] at h
      subst h
      intro x hx
      exact ⟨rel, n, List.mem_singleton.1 hx⟩
    | mac name args =>
      rw [expandHead] at h
      split at h
      · cases h
      · split at h
        · cases h
        · split at h
          · cases h
          · split at h
            · cases h
            · split at h
              · cases h
              · rename_i inner hin
                rw [flattenP_ok h]
                intro x hx
                obtain ⟨l, hl, hxl⟩ := List.mem_flatten.1 hx
                obtain ⟨y, hy, hfy⟩ := mapLazy_ok_mem hin hl
                exact ih y l hfy x hxl

theorem expandRule_err {ms : List MacroDef} {r : Rule} {e : Err} (h : expandRule ms r = .error e) :
    e.expandErr = true := by
  unfold expandRule at h
  split at h
  · rename_i e1 he1
    simp only [Except.error.injEq] at h
    subst h
    obtain ⟨x, hx, hfx⟩ := mapLazy_error he1
    exact expandItem_err ms _ _ _ _ _ hfx
  · split at h
    · rename_i e1 he1
      simp only [Except.error.injEq] at h
      subst h
      obtain ⟨x, hx, hfx⟩ := mapLazy_error he1
      exact expandHead_err ms _ _ _ hfx
    · split at h
      · rename_i e1 he1
        simp only [Except.error.injEq] at h
        subst h
        exact (flattenP_error he1).elim
      · cases h

theorem expandRule_heads_clause {ms : List MacroDef} {r r' : Rule} (h : expandRule ms r = .ok r') :
    ∀ x ∈ r'.heads, ∃ rel n, x = .clause rel n := by
  unfold expandRule at h
  split at h
  · cases h
  · split at h
    · cases h
    · rename_i hs hhs
      split at h
      · cases h
      · rename_i heads hheads
        simp only [Except.ok.injEq] at h
        subst h
        simp only
        rw [flattenP_ok hheads]
        intro x hx
        obtain ⟨l, hl, hxl⟩ := List.mem_flatten.1 hx
        obtain ⟨y, hy, hfy⟩ := mapLazy_ok_mem hhs hl
        exact expandHead_clause ms _ y l hfy x hxl

theorem coreHeads_ok : ∀ (hs : List HItem), (∀ x ∈ hs, ∃ rel n, x = .clause rel n) → ∃ c, coreHeads hs = .ok c
  | [], _ => ⟨[], rfl⟩
  | .clause rel n :: rest, h => by
    obtain ⟨c, hc⟩ := coreHeads_ok rest (fun x hx => h x (List.mem_cons_of_mem _ hx))
    exact ⟨⟨rel, n⟩ :: c, by simp [coreHeads, hc]⟩
  | .mac name args :: rest, h => by
    obtain ⟨rel, n, hx⟩ := h (.mac name args) List.mem_cons_self
    cases hx

/-! ## HIR -/

def Err.hirErr : Err → Bool
  | .undefRel | .arity | .shadow | .aggBoundArg => true
  | _ => false

theorem getRelation_err {ds : List Decl} {n : Name} {a : Nat} {e : Err} (h : getRelation ds n a = .error e) :
    e.hirErr = true := by
  unfold getRelation at h
  split at h
  · cases h; rfl
  · split at h
    · cases h
    · cases h; rfl

theorem extendGrounded_err : ∀ (vs g : List Var) (e : Err), extendGrounded g vs = .error e → e.hirErr = true
  | [], g, e, h => by simp [extendGrounded] at h
  | v :: vs, g, e, h => by
    simp only [extendGrounded] at h
    split at h
    · cases h; rfl
    · exact extendGrounded_err vs _ e h

theorem extendBinders_err : ∀ (bs : List Binder) (g : List Var) (e : Err), extendBinders g bs = .error e → e.hirErr = true
  | [], g, e, h => by simp [extendBinders] at h
  | b :: bs, g, e, h => by
    simp only [extendBinders] at h
    split at h
    · rename_i e1 he1
      cases h
      exact extendGrounded_err _ _ _ he1
    · exact extendBinders_err bs _ e h

theorem hirEv_err {ds : List Decl} {g : List Var} {ev : Ev} {e : Err} (h : hirEv ds g ev = .error e) :
    e.hirErr = true := by
  cases ev with
  | clause rel args conds =>
    simp only [hirEv] at h
    split at h
    · rename_i e1 he1
      cases h
      exact getRelation_err he1
    · exact extendBinders_err _ _ _ h
  | binder b =>
    simp only [hirEv] at h
    exact extendGrounded_err _ _ _ h
  | agg rel args pat bound =>
    simp only [hirEv] at h
    split at h
    · cases h; rfl
    · split at h
      · rename_i e1 he1
        cases h
        exact extendGrounded_err _ _ _ he1
      · split at h
        · rename_i e1 he1
          cases h
          exact extendGrounded_err _ _ _ he1
        · split at h
          · rename_i e1 he1
            cases h
            exact getRelation_err he1
          · cases h

theorem hirBody_err {ds : List Decl} : ∀ (evs : List Ev) (g : List Var) (e : Err), hirBody ds g evs = .error e → e.hirErr = true
  | [], g, e, h => by simp [hirBody] at h
  | ev :: rest, g, e, h => by
    simp only [hirBody] at h
    split at h
    · rename_i e1 he1
      cases h
      exact hirEv_err he1
    · exact hirBody_err rest _ e h

theorem hirHeads_err {ds : List Decl} : ∀ (hs : List Head) (e : Err), hirHeads ds hs = .error e → e.hirErr = true
  | [], e, h => by simp [hirHeads] at h
  | hd :: rest, e, h => by
    simp only [hirHeads] at h
    split at h
    · rename_i e1 he1
      cases h
      exact getRelation_err he1
    · exact hirHeads_err rest e h

theorem hirRule_err {ds : List Decl} {r : CoreRule} {e : Err} (h : hirRule ds r = .error e) : e.hirErr = true := by
  unfold hirRule at h
  split at h
  · rename_i e1 he1
    cases h
    exact hirBody_err _ _ _ he1
  · exact hirHeads_err _ _ h

theorem hirRules_err {ds : List Decl} : ∀ (rs : List CoreRule) (e : Err), hirRules ds rs = .error e → e.hirErr = true
  | [], e, h => by simp [hirRules] at h
  | r :: rest, e, h => by
    simp only [hirRules] at h
    split at h
    · rename_i e1 he1
      cases h
      exact hirRule_err he1
    · exact hirRules_err rest e h

/-! ## attributes, declarations, parsing -/

def Err.attrErr : Err → Bool
  | .attrShape | .unknownAttr | .parOnlyAttr | .multiDs | .dsLattice => true
  | _ => false

theorem requirePathOnly_err {as : List AttrS} {n : String} {e : Err} (h : requirePathOnly as n = .error e) :
    e.attrErr = true := by
  unfold requirePathOnly at h
  split at h
  · split at h
    · cases h
    · cases h; rfl
  · cases h

theorem getDsAttr_err {as : List AttrS} {e : Err} (h : getDsAttr as = .error e) : e.attrErr = true := by
  unfold getDsAttr at h
  split at h
  · cases h
  · split at h
    · cases h
    · cases h; rfl
  · cases h; rfl

theorem configCheck_err {as : List AttrS} {par : Bool} {e : Err} (h : configCheck as par = .error e) :
    e.attrErr = true := by
  unfold configCheck at h
  split at h
  · rename_i e1 he1
    cases h
    exact requirePathOnly_err he1
  · split at h
    · rename_i e1 he1
      cases h
      exact requirePathOnly_err he1
    · split at h
      · rename_i e1 he1
        cases h
        exact requirePathOnly_err he1
      · split at h
        · cases h; rfl
        · split at h
          · cases h; rfl
          · split at h
            · rename_i e1 he1
              cases h
              exact getDsAttr_err he1
            · cases h

theorem declsCheck_err : ∀ (ds : List Decl) (e : Err), declsCheck ds = .error e → e.attrErr = true
  | [], e, h => by simp [declsCheck] at h
  | d :: rest, e, h => by
    simp only [declsCheck] at h
    split at h
    · rename_i e1 he1
      cases h
      exact getDsAttr_err he1
    · split at h
      · cases h; rfl
      · exact declsCheck_err rest e h

def Err.parseErr : Err → Bool
  | .emptyLattice | .attrOnItem | .emptyDisj => true
  | _ => false

theorem parseItems_err : ∀ (items : List Top) (e : Err), parseItems items = .error e → e.parseErr = true
  | [], e, h => by simp [parseItems] at h
  | .rel d :: rest, e, h => by
    simp only [parseItems] at h
    split at h
    · cases h; rfl
    · exact parseItems_err rest e h
  | .mac n d :: rest, e, h => by
    simp only [parseItems] at h
    split at h
    · cases h; rfl
    · exact parseItems_err rest e h
  | .rule n r :: rest, e, h => by
    simp only [parseItems] at h
    split at h
    · cases h; rfl
    · split at h
      · cases h; rfl
      · exact parseItems_err rest e h
  | .incl n :: rest, e, h => by
    simp only [parseItems] at h
    split at h
    · cases h; rfl
    · cases h

/-! ## struct / impl signatures -/

def Err.sigErr : Err → Bool
  | .sigName | .sigGenerics => true
  | _ => false

theorem sigCheck_err {sig : Option Sig} {e : Err} (h : sigCheck sig = .error e) : e.sigErr = true := by
  unfold sigCheck at h
  split at h
  · cases h
  · split at h
    · cases h
    · split at h
      · cases h; rfl
      · split at h
        · cases h; rfl
        · cases h

/-! ## the pipeline -/

theorem compile_error_cases {s : Summary} {e : Err} (h : compile s = .error e) :
    desugar s.macros s.rules = .error e ∨ ∃ rules, desugar s.macros s.rules = .ok rules ∧
      (hirRules s.decls rules = .error e ∨ configCheck s.attrs s.kind.parallel = .error e ∨
        declsCheck s.effDecls = .error e ∨ sigCheck s.sig = .error e ∨ e = .strat) := by
  unfold compile at h
  split at h
  · rename_i e1 he1
    cases h
    exact Or.inl he1
  · rename_i rules hrules
    refine Or.inr ⟨rules, hrules, ?_⟩
    split at h
    · rename_i e1 he1
      cases h
      exact Or.inl he1
    · split at h
      · rename_i e1 he1
        cases h
        exact Or.inr (Or.inl he1)
      · split at h
        · rename_i e1 he1
          cases h
          exact Or.inr (Or.inr (Or.inl he1))
        · split at h
          · rename_i e1 he1
            cases h
            exact Or.inr (Or.inr (Or.inr (Or.inl he1)))
          · split at h
            · cases h
              exact Or.inr (Or.inr (Or.inr (Or.inr rfl)))
            · cases h

theorem check_error_cases {s : Summary} {e : Err} (h : check s = .error e) :
    parseItems s.items = .error e ∨ e = .includeInSource ∨ compile s = .error e := by
  unfold check at h
  split at h
  · rename_i e1 he1
    cases h
    exact Or.inl he1
  · split at h
    · cases h
      exact Or.inr (Or.inl rfl)
    · cases h
  · split at h
    · cases h
    · exact Or.inr (Or.inr h)

end AscentVerif.Check
