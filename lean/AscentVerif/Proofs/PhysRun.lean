import AscentVerif.Proofs.PhysSim
/-!
# The physical engine is one execution of the nondeterministic engine (steps 2 and 5 of `Props/C01Phys.lean`)

One pass of `Phys.evalRules` is `Engine.applyRows` of a list with exactly the members of `iterRows` (the evaluation of
later rules on the updated state reads only frozen parts); the loop, the SCCs and the run follow.
-/
namespace AscentVerif.Phys
open AscentVerif AscentVerif.Engine AscentVerif.Index

variable {E B G P A : Type}

/-! ## what a pass leaves frozen -/

section Frozen
variable (cfg : Config) (p : Program E B G P A) (hl : ∀ d ∈ p.rels, d.lat = false)

include hl in
theorem view_ext_iff {n : Nat} {dynR : List RelId} {s₀ s : SccSt} (hwf : WF n dynR s₀) (hext : Ext s₀ s)
    (r : RelId) (v : Option Ver) (t : Tuple) : Engine.viewOf cfg p s r v t ↔ Engine.viewOf cfg p s₀ r v t := by
  have hc : clauseRows cfg p s r v = clauseRows cfg p s₀ r v := by
    cases hd : findDyn s₀.dyn r with
    | none =>
      obtain ⟨h1, h2⟩ := hext.nondyn r hd
      rw [clauseRows_none cfg p hl v h1, clauseRows_none cfg p hl v hd, h2]
    | some d₀ =>
      obtain ⟨d, h1, h2, h3⟩ := hext.td r d₀ hd
      rw [clauseRows_some cfg p hl v h1, clauseRows_some cfg p hl v hd, h2, h3]
  have hrow : ∀ i ∈ clauseRows cfg p s₀ r v, rowAt (relSt s.rels r).rows i = rowAt (relSt s₀.rels r).rows i := by
    intro i hi
    cases hd : findDyn s₀.dyn r with
    | none =>
      obtain ⟨_, h2⟩ := hext.nondyn r hd
      rw [h2]
    | some d₀ =>
      obtain ⟨ex, hex⟩ := hext.rows r
      have hlt : i < (rowsOf s₀ r).length := by
        rcases mem_clauseRows_some cfg p hl hd hi with h | h
        · exact (hwf.cover r d₀ hd i).mpr (.inl h)
        · exact (hwf.cover r d₀ hd i).mpr (.inr (.inl h))
      show rowAt (rowsOf s r) i = rowAt (rowsOf s₀ r) i
      rw [hex, rowAt_append_left _ _ _ hlt]
  unfold Engine.viewOf
  rw [hc]
  constructor
  · rintro ⟨i, hi, h⟩; exact ⟨i, hi, by rw [← hrow i hi]; exact h⟩
  · rintro ⟨i, hi, h⟩; exact ⟨i, hi, by rw [hrow i hi]; exact h⟩

include hl in
theorem evalBody_frozen (I : Interp E B G P A) {n : Nat} {dynR : List RelId} {s₀ s : SccSt} (hwf : WF n dynR s₀)
    (hext : Ext s₀ s) (body : List (Item E B G P A)) (haf : aggFreeL body = true) (vs : List (Option Ver)) (ρ x : Env) :
    x ∈ evalBody I cfg p s body vs ρ ↔ x ∈ evalBody I cfg p s₀ body vs ρ := by
  constructor
  · intro h
    exact evalBody_of_SatV I cfg p s₀
      (SatV.mono (fun r v t hv => (view_ext_iff cfg p hl hwf hext r v t).mp hv) (SatV_of_evalBody I cfg p s body vs ρ x haf h))
  · intro h
    exact evalBody_of_SatV I cfg p s
      (SatV.mono (fun r v t hv => (view_ext_iff cfg p hl hwf hext r v t).mpr hv) (SatV_of_evalBody I cfg p s₀ body vs ρ x haf h))

end Frozen

theorem headRel_wf_ext {n : Nat} {dynR : List RelId} (hlt : ∀ r, dynR.contains r = true → r < n) {s₀ s : SccSt}
    (hwf : WF n dynR s) (hext : Ext s₀ s) (r : RelId) (row : Tuple) :
    WF n dynR (Engine.headRel s r row) ∧ Ext s₀ (Engine.headRel s r row) := by
  rw [headRel_eq]
  cases hd : findDyn s.dyn r with
  | none => exact ⟨hwf, hext⟩
  | some d =>
    have hr : r < n := by
      apply hlt
      rw [← hwf.dyn_iff, hd]; rfl
    simp only []
    split
    · exact ⟨hwf, hext⟩
    · exact ⟨WF_pushRow hwf hd hr, Ext_pushRow hwf hext hd hr⟩

/-! ## folding head updates: the rows applied so far -/

theorem fold_chunks {α : Type} (Inv : SccSt → PScc → Prop) (fP : PScc → α → PScc) (R : α → List (RelId × Tuple)) :
    ∀ (xs : List α),
      (∀ a ph x, x ∈ xs → Inv a ph → ∃ l, (∀ y, y ∈ l ↔ y ∈ R x) ∧ Inv (applyRows a l) (fP ph x)) →
      ∀ a ph, Inv a ph → ∃ l, (∀ y, y ∈ l ↔ y ∈ xs.flatMap R) ∧ Inv (applyRows a l) (xs.foldl fP ph)
  | [], _, a, ph, h => ⟨[], fun y => by simp, h⟩
  | x :: xs, step, a, ph, h => by
    obtain ⟨l₁, hm₁, h₁⟩ := step a ph x (by simp) h
    obtain ⟨l₂, hm₂, h₂⟩ := fold_chunks Inv fP R xs (fun a ph y hy => step a ph y (List.mem_cons_of_mem _ hy)) _ _ h₁
    refine ⟨l₁ ++ l₂, ?_, ?_⟩
    · intro y
      rw [List.mem_append, hm₁, hm₂, List.flatMap_cons, List.mem_append]
    · rw [applyRows_append]; exact h₂

/-- the invariant of a pass: the abstract state is well formed and extends the state at pass start, and simulates the
physical state -/
structure PI (p : Program E B G P A) (ix : IxSets) (dynR : List RelId) (a₀ a : SccSt) (ph : PScc) : Prop where
  wf : WF p.rels.length dynR a
  ext : Ext a₀ a
  sim : Sim p ix a ph

section Pass
variable (I : Interp E B G P A) (hI : Plan.Ext I) (cfg : Config) (V : Hir.VarsOf E B) (hS : Plan.Supp I V)
  (p : Program E B G P A) (hl : ∀ d ∈ p.rels, d.lat = false) (ix : IxSets) (dynR : List RelId)
  (hlt : ∀ r, dynR.contains r = true → r < p.rels.length)

/-- what the pass needs to know about a rule (from `planOk`, `Relational` and the hypotheses on the rules) -/
structure RuleFit (r : Rule E B G P A) : Prop where
  desug : Hir.Desugared V r = true
  wscoped : Plan.WellScoped V r = true
  clok : ClOk p ix (Hir.compileRule V r) 0 r.body
  aggFree : r.aggFree = true
  heads : ∀ h ∈ r.heads, h.args.length = arityOf p h.rel

include hlt in
theorem heads_sim (a₀ : SccSt) (heads : List (HeadClause E)) (hh : ∀ h ∈ heads, h.args.length = arityOf p h.rel)
    (ρ : Env) (a : SccSt) (ph : PScc) (h : PI p ix dynR a₀ a ph) :
    ∃ l, (∀ y, y ∈ l ↔ y ∈ headRows I heads ρ) ∧
      PI p ix dynR a₀ (applyRows a l) (heads.foldl (fun s h => Phys.headRel s h.rel (headRow I h ρ).2) ph) := by
  obtain ⟨l, hm, hinv⟩ := fold_chunks (PI p ix dynR a₀) (fun s (h : HeadClause E) => Phys.headRel s h.rel (headRow I h ρ).2)
    (fun h => [(h.rel, h.args.map fun e => I.expr e ρ)]) heads (by
      intro a ph hd hhd hinv
      refine ⟨[(hd.rel, hd.args.map fun e => I.expr e ρ)], fun _ => Iff.rfl, ?_⟩
      obtain ⟨h1, h2⟩ := headRel_wf_ext hlt hinv.wf hinv.ext hd.rel (hd.args.map fun e => I.expr e ρ)
      exact ⟨h1, h2, headRel_sim hinv.sim hinv.wf hlt hd.rel _ (by rw [List.length_map]; exact hh hd hhd)⟩) a ph h
  refine ⟨l, ?_, hinv⟩
  intro y
  rw [hm, mem_headRows]
  simp only [List.mem_flatMap, List.mem_singleton]

include hI hS hl hlt in
theorem variant_sim (a₀ : SccSt) (hwf0 : WF p.rels.length dynR a₀) (r : Rule E B G P A) (hr : RuleFit V p ix r)
    (vs : List (Option Ver)) (a : SccSt) (ph : PScc) (h : PI p ix dynR a₀ a ph) :
    ∃ l, (∀ y, y ∈ l ↔ y ∈ (evalBody I cfg p a₀ r.body vs []).flatMap (headRows I r.heads)) ∧
      PI p ix dynR a₀ (applyRows a l) (Phys.evalVariant I V p ph r vs) := by
  obtain ⟨l, hm, hinv⟩ := fold_chunks (PI p ix dynR a₀)
    (fun s ρ => r.heads.foldl (fun s h => Phys.headRel s h.rel (headRow I h ρ).2) s) (headRows I r.heads)
    (evalRule I p ph (Hir.compileRule V r) r.body vs)
    (fun a ph ρ _ hinv => heads_sim I p ix dynR hlt a₀ r.heads hr.heads ρ a ph hinv) a ph h
  refine ⟨l, ?_, hinv⟩
  intro y
  rw [hm, evalRule_rows I hI cfg V hS p ix a ph (sim_viewsOk cfg p hl ix h.sim h.wf) r hr.desug hr.wscoped hr.clok
    hr.aggFree vs y]
  simp only [List.mem_flatMap]
  constructor
  · rintro ⟨ρ, hρ, hy⟩
    exact ⟨ρ, (evalBody_frozen cfg p hl I hwf0 h.ext r.body hr.aggFree vs [] ρ).mp hρ, hy⟩
  · rintro ⟨ρ, hρ, hy⟩
    exact ⟨ρ, (evalBody_frozen cfg p hl I hwf0 h.ext r.body hr.aggFree vs [] ρ).mpr hρ, hy⟩

include hI hS hl hlt in
theorem rules_sim (a₀ : SccSt) (hwf0 : WF p.rels.length dynR a₀) (rules : List (Rule E B G P A))
    (hR : ∀ r ∈ rules, RuleFit V p ix r) (a : SccSt) (ph : PScc) (h : PI p ix dynR a₀ a ph) :
    ∃ l, (∀ y, y ∈ l ↔ y ∈ iterRows I cfg p dynR rules a₀) ∧
      PI p ix dynR a₀ (applyRows a l) (Phys.evalRules I V p dynR rules ph) := by
  obtain ⟨l, hm, hinv⟩ := fold_chunks (PI p ix dynR a₀)
    (fun s r => (variants dynR r).foldl (fun s vs => Phys.evalVariant I V p s r vs) s)
    (fun r => (variants dynR r).flatMap fun vs => (evalBody I cfg p a₀ r.body vs []).flatMap (headRows I r.heads))
    rules (by
      intro a ph r hr hinv
      exact fold_chunks (PI p ix dynR a₀) (fun s vs => Phys.evalVariant I V p s r vs)
        (fun vs => (evalBody I cfg p a₀ r.body vs []).flatMap (headRows I r.heads)) (variants dynR r)
        (fun a ph vs _ hinv => variant_sim I hI cfg V hS p hl ix dynR hlt a₀ hwf0 r (hR r hr) vs a ph hinv) a ph hinv)
    a ph h
  refine ⟨l, ?_, hinv⟩
  intro y
  rw [hm, mem_iterRows]
  simp only [List.mem_flatMap, iterTasks, List.mem_map, mem_headRows]
  constructor
  · rintro ⟨r, hr, vs, hvs, ρ, hρ, hd, hhd, rfl⟩
    exact ⟨(r, ρ), ⟨r, hr, vs, hvs, ρ, hρ, rfl⟩, hd, hhd, rfl⟩
  · rintro ⟨t, ⟨r, hr, vs, hvs, ρ, hρ, rfl⟩, hd, hhd, rfl⟩
    exact ⟨r, hr, vs, hvs, ρ, hρ, hd, hhd, rfl⟩

include hI hS hl hlt in
/-- **one pass** of the physical engine is a pass of the nondeterministic engine -/
theorem pass_sim (rules : List (Rule E B G P A)) (hR : ∀ r ∈ rules, RuleFit V p ix r) (a : SccSt) (ph : PScc)
    (hwf : WF p.rels.length dynR a) (hsim : Sim p ix a ph) :
    ∃ a1, PassND I cfg p dynR rules a a1 ∧
      Sim p ix a1 (Phys.evalRules I V p dynR rules { ph with changed := false }) := by
  have hwf0 : WF p.rels.length dynR { a with changed := false } := WF_reset _ dynR hwf
  obtain ⟨l, hm, hinv⟩ := rules_sim I hI cfg V hS p hl ix dynR hlt _ hwf0 rules hR _ _
    ⟨hwf0, Ext.refl _, reset_sim hsim⟩
  exact ⟨_, ⟨l, hm, rfl⟩, hinv.sim⟩

end Pass

/-! ## the loop of a looping SCC -/

section Loop
variable (I : Interp E B G P A) (hI : Plan.Ext I) (cfg : Config) (V : Hir.VarsOf E B) (hS : Plan.Supp I V)
  (p : Program E B G P A) (hl : ∀ d ∈ p.rels, d.lat = false) (ix : IxSets) (inp : RelId → List Tuple)
  (dynR : List RelId) (hlt : ∀ r, dynR.contains r = true → r < p.rels.length)

include hI hS hl hlt in
theorem sccLoop_sim (rules : List (Rule E B G P A)) (hR : ∀ r ∈ rules, RuleFit V p ix r)
    (hrules : ∀ rule ∈ rules, rule ∈ p.rules)
    (hdyn : ∀ rule ∈ rules, ∀ h ∈ rule.heads, dynR.contains h.rel = true) :
    ∀ (fuel : Nat) (rs rs' : RunSt) (a : SccSt), sccLoop I V p dynR rules fuel rs = some rs' →
      LoopInv I cfg p inp p.rels.length dynR rules (hasDyn dynR) a → Sim p ix a rs.st →
      ∃ a' k, LoopND I cfg p dynR rules a a' k ∧ Sim p ix a' rs'.st ∧ WF p.rels.length dynR a' := by
  have haf : ∀ rule ∈ rules, rule.aggFree = true := fun r hr => (hR r hr).aggFree
  intro fuel
  induction fuel with
  | zero => intro rs rs' a h; simp [sccLoop] at h
  | succ fuel ih =>
    intro rs rs' a h hinv hsim
    obtain ⟨a1, hpass, hsim1⟩ := pass_sim I hI cfg V hS p hl ix dynR hlt rules hR a rs.st hinv.wf hsim
    obtain ⟨hinv', _⟩ := iter_step_nd I cfg p inp p.rels.length dynR hlt hl rules hrules haf hdyn a a1 hinv hpass
    simp only [sccLoop] at h
    split at h
    · rename_i hch
      simp only [Option.some.injEq] at h
      subst h
      have hch' : a1.changed = false := by
        rw [hsim1.changed]; simpa using hch
      exact ⟨_, 1, LoopND.exit hpass hch', shift_sim hsim1, hinv'.wf⟩
    · rename_i hch
      have hch' : a1.changed = true := by
        rw [hsim1.changed]; simpa using hch
      obtain ⟨a', k, hloop, hsim', hwf'⟩ := ih _ rs' (Engine.shift a1) h
        (hinv'.weaken I cfg p inp p.rels.length dynR fun _ _ => trivial) (shift_sim hsim1)
      exact ⟨a', k + 1, LoopND.more hpass hch' hloop, hsim', hwf'⟩

end Loop

/-! ## `planOk`, unpacked -/

theorem increasing_colsOk {arity : Nat} {cols : List Nat} (h1 : increasing cols = true)
    (h2 : cols.all (· < arity) = true) : ColsOk arity cols :=
  ⟨h1, fun j hj => by simpa using List.all_eq_true.mp h2 j hj⟩

theorem clOk_of_ruleOk (V : Hir.VarsOf E B) (p : Program E B G P A) (ix : IxSets) (r : Rule E B G P A)
    (h : ruleOk V p ix r = true) : ClOk p ix (Hir.compileRule V r) 0 r.body := by
  intro k it hk
  rw [Nat.zero_add]
  have hlt : k < r.body.length := by
    rcases Nat.lt_or_ge k r.body.length with h' | h'
    · exact h'
    · rw [List.getElem?_eq_none h'] at hk; cases hk
  have hk' := List.all_eq_true.mp h k (List.mem_range.mpr hlt)
  rw [hk] at hk'
  cases it with
  | clause rel args conds =>
    show ColsOk (arityOf p rel) (Plan.colsAt (Hir.compileRule V r) k) ∧ _ ∧ _
    unfold Plan.colsAt
    cases hi : (Hir.compileRule V r).items[k]? with
    | none => rw [hi] at hk'; simp at hk'
    | some hit =>
      rw [hi] at hk'
      cases hit with
      | clause rel' cols dp =>
        simp only [Bool.and_eq_true, Bool.or_eq_true, beq_iff_eq, List.contains_iff_mem] at hk'
        obtain ⟨⟨⟨⟨_, h2⟩, h3⟩, h4⟩, h5⟩ := hk'
        exact ⟨increasing_colsOk h3 h4, h5, h2⟩
      | gen v => simp at hk'
      | ifc => simp at hk'
      | ifLet => simp at hk'
      | letc => simp at hk'
      | agg r' c' => simp at hk'
  | cond c => trivial
  | gen v g => trivial
  | agg a => trivial

theorem ruleFit_of_planOk (V : Hir.VarsOf E B) (p : Program E B G P A) (ix : IxSets) (hp : Relational p)
    (hplan : planOk V p ix = true)
    (hd : ∀ r ∈ p.rules, Hir.Desugared V r = true ∧ Plan.WellScoped V r = true) :
    ∀ r ∈ p.rules, RuleFit V p ix r := by
  intro r hr
  have h := List.all_eq_true.mp hplan r hr
  simp only [Bool.and_eq_true] at h
  refine ⟨(hd r hr).1, (hd r hr).2, clOk_of_ruleOk V p ix r h.1, hp.1 r hr, ?_⟩
  intro hc hhc
  simpa using List.all_eq_true.mp h.2 hc hhc

/-! ## one SCC, the SCCs in order -/

section Run
variable (I : Interp E B G P A) (hI : Plan.Ext I) (cfg : Config) (V : Hir.VarsOf E B) (hS : Plan.Supp I V)
  (p : Program E B G P A) (hp : Relational p) (ix : IxSets) (inp : RelId → List Tuple)
  (hR : ∀ r ∈ p.rules, RuleFit V p ix r)

include hI hS hp hR in
theorem runScc_sim (fuel : Nat) (scc : List Nat) (ps ps' : ProgSt) (st : St)
    (hinv : PInv I p inp p.rels.length st) (hs : SimSt p ix st ps.st)
    (h : runScc I V p fuel scc ps = some ps') : ∃ st', SccND I cfg p scc st st' ∧ SimSt p ix st' ps'.st := by
  obtain ⟨_, hl, hh⟩ := hp
  have hrules := sccRules_sub p scc
  have hRs : ∀ r ∈ sccRules p scc, RuleFit V p ix r := fun r hr => hR r (hrules r hr)
  have hdyn : ∀ rule ∈ sccRules p scc, ∀ h ∈ rule.heads, (dynRels p scc).contains h.rel = true :=
    fun rule hr h hhd => (dynRels_mem p scc h.rel).mpr ⟨rule, hr, h, hhd, rfl⟩
  have hlt : ∀ r, (dynRels p scc).contains r = true → r < p.rels.length := by
    intro r hr
    obtain ⟨rule, hrule, h, hhd, rfl⟩ := (dynRels_mem p scc r).mp hr
    exact hh rule (hrules rule hrule) h hhd
  have hinv0 := LoopInv_enter I cfg p inp p.rels.length (dynRels p scc) hl hinv (sccRules p scc)
  have hsim0 : Sim p ix (Engine.enterScc st (dynRels p scc)) (Phys.enterScc ps.st (dynRels p scc)) :=
    enter_sim hs _ (fun r hr => by rw [hinv.len]; exact hlt r (List.contains_iff_mem.mpr hr))
  have hdlt : ∀ a : SccSt, WF p.rels.length (dynRels p scc) a → ∀ d ∈ a.dyn, d.rel < a.rels.length := by
    intro a hwf d hd
    rw [hwf.len]; apply hlt
    rw [← hwf.dyn_iff, hwf.uniq d hd]; rfl
  simp only [runScc] at h
  split at h
  · rename_i hlp
    simp only [Option.map_eq_some_iff] at h
    obtain ⟨rs, hloop, rfl⟩ := h
    obtain ⟨a', k, hnd, hsim', hwf'⟩ := sccLoop_sim I hI cfg V hS p hl ix inp (dynRels p scc) hlt (sccRules p scc)
      hRs hrules hdyn fuel _ rs _ hloop hinv0 hsim0
    refine ⟨Engine.leaveScc a', ?_, leave_sim hsim' (hdlt a' hwf')⟩
    unfold SccND
    rw [if_pos hlp]
    exact ⟨a', k, hnd, rfl⟩
  · rename_i hlp
    simp only [Option.some.injEq] at h
    subst h
    obtain ⟨a1, hpass, hsim1⟩ := pass_sim I hI cfg V hS p hl ix (dynRels p scc) hlt (sccRules p scc) hRs _ _
      hinv0.wf hsim0
    obtain ⟨hinv', _⟩ := iter_step_nd I cfg p inp p.rels.length (dynRels p scc) hlt hl (sccRules p scc) hrules
      (fun r hr => (hRs r hr).aggFree) hdyn _ a1 hinv0 hpass
    refine ⟨Engine.leaveScc (Engine.shift (Engine.shift a1)), ?_,
      leave_sim (shift_sim (shift_sim hsim1)) (hdlt _ (WF_shift hinv'.wf))⟩
    unfold SccND
    rw [if_neg hlp]
    exact ⟨a1, hpass, rfl⟩

include hI hS hp hR in
theorem runSccs_sim (fuel : Nat) : ∀ (order : SccOrder) (ps ps' : ProgSt) (st : St),
    PInv I p inp p.rels.length st → SimSt p ix st ps.st → runSccs I V p fuel order ps = some ps' →
    ∃ st', SccsND I cfg p order st st' ∧ SimSt p ix st' ps'.st := by
  intro order
  induction order with
  | nil =>
    intro ps ps' st _ hs h
    simp only [runSccs, Option.some.injEq] at h
    subst h
    exact ⟨st, SccsND.nil, hs⟩
  | cons scc rest ih =>
    intro ps ps' st hinv hs h
    simp only [runSccs, Option.bind_eq_some_iff] at h
    obtain ⟨ps1, hscc, h⟩ := h
    obtain ⟨st1, hnd, hs1⟩ := runScc_sim I hI cfg V hS p hp ix inp hR fuel scc ps ps1 st hinv hs hscc
    have hinv1 := (sccND_spec I cfg p inp hp.2.1 hp.1 hp.2.2 scc st st1 hinv hnd).1
    obtain ⟨st2, hnd2, hs2⟩ := ih ps1 ps' st1 hinv1 hs1 h
    exact ⟨st2, SccsND.cons hnd hnd2, hs2⟩

end Run

end AscentVerif.Phys
