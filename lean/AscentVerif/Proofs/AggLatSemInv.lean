import AscentVerif.Proofs.LatStrata
import AscentVerif.Proofs.AggLatInv
import AscentVerif.Proofs.AggStrata
import AscentVerif.Spec.LatticeLfpAgg
/-!
# Semantics of mixed (lattice + aggregation) programs: invariants and one head update

The C03 development (`Proofs/Lat{Inv,Step}.lean`) with the aggregation view a parameter: `aggv` gives,
per aggregation ITEM, the list the item is evaluated on (`Agg.SatA`).  `Tgt` — the databases the
result must stay below — is "closed and monotone w.r.t. `aggv`".  The proofs of this file are those
of `LatInv` / `LatStep` (they never look inside `Tgt` beyond key-uniqueness).
-/
namespace AscentVerif.Engine.ALS
open AscentVerif AscentVerif.Engine

variable {E B G P A : Type}

/-- closed, aggregation items evaluated on `aggv` -/
def LClosedI (I : Interp E B G P A) (L : LatOrder I) (p : Program E B G P A) (aggv : AggClause E A → List Tuple)
    (inp M : DB) : Prop :=
  DBLe I L p inp M ∧
  ∀ rule ∈ p.rules, ∀ ρ, Agg.SatA I M aggv rule.body [] ρ → ∀ h ∈ rule.heads, Dominated I L p M (headFact I h ρ)

/-- monotone, aggregation items evaluated on `aggv` -/
def MonoI (I : Interp E B G P A) (L : LatOrder I) (p : Program E B G P A) (aggv : AggClause E A → List Tuple) : Prop :=
  ∀ M M' : DB, KeyUnique p M → KeyUnique p M' → DBLe I L p M M' →
    ∀ rule ∈ p.rules, ∀ ρ, Agg.SatA I M aggv rule.body [] ρ →
      ∃ ρ', Agg.SatA I M' aggv rule.body [] ρ' ∧
        ∀ h ∈ rule.heads, Dominated I L p (fun f => f = headFact I h ρ') (headFact I h ρ)

section Inv
variable (I : Interp E B G P A) (L : LatOrder I) (p : Program E B G P A) (aggv : AggClause E A → List Tuple)
  (inp : RelId → List Tuple) (dynR : List RelId) (st : St)

/-- the databases the result must stay below (nothing, unless the program is monotone) -/
def Tgt (M : DB) : Prop := MonoI I L p aggv ∧ KeyUnique p M ∧ LClosedI I L p aggv (inDB p inp) M

def Below (s : SccSt) : Prop := ∀ M, Tgt I L p aggv inp M → DBLe I L p (FactsS s) M

def BelowF (f : Fact) : Prop := ∀ M, Tgt I L p aggv inp M → Dominated I L p M f

structure LInv (s : SccSt) : Prop where
  wf : WF p.rels.length dynR s
  dlt : ∀ r, dynR.contains r = true → r < p.rels.length
  keys : ∀ r, (declOf p r).lat = true → ((rowsOf s r).map keyOf).Nodup
  relset : ∀ r, r < p.rels.length → (declOf p r).lat = false → SetRows inp r (rowsOf s r)
  below : Below I L p aggv inp s
  keep : ∀ r, dynR.contains r = false → relSt s.rels r = relSt st r

variable {I L p aggv inp dynR st}

theorem LInv.keyUnique {s : SccSt} (h : LInv I L p aggv inp dynR st s) : KeyUnique p (FactsS s) := by
  intro r t t' hl ht ht' hk
  exact row_of_key (h.keys r hl) ht ht' hk

theorem LInv.rel_lt {s : SccSt} (h : LInv I L p aggv inp dynR st s) {r : RelId} {t : Tuple} (ht : t ∈ rowsOf s r) :
    r < p.rels.length := by
  have := lt_of_mem_rows s.rels r t ht
  rw [h.wf.len] at this; exact this

section UpdInv
variable {s : SccSt} {r : RelId} {d d' : Dyn} {rows' : List Tuple}
theorem LInv_upd (hinv : LInv I L p aggv inp dynR st s) (hd : findDyn s.dyn r = some d) (hr : r < p.rels.length)
    (hrel : d'.rel = r)
    (hcov : ∀ i, i < rows'.length ↔ (i ∈ d'.total ∨ i ∈ d'.delta ∨ i ∈ d'.new))
    (hkeys : (declOf p r).lat = true → (rows'.map keyOf).Nodup)
    (hset : (declOf p r).lat = false → SetRows inp r rows')
    (hbelow : ∀ M, Tgt I L p aggv inp M → ∀ t ∈ rows', Dominated I L p M ⟨r, t⟩) :
    LInv I L p aggv inp dynR st (upd s r d' rows') := by
  have hr' : r < s.rels.length := by rw [hinv.wf.len]; exact hr
  refine ⟨WF_upd hinv.wf hd hr hrel hcov, hinv.dlt, ?_, ?_, ?_, ?_⟩
  · intro r' hl
    by_cases hne : r' = r
    · subst hne; rw [upd_rows_self hr']; exact hkeys hl
    · rw [upd_rows_ne hne]; exact hinv.keys r' hl
  · intro r' hr'n hl
    by_cases hne : r' = r
    · subst hne; rw [upd_rows_self hr']; exact hset hl
    · rw [upd_rows_ne hne]; exact hinv.relset r' hr'n hl
  · intro M hM f hf
    by_cases hne : f.rel = r
    · have hf' : f.args ∈ rowsOf (upd s r d' rows') f.rel := hf
      rw [hne, upd_rows_self hr'] at hf'
      have := hbelow M hM f.args hf'
      rw [← hne] at this; exact this
    · have hf' : f.args ∈ rowsOf (upd s r d' rows') f.rel := hf
      rw [upd_rows_ne hne] at hf'
      exact hinv.below M hM f hf'
  · intro r' hr'c
    have hne : r' ≠ r := by
      rintro rfl
      have := hinv.wf.dyn_iff r'
      rw [hd, hr'c] at this; cases this
    rw [upd_relSt_ne hne]; exact hinv.keep r' hr'c

end UpdInv

end Inv

theorem cover_push {rows : List Tuple} {d : Dyn} (row : Tuple)
    (hcov : ∀ i, i < rows.length ↔ (i ∈ d.total ∨ i ∈ d.delta ∨ i ∈ d.new)) :
    ∀ i, i < (rows ++ [row]).length ↔ (i ∈ d.total ∨ i ∈ d.delta ∨ i ∈ d.new ++ [rows.length]) := by
  intro i
  simp only [List.length_append, List.length_singleton, List.mem_append, List.mem_singleton]
  have := hcov i
  constructor
  · intro hi
    by_cases hlt : i < rows.length
    · rcases this.mp hlt with h | h | h
      · exact .inl h
      · exact .inr (.inl h)
      · exact .inr (.inr (.inl h))
    · exact .inr (.inr (.inr (by omega)))
  · rintro (h | h | h | h)
    · have := this.mpr (.inl h); omega
    · have := this.mpr (.inr (.inl h)); omega
    · have := this.mpr (.inr (.inr h)); omega
    · omega

theorem rowAt_of_ge (rows : List Tuple) (i : Nat) (h : rows.length ≤ i) : rowAt rows i = [] := by
  simp [rowAt, List.getD_eq_getElem?_getD, List.getElem?_eq_none h]

section Step
variable {I : Interp E B G P A} {L : LatOrder I} {p : Program E B G P A} {aggv : AggClause E A → List Tuple} {inp : RelId → List Tuple} {st : St}
  {dynR : List RelId}

theorem findDyn_of_dyn {s : SccSt} (hinv : LInv I L p aggv inp dynR st s) {r : RelId} (hdyn : dynR.contains r = true) :
    ∃ d, findDyn s.dyn r = some d := by
  have := hinv.wf.dyn_iff r
  rw [hdyn] at this
  exact Option.isSome_iff_exists.mp this

/-- appending a row with a fresh key / a new tuple -/
theorem push_step {s : SccSt} (hinv : LInv I L p aggv inp dynR st s) {r : RelId} {row : Tuple} {d : Dyn}
    (hd : findDyn s.dyn r = some d) (hr : r < p.rels.length)
    (hkeys : (declOf p r).lat = true → ∀ t ∈ rowsOf s r, keyOf t ≠ keyOf row)
    (hset : (declOf p r).lat = false → row ∉ rowsOf s r)
    (hbf : BelowF I L p aggv inp ⟨r, row⟩) :
    LInv I L p aggv inp dynR st (pushRow s r d row) ∧ LExt I L p s (pushRow s r d row) ∧
      Dominated I L p (FactsS (pushRow s r d row)) ⟨r, row⟩ := by
  have hr' : r < s.rels.length := by rw [hinv.wf.len]; exact hr
  have hcov := hinv.wf.cover r d hd
  have hrel := findDyn_rel hd
  rw [pushRow_eq_upd]
  refine ⟨LInv_upd hinv hd hr hrel (cover_push row hcov)
      (fun hl => nodup_keys_push (hinv.keys r hl) (hkeys hl))
      (fun hl => (hinv.relset r hr hl).append (hset hl)) ?_,
    LExt_upd hinv.wf hd hr hrel rfl rfl (fun i hi => List.mem_append_left _ hi) (by simp) ?_ ?_, ?_⟩
  · intro M hM t ht
    rcases List.mem_append.mp ht with ht | ht
    · exact hinv.below M hM ⟨r, t⟩ ht
    · simp only [List.mem_singleton] at ht
      subst ht; exact hbf M hM
  · intro i hne
    by_cases hi : i < (rowsOf s r).length
    · exact absurd (rowAt_append_left _ _ _ hi) hne
    · by_cases hi' : i = (rowsOf s r).length
      · exact List.mem_append_right _ (by simp [hi'])
      · exfalso
        apply hne
        rw [rowAt_of_ge _ _ (by simp; omega), rowAt_of_ge _ _ (by omega)]
  · intro t ht
    exact Dominated.of_mem I L p (List.mem_append_left _ ht)
  · apply Dominated.of_mem
    show row ∈ rowsOf (upd s r _ _) r
    rw [upd_rows_self hr']; simp

/-- joining into row `i`, whose key is the head's key -/
theorem join_step {s : SccSt} (hinv : LInv I L p aggv inp dynR st s) {r : RelId} {row : Tuple} {d : Dyn}
    (hd : findDyn s.dyn r = some d) (hr : r < p.rels.length) (hlat : (declOf p r).lat = true)
    {i : Nat} (hi : i < (rowsOf s r).length) (hkey : keyOf (rowAt (rowsOf s r) i) = keyOf row)
    (hbf : BelowF I L p aggv inp ⟨r, row⟩) :
    LInv I L p aggv inp dynR st (joinSt s r d i (I.joinMut r (valOf (rowAt (rowsOf s r) i)) (valOf row)).1) ∧
      LExt I L p s (joinSt s r d i (I.joinMut r (valOf (rowAt (rowsOf s r) i)) (valOf row)).1) ∧
      Dominated I L p (FactsS (joinSt s r d i (I.joinMut r (valOf (rowAt (rowsOf s r) i)) (valOf row)).1)) ⟨r, row⟩ := by
  have hr' : r < s.rels.length := by rw [hinv.wf.len]; exact hr
  have hcov := hinv.wf.cover r d hd
  have hrel := findDyn_rel hd
  rw [joinSt_eq_upd hinv.wf hd]
  generalize hx : (I.joinMut r (valOf (rowAt (rowsOf s r) i)) (valOf row)).1 = x
  have hrel' : (requeue d i).rel = r := by rw [requeue_rel]; exact hrel
  have hcov' : ∀ j, j < (joinRows (rowsOf s r) i x).length ↔
      (j ∈ (requeue d i).total ∨ j ∈ (requeue d i).delta ∨ j ∈ (requeue d i).new) := by
    intro j
    rw [joinRows_length, requeue_total, requeue_delta, mem_requeue_new, hcov j]
    constructor
    · rintro (h | h | h)
      · exact .inl h
      · exact .inr (.inl h)
      · exact .inr (.inr (.inl h))
    · rintro (h | h | h | h)
      · exact .inl h
      · exact .inr (.inl h)
      · exact .inr (.inr h)
      · subst h; exact (hcov j).mp hi
  have hnewrow : keyOf (rowAt (rowsOf s r) i) ++ [x] ∈ joinRows (rowsOf s r) i x := by
    rw [← joinRows_at_self x hi]
    exact rowAt_mem _ _ (by rw [joinRows_length]; exact hi)
  refine ⟨LInv_upd hinv hd hr hrel' hcov' (fun hl => by rw [joinRows_keys]; exact hinv.keys r hl)
      (fun hl => by rw [hlat] at hl; cases hl) ?_,
    LExt_upd hinv.wf hd hr hrel' (requeue_total d i) (requeue_delta d i)
      (fun j hj => (mem_requeue_new d i j).mpr (.inl hj)) (by rw [joinRows_length]; exact Nat.le_refl _) ?_ ?_, ?_⟩
  · -- below every target
    intro M hM t ht
    rcases mem_setNth _ _ _ _ ht with ht | ht
    · subst ht
      have h1 := hinv.below M hM ⟨r, rowAt (rowsOf s r) i⟩ (rowAt_mem _ _ hi)
      obtain ⟨t1, ht1, hk1, hv1⟩ := (dominated_lat I L p (f := ⟨r, rowAt (rowsOf s r) i⟩) hlat).mp h1
      obtain ⟨t2, ht2, hk2, hv2⟩ := (dominated_lat I L p (f := ⟨r, row⟩) hlat).mp (hbf M hM)
      have h12 : t1 = t2 := hM.2.1 r t1 t2 hlat ht1 ht2 (by rw [hk1, hk2]; exact hkey)
      subst h12
      refine (dominated_lat I L p (f := ⟨r, _⟩) hlat).mpr ⟨t1, ht1, ?_, ?_⟩
      · show keyOf t1 = keyOf (keyOf (rowAt (rowsOf s r) i) ++ [x])
        rw [keyOf_snoc]; exact hk1
      · show L.le r (valOf (keyOf (rowAt (rowsOf s r) i) ++ [x])) (valOf t1)
        rw [valOf_snoc, ← hx]
        exact L.join_least _ _ _ _ hv1 hv2
    · exact hinv.below M hM ⟨r, t⟩ ht
  · -- a changed row is queued
    intro j hne
    by_cases hji : j = i
    · exact (mem_requeue_new d i j).mpr (.inr hji)
    · exact absurd (joinRows_at_ne x hji) hne
  · -- rows only move up
    intro t ht
    obtain ⟨j, hj, rfl⟩ := (mem_iff_rowAt _ _).mp ht
    by_cases hji : j = i
    · subst hji
      refine (dominated_lat I L p (f := ⟨r, _⟩) hlat).mpr ⟨_, hnewrow, ?_, ?_⟩
      · rw [keyOf_snoc]
      · show L.le r (valOf (rowAt (rowsOf s r) j)) (valOf (keyOf (rowAt (rowsOf s r) j) ++ [x]))
        rw [valOf_snoc, ← hx]
        exact L.join_left _ _ _
    · apply Dominated.of_mem
      show rowAt (rowsOf s r) j ∈ joinRows (rowsOf s r) i x
      rw [← joinRows_at_ne x hji]
      exact rowAt_mem _ _ (by rw [joinRows_length]; exact hj)
  · -- the head is dominated
    refine (dominated_lat I L p (f := ⟨r, row⟩) hlat).mpr ⟨keyOf (rowAt (rowsOf s r) i) ++ [x], ?_, ?_, ?_⟩
    · show _ ∈ rowsOf (upd s r _ _) r
      rw [upd_rows_self hr']; exact hnewrow
    · rw [keyOf_snoc]; exact hkey
    · show L.le r (valOf row) (valOf (keyOf (rowAt (rowsOf s r) i) ++ [x]))
      rw [valOf_snoc, ← hx]
      exact L.join_right _ _ _

theorem headLat_step {s : SccSt} (hinv : LInv I L p aggv inp dynR st s) (r : RelId) (row : Tuple)
    (hlat : (declOf p r).lat = true) (hdyn : dynR.contains r = true) (hbf : BelowF I L p aggv inp ⟨r, row⟩) :
    LInv I L p aggv inp dynR st (headLat I {} s r row) ∧ LExt I L p s (headLat I {} s r row) ∧
      Dominated I L p (FactsS (headLat I {} s r row)) ⟨r, row⟩ := by
  have hr := hinv.dlt r hdyn
  obtain ⟨d, hd⟩ := findDyn_of_dyn hinv hdyn
  have hcov := hinv.wf.cover r d hd
  rw [headLat_eq, hd]
  simp only []
  cases hkr : keyRow (rowsOf s r) d (keyOf row) with
  | none =>
    simp only []
    exact push_step hinv hd hr (fun _ => keyRow_fresh hcov hkr) (fun hl => by rw [hlat] at hl; cases hl) hbf
  | some i =>
    obtain ⟨hi, hkey⟩ := keyRow_found hcov hkr
    simp only []
    by_cases hj : (I.joinMut r (valOf (rowAt (rowsOf s r) i)) (valOf row)).2 = true
    · rw [if_pos hj]
      exact join_step hinv hd hr hlat hi hkey hbf
    · rw [if_neg hj]
      refine ⟨hinv, LExt.refl I L p s, ?_⟩
      refine (dominated_lat I L p (f := ⟨r, row⟩) hlat).mpr ⟨rowAt (rowsOf s r) i, rowAt_mem _ _ hi, hkey, ?_⟩
      exact L.flag_false _ _ _ (by simpa using hj)

theorem headRel_step' {s : SccSt} (hinv : LInv I L p aggv inp dynR st s) (r : RelId) (row : Tuple)
    (hlat : (declOf p r).lat = false) (hdyn : dynR.contains r = true) (hbf : BelowF I L p aggv inp ⟨r, row⟩) :
    LInv I L p aggv inp dynR st (headRel s r row) ∧ LExt I L p s (headRel s r row) ∧
      Dominated I L p (FactsS (headRel s r row)) ⟨r, row⟩ := by
  have hr := hinv.dlt r hdyn
  obtain ⟨d, hd⟩ := findDyn_of_dyn hinv hdyn
  have hcov := hinv.wf.cover r d hd
  have hmem : ((bagTuples (rowsOf s r) d.total).contains row || (bagTuples (rowsOf s r) d.delta).contains row
          || (bagTuples (rowsOf s r) d.new).contains row) = true ↔ row ∈ rowsOf s r := by
    rw [Bool.or_eq_true, Bool.or_eq_true, mem_bagTuples, mem_bagTuples, mem_bagTuples, mem_iff_rowAt]
    constructor
    · rintro ((⟨i, hi, h⟩ | ⟨i, hi, h⟩) | ⟨i, hi, h⟩)
      · exact ⟨i, (hcov i).mpr (.inl hi), h⟩
      · exact ⟨i, (hcov i).mpr (.inr (.inl hi)), h⟩
      · exact ⟨i, (hcov i).mpr (.inr (.inr hi)), h⟩
    · rintro ⟨i, hi, h⟩
      rcases (hcov i).mp hi with hi | hi | hi
      · exact .inl (.inl ⟨i, hi, h⟩)
      · exact .inl (.inr ⟨i, hi, h⟩)
      · exact .inr ⟨i, hi, h⟩
  rw [headRel_eq, hd]
  simp only []
  split
  · rename_i hc
    exact ⟨hinv, LExt.refl I L p s, Dominated.of_mem I L p (hmem.mp hc)⟩
  · rename_i hc
    exact push_step hinv hd hr (fun hl => by rw [hlat] at hl; cases hl) (fun _ h => hc (hmem.mpr h)) hbf

theorem headUpdate_step {s : SccSt} (hinv : LInv I L p aggv inp dynR st s) (h : HeadClause E) (ρ : Env)
    (hdyn : dynR.contains h.rel = true) (hbf : BelowF I L p aggv inp (headFact I h ρ)) :
    LInv I L p aggv inp dynR st (headUpdate I {} p s h ρ) ∧ LExt I L p s (headUpdate I {} p s h ρ) ∧
      Dominated I L p (FactsS (headUpdate I {} p s h ρ)) (headFact I h ρ) := by
  unfold headUpdate
  cases hlat : (declOf p h.rel).lat with
  | true => exact headLat_step hinv h.rel _ hlat hdyn hbf
  | false => exact headRel_step' hinv h.rel _ hlat hdyn hbf

end Step

end AscentVerif.Engine.ALS
