import AscentVerif.Proofs.AggStrata
import AscentVerif.Proofs.Timeout
/-!
# Interrupted runs of programs with aggregation (step 3 of the proof of `Props/C13Agg.lean`)

Generalisation of `Proofs/Timeout.lean`: the value left by an interrupted SCC keeps the soundness
part of the invariant (`SInvA`), relative to an arbitrary per-item aggregation view that the SCC's
items read at SCC entry; an interrupted `runSccs` splits into a completed prefix and one interrupted
SCC; the strata induction of `Proofs/AggStrata.lean` for a completed PREFIX of the order.
-/
namespace AscentVerif.Engine.Agg
open AscentVerif AscentVerif.Engine

variable {E B G P A : Type}

section Timeout
variable (I : Interp E B G P A) (cfg : Config) (p : Program E B G P A) (inp : RelId → List Tuple)
  (aggv : AggClause E A → List Tuple) (K : Prop)

/-- what survives an early return: rows are derivable and extend the input; stored index entries
are valid row numbers (possibly not all of them) -/
structure SInvA (n : Nat) (st : St) : Prop where
  len : st.length = n
  good : ∀ r, r < n → GoodRows I p inp aggv r (relSt st r).rows
  idxIn : ∀ r i, i ∈ (relSt st r).idx → i < (relSt st r).rows.length

theorem PInv.sinvA {n : Nat} {st : St} (h : PInv I p inp aggv K n st) : SInvA I p inp aggv n st :=
  ⟨h.len, h.good, fun r i hi => (h.idxAll r i).mpr hi⟩

theorem SInvA.wfSt {st : St} (h : SInvA I p inp aggv p.rels.length st) : WFSt' p st := by
  refine ⟨h.len, ?_⟩
  intro rs hrs i hi
  obtain ⟨r, hr, rfl⟩ := List.mem_iff_getElem.mp hrs
  have : relSt st r = st[r] := by
    simp [relSt, List.getD_eq_getElem?_getD, List.getElem?_eq_getElem hr]
  rw [← this] at hi ⊢
  exact h.idxIn r i hi

variable (n : Nat) (dynR : List RelId) (hlt : ∀ r, dynR.contains r = true → r < n)
  (hl : ∀ d ∈ p.rels, d.lat = false)

include hlt hl in
/-- the loop of a looping SCC, interrupted -/
theorem sccLoop_timedOut (rules : List (Rule E B G P A))
    (hrules : ∀ rule ∈ rules, rule ∈ p.rules)
    (hdyn : ∀ rule ∈ rules, ∀ h ∈ rule.heads, dynR.contains h.rel = true)
    (dl : Deadline) : ∀ (fuel : Nat) (rs rs' : RunSt),
      LoopInv I cfg p inp aggv K n dynR rules (hasDyn dynR) rs.st →
      sccLoop I cfg p dynR rules dl fuel rs = .timedOut rs' →
      WF n dynR rs'.st ∧ Good I p inp aggv n rs'.st := by
  intro fuel
  induction fuel with
  | zero => intro rs rs' _ h; simp [sccLoop] at h
  | succ fuel ih =>
    intro rs rs' hinv h
    obtain ⟨hinv', _⟩ := iter_step I cfg p inp aggv K n dynR hlt hl rules hrules hdyn rs.st hinv
    simp only [sccLoop] at h
    split at h
    · cases h
    · split at h
      · simp only [Outcome.timedOut.injEq] at h
        subst h
        exact ⟨hinv'.wf, hinv'.good⟩
      · exact ih _ rs' (hinv'.weaken I cfg p inp aggv K n dynR fun _ _ => trivial) h

/-- dropping the local indices keeps the rows and leaves only valid index entries -/
theorem abandon_specA (scc : List Nat) {s : SccSt} (hwf : WF n (dynRels p scc) s) (hgood : Good I p inp aggv n s) :
    SInvA I p inp aggv n (abandonScc p scc s) := by
  refine ⟨by simp [abandonScc, hwf.len], ?_, ?_⟩
  · intro r hr
    have hr' : r < s.rels.length := by rw [hwf.len]; exact hr
    rw [relSt_abandon, if_pos hr']
    split
    · exact hgood r hr
    · exact hgood r hr
  · intro r i hi
    rw [relSt_abandon] at hi ⊢
    split at hi
    · rename_i hr
      rw [if_pos hr]
      split at hi
      · simp at hi
      · rename_i hc
        rw [if_neg hc]
        have hnd : (dynRels p scc).contains r = false := by
          cases hc' : (dynRels p scc).contains r with
          | false => rfl
          | true =>
            exfalso; apply hc
            rw [List.contains_iff_mem] at hc' ⊢
            exact List.mem_append_left _ hc'
        exact (hwf.cover_nd r (findDyn_none_of_not_dyn hwf hnd) i).mpr hi
    · simp at hi

end Timeout

section Timeout2
variable (I : Interp E B G P A) (cfg : Config) (p : Program E B G P A) (inp : RelId → List Tuple)
  (aggv : AggClause E A → List Tuple) (K : Prop)
  (hl : ∀ d ∈ p.rels, d.lat = false)
  (hh : ∀ r ∈ p.rules, ∀ h ∈ r.heads, h.rel < p.rels.length)

include hl hh in
/-- one SCC, interrupted: provided its aggregation items range over non-dynamic relations and read
`aggv` from the program value at SCC entry -/
theorem runScc_timedOut (dl : Deadline) (fuel : Nat) (scc : List Nat) (ps ps' : ProgSt)
    (hp : PInv I p inp aggv K p.rels.length ps.st)
    (hagg : ∀ rule ∈ sccRules p scc, ∀ a, Item.agg a ∈ rule.body →
      (dynRels p scc).contains a.rel = false ∧ aggOf cfg p ps.st a = aggv a)
    (h : runScc I cfg p dl fuel scc ps = .timedOut ps') :
    SInvA I p inp aggv p.rels.length ps'.st := by
  have hrules := sccRules_sub p scc
  have hdyn : ∀ rule ∈ sccRules p scc, ∀ h ∈ rule.heads, (dynRels p scc).contains h.rel = true :=
    fun rule hr h hhd => (dynRels_mem p scc h.rel).mpr ⟨rule, hr, h, hhd, rfl⟩
  have hlt : ∀ r, (dynRels p scc).contains r = true → r < p.rels.length := by
    intro r hr
    obtain ⟨rule, hrule, h, hhd, rfl⟩ := (dynRels_mem p scc r).mp hr
    exact hh rule (hrules rule hrule) h hhd
  have hagg0 : ∀ rule ∈ sccRules p scc, AggOK cfg p aggv (dynRels p scc) rule (enterScc ps.st (dynRels p scc)) := by
    intro rule hr a ha
    obtain ⟨h1, h2⟩ := hagg rule hr a ha
    refine ⟨h1, ?_⟩
    rw [aggTuples_eq_aggOf, enterScc_rels]; exact h2
  have hinv0 := LoopInv_enter I cfg p inp aggv K p.rels.length (dynRels p scc) hl hp (sccRules p scc) hagg0
  simp only [runScc] at h
  split at h
  · split at h
    · cases h
    · rename_i rs hloop
      simp only [Outcome.timedOut.injEq] at h
      subst h
      obtain ⟨hwf, hgood⟩ := sccLoop_timedOut I cfg p inp aggv K p.rels.length (dynRels p scc) hlt hl (sccRules p scc)
        hrules hdyn dl fuel _ rs hinv0 hloop
      exact abandon_specA I p inp aggv p.rels.length scc hwf hgood
    · cases h
  · split at h
    · simp only [Outcome.timedOut.injEq] at h
      subst h
      obtain ⟨hinv, _⟩ := iter_step I cfg p inp aggv K p.rels.length (dynRels p scc) hlt hl (sccRules p scc)
        hrules hdyn _ hinv0
      exact abandon_specA I p inp aggv p.rels.length scc (WF_shift hinv.wf) hinv.good
    · cases h

end Timeout2

/-! ## an interrupted `runSccs` = a completed prefix + one interrupted SCC -/

theorem runSccs_timedOut_split (I : Interp E B G P A) (cfg : Config) (p : Program E B G P A) (dl : Deadline)
    (fuel : Nat) : ∀ (o : SccOrder) (ps ps' : ProgSt), runSccs I cfg p dl fuel o ps = .timedOut ps' →
      ∃ (done : SccOrder) (scc : List Nat) (rest : SccOrder) (psMid : ProgSt),
        o = done ++ scc :: rest ∧ runSccs I cfg p dl fuel done ps = .done psMid ∧
        runScc I cfg p dl fuel scc psMid = .timedOut ps' := by
  intro o
  induction o with
  | nil => intro ps ps' h; simp [runSccs] at h
  | cons scc rest ih =>
    intro ps ps' h
    simp only [runSccs] at h
    split at h
    · rename_i ps1 hscc
      obtain ⟨done, scc', rest', psMid, ho, hdone, hto⟩ := ih ps1 ps' h
      refine ⟨scc :: done, scc', rest', psMid, by rw [ho]; rfl, ?_, hto⟩
      simp only [runSccs, hscc]
      exact hdone
    · exact ⟨[], scc, rest, ps, rfl, rfl, h⟩

/-! ## the strata induction over a completed prefix of the order -/

section Prefix
variable (I : Interp E B G P A) (cfg : Config) (p : Program E B G P A) (inp : RelId → List Tuple) (K : Prop)
  (hl : ∀ d ∈ p.rels, d.lat = false)
  (hh : ∀ r ∈ p.rules, ∀ h ∈ r.heads, h.rel < p.rels.length)
  (o : SccOrder) (ho : validOrder p o = true) (hs : ∀ s ∈ o, aggOverDynamic p s = false)
  (aggv : AggClause E A → List Tuple)

include hl hh ho hs in
/-- `runSccs_spec` for a prefix `done ++ rest` of the order (`post` is not run): the view `aggv` must
be what the items of the SCCs that are run read from the value `ps'` reached -/
theorem runSccs_prefix_spec (dl : Deadline) (fuel : Nat) (ps' : ProgSt) (post : SccOrder) :
    ∀ (rest done : SccOrder) (ps : ProgSt),
    done ++ (rest ++ post) = o → PInv I p inp aggv K p.rels.length ps.st →
    (∀ scc ∈ done, ClosedRules I aggv (sccRules p scc) (factsOf ps.st)) →
    (∀ scc ∈ rest, ∀ rule ∈ sccRules p scc, ∀ a, Item.agg a ∈ rule.body → aggOf cfg p ps'.st a = aggv a) →
    runSccs I cfg p dl fuel rest ps = .done ps' →
    PInv I p inp aggv K p.rels.length ps'.st ∧
      ∀ scc ∈ done ++ rest, ClosedRules I aggv (sccRules p scc) (factsOf ps'.st) := by
  intro rest
  induction rest with
  | nil =>
    intro done ps _ hp hcl _ h
    simp only [runSccs, Outcome.done.injEq] at h
    subst h
    rw [List.append_nil]
    exact ⟨hp, hcl⟩
  | cons scc rest ih =>
    intro done ps hdone hp hcl hfin h
    have hdone' : done ++ scc :: (rest ++ post) = o := by simpa using hdone
    have hagg : ∀ rule ∈ sccRules p scc, ∀ a, Item.agg a ∈ rule.body →
        (dynRels p scc).contains a.rel = false ∧ aggOf cfg p ps.st a = aggv a := by
      intro rule hrule a ha
      subst hdone'
      have hnl := agg_rel_not_later p done (rest ++ post) scc ho hs rule hrule a ha
      refine ⟨hnl scc (by simp), ?_⟩
      rw [← hfin scc (by simp) rule hrule a ha]
      refine (aggOf_congr cfg p a ?_).symm
      refine runSccs_stable I cfg p hl dl fuel a.rel (scc :: rest) ps ps' h ?_
      intro scc' hscc'
      apply hnl scc'
      rcases List.mem_cons.mp hscc' with e | e
      · exact e ▸ List.mem_cons_self
      · exact List.mem_cons_of_mem _ (List.mem_append_left _ e)
    simp only [runSccs] at h
    split at h
    · rename_i ps1 hscc
      obtain ⟨hp1, hsame, hmono, hcl1⟩ :=
        runScc_spec I cfg p inp aggv K hl hh dl fuel scc ps ps1 hp hagg hscc
      have := ih (done ++ [scc]) ps1 (by rw [List.append_assoc]; exact hdone') hp1 ?_
        (fun s hs' => hfin s (List.mem_cons_of_mem _ hs')) h
      · refine ⟨this.1, ?_⟩
        intro s hs'
        apply this.2 s
        simpa using hs'
      intro scc' hscc'
      rcases List.mem_append.mp hscc' with hscc' | hscc'
      · intro rule hrule ρ hsat hd hhd
        have hfw := validOrder_forward p o ho done scc (rest ++ post) hdone' scc' hscc' rule hrule
        have hsat' : SatA I (factsOf ps.st) aggv rule.body [] ρ := by
          refine SatA.congr_rels hsat ?_
          intro r hr t ht
          have : relSt ps1.st r = relSt ps.st r := hsame r (hfw r hr)
          simp only [factsOf] at ht ⊢
          rw [← this]; exact ht
        exact hmono _ _ (hcl scc' hscc' rule hrule ρ hsat' hd hhd)
      · simp only [List.mem_singleton] at hscc'
        subst hscc'
        exact hcl1
    · rename_i hne
      cases hr : runScc I cfg p dl fuel scc ps with
      | done x => exact absurd hr (hne x)
      | timedOut x => rw [hr] at h; cases h
      | outOfFuel => rw [hr] at h; cases h

end Prefix

end AscentVerif.Engine.Agg
