import AscentVerif.Proofs.AggStrata
/-!
# Stratified restart, specification level (step 1 of the proof of `Props/C13Agg.lean`)

Two databases `D₁`, `D₂`, each sound w.r.t. a least model (`DerA`, own aggregation view, own inputs),
each containing the inputs of the other, each closed under the rules of the first `m` classes of a
valid stratified SCC order, and such that *agreeing on an aggregated relation makes the two views
of the item interchangeable* (`AggEq`), agree on every relation all of whose defining rules lie in
the first `m` classes.  No engine state occurs here.
-/
namespace AscentVerif.Engine.Agg
open AscentVerif AscentVerif.Engine

variable {E B G P A : Type}

/-! ## interchangeable aggregation views -/

/-- the two views give item `a` the same environments, whatever the environment before it -/
def AggEq (I : Interp E B G P A) (aggv aggv' : AggClause E A → List Tuple) (a : AggClause E A) : Prop :=
  ∀ ρ, aggEnvs I a ρ (aggv a) = aggEnvs I a ρ (aggv' a)

theorem AggEq.symm {I : Interp E B G P A} {aggv aggv' : AggClause E A → List Tuple} {a : AggClause E A}
    (h : AggEq I aggv aggv' a) : AggEq I aggv' aggv a := fun ρ => (h ρ).symm

theorem AggEq.of_eq {I : Interp E B G P A} {aggv aggv' : AggClause E A → List Tuple} {a : AggClause E A}
    (h : aggv a = aggv' a) : AggEq I aggv aggv' a := fun ρ => by rw [h]

theorem AggEq.trans {I : Interp E B G P A} {aggv aggv' aggv'' : AggClause E A → List Tuple} {a : AggClause E A}
    (h : AggEq I aggv aggv' a) (h' : AggEq I aggv' aggv'' a) : AggEq I aggv aggv'' a :=
  fun ρ => (h ρ).trans (h' ρ)

theorem SatA.congr_aggEq {I : Interp E B G P A} {aggv aggv' : AggClause E A → List Tuple} {D : DB} :
    ∀ {items : List (Item E B G P A)} {ρ ρ' : Env}, SatA I D aggv items ρ ρ' →
      (∀ a, Item.agg a ∈ items → AggEq I aggv aggv' a) → SatA I D aggv' items ρ ρ' := by
  intro items ρ ρ' hs
  induction hs with
  | nil ρ => intro _; exact .nil ρ
  | clause t hd hm hc _ ih => intro h; exact .clause t hd hm hc (ih fun a ha => h a (List.mem_cons_of_mem _ ha))
  | cond hc _ ih => intro h; exact .cond hc (ih fun a ha => h a (List.mem_cons_of_mem _ ha))
  | gen x hx _ ih => intro h; exact .gen x hx (ih fun a ha => h a (List.mem_cons_of_mem _ ha))
  | @aggr a rest ρ ρ₁ ρ₂ ha _ ih =>
    intro h
    refine .aggr ?_ (ih fun a ha => h a (List.mem_cons_of_mem _ ha))
    rw [← h a (by simp) ρ]; exact ha

/-- interchangeable views on all items of the rules: same closed sets -/
theorem closedA_congr_aggEq {I : Interp E B G P A} {rules : List (Rule E B G P A)}
    {aggv aggv' : AggClause E A → List Tuple} {inp D : DB}
    (h : ∀ r ∈ rules, ∀ a, Item.agg a ∈ r.body → AggEq I aggv' aggv a)
    (hc : ClosedA I rules aggv inp D) : ClosedA I rules aggv' inp D := by
  refine ⟨hc.1, ?_⟩
  rintro f ⟨r, hr, ρ, hs, hh⟩
  exact hc.2 f ⟨r, hr, ρ, SatA.congr_aggEq hs (fun a ha => h r hr a ha), hh⟩

/-! ## the SCC order, by position -/

/-- rule number `i` lies in one of the first `k` classes of the order -/
def InPrefix (o : SccOrder) (k i : Nat) : Prop := ∃ a, a < k ∧ i ∈ o.getD a []

/-- every rule having `r` among its heads lies in the first `k` classes -/
def DefinedBy (p : Program E B G P A) (o : SccOrder) (k : Nat) (r : RelId) : Prop :=
  ∀ i rule, p.rules[i]? = some rule → r ∈ rule.headRels → InPrefix o k i

theorem InPrefix.mono {o : SccOrder} {k k' i : Nat} (h : InPrefix o k i) (hk : k ≤ k') : InPrefix o k' i := by
  obtain ⟨a, ha, hi⟩ := h
  exact ⟨a, Nat.lt_of_lt_of_le ha hk, hi⟩

theorem DefinedBy.mono {p : Program E B G P A} {o : SccOrder} {k k' : Nat} {r : RelId} (h : DefinedBy p o k r)
    (hk : k ≤ k') : DefinedBy p o k' r := fun i rule hr hh => (h i rule hr hh).mono hk

theorem getD_nil_lt {o : SccOrder} {a i : Nat} (h : i ∈ o.getD a []) : a < o.length := by
  apply Classical.byContradiction
  intro hn
  rw [List.getD_eq_getElem?_getD, List.getElem?_eq_none (Nat.le_of_not_lt hn)] at h
  simp at h

theorem getD_mem_order {o : SccOrder} {a : Nat} (h : a < o.length) : o.getD a [] ∈ o := by
  rw [List.getD_eq_getElem?_getD, List.getElem?_eq_getElem h]
  exact List.getElem_mem h

theorem cover_idx (p : Program E B G P A) (o : SccOrder) (ho : validOrder p o = true) (i : Nat)
    (hi : i < p.rules.length) : ∃ a, a < o.length ∧ i ∈ o.getD a [] := by
  obtain ⟨scc, hscc, hiscc⟩ := validOrder_cover p o ho i hi
  obtain ⟨a, ha, rfl⟩ := List.mem_iff_getElem.mp hscc
  refine ⟨a, ha, ?_⟩
  rw [List.getD_eq_getElem?_getD, List.getElem?_eq_getElem ha]
  exact hiscc

theorem lt_of_getElem?_some {α : Type} {l : List α} {i : Nat} {x : α} (h : l[i]? = some x) : i < l.length := by
  apply Classical.byContradiction
  intro hn
  rw [List.getElem?_eq_none (Nat.le_of_not_lt hn)] at h
  cases h

theorem feeds_of_head_body (p : Program E B G P A) {i i' : Nat} {rule rule' : Rule E B G P A}
    (h' : p.rules[i']? = some rule') (h : p.rules[i]? = some rule) {r : RelId}
    (hh : r ∈ rule'.headRels) (hb : r ∈ rule.bodyRels) : feeds p i' i = true := by
  simp only [feeds, h, h']
  rw [List.any_eq_true]
  exact ⟨r, hh, List.contains_iff_mem.mpr hb⟩

/-- the body relations of a rule of the first `k` classes are defined in the first `k` classes -/
theorem body_definedBy (p : Program E B G P A) (o : SccOrder) (ho : validOrder p o = true) {i k : Nat}
    {rule : Rule E B G P A} (hget : p.rules[i]? = some rule) (hpre : InPrefix o k i) :
    ∀ b ∈ rule.bodyRels, DefinedBy p o k b := by
  intro b hb i' rule' hget' hh
  obtain ⟨a, hak, hia⟩ := hpre
  obtain ⟨a', ha', hia'⟩ := cover_idx p o ho i' (lt_of_getElem?_some hget')
  have hle := validOrder_feeds p o ho a' a ha' (getD_nil_lt hia) i' hia' i hia
    (feeds_of_head_body p hget' hget hh hb)
  exact ⟨a', by omega, hia'⟩

theorem mem_sccRules_of (p : Program E B G P A) {scc : List Nat} {i : Nat} {rule : Rule E B G P A}
    (hi : i ∈ scc) (hget : p.rules[i]? = some rule) : rule ∈ sccRules p scc :=
  (mem_sccRules p scc rule).mpr ⟨i, hi, hget⟩

/-- the relation aggregated by a rule of class number `j` is defined strictly before class `j` -/
theorem agg_definedBy (p : Program E B G P A) (o : SccOrder) (ho : validOrder p o = true)
    (hs : ∀ s ∈ o, aggOverDynamic p s = false) {i j : Nat} {rule : Rule E B G P A}
    (hget : p.rules[i]? = some rule) (hij : i ∈ o.getD j []) {a : AggClause E A} (ha : Item.agg a ∈ rule.body) :
    DefinedBy p o j a.rel := by
  intro i' rule' hget' hh
  obtain ⟨b, hb, hib⟩ := cover_idx p o ho i' (lt_of_getElem?_some hget')
  have hjl : j < o.length := getD_nil_lt hij
  have hbody : a.rel ∈ rule.bodyRels := by
    simp only [Rule.bodyRels, List.mem_filterMap]
    exact ⟨Item.agg a, ha, rfl⟩
  have hle := validOrder_feeds p o ho b j hb hjl i' hib i hij (feeds_of_head_body p hget' hget hh hbody)
  refine ⟨b, ?_, hib⟩
  apply Nat.lt_of_le_of_ne hle
  intro e
  subst e
  have h1 := aggOverDynamic_false p (o.getD b []) (hs _ (getD_mem_order hb)) rule (mem_sccRules_of p hij hget) a ha
  have h2 : (dynRels p (o.getD b [])).contains a.rel = true := by
    rw [dynRels_mem]
    simp only [Rule.headRels, List.mem_map] at hh
    obtain ⟨h, hh1, hh2⟩ := hh
    exact ⟨rule', mem_sccRules_of p hib hget', h, hh1, hh2⟩
  rw [h1] at h2
  cases h2

/-! ## the strata induction -/

section Strata
variable (I : Interp E B G P A) (p : Program E B G P A) (o : SccOrder) (ho : validOrder p o = true)
  (hs : ∀ s ∈ o, aggOverDynamic p s = false)

include ho hs in
/-- one inclusion of one step: `D'`, sound for `aggv'`, is contained in `D`, closed for `aggv`, on the
relations defined in the first `k` classes, provided both agree on the relations defined earlier -/
theorem strata_dir (aggv aggv' : AggClause E A → List Tuple) (inp' D D' : DB) (m k : Nat) (hk : k ≤ m)
    (hsound : ∀ f, D' f → DerA I p.rules aggv' inp' f)
    (hinp : ∀ f, inp' f → D f)
    (hcl : ∀ i rule, p.rules[i]? = some rule → InPrefix o m i →
      ∀ ρ, SatA I D aggv rule.body [] ρ → ∀ h ∈ rule.heads, D (headFact I h ρ))
    (hlink : ∀ i rule a, p.rules[i]? = some rule → InPrefix o m i → Item.agg a ∈ rule.body →
      (∀ t, D ⟨a.rel, t⟩ ↔ D' ⟨a.rel, t⟩) → AggEq I aggv' aggv a)
    (IH : ∀ j, j < k → ∀ r, DefinedBy p o j r → ∀ t, D ⟨r, t⟩ ↔ D' ⟨r, t⟩) :
    ∀ r, DefinedBy p o k r → ∀ t, D' ⟨r, t⟩ → D ⟨r, t⟩ := by
  intro r hr t ht
  have hclosed : ClosedA I p.rules aggv' inp' (fun f => DefinedBy p o k f.rel → D f) := by
    refine ⟨fun f hf _ => hinp f hf, ?_⟩
    rintro f ⟨rule, hrule, ρ, hsat, h, hh, rfl⟩ hdef
    obtain ⟨i, hi, hri⟩ := List.mem_iff_getElem.mp hrule
    have hget : p.rules[i]? = some rule := by rw [List.getElem?_eq_getElem hi, hri]
    have hpre : InPrefix o k i := hdef i rule hget (List.mem_map.mpr ⟨h, hh, rfl⟩)
    have hbody := body_definedBy p o ho hget hpre
    have hsat1 : SatA I D aggv' rule.body [] ρ :=
      SatA.congr_rels hsat (fun r' hr' t' ht' => ht' (hbody r' hr'))
    have hsat2 : SatA I D aggv rule.body [] ρ := by
      refine SatA.congr_aggEq hsat1 ?_
      intro a ha
      obtain ⟨j, hj, hij⟩ := hpre
      exact hlink i rule a hget ⟨j, Nat.lt_of_lt_of_le hj hk, hij⟩ ha
        (IH j hj a.rel (agg_definedBy p o ho hs hget hij ha))
    exact hcl i rule hget (hpre.mono hk) ρ hsat2 h hh
  exact derA_least I p.rules aggv' inp' _ hclosed ⟨r, t⟩ (hsound _ ht) hr

include ho hs in
/-- **two sound, mutually input-containing databases, closed under the first `m` classes, agree on
every relation defined in the first `m` classes** -/
theorem strata_agree (aggv₁ aggv₂ : AggClause E A → List Tuple) (in₁ in₂ D₁ D₂ : DB) (m : Nat)
    (h1 : ∀ f, D₁ f → DerA I p.rules aggv₁ in₁ f) (h2 : ∀ f, D₂ f → DerA I p.rules aggv₂ in₂ f)
    (hin₁ : ∀ f, in₁ f → D₂ f) (hin₂ : ∀ f, in₂ f → D₁ f)
    (hc₁ : ∀ i rule, p.rules[i]? = some rule → InPrefix o m i →
      ∀ ρ, SatA I D₁ aggv₁ rule.body [] ρ → ∀ h ∈ rule.heads, D₁ (headFact I h ρ))
    (hc₂ : ∀ i rule, p.rules[i]? = some rule → InPrefix o m i →
      ∀ ρ, SatA I D₂ aggv₂ rule.body [] ρ → ∀ h ∈ rule.heads, D₂ (headFact I h ρ))
    (hlink : ∀ i rule a, p.rules[i]? = some rule → InPrefix o m i → Item.agg a ∈ rule.body →
      (∀ t, D₁ ⟨a.rel, t⟩ ↔ D₂ ⟨a.rel, t⟩) → AggEq I aggv₁ aggv₂ a) :
    ∀ k, k ≤ m → ∀ r, DefinedBy p o k r → ∀ t, D₁ ⟨r, t⟩ ↔ D₂ ⟨r, t⟩ := by
  intro k
  induction k using Nat.strongRecOn with
  | _ k IH =>
    intro hk r hr t
    have IH' : ∀ j, j < k → ∀ r, DefinedBy p o j r → ∀ t, D₁ ⟨r, t⟩ ↔ D₂ ⟨r, t⟩ :=
      fun j hj => IH j hj (Nat.le_trans (Nat.le_of_lt hj) hk)
    constructor
    · exact strata_dir I p o ho hs aggv₂ aggv₁ in₁ D₂ D₁ m k hk h1 hin₁ hc₂
        (fun i rule a hg hp ha he => hlink i rule a hg hp ha (fun t => (he t).symm))
        (fun j hj r hr t => (IH' j hj r hr t).symm) r hr t
    · exact strata_dir I p o ho hs aggv₁ aggv₂ in₂ D₁ D₂ m k hk h2 hin₂ hc₁
        (fun i rule a hg hp ha he => (hlink i rule a hg hp ha he).symm)
        IH' r hr t

end Strata

end AscentVerif.Engine.Agg
