import AscentVerif.Model.EnginePhysParLatTimeout
import AscentVerif.Proofs.PhysParLatTop
import AscentVerif.Proofs.PhysParTimeout
/-!
# `run_timeout` of the parallel physical engine WITH lattices

* `sccLoopT_done` / `runSccT_done` / `runSccsT_done` / `runTimeout_done`: a call that returned `true` never took the early
  return, so it computed exactly what `PhysParLat.run` computes under the same schedule, in the same pool, in the same
  rule-scheduling mode (same value, same schedule clock, same iteration counts);
* `abandon_soundP`: the early return keeps the row vectors and leaves only unfrozen indices in the struct;
* `sccLoopT_simP` / `runSccT_simP` / `runSccsT_simP` / `runTimeout_okP`: whatever the schedule, the pool, the mode, the deadline
  oracle and the fuel, the call never panics (the simulation invariant `PIS` of `Proofs/PhysParLatRun.lean`, with its
  frozen / unfrozen protocol state, holds between the iterations, and the early return touches no index), and if it was
  interrupted the value it leaves is `AbSound`: a program value `run()` may be called on, one row per lattice key, plain relations =
  start rows ++ duplicate-free new rows, above the start value and below every target (`Tgt`: the closed key-unique databases
  of a monotone program) — the invariant `LInv` of `Proofs/LatInv.lean`, which holds in every SCC state of every execution of the
  nondeterministic lattice engine, read off in the SCC state the abandoned physical state simulates.
-/
namespace AscentVerif.PhysParLat
open AscentVerif AscentVerif.Engine AscentVerif.Index AscentVerif.Phys AscentVerif.PhysLat AscentVerif.PhysPar

variable {E B G P A : Type}

/-! ## unfolding -/

theorem sccLoopT_succ (I : Interp E B G P A) (V : Hir.VarsOf E B) (p : Program E B G P A) (σ : PhysPar.Sched E B G P A)
    (interRule : Bool) (dyn : List RelId) (rules : List (Rule E B G P A)) (dl : Deadline) (fuel : Nat) (rs : RunStT) :
    sccLoopT I V p σ interRule dyn rules dl (fuel + 1) rs =
      (iteration I V p σ interRule rs.clock dyn rules rs.st >>= fun s1 =>
       shift s1.1 >>= fun s2 =>
       if !s1.1.pc.changed then
         pure (.done { st := s2, clock := s1.2, checks := rs.checks, iters := rs.iters + 1 })
       else if dl rs.checks then
         pure (.timedOut { st := s2, clock := s1.2, checks := rs.checks + 1, iters := rs.iters + 1 })
       else sccLoopT I V p σ interRule dyn rules dl fuel
         { st := s2, clock := s1.2, checks := rs.checks + 1, iters := rs.iters + 1 }) := rfl

/-- what `runSccT` does with the result of the loop of a looping SCC -/
def endLoopT (threads : Nat) (p : Program E B G P A) (scc : List Nat) (ps : ProgStT) : Outcome RunStT → Outcome ProgStT
  | .done rs => .done { st := leaveScc p scc rs.st, clock := rs.clock, checks := rs.checks, iters := ps.iters ++ [rs.iters] }
  | .timedOut rs =>
    .timedOut { st := abandonScc threads p scc rs.st, clock := rs.clock, checks := rs.checks, iters := ps.iters ++ [rs.iters] }
  | .outOfFuel => .outOfFuel

theorem runSccT_eq (I : Interp E B G P A) (V : Hir.VarsOf E B) (p : Program E B G P A) (σ : PhysPar.Sched E B G P A)
    (interRule : Bool) (threads : Nat) (dl : Deadline) (fuel : Nat) (scc : List Nat) (ps : ProgStT) :
    runSccT I V p σ interRule threads dl fuel scc ps =
      if isLooping p scc then
        sccLoopT I V p σ interRule (dynRels p scc) (sccRules p scc) dl fuel
          { st := enterScc threads p scc ps.st, clock := ps.clock, checks := ps.checks, iters := 0 } >>= fun r =>
        pure (endLoopT threads p scc ps r)
      else
        iteration I V p σ interRule ps.clock (dynRels p scc) (sccRules p scc) (enterScc threads p scc ps.st) >>= fun s1 =>
        shift s1.1 >>= fun s2 =>
        shift s2 >>= fun s3 =>
        if dl ps.checks then
          pure (.timedOut { st := abandonScc threads p scc s3, clock := s1.2, checks := ps.checks + 1,
                            iters := ps.iters ++ [1] })
        else
          pure (.done { st := leaveScc p scc s3, clock := s1.2, checks := ps.checks + 1, iters := ps.iters ++ [1] }) := by
  unfold runSccT
  split
  · show (_ >>= _) = (_ >>= _)
    congr 1
    funext r
    cases r <;> rfl
  · rfl

/-! ## a completed `run_timeout` is a `run()` under the same schedule -/

theorem sccLoopT_done (I : Interp E B G P A) (V : Hir.VarsOf E B) (p : Program E B G P A) (σ : PhysPar.Sched E B G P A)
    (interRule : Bool) (dyn : List RelId) (rules : List (Rule E B G P A)) (dl : Deadline) : ∀ (fuel : Nat) (rs rs' : RunStT),
    sccLoopT I V p σ interRule dyn rules dl fuel rs = .ok (.done rs') →
    sccLoop I V p σ interRule dyn rules fuel ⟨rs.st, rs.clock, rs.iters⟩ = .ok (some ⟨rs'.st, rs'.clock, rs'.iters⟩) := by
  intro fuel
  induction fuel with
  | zero => intro rs rs' h; cases h
  | succ fuel ih =>
    intro rs rs' h
    rw [sccLoopT_succ] at h
    rw [sccLoop_succ]
    show (iteration I V p σ interRule rs.clock dyn rules rs.st >>= _) = _
    cases hit : iteration I V p σ interRule rs.clock dyn rules rs.st with
    | panic => rw [hit] at h; cases h
    | ok s1 =>
      rw [hit, bind_ok] at h
      rw [bind_ok]
      cases hsh : shift s1.1 with
      | panic => rw [hsh] at h; cases h
      | ok s2 =>
        rw [hsh, bind_ok] at h
        rw [bind_ok]
        cases hc : s1.1.pc.changed with
        | false =>
          rw [hc] at h
          simp only [Bool.not_false, if_true, pure_eq_ok, Res.ok.injEq, Outcome.done.injEq] at h
          subst h
          rfl
        | true =>
          rw [hc] at h
          simp only [Bool.not_true, Bool.false_eq_true, if_false] at h ⊢
          cases hd : dl rs.checks with
          | true => rw [hd] at h; cases h
          | false =>
            rw [hd] at h
            simp only [Bool.false_eq_true, if_false] at h
            exact ih _ rs' h

theorem runSccT_done (I : Interp E B G P A) (V : Hir.VarsOf E B) (p : Program E B G P A) (σ : PhysPar.Sched E B G P A)
    (interRule : Bool) (threads : Nat) (dl : Deadline) (fuel : Nat) (scc : List Nat) (ps ps' : ProgStT)
    (h : runSccT I V p σ interRule threads dl fuel scc ps = .ok (.done ps')) :
    runScc I V p σ interRule threads fuel scc ⟨ps.st, ps.clock, ps.iters⟩ = .ok (some ⟨ps'.st, ps'.clock, ps'.iters⟩) := by
  rw [runSccT_eq] at h
  rw [runScc_eq]
  by_cases hlp : isLooping p scc = true
  · rw [if_pos hlp] at h ⊢
    cases hl : sccLoopT I V p σ interRule (dynRels p scc) (sccRules p scc) dl fuel
        { st := enterScc threads p scc ps.st, clock := ps.clock, checks := ps.checks, iters := 0 } with
    | panic => rw [hl] at h; cases h
    | ok r =>
      rw [hl, bind_ok] at h
      cases r with
      | done rs =>
        have h' : endLoopT threads p scc ps (.done rs) = .done ps' := by
          have : (Res.ok (endLoopT threads p scc ps (.done rs))) = Res.ok (Outcome.done ps') := h
          injection this
        simp only [endLoopT, Outcome.done.injEq] at h'
        subst h'
        rw [sccLoopT_done I V p σ interRule _ _ dl fuel _ rs hl]
        rfl
      | timedOut rs =>
        have : (Res.ok (endLoopT threads p scc ps (.timedOut rs))) = Res.ok (Outcome.done ps') := h
        injection this with this
        simp [endLoopT] at this
      | outOfFuel =>
        have : (Res.ok (endLoopT threads p scc ps .outOfFuel)) = Res.ok (Outcome.done ps') := h
        injection this with this
        simp [endLoopT] at this
  · rw [if_neg hlp] at h ⊢
    show (iteration I V p σ interRule ps.clock (dynRels p scc) (sccRules p scc) (enterScc threads p scc ps.st) >>= _) = _
    cases hit : iteration I V p σ interRule ps.clock (dynRels p scc) (sccRules p scc) (enterScc threads p scc ps.st) with
    | panic => rw [hit] at h; cases h
    | ok s1 =>
      rw [hit, bind_ok] at h
      rw [bind_ok]
      cases h2 : shift s1.1 with
      | panic => rw [h2] at h; cases h
      | ok s2 =>
        rw [h2, bind_ok] at h
        rw [bind_ok]
        cases h3 : shift s2 with
        | panic => rw [h3] at h; cases h
        | ok s3 =>
          rw [h3, bind_ok] at h
          rw [bind_ok]
          cases hd : dl ps.checks with
          | true => rw [hd] at h; cases h
          | false =>
            rw [hd] at h
            simp only [Bool.false_eq_true, if_false, pure_eq_ok, Res.ok.injEq, Outcome.done.injEq] at h
            subst h
            rfl

theorem runSccsT_done (I : Interp E B G P A) (V : Hir.VarsOf E B) (p : Program E B G P A) (σ : PhysPar.Sched E B G P A)
    (interRule : Bool) (threads : Nat) (dl : Deadline) (fuel : Nat) : ∀ (order : SccOrder) (ps ps' : ProgStT),
    runSccsT I V p σ interRule threads dl fuel order ps = .ok (.done ps') →
    runSccs I V p σ interRule threads fuel order ⟨ps.st, ps.clock, ps.iters⟩ =
      .ok (some ⟨ps'.st, ps'.clock, ps'.iters⟩) := by
  intro order
  induction order with
  | nil =>
    intro ps ps' h
    simp only [runSccsT, Res.ok.injEq, Outcome.done.injEq] at h
    subst h
    rfl
  | cons scc rest ih =>
    intro ps ps' h
    cases hr : runSccT I V p σ interRule threads dl fuel scc ps with
    | panic => simp only [runSccsT, hr] at h; cases h
    | ok out =>
      cases out with
      | done ps1 =>
        simp only [runSccsT, hr] at h
        simp only [runSccs, runSccT_done I V p σ interRule threads dl fuel scc ps ps1 hr]
        exact ih ps1 ps' h
      | timedOut x => simp only [runSccsT, hr] at h; cases h
      | outOfFuel => simp only [runSccsT, hr] at h; cases h

/-- `run_timeout` returned `true`: it computed what `run()` computes under the same schedule, in the same pool and mode -/
theorem runTimeout_done (I : Interp E B G P A) (V : Hir.VarsOf E B) (p : Program E B G P A) (ix : IxSets) (order : SccOrder)
    (σ : PhysPar.Sched E B G P A) (interRule : Bool) (threads : Nat) (dl : Deadline) (fuel : Nat) (s : PLSt) (o : ProgStT)
    (h : runTimeout I V p ix order σ interRule threads dl fuel s = .ok (.done o)) :
    run I V p ix order σ interRule threads fuel s = .ok (some ⟨o.st, o.clock, o.iters⟩) := by
  have h' : (updateIndices threads σ p ix s >>= fun s0 =>
      runSccsT I V p σ interRule threads dl fuel order { st := s0, clock := 0, checks := 0, iters := [] }) = .ok (.done o) := h
  show (updateIndices threads σ p ix s >>= fun s0 =>
      runSccs I V p σ interRule threads fuel order { st := s0, clock := 0, iters := [] }) = _
  cases hu : updateIndices threads σ p ix s with
  | panic => rw [hu] at h'; cases h'
  | ok s0 =>
    rw [hu, bind_ok] at h'
    rw [bind_ok]
    exact runSccsT_done I V p σ interRule threads dl fuel order _ o h'

/-! ## the value an interrupted call leaves -/

theorem abandon_lat_length (threads : Nat) (p : Program E B G P A) (scc : List Nat) (s : PLScc) :
    (abandonScc threads p scc s).lat.length = s.lrels.length := by
  simp [abandonScc]

theorem abandon_lrel (threads : Nat) (p : Program E B G P A) (scc : List Nat) (s : PLScc) (r : RelId)
    (hr : r < s.lrels.length) :
    lrel (abandonScc threads p scc s).lat r =
      if isLatRel p r && (dynRels p scc ++ (sccRules p scc).flatMap Rule.bodyRels).contains r then
        { lrel s.lrels r with idxs := (lrel s.lrels r).idxs.map fun ci => (ci.1, ci.2.fresh) }
      else lrel s.lrels r := by
  show lrel ((List.range s.lrels.length).map _) r = _
  rw [lrel_rangeMap _ _ _ hr]

theorem abandon_lrows (threads : Nat) (p : Program E B G P A) (scc : List Nat) (s : PLScc) (r : RelId) :
    (lrel (abandonScc threads p scc s).lat r).rows = (lrel s.lrels r).rows := by
  by_cases hr : r < s.lrels.length
  · rw [abandon_lrel threads p scc s r hr]
    split <;> rfl
  · have hr' : s.lrels.length ≤ r := Nat.le_of_not_lt hr
    rw [lrel_of_ge _ _ (by rw [abandon_lat_length]; exact hr'), lrel_of_ge _ _ hr']

theorem abandon_xrows (threads : Nat) (p : Program E B G P A) (scc : List Nat) (s : PLScc) (r : RelId) :
    xrows (abandonScc threads p scc s) r = (pcrel s.pc.rels r).rows ++ (lrel s.lrels r).rows := by
  show (pcrel (PhysPar.abandonScc threads p scc s.pc) r).rows ++ (lrel (abandonScc threads p scc s).lat r).rows = _
  rw [abandonPar_rows, abandon_lrows]

/-- the rows of the erased SCC state, split into the two parts -/
theorem erase_rows_split (p : Program E B G P A) (s : PLScc) (hpl : PLWf p s) (r : RelId) :
    (xrel (s.erase p).rels r).rows = (pcrel s.pc.rels r).rows ++ (lrel s.lrels r).rows := by
  rw [xrel_erase p s hpl.len r]
  cases hl : isLatRel p r with
  | true =>
    rw [eraseRel_lat p _ _ r hl, hpl.prow r hl]; rfl
  | false =>
    rw [eraseRel_plain p _ _ r hl, hpl.lrow r hl, List.append_nil]

/-- **the early return** keeps the row vectors and leaves a value `run()` may be called on: every index stored in the struct
is unfrozen (the touched ones are `Default`, the others were never frozen) -/
theorem abandon_soundP (threads : Nat) (p : Program E B G P A) (scc : List Nat) {ix : IxSets} {a : SccSt} {s : PLScc}
    (hsim : SimP p (ixP p ix) a (s.erase p)) (hpl : PLWf p s)
    (hfl : Flags (max threads 1) (bodyOnly p scc) false s.pc) (hlfl : LFlags p (bodyOnly p scc) false s) :
    WFSt p (abandonScc threads p scc s) ∧ ∀ r, xrows (abandonScc threads p scc s) r = (relSt a.rels r).rows := by
  have hrows : ∀ r, xrows (abandonScc threads p scc s) r = (relSt a.rels r).rows := by
    intro r
    rw [abandon_xrows, hsim.rows r, erase_rows_split p s hpl r]
  have hnb : ∀ r, (dynRels p scc ++ (sccRules p scc).flatMap Rule.bodyRels).contains r = false →
      (bodyOnly p scc).contains r = false := by
    intro r ht
    cases hb : (bodyOnly p scc).contains r with
    | false => rfl
    | true =>
      exfalso
      have hm := (List.mem_filter.mp (List.contains_iff_mem.mp hb)).1
      have : (dynRels p scc ++ (sccRules p scc).flatMap Rule.bodyRels).contains r = true :=
        List.contains_iff_mem.mpr (List.mem_append_right _ hm)
      rw [ht] at this
      cases this
  have hprows : ∀ r, (pcrel (abandonScc threads p scc s).pc r).rows = (pcrel s.pc.rels r).rows :=
    fun r => abandonPar_rows threads p scc s.pc r
  have hpart : ∀ r, isLatRel p r = true → (pcrel s.pc.rels r).rows ++ (lrel s.lrels r).rows = (lrel s.lrels r).rows := by
    intro r hl
    rw [hpl.prow r hl]; rfl
  refine ⟨⟨⟨?_, ?_, ?_⟩, ?_, ?_, ?_, ?_, ?_⟩, hrows⟩
  · show (PhysPar.abandonScc threads p scc s.pc).length = _
    rw [abandonPar_length, hpl.len]
  · intro r t ht
    rw [hprows] at ht
    apply hsim.typed r t
    rw [hsim.rows r, erase_rows_split p s hpl r]
    exact List.mem_append_left _ ht
  · intro pr hpr
    have hpr' : pr ∈ PhysPar.abandonScc threads p scc s.pc := hpr
    simp only [PhysPar.abandonScc, List.mem_map, List.mem_range] at hpr'
    obtain ⟨r, hr, rfl⟩ := hpr'
    split
    · refine ⟨rfl, ?_⟩
      intro ci hci
      obtain ⟨c, _, rfl⟩ := List.mem_map.mp hci
      exact isFrozen_new threads c.1
    · rename_i ht
      have hb := hnb r (by simpa using ht)
      have := hfl.rels r hr
      rw [hb] at this
      exact ⟨this.1, fun ci hci => (this.2 ci hci).2⟩
  · rw [abandon_lat_length, hpl.llen]
  · intro r hl
    rw [hprows]; exact hpl.prow r hl
  · intro r hl
    rw [abandon_lrows, hpl.lrow r hl]
  · intro r t ht
    rw [abandon_lrows] at ht
    apply hsim.typed r t
    rw [hsim.rows r, erase_rows_split p s hpl r]
    exact List.mem_append_right _ ht
  · intro l hl ci hci
    have hl' : l ∈ (List.range s.lrels.length).map _ := hl
    obtain ⟨r, hr, rfl⟩ := List.mem_map.mp hl'
    have hr' := List.mem_range.mp hr
    cases hlat : isLatRel p r with
    | false =>
      simp only [hlat, Bool.false_and, Bool.false_eq_true, if_false] at hci
      rw [hpl.lrow r hlat] at hci
      cases hci
    | true =>
      cases ht : (dynRels p scc ++ (sccRules p scc).flatMap Rule.bodyRels).contains r with
      | true =>
        simp only [hlat, ht, Bool.and_self, if_true] at hci
        obtain ⟨c, _, rfl⟩ := List.mem_map.mp hci
        exact LCx.isFrozen_fresh _
      | false =>
        simp only [hlat, ht, Bool.and_false, Bool.false_eq_true, if_false] at hci
        have := hlfl.rels r hr' hlat ci hci
        rw [hnb r ht] at this
        exact this.2

/-- what an interrupted call leaves, relative to the facts `base` of an earlier value of the same call -/
structure AbSound (I : Interp E B G P A) (L : LatOrder I) (p : Program E B G P A) (inp : RelId → List Tuple) (base : DB)
    (pst : PLSt) : Prop where
  wf : WFSt p pst
  keys : ∀ r, (declOf p r).lat = true → ((xrows pst r).map keyOf).Nodup
  relset : ∀ r, r < p.rels.length → (declOf p r).lat = false → SetRows inp r (xrows pst r)
  below : ∀ M, Tgt I L p inp M → DBLe I L p (factsOf pst) M
  above : DBLe I L p base (factsOf pst)

theorem AbSound.mono {I : Interp E B G P A} {L : LatOrder I} {p : Program E B G P A} {inp : RelId → List Tuple}
    {base base' : DB} {pst : PLSt} (h : AbSound I L p inp base pst) (hle : DBLe I L p base' base) :
    AbSound I L p inp base' pst :=
  ⟨h.wf, h.keys, h.relset, h.below, DBLe.trans hle h.above⟩

/-- the abandoned value has the invariant of the SCC state it was taken from -/
theorem abandon_AbSound (I : Interp E B G P A) (L : LatOrder I) (threads : Nat) (p : Program E B G P A) (scc : List Nat)
    {ix : IxSets} {inp : RelId → List Tuple} {st : St} {a : SccSt} {s : PLScc}
    (h : PIS p ix (max threads 1) (bodyOnly p scc) false a s) (hinv : LInv I L p inp (dynRels p scc) a)
    (hb : LBase I L p (dynRels p scc) st a) :
    AbSound I L p inp (Engine.factsOf st) (abandonScc threads p scc s) := by
  obtain ⟨hw, hrows⟩ := abandon_soundP threads p scc h.sim h.wf h.pfl h.lfl
  have hf : FactsS a = factsOf (abandonScc threads p scc s) := by
    funext f
    simp only [FactsS, rowsOf, factsOf, hrows]
  refine ⟨hw, ?_, ?_, ?_, ?_⟩
  · intro r hl
    rw [hrows]; exact hinv.keys r hl
  · intro r hr hl
    rw [hrows]; exact hinv.relset r hr hl
  · intro M hM
    rw [← hf]; exact hinv.below M hM
  · rw [← hf]; exact hb.2

/-! ## the loop of a looping SCC under the deadline -/

section Loop
variable (I : Interp E B G P A) (L : LatOrder I) (hI : Plan.Ext I) (V : Hir.VarsOf E B) (hS : Plan.Supp I V)
  (hff : ∀ r a b, (I.joinMut r a b).2 = false → (I.joinMut r a b).1 = a)
  (p : Program E B G P A) (ix : IxSets) (inp : RelId → List Tuple) (dynR : List RelId) (rules : List (Rule E B G P A))
  (N : Nat) (hN : 0 < N) (bo : List RelId) (σ : PhysPar.Sched E B G P A) (interRule : Bool)
  (hlt : ∀ r, dynR.contains r = true → r < p.rels.length)
  (har : ∀ r, isLatRel p r = true → 0 < arityOf p r)
  (hrules : ∀ rule ∈ rules, rule ∈ p.rules)
  (hdyn : ∀ rule ∈ rules, ∀ h ∈ rule.heads, dynR.contains h.rel = true)
  (hR : ∀ rule ∈ rules, RuleFitL V p (ixP p ix) rule)
  (hbo : ∀ rule ∈ rules, ∀ r ∈ rule.bodyRels, dynR.contains r = false → bo.contains r = true ∧ r < p.rels.length)

include hI hS hff hN hlt har hrules hdyn hR hbo in
/-- the loop never panics; where the deadline strikes, the physical SCC state simulates an SCC state of the nondeterministic
engine that has the invariant and dominates the value the SCC was entered with -/
theorem sccLoopT_simP (dl : Deadline) (st : St) :
    ∀ (fuel : Nat) (rs : RunStT) (a : SccSt), LLoopInv I L p inp dynR rules (hasDyn dynR) a → LBase I L p dynR st a →
      PIS p ix N bo false a rs.st →
      ∃ out, sccLoopT I V p σ interRule dynR rules dl fuel rs = .ok out ∧ ∀ rs', out = .timedOut rs' →
        ∃ a', PIS p ix N bo false a' rs'.st ∧ LInv I L p inp dynR a' ∧ LBase I L p dynR st a' := by
  have haf : ∀ rule ∈ rules, rule.aggFree = true := fun r hr => (hR r hr).aggFree
  intro fuel
  induction fuel with
  | zero =>
    intro rs a _ _ _
    exact ⟨.outOfFuel, rfl, fun rs' h => by cases h⟩
  | succ fuel ih =>
    intro rs a hinv hb h
    obtain ⟨s1, k', s2, hit, hsh, a1, hpass, _, h2, _⟩ := iterShift_simP I L hI V hS hff p ix inp dynR rules N hN bo σ
      interRule hlt har hrules hdyn hR hbo rs.clock h hinv
    obtain ⟨hinv', hext⟩ := iter_step_ndl rules hrules haf hdyn a a1 hinv hpass
    have hb' := LBase_step hinv.inv.wf hb hext
    rw [sccLoopT_succ, hit, bind_ok, hsh, bind_ok]
    cases hc : s1.pc.changed with
    | false =>
      refine ⟨.done { st := s2, clock := k', checks := rs.checks, iters := rs.iters + 1 }, rfl, ?_⟩
      intro rs' hrs
      cases hrs
    | true =>
      cases hd : dl rs.checks with
      | true =>
        refine ⟨.timedOut { st := s2, clock := k', checks := rs.checks + 1, iters := rs.iters + 1 }, rfl, ?_⟩
        intro rs' hrs
        simp only [Outcome.timedOut.injEq] at hrs
        subst hrs
        exact ⟨Engine.shift a1, h2, hinv'.inv, hb'⟩
      | false =>
        obtain ⟨out, hout, hspec⟩ := ih { st := s2, clock := k', checks := rs.checks + 1, iters := rs.iters + 1 }
          (Engine.shift a1) (hinv'.weaken fun _ _ => trivial) hb' h2
        exact ⟨out, hout, hspec⟩

end Loop

/-! ## one SCC, the SCCs in order -/

section Run
variable (I : Interp E B G P A) (L : LatOrder I) (hI : Plan.Ext I) (V : Hir.VarsOf E B) (hS : Plan.Supp I V)
  (hff : ∀ r a b, (I.joinMut r a b).2 = false → (I.joinMut r a b).1 = a)
  (p : Program E B G P A) (hp : LatticeProg p) (hb : BodyDeclared p) (ix : IxSets) (inp : RelId → List Tuple)
  (har : ∀ r, isLatRel p r = true → 0 < arityOf p r)
  (hR : ∀ r ∈ p.rules, RuleFitL V p (ixP p ix) r) (σ : PhysPar.Sched E B G P A) (interRule : Bool) (threads : Nat)

include hI hS hff hp hb har hR in
theorem runSccT_simP (dl : Deadline) (fuel : Nat) (scc : List Nat) (ps : ProgStT) (st : St)
    (hinv : LPInv I L p inp st) (hs : PStInv p ix (max threads 1) st ps.st) :
    ∃ out, runSccT I V p σ interRule threads dl fuel scc ps = .ok out ∧ ∀ ps', out = .timedOut ps' →
      AbSound I L p inp (Engine.factsOf st) ps'.st := by
  obtain ⟨_, hh, _, _⟩ := hp
  have hN : 0 < max threads 1 := by omega
  have hrules := sccRules_sub p scc
  have hRs : ∀ r ∈ sccRules p scc, RuleFitL V p (ixP p ix) r := fun r hr => hR r (hrules r hr)
  have hafs : ∀ rule ∈ sccRules p scc, rule.aggFree = true := fun r hr => (hRs r hr).aggFree
  have hdyn : ∀ rule ∈ sccRules p scc, ∀ h ∈ rule.heads, (dynRels p scc).contains h.rel = true :=
    fun rule hr h hhd => (dynRels_mem p scc h.rel).mpr ⟨rule, hr, h, hhd, rfl⟩
  have hlt : ∀ r, (dynRels p scc).contains r = true → r < p.rels.length := by
    intro r hr
    obtain ⟨rule, hrule, h, hhd, rfl⟩ := (dynRels_mem p scc r).mp hr
    exact hh rule (hrules rule hrule) h hhd
  have hbo : ∀ rule ∈ sccRules p scc, ∀ r ∈ rule.bodyRels, (dynRels p scc).contains r = false →
      (bodyOnly p scc).contains r = true ∧ r < p.rels.length := by
    intro rule hrule r hr hnd
    refine ⟨?_, hb rule (hrules rule hrule) r hr⟩
    rw [List.contains_iff_mem]
    unfold bodyOnly
    rw [List.mem_filter]
    exact ⟨List.mem_flatMap.mpr ⟨rule, hrule, hr⟩, by rw [hnd]; rfl⟩
  have hinv0 := LLoopInv_enter (dynRels p scc) hlt hinv (sccRules p scc)
  have hb0 : LBase I L p (dynRels p scc) st (Engine.enterScc st (dynRels p scc)) := LBase_enter st (dynRels p scc)
  have hfl0 := enter_flags threads p scc hs
  have h0 : PIS p ix (max threads 1) (bodyOnly p scc) false (Engine.enterScc st (dynRels p scc)) (enterScc threads p scc ps.st) :=
    ⟨enter_simP threads p scc hs hlt, enter_wf threads p scc hs, hfl0.1, hfl0.2⟩
  rw [runSccT_eq]
  by_cases hlp : isLooping p scc = true
  · rw [if_pos hlp]
    obtain ⟨out, hout, hspec⟩ := sccLoopT_simP I L hI V hS hff p ix inp (dynRels p scc) (sccRules p scc) (max threads 1) hN
      (bodyOnly p scc) σ interRule hlt har hrules hdyn hRs hbo dl st fuel
      { st := enterScc threads p scc ps.st, clock := ps.clock, checks := ps.checks, iters := 0 } _ hinv0 hb0 h0
    rw [hout, bind_ok]
    refine ⟨_, rfl, ?_⟩
    intro ps' h
    cases out with
    | done rs => simp [endLoopT] at h
    | outOfFuel => simp [endLoopT] at h
    | timedOut rs =>
      simp only [endLoopT, Outcome.timedOut.injEq] at h
      subst h
      obtain ⟨a', h', hinva', hba'⟩ := hspec rs rfl
      exact abandon_AbSound I L threads p scc h' hinva' hba'
  · rw [if_neg hlp]
    obtain ⟨s1, k', s2, hit, hsh, a1, hpass, _, h2, hinv1⟩ := iterShift_simP I L hI V hS hff p ix inp (dynRels p scc)
      (sccRules p scc) (max threads 1) hN (bodyOnly p scc) σ interRule hlt har hrules hdyn hRs hbo ps.clock h0 hinv0
    obtain ⟨_, hext⟩ := iter_step_ndl (sccRules p scc) hrules hafs hdyn _ a1 hinv0 hpass
    have hb1 := LBase_step hinv0.inv.wf hb0 hext
    have hinv2 := LInv_shift hinv1
    obtain ⟨s3, hsh3, g1, g2, g3, g4, _⟩ := shift_simP h2.sim hinv2.wf (fun r hl => hinv2.keys r hl) h2.wf h2.pfl h2.lfl
    have hinv3 := LInv_shift hinv2
    have hb3 : LBase I L p (dynRels p scc) st (Engine.shift (Engine.shift a1)) := hb1
    rw [hit, bind_ok, hsh, bind_ok, hsh3, bind_ok]
    cases hd : dl ps.checks with
    | false =>
      simp only [Bool.false_eq_true, if_false, pure_eq_ok]
      exact ⟨_, rfl, fun ps' h => by cases h⟩
    | true =>
      simp only [if_true, pure_eq_ok]
      refine ⟨_, rfl, ?_⟩
      intro ps' h
      simp only [Outcome.timedOut.injEq] at h
      subst h
      exact abandon_AbSound I L threads p scc ⟨g1, g2, g3, g4⟩ hinv3 hb3

include hI hS hff hp hb har hR in
theorem runSccsT_simP (dl : Deadline) (fuel : Nat) : ∀ (order : SccOrder) (ps : ProgStT) (st : St),
    LPInv I L p inp st → PStInv p ix (max threads 1) st ps.st →
    ∃ out, runSccsT I V p σ interRule threads dl fuel order ps = .ok out ∧ ∀ ps', out = .timedOut ps' →
      AbSound I L p inp (Engine.factsOf st) ps'.st := by
  intro order
  induction order with
  | nil =>
    intro ps st _ _
    exact ⟨.done ps, rfl, fun ps' h => by cases h⟩
  | cons scc rest ih =>
    intro ps st hinv hs
    obtain ⟨out, hout, hspec⟩ := runSccT_simP I L hI V hS hff p hp hb ix inp har hR σ interRule threads dl fuel scc ps st
      hinv hs
    cases out with
    | done ps1 =>
      have hscc' := runSccT_done I V p σ interRule threads dl fuel scc ps ps1 hout
      obtain ⟨res, hres, hsp⟩ := runScc_simP I L hI V hS hff p hp hb ix inp har hR σ interRule threads fuel scc
        ⟨ps.st, ps.clock, ps.iters⟩ st hinv hs
      rw [hscc'] at hres
      have hres' : res = some ⟨ps1.st, ps1.clock, ps1.iters⟩ := by
        injection hres with hres
        exact hres.symm
      obtain ⟨st1, hnd, hs1⟩ := hsp _ hres'
      obtain ⟨hinv1, _, hle, _⟩ := sccNDL_spec hp.1 hp.2.1 scc st st1 hinv hnd
      obtain ⟨out2, hout2, hspec2⟩ := ih ps1 st1 hinv1 hs1
      exact ⟨out2, by simp only [runSccsT, hout]; exact hout2, fun ps' h => (hspec2 ps' h).mono hle⟩
    | timedOut x =>
      exact ⟨.timedOut x, by simp only [runSccsT, hout], hspec⟩
    | outOfFuel =>
      exact ⟨.outOfFuel, by simp only [runSccsT, hout], fun ps' h => by cases h⟩

end Run

/-- **`run_timeout` of a parallel program with lattices never panics**, whatever the schedule, the pool, the rule-scheduling
mode, the deadline oracle and the fuel; if it returned `false` the value left is `AbSound` relative to the start value -/
theorem runTimeout_okP (I : Interp E B G P A) (L : LatOrder I) (hI : Plan.Ext I) (V : Hir.VarsOf E B) (hS : Plan.Supp I V)
    (p : Program E B G P A) (ix : IxSets) (order : SccOrder) (σ : PhysPar.Sched E B G P A) (interRule : Bool)
    (threads : Nat) (dl : Deadline) (fuel : Nat) (s : PLSt)
    (hff : ∀ r a b, (I.joinMut r a b).2 = false → (I.joinMut r a b).1 = a)
    (hp : LatticeProg p) (hbd : PhysPar.BodyDeclared p) (hplan : latPlanOk V p ix = true)
    (hd : ∀ r ∈ p.rules, Hir.Desugared V r = true ∧ Plan.WellScoped V r = true)
    (hs : WFSt p s) (hi : InputOK p (xrows s)) :
    ∃ out, runTimeout I V p ix order σ interRule threads dl fuel s = .ok out ∧ ∀ o, out = .timedOut o →
      AbSound I L p (xrows s) (inDB p (xrows s)) o.st := by
  have hplan' : PhysLat.latPlanOk V p ix = true := hplan
  have hR0 := PhysLat.ruleFitL_of_latPlanOk V p ix hp hplan' hd
  have hR : ∀ r ∈ p.rules, PhysLat.RuleFitL V p (ixP p ix) r := fun r hr =>
    ⟨(hR0 r hr).desug, (hR0 r hr).wscoped, clOk_ixP p ix _ 0 r.body (hR0 r hr).clok, (hR0 r hr).cll, (hR0 r hr).aggFree,
      (hR0 r hr).heads⟩
  have har := PhysLat.arity_pos_of_latPlanOk V p ix hplan'
  obtain ⟨s0, hupd, hst0, _⟩ := updateIndices_inv threads σ p ix s hs hi har
  obtain ⟨hinv0, hin0⟩ := LPInv_start (I := I) (L := L) (p := p) (inp := xrows s) hi.2
  obtain ⟨out, hout, hspec⟩ := runSccsT_simP I L hI V hS hff p hp hbd ix (xrows s) har hR σ interRule threads dl fuel order
    { st := s0, clock := 0, checks := 0, iters := [] } _ hinv0 hst0
  refine ⟨out, ?_, fun o ho => (hspec o ho).mono hin0⟩
  show (updateIndices threads σ p ix s >>= fun s0 =>
    runSccsT I V p σ interRule threads dl fuel order { st := s0, clock := 0, checks := 0, iters := [] }) = _
  rw [hupd]; exact hout

end AscentVerif.PhysParLat
