import AscentVerif.Proofs.C15Basic
/-!
# C15: the attribute / declaration / aggregation checks succeed on well-formed input — helper lemmas
-/
set_option linter.unusedSimpArgs false
namespace AscentVerif.Check
open AscentVerif AscentVerif.Engine

theorem firstNamed_some {as : List AttrS} {n : String} {a : AttrS} (h : firstNamed as n = some a) :
    a ∈ as ∧ a.name = n := by
  unfold firstNamed at h
  exact ⟨List.mem_of_find?_eq_some h, by simpa using List.find?_some h⟩

theorem requirePathOnly_ok {as : List AttrS} {n : String} (h : ∀ a ∈ as, a.name = n → a.shape = .path) :
    requirePathOnly as n = .ok () := by
  unfold requirePathOnly
  cases hf : firstNamed as n with
  | none => rfl
  | some a =>
    obtain ⟨h1, h2⟩ := firstNamed_some hf
    simp [h a h1 h2]

theorem getDsAttr_of_dsOk {as : List AttrS} (h : dsOk as) : ∃ b, getDsAttr as = .ok b := by
  obtain ⟨h1, h2⟩ := h
  unfold getDsAttr
  split
  · exact ⟨false, rfl⟩
  · rename_i a hf
    have hm : a ∈ as.filter (fun a => a.name == "ds") := by rw [hf]; exact List.mem_singleton.2 rfl
    rw [List.mem_filter] at hm
    have hs := h2 a hm.1 (by simpa using hm.2)
    exact ⟨true, by simp [hs]⟩
  · rename_i hf
    rw [hf] at h1
    simp at h1

theorem getDsAttr_ok_true {as : List AttrS} (h : getDsAttr as = .ok true) : ∃ a ∈ as, a.name = "ds" := by
  unfold getDsAttr at h
  split at h
  · cases h
  · rename_i a hf
    have hm : a ∈ as.filter (fun a => a.name == "ds") := by rw [hf]; exact List.mem_singleton.2 rfl
    rw [List.mem_filter] at hm
    exact ⟨a, hm.1, by simpa using hm.2⟩
  · cases h

theorem configCheck_of {as : List AttrS} {par : Bool} (hk : ∀ a ∈ as, a.name ∈ recognizedAttrs)
    (hp : ∀ a ∈ as, a.name ≠ "ds" → a.shape = .path)
    (hpar : (∃ a ∈ as, a.name = "inter_rule_parallelism") → par = true) (hds : dsOk as) :
    configCheck as par = .ok () := by
  unfold configCheck
  rw [requirePathOnly_ok (fun a ha hn => hp a ha (by rw [hn]; decide)),
    requirePathOnly_ok (fun a ha hn => hp a ha (by rw [hn]; decide)),
    requirePathOnly_ok (fun a ha hn => hp a ha (by rw [hn]; decide))]
  have hany : (as.any fun a => !recognizedAttrs.contains a.name) = false := by
    rw [List.any_eq_false]
    intro a ha
    simp [hk a ha]
  have hpo : ((firstNamed as "inter_rule_parallelism").isSome && !par) = false := by
    cases hfn : firstNamed as "inter_rule_parallelism" with
    | none => simp
    | some a =>
      obtain ⟨h1, h2⟩ := firstNamed_some hfn
      simp [hpar ⟨a, h1, h2⟩]
  obtain ⟨b, hb⟩ := getDsAttr_of_dsOk hds
  simp only [hany, hpo, hb, Bool.false_eq_true, if_false]

theorem declsCheck_of : ∀ (ds : List Decl),
    (∀ d ∈ ds, dsOk d.attrs ∧ (d.lat = true → ∀ a ∈ d.attrs, a.name ≠ "ds")) → declsCheck ds = .ok ()
  | [], _ => rfl
  | d :: rest, h => by
    unfold declsCheck
    obtain ⟨h1, h2⟩ := h d (List.mem_cons_self ..)
    obtain ⟨b, hb⟩ := getDsAttr_of_dsOk h1
    have ih := declsCheck_of rest (fun d' hd' => h d' (List.mem_cons_of_mem _ hd'))
    have hnot : (b && d.lat) = false := by
      cases b with
      | false => rfl
      | true =>
        cases hl : d.lat with
        | false => rfl
        | true =>
          obtain ⟨a, ha, hn⟩ := getDsAttr_ok_true hb
          exact absurd hn (h2 hl a ha)
    simp only [hb, hnot, Bool.false_eq_true, if_false, ih]

theorem aggBoundOk_agg_iff (rel : Name) (args : List Arg) (pat : Binder) (bound : List Var) :
    aggBoundOk (.agg rel args pat bound) = true ↔ ∀ v ∈ bound, v ∈ argVars args := by
  simp [aggBoundOk, List.all_eq_true]

/-- the executable test on the aggregations is the declarative condition -/
theorem aggBound_iff (rules : List CoreRule) :
    (∀ r ∈ rules, ∀ ev ∈ r.body, aggBoundOk ev = true) ↔ ¬ IllFormedAggBound rules := by
  constructor
  · rintro h ⟨r, hr, rel, args, pat, bound, hev, v, hv, hnv⟩
    exact hnv ((aggBoundOk_agg_iff rel args pat bound).1 (h r hr _ hev) v hv)
  · intro h r hr ev hev
    cases ev with
    | clause rel args conds => rfl
    | binder b => rfl
    | agg rel args pat bound =>
      rw [aggBoundOk_agg_iff]
      intro v hv
      by_cases hm : v ∈ argVars args
      · exact hm
      · exact absurd ⟨r, hr, rel, args, pat, bound, hev, v, hv, hm⟩ h

end AscentVerif.Check
