import AscentVerif.Proofs.AggRestartLink
import AscentVerif.Proofs.AggRestartTimeout
/-!
# Stratified restart: the engine-level theorems behind `Props/C13Agg.lean` (step 4)

* `restart_facts`: a completed run from any value `t` between `s` and the result of a reference run
  from `s` ends with exactly the facts of the reference result;
* `timeout_sound_from`: an interrupted run from such a `t` leaves again such a value.

Both reduce to `strata_agree` (`AggRestartSpec.lean`); the second one evaluates the interrupted run
against a *hybrid* aggregation view: what the items of the SCCs that were entered read from the value
at the entry of the interrupted SCC, and the reference view for all other items.
-/
namespace AscentVerif.Engine.Agg
open AscentVerif AscentVerif.Engine

variable {E B G P A : Type}

theorem definedBy_all (p : Program E B G P A) (o : SccOrder) (ho : validOrder p o = true) (r : RelId) :
    DefinedBy p o o.length r := by
  intro i rule hget _
  obtain ⟨a, ha, hia⟩ := cover_idx p o ho i (lt_of_getElem?_some hget)
  exact ⟨a, ha, hia⟩

theorem getElem?_of_mem_rules {p : Program E B G P A} {rule : Rule E B G P A} (h : rule ∈ p.rules) :
    ∃ i : Nat, p.rules[i]? = some rule := by
  obtain ⟨i, hi, hri⟩ := List.mem_iff_getElem.mp h
  exact ⟨i, by rw [List.getElem?_eq_getElem hi, hri]⟩

theorem facts_lt_of_len {st : St} {n : Nat} (hlen : st.length = n) {f : Fact} (hf : factsOf st f) : f.rel < n := by
  have := lt_of_mem_rows st f.rel f.args hf
  rw [hlen] at this; exact this

/-- the rows of a value satisfying the invariant contain the inputs -/
theorem PInv.inp_sub {I : Interp E B G P A} {p : Program E B G P A} {inp : RelId → List Tuple}
    {aggv : AggClause E A → List Tuple} {K : Prop} {st : St} (hp : PInv I p inp aggv K p.rels.length st) :
    ∀ f, inDB p inp f → factsOf st f := by
  rintro f ⟨hr, hf⟩
  obtain ⟨_, derived, hrows, _, _⟩ := hp.good f.rel hr
  show f.args ∈ (relSt st f.rel).rows
  rw [hrows]; exact List.mem_append_left _ hf

theorem PInv.sound {I : Interp E B G P A} {p : Program E B G P A} {inp : RelId → List Tuple}
    {aggv : AggClause E A → List Tuple} {K : Prop} {st : St} (hp : PInv I p inp aggv K p.rels.length st) :
    ∀ f, factsOf st f → DerA I p.rules aggv (inDB p inp) f := by
  intro f hf
  have := (hp.good f.rel (facts_lt_of_len hp.len hf)).1 f.args hf
  cases f; exact this

section Main
variable (I : Interp E B G P A) (cfg : Config) (p : Program E B G P A) (order : SccOrder)
  (hl : ∀ d ∈ p.rels, d.lat = false)
  (hh : ∀ r ∈ p.rules, ∀ h ∈ r.heads, h.rel < p.rels.length)
  (ho : validOrder p order = true) (hs : ∀ s ∈ order, aggOverDynamic p s = false)
  (hperm : PermInv I)

include hl hh ho hs hperm in
/-- **stratified restart** -/
theorem restart_facts (s t : St) (dl : Deadline) (fuelM fuel : Nat) (psM ps : ProgSt)
    (hs0 : WFSt' p s) (ht0 : WFSt' p t)
    (hM : run I cfg p order fuelM s = .done psM)
    (hext : ExtSt p s t) (hsound : ∀ f, factsOf t f → factsOf psM.st f)
    (hrun : runTimeout I cfg p order dl fuel t = .done ps) :
    ∀ f, factsOf ps.st f ↔ factsOf psM.st f := by
  obtain ⟨hpM, hclM⟩ := run_spec I cfg p (fun r => (relSt s r).rows) True hl hh order ho hs never fuelM s psM
    hs0 (fun _ _ => rfl) hM
  obtain ⟨hp2, hcl2⟩ := run_spec I cfg p (fun r => (relSt t r).rows) True hl hh order ho hs dl fuel t ps
    ht0 (fun _ _ => rfl) hrun
  have hagree := strata_agree I p order ho hs (aggOf cfg p psM.st) (aggOf cfg p ps.st)
    (inDB p fun r => (relSt s r).rows) (inDB p fun r => (relSt t r).rows) (factsOf psM.st) (factsOf ps.st)
    order.length hpM.sound hp2.sound
    (fun f hf => hp2.inp_sub f ⟨hf.1, hext.facts hs0.1 ⟨f.rel, f.args⟩ hf.2⟩)
    (fun f hf => hsound ⟨f.rel, f.args⟩ hf.2)
    (fun i rule hget _ => hclM rule (List.mem_of_getElem? hget))
    (fun i rule hget _ => hcl2 rule (List.mem_of_getElem? hget))
    (fun i rule a _ _ _ hsame => aggEq_states I cfg p hl hperm s psM.st ps.st hpM hp2
      ((ExtSt.refl p s).of_pinv hpM) (hext.of_pinv hp2) a hsame)
  intro f
  exact (hagree order.length (Nat.le_refl _) f.rel (definedBy_all p order ho f.rel) f.args).symm

end Main

/-! ## the hybrid view of an interrupted run -/

/-- `a` is an aggregation item of a rule of the first `k` classes -/
def ItemIn (p : Program E B G P A) (o : SccOrder) (k : Nat) (a : AggClause E A) : Prop :=
  ∃ i rule, p.rules[i]? = some rule ∧ InPrefix o k i ∧ Item.agg a ∈ rule.body

open Classical in
/-- `v` on the items of the first `k` classes, `v'` elsewhere -/
noncomputable def hybrid (p : Program E B G P A) (o : SccOrder) (k : Nat) (v v' : AggClause E A → List Tuple)
    (a : AggClause E A) : List Tuple :=
  if ItemIn p o k a then v a else v' a

theorem hybrid_pos {p : Program E B G P A} {o : SccOrder} {k : Nat} {v v' : AggClause E A → List Tuple}
    {a : AggClause E A} (h : ItemIn p o k a) : hybrid p o k v v' a = v a := by
  unfold hybrid; exact if_pos h

theorem hybrid_neg {p : Program E B G P A} {o : SccOrder} {k : Nat} {v v' : AggClause E A → List Tuple}
    {a : AggClause E A} (h : ¬ ItemIn p o k a) : hybrid p o k v v' a = v' a := by
  unfold hybrid; exact if_neg h

theorem getD_append_left' (done : SccOrder) (X : SccOrder) {a : Nat} (h : a < done.length) :
    (done ++ X).getD a [] = done.getD a [] := by
  rw [List.getD_eq_getElem?_getD, List.getD_eq_getElem?_getD, List.getElem?_append_left h]

theorem getD_append_length (done : SccOrder) (scc : List Nat) (rest : SccOrder) :
    (done ++ scc :: rest).getD done.length [] = scc := by
  rw [List.getD_eq_getElem?_getD, List.getElem?_append_right (Nat.le_refl _)]; simp

/-- a rule of an SCC of `done` is a rule of the first `done.length` classes -/
theorem inPrefix_of_mem_done (p : Program E B G P A) (done X : SccOrder) {scc : List Nat} (hscc : scc ∈ done)
    {rule : Rule E B G P A} (hrule : rule ∈ sccRules p scc) :
    ∃ i, p.rules[i]? = some rule ∧ InPrefix (done ++ X) done.length i := by
  obtain ⟨i, hi, hget⟩ := (mem_sccRules p scc rule).mp hrule
  obtain ⟨a, ha, rfl⟩ := List.mem_iff_getElem.mp hscc
  refine ⟨i, hget, a, ha, ?_⟩
  rw [getD_append_left' done X ha, List.getD_eq_getElem?_getD, List.getElem?_eq_getElem ha]
  exact hi

/-- a rule of the first `done.length` classes is a rule of an SCC of `done` -/
theorem mem_done_of_inPrefix (p : Program E B G P A) (done X : SccOrder) {i : Nat} {rule : Rule E B G P A}
    (hget : p.rules[i]? = some rule) (hpre : InPrefix (done ++ X) done.length i) :
    ∃ scc ∈ done, rule ∈ sccRules p scc := by
  obtain ⟨a, ha, hia⟩ := hpre
  rw [getD_append_left' done X ha] at hia
  exact ⟨done.getD a [], getD_mem_order ha, mem_sccRules_of p hia hget⟩

section Main2
variable (I : Interp E B G P A) (cfg : Config) (p : Program E B G P A) (order : SccOrder)
  (hl : ∀ d ∈ p.rels, d.lat = false)
  (hh : ∀ r ∈ p.rules, ∀ h ∈ r.heads, h.rel < p.rels.length)
  (ho : validOrder p order = true) (hs : ∀ s ∈ order, aggOverDynamic p s = false)
  (hperm : PermInv I)

include hl hh ho hs hperm in
/-- **an interrupted run from a value between `s` and the reference result leaves such a value** -/
theorem timeout_sound_from (s t : St) (dl : Deadline) (fuelM fuel : Nat) (psM ps : ProgSt)
    (hs0 : WFSt' p s) (ht0 : WFSt' p t)
    (hM : run I cfg p order fuelM s = .done psM)
    (hext : ExtSt p s t) (hsound : ∀ f, factsOf t f → factsOf psM.st f)
    (hrun : runTimeout I cfg p order dl fuel t = .timedOut ps) :
    WFSt' p ps.st ∧ ExtSt p s ps.st ∧ (∀ f, factsOf ps.st f → factsOf psM.st f) := by
  obtain ⟨hpM, hclM⟩ := run_spec I cfg p (fun r => (relSt s r).rows) True hl hh order ho hs never fuelM s psM
    hs0 (fun _ _ => rfl) hM
  obtain ⟨done, scc, rest, psMid, hsplit, hdone, hto⟩ := runSccs_timedOut_split I cfg p dl fuel order _ ps hrun
  subst hsplit
  -- the hybrid view
  let aggv₁ := aggOf cfg p psM.st
  let aggv' := hybrid p (done ++ scc :: rest) (done.length + 1) (aggOf cfg p psMid.st) aggv₁
  let inp₁ : RelId → List Tuple := fun r => (relSt t r).rows
  have hitem_done : ∀ scc' ∈ done, ∀ rule ∈ sccRules p scc', ∀ a, Item.agg a ∈ rule.body →
      ItemIn p (done ++ scc :: rest) done.length a := by
    intro scc' hscc' rule hrule a ha
    obtain ⟨i, hget, hpre⟩ := inPrefix_of_mem_done p done (scc :: rest) hscc' hrule
    exact ⟨i, rule, hget, hpre, ha⟩
  have hitem_mono : ∀ a, ItemIn p (done ++ scc :: rest) done.length a →
      ItemIn p (done ++ scc :: rest) (done.length + 1) a := by
    rintro a ⟨i, rule, hget, hpre, ha⟩
    exact ⟨i, rule, hget, hpre.mono (Nat.le_succ _), ha⟩
  -- the completed prefix
  have hp0 : PInv I p inp₁ aggv' True p.rels.length (updateIndices t) :=
    PInv_start I p inp₁ True aggv' t ht0 (fun _ _ => rfl)
  obtain ⟨hpMid, hclMid⟩ := runSccs_prefix_spec I cfg p inp₁ True hl hh (done ++ scc :: rest) ho hs aggv' dl fuel
    psMid (scc :: rest) done [] _ (by simp) hp0 (by intro scc' hscc'; simp at hscc')
    (fun scc' hscc' rule hrule a ha => (hybrid_pos (hitem_mono a (hitem_done scc' hscc' rule hrule a ha))).symm)
    hdone
  -- the interrupted SCC
  have hsinv : SInvA I p inp₁ aggv' p.rels.length ps.st := by
    refine runScc_timedOut I cfg p inp₁ aggv' True hl hh dl fuel scc psMid ps hpMid ?_ hto
    intro rule hrule a ha
    refine ⟨agg_rel_not_later p done rest scc ho hs rule hrule a ha scc (by simp), ?_⟩
    obtain ⟨i, hi, hget⟩ := (mem_sccRules p scc rule).mp hrule
    refine (hybrid_pos ⟨i, rule, hget, ⟨done.length, Nat.lt_succ_self _, ?_⟩, ha⟩).symm
    rw [getD_append_length]; exact hi
  have hextMid : ExtSt p s psMid.st := hext.of_pinv hpMid
  -- the two values agree on everything defined by the completed prefix
  have hlink : ∀ a, ItemIn p (done ++ scc :: rest) (done.length + 1) a →
      (∀ x, factsOf psM.st ⟨a.rel, x⟩ ↔ factsOf psMid.st ⟨a.rel, x⟩) → AggEq I aggv₁ aggv' a := by
    intro a hin hsame ρ
    show aggEnvs I a ρ (aggOf cfg p psM.st a) = aggEnvs I a ρ (aggv' a)
    rw [show aggv' a = aggOf cfg p psMid.st a from hybrid_pos hin]
    exact aggEq_states I cfg p hl hperm s psM.st psMid.st hpM hpMid ((ExtSt.refl p s).of_pinv hpM) hextMid a hsame ρ
  have hagree := strata_agree I p (done ++ scc :: rest) ho hs aggv₁ aggv'
    (inDB p fun r => (relSt s r).rows) (inDB p inp₁) (factsOf psM.st) (factsOf psMid.st)
    done.length hpM.sound hpMid.sound
    (fun f hf => hpMid.inp_sub f ⟨hf.1, hext.facts hs0.1 ⟨f.rel, f.args⟩ hf.2⟩)
    (fun f hf => hsound ⟨f.rel, f.args⟩ hf.2)
    (fun i rule hget _ => hclM rule (List.mem_of_getElem? hget))
    (fun i rule hget hpre => by
      obtain ⟨scc', hscc', hrule⟩ := mem_done_of_inPrefix p done (scc :: rest) hget hpre
      exact hclMid scc' (by simpa using hscc') rule hrule)
    (fun i rule a hget hpre ha hsame => hlink a (hitem_mono a ⟨i, rule, hget, hpre, ha⟩) hsame)
  -- hence the hybrid view is interchangeable with the reference view on every item
  have haggEq : ∀ a, AggEq I aggv₁ aggv' a := by
    intro a
    by_cases hin : ItemIn p (done ++ scc :: rest) (done.length + 1) a
    · refine hlink a hin ?_
      obtain ⟨i, rule, hget, ⟨j, hj, hij⟩, ha⟩ := hin
      exact hagree j (Nat.le_of_lt_succ hj) a.rel (agg_definedBy p _ ho hs hget hij ha)
    · exact AggEq.of_eq (hybrid_neg hin).symm
  have hclosed : ClosedA I p.rules aggv' (inDB p inp₁) (factsOf psM.st) := by
    refine ⟨fun f hf => hsound ⟨f.rel, f.args⟩ hf.2, ?_⟩
    rintro f ⟨rule, hrule, ρ, hsat, h, hhd, rfl⟩
    exact hclM rule hrule ρ (SatA.congr_aggEq hsat (fun a _ => (haggEq a).symm)) h hhd
  refine ⟨hsinv.wfSt, hext.append (fun r hr => (hsinv.good r hr).2), ?_⟩
  intro f hf
  have hd : DerA I p.rules aggv' (inDB p inp₁) f := by
    have := (hsinv.good f.rel (facts_lt_of_len hsinv.len hf)).1 f.args hf
    cases f; exact this
  exact derA_least I p.rules aggv' (inDB p inp₁) _ hclosed f hd

end Main2

end AscentVerif.Engine.Agg
