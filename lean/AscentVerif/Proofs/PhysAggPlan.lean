import AscentVerif.Props.C01PhysPlan
/-!
# The compiled item of an aggregation and the index sets `ixSetsOfA` (lemmas of `Props/C04PhysPlan.lean`)

`compile_agg_item`: an aggregation `.agg a` of the body is compiled to `.agg a.rel (keyPositions a.args)` at the same position
(for ANY rule: the re-indexing of the first clause of a simple join touches a clause position only).
`ixSetsOfA_covers_clause`, `ixSetsOfA_covers_agg`: the index sets `ixSetsOfA` contain the columns of every clause item and of
every aggregation item that is not the full index.  `ruleOk_ixSetsOfA`: `ruleOk_ixSetsOf` for `ixSetsOfA`.
-/
namespace AscentVerif.Hir
open AscentVerif AscentVerif.Engine
variable {E B G P A : Type}

/-- every aggregation of the body is compiled to an aggregation item on the same relation whose index columns are the
positions of the `key` arguments -/
theorem compile_agg_item (V : VarsOf E B) (r : Rule E B G P A) (i : Nat) (a : AggClause E A)
    (h : r.body[i]? = some (.agg a)) :
    (compileRule V r).items[i]? = some (.agg a.rel (Phys.keyPositions a.args)) := by
  obtain ⟨gd', hg⟩ := hitems_getElem? V r.body ([], []) i _ h
  have hg' : (hitems V ([], []) r.body)[i]? = some (.agg a.rel (Phys.keyPositions a.args)) := hg
  rcases compile_items_cases V r with e | ⟨k, r1, a1, c1, vars, hk, e⟩
  · rw [e]
    exact hg'
  · rw [e]
    by_cases hik : k = i
    · subst hik
      rw [h] at hk
      cases hk
    · rw [List.getElem?_set_ne hik]
      exact hg'

end AscentVerif.Hir

namespace AscentVerif.Phys
open AscentVerif AscentVerif.Engine AscentVerif.Index
variable {E B G P A : Type}

/-- the index sets `ixSetsOfA` make every clause's index exist -/
theorem ixSetsOfA_covers_clause (V : Hir.VarsOf E B) (p : Program E B G P A) (r : Rule E B G P A) (hr : r ∈ p.rules)
    (i : Nat) (rel : RelId) (cols : List Nat) (dp : Bool)
    (h : (Hir.compileRule V r).items[i]? = some (.clause rel cols dp)) (hne : cols.length ≠ arityOf p rel) :
    cols ∈ ixSetsOfA V p rel := by
  unfold ixSetsOfA
  simp only
  rw [mem_eraseDups', List.mem_flatMap]
  refine ⟨r, hr, ?_⟩
  rw [List.mem_filterMap]
  refine ⟨.clause rel cols dp, List.mem_of_getElem? h, ?_⟩
  simp [hne]

/-- … and every aggregation's index -/
theorem ixSetsOfA_covers_agg (V : Hir.VarsOf E B) (p : Program E B G P A) (r : Rule E B G P A) (hr : r ∈ p.rules)
    (i : Nat) (rel : RelId) (cols : List Nat)
    (h : (Hir.compileRule V r).items[i]? = some (.agg rel cols)) (hne : cols.length ≠ arityOf p rel) :
    cols ∈ ixSetsOfA V p rel := by
  unfold ixSetsOfA
  simp only
  rw [mem_eraseDups', List.mem_flatMap]
  refine ⟨r, hr, ?_⟩
  rw [List.mem_filterMap]
  refine ⟨.agg rel cols, List.mem_of_getElem? h, ?_⟩
  simp [hne]

/-- the index sets `ixSetsOfA` contain those of `ixSetsOf` -/
theorem ixSetsOf_subset_ixSetsOfA (V : Hir.VarsOf E B) (p : Program E B G P A) (rel : RelId) (cols : List Nat)
    (h : cols ∈ ixSetsOf V p rel) : cols ∈ ixSetsOfA V p rel := by
  unfold ixSetsOf at h
  unfold ixSetsOfA
  simp only at h ⊢
  rw [mem_eraseDups', List.mem_flatMap] at h ⊢
  obtain ⟨r, hr, hm⟩ := h
  refine ⟨r, hr, ?_⟩
  rw [List.mem_filterMap] at hm ⊢
  obtain ⟨it, hit, hv⟩ := hm
  refine ⟨it, hit, ?_⟩
  cases it with
  | clause r' c d => exact hv
  | agg r' c => cases hv
  | gen v => cases hv
  | ifc => cases hv
  | ifLet => cases hv
  | letc => cases hv

/-- `ruleOk` only asks for more index sets to exist -/
theorem ruleOk_mono (V : Hir.VarsOf E B) (p : Program E B G P A) (ix ix' : IxSets) (r : Rule E B G P A)
    (hsub : ∀ rel cols, cols ∈ ix rel → cols ∈ ix' rel) (h : ruleOk V p ix r = true) : ruleOk V p ix' r = true := by
  unfold ruleOk at h ⊢
  dsimp only at h ⊢
  rw [List.all_eq_true] at h ⊢
  intro i hi
  have hi' := h i hi
  split
  · rename_i rel args conds rel' cols dp hb hc
    rw [hb, hc] at hi'
    simp only [Bool.and_eq_true, Bool.or_eq_true] at hi' ⊢
    refine ⟨hi'.1, ?_⟩
    rcases hi'.2 with h1 | h1
    · exact .inl h1
    · exact .inr (List.contains_iff_mem.2 (hsub _ _ (List.contains_iff_mem.1 h1)))
  · rename_i rel args conds hb hno
    rw [hb] at hi'
    split at hi'
    · rename_i hb' hc'
      exact absurd hc' (hno _ _ _)
    · exact hi'
    · rename_i hno' _
      exact absurd rfl (hno' _ _ _)
  · rfl

/-- the plan of one rule of the program is usable with the index sets `ixSetsOfA` -/
theorem ruleOk_ixSetsOfA (V : Hir.VarsOf E B) (p : Program E B G P A) (r : Rule E B G P A) (hr : r ∈ p.rules)
    (ha : ∀ rel args conds, Item.clause rel args conds ∈ r.body → args.length = arityOf p rel) :
    ruleOk V p (ixSetsOfA V p) r = true :=
  ruleOk_mono V p (ixSetsOf V p) (ixSetsOfA V p) r (ixSetsOf_subset_ixSetsOfA V p) (ruleOk_ixSetsOf V p r hr ha)

/-- the plan of the aggregations of one rule of the program is usable with the index sets `ixSetsOfA` -/
theorem aggRuleOk_ixSetsOfA (V : Hir.VarsOf E B) (p : Program E B G P A) (r : Rule E B G P A) (hr : r ∈ p.rules)
    (ha : ∀ a, Item.agg a ∈ r.body → a.args.length = arityOf p a.rel ∧ (boundOcc a.args).Nodup ∧
      a.boundArgs.all (boundOcc a.args).contains = true) :
    aggRuleOk V p (ixSetsOfA V p) r = true := by
  unfold aggRuleOk
  dsimp only
  rw [List.all_eq_true]
  intro i _
  split
  · rename_i a rel' cols hb hc
    have hc' := Hir.compile_agg_item V r i a hb
    rw [hc] at hc'
    cases hc'
    obtain ⟨hlen, hnd, hall⟩ := ha a (List.mem_of_getElem? hb)
    simp only [Bool.and_eq_true, Bool.or_eq_true, beq_iff_eq, decide_eq_true_eq]
    refine ⟨⟨⟨⟨⟨trivial, hlen⟩, trivial⟩, ?_⟩, hnd⟩, hall⟩
    by_cases hne : (keyPositions a.args).length = arityOf p a.rel
    · exact .inl hne
    · exact .inr (List.contains_iff_mem.2 (ixSetsOfA_covers_agg V p r hr i a.rel _ hc hne))
  · rename_i a hb hno
    exfalso
    exact hno _ _ (Hir.compile_agg_item V r i a hb)
  · rfl

end AscentVerif.Phys
