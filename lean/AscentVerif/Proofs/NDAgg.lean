import AscentVerif.Proofs.NDEngine
import AscentVerif.Proofs.AggStrata
import AscentVerif.Props.C04
import AscentVerif.Proofs.NDAggView
/-!
# The nondeterministic engine on stratified programs with aggregation / negation

`RunND` (`Proofs/NDEngine.lean`) is defined for every program: a pass applies the head updates of ANY list of rows with exactly
the members of `iterRows`, and `iterRows` evaluates aggregation items through `evalBody` (on the stored index entries of the
aggregated relation).  `Proofs/NDEngine.lean` proves the least-model theorem for aggregation-free programs; this file proves the
stratified-model theorem (the analogue of `Proofs/AggStrata.lean` / `Props/C04.lean` for the deterministic engine) for EVERY
execution of the nondeterministic engine.
-/
namespace AscentVerif.Engine
open AscentVerif

variable {E B G P A : Type}

/-- **every execution of the nondeterministic engine on a stratified program computes the stratified model** (from any
well-formed program value with duplicate-free row vectors): the result is well-formed; every relation's aggregation view is a
duplicate-free enumeration of exactly its rows; the facts are exactly the least model of the rules with every aggregation
evaluated on the FINAL view of its relation; old rows are a prefix, every new tuple is appended once -/
theorem runND_agg_spec (I : Interp E B G P A) (cfg : Config) (p : Program E B G P A) (order : SccOrder)
    (s s' : St) (hp : RelationalAgg p) (ho : validOrder p order = true) (hst : Stratified p order)
    (hs : WFSt p s) (hnd : ∀ r, (relSt s r).rows.Nodup)
    (hrun : RunND I cfg p order s s') :
    WFSt p s' ∧
    (∀ r, (aggView s' r).Nodup ∧ (aggView s' r).Perm (relSt s' r).rows) ∧
    (∀ f, factsOf s' f ↔ Derivable I p.rules (aggView s') (fun g => g.rel < p.rels.length ∧ factsOf s g) f) ∧
    (∀ r, r < p.rels.length → ∃ derived, (relSt s' r).rows = (relSt s r).rows ++ derived ∧
      derived.Nodup ∧ ∀ t ∈ derived, t ∉ (relSt s r).rows) := by
  have hspec := Agg.runND_spec I cfg p (fun r => (relSt s r).rows) True hp.1 hp.2 order ho hst s s'
    hs (fun _ _ => rfl) hrun
  have hview := Agg.view_once_nd I cfg p order s s' hp ho hst hs hnd hrun
  refine ⟨hspec.1.wfSt, hview, ?_, fun r hr => (hspec.1.good r hr).2⟩
  intro f
  have h1 := Agg.runND_eq_model I cfg p (fun r => (relSt s r).rows) hp.1 hp.2 order ho hst s s'
    hs (fun _ _ => rfl) hrun f
  have h2 : Agg.DerA I p.rules (Agg.aggOf cfg p s') (inDB p fun r => (relSt s r).rows) f ↔
      Agg.DerA I p.rules (fun a => aggView s' a.rel) (inDB p fun r => (relSt s r).rows) f :=
    Agg.derA_congr (fun _ _ a _ => Agg.aggOf_eq_of_nodup_nd cfg p hp.1 s' a (hview a.rel).1) f
  exact h1.trans (h2.trans Agg.derivable_iff_derA.symm)

/-! ## axiom audit -/
#print axioms AscentVerif.Engine.runND_agg_spec

end AscentVerif.Engine
