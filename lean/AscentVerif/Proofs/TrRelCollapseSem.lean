import AscentVerif.Proofs.TrRelCollapseBranch
/-!
# The collapse branch re-establishes the invariant for the extended history

`CollapseData` bundles the intermediate states of the branch (`collapse_run`).  From it:
the sets on a cycle through the new edge are exactly `{x_set, y_set} ∪ in_between` (`cyc_reach`,
`cyc_of_reach`), the merged set is their union (`mem9`), both maps mention no absorbed id
afterwards (`H1`, `H2` with `C9_clean` / `R9_clean`), every stored pair is justified
(`C7_R6_le`), and every required pair is stored (`sem_lower`).  `collapse_core` assembles `Core`.
-/
namespace AscentVerif.TrRel
open TrRel (getDominantIdAux getDominantIdMutAux)

structure CollapseData (t : TrRel) (ps : List (Int × Int)) (x0 y0 : Int) (X Y : Nat) (ta t3 t9 : TrRel) (ml tm : NSet) :
    Prop where
  K : CollapseCtx t ps x0 y0 X Y
  hml : ∀ m, m ∈ ml ↔ InM t X Y m
  htm : ∀ m, m ∈ tm ↔ InM t X Y m ∨ m = Y
  prep : PrepPost t ta X Y tm
  post : ConnPost ta t3 X Y
  up : ConnLe (GSem t (ps ++ [(x0, y0)])) t3
  merge : MergePost t3 t9 X Y ml

namespace CollapseData
variable {t : TrRel} {ps : List (Int × Int)} {x0 y0 : Int} {X Y : Nat} {ta t3 t9 : TrRel} {ml tm : NSet}

theorem sets3 (D : CollapseData t ps x0 y0 X Y ta t3 t9 ml tm) : t3.sets = t.sets := D.post.core.1.trans D.prep.core.1
theorem subs3 (D : CollapseData t ps x0 y0 X Y ta t3 t9 ml tm) : t3.subs = t.subs := D.post.core.2.2.trans D.prep.core.2.2
theorem elemIds3 (D : CollapseData t ps x0 y0 X Y ta t3 t9 ml tm) : t3.elemIds = t.elemIds :=
  D.post.core.2.1.trans D.prep.core.2.1

theorem mem3 (D : CollapseData t ps x0 y0 X Y ta t3 t9 ml tm) (d : Nat) (v : Int) : Mem t3 d v ↔ Mem t d v := by
  unfold Mem; rw [D.sets3]

theorem clean_iff (D : CollapseData t ps x0 y0 X Y ta t3 t9 ml tm) (z : Nat) :
    Clean (· ∈ ml) Y z ↔ (¬ InM t X Y z ∧ z ≠ Y) := by
  unfold Clean; simp only [D.hml]

theorem cleanX (D : CollapseData t ps x0 y0 X Y ta t3 t9 ml tm) : Clean (· ∈ ml) Y X :=
  (D.clean_iff X).mpr ⟨fun h => h.2.2.1 rfl, D.K.hne⟩

theorem clean_of_notCyc (D : CollapseData t ps x0 y0 X Y ta t3 t9 ml tm) {z : Nat} (h : ¬ InCyc t X Y z) :
    Clean (· ∈ ml) Y z :=
  (D.clean_iff z).mpr ⟨fun h' => h (Or.inr (Or.inr h')), fun h' => h (Or.inr (Or.inl h'))⟩

theorem cyc_of_notClean (D : CollapseData t ps x0 y0 X Y ta t3 t9 ml tm) {z : Nat} (h : ¬ Clean (· ∈ ml) Y z) :
    InCyc t X Y z := by
  rw [D.clean_iff] at h
  by_cases hm : InM t X Y z
  · exact Or.inr (Or.inr hm)
  · by_cases hy : z = Y
    · exact Or.inr (Or.inl hy)
    · exact absurd ⟨hm, hy⟩ h

theorem notCyc_of_clean (D : CollapseData t ps x0 y0 X Y ta t3 t9 ml tm) {z : Nat} (h : Clean (· ∈ ml) Y z) (hz : z ≠ X) :
    ¬ InCyc t X Y z := by
  rw [D.clean_iff] at h
  rintro (e | e | e)
  · exact hz e
  · exact h.2 e
  · exact h.1 e

theorem notTm (D : CollapseData t ps x0 y0 X Y ta t3 t9 ml tm) {z : Nat} (h : Clean (· ∈ ml) Y z) : z ∉ tm := by
  rw [D.htm]; rw [D.clean_iff] at h
  rintro (e | e)
  · exact h.1 e
  · exact h.2 e

theorem mem_l (D : CollapseData t ps x0 y0 X Y ta t3 t9 ml tm) (s : Nat) : s ∈ ml ++ [Y] ↔ (InM t X Y s ∨ s = Y) := by
  simp [D.hml]

theorem l_dom (D : CollapseData t ps x0 y0 X Y ta t3 t9 ml tm) {s : Nat} (h : s ∈ ml ++ [Y]) : IsDom t s := by
  rcases (D.mem_l s).mp h with h | rfl
  · exact (D.K.C.conn_dom Y s h.1).2
  · exact D.K.C.mem_dom D.K.hY

theorem X_notin_l (D : CollapseData t ps x0 y0 X Y ta t3 t9 ml tm) : X ∉ ml ++ [Y] := by
  rw [D.mem_l]
  rintro (h | h)
  · exact h.2.2.1 rfl
  · exact D.K.hne h

/-- the sets after the collapse: the merged set is the union of the sets on the cycle -/
theorem mem9 (D : CollapseData t ps x0 y0 X Y ta t3 t9 ml tm) (d : Nat) (v : Int) :
    Mem t9 d v ↔ (d = X ∧ ∃ m, InCyc t X Y m ∧ Mem t m v) ∨ (¬ InCyc t X Y d ∧ Mem t d v) := by
  rw [D.merge.mem]
  simp only [D.mem3]
  constructor
  · rintro (⟨rfl, h | ⟨s, hs, h⟩⟩ | ⟨h1, h2, h3⟩)
    · exact Or.inl ⟨rfl, d, Or.inl rfl, h⟩
    · refine Or.inl ⟨rfl, s, ?_, h⟩
      rcases (D.mem_l s).mp hs with hs | hs
      · exact Or.inr (Or.inr hs)
      · exact Or.inr (Or.inl hs)
    · refine Or.inr ⟨?_, h3⟩
      rintro (e | e | e)
      · exact h1 e
      · exact h2 ((D.mem_l d).mpr (Or.inr e))
      · exact h2 ((D.mem_l d).mpr (Or.inl e))
  · rintro (⟨rfl, m, hm, h⟩ | ⟨h1, h2⟩)
    · rcases hm with rfl | rfl | hm
      · exact Or.inl ⟨rfl, Or.inl h⟩
      · exact Or.inl ⟨rfl, Or.inr ⟨m, (D.mem_l m).mpr (Or.inr rfl), h⟩⟩
      · exact Or.inl ⟨rfl, Or.inr ⟨m, (D.mem_l m).mpr (Or.inl hm), h⟩⟩
    · refine Or.inr ⟨fun e => h1 (Or.inl e), fun e => ?_, h2⟩
      rcases (D.mem_l d).mp e with e | e
      · exact h1 (Or.inr (Or.inr e))
      · exact h1 (Or.inr (Or.inl e))

theorem mem9_of_clean (D : CollapseData t ps x0 y0 X Y ta t3 t9 ml tm) {d : Nat} {v : Int} (hc : Clean (· ∈ ml) Y d)
    (h : Mem t d v) : Mem t9 d v := by
  rw [D.mem9]
  by_cases hd : d = X
  · exact Or.inl ⟨hd, d, Or.inl hd, h⟩
  · exact Or.inr ⟨D.notCyc_of_clean hc hd, h⟩

/-- the old class of an element of a new set -/
theorem class9 (D : CollapseData t ps x0 y0 X Y ta t3 t9 ml tm) {a : Nat} {u : Int} (h : Mem t9 a u) :
    ∃ a0, Mem t a0 u ∧ ((a = X ∧ InCyc t X Y a0) ∨ (a = a0 ∧ ¬ InCyc t X Y a0)) := by
  rcases (D.mem9 a u).mp h with ⟨rfl, m, hm, h⟩ | ⟨h1, h2⟩
  · exact ⟨m, h, Or.inl ⟨rfl, hm⟩⟩
  · exact ⟨a, h2, Or.inr ⟨rfl, h1⟩⟩

/-! ### stored pairs that survive the de-mirroring and `add_set_connection` -/

theorem c3_of_conn (D : CollapseData t ps x0 y0 X Y ta t3 t9 ml tm) {a c : Nat} (h : rel t.conn a c) (ha : a ≠ Y) :
    rel t3.conn a c :=
  D.post.conn_mono a c ((D.prep.conn_iff a c).mpr ⟨h, fun e => absurd e ha⟩)

theorem r3_of_rconn (D : CollapseData t ps x0 y0 X Y ta t3 t9 ml tm) {c a : Nat} (h : rel t.rconn c a) (hc : c ≠ X) :
    rel t3.rconn c a :=
  D.post.rconn_mono c a ((D.prep.rconn_iff c a).mpr ⟨h, fun e => absurd e hc⟩)

theorem ta_Y (D : CollapseData t ps x0 y0 X Y ta t3 t9 ml tm) {c : Nat} (h : rel t.conn Y c) (hc : Clean (· ∈ ml) Y c)
    (hcX : c ≠ X) : rel ta.conn Y c :=
  (D.prep.conn_iff Y c).mpr ⟨h, fun _ => ⟨D.notTm hc, hcX⟩⟩

theorem ta_X (D : CollapseData t ps x0 y0 X Y ta t3 t9 ml tm) {a : Nat} (h : rel t.rconn X a) (ha : Clean (· ∈ ml) Y a) :
    rel ta.rconn X a :=
  (D.prep.rconn_iff X a).mpr ⟨h, fun _ => ⟨D.notTm ha, ha.2⟩⟩

/-- no absorbed id stays in `set_connections` -/
theorem H1 (D : CollapseData t ps x0 y0 X Y ta t3 t9 ml tm) :
    ∀ a b, rel t3.conn a b → ¬ Clean (· ∈ ml) Y b → Clean (· ∈ ml) Y a → a ≠ X → rel t3.rconn X a := by
  intro a b h hb ha haX
  obtain ⟨_, _, h⟩ := D.up.conn a b h
  rcases h with rfl | ⟨u, v, hu, hv, hr⟩
  · exact absurd ha hb
  · have hvx := (D.K.cyc_reach (D.cyc_of_notClean hb) hv).2
    have hux : Reach ps u x0 := by
      rcases (reach_append_iff ps x0 y0 u v).mp hr with h | ⟨h, _⟩
      · exact reach_trans _ _ _ _ h hvx
      · exact h
    have h1 := (D.K.C.offMirror haX).mp (D.K.C.conn_of_reach hu D.K.hX hux haX)
    exact D.post.rconn_mono X a (D.ta_X h1 ha)

/-- no absorbed id stays in `reverse_set_connections` -/
theorem H2 (D : CollapseData t ps x0 y0 X Y ta t3 t9 ml tm) :
    ∀ a b, rel t3.rconn a b → ¬ Clean (· ∈ ml) Y b → Clean (· ∈ ml) Y a → a ≠ X → rel t3.conn Y a := by
  intro a b h hb ha haX
  obtain ⟨_, _, h⟩ := D.up.rconn a b h
  rcases h with rfl | ⟨u, v, hu, hv, hr⟩
  · exact absurd ha hb
  · have hyu := (D.K.cyc_reach (D.cyc_of_notClean hb) hu).1
    have hyv : Reach ps y0 v := by
      rcases (reach_append_iff ps x0 y0 u v).mp hr with h | ⟨_, h⟩
      · exact reach_trans _ _ _ _ hyu h
      · exact h
    have h1 := D.K.C.conn_of_reach D.K.hY hv hyv (Ne.symm ha.2)
    exact D.post.conn_mono Y a (D.ta_Y h1 ha haX)

/-- the product pairs `pred(X) × succ(Y)` outside the cycle get stored by `add_set_connection` -/
theorem edge_lower_prep (D : CollapseData t ps x0 y0 X Y ta t3 t9 ml tm) {a b : Nat} (ha : Clean (· ∈ ml) Y a) (haX' : a ≠ X)
    (hb : Clean (· ∈ ml) Y b) (hbX : b ≠ X) (hab : a ≠ b) (haX : rel t.conn a X) (hYb : rel t.conn Y b) :
    rel t3.conn a b ∧ rel t3.rconn b a := by
  have C := D.K.C
  have hne := D.K.hne
  have hrX : rel ta.rconn X a := D.ta_X ((C.offMirror haX').mp haX) ha
  have hcY : rel ta.conn Y b := D.ta_Y hYb hb hbX
  have old : rel t.conn a b → rel t3.conn a b ∧ rel t3.rconn b a :=
    fun h => ⟨D.c3_of_conn h ha.2, D.r3_of_rconn ((C.offMirror hab).mp h) hbX⟩
  by_cases h1 : rel ta.rconn Y a
  · have h1' : rel t.rconn Y a := ((D.prep.rconn_iff Y a).mp h1).1
    exact old (C.offClosed hab ((C.offMirror ha.2).mpr h1') hYb)
  · by_cases h2 : rel ta.conn X b
    · have h2' : rel t.conn X b := ((D.prep.conn_iff X b).mp h2).1
      exact old (C.offClosed hab haX h2')
    · have pm : PMirror' ta X Y := by
        intro a' b' hab' ha' hb' h
        have h' := ((D.prep.conn_iff a' b').mp h).1
        exact (D.prep.rconn_iff b' a').mpr ⟨(C.offMirror hab').mp h', fun e => absurd e hb'⟩
      exact ⟨D.post.conn_prod a b hrX h1 haX' hcY h2 hb.2 ha.2,
        D.post.rconn_prod pm a b hrX h1 haX' hcY h2 hb.2 ha.2 hbX hab⟩

/-- every pair required by the extended history is stored after `merge_multiple` -/
theorem sem_lower (D : CollapseData t ps x0 y0 X Y ta t3 t9 ml tm) {a b : Nat} {u v : Int} (hab : a ≠ b) (hu : Mem t9 a u)
    (hv : Mem t9 b v) (hr : Reach (ps ++ [(x0, y0)]) u v) :
    C9 (rel t3.conn) (rel t3.rconn) (· ∈ ml) X Y a b ∧ R9 (rel t3.conn) (rel t3.rconn) (· ∈ ml) X Y b a := by
  have C := D.K.C
  rw [reach_append_iff] at hr
  rcases (D.mem9 a u).mp hu with ⟨rfl, m, hm, hu⟩ | ⟨hna, hu⟩
  · rcases (D.mem9 b v).mp hv with ⟨rfl, _⟩ | ⟨hnb, hv⟩
    · exact absurd rfl hab
    · have hyu := (D.K.cyc_reach hm hu).1
      have hyv : Reach ps y0 v := by
        rcases hr with h | ⟨_, h⟩
        · exact reach_trans _ _ _ _ hyu h
        · exact h
      have hbc := D.clean_of_notCyc hnb
      have hYb := C.conn_of_reach D.K.hY hv hyv (Ne.symm hbc.2)
      have h1 := D.ta_Y hYb hbc (Ne.symm hab)
      exact ⟨C9_keep (D.post.conn_f b h1) D.cleanX hbc, R9_new D.cleanX (D.post.conn_mono Y b h1) hbc⟩
  · have hac := D.clean_of_notCyc hna
    have haX : a ≠ X := fun e => hna (Or.inl e)
    rcases (D.mem9 b v).mp hv with ⟨rfl, m, hm, hv⟩ | ⟨hnb, hv⟩
    · have hvx := (D.K.cyc_reach hm hv).2
      have hux : Reach ps u x0 := by
        rcases hr with h | ⟨h, _⟩
        · exact reach_trans _ _ _ _ h hvx
        · exact h
      have h1 := C.conn_of_reach hu D.K.hX hux haX
      exact ⟨C9_keep (D.c3_of_conn h1 hac.2) hac D.cleanX,
        R9_keep (D.post.rconn_mono _ a (D.ta_X ((C.offMirror haX).mp h1) hac)) D.cleanX hac⟩
    · have hbc := D.clean_of_notCyc hnb
      have hbX : b ≠ X := fun e => hnb (Or.inl e)
      have key : rel t3.conn a b ∧ rel t3.rconn b a := by
        rcases hr with h | ⟨h1, h2⟩
        · have h' := C.conn_of_reach hu hv h hab
          exact ⟨D.c3_of_conn h' hac.2, D.r3_of_rconn ((C.offMirror hab).mp h') hbX⟩
        · exact D.edge_lower_prep hac haX hbc hbX hab (C.conn_of_reach hu D.K.hX h1 haX)
            (C.conn_of_reach D.K.hY hv h2 (Ne.symm hbc.2))
      exact ⟨C9_keep key.1 hac hbc, R9_keep key.2 hbc hac⟩

/-- the justified upper bound for both maps after `merge_multiple` -/
theorem upper9 (D : CollapseData t ps x0 y0 X Y ta t3 t9 ml tm) :
    (∀ z w, C7 (rel t3.conn) (rel t3.rconn) (· ∈ ml) X Y z w → GSem t (ps ++ [(x0, y0)]) z w) ∧
    (∀ z w, R6 (rel t3.conn) (rel t3.rconn) (· ∈ ml) X Y z w → GSem t (ps ++ [(x0, y0)]) w z) := by
  have C := D.K.C
  have hmono : ∀ u v, Reach ps u v → Reach (ps ++ [(x0, y0)]) u v :=
    fun u v h => (reach_append_iff ps x0 y0 u v).mpr (Or.inl h)
  have hsame' : ∀ d u v, Mem t d u → Mem t d v → Reach (ps ++ [(x0, y0)]) u v :=
    fun d u v hu hv => hmono _ _ (C.same d u v hu hv)
  apply C7_R6_le (GSem.trans hsame') D.up.conn D.up.rconn
  · exact ⟨C.mem_dom D.K.hX, C.mem_dom D.K.hY, Or.inr ⟨x0, y0, D.K.hX, D.K.hY, ReflTransGen.single (by simp)⟩⟩
  · exact ⟨C.mem_dom D.K.hY, C.mem_dom D.K.hX, Or.inr ⟨y0, x0, D.K.hY, D.K.hX, hmono _ _ D.K.reach_yx⟩⟩

end CollapseData

end AscentVerif.TrRel
