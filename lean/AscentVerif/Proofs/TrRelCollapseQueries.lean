import AscentVerif.Proofs.TrRelCollapseAdd
/-!
# The other queries under the invariant: `set_of`, `rev_set_of`, `iter_all`

All of them evaluate without panic on a state satisfying `Inv t ps`:

* `set_of x` is `None` exactly for unmentioned `x`; otherwise it enumerates, WITHOUT repetition,
  exactly the `y` with `Closure ps x y` (`x` itself included);
* `rev_set_of x` likewise for the `y` with `Closure ps y x`;
* `iter_all` enumerates, WITHOUT repetition, exactly the pairs of `Closure ps`.

Freedom from repetition relies on the duplicate-freeness part of the invariant (keys of the three
maps, members of the stored sets), which mirrors what `HashMap` / `HashSet` guarantee by construction.
-/
namespace AscentVerif.TrRel
open TrRel (getDominantIdAux getDominantIdMutAux)

/-- the value of a computation that is known not to panic -/
def Res.getD {β : Type} (x : Res β) (d : β) : β :=
  match x with
  | .ok b => b
  | .panic => d

@[simp] theorem Res.getD_ok {β : Type} (b d : β) : (Res.ok b).getD d = b := rfl

theorem mapM_ok_map {α β : Type} {f : α → Res β} (d : β) (L : List α) (h : ∀ e ∈ L, ∃ r, f e = .ok r) :
    L.mapM f = .ok (L.map fun e => (f e).getD d) := by
  induction L with
  | nil => rfl
  | cons a rest ih =>
    obtain ⟨r, hr⟩ := h a (List.mem_cons_self ..)
    rw [List.mapM_cons, hr, ih fun e he => h e (List.mem_cons_of_mem _ he)]
    simp only [Res.bind_ok, Res.pure_eq, List.map_cons, hr, Res.getD_ok]

theorem Core.getDominantId_of_rt {t : TrRel} {ps : List (Int × Int)} (C : Core t ps) {id d : Nat} (hr : Rt t.subs id d) :
    t.getDominantId id = .ok d := by
  obtain ⟨d', hd'⟩ := C.forest id
  have : d' = d := Rt.unique ⟨_, hd'⟩ hr
  subst this; exact hd'

theorem mem_unwrap_sets (t : TrRel) (s : Nat) (y : Int) : y ∈ (unwrap t.sets[s]?).getD [] ↔ Mem t s y := by
  unfold Mem
  cases h : t.sets[s]? with
  | none => simp [unwrap, Res.getD]
  | some r => simp [unwrap, Res.getD]

/-- the list `set_of_by_set_id` produces for the dominant id `d`: the sets connected to `d` (without `d`), then `d`'s own set -/
def setList (t : TrRel) (m : NMap) (d : Nat) : List Int :=
  ((((alGet m d).getD []).filter (· != d) ++ [d]).map fun s => (unwrap t.sets[s]?).getD []).flatten

/-- `set_of_by_set_id` / `rev_set_of_by_set_id` on a well-formed map that mentions dominant ids only -/
theorem setOfBySetIdIn_eq {t : TrRel} {ps : List (Int × Int)} (C : Core t ps) {m : NMap} (hm : MapOk m) {id d : Nat}
    (hr : Rt t.subs id d) (hd : IsDom t d) (hdom : ∀ s, rel m d s → IsDom t s) :
    t.setOfBySetIdIn m id = .ok (setList t m d) ∧ (setList t m d).Nodup ∧
      ∀ y, y ∈ setList t m d ↔ (Mem t d y ∨ ∃ s, rel m d s ∧ Mem t s y) := by
  unfold TrRel.setOfBySetIdIn setList
  simp only [C.getDominantId_of_rt hr, Res.bind_ok]
  have hmem_ids : ∀ s, s ∈ ((alGet m d).getD []).filter (· != d) ++ [d] ↔ ((rel m d s ∧ s ≠ d) ∨ s = d) := by
    intro s
    simp only [List.mem_append, List.mem_filter, mem_getD_iff, bne_iff_ne, ne_eq, List.mem_singleton]
  have hlt : ∀ s ∈ ((alGet m d).getD []).filter (· != d) ++ [d], ∃ r, unwrap t.sets[s]? = .ok r := by
    intro s hs
    have hs' : IsDom t s := by
      rcases (hmem_ids s).mp hs with ⟨h, _⟩ | rfl
      · exact hdom s h
      · exact hd
    exact ⟨_, by rw [List.getElem?_eq_getElem hs'.1]; rfl⟩
  rw [mapM_ok_map [] _ hlt]
  simp only [Res.bind_ok, Res.pure_eq]
  refine ⟨trivial, ?_, ?_⟩
  · -- no repetition
    have hids : (((alGet m d).getD []).filter (· != d) ++ [d]).Nodup := by
      apply nodup_append_single
      · apply nodup_filter
        cases h : alGet m d with
        | none => exact List.nodup_nil
        | some s => exact hm.2 d s h
      · simp
    unfold List.Nodup
    rw [List.pairwise_flatten]
    constructor
    · intro l' hl'
      obtain ⟨s, _, rfl⟩ := List.mem_map.mp hl'
      cases h : t.sets[s]? with
      | none => simp [unwrap, Res.getD]
      | some r => simp only [unwrap, Res.getD]; exact C.sets_nodup s r h
    · rw [List.pairwise_map]
      refine List.Pairwise.imp ?_ hids
      intro a b hab u hu v hv huv
      subst huv
      exact hab (C.disjoint a b u ((mem_unwrap_sets t a u).mp hu) ((mem_unwrap_sets t b u).mp hv))
  · intro y
    simp only [List.mem_flatten, List.mem_map]
    constructor
    · rintro ⟨l', ⟨s, hs, rfl⟩, hy⟩
      have hy' := (mem_unwrap_sets t s y).mp hy
      rcases (hmem_ids s).mp hs with ⟨h, _⟩ | rfl
      · exact Or.inr ⟨s, h, hy'⟩
      · exact Or.inl hy'
    · rintro (hy | ⟨s, hs, hy⟩)
      · exact ⟨_, ⟨d, (hmem_ids d).mpr (Or.inr rfl), rfl⟩, (mem_unwrap_sets t d y).mpr hy⟩
      · by_cases hsd : s = d
        · subst hsd
          exact ⟨_, ⟨s, (hmem_ids s).mpr (Or.inr rfl), rfl⟩, (mem_unwrap_sets t s y).mpr hy⟩
        · exact ⟨_, ⟨s, (hmem_ids s).mpr (Or.inl ⟨hs, hsd⟩), rfl⟩, (mem_unwrap_sets t s y).mpr hy⟩

theorem setOfBySetIdIn_spec {t : TrRel} {ps : List (Int × Int)} (C : Core t ps) {m : NMap} (hm : MapOk m) {id d : Nat}
    (hr : Rt t.subs id d) (hd : IsDom t d) (hdom : ∀ s, rel m d s → IsDom t s) :
    ∃ l, t.setOfBySetIdIn m id = .ok l ∧ l.Nodup ∧ ∀ y, y ∈ l ↔ (Mem t d y ∨ ∃ s, rel m d s ∧ Mem t s y) :=
  ⟨_, setOfBySetIdIn_eq C hm hr hd hdom⟩

/-- what `rev_set_of` looks at is exactly the reversed reference closure -/
theorem rlinked_iff_closure {t : TrRel} {ps : List (Int × Int)} (I : Inv t ps) (x y : Int) :
    (∃ d, Mem t d x ∧ (Mem t d y ∨ ∃ s, rel t.rconn d s ∧ Mem t s y)) ↔ Closure ps y x := by
  have C := I.core
  constructor
  · rintro ⟨d, hx, h⟩
    have mx : Mentioned ps x := I.mentioned x (C.elem_of_mem d x hx)
    rcases h with hy | ⟨s, hr, hy⟩
    · exact ⟨I.mentioned y (C.elem_of_mem d y hy), mx, C.same d y x hy hx⟩
    · refine ⟨I.mentioned y (C.elem_of_mem s y hy), mx, ?_⟩
      by_cases hds : s = d
      · subst hds; exact C.same s y x hy hx
      · obtain ⟨y', x', hy', hx', hreach⟩ := (C.rconn_iff s d hds).mp hr
        exact reach_trans ps _ _ _ (C.same s y y' hy hy') (reach_trans ps _ _ _ hreach (C.same d x' x hx' hx))
  · rintro ⟨my, mx, hreach⟩
    obtain ⟨_, d, _, _, _, hx, _⟩ := C.class_of (C.known x mx)
    obtain ⟨_, s, _, _, _, hy, _⟩ := C.class_of (C.known y my)
    refine ⟨d, hx, ?_⟩
    by_cases hds : s = d
    · subst hds; exact Or.inl hy
    · exact Or.inr ⟨s, (C.rconn_iff s d hds).mpr ⟨y, x, hy, hx, hreach⟩, hy⟩

/-- `elem_set` under the invariant -/
theorem elemSet_spec {t : TrRel} {ps : List (Int × Int)} (I : Inv t ps) (x : Int) :
    (¬ Mentioned ps x ∧ t.elemSet x = .ok none) ∨
    (Mentioned ps x ∧ ∃ d, t.elemSet x = .ok (some d) ∧ Mem t d x ∧ IsDom t d) := by
  unfold TrRel.elemSet
  cases hi : alGet t.elemIds x with
  | none =>
    left
    refine ⟨fun h => ?_, rfl⟩
    have := I.core.known x h
    simp [hi] at this
  | some id =>
    right
    obtain ⟨id', d, hid, hgd, _, hm, hdom⟩ := I.core.class_of (x := x) (by simp [hi])
    rw [hi] at hid; cases hid
    exact ⟨I.mentioned x (by simp [hi]), d, by simp [hgd], hm, hdom⟩

/-- **`set_of`**: `None` for unmentioned elements, otherwise exactly the successors (incl. `x`), each once -/
theorem setOf_spec {t : TrRel} {ps : List (Int × Int)} (I : Inv t ps) (x : Int) :
    (¬ Mentioned ps x ∧ t.setOf x = .ok none) ∨
    (Mentioned ps x ∧ ∃ l, t.setOf x = .ok (some l) ∧ l.Nodup ∧ ∀ y, y ∈ l ↔ Closure ps x y) := by
  have C := I.core
  unfold TrRel.setOf
  rcases elemSet_spec I x with ⟨hn, he⟩ | ⟨hm, d, he, hx, hd⟩
  · left; exact ⟨hn, by simp [he]⟩
  · right
    obtain ⟨l, hl, hnd, hmem⟩ := setOfBySetIdIn_spec C ⟨C.conn_keys, C.conn_vals⟩ (rt_of_none hd.2) hd
      (fun s h => (C.conn_dom d s h).2)
    refine ⟨hm, l, by simp [he, hl], hnd, ?_⟩
    intro y
    rw [hmem, ← linked_iff_closure I]
    constructor
    · intro h; exact ⟨d, hx, h⟩
    · rintro ⟨d', hx', h⟩
      have := C.disjoint d' d x hx' hx; subst this; exact h

/-- **`rev_set_of`**: `None` for unmentioned elements, otherwise exactly the predecessors (incl. `x`), each once -/
theorem revSetOf_spec {t : TrRel} {ps : List (Int × Int)} (I : Inv t ps) (x : Int) :
    (¬ Mentioned ps x ∧ t.revSetOf x = .ok none) ∨
    (Mentioned ps x ∧ ∃ l, t.revSetOf x = .ok (some l) ∧ l.Nodup ∧ ∀ y, y ∈ l ↔ Closure ps y x) := by
  have C := I.core
  unfold TrRel.revSetOf
  rcases elemSet_spec I x with ⟨hn, he⟩ | ⟨hm, d, he, hx, hd⟩
  · left; exact ⟨hn, by simp [he]⟩
  · right
    obtain ⟨l, hl, hnd, hmem⟩ := setOfBySetIdIn_spec C ⟨C.rconn_keys, C.rconn_vals⟩ (rt_of_none hd.2) hd
      (fun s h => (C.rconn_dom d s h).2)
    refine ⟨hm, l, by simp [he, hl], hnd, ?_⟩
    intro y
    rw [hmem, ← rlinked_iff_closure I]
    constructor
    · intro h; exact ⟨d, hx, h⟩
    · rintro ⟨d', hx', h⟩
      have := C.disjoint d' d x hx' hx; subst this; exact h

theorem mem_of_alGet_some {κ β : Type} [DecidableEq κ] {m : List (κ × β)} {k : κ} {v : β} (h : alGet m k = some v) :
    (k, v) ∈ m := by
  induction m with
  | nil => simp [alGet] at h
  | cons a t ih =>
    obtain ⟨a1, a2⟩ := a
    simp only [alGet] at h
    by_cases hk : a1 = k
    · rw [if_pos hk] at h; cases h; subst hk; exact List.mem_cons_self ..
    · rw [if_neg hk] at h; exact List.mem_cons_of_mem _ (ih h)

/-- **`iter_all`** enumerates exactly the pairs of the reference closure, each once -/
theorem iterAll_spec {t : TrRel} {ps : List (Int × Int)} (I : Inv t ps) :
    ∃ l, t.iterAll = .ok l ∧ l.Nodup ∧ ∀ p, p ∈ l ↔ Closure ps p.1 p.2 := by
  have C := I.core
  -- one entry of `elem_ids`
  have hentry : ∀ e ∈ t.elemIds, ∃ r, (do
      let ys ← t.setOfBySetIdIn t.conn e.2
      Res.ok (ys.map fun y => (e.1, y)) : Res (List (Int × Int))) = .ok r ∧ r.Nodup ∧
        ∀ p, p ∈ r ↔ (p.1 = e.1 ∧ Closure ps p.1 p.2) := by
    rintro ⟨x, id⟩ he
    have hget := C.elem_keys.alGet_of_mem he
    obtain ⟨d, hr, hx⟩ := C.elem x id hget
    have hd := C.mem_dom hx
    obtain ⟨l, hl, hnd, hmem⟩ := setOfBySetIdIn_spec C ⟨C.conn_keys, C.conn_vals⟩ hr hd (fun s h => (C.conn_dom d s h).2)
    refine ⟨l.map fun y => (x, y), by simp only [hl, Res.bind_ok], ?_, ?_⟩
    · unfold List.Nodup
      rw [List.pairwise_map]
      exact List.Pairwise.imp (fun hab e => hab (by cases e; rfl)) hnd
    · rintro ⟨p1, p2⟩
      simp only [List.mem_map, Prod.mk.injEq]
      constructor
      · rintro ⟨y, hy, rfl, rfl⟩
        refine ⟨rfl, (linked_iff_closure I x y).mp ⟨d, hx, (hmem y).mp hy⟩⟩
      · rintro ⟨rfl, hc⟩
        obtain ⟨d', hx', h⟩ := (linked_iff_closure I p1 p2).mpr hc
        have := C.disjoint d' d p1 hx' hx; subst this
        exact ⟨p2, (hmem p2).mpr h, rfl, rfl⟩
  unfold TrRel.iterAll
  rw [mapM_ok_map [] t.elemIds fun e he => by obtain ⟨r, hr, _⟩ := hentry e he; exact ⟨r, hr⟩]
  simp only [Res.bind_ok, Res.pure_eq]
  refine ⟨_, rfl, ?_, ?_⟩
  · unfold List.Nodup
    rw [List.pairwise_flatten]
    constructor
    · intro l' hl'
      obtain ⟨e, he, rfl⟩ := List.mem_map.mp hl'
      obtain ⟨r, hr, hnd, _⟩ := hentry e he
      rw [hr]; exact hnd
    · rw [List.pairwise_map]
      have hk : t.elemIds.Pairwise (fun a b => a.1 ≠ b.1) := by
        have := C.elem_keys
        unfold KeysNodup List.Nodup at this
        rw [List.pairwise_map] at this
        exact this
      refine List.Pairwise.imp_of_mem ?_ hk
      intro a b ha hb hab u hu v hv huv
      subst huv
      obtain ⟨ra, hra, _, hma⟩ := hentry a ha
      obtain ⟨rb, hrb, _, hmb⟩ := hentry b hb
      rw [hra] at hu; rw [hrb] at hv
      exact hab (((hma u).mp hu).1.symm.trans ((hmb u).mp hv).1)
  · intro p
    simp only [List.mem_flatten, List.mem_map]
    constructor
    · rintro ⟨l', ⟨e, he, rfl⟩, hp⟩
      obtain ⟨r, hr, _, hm⟩ := hentry e he
      rw [hr] at hp
      exact ((hm p).mp hp).2
    · intro hc
      have hk := C.known p.1 hc.1
      cases hi : alGet t.elemIds p.1 with
      | none => simp [hi] at hk
      | some id =>
        have he := mem_of_alGet_some hi
        obtain ⟨r, hr, _, hm⟩ := hentry (p.1, id) he
        exact ⟨_, ⟨(p.1, id), he, rfl⟩, by rw [hr]; exact (hm p).mpr ⟨rfl, hc⟩⟩

end AscentVerif.TrRel
