import AscentVerif.Proofs.IndexHMap
/-!
# The `move_index_contents` drain loops as instances of `drainInto`
-/
namespace AscentVerif.Index

variable {K V : Type} [DecidableEq K]

/-! ## hash-vector index -/

/-- the per-key combiner of `Idx.absorb` -/
def absorbFn (v : List V) : Option (List V) → List V
  | some existing => if v.length > existing.length then v ++ existing else existing ++ v
  | none => v

theorem Idx.absorb_eq (to : Idx K V) (k : K) (v : List V) : Idx.absorb to k v = HMap.upsert to k (absorbFn v) := by
  unfold Idx.absorb
  congr

theorem Idx.moveContents_eq (frm to : Idx K V) :
    Idx.moveContents frm to =
      ([], if frm.length > to.length then drainInto absorbFn to frm else drainInto absorbFn frm to) := by
  unfold Idx.moveContents drainInto
  simp only [Idx.absorb_eq]
  by_cases h : frm.length > to.length <;> simp [h]

theorem vals_drainInto_absorb (frm to : Idx K V) (h : (HMap.keys frm).Nodup) (k : K) :
    ((HMap.get? (drainInto absorbFn frm to) k).getD []).Perm
      ((HMap.get? to k).getD [] ++ (HMap.get? frm k).getD []) := by
  rw [get?_drainInto _ _ _ h]
  cases hf : HMap.get? frm k with
  | none => simp
  | some w =>
    cases ht : HMap.get? to k with
    | none => simp [absorbFn]
    | some e =>
      simp only [absorbFn, Option.getD_some]
      split
      · exact List.perm_append_comm
      · exact List.Perm.refl _

theorem get?_drainInto_eq_none {W : Type} (g : W → Option V → V) (frm : HMap K W) (to : HMap K V) (k : K) :
    HMap.get? (drainInto g frm to) k = none ↔ (HMap.get? to k = none ∧ HMap.get? frm k = none) := by
  simp only [HMap.get?_eq_none_iff, mem_keys_drainInto, not_or]

theorem drainInto_absorb_nonempty (frm to : Idx K V)
    (hto : ∀ k vs, HMap.get? to k = some vs → vs ≠ [])
    (hfrm : ∀ k, HMap.get? frm k = some [] → (HMap.get? to k).isSome = true) :
    ∀ k vs, HMap.get? (drainInto absorbFn frm to) k = some vs → vs ≠ [] := by
  induction frm generalizing to with
  | nil => exact hto
  | cons hd tl ih =>
    obtain ⟨a, w⟩ := hd
    rw [drainInto_cons]
    apply ih
    · intro k vs
      rw [HMap.get?_upsert]
      by_cases hk : k = a
      · subst hk
        simp only [if_true, Option.some.injEq]
        intro hvs; subst hvs
        cases ht : HMap.get? to k with
        | some e =>
          have hne := hto k e ht
          simp only [absorbFn]
          split <;> simp [hne]
        | none =>
          simp only [absorbFn]
          intro hw
          have := hfrm k (by simp [HMap.get?_cons, hw])
          simp [ht] at this
      · simp only [hk, if_false]
        exact hto k vs
    · intro k hk
      rw [HMap.get?_upsert]
      by_cases hka : k = a
      · simp [hka]
      · simp only [hka, if_false]
        apply hfrm
        rw [HMap.get?_cons]
        have : ¬ a = k := fun h => hka h.symm
        simp [this, hk]

/-! ## full index -/

theorem FullIdx.moveContents_eq {V : Type} (frm to : FullIdx K V) :
    FullIdx.moveContents frm to =
      ([], if frm.length > to.length then drainInto (fun v _ => v) to frm else drainInto (fun v _ => v) frm to) := by
  unfold FullIdx.moveContents drainInto FullIdx.insert
  by_cases h : frm.length > to.length <;> simp [h]

/-! ## lattice index -/

variable [DecidableEq V]

theorem setAdd_nodup' (s : List V) (v : V) (h : s.Nodup) : (setAdd s v).Nodup := by
  unfold setAdd
  split
  · exact h
  · rename_i hv
    rw [List.nodup_append]
    refine ⟨h, by simp, ?_⟩
    intro a ha b hb
    simp at hb; subst hb
    intro hab; subst hab; exact hv ha

theorem mem_setAdd' (s : List V) (v x : V) : x ∈ setAdd s v ↔ x ∈ s ∨ x = v := by
  unfold setAdd
  split
  · rename_i hv
    constructor
    · exact Or.inl
    · rintro (h | h)
      · exact h
      · subst h; exact hv
  · simp

theorem nodup_foldl_setAdd (v s : List V) (h : s.Nodup) : (v.foldl setAdd s).Nodup := by
  induction v generalizing s with
  | nil => exact h
  | cons x xs ih => exact ih _ (setAdd_nodup' s x h)

theorem mem_foldl_setAdd (v s : List V) (x : V) : x ∈ v.foldl setAdd s ↔ x ∈ s ∨ x ∈ v := by
  induction v generalizing s with
  | nil => simp
  | cons y ys ih =>
    rw [List.foldl_cons, ih, mem_setAdd', List.mem_cons]
    constructor
    · rintro ((h | h) | h)
      · exact Or.inl h
      · exact Or.inr (Or.inl h)
      · exact Or.inr (Or.inr h)
    · rintro (h | h | h)
      · exact Or.inl (Or.inl h)
      · exact Or.inl (Or.inr h)
      · exact Or.inr h

/-- the per-key combiner of `LatIdx.moveContents` -/
def latFn (v : List V) (o : Option (List V)) : List V := v.foldl setAdd (o.getD [])

theorem LatIdx.moveContents_eq (frm to : LatIdx K V) :
    LatIdx.moveContents frm to = ([], drainInto latFn frm to) := by
  unfold LatIdx.moveContents drainInto
  congr
  funext acc kv
  congr
  funext o
  cases o <;> rfl

end AscentVerif.Index
