import AscentVerif.Proofs.TrRelCollapseConn
/-!
# One `add` that does not collapse classes, on states WITH subsumptions

`core_step`: a generic way to re-establish `Core` for the extended history after a step that only
touched the two connection maps: an upper bound (`ConnLe` for the semantic relation `GSem`), a lower
bound, and "no new cycle between different sets".  Used for the three non-collapse outcomes of
`add` (same set; fresh self pair; new edge between different sets without a back edge).
-/
namespace AscentVerif.TrRel
open TrRel (getDominantIdAux getDominantIdMutAux)

theorem reach_append_iff (ps : List (Int × Int)) (x0 y0 u v : Int) :
    Reach (ps ++ [(x0, y0)]) u v ↔ Reach ps u v ∨ (Reach ps u x0 ∧ Reach ps y0 v) := by
  have hmono : ∀ a b, Reach ps a b → Reach (ps ++ [(x0, y0)]) a b :=
    fun a b h => h.mono fun p hp => List.mem_append_left _ hp
  constructor
  · intro h
    induction h with
    | refl => exact Or.inl (.refl _)
    | @tail b c _ hbc ih =>
      rcases List.mem_append.mp hbc with hbc | hbc
      · rcases ih with ih | ⟨ih1, ih2⟩
        · exact Or.inl (.tail ih hbc)
        · exact Or.inr ⟨ih1, .tail ih2 hbc⟩
      · simp only [List.mem_singleton, Prod.mk.injEq] at hbc
        obtain ⟨rfl, rfl⟩ := hbc
        rcases ih with ih | ⟨ih1, _⟩
        · exact Or.inr ⟨ih, .refl _⟩
        · exact Or.inr ⟨ih1, .refl _⟩
  · rintro (h | ⟨h1, h2⟩)
    · exact hmono _ _ h
    · exact reach_trans _ _ _ _ (hmono _ _ h1) (reach_trans _ _ _ _ (ReflTransGen.single (by simp)) (hmono _ _ h2))

/-- the semantic upper bound for both maps: dominant ids, equal or connected in the history -/
def GSem (t : TrRel) (ps : List (Int × Int)) (a c : Nat) : Prop := IsDom t a ∧ IsDom t c ∧ (a = c ∨ Sem t ps a c)

theorem GSem.trans {t : TrRel} {ps : List (Int × Int)} (hsame : ∀ d u v, Mem t d u → Mem t d v → Reach ps u v)
    (a b c : Nat) (h1 : GSem t ps a b) (h2 : GSem t ps b c) : GSem t ps a c := by
  obtain ⟨ha, _, h1⟩ := h1
  obtain ⟨_, hc, h2⟩ := h2
  refine ⟨ha, hc, ?_⟩
  rcases h1 with rfl | ⟨u, v, hu, hv, huv⟩
  · exact h2
  · rcases h2 with rfl | ⟨v', w, hv', hw, hvw⟩
    · exact Or.inr ⟨u, v, hu, hv, huv⟩
    · exact Or.inr ⟨u, w, hu, hw, reach_trans _ _ _ _ huv (reach_trans _ _ _ _ (hsame b v v' hv hv') hvw)⟩

theorem Core.offMirror {t : TrRel} {ps : List (Int × Int)} (C : Core t ps) {a b : Nat} (h : a ≠ b) :
    rel t.conn a b ↔ rel t.rconn b a := by
  rw [C.conn_iff a b h, C.rconn_iff a b h]

theorem Core.offClosed {t : TrRel} {ps : List (Int × Int)} (C : Core t ps) {a b c : Nat} (hac : a ≠ c)
    (h1 : rel t.conn a b) (h2 : rel t.conn b c) : rel t.conn a c := by
  by_cases hab : a = b
  · subst hab; exact h2
  · by_cases hbc : b = c
    · subst hbc; exact h1
    · obtain ⟨u, v, hu, hv, huv⟩ := (C.conn_iff a b hab).mp h1
      obtain ⟨v', w, hv', hw, hvw⟩ := (C.conn_iff b c hbc).mp h2
      exact (C.conn_iff a c hac).mpr
        ⟨u, w, hu, hw, reach_trans _ _ _ _ huv (reach_trans _ _ _ _ (C.same b v v' hv hv') hvw)⟩

theorem Core.connLe {t : TrRel} {ps ps' : List (Int × Int)} (C : Core t ps) (hmono : ∀ u v, Reach ps u v → Reach ps' u v) :
    ConnLe (GSem t ps') t := by
  have hs : ∀ a c, Sem t ps a c → Sem t ps' a c := fun a c ⟨u, v, hu, hv, h⟩ => ⟨u, v, hu, hv, hmono _ _ h⟩
  constructor
  · intro a c h
    obtain ⟨ha, hc⟩ := C.conn_dom a c h
    refine ⟨ha, hc, ?_⟩
    by_cases hac : a = c
    · exact Or.inl hac
    · exact Or.inr (hs _ _ ((C.conn_iff a c hac).mp h))
  · intro c a h
    obtain ⟨hc, ha⟩ := C.rconn_dom c a h
    refine ⟨ha, hc, ?_⟩
    by_cases hac : a = c
    · exact Or.inl hac
    · exact Or.inr (hs _ _ ((C.rconn_iff a c hac).mp h))

/-- re-establishing the invariant after a step that only changed the two connection maps -/
theorem core_step {t t' : TrRel} {ps ps' : List (Int × Int)} (C : Core t ps) (sc : SameCore t t')
    (hknown : ∀ z, Mentioned ps' z → (alGet t.elemIds z).isSome = true) (hkeys : KeysOk t')
    (up : ConnLe (GSem t ps') t')
    (low : ∀ a c, a ≠ c → Sem t ps' a c → rel t'.conn a c ∧ rel t'.rconn c a)
    (hmono : ∀ u v, Reach ps u v → Reach ps' u v)
    (hscc : ∀ a b u v, Mem t a u → Mem t b v → Reach ps' u v → Reach ps' v u → a = b) : Core t' ps' := by
  obtain ⟨h1, h2, h3⟩ := sc
  have hM : Mem t' = Mem t := by funext d z; simp only [Mem, h1]
  have hD : IsDom t' = IsDom t := by funext d; simp only [IsDom, h1, h3]
  have hS : Sem t' ps' = Sem t ps' := by funext a c; simp only [Sem, hM]
  refine ⟨?_, ?_, ?_, ?_, ?_, ?_, ?_, ?_, ?_, ?_, ?_, ?_, ?_, ?_, hkeys.1.1, hkeys.2.1, hkeys.1.2, hkeys.2.2,
    by rw [h2]; exact C.elem_keys, by rw [h1]; exact C.sets_nodup⟩
  · rw [h3]; exact C.forest
  · rw [h3, h1]; exact C.subs_lt
  · rw [h3, hM]; exact C.dominated_empty
  · rw [hD, hM]; exact C.nonempty
  · rw [hM]; exact C.disjoint
  · rw [h2, h3, hM]; exact C.elem
  · rw [h2, hM]; exact C.elem_of_mem
  · rw [h2]; exact hknown
  · rw [hD]; intro a b h; obtain ⟨ha, hb, _⟩ := up.conn a b h; exact ⟨ha, hb⟩
  · rw [hD]; intro a b h; obtain ⟨hb, ha, _⟩ := up.rconn a b h; exact ⟨ha, hb⟩
  · rw [hS]
    intro a c hac
    constructor
    · intro h
      obtain ⟨_, _, h⟩ := up.conn a c h
      rcases h with h | h
      · exact absurd h hac
      · exact h
    · exact fun h => (low a c hac h).1
  · rw [hS]
    intro a c hac
    constructor
    · intro h
      obtain ⟨_, _, h⟩ := up.rconn c a h
      rcases h with h | h
      · exact absurd h hac
      · exact h
    · exact fun h => (low a c hac h).2
  · rw [hM]; exact fun d u v hu hv => hmono _ _ (C.same d u v hu hv)
  · rw [hM]; exact hscc

theorem mentioned_known {t : TrRel} {ps : List (Int × Int)} (C : Core t ps) {x0 y0 : Int}
    (hx : (alGet t.elemIds x0).isSome = true) (hy : (alGet t.elemIds y0).isSome = true) :
    ∀ z, Mentioned (ps ++ [(x0, y0)]) z → (alGet t.elemIds z).isSome = true := by
  intro z hz
  rcases (mentioned_append ps x0 y0 z).mp hz with h | rfl | rfl
  · exact C.known z h
  · exact hx
  · exact hy

/-- adding a pair inside one class changes nothing -/
theorem core_same_set {t : TrRel} {ps : List (Int × Int)} (C : Core t ps) {x0 y0 : Int} {X : Nat}
    (hX : Mem t X x0) (hY : Mem t X y0) : Core t (ps ++ [(x0, y0)]) := by
  have hiff : ∀ u v, Reach (ps ++ [(x0, y0)]) u v ↔ Reach ps u v := by
    intro u v
    rw [reach_append_iff]
    constructor
    · rintro (h | ⟨h1, h2⟩)
      · exact h
      · exact reach_trans _ _ _ _ h1 (reach_trans _ _ _ _ (C.same X x0 y0 hX hY) h2)
    · exact Or.inl
  have hsem : ∀ a c, Sem t (ps ++ [(x0, y0)]) a c → Sem t ps a c :=
    fun a c ⟨u, v, hu, hv, h⟩ => ⟨u, v, hu, hv, (hiff u v).mp h⟩
  apply core_step C (SameCore.refl t) (mentioned_known C (C.elem_of_mem X x0 hX) (C.elem_of_mem X y0 hY))
    C.keysOk (C.connLe fun u v h => (hiff u v).mpr h)
  · intro a c hac h
    exact ⟨(C.conn_iff a c hac).mpr (hsem a c h), (C.rconn_iff a c hac).mpr (hsem a c h)⟩
  · exact fun u v h => (hiff u v).mpr h
  · intro a b u v hu hv h1 h2
    exact C.scc a b u v hu hv ((hiff _ _).mp h1) ((hiff _ _).mp h2)

/-- `add_set_connection(X, X)` (only reached for a fresh self pair): nothing off the diagonal changes -/
theorem core_self_conn {t t' : TrRel} {ps : List (Int × Int)} (C : Core t ps) {x0 : Int} {X : Nat} {b : Bool}
    (hX : Mem t X x0) (he : t.addSetConnection X X = .ok (t', b)) : Core t' (ps ++ [(x0, x0)]) := by
  have hiff : ∀ u v, Reach (ps ++ [(x0, x0)]) u v ↔ Reach ps u v := by
    intro u v
    rw [reach_append_iff]
    constructor
    · rintro (h | ⟨h1, h2⟩)
      · exact h
      · exact reach_trans _ _ _ _ h1 h2
    · exact Or.inl
  have hsem : ∀ a c, Sem t (ps ++ [(x0, x0)]) a c → Sem t ps a c :=
    fun a c ⟨u, v, hu, hv, h⟩ => ⟨u, v, hu, hv, (hiff u v).mp h⟩
  have hsame' : ∀ d u v, Mem t d u → Mem t d v → Reach (ps ++ [(x0, x0)]) u v :=
    fun d u v hu hv => (hiff u v).mpr (C.same d u v hu hv)
  have hdomX := C.mem_dom hX
  obtain ⟨up, sc⟩ := addSetConnection_le (GSem.trans hsame') (C.connLe fun u v h => (hiff u v).mpr h)
    ⟨hdomX, hdomX, Or.inl rfl⟩ he
  apply core_step C sc (mentioned_known C (C.elem_of_mem X x0 hX) (C.elem_of_mem X x0 hX))
    (addSetConnection_keys C.keysOk he) up
  · intro a c hac h
    exact ⟨(addSetConnection_ge he).1 a c ((C.conn_iff a c hac).mpr (hsem a c h)),
      (addSetConnection_ge_rconn he).1 c a ((C.rconn_iff a c hac).mpr (hsem a c h))⟩
  · exact fun u v h => (hiff u v).mpr h
  · intro a b u v hu hv h1 h2
    exact C.scc a b u v hu hv ((hiff _ _).mp h1) ((hiff _ _).mp h2)

/-- set-level lower bound for a new edge `X → Y` (no back edge): every pair of `pred*(X) × succ*(Y)` gets stored in both maps -/
theorem edge_lower {t t' : TrRel} {ps : List (Int × Int)} (C : Core t ps) {X Y : Nat} (P : ConnPost t t' X Y)
    (hback : ¬ rel t.conn Y X) {a c : Nat} (hac : a ≠ c) (haP : a = X ∨ rel t.conn a X) (hcS : c = Y ∨ rel t.conn Y c) :
    rel t'.conn a c ∧ rel t'.rconn c a := by
  have pm : PMirror' t X Y := fun a b hab _ _ h => (C.offMirror hab).mp h
  by_cases ha : a = X
  · subst ha
    by_cases hc : c = Y
    · subst hc; exact ⟨P.conn_new, P.rconn_new⟩
    · have hYc : rel t.conn Y c := hcS.resolve_left hc
      refine ⟨P.conn_f c hYc, ?_⟩
      by_cases h : rel t.conn a c
      · exact P.rconn_mono c a ((C.offMirror hac).mp h)
      · exact P.rconn_nt c hYc h hc (Ne.symm hac)
  · have haX : rel t.conn a X := haP.resolve_left ha
    have hrX : rel t.rconn X a := (C.offMirror ha).mp haX
    have haY : a ≠ Y := by intro e; subst e; exact hback haX
    by_cases hc : c = Y
    · subst hc
      refine ⟨?_, P.rconn_to a hrX⟩
      by_cases h : rel t.rconn c a
      · exact P.conn_mono a c ((C.offMirror haY).mpr h)
      · exact P.conn_nf a hrX h ha haY
    · have hYc : rel t.conn Y c := hcS.resolve_left hc
      have hcX : c ≠ X := by intro e; subst e; exact hback hYc
      by_cases h1 : rel t.rconn Y a
      · have hh := C.offClosed hac ((C.offMirror haY).mpr h1) hYc
        exact ⟨P.conn_mono a c hh, P.rconn_mono c a ((C.offMirror hac).mp hh)⟩
      · by_cases h2 : rel t.conn X c
        · have hh := C.offClosed hac haX h2
          exact ⟨P.conn_mono a c hh, P.rconn_mono c a ((C.offMirror hac).mp hh)⟩
        · exact ⟨P.conn_prod a c hrX h1 ha hYc h2 hc haY, P.rconn_prod pm a c hrX h1 ha hYc h2 hc haY hcX hac⟩

/-- `add_set_connection(X, Y)` between different sets without a back edge -/
theorem core_new_edge {t t' : TrRel} {ps : List (Int × Int)} (C : Core t ps) {x0 y0 : Int} {X Y : Nat} {b : Bool}
    (hX : Mem t X x0) (hY : Mem t Y y0) (hne : X ≠ Y) (hback : ¬ rel t.conn Y X)
    (he : t.addSetConnection X Y = .ok (t', b)) : Core t' (ps ++ [(x0, y0)]) := by
  have hmono : ∀ u v, Reach ps u v → Reach (ps ++ [(x0, y0)]) u v :=
    fun u v h => (reach_append_iff ps x0 y0 u v).mpr (Or.inl h)
  have hsame' : ∀ d u v, Mem t d u → Mem t d v → Reach (ps ++ [(x0, y0)]) u v :=
    fun d u v hu hv => hmono _ _ (C.same d u v hu hv)
  have hnoback : ¬ Reach ps y0 x0 := fun h => hback ((C.conn_iff Y X (Ne.symm hne)).mpr ⟨y0, x0, hY, hX, h⟩)
  have hGXY : GSem t (ps ++ [(x0, y0)]) X Y :=
    ⟨C.mem_dom hX, C.mem_dom hY, Or.inr ⟨x0, y0, hX, hY, ReflTransGen.single (by simp)⟩⟩
  obtain ⟨up, sc⟩ := addSetConnection_le (GSem.trans hsame') (C.connLe hmono) hGXY he
  apply core_step C sc (mentioned_known C (C.elem_of_mem X x0 hX) (C.elem_of_mem Y y0 hY))
    (addSetConnection_keys C.keysOk he) up _ hmono
  · -- no new cycle between different sets
    intro a b u v hu hv h1 h2
    rw [reach_append_iff] at h1 h2
    rcases h1 with h1 | ⟨h1, h1'⟩ <;> rcases h2 with h2 | ⟨h2, h2'⟩
    · exact C.scc a b u v hu hv h1 h2
    · exact absurd (reach_trans _ _ _ _ h2' (reach_trans _ _ _ _ h1 h2)) hnoback
    · exact absurd (reach_trans _ _ _ _ h1' (reach_trans _ _ _ _ h2 h1)) hnoback
    · exact absurd (reach_trans _ _ _ _ h1' h2) hnoback
  · -- lower bound
    intro a c hac hsem
    obtain ⟨u, v, hu, hv, huv⟩ := hsem
    by_cases hxy : rel t.conn X Y
    · have hr : Reach ps x0 y0 := by
        obtain ⟨u', v', hu', hv', huv'⟩ := (C.conn_iff X Y hne).mp hxy
        exact reach_trans _ _ _ _ (C.same X x0 u' hX hu') (reach_trans _ _ _ _ huv' (C.same Y v' y0 hv' hY))
      have huv' : Reach ps u v := by
        rcases (reach_append_iff ps x0 y0 u v).mp huv with h | ⟨h1, h2⟩
        · exact h
        · exact reach_trans _ _ _ _ h1 (reach_trans _ _ _ _ hr h2)
      have hs : Sem t ps a c := ⟨u, v, hu, hv, huv'⟩
      exact ⟨(addSetConnection_ge he).1 a c ((C.conn_iff a c hac).mpr hs),
        (addSetConnection_ge_rconn he).1 c a ((C.rconn_iff a c hac).mpr hs)⟩
    · have P := addSetConnection_post hne hxy he
      rcases (reach_append_iff ps x0 y0 u v).mp huv with h | ⟨h1, h2⟩
      · have hs : Sem t ps a c := ⟨u, v, hu, hv, h⟩
        exact ⟨P.conn_mono a c ((C.conn_iff a c hac).mpr hs), P.rconn_mono c a ((C.rconn_iff a c hac).mpr hs)⟩
      · have haP : a = X ∨ rel t.conn a X := by
          by_cases e : a = X
          · exact Or.inl e
          · exact Or.inr ((C.conn_iff a X e).mpr ⟨u, x0, hu, hX, h1⟩)
        have hcS : c = Y ∨ rel t.conn Y c := by
          by_cases e : c = Y
          · exact Or.inl e
          · exact Or.inr ((C.conn_iff Y c (Ne.symm e)).mpr ⟨y0, v, hY, hv, h2⟩)
        exact edge_lower C P hback hac haP hcS

end AscentVerif.TrRel
