import AscentVerif.Proofs.PhysLatIdx
import AscentVerif.Proofs.PhysEval
import AscentVerif.Proofs.LatPass
/-!
# Evaluating a rule over the physical indices of a program with lattices = evaluating its plan over the bags

`GSpec`: what a clause needs from `index_get` / `iter_all` / `len_estimate` of the version(s) it reads (as `Phys.ViewSpec`,
for any reading functions).  Under it `PhysLat.evalFrom` has exactly the members of `Plan.evalFrom`; hence
(`Props/C01Plan.lean`) every environment of `PhysLat.evalRule` has the head rows of an environment of `Engine.evalBody` and
conversely, the empty-relation guard and the `len_estimate` swap included.
-/
namespace AscentVerif.PhysLat
open AscentVerif AscentVerif.Engine AscentVerif.Index AscentVerif.Phys

variable {E B G P A : Type}

structure GSpec (rows : List Tuple) (bag cols : List Nat) (get : List Val → List Tuple)
    (all : List (List Val × List Tuple)) (len : Nat) : Prop where
  get : ∀ key t, t ∈ get key ↔ ∃ i ∈ bag, rowAt rows i = t ∧ Plan.proj cols t = key
  all : ∀ k t, (∃ kr ∈ all, kr.1 = k ∧ t ∈ kr.2) ↔ ∃ i ∈ bag, rowAt rows i = t ∧ Plan.proj cols t = k
  len : len = 0 → bag = []

theorem GSpec.append {rows : List Tuple} {b₁ b₂ cols : List Nat} {g₁ g₂ : List Val → List Tuple}
    {a₁ a₂ : List (List Val × List Tuple)} {l₁ l₂ : Nat} (h₁ : GSpec rows b₁ cols g₁ a₁ l₁) (h₂ : GSpec rows b₂ cols g₂ a₂ l₂)
    {bag : List Nat} (hb : ∀ i, i ∈ bag ↔ i ∈ b₁ ∨ i ∈ b₂) :
    GSpec rows bag cols (fun k => g₁ k ++ g₂ k) (a₁ ++ a₂) (l₁ + l₂) := by
  refine ⟨?_, ?_, ?_⟩
  · intro key t
    simp only [List.mem_append, h₁.get, h₂.get, hb]
    constructor
    · rintro (⟨i, hi, h⟩ | ⟨i, hi, h⟩)
      · exact ⟨i, .inl hi, h⟩
      · exact ⟨i, .inr hi, h⟩
    · rintro ⟨i, hi | hi, h⟩
      · exact .inl ⟨i, hi, h⟩
      · exact .inr ⟨i, hi, h⟩
  · intro k t
    have e1 := h₁.all k t
    have e2 := h₂.all k t
    simp only [List.mem_append, hb]
    constructor
    · rintro ⟨kr, hkr | hkr, h⟩
      · obtain ⟨i, hi, h'⟩ := e1.mp ⟨kr, hkr, h⟩; exact ⟨i, .inl hi, h'⟩
      · obtain ⟨i, hi, h'⟩ := e2.mp ⟨kr, hkr, h⟩; exact ⟨i, .inr hi, h'⟩
    · rintro ⟨i, hi | hi, h⟩
      · obtain ⟨kr, hkr, h'⟩ := e1.mpr ⟨i, hi, h⟩; exact ⟨kr, .inl hkr, h'⟩
      · obtain ⟨kr, hkr, h'⟩ := e2.mpr ⟨i, hi, h⟩; exact ⟨kr, .inr hkr, h'⟩
  · intro hz
    have z1 : l₁ = 0 := by omega
    have z2 : l₂ = 0 := by omega
    have e1 := h₁.len z1
    have e2 := h₂.len z2
    subst e1; subst e2
    cases bag with
    | nil => rfl
    | cons i b =>
      have := (hb i).mp List.mem_cons_self
      simp at this

theorem GSpec.congr_bag {rows : List Tuple} {bag bag' cols : List Nat} {g : List Val → List Tuple}
    {a : List (List Val × List Tuple)} {l : Nat} (h : GSpec rows bag cols g a l) (hb : ∀ i, i ∈ bag' ↔ i ∈ bag) :
    GSpec rows bag' cols g a l := by
  refine ⟨?_, ?_, ?_⟩
  · intro key t
    rw [h.get]
    constructor
    · rintro ⟨i, hi, h'⟩; exact ⟨i, (hb i).mpr hi, h'⟩
    · rintro ⟨i, hi, h'⟩; exact ⟨i, (hb i).mp hi, h'⟩
  · intro k t
    rw [h.all]
    constructor
    · rintro ⟨i, hi, h'⟩; exact ⟨i, (hb i).mpr hi, h'⟩
    · rintro ⟨i, hi, h'⟩; exact ⟨i, (hb i).mp hi, h'⟩
  · intro hz
    have := h.len hz
    subst this
    cases bag' with
    | nil => rfl
    | cons i b =>
      have := (hb i).mp List.mem_cons_self
      cases this

theorem get_idxGet {rows : List Tuple} {bag cols : List Nat} {g : List Val → List Tuple}
    {a : List (List Val × List Tuple)} {l : Nat} (hv : GSpec rows bag cols g a l) (key : List Val) (t : Tuple) :
    t ∈ g key ↔ ∃ i ∈ Plan.idxGet rows bag cols key, rowAt rows i = t := by
  rw [hv.get]
  constructor
  · rintro ⟨i, hi, rfl, hk⟩
    exact ⟨i, ((Plan.idxGet_spec rows bag cols key).2.1 i).mpr ⟨hi, hk⟩, rfl⟩
  · rintro ⟨i, hi, rfl⟩
    obtain ⟨h1, h2⟩ := ((Plan.idxGet_spec rows bag cols key).2.1 i).mp hi
    exact ⟨i, h1, rfl, h2⟩

theorem clauseStep_memG (I : Interp E B G P A) {rows : List Tuple} {bag cols : List Nat} {g : List Val → List Tuple}
    {a : List (List Val × List Tuple)} {l : Nat} (hv : GSpec rows bag cols g a l) (pre : List Var) (args : List (Arg E))
    (conds : List (Cond E B P)) (ρ : Env) (k k' : Env → List Env) (hk : ∀ ρ' x, x ∈ k ρ' ↔ x ∈ k' ρ') (x : Env) :
    x ∈ Phys.clauseStep I (g (Plan.keyOf I ρ args cols)) pre args conds ρ k ↔
      x ∈ Plan.clauseStep I rows bag cols pre args conds ρ k' := by
  rw [physClauseStep_eq, planClauseStep_eq]
  exact mem_flatMap_rows rows _ _ _ _ (get_idxGet hv _) (fun t x => rowStep_congr I _ args conds ρ k k' hk t x) x

theorem joinStep_memG (I : Interp E B G P A) {rowsA rowsB : List Tuple} {bagA bagB colsA colsB : List Nat}
    {gA gB : List Val → List Tuple} {aA aB : List (List Val × List Tuple)} {lA lB : Nat}
    (hvA : GSpec rowsA bagA colsA gA aA lA) (hvB : GSpec rowsB bagB colsB gB aB lB)
    (argsA : List (Arg E)) (condsA : List (Cond E B P))
    (argsB : List (Arg E)) (condsB : List (Cond E B P)) (preB : List Var) (ρ : Env) (k k' : Env → List Env)
    (hk : ∀ ρ' x, x ∈ k ρ' ↔ x ∈ k' ρ') (x : Env) :
    x ∈ Phys.joinStep I aA colsA argsA condsA gB colsB argsB condsB preB ρ k ↔
      x ∈ Plan.joinStep I rowsA bagA colsA argsA condsA rowsB bagB colsB argsB condsB preB ρ k' := by
  rw [physJoinStep_eq, planJoinStep_eq]
  let FP : List Val → Tuple → List Env := fun key t =>
    rowStep I (fun j _ => colsA.contains j) argsA condsA (Plan.bindKey argsA colsA key ρ)
      (fun ρ₂ => (gB (Plan.keyOf I (Plan.bindKey argsA colsA key ρ) argsB colsB)).flatMap
        (rowStep I (fun _ v => preB.contains v) argsB condsB ρ₂ k)) t
  let FQ : List Val → Tuple → List Env := fun key t =>
    rowStep I (fun j _ => colsA.contains j) argsA condsA (Plan.bindKey argsA colsA key ρ)
      (fun ρ₂ => (Plan.idxGet rowsB bagB colsB (Plan.keyOf I (Plan.bindKey argsA colsA key ρ) argsB colsB)).flatMap
        fun ib => rowStep I (fun _ v => preB.contains v) argsB condsB ρ₂ k' (rowAt rowsB ib)) t
  have hinner : ∀ (key : List Val) (t : Tuple) (x : Env), x ∈ FP key t ↔ x ∈ FQ key t := by
    intro key t x
    apply rowStep_congr
    intro ρ₂ y
    exact mem_flatMap_rows rowsB _ _ _ _ (get_idxGet hvB _)
      (fun t x => rowStep_congr I _ argsB condsB ρ₂ k k' hk t x) y
  refine (mem_groups aA FP x).trans
    (Iff.trans ?_ (mem_groups (Plan.iterAll rowsA bagA colsA) (fun key ia => FQ key (rowAt rowsA ia)) x).symm)
  constructor
  · rintro ⟨key, t, hg, hx⟩
    obtain ⟨ia, hia, rfl, hkey⟩ := (hvA.all key t).mp hg
    exact ⟨key, ia, (iterAll_group rowsA bagA colsA key ia).mpr ⟨hia, hkey⟩, (hinner _ _ _).mp hx⟩
  · rintro ⟨key, ia, hg, hx⟩
    obtain ⟨hia, hkey⟩ := (iterAll_group rowsA bagA colsA key ia).mp hg
    exact ⟨key, rowAt rowsA ia, (hvA.all key _).mpr ⟨ia, hia, rfl, hkey⟩, (hinner _ _ _).mpr hx⟩

/-! ## the plan is usable -/

/-- a clause on a lattice does not index the value column -/
def PosL (p : Program E B G P A) (h : Hir.HRule) (j : Nat) : Item E B G P A → Prop
  | .clause rel _ _ => isLatRel p rel = true → ∀ c ∈ Plan.colsAt h j, c < arityOf p rel - 1
  | _ => True

def ClL (p : Program E B G P A) (h : Hir.HRule) (i : Nat) (body : List (Item E B G P A)) : Prop :=
  ∀ k it, body[k]? = some it → PosL p h (i + k) it

theorem ClL.head {p : Program E B G P A} {h : Hir.HRule} {i : Nat} {it : Item E B G P A}
    {rest : List (Item E B G P A)} (hc : ClL p h i (it :: rest)) : PosL p h i it := by
  simpa using hc 0 it rfl

theorem ClL.tail {p : Program E B G P A} {h : Hir.HRule} {i : Nat} {it : Item E B G P A}
    {rest : List (Item E B G P A)} (hc : ClL p h i (it :: rest)) : ClL p h (i + 1) rest := by
  intro k it' hk
  have := hc (k + 1) it' (by simpa using hk)
  rwa [show i + (k + 1) = i + 1 + k by omega] at this

/-- the interface between the evaluation and the simulation relation -/
def ViewsOkL (p : Program E B G P A) (ixs : IxSets) (a : SccSt) (x : XScc) : Prop :=
  ∀ r v cols, ColsOk (arityOf p r) cols → (cols.length = arityOf p r ∨ cols ∈ ixs r) →
    (isLatRel p r = true → ∀ c ∈ cols, c < arityOf p r - 1) →
    GSpec (relSt a.rels r).rows (clauseRows {} p a r v) cols
      (getV (isLatRel p r) (arityOf p r) (viewOf x r v) cols) (allV (isLatRel p r) (arityOf p r) (viewOf x r v) cols)
      (lenV (isLatRel p r) (arityOf p r) (viewOf x r v) cols)

/-! ## `evalFrom`, unfolded -/

theorem evalFrom_joinL (I : Interp E B G P A) (p : Program E B G P A) (s : XScc) (h : Hir.HRule) (swap : Bool) (i : Nat)
    (r : RelId) (args : List (Arg E)) (conds : List (Cond E B P)) (r2 : RelId) (args2 : List (Arg E))
    (conds2 : List (Cond E B P)) (rest2 : List (Item E B G P A)) (vs : List (Option Ver)) (ρ : Env)
    (hsj : h.simpleJoinStart = some i) :
    evalFrom I p s h swap i (.clause r args conds :: .clause r2 args2 conds2 :: rest2) vs ρ =
      if swap then
        Phys.joinStep I (allV (isLatRel p r2) (arityOf p r2) (viewOf s r2 (vs.tail.headD none)) (Plan.colsAt h (i + 1)))
          (Plan.colsAt h (i + 1)) args2 conds2
          (getV (isLatRel p r) (arityOf p r) (viewOf s r (vs.headD none)) (Plan.colsAt h i)) (Plan.colsAt h i) args conds
          (Plan.preVars h i ++ h.bound.getD (i + 1) []) ρ fun ρ' => evalFrom I p s h swap (i + 2) rest2 vs.tail.tail ρ'
      else
        Phys.joinStep I (allV (isLatRel p r) (arityOf p r) (viewOf s r (vs.headD none)) (Plan.colsAt h i)) (Plan.colsAt h i)
          args conds
          (getV (isLatRel p r2) (arityOf p r2) (viewOf s r2 (vs.tail.headD none)) (Plan.colsAt h (i + 1)))
          (Plan.colsAt h (i + 1))
          args2 conds2 (Plan.preVars h (i + 1)) ρ fun ρ' => evalFrom I p s h swap (i + 2) rest2 vs.tail.tail ρ' := by
  simp only [evalFrom, hsj, if_true]

theorem evalFrom_clauseL (I : Interp E B G P A) (p : Program E B G P A) (s : XScc) (h : Hir.HRule) (swap : Bool) (i : Nat)
    (r : RelId) (args : List (Arg E)) (conds : List (Cond E B P)) (rest : List (Item E B G P A)) (vs : List (Option Ver))
    (ρ : Env) (hne : h.simpleJoinStart = some i → ∀ r2 a2 c2 rest2, rest ≠ .clause r2 a2 c2 :: rest2) :
    evalFrom I p s h swap i (.clause r args conds :: rest) vs ρ =
      Phys.clauseStep I (getV (isLatRel p r) (arityOf p r) (viewOf s r (vs.headD none)) (Plan.colsAt h i)
          (Plan.keyOf I ρ args (Plan.colsAt h i)))
        (Plan.preVars h i) args conds ρ fun ρ' => evalFrom I p s h swap (i + 1) rest vs.tail ρ' := by
  cases rest with
  | nil => simp only [evalFrom]
  | cons it rest2 =>
    cases it with
    | clause r2 a2 c2 =>
      have hsj : ¬ h.simpleJoinStart = some i := fun hh => hne hh r2 a2 c2 rest2 rfl
      simp only [evalFrom, hsj, if_false]
    | cond c => simp only [evalFrom]
    | gen v g => simp only [evalFrom]
    | agg a => simp only [evalFrom]

/-! ## the physical evaluation enumerates the environments of the plan evaluation -/

theorem evalFrom_memL (I : Interp E B G P A) (p : Program E B G P A) (ixs : IxSets) (a : SccSt) (ph : XScc)
    (hV : ViewsOkL p ixs a ph) (h : Hir.HRule) (swap : Bool) :
    ∀ (n : Nat) (body : List (Item E B G P A)) (i : Nat) (vs : List (Option Ver)) (ρ : Env), body.length ≤ n →
      ClOk p ixs h i body → ClL p h i body → aggFreeL body = true →
      ∀ x, x ∈ evalFrom I p ph h swap i body vs ρ ↔ x ∈ Plan.evalFrom I {} p a h swap i body vs ρ := by
  intro n
  induction n with
  | zero =>
    intro body i vs ρ hlen _ _ _ x
    cases body with
    | nil => simp only [evalFrom, Plan.evalFrom]
    | cons it rest => simp at hlen
  | succ n ih =>
    intro body i vs ρ hlen hok hokl haf x
    cases body with
    | nil => simp only [evalFrom, Plan.evalFrom]
    | cons it rest =>
      have hlen' : rest.length ≤ n := by simpa using hlen
      have haf' := aggFreeL_tail haf
      cases it with
      | cond c =>
        simp only [evalFrom, Plan.evalFrom]
        cases satCond I c ρ with
        | none => exact Iff.rfl
        | some ρ₁ => exact ih rest (i + 1) vs.tail ρ₁ hlen' hok.tail hokl.tail haf' x
      | gen v g =>
        simp only [evalFrom, Plan.evalFrom, List.mem_flatMap]
        constructor
        · rintro ⟨y, hy, hx⟩
          exact ⟨y, hy, (ih rest (i + 1) vs.tail _ hlen' hok.tail hokl.tail haf' x).mp hx⟩
        · rintro ⟨y, hy, hx⟩
          exact ⟨y, hy, (ih rest (i + 1) vs.tail _ hlen' hok.tail hokl.tail haf' x).mpr hx⟩
      | agg ag => simp [aggFreeL, Item.isAgg] at haf
      | clause r args conds =>
        obtain ⟨hc1, hix1, _⟩ : PosOk p ixs h i (.clause r args conds) := hok.head
        have hl1 : PosL p h i (.clause r args conds) := hokl.head
        have hv1 := hV r (vs.headD none) _ hc1 hix1 hl1
        by_cases hj : h.simpleJoinStart = some i ∧ ∃ r2 a2 c2 rest2, rest = .clause r2 a2 c2 :: rest2
        · obtain ⟨hsj, r2, a2, c2, rest2, rfl⟩ := hj
          obtain ⟨hc2, hix2, _⟩ : PosOk p ixs h (i + 1) (.clause r2 a2 c2) := hok.tail.head
          have hl2 : PosL p h (i + 1) (.clause r2 a2 c2) := hokl.tail.head
          have hv2 := hV r2 (vs.tail.headD none) _ hc2 hix2 hl2
          have hlen2 : rest2.length ≤ n := by simp at hlen'; omega
          have hk : ∀ ρ' x, x ∈ evalFrom I p ph h swap (i + 2) rest2 vs.tail.tail ρ' ↔
              x ∈ Plan.evalFrom I {} p a h swap (i + 2) rest2 vs.tail.tail ρ' :=
            fun ρ' x => ih rest2 (i + 2) vs.tail.tail ρ' hlen2 hok.tail.tail hokl.tail.tail (aggFreeL_tail haf') x
          rw [evalFrom_joinL I p ph h swap i r args conds r2 a2 c2 rest2 vs ρ hsj,
            Plan.evalFrom_join I {} p a h swap i r args conds r2 a2 c2 rest2 vs ρ hsj]
          cases swap with
          | true =>
            simp only [if_true]
            exact joinStep_memG I hv2 hv1 a2 c2 args conds _ ρ _ _ hk x
          | false =>
            simp only [Bool.false_eq_true, if_false]
            exact joinStep_memG I hv1 hv2 args conds a2 c2 _ ρ _ _ hk x
        · have hne : h.simpleJoinStart = some i → ∀ r2 a2 c2 rest2, rest ≠ .clause r2 a2 c2 :: rest2 :=
            fun hsj r2 a2 c2 rest2 he => hj ⟨hsj, r2, a2, c2, rest2, he⟩
          rw [evalFrom_clauseL I p ph h swap i r args conds rest vs ρ hne,
            planEvalFrom_clause I {} p a h swap i r args conds rest vs ρ hne]
          exact clauseStep_memG I hv1 _ args conds ρ _ _
            (fun ρ' x => ih rest (i + 1) vs.tail ρ' hlen' hok.tail hokl.tail haf' x) x

/-! ## the empty-relation guard -/

theorem clausesOf_okL {p : Program E B G P A} {h : Hir.HRule} :
    ∀ (body : List (Item E B G P A)) (i : Nat) (vs : List (Option Ver)), ClL p h i body →
      ∀ c ∈ clausesOf i body vs, isLatRel p c.2.1 = true → ∀ j ∈ Plan.colsAt h c.1, j < arityOf p c.2.1 - 1
  | [], _, _, _, c, hc => by simp [clausesOf] at hc
  | .clause r args conds :: rest, i, vs, hok, c, hc => by
    simp only [clausesOf, List.mem_cons] at hc
    rcases hc with rfl | hc
    · exact hok.head
    · exact clausesOf_okL rest (i + 1) vs.tail hok.tail c hc
  | .cond _ :: rest, i, vs, hok, c, hc => by
    simp only [clausesOf] at hc
    exact clausesOf_okL rest (i + 1) vs.tail hok.tail c hc
  | .gen _ _ :: rest, i, vs, hok, c, hc => by
    simp only [clausesOf] at hc
    exact clausesOf_okL rest (i + 1) vs.tail hok.tail c hc
  | .agg _ :: rest, i, vs, hok, c, hc => by
    simp only [clausesOf] at hc
    exact clausesOf_okL rest (i + 1) vs.tail hok.tail c hc

theorem anyEmpty_soundL (I : Interp E B G P A) (p : Program E B G P A) (ixs : IxSets) (a : SccSt) (ph : XScc)
    (hV : ViewsOkL p ixs a ph) (h : Hir.HRule) (body : List (Item E B G P A)) (vs : List (Option Ver))
    (hok : ClOk p ixs h 0 body) (hokl : ClL p h 0 body) (he : anyEmpty p ph h body vs = true) :
    evalBody I {} p a body vs [] = [] := by
  simp only [anyEmpty, Bool.and_eq_true, List.any_eq_true] at he
  obtain ⟨_, c, hc, hemp⟩ := he
  apply evalBody_nil_of_empty I {} p a body 0 vs [] ⟨c, hc, ?_⟩
  obtain ⟨h1, h2⟩ := clausesOf_ok body 0 vs hok c hc
  have hv := hV c.2.1 c.2.2 _ h1 h2 (clausesOf_okL body 0 vs hokl c hc)
  apply hv.len
  simpa using hemp

theorem chooseSwap_reorderableL (p : Program E B G P A) (s : XScc) (h : Hir.HRule) (body : List (Item E B G P A))
    (vs : List (Option Ver)) (hs : chooseSwap p s h body vs = true) : Plan.reorderable h = true := by
  unfold chooseSwap at hs
  split at hs
  · cases hs
  · split at hs
    · cases hs
    · rename_i hr
      simpa using hr

/-! ## one MIR rule: environments of the physical evaluation against those of the filter semantics, up to head rows -/

theorem exists_of_map_perm {α β : Type} {l l' : List α} (f : α → β) (hp : (l.map f).Perm (l'.map f)) :
    ∀ a ∈ l, ∃ b ∈ l', f a = f b := by
  intro a ha
  have : f a ∈ l'.map f := hp.mem_iff.mp (List.mem_map.mpr ⟨a, ha, rfl⟩)
  obtain ⟨b, hb, e⟩ := List.mem_map.mp this
  exact ⟨b, hb, e.symm⟩

theorem evalRule_envs (I : Interp E B G P A) (hI : Plan.Ext I) (V : Hir.VarsOf E B) (hS : Plan.Supp I V)
    (p : Program E B G P A) (ixs : IxSets) (a : SccSt) (ph : XScc) (hV : ViewsOkL p ixs a ph) (r : Rule E B G P A)
    (hd : Hir.Desugared V r = true) (hw : Plan.WellScoped V r = true) (hok : ClOk p ixs (Hir.compileRule V r) 0 r.body)
    (hokl : ClL p (Hir.compileRule V r) 0 r.body) (haf : r.aggFree = true) (vs : List (Option Ver)) :
    (∀ ρ ∈ evalRule I p ph (Hir.compileRule V r) r.body vs, ∃ ρ' ∈ evalBody I {} p a r.body vs [],
      Plan.headRows I r.heads ρ = Plan.headRows I r.heads ρ') ∧
    (∀ ρ' ∈ evalBody I {} p a r.body vs [], ∃ ρ ∈ evalRule I p ph (Hir.compileRule V r) r.body vs,
      Plan.headRows I r.heads ρ = Plan.headRows I r.heads ρ') := by
  unfold evalRule
  split
  · rename_i he
    rw [anyEmpty_soundL I p ixs a ph hV _ r.body vs hok hokl he]
    exact ⟨fun ρ hρ => (by cases hρ), fun ρ hρ => (by cases hρ)⟩
  · have hmem : ∀ ρ, ρ ∈ evalFrom I p ph (Hir.compileRule V r) (chooseSwap p ph (Hir.compileRule V r) r.body vs) 0 r.body vs [] ↔
        ρ ∈ Plan.evalBodyPlan I {} p a (Hir.compileRule V r) (chooseSwap p ph (Hir.compileRule V r) r.body vs) r.body vs [] :=
      fun ρ => evalFrom_memL I p ixs a ph hV _ _ _ r.body 0 vs [] (Nat.le_refl _) hok hokl haf ρ
    have hperm : ((Plan.evalBodyPlan I {} p a (Hir.compileRule V r) (chooseSwap p ph (Hir.compileRule V r) r.body vs) r.body vs
        []).map (Plan.headRows I r.heads)).Perm ((evalBody I {} p a r.body vs []).map (Plan.headRows I r.heads)) := by
      cases hs : chooseSwap p ph (Hir.compileRule V r) r.body vs with
      | false => exact Plan.head_rows_perm I hI {} p a V r hd vs
      | true =>
        exact Plan.head_rows_perm_swapped I hI {} p a V hS r hd hw
          (chooseSwap_reorderableL p ph _ r.body vs hs) vs
    refine ⟨?_, ?_⟩
    · intro ρ hρ
      exact exists_of_map_perm _ hperm ρ ((hmem ρ).mp hρ)
    · intro ρ' hρ'
      obtain ⟨ρ, hρ, e⟩ := exists_of_map_perm _ hperm.symm ρ' hρ'
      exact ⟨ρ, (hmem ρ).mpr hρ, e.symm⟩

end AscentVerif.PhysLat
