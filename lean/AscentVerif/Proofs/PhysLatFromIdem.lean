import AscentVerif.Proofs.PhysLatFrom
import AscentVerif.Proofs.LatFromIdem
/-!
# An execution of the nondeterministic lattice engine over a closed value changes no row

`Proofs/LatFromIdem.lean` shows it for the deterministic engine; here for EVERY execution of `Proofs/NDLattice.lean` (any
processing order, values read at any earlier moment of the pass), hence for the physical engine (`Proofs/PhysLatRun.lean`).
Along a trace every state has the row vectors `R`; an instance read in any of them is an instance over `DBof R`, its heads are
dominated (`LClosedRules`), so the head update changes no row (`headUpdate_same`: `flag_false`, antisymmetry).  The `Quiet`
side condition of the deterministic development (rows `[]` in a lattice of arity 1) is vacuous for typed rows.
-/
namespace AscentVerif.Engine
open AscentVerif

variable {E B G P A : Type}

section SameND
variable {I : Interp E B G P A} {L : LatOrder I} {p : Program E B G P A} {inp : RelId → List Tuple}
  {dynR : List RelId}

variable (hanti : ∀ r a b, L.le r a b → L.le r b a → a = b) (R : RelId → List Tuple)
  (hcl : LClosedRules I L p p.rules (DBof R)) (hne : ∀ r, (declOf p r).lat = true → [] ∉ R r)

include hne in
theorem quiet_of_noEmpty (f : Fact) : Quiet I p (DBof R) f := fun hl hm _ => absurd hm (hne f.rel hl)

include hanti hne in
theorem heads_sameND (heads : List (HeadClause E)) (ρ : Env)
    (hbf : ∀ h ∈ heads, BelowF I L p inp (headFact I h ρ))
    (hdyn : ∀ h ∈ heads, dynR.contains h.rel = true)
    (hdom : ∀ h ∈ heads, Dominated I L p (DBof R) (headFact I h ρ)) :
    ∀ s, LInv I L p inp dynR s ∧ SameRows R s →
      LInv I L p inp dynR (heads.foldl (fun s h => headUpdate I {} p s h ρ) s) ∧
      SameRows R (heads.foldl (fun s h => headUpdate I {} p s h ρ) s) := by
  refine foldl_inv _ (fun s => LInv I L p inp dynR s ∧ SameRows R s) heads ?_
  intro s h hh hs
  have hd := hdom h hh
  have hq := quiet_of_noEmpty (I := I) R hne (headFact I h ρ)
  rw [← FactsS_of_same hs.2] at hd hq
  refine ⟨(headUpdate_step hs.1 h ρ (hdyn h hh) (hbf h hh)).1, ?_⟩
  intro r'
  rw [headUpdate_same hanti hs.1 h ρ (hdyn h hh) hd hq r']
  exact hs.2 r'

include hanti hcl hne in
/-- every state of a trace from a state with the row vectors `R` has the row vectors `R` -/
theorem trace_same (rules : List (Rule E B G P A)) (hrules : ∀ rule ∈ rules, rule ∈ p.rules)
    (hdyn : ∀ rule ∈ rules, ∀ h ∈ rule.heads, dynR.contains h.rel = true)
    {tr : List (EntryL E B G P A)} (htr : TraceL I p dynR rules tr) :
    ∀ s₀, tr.getLast?.map (·.st) = some s₀ → LInv I L p inp dynR s₀ → SameRows R s₀ →
      ∀ e ∈ tr, LInv I L p inp dynR e.st ∧ SameRows R e.st := by
  induction htr with
  | start s =>
    intro s₀ hlast hinv hsame e he
    simp only [List.getLast?_singleton, Option.map_some, Option.some.injEq] at hlast
    subst hlast
    simp only [List.mem_singleton] at he
    subst he
    exact ⟨hinv, hsame⟩
  | @step e hist rule vs sr ρ _ hrule hvs hsr hsat ih =>
    intro s₀ hlast hinv hsame
    rw [List.getLast?_cons_cons] at hlast
    have hall := ih s₀ hlast hinv hsame
    obtain ⟨er, her, rfl⟩ := List.mem_map.mp hsr
    obtain ⟨hinvr, hsamer⟩ := hall er her
    have hbf := belowF_of_view rule (hrules rule hrule) vs er.st hinvr ρ hsat
    have hsat' : Sat I (FactsS er.st) nAgg rule.body [] ρ :=
      SatV.toSat (fun r v t hv => view_sub_rows' {} p hinvr.wf hv) hsat
    rw [FactsS_of_same hsamer] at hsat'
    have hnew := heads_sameND hanti R hne rule.heads ρ hbf (hdyn rule hrule)
      (fun h hh => hcl rule (hrules rule hrule) ρ hsat' h hh) e.st (hall e (by simp))
    intro e' he'
    rcases List.mem_cons.mp he' with rfl | he'
    · exact hnew
    · exact hall e' he'

include hanti hcl hne in
theorem passNDL_same (rules : List (Rule E B G P A)) (hrules : ∀ rule ∈ rules, rule ∈ p.rules)
    (hdyn : ∀ rule ∈ rules, ∀ h ∈ rule.heads, dynR.contains h.rel = true)
    (s s₁ : SccSt) (hinv : LInv I L p inp dynR { s with changed := false }) (hsame : SameRows R s)
    (hpass : PassNDL I p dynR rules s s₁) : SameRows R s₁ := by
  obtain ⟨tr, htr, hhead, hlast, _⟩ := hpass
  obtain ⟨e₁, he₁, hst₁⟩ := Option.map_eq_some_iff.mp hhead
  have hm₁ : e₁ ∈ tr := List.mem_of_head? he₁
  subst hst₁
  exact (trace_same hanti R hcl hne rules hrules hdyn htr _ hlast hinv hsame e₁ hm₁).2

include hanti hcl hne in
theorem loopNDL_same (rules : List (Rule E B G P A))
    (hrules : ∀ rule ∈ rules, rule ∈ p.rules) (haf : ∀ rule ∈ rules, rule.aggFree = true)
    (hdyn : ∀ rule ∈ rules, ∀ h ∈ rule.heads, dynR.contains h.rel = true)
    {s s' : SccSt} (hloop : LoopNDL I p dynR rules s s') :
    LLoopInv I L p inp dynR rules (hasDyn dynR) s → SameRows R s → SameRows R s' := by
  induction hloop with
  | @exit s s₁ hpass _ =>
    intro hinv hsame
    exact passNDL_same hanti R hcl hne rules hrules hdyn s s₁ (LInv_reset hinv.inv) hsame hpass
  | @more s s₁ s' hpass _ _ ih =>
    intro hinv hsame
    obtain ⟨hinv', _⟩ := iter_step_ndl rules hrules haf hdyn s s₁ hinv hpass
    have hs1 : SameRows R (shift s₁) :=
      passNDL_same hanti R hcl hne rules hrules hdyn s s₁ (LInv_reset hinv.inv) hsame hpass
    exact ih (hinv'.weaken fun _ _ => trivial) hs1

include hanti hcl hne in
theorem sccNDL_same (haf : ∀ r ∈ p.rules, r.aggFree = true)
    (hh : ∀ r ∈ p.rules, ∀ h ∈ r.heads, h.rel < p.rels.length)
    (scc : List Nat) (st st' : St) (hp : LPInv I L p inp st) (hsame : ∀ r, (relSt st r).rows = R r)
    (h : SccNDL I p scc st st') : ∀ r, (relSt st' r).rows = R r := by
  have hrules := sccRules_sub p scc
  have hafs : ∀ rule ∈ sccRules p scc, rule.aggFree = true := fun r hr => haf r (hrules r hr)
  have hdyn : ∀ rule ∈ sccRules p scc, ∀ h ∈ rule.heads, (dynRels p scc).contains h.rel = true :=
    fun rule hr h hhd => (dynRels_mem p scc h.rel).mpr ⟨rule, hr, h, hhd, rfl⟩
  have hlt : ∀ r, (dynRels p scc).contains r = true → r < p.rels.length := by
    intro r hr
    obtain ⟨rule, hrule, h, hhd, rfl⟩ := (dynRels_mem p scc r).mp hr
    exact hh rule (hrules rule hrule) h hhd
  have hinv0 := LLoopInv_enter (dynRels p scc) hlt hp (sccRules p scc)
  have hb0 : LBase I L p (dynRels p scc) st (enterScc st (dynRels p scc)) := LBase_enter st (dynRels p scc)
  have hs0 : SameRows R (enterScc st (dynRels p scc)) := by
    intro r
    simp only [rowsOf, enterScc_rels]; exact hsame r
  unfold SccNDL at h
  split at h
  · obtain ⟨s', hloop, rfl⟩ := h
    obtain ⟨hinv, _, _⟩ := loopNDL_spec (sccRules p scc) hrules hafs hdyn st hloop hinv0 hb0
    have hs := loopNDL_same hanti R hcl hne (sccRules p scc) hrules hafs hdyn hloop hinv0 hs0
    intro r
    rw [rows_leave hinv.inv]; exact hs r
  · obtain ⟨s₁, hpass, rfl⟩ := h
    obtain ⟨hinv, _⟩ := iter_step_ndl (sccRules p scc) hrules hafs hdyn _ s₁ hinv0 hpass
    have hs : SameRows R s₁ :=
      passNDL_same hanti R hcl hne (sccRules p scc) hrules hdyn _ s₁ (LInv_reset hinv0.inv) hs0 hpass
    have hinv2 : LInv I L p inp (dynRels p scc) (shift (shift s₁)) := LInv_shift hinv.inv
    intro r
    rw [rows_leave hinv2]; exact hs r

include hanti hcl hne in
theorem sccsNDL_same (haf : ∀ r ∈ p.rules, r.aggFree = true)
    (hh : ∀ r ∈ p.rules, ∀ h ∈ r.heads, h.rel < p.rels.length)
    {rest : SccOrder} {st st' : St} (hrun : SccsNDL I p rest st st') :
    LPInv I L p inp st → (∀ r, (relSt st r).rows = R r) → ∀ r, (relSt st' r).rows = R r := by
  induction hrun with
  | nil => intro _ hsame; exact hsame
  | @cons scc rest st st₁ st₂ hscc _ ih =>
    intro hp hsame
    obtain ⟨hp1, _, _, _⟩ := sccNDL_spec haf hh scc st st₁ hp hscc
    exact ih hp1 (sccNDL_same hanti R hcl hne haf hh scc st st₁ hp hsame hscc)

end SameND

/-- **every execution of the nondeterministic lattice engine from a closed value with typed rows changes no row** -/
theorem runNDL_same {I : Interp E B G P A} {L : LatOrder I} {p : Program E B G P A}
    (hanti : ∀ r a b, L.le r a b → L.le r b a → a = b)
    (haf : ∀ r ∈ p.rules, r.aggFree = true)
    (hh : ∀ r ∈ p.rules, ∀ h ∈ r.heads, h.rel < p.rels.length)
    (o : SccOrder) (s s' : St) (hs : WFSt' p s)
    (hk : ∀ r, r < p.rels.length → (declOf p r).lat = true → ((relSt s r).rows.map keyOf).Nodup)
    (hne : ∀ r, (declOf p r).lat = true → [] ∉ (relSt s r).rows)
    (hcl : LClosedRules I L p p.rules (DBof (rowsFn s)))
    (hrun : RunNDL I p o s s') : ∀ r, (relSt s' r).rows = (relSt s r).rows := by
  obtain ⟨hp0, _⟩ := LPInv_from (I := I) (L := L) s hs hk
  exact sccsNDL_same hanti (rowsFn s) hcl hne haf hh hrun hp0 (fun r => by rw [relSt_updateIndices]; rfl)

end AscentVerif.Engine

namespace AscentVerif.PhysLat
open AscentVerif AscentVerif.Engine AscentVerif.Index AscentVerif.Phys

variable {E B G P A : Type}

/-- **a second physical run changes no row** (antisymmetric orders) -/
theorem rerun_sameL (I : Interp E B G P A) (L : LatOrder I) (hanti : ∀ r a b, L.le r a b → L.le r b a → a = b)
    (hI : Plan.Ext I) (V : Hir.VarsOf E B) (hS : Plan.Supp I V)
    (p : Program E B G P A) (ix : IxSets) (order : SccOrder) (s : XSt) (fuel₁ fuel₂ : Nat) (o₁ o₂ : ProgSt)
    (hp : LatticeProg p) (ho : validOrder p order = true) (hplan : latPlanOk V p ix = true)
    (hd : ∀ r ∈ p.rules, Hir.Desugared V r = true ∧ Plan.WellScoped V r = true)
    (hlen : s.length = p.rels.length) (htyped : ∀ r, ∀ t ∈ (xrel s r).rows, t.length = arityOf p r)
    (hkeys : ∀ r, r < p.rels.length → (declOf p r).lat = true → ((xrel s r).rows.map keyOf).Nodup)
    (h₁ : run I V p ix order fuel₁ s = some o₁) (h₂ : run I V p ix order fuel₂ o₁.st = some o₂) :
    ∀ r, (xrel o₂.st r).rows = (xrel o₁.st r).rows := by
  obtain ⟨⟨hlen1, htyped1, hkeys1⟩, hcl1, _⟩ :=
    run_fromL_spec I L hI V hS p ix order s fuel₁ o₁ hp ho hplan hd hlen htyped hkeys h₁
  obtain ⟨st₂, hnd, hsim, _, _, _⟩ :=
    run_fromL I L hI V hS p ix order o₁.st fuel₂ o₂ hp ho hplan hd hlen1 htyped1 hkeys1 h₂
  have har := arity_pos_of_latPlanOk V p ix hplan
  have hdb : DBof (rowsFn (absStX o₁.st)) = factsOf o₁.st := by
    funext f
    simp only [DBof, rowsFn, relSt_absStX, factsOf]
  have hsame := runNDL_same (L := L) hanti hp.1 hp.2.1 order (absStX o₁.st) st₂ (wfSt'_absStX p o₁.st hlen1)
    (fun r hr hl => by rw [relSt_absStX]; exact hkeys1 r hr hl)
    (by
      intro r hl h0
      rw [relSt_absStX] at h0
      have := htyped1 r [] h0
      have hpos := har r hl
      simp at this
      omega)
    (by rw [hdb]; exact hcl1.2) hnd
  intro r
  rw [← hsim.rows, hsame r, relSt_absStX]

end AscentVerif.PhysLat
