import AscentVerif.Proofs.PlanCongr
/-!
# Plan proofs, part 5: the simple join as a loop over pairs of rows

`joinStep` iterates the first clause grouped by key and looks the second clause up once per key.  Up to a permutation
it is the double loop over (row of the first clause, row of the second clause) of `planPair`, the environment the
generated code reaches for that pair of rows (if any); `evalBody` is the double loop of `semPair`.
-/
namespace AscentVerif.Plan
open AscentVerif AscentVerif.Engine AscentVerif.Hir

variable {E B G P A : Type}

/-! ## closed forms of the assignments -/

/-- the bindings `bindArgs` makes, first argument first -/
def bl (skip : Nat → Var → Bool) : Nat → List (Arg E) → Tuple → Env
  | j, .var v :: as, x :: xs => if skip j v then bl skip (j + 1) as xs else (v, x) :: bl skip (j + 1) as xs
  | j, .expr _ :: as, _ :: xs => bl skip (j + 1) as xs
  | _, _, _ => []

theorem bindArgs_closed (skip : Nat → Var → Bool) :
    ∀ (as : List (Arg E)) (xs : Tuple) (j : Nat) (acc : Env), xs.length = as.length →
      bindArgs skip j as xs acc = some ((bl skip j as xs).reverse ++ acc)
  | [], [], _, _, _ => by simp [bindArgs, bl]
  | [], _ :: _, _, _, h => by simp at h
  | _ :: _, [], _, _, h => by simp at h
  | .var v :: as, x :: xs, j, acc, h => by
    simp only [bindArgs, bl]
    rw [bindArgs_closed skip as xs (j + 1) _ (by simpa using h)]
    cases skip j v with
    | true => simp
    | false => simp
  | .expr e :: as, x :: xs, j, acc, h => by
    simp only [bindArgs, bl]
    exact bindArgs_closed skip as xs (j + 1) _ (by simpa using h)

theorem bindArgs_none (skip : Nat → Var → Bool) (as : List (Arg E)) (xs : Tuple) (j : Nat) (acc : Env)
    (h : xs.length ≠ as.length) : bindArgs skip j as xs acc = none := by
  cases hb : bindArgs skip j as xs acc with
  | none => rfl
  | some ρ' => exact absurd (bindArgs_length skip as xs j acc ρ' hb) h

theorem mem_bl (skip : Nat → Var → Bool) (p : Var × Val) :
    ∀ (as : List (Arg E)) (xs : Tuple) (j : Nat),
      p ∈ bl skip j as xs ↔
        ∃ t v x, as[t]? = some (.var v) ∧ xs[t]? = some x ∧ skip (j + t) v = false ∧ p = (v, x)
  | [], _, _ => by simp [bl]
  | .var _ :: _, [], _ => by simp [bl]
  | .expr _ :: _, [], _ => by simp [bl]
  | .var w :: as, y :: xs, j => by
    have ih := mem_bl skip p as xs (j + 1)
    constructor
    · intro h
      simp only [bl] at h
      by_cases hs : skip j w = true
      · rw [if_pos hs] at h
        obtain ⟨t, v, x, h1, h2, h3, h4⟩ := ih.1 h
        exact ⟨t + 1, v, x, by simpa using h1, by simpa using h2, by rw [← h3]; congr 1; omega, h4⟩
      · rw [if_neg hs] at h
        rcases List.mem_cons.1 h with e | h
        · refine ⟨0, w, y, by simp, by simp, ?_, e⟩
          simpa using hs
        · obtain ⟨t, v, x, h1, h2, h3, h4⟩ := ih.1 h
          exact ⟨t + 1, v, x, by simpa using h1, by simpa using h2, by rw [← h3]; congr 1; omega, h4⟩
    · rintro ⟨t, v, x, h1, h2, h3, h4⟩
      simp only [bl]
      cases t with
      | zero =>
        simp only [List.getElem?_cons_zero, Option.some.injEq, Arg.var.injEq] at h1 h2
        subst h1; subst h2
        simp only [Nat.add_zero] at h3
        rw [h3]; simp [h4]
      | succ t =>
        have : p ∈ bl skip (j + 1) as xs :=
          ih.2 ⟨t, v, x, by simpa using h1, by simpa using h2, by rw [← h3]; congr 1; omega, h4⟩
        by_cases hs : skip j w = true
        · rw [if_pos hs]; exact this
        · rw [if_neg hs]; exact List.mem_cons_of_mem _ this
  | .expr e :: as, y :: xs, j => by
    have ih := mem_bl skip p as xs (j + 1)
    simp only [bl]
    rw [ih]
    constructor
    · rintro ⟨t, v, x, h1, h2, h3, h4⟩
      exact ⟨t + 1, v, x, by simpa using h1, by simpa using h2, by rw [← h3]; congr 1; omega, h4⟩
    · rintro ⟨t, v, x, h1, h2, h3, h4⟩
      cases t with
      | zero => simp at h1
      | succ t => exact ⟨t, v, x, by simpa using h1, by simpa using h2, by rw [← h3]; congr 1; omega, h4⟩

/-- the bindings `bindKey` makes from the key of a row, first index column first -/
def kb (args : List (Arg E)) (row : Tuple) (cols : List Nat) : Env :=
  cols.filterMap fun j =>
    match args[j]? with
    | some (Arg.var v) => some (v, row.getD j Val.unit)
    | _ => none

theorem bindKey_closed (args : List (Arg E)) (row : Tuple) :
    ∀ (cols : List Nat) (ρ : Env), bindKey args cols (proj cols row) ρ = (kb args row cols).reverse ++ ρ
  | [], ρ => by simp [bindKey, kb]
  | j :: cols, ρ => by
    simp only [proj, List.map_cons, bindKey, kb, List.filterMap_cons]
    cases hj : args[j]? with
    | none => simp only; exact bindKey_closed args row cols ρ
    | some a =>
      cases a with
      | var v =>
        simp only
        have := bindKey_closed args row cols ((v, row.getD j .unit) :: ρ)
        unfold proj kb at this
        rw [this]; simp
      | expr e => simp only; exact bindKey_closed args row cols ρ

theorem mem_kb (args : List (Arg E)) (row : Tuple) (cols : List Nat) (p : Var × Val) :
    p ∈ kb args row cols ↔ ∃ j v, j ∈ cols ∧ args[j]? = some (.var v) ∧ p = (v, row.getD j .unit) := by
  unfold kb
  rw [List.mem_filterMap]
  constructor
  · rintro ⟨j, hj, h⟩
    cases ha : args[j]? with
    | none => rw [ha] at h; cases h
    | some a =>
      rw [ha] at h
      cases a with
      | var v => simp only [Option.some.injEq] at h; exact ⟨j, v, hj, ha, h.symm⟩
      | expr e => cases h
  · rintro ⟨j, v, hj, ha, hp⟩
    exact ⟨j, hj, by rw [ha, hp]⟩

/-! ## pairs of rows -/

/-- run the rest of the body on the environment reached for a pair of rows, if any -/
def optK (k : Env → List Env) : Option Env → List Env
  | none => []
  | some ρ => k ρ

/-- the environment the simple-join code reaches for one row of the iterated clause `a` and one row of the looked-up
clause `b` -/
def planPair (I : Interp E B G P A) (colsA : List Nat) (argsA : List (Arg E)) (condsA : List (Cond E B P))
    (colsB : List Nat) (argsB : List (Arg E)) (condsB : List (Cond E B P)) (preB : List Var) (ρ : Env)
    (rowA rowB : Tuple) : Option Env :=
  if proj colsB rowB == keyOf I (bindKey argsA colsA (proj colsA rowA) ρ) argsB colsB then
    (bindArgs (fun j _ => colsA.contains j) 0 argsA rowA (bindKey argsA colsA (proj colsA rowA) ρ)).bind fun ρ₁ =>
      (satConds I condsA ρ₁).bind fun ρ₂ =>
        (bindArgs (fun _ v => preB.contains v) 0 argsB rowB ρ₂).bind fun ρ₃ => satConds I condsB ρ₃
  else none

/-- the environment `evalBody` reaches for one row of the first clause and one row of the second -/
def semPair (I : Interp E B G P A) (ρ : Env) (a1 : List (Arg E)) (c1 : List (Cond E B P)) (a2 : List (Arg E))
    (c2 : List (Cond E B P)) (row1 row2 : Tuple) : Option Env :=
  (matchArgs I ρ a1 row1 ρ).bind fun ρ₁ =>
    (satConds I c1 ρ₁).bind fun ρ₂ =>
      (matchArgs I ρ₂ a2 row2 ρ₂).bind fun ρ₃ => satConds I c2 ρ₃

theorem flatMap_if_nil {α β : Type} (l : List α) (p : α → Bool) :
    (l.flatMap fun a => if p a = true then ([] : List β) else []) = [] := by
  induction l with
  | nil => rfl
  | cons a l ih => simp

/-- one row of the iterated clause: the inner loops of `joinStep` -/
theorem joinRow_eq (I : Interp E B G P A) (rowsA : List Tuple) (colsA : List Nat) (argsA : List (Arg E))
    (condsA : List (Cond E B P)) (rowsB : List Tuple) (bagB : List Nat) (colsB : List Nat) (argsB : List (Arg E))
    (condsB : List (Cond E B P)) (preB : List Var) (ρ : Env) (k : Env → List Env) (ia : Nat) :
    (match bindArgs (fun j _ => colsA.contains j) 0 argsA (rowAt rowsA ia)
        (bindKey argsA colsA (proj colsA (rowAt rowsA ia)) ρ) with
      | none => []
      | some ρ₁ =>
        match satConds I condsA ρ₁ with
        | none => []
        | some ρ₂ =>
          (idxGet rowsB bagB colsB (keyOf I (bindKey argsA colsA (proj colsA (rowAt rowsA ia)) ρ) argsB colsB)).flatMap
            fun ib =>
              match bindArgs (fun _ v => preB.contains v) 0 argsB (rowAt rowsB ib) ρ₂ with
              | none => []
              | some ρ₃ =>
                match satConds I condsB ρ₃ with
                | none => []
                | some ρ₄ => k ρ₄) =
      bagB.flatMap fun ib =>
        optK k (planPair I colsA argsA condsA colsB argsB condsB preB ρ (rowAt rowsA ia) (rowAt rowsB ib)) := by
  unfold planPair
  cases h1 : bindArgs (fun j _ => colsA.contains j) 0 argsA (rowAt rowsA ia)
      (bindKey argsA colsA (proj colsA (rowAt rowsA ia)) ρ) with
  | none =>
    show ([] : List Env) = _
    symm
    rw [List.flatMap_eq_nil_iff]
    intro ib _
    by_cases hc : (proj colsB (rowAt rowsB ib) ==
        keyOf I (bindKey argsA colsA (proj colsA (rowAt rowsA ia)) ρ) argsB colsB) = true
    · rw [if_pos hc]; rfl
    · rw [if_neg hc]; rfl
  | some ρ₁ =>
    simp only [Option.bind_some]
    cases h2 : satConds I condsA ρ₁ with
    | none =>
      show ([] : List Env) = _
      symm
      rw [List.flatMap_eq_nil_iff]
      intro ib _
      by_cases hc : (proj colsB (rowAt rowsB ib) ==
          keyOf I (bindKey argsA colsA (proj colsA (rowAt rowsA ia)) ρ) argsB colsB) = true
      · rw [if_pos hc]; rfl
      · rw [if_neg hc]; rfl
    | some ρ₂ =>
      simp only [Option.bind_some]
      unfold idxGet
      rw [filter_flatMap_eq]
      apply flatMap_congr'
      intro ib _
      by_cases hc : (proj colsB (rowAt rowsB ib) ==
          keyOf I (bindKey argsA colsA (proj colsA (rowAt rowsA ia)) ρ) argsB colsB) = true
      · rw [if_pos hc, if_pos hc]
        cases h3 : bindArgs (fun _ v => preB.contains v) 0 argsB (rowAt rowsB ib) ρ₂ with
        | none => rfl
        | some ρ₃ =>
          simp only [Option.bind_some]
          cases h4 : satConds I condsB ρ₃ with
          | none => rfl
          | some ρ₄ => rfl
      · rw [if_neg hc, if_neg hc]; rfl

/-- the simple-join loops are, up to a permutation, the double loop over pairs of rows -/
theorem joinStep_perm (I : Interp E B G P A) (rowsA : List Tuple) (bagA : List Nat) (colsA : List Nat)
    (argsA : List (Arg E)) (condsA : List (Cond E B P)) (rowsB : List Tuple) (bagB : List Nat) (colsB : List Nat)
    (argsB : List (Arg E)) (condsB : List (Cond E B P)) (preB : List Var) (ρ : Env) (k : Env → List Env) :
    (joinStep I rowsA bagA colsA argsA condsA rowsB bagB colsB argsB condsB preB ρ k).Perm
      (bagA.flatMap fun ia => bagB.flatMap fun ib =>
        optK k (planPair I colsA argsA condsA colsB argsB condsB preB ρ (rowAt rowsA ia) (rowAt rowsB ib))) := by
  have hspec := (iterAll_spec_aux rowsA bagA colsA).2.1
  have h1 : joinStep I rowsA bagA colsA argsA condsA rowsB bagB colsB argsB condsB preB ρ k =
      (iterAll rowsA bagA colsA).flatMap fun kr => kr.2.flatMap fun ia => bagB.flatMap fun ib =>
        optK k (planPair I colsA argsA condsA colsB argsB condsB preB ρ (rowAt rowsA ia) (rowAt rowsB ib)) := by
    unfold joinStep
    apply flatMap_congr'
    intro kr hkr
    dsimp only
    apply flatMap_congr'
    intro ia hia
    have hkey : proj colsA (rowAt rowsA ia) = kr.1 := ((hspec kr hkr).2.2 ia hia).2
    rw [← joinRow_eq, hkey]
    rfl
  rw [h1]
  exact iterAll_flatMap_perm rowsA bagA colsA _

/-- `evalBody` on two consecutive clauses is the double loop of `semPair` -/
theorem semJoin_eq (I : Interp E B G P A) (rows1 : List Tuple) (bag1 : List Nat) (a1 : List (Arg E))
    (c1 : List (Cond E B P)) (rows2 : List Tuple) (bag2 : List Nat) (a2 : List (Arg E)) (c2 : List (Cond E B P))
    (ρ : Env) (k : Env → List Env) :
    semClause I rows1 bag1 a1 c1 ρ (fun ρ₂ => semClause I rows2 bag2 a2 c2 ρ₂ k) =
      bag1.flatMap fun i1 => bag2.flatMap fun i2 =>
        optK k (semPair I ρ a1 c1 a2 c2 (rowAt rows1 i1) (rowAt rows2 i2)) := by
  unfold semClause semPair
  apply flatMap_congr'
  intro i1 _
  cases h1 : matchArgs I ρ a1 (rowAt rows1 i1) ρ with
  | none => simp [optK]
  | some ρ₁ =>
    simp only [Option.bind_some]
    cases h2 : satConds I c1 ρ₁ with
    | none => simp [optK]
    | some ρ₂ =>
      simp only [Option.bind_some]
      apply flatMap_congr'
      intro i2 _
      cases h3 : matchArgs I ρ₂ a2 (rowAt rows2 i2) ρ₂ with
      | none => rfl
      | some ρ₃ =>
        simp only [Option.bind_some]
        cases h4 : satConds I c2 ρ₃ with
        | none => rfl
        | some ρ₄ => rfl

end AscentVerif.Plan
