import AscentVerif.Proofs.PhysParRun
import AscentVerif.Proofs.PhysAggRun
/-!
# Multiplicities of the concurrent indices (`Model/EnginePhysPar.lean`), on the erased state

`Proofs/PhysAggIdx.lean` states the multiplicity invariant `IxMT` / `IxM` of a serial hash index up to permutation.  This file
shows that every operation of a concurrent index keeps it for the ERASED index:

* `PCx.insert` — for a `CRelNoIndex` the erased index is the single-key map of the flattened shards, whose values are, up to
  permutation, the rows inserted (whatever worker inserted them);
* `mergeIx` — the map merge of C19 for the maps, the shard-wise zip for a `CRelNoIndex`.
-/
namespace AscentVerif.PhysPar
open AscentVerif AscentVerif.Engine AscentVerif.Index AscentVerif.Phys

variable {E B G P A : Type}

/-! ## the multiplicity invariant does not depend on the order of the rows -/

theorem IxMT_perm {ts ts' : List Tuple} {cols : List Nat} {m : PIx} (hp : ts.Perm ts') (h : IxMT ts cols m) :
    IxMT ts' cols m := by
  intro k
  exact (h k).trans ((hp.filter _).map _)

/-! ## the index on no column -/

theorem vals_noidx (c : CNoIdx (List Val)) (k : List Val) :
    Idx.vals (PCx.noidx c).erase k = if k = [] then c.shards.flatten else [] := by
  rw [erase_noidx]
  by_cases he : c.shards.flatten.isEmpty = true
  · rw [if_pos he]
    have : c.shards.flatten = [] := List.isEmpty_iff.mp he
    rw [this]
    simp [Idx.vals, Idx.get, HMap.get?]
  · rw [if_neg he]
    by_cases hk : k = []
    · subst hk
      simp [Idx.vals, Idx.get, HMap.get?]
    · rw [if_neg hk]
      have : ¬ ([] : List Val) = k := fun e => hk e.symm
      simp [Idx.vals, Idx.get, HMap.get?, this]

theorem filter_proj_nil (ts : List Tuple) (k : List Val) :
    (ts.filter fun t => Plan.proj [] t == k) = if k = [] then ts else [] := by
  by_cases hk : k = []
  · subst hk
    rw [if_pos rfl]
    apply List.filter_eq_self.mpr
    intro t _
    simp [proj_nil]
  · rw [if_neg hk]
    apply List.filter_eq_nil_iff.mpr
    intro t _
    simp [proj_nil, hk]

theorem map_projC_nil (ts : List Tuple) : ts.map (projC []) = ts := by
  rw [List.map_congr_left (fun t _ => projC_nil t), List.map_id']

/-- the multiset of values of a `CRelNoIndex` is the multiset of rows -/
theorem IxMT_noidx (ts : List Tuple) (c : CNoIdx (List Val)) :
    IxMT ts [] (PCx.noidx c).erase ↔ c.shards.flatten.Perm ts := by
  constructor
  · intro h
    have := h []
    rw [vals_noidx, if_pos rfl, filter_proj_nil, if_pos rfl, map_projC_nil] at this
    exact this
  · intro h k
    rw [vals_noidx, filter_proj_nil]
    by_cases hk : k = []
    · rw [if_pos hk, if_pos hk, map_projC_nil]; exact h
    · rw [if_neg hk, if_neg hk]; exact List.Perm.refl _

theorem flatten_modifyNth_perm {α : Type} (l : List (List α)) (i : Nat) (hi : i < l.length) (v : α) :
    (modifyNth l i fun s => s ++ [v]).flatten.Perm (l.flatten ++ [v]) := by
  induction l generalizing i with
  | nil => simp at hi
  | cons a l ih =>
    cases i with
    | zero =>
      simp only [modifyNth, List.flatten_cons, List.append_assoc]
      exact List.Perm.append_left a List.perm_append_comm
    | succ i =>
      have hi' : i < l.length := by simpa using hi
      simp only [modifyNth, List.flatten_cons, List.append_assoc]
      exact List.Perm.append_left a (ih i hi')

/-! ## `index_insert` -/

/-- `index_insert` of a row keeps the multiplicities of the erased index, whatever the inserting worker -/
theorem PCx_insert_MT {N : Nat} (hN : 0 < N) {cols : List Nat} {x : PCx} (hs : Shape N cols x) {ts : List Tuple}
    (h : IxMT ts cols x.erase) (tid : Nat) (t : Tuple) {x' : PCx}
    (hx : x.insert tid (Plan.proj cols t) (projC cols t) = .ok x') : IxMT (ts ++ [t]) cols x'.erase := by
  cases x with
  | map fz m =>
    simp only [PCx.insert] at hx
    split at hx
    · cases hx
    · injection hx with hx
      subst hx
      exact IxMT_insert t h
  | noidx c =>
    obtain ⟨hc, hlen⟩ := hs
    subst hc
    simp only [PCx.insert, CNoIdx.insert] at hx
    split at hx
    · cases hx
    · simp only [map_ok] at hx
      injection hx with hx
      subst hx
      rw [IxMT_noidx] at h ⊢
      have hi : tid % c.shards.length < c.shards.length := Nat.mod_lt _ (by rw [hlen]; exact hN)
      rw [projC_nil]
      simp only [CNoIdx.insertMut]
      exact (flatten_modifyNth_perm _ _ hi t).trans (h.append_right [t])

theorem bagTuples_push {rows : List Tuple} {bag : List Nat} (t : Tuple) (hb : ∀ i ∈ bag, i < rows.length) :
    bagTuples (rows ++ [t]) (bag ++ [rows.length]) = bagTuples rows bag ++ [t] := by
  have := bagTuples_rows_append (rows := rows) (bag := bag) t hb
  unfold bagTuples at this ⊢
  rw [List.map_append, this]
  simp [rowAt_length_append]

theorem PCx_insert_M {N : Nat} (hN : 0 < N) {cols : List Nat} {x : PCx} (hs : Shape N cols x) {rows : List Tuple}
    {bag : List Nat} (h : IxM rows bag cols x.erase) (hb : ∀ i ∈ bag, i < rows.length) (tid : Nat) (t : Tuple) {x' : PCx}
    (hx : x.insert tid (Plan.proj cols t) (projC cols t) = .ok x') :
    IxM (rows ++ [t]) (bag ++ [rows.length]) cols x'.erase := by
  unfold IxM
  rw [bagTuples_push t hb]
  exact PCx_insert_MT hN hs h tid t hx

/-! ## the merge -/

theorem bagTuples_append (rows : List Tuple) (a b : List Nat) :
    bagTuples rows (a ++ b) = bagTuples rows a ++ bagTuples rows b := by simp [bagTuples]

/-- `merge_delta_to_total_new_to_delta` on one concurrent index keeps the multiplicities of the erased versions -/
theorem mergeIx_M {N : Nat} {cols : List Nat} {t t' : Tri PCx} (st : Shape N cols t.total) (sd : Shape N cols t.delta)
    (ht' : mergeIx t = .ok t') {rows : List Tuple} {bt bd bn : List Nat}
    (hot : IxOk rows bt cols t.total.erase) (hod : IxOk rows bd cols t.delta.erase) (hon : IxOk rows bn cols t.new.erase)
    (ht : IxM rows bt cols t.total.erase) (hd : IxM rows bd cols t.delta.erase) (hn : IxM rows bn cols t.new.erase) :
    IxM rows (bt ++ bd) cols t'.total.erase ∧ IxM rows bn cols t'.delta.erase ∧ IxM rows [] cols t'.new.erase := by
  obtain ⟨tt, td, tn⟩ := t
  cases tt with
  | map f1 mt =>
    cases td with
    | map f2 md =>
      simp only [mergeIx] at ht'
      split at ht'
      · cases ht'
      · injection ht' with ht'
        subst ht'
        obtain ⟨g1, g2⟩ := IxM_shift (t := ⟨mt, md, tn.erase⟩) ht hd hn hod.1 hot.1
        refine ⟨g1, g2, ?_⟩
        show IxM rows [] cols (shiftIx ⟨mt, md, tn.erase⟩).new
        rw [(IxOk_shift (t := ⟨mt, md, tn.erase⟩) hot hod hon).2.2]
        exact IxM_nil _ _
    | noidx cd => exact absurd sd.1 st
  | noidx ct =>
    cases td with
    | map f2 md => exact absurd st.1 sd
    | noidx cd =>
      obtain ⟨hc, lt⟩ := st
      obtain ⟨_, ld⟩ := sd
      subst hc
      simp only [mergeIx] at ht'
      injection ht' with ht'
      subst ht'
      obtain ⟨m1, _, m3⟩ := CNoIdx.moveContents_spec cd ct (by rw [lt, ld]; exact Nat.le_refl _)
      refine ⟨?_, hn, ?_⟩
      · show IxMT _ [] (PCx.noidx (CNoIdx.moveContents cd ct).2).erase
        have ht0 : IxMT (bagTuples rows bt) [] (PCx.noidx ct).erase := ht
        have hd0 : IxMT (bagTuples rows bd) [] (PCx.noidx cd).erase := hd
        rw [IxMT_noidx] at ht0 hd0 ⊢
        rw [bagTuples_append]
        exact m3.trans (ht0.append hd0)
      · show IxMT _ [] (PCx.noidx (CNoIdx.moveContents cd ct).1).erase
        rw [IxMT_noidx, m1]
        exact List.Perm.refl _

end AscentVerif.PhysPar
