import AscentVerif.Props.C08
import AscentVerif.Props.C06
/-!
# C08 (semantics), part 1: renaming the variables of a surface body injectively ON A SET does not change its documented meaning

`τ` needs to be injective only on a set `S` of variables that contains the variables of the items and the keys of the start
environment (every key that arises during a run is bound by an item, hence in `S`).
-/
namespace AscentVerif.Surface.Sem
open AscentVerif AscentVerif.Engine AscentVerif.Surface

variable {E B G P A : Type}

/-- `τ` is injective on the variables satisfying `S` -/
def InjOn (τ : Var → Var) (S : Var → Prop) : Prop := ∀ v w, S v → S w → τ v = τ w → v = w

/-- every variable the environment binds satisfies `S` -/
def Keys (S : Var → Prop) (ρ : Env) : Prop := ∀ p ∈ ρ, S p.1

theorem InjOn.mono {τ : Var → Var} {S S' : Var → Prop} (h : InjOn τ S) (hs : ∀ v, S' v → S v) : InjOn τ S' :=
  fun v w hv hw e => h v w (hs v hv) (hs w hw) e

theorem InjOn.of_injective {τ : Var → Var} (h : Function.Injective τ) (S : Var → Prop) : InjOn τ S :=
  fun _ _ _ _ e => h e

theorem Keys.nil (S : Var → Prop) : Keys S [] := fun _ h => nomatch h

theorem Keys.cons {S : Var → Prop} {ρ : Env} {v : Var} {x : Val} (hv : S v) (h : Keys S ρ) : Keys S ((v, x) :: ρ) := by
  intro p hp
  rcases List.mem_cons.1 hp with rfl | hp
  · exact hv
  · exact h p hp

theorem Keys.zip_append {S : Var → Prop} {ρ : Env} (h : Keys S ρ) {vs : List Var} (hvs : ∀ v ∈ vs, S v) (xs : List Val) :
    Keys S (vs.zip xs ++ ρ) := by
  intro p hp
  rcases List.mem_append.1 hp with hp | hp
  · obtain ⟨v, x⟩ := p
    exact hvs v (List.of_mem_zip hp).1
  · exact h p hp

/-- **the renaming law** (the analogue of `Engine.RenSound` for a renaming that is injective only where it matters):
evaluating the renamed expression / test / generator in the renamed environment gives the old value, provided `τ` is injective on
the variables of the expression together with the variables the environment binds. -/
structure RenLaw (I : Interp E B G P A) (ops : Ops E B G A) (varsB : B → List Var) (varsG : G → List Var) : Prop where
  expr : ∀ (τ : Var → Var) (e : E) (ρ : Env), InjOn τ (fun v => v ∈ ops.varsE e ∨ ∃ p ∈ ρ, p.1 = v) →
    I.expr (renE ops τ e) (renEnv τ ρ) = I.expr e ρ
  test : ∀ (τ : Var → Var) (b : B) (ρ : Env), InjOn τ (fun v => v ∈ varsB b ∨ ∃ p ∈ ρ, p.1 = v) →
    I.test (ops.subB (fun x => ops.varE (τ x)) b) (renEnv τ ρ) = I.test b ρ
  gen : ∀ (τ : Var → Var) (g : G) (ρ : Env), InjOn τ (fun v => v ∈ varsG g ∨ ∃ p ∈ ρ, p.1 = v) →
    I.gen (ops.subG (fun x => ops.varE (τ x)) g) (renEnv τ ρ) = I.gen g ρ

/-- the usual "renaming lemma" of a semantics (no injectivity): if `ρ'` looks up `τ v` to what `ρ` looks up `v` to, for every
variable of the expression, the renamed expression has in `ρ'` the value of the expression in `ρ`.  It implies `RenLaw`. -/
structure SubstLaw (I : Interp E B G P A) (ops : Ops E B G A) (varsB : B → List Var) (varsG : G → List Var) : Prop where
  expr : ∀ (τ : Var → Var) (e : E) (ρ ρ' : Env), (∀ v ∈ ops.varsE e, Env.get? ρ' (τ v) = Env.get? ρ v) →
    I.expr (renE ops τ e) ρ' = I.expr e ρ
  test : ∀ (τ : Var → Var) (b : B) (ρ ρ' : Env), (∀ v ∈ varsB b, Env.get? ρ' (τ v) = Env.get? ρ v) →
    I.test (ops.subB (fun x => ops.varE (τ x)) b) ρ' = I.test b ρ
  gen : ∀ (τ : Var → Var) (g : G) (ρ ρ' : Env), (∀ v ∈ varsG g, Env.get? ρ' (τ v) = Env.get? ρ v) →
    I.gen (ops.subG (fun x => ops.varE (τ x)) g) ρ' = I.gen g ρ

theorem get?_renEnv_on {τ : Var → Var} {S : Var → Prop} (hτ : InjOn τ S) {ρ : Env} (hk : Keys S ρ) {v : Var} (hv : S v) :
    Env.get? (renEnv τ ρ) (τ v) = ρ.get? v := by
  induction ρ with
  | nil => rfl
  | cons p ρ ih =>
    obtain ⟨w, x⟩ := p
    have hw : S w := hk (w, x) List.mem_cons_self
    have hk' : Keys S ρ := fun p hp => hk p (List.mem_cons_of_mem _ hp)
    show Env.get? ((τ w, x) :: renEnv τ ρ) (τ v) = _
    simp only [Env.get?]
    by_cases hwv : w = v
    · simp [hwv]
    · have : τ w ≠ τ v := fun h => hwv (hτ w v hw hv h)
      simp only [hwv, this, if_false]; exact ih hk'

theorem RenLaw.of_subst {I : Interp E B G P A} {ops : Ops E B G A} {varsB : B → List Var} {varsG : G → List Var}
    (h : SubstLaw I ops varsB varsG) : RenLaw I ops varsB varsG := by
  have key : ∀ (τ : Var → Var) (vs : List Var) (ρ : Env), InjOn τ (fun v => v ∈ vs ∨ ∃ p ∈ ρ, p.1 = v) →
      ∀ v ∈ vs, Env.get? (renEnv τ ρ) (τ v) = Env.get? ρ v :=
    fun τ vs ρ hτ v hv => get?_renEnv_on hτ (fun p hp => .inr ⟨p, hp, rfl⟩) (.inl hv)
  exact ⟨fun τ e ρ hτ => h.expr τ e ρ _ (key τ _ ρ hτ), fun τ b ρ hτ => h.test τ b ρ _ (key τ _ ρ hτ),
    fun τ g ρ hτ => h.gen τ g ρ _ (key τ _ ρ hτ)⟩

section
variable {I : Interp E B G P A} {ops : Ops E B G A} {varsB : B → List Var} {varsG : G → List Var}
  {τ : Var → Var} {S : Var → Prop}

theorem RenLaw.expr_on (hR : RenLaw I ops varsB varsG) (hτ : InjOn τ S) {ρ : Env} (hk : Keys S ρ) {e : E}
    (he : ∀ v ∈ ops.varsE e, S v) : I.expr (renE ops τ e) (renEnv τ ρ) = I.expr e ρ :=
  hR.expr τ e ρ (hτ.mono (by
    rintro v (hv | ⟨p, hp, rfl⟩)
    · exact he v hv
    · exact hk p hp))

theorem RenLaw.test_on (hR : RenLaw I ops varsB varsG) (hτ : InjOn τ S) {ρ : Env} (hk : Keys S ρ) {b : B}
    (he : ∀ v ∈ varsB b, S v) : I.test (ops.subB (fun x => ops.varE (τ x)) b) (renEnv τ ρ) = I.test b ρ :=
  hR.test τ b ρ (hτ.mono (by
    rintro v (hv | ⟨p, hp, rfl⟩)
    · exact he v hv
    · exact hk p hp))

theorem RenLaw.gen_on (hR : RenLaw I ops varsB varsG) (hτ : InjOn τ S) {ρ : Env} (hk : Keys S ρ) {g : G}
    (he : ∀ v ∈ varsG g, S v) : I.gen (ops.subG (fun x => ops.varE (τ x)) g) (renEnv τ ρ) = I.gen g ρ :=
  hR.gen τ g ρ (hτ.mono (by
    rintro v (hv | ⟨p, hp, rfl⟩)
    · exact he v hv
    · exact hk p hp))

/-! ## clause arguments -/

theorem matchSArgs_keys (args : List (SArg E P)) (hv : ∀ a ∈ args, ∀ v ∈ varsSArg ops a, S v) :
    ∀ (t : Tuple) (ρ ρ' : Env), Keys S ρ → matchSArgs I args t ρ = some ρ' → Keys S ρ' := by
  induction args with
  | nil =>
    intro t ρ ρ' hk h
    cases t with
    | nil => simp only [matchSArgs, Option.some.injEq] at h; subst h; exact hk
    | cons x xs => simp [matchSArgs] at h
  | cons a as ih =>
    have ih' := ih (fun a ha => hv a (List.mem_cons_of_mem _ ha))
    have ha := hv a List.mem_cons_self
    intro t ρ ρ' hk h
    cases t with
    | nil => cases a <;> simp [matchSArgs] at h
    | cons x xs =>
      cases a with
      | var v =>
        simp only [matchSArgs] at h
        cases hg : ρ.get? v with
        | none => rw [hg] at h; exact ih' _ _ _ (hk.cons (ha v (by simp [varsSArg]))) h
        | some y =>
          rw [hg] at h
          simp only at h
          split at h
          · exact ih' _ _ _ hk h
          · cases h
      | expr e =>
        simp only [matchSArgs] at h
        split at h
        · exact ih' _ _ _ hk h
        · cases h
      | wild => exact ih' _ _ _ hk (by simpa only [matchSArgs] using h)
      | pat p vs =>
        simp only [matchSArgs] at h
        cases hp : I.pat p x with
        | none => rw [hp] at h; cases h
        | some ys =>
          rw [hp] at h
          simp only [Option.bind_some] at h
          split at h
          · exact ih' _ _ _ (hk.zip_append (fun v hv => ha v (by simpa [varsSArg] using hv)) ys) h
          · cases h

theorem matchSArgs_ren (hR : RenLaw I ops varsB varsG) (hτ : InjOn τ S) (args : List (SArg E P))
    (hv : ∀ a ∈ args, ∀ v ∈ varsSArg ops a, S v) :
    ∀ (t : Tuple) (ρ : Env), Keys S ρ →
      matchSArgs I (args.map (renSArg ops τ)) t (renEnv τ ρ) = (matchSArgs I args t ρ).map (renEnv τ) := by
  induction args with
  | nil => intro t ρ _; cases t <;> simp [matchSArgs]
  | cons a as ih =>
    have ih' := ih (fun a ha => hv a (List.mem_cons_of_mem _ ha))
    have ha := hv a List.mem_cons_self
    intro t ρ hk
    cases t with
    | nil => cases a <;> simp [matchSArgs, renSArg]
    | cons x xs =>
      cases a with
      | var v =>
        have hSv : S v := ha v (by simp [varsSArg])
        simp only [List.map_cons, renSArg, matchSArgs, get?_renEnv_on hτ hk hSv]
        cases hg : ρ.get? v with
        | none => simp only; rw [← renEnv_cons]; exact ih' _ _ (hk.cons hSv)
        | some y =>
          simp only
          split
          · exact ih' _ _ hk
          · rfl
      | expr e =>
        have he := hR.expr_on hτ hk (e := e) (fun v hv => ha v (by simpa [varsSArg] using hv))
        simp only [List.map_cons, renSArg, matchSArgs, he]
        split
        · exact ih' _ _ hk
        · rfl
      | wild => simp only [List.map_cons, renSArg, matchSArgs]; exact ih' _ _ hk
      | pat p vs =>
        simp only [List.map_cons, renSArg, matchSArgs]
        cases I.pat p x with
        | none => rfl
        | some ys =>
          simp only [Option.bind_some, List.length_map]
          split
          · rw [← renEnv_zip_append]
            exact ih' _ _ (hk.zip_append (fun v hv => ha v (by simpa [varsSArg] using hv)) ys)
          · rfl

/-! ## conditions -/

theorem satCond_keys (c : Cond E B P) (hv : ∀ v ∈ varsCond ops varsB c, S v) {ρ ρ' : Env} (hk : Keys S ρ)
    (h : satCond I c ρ = some ρ') : Keys S ρ' := by
  cases c with
  | ifc b =>
    simp only [satCond] at h
    split at h
    · cases h; exact hk
    · cases h
  | letc v e =>
    simp only [satCond, Option.some.injEq] at h
    subst h
    exact hk.cons (hv v (by simp [varsCond]))
  | ifLet p vs e =>
    simp only [satCond] at h
    cases hp : I.pat p (I.expr e ρ) with
    | none => rw [hp] at h; cases h
    | some ys =>
      rw [hp] at h
      simp only [Option.bind_some] at h
      split at h
      · cases h
        exact hk.zip_append (fun v hv' => hv v (by simp [varsCond, hv'])) ys
      · cases h

theorem satCond_ren (hR : RenLaw I ops varsB varsG) (hτ : InjOn τ S) (c : Cond E B P)
    (hv : ∀ v ∈ varsCond ops varsB c, S v) {ρ : Env} (hk : Keys S ρ) :
    satCond I (renCond ops τ c) (renEnv τ ρ) = (satCond I c ρ).map (renEnv τ) := by
  cases c with
  | ifc b =>
    have hb := hR.test_on hτ hk (b := b) (fun v hv' => hv v (by simpa [varsCond] using hv'))
    simp only [renCond, satCond, hb]
    split <;> rfl
  | letc v e =>
    have he := hR.expr_on hτ hk (e := e) (fun v hv' => hv v (by simp [varsCond, hv']))
    simp only [renCond, satCond, he, Option.map_some, renEnv_cons]
  | ifLet p vs e =>
    have he := hR.expr_on hτ hk (e := e) (fun v hv' => hv v (by simp [varsCond, hv']))
    simp only [renCond, satCond, he]
    cases I.pat p (I.expr e ρ) with
    | none => rfl
    | some xs =>
      simp only [Option.bind_some, List.length_map]
      split
      · simp only [Option.map_some, renEnv_zip_append]
      · rfl

theorem satConds_keys (cs : List (Cond E B P)) (hv : ∀ c ∈ cs, ∀ v ∈ varsCond ops varsB c, S v) :
    ∀ {ρ ρ' : Env}, Keys S ρ → satConds I cs ρ = some ρ' → Keys S ρ' := by
  induction cs with
  | nil => intro ρ ρ' hk h; simp only [satConds, Option.some.injEq] at h; subst h; exact hk
  | cons c cs ih =>
    intro ρ ρ' hk h
    simp only [satConds] at h
    cases hc : satCond I c ρ with
    | none => rw [hc] at h; cases h
    | some ρ₁ =>
      rw [hc] at h
      exact ih (fun c hc => hv c (List.mem_cons_of_mem _ hc)) (satCond_keys c (hv c List.mem_cons_self) hk hc) h

theorem satConds_ren (hR : RenLaw I ops varsB varsG) (hτ : InjOn τ S) (cs : List (Cond E B P))
    (hv : ∀ c ∈ cs, ∀ v ∈ varsCond ops varsB c, S v) :
    ∀ {ρ : Env}, Keys S ρ → satConds I (cs.map (renCond ops τ)) (renEnv τ ρ) = (satConds I cs ρ).map (renEnv τ) := by
  induction cs with
  | nil => intro ρ _; rfl
  | cons c cs ih =>
    intro ρ hk
    have hc := hv c List.mem_cons_self
    simp only [List.map_cons, satConds, satCond_ren hR hτ c hc hk]
    cases h1 : satCond I c ρ with
    | none => rfl
    | some ρ₁ =>
      simp only [Option.map_some, Option.bind_some]
      exact ih (fun c hc => hv c (List.mem_cons_of_mem _ hc)) (satCond_keys c hc hk h1)

/-! ## negation -/

/-- what `renFItem` does to an argument of a negated clause -/
def renNArg (ops : Ops E B G A) (τ : Var → Var) : NArg E → NArg E
  | .wild => .wild
  | .expr e => .expr (renE ops τ e)

theorem renFItem_neg (att : Bool) (r : RelId) (as : List (NArg E)) :
    (renFItem ops att τ (.neg r as) : FItem E B G P A) = .neg r (as.map (renNArg ops τ)) := by
  simp only [renFItem, FItem.neg.injEq, true_and]
  apply List.map_congr_left
  intro a _
  cases a <;> rfl

theorem matchNArgs_ren (hR : RenLaw I ops varsB varsG) (hτ : InjOn τ S) {ρ : Env} (hk : Keys S ρ) (as : List (NArg E))
    (hv : ∀ a ∈ as, ∀ v ∈ varsNArg ops a, S v) :
    ∀ t : Tuple, matchNArgs I (renEnv τ ρ) (as.map (renNArg ops τ)) t = matchNArgs I ρ as t := by
  induction as with
  | nil => intro t; cases t <;> rfl
  | cons a as ih =>
    have ih' := ih (fun a ha => hv a (List.mem_cons_of_mem _ ha))
    have ha := hv a List.mem_cons_self
    intro t
    cases t with
    | nil => cases a <;> rfl
    | cons x xs =>
      cases a with
      | wild => simp only [List.map_cons, renNArg, matchNArgs]; exact ih' xs
      | expr e =>
        have he := hR.expr_on hτ hk (e := e) (fun v hv => ha v (by simpa [varsNArg] using hv))
        simp only [List.map_cons, renNArg, matchNArgs, he]
        rw [ih' xs]

/-! ## aggregation -/

theorem renFItem_agg_true (a : AggClause E A) (hok : ∀ v, AggArg.bound v ∈ a.args → v ∈ a.boundArgs) :
    (renFItem ops true τ (.agg a) : FItem E B G P A) = .agg (AggClause.ren τ (renE ops τ) a) := by
  simp only [renFItem, AggClause.ren, if_true, FItem.agg.injEq, AggClause.mk.injEq, true_and]
  apply List.map_congr_left
  intro x hx
  cases x with
  | wild => rfl
  | bound v =>
    have h1 : τ v ∈ a.boundArgs.map τ := List.mem_map_of_mem (hok v hx)
    simp [AggArg.ren, h1]
  | key e => rfl

theorem matchAggArgs_keys {ρ : Env} (args : List (AggArg E)) (hv : ∀ a ∈ args, ∀ v ∈ varsAggArg ops a, S v) :
    ∀ (t : Tuple) (acc acc' : Env), Keys S acc → matchAggArgs I ρ args t acc = some acc' → Keys S acc' := by
  induction args with
  | nil =>
    intro t acc acc' hk h
    cases t with
    | nil => simp only [matchAggArgs, Option.some.injEq] at h; subst h; exact hk
    | cons x xs => simp [matchAggArgs] at h
  | cons a as ih =>
    have ih' := ih (fun a ha => hv a (List.mem_cons_of_mem _ ha))
    have ha := hv a List.mem_cons_self
    intro t acc acc' hk h
    cases t with
    | nil => cases a <;> simp [matchAggArgs] at h
    | cons x xs =>
      cases a with
      | wild => exact ih' _ _ _ hk (by simpa only [matchAggArgs] using h)
      | bound v =>
        simp only [matchAggArgs] at h
        cases hg : acc.get? v with
        | none => rw [hg] at h; exact ih' _ _ _ (hk.cons (ha v (by simp [varsAggArg]))) h
        | some y =>
          rw [hg] at h
          simp only at h
          split at h
          · exact ih' _ _ _ hk h
          · cases h
      | key e =>
        simp only [matchAggArgs] at h
        split at h
        · exact ih' _ _ _ hk h
        · cases h

theorem matchAggArgs_ren_on (hR : RenLaw I ops varsB varsG) (hτ : InjOn τ S) {ρ : Env} (hkρ : Keys S ρ) (args : List (AggArg E))
    (hv : ∀ a ∈ args, ∀ v ∈ varsAggArg ops a, S v) :
    ∀ (t : Tuple) (acc : Env), Keys S acc →
      matchAggArgs I (renEnv τ ρ) (args.map (AggArg.ren τ (renE ops τ))) t (renEnv τ acc) =
        (matchAggArgs I ρ args t acc).map (renEnv τ) := by
  induction args with
  | nil => intro t acc _; cases t <;> simp [matchAggArgs]
  | cons a as ih =>
    have ih' := ih (fun a ha => hv a (List.mem_cons_of_mem _ ha))
    have ha := hv a List.mem_cons_self
    intro t acc hk
    cases t with
    | nil => cases a <;> simp [matchAggArgs, AggArg.ren]
    | cons x xs =>
      cases a with
      | wild => simp only [List.map_cons, AggArg.ren, matchAggArgs]; exact ih' _ _ hk
      | bound v =>
        have hSv : S v := ha v (by simp [varsAggArg])
        simp only [List.map_cons, AggArg.ren, matchAggArgs, get?_renEnv_on hτ hk hSv]
        cases hg : acc.get? v with
        | none => simp only; rw [← renEnv_cons]; exact ih' _ _ (hk.cons hSv)
        | some y =>
          simp only
          split
          · exact ih' _ _ hk
          · rfl
      | key e =>
        have he := hR.expr_on hτ hkρ (e := e) (fun v hv => ha v (by simpa [varsAggArg] using hv))
        simp only [List.map_cons, AggArg.ren, matchAggArgs, he]
        split
        · exact ih' _ _ hk
        · rfl

theorem aggBag_ren_on (hR : RenLaw I ops varsB varsG) (hτ : InjOn τ S) {ρ : Env} (hk : Keys S ρ) (a : AggClause E A)
    (hb : ∀ v ∈ a.boundArgs, S v) (hv : ∀ x ∈ a.args, ∀ v ∈ varsAggArg ops x, S v) (tuples : List Tuple) :
    aggBag I (AggClause.ren τ (renE ops τ) a) (renEnv τ ρ) tuples = aggBag I a ρ tuples := by
  unfold aggBag
  congr 1
  funext t
  have h : matchAggArgs I (renEnv τ ρ) (List.map (AggArg.ren τ (renE ops τ)) a.args) t (renEnv τ []) = _ :=
    matchAggArgs_ren_on hR hτ hk a.args hv t [] (Keys.nil S)
  have h' : matchAggArgs I (renEnv τ ρ) (AggClause.ren τ (renE ops τ) a).args t [] =
      (matchAggArgs I ρ a.args t []).map (renEnv τ) := h
  rw [h']
  cases hm : matchAggArgs I ρ a.args t [] with
  | none => rfl
  | some acc =>
    have hka : Keys S acc := matchAggArgs_keys a.args hv t [] acc (Keys.nil S) hm
    simp only [Option.map_some, AggClause.ren, List.map_map]
    congr 1
    apply List.map_congr_left
    intro v hv'
    simp only [Function.comp]
    rw [get?_renEnv_on hτ hka (hb v hv')]

theorem aggEnvs_ren_on (hR : RenLaw I ops varsB varsG) (hτ : InjOn τ S) {ρ : Env} (hk : Keys S ρ) (a : AggClause E A)
    (hb : ∀ v ∈ a.boundArgs, S v) (hv : ∀ x ∈ a.args, ∀ v ∈ varsAggArg ops x, S v) (tuples : List Tuple) :
    aggEnvs I (AggClause.ren τ (renE ops τ) a) (renEnv τ ρ) tuples = (aggEnvs I a ρ tuples).map (renEnv τ) := by
  unfold aggEnvs
  rw [aggBag_ren_on hR hτ hk a hb hv]
  simp only [AggClause.ren, List.length_map, List.map_filterMap]
  congr 1
  funext out
  split
  · simp only [Option.map_some, renEnv_zip_append]
  · rfl

theorem aggEnvs_keys {ρ ρ' : Env} (hk : Keys S ρ) (a : AggClause E A) (ho : ∀ v ∈ a.outs, S v) (tuples : List Tuple)
    (h : ρ' ∈ aggEnvs I a ρ tuples) : Keys S ρ' := by
  unfold aggEnvs at h
  obtain ⟨out, _, ho'⟩ := List.mem_filterMap.1 h
  split at ho'
  · cases ho'; exact hk.zip_append ho out
  · cases ho'

/-! ## one flat item -/

theorem renFItem_clause_true (r : RelId) (as : List (SArg E P)) (conds : List (Cond E B P)) :
    (renFItem ops true τ (.clause r as conds) : FItem E B G P A) = .clause r (as.map (renSArg ops τ)) (conds.map (renCond ops τ)) := rfl

theorem vars_clause {r : RelId} {as : List (SArg E P)} {conds : List (Cond E B P)}
    (hv : ∀ v ∈ varsFItem ops varsB varsG (.clause r as conds : FItem E B G P A), S v) :
    (∀ a ∈ as, ∀ v ∈ varsSArg ops a, S v) ∧ ∀ c ∈ conds, ∀ v ∈ varsCond ops varsB c, S v := by
  rw [varsFItem_clause] at hv
  exact ⟨fun a ha v hv' => hv v (List.mem_append_left _ (List.mem_flatMap.2 ⟨a, ha, hv'⟩)),
    fun c hc v hv' => hv v (List.mem_append_right _ (List.mem_flatMap.2 ⟨c, hc, hv'⟩))⟩

theorem vars_agg {a : AggClause E A} (hv : ∀ v ∈ varsFItem ops varsB varsG (.agg a : FItem E B G P A), S v) :
    (∀ v ∈ a.outs, S v) ∧ (∀ v ∈ a.boundArgs, S v) ∧ ∀ x ∈ a.args, ∀ v ∈ varsAggArg ops x, S v := by
  rw [varsFItem_agg] at hv
  exact ⟨fun v h => hv v (List.mem_append_left _ (List.mem_append_left _ h)),
    fun v h => hv v (List.mem_append_left _ (List.mem_append_right _ h)),
    fun x hx v h => hv v (List.mem_append_right _ (List.mem_flatMap.2 ⟨x, hx, h⟩))⟩

theorem vars_neg {r : RelId} {as : List (NArg E)} (hv : ∀ v ∈ varsFItem ops varsB varsG (.neg r as : FItem E B G P A), S v) :
    ∀ a ∈ as, ∀ v ∈ varsNArg ops a, S v := by
  rw [varsFItem_neg] at hv
  exact fun a ha v h => hv v (List.mem_flatMap.2 ⟨a, ha, h⟩)

variable {D : DB} {agg : RelId → List Tuple}

theorem stepF_keys (f : FItem E B G P A) (hv : ∀ v ∈ varsFItem ops varsB varsG f, S v) {ρ ρ' : Env} (hk : Keys S ρ)
    (h : StepF I D agg f ρ ρ') : Keys S ρ' := by
  cases f with
  | clause r as conds =>
    obtain ⟨ha, hc⟩ := vars_clause hv
    obtain ⟨t, ρ₁, _, hm, hcs⟩ := h
    exact satConds_keys conds hc (matchSArgs_keys as ha t ρ ρ₁ hk hm) hcs
  | cond c => exact satCond_keys c hv hk h
  | gen v g =>
    obtain ⟨x, _, rfl⟩ := h
    exact hk.cons (hv v (by simp [varsFItem]))
  | agg a => exact aggEnvs_keys hk a (vars_agg hv).1 _ h
  | neg r as => obtain ⟨rfl, _⟩ := h; exact hk

theorem stepF_ren (hR : RenLaw I ops varsB varsG) (hτ : InjOn τ S) (f : FItem E B G P A)
    (hv : ∀ v ∈ varsFItem ops varsB varsG f, S v) (hok : aggOkF f) {ρ ρ' : Env} (hk : Keys S ρ)
    (h : StepF I D agg f ρ ρ') : StepF I D agg (renFItem ops true τ f) (renEnv τ ρ) (renEnv τ ρ') := by
  cases f with
  | clause r as conds =>
    obtain ⟨ha, hc⟩ := vars_clause hv
    obtain ⟨t, ρ₁, hd, hm, hcs⟩ := h
    rw [renFItem_clause_true]
    refine ⟨t, renEnv τ ρ₁, hd, ?_, ?_⟩
    · rw [matchSArgs_ren hR hτ as ha t ρ hk, hm]; rfl
    · rw [satConds_ren hR hτ conds hc (matchSArgs_keys as ha t ρ ρ₁ hk hm), hcs]; rfl
  | cond c =>
    show satCond I (renCond ops τ c) (renEnv τ ρ) = some (renEnv τ ρ')
    have h' : satCond I c ρ = some ρ' := h
    rw [satCond_ren hR hτ c hv hk, h']; rfl
  | gen v g =>
    obtain ⟨x, hx, rfl⟩ := h
    refine ⟨x, ?_, rfl⟩
    rw [hR.gen_on hτ hk (g := g) (fun w hw => hv w (by simp [varsFItem, hw]))]
    exact hx
  | agg a =>
    obtain ⟨_, hb, hargs⟩ := vars_agg hv
    rw [renFItem_agg_true a hok]
    show renEnv τ ρ' ∈ aggEnvs I (AggClause.ren τ (renE ops τ) a) (renEnv τ ρ) (agg a.rel)
    rw [aggEnvs_ren_on hR hτ hk a hb hargs]
    exact List.mem_map_of_mem h
  | neg r as =>
    obtain ⟨rfl, hn⟩ := h
    rw [renFItem_neg]
    refine ⟨rfl, fun t ht => ?_⟩
    rw [matchNArgs_ren hR hτ hk as (vars_neg hv) t]
    exact hn t ht

theorem stepF_ren_inv (hR : RenLaw I ops varsB varsG) (hτ : InjOn τ S) (f : FItem E B G P A)
    (hv : ∀ v ∈ varsFItem ops varsB varsG f, S v) (hok : aggOkF f) {ρ σ : Env} (hk : Keys S ρ)
    (h : StepF I D agg (renFItem ops true τ f) (renEnv τ ρ) σ) : ∃ ρ', σ = renEnv τ ρ' ∧ StepF I D agg f ρ ρ' := by
  cases f with
  | clause r as conds =>
    obtain ⟨ha, hc⟩ := vars_clause hv
    rw [renFItem_clause_true] at h
    obtain ⟨t, σ₁, hd, hm, hcs⟩ := h
    rw [matchSArgs_ren hR hτ as ha t ρ hk] at hm
    obtain ⟨ρ₁, hm', rfl⟩ := Option.map_eq_some_iff.mp hm
    rw [satConds_ren hR hτ conds hc (matchSArgs_keys as ha t ρ ρ₁ hk hm')] at hcs
    obtain ⟨ρ', hcs', rfl⟩ := Option.map_eq_some_iff.mp hcs
    exact ⟨ρ', rfl, t, ρ₁, hd, hm', hcs'⟩
  | cond c =>
    have h' : satCond I (renCond ops τ c) (renEnv τ ρ) = some σ := h
    rw [satCond_ren hR hτ c hv hk] at h'
    obtain ⟨ρ', hc', rfl⟩ := Option.map_eq_some_iff.mp h'
    exact ⟨ρ', rfl, hc'⟩
  | gen v g =>
    obtain ⟨x, hx, rfl⟩ := h
    rw [hR.gen_on hτ hk (g := g) (fun w hw => hv w (by simp [varsFItem, hw]))] at hx
    exact ⟨(v, x) :: ρ, rfl, x, hx, rfl⟩
  | agg a =>
    obtain ⟨_, hb, hargs⟩ := vars_agg hv
    rw [renFItem_agg_true a hok] at h
    have h' : σ ∈ aggEnvs I (AggClause.ren τ (renE ops τ) a) (renEnv τ ρ) (agg a.rel) := h
    rw [aggEnvs_ren_on hR hτ hk a hb hargs] at h'
    obtain ⟨ρ', hm, rfl⟩ := List.mem_map.mp h'
    exact ⟨ρ', rfl, hm⟩
  | neg r as =>
    rw [renFItem_neg] at h
    obtain ⟨rfl, hn⟩ := h
    refine ⟨ρ, rfl, rfl, fun t ht => ?_⟩
    rw [← matchNArgs_ren hR hτ hk as (vars_neg hv) t]
    exact hn t ht

/-! ## bodies (mutual structural induction) -/

mutual
theorem satI_keys : ∀ (i : SItem E B G P A (MInv E)) (ρ ρ' : Env), (∀ v ∈ varsItem ops varsB varsG i, S v) → Keys S ρ →
    SatI I D agg i ρ ρ' → Keys S ρ'
  | .flat f, ρ, ρ', hv, hk, h => by
    simp only [SatI] at h
    exact stepF_keys f (by simpa only [varsItem] using hv) hk h
  | .disj alts, ρ, ρ', hv, hk, h => by
    simp only [SatI] at h
    exact satA_keys alts ρ ρ' (by simpa only [varsItem] using hv) hk h
  | .mac m, ρ, ρ', hv, hk, h => by simp only [SatI] at h
theorem satS_keys : ∀ (is : SItems E B G P A (MInv E)) (ρ ρ' : Env), (∀ v ∈ varsItems ops varsB varsG is, S v) → Keys S ρ →
    SatS I D agg is ρ ρ' → Keys S ρ'
  | .nil, ρ, ρ', hv, hk, h => by
    simp only [SatS] at h
    subst h
    exact hk
  | .cons i rest, ρ, ρ', hv, hk, h => by
    simp only [SatS] at h
    obtain ⟨ρ₁, h1, h2⟩ := h
    simp only [varsItems, List.mem_append] at hv
    exact satS_keys rest ρ₁ ρ' (fun v hv' => hv v (.inr hv')) (satI_keys i ρ ρ₁ (fun v hv' => hv v (.inl hv')) hk h1) h2
theorem satA_keys : ∀ (as : SAlts E B G P A (MInv E)) (ρ ρ' : Env), (∀ v ∈ varsAlts ops varsB varsG as, S v) → Keys S ρ →
    SatA I D agg as ρ ρ' → Keys S ρ'
  | .nil, ρ, ρ', hv, hk, h => by simp only [SatA] at h
  | .cons a rest, ρ, ρ', hv, hk, h => by
    simp only [SatA] at h
    simp only [varsAlts, List.mem_append] at hv
    rcases h with h | h
    · exact satS_keys a ρ ρ' (fun v hv' => hv v (.inl hv')) hk h
    · exact satA_keys rest ρ ρ' (fun v hv' => hv v (.inr hv')) hk h
end

mutual
theorem satI_ren (hR : RenLaw I ops varsB varsG) (hτ : InjOn τ S) : ∀ (i : SItem E B G P A (MInv E)) (ρ ρ' : Env),
    (∀ v ∈ varsItem ops varsB varsG i, S v) → aggOkItem i → Keys S ρ →
    SatI I D agg i ρ ρ' → SatI I D agg (renItem ops true τ i) (renEnv τ ρ) (renEnv τ ρ')
  | .flat f, ρ, ρ', hv, hok, hk, h => by
    simp only [SatI, renItem] at h ⊢
    exact stepF_ren hR hτ f (by simpa only [varsItem] using hv) (by simpa only [aggOkItem] using hok) hk h
  | .disj alts, ρ, ρ', hv, hok, hk, h => by
    simp only [SatI, renItem] at h ⊢
    exact satA_ren hR hτ alts ρ ρ' (by simpa only [varsItem] using hv) (by simpa only [aggOkItem] using hok) hk h
  | .mac m, ρ, ρ', hv, hok, hk, h => by simp only [SatI] at h
theorem satS_ren (hR : RenLaw I ops varsB varsG) (hτ : InjOn τ S) : ∀ (is : SItems E B G P A (MInv E)) (ρ ρ' : Env),
    (∀ v ∈ varsItems ops varsB varsG is, S v) → aggOkItems is → Keys S ρ →
    SatS I D agg is ρ ρ' → SatS I D agg (renItems ops true τ is) (renEnv τ ρ) (renEnv τ ρ')
  | .nil, ρ, ρ', hv, hok, hk, h => by
    simp only [SatS, renItems] at h ⊢
    rw [h]
  | .cons i rest, ρ, ρ', hv, hok, hk, h => by
    simp only [SatS, renItems] at h ⊢
    obtain ⟨ρ₁, h1, h2⟩ := h
    simp only [varsItems, List.mem_append] at hv
    simp only [aggOkItems] at hok
    have hv1 : ∀ v ∈ varsItem ops varsB varsG i, S v := fun v hv' => hv v (.inl hv')
    exact ⟨renEnv τ ρ₁, satI_ren hR hτ i ρ ρ₁ hv1 hok.1 hk h1,
      satS_ren hR hτ rest ρ₁ ρ' (fun v hv' => hv v (.inr hv')) hok.2 (satI_keys i ρ ρ₁ hv1 hk h1) h2⟩
theorem satA_ren (hR : RenLaw I ops varsB varsG) (hτ : InjOn τ S) : ∀ (as : SAlts E B G P A (MInv E)) (ρ ρ' : Env),
    (∀ v ∈ varsAlts ops varsB varsG as, S v) → aggOkAlts as → Keys S ρ →
    SatA I D agg as ρ ρ' → SatA I D agg (renAlts ops true τ as) (renEnv τ ρ) (renEnv τ ρ')
  | .nil, ρ, ρ', hv, hok, hk, h => by simp only [SatA] at h
  | .cons a rest, ρ, ρ', hv, hok, hk, h => by
    simp only [SatA, renAlts] at h ⊢
    simp only [varsAlts, List.mem_append] at hv
    simp only [aggOkAlts] at hok
    rcases h with h | h
    · exact .inl (satS_ren hR hτ a ρ ρ' (fun v hv' => hv v (.inl hv')) hok.1 hk h)
    · exact .inr (satA_ren hR hτ rest ρ ρ' (fun v hv' => hv v (.inr hv')) hok.2 hk h)
end

mutual
theorem satI_ren_inv (hR : RenLaw I ops varsB varsG) (hτ : InjOn τ S) : ∀ (i : SItem E B G P A (MInv E)) (ρ σ : Env),
    (∀ v ∈ varsItem ops varsB varsG i, S v) → aggOkItem i → Keys S ρ →
    SatI I D agg (renItem ops true τ i) (renEnv τ ρ) σ → ∃ ρ', σ = renEnv τ ρ' ∧ SatI I D agg i ρ ρ'
  | .flat f, ρ, σ, hv, hok, hk, h => by
    simp only [SatI, renItem] at h ⊢
    exact stepF_ren_inv hR hτ f (by simpa only [varsItem] using hv) (by simpa only [aggOkItem] using hok) hk h
  | .disj alts, ρ, σ, hv, hok, hk, h => by
    simp only [SatI, renItem] at h ⊢
    exact satA_ren_inv hR hτ alts ρ σ (by simpa only [varsItem] using hv) (by simpa only [aggOkItem] using hok) hk h
  | .mac m, ρ, σ, hv, hok, hk, h => by simp only [SatI, renItem] at h
theorem satS_ren_inv (hR : RenLaw I ops varsB varsG) (hτ : InjOn τ S) : ∀ (is : SItems E B G P A (MInv E)) (ρ σ : Env),
    (∀ v ∈ varsItems ops varsB varsG is, S v) → aggOkItems is → Keys S ρ →
    SatS I D agg (renItems ops true τ is) (renEnv τ ρ) σ → ∃ ρ', σ = renEnv τ ρ' ∧ SatS I D agg is ρ ρ'
  | .nil, ρ, σ, hv, hok, hk, h => by
    simp only [SatS, renItems] at h ⊢
    exact ⟨ρ, h, rfl⟩
  | .cons i rest, ρ, σ, hv, hok, hk, h => by
    simp only [SatS, renItems] at h ⊢
    obtain ⟨σ₁, h1, h2⟩ := h
    simp only [varsItems, List.mem_append] at hv
    simp only [aggOkItems] at hok
    have hv1 : ∀ v ∈ varsItem ops varsB varsG i, S v := fun v hv' => hv v (.inl hv')
    obtain ⟨ρ₁, rfl, h1'⟩ := satI_ren_inv hR hτ i ρ σ₁ hv1 hok.1 hk h1
    obtain ⟨ρ', rfl, h2'⟩ := satS_ren_inv hR hτ rest ρ₁ σ (fun v hv' => hv v (.inr hv')) hok.2 (satI_keys i ρ ρ₁ hv1 hk h1') h2
    exact ⟨ρ', rfl, ρ₁, h1', h2'⟩
theorem satA_ren_inv (hR : RenLaw I ops varsB varsG) (hτ : InjOn τ S) : ∀ (as : SAlts E B G P A (MInv E)) (ρ σ : Env),
    (∀ v ∈ varsAlts ops varsB varsG as, S v) → aggOkAlts as → Keys S ρ →
    SatA I D agg (renAlts ops true τ as) (renEnv τ ρ) σ → ∃ ρ', σ = renEnv τ ρ' ∧ SatA I D agg as ρ ρ'
  | .nil, ρ, σ, hv, hok, hk, h => by simp only [SatA, renAlts] at h
  | .cons a rest, ρ, σ, hv, hok, hk, h => by
    simp only [SatA, renAlts] at h ⊢
    simp only [varsAlts, List.mem_append] at hv
    simp only [aggOkAlts] at hok
    rcases h with h | h
    · obtain ⟨ρ', e, h'⟩ := satS_ren_inv hR hτ a ρ σ (fun v hv' => hv v (.inl hv')) hok.1 hk h
      exact ⟨ρ', e, .inl h'⟩
    · obtain ⟨ρ', e, h'⟩ := satA_ren_inv hR hτ rest ρ σ (fun v hv' => hv v (.inr hv')) hok.2 hk h
      exact ⟨ρ', e, .inr h'⟩
end

end

end AscentVerif.Surface.Sem
