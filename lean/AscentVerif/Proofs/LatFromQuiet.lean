import AscentVerif.Proofs.LatFrom
/-!
# A completed run leaves no pending join into a row without value column (for C13 with lattices)

A start value may hold the row `[]` in a lattice relation of arity 1 (key `[]`, value read as `unit`).
A join into that row writes `[x]` when `join_mut` answers `true`, so the row stays `[]` only if every
join into it answered `false`.  `Quiet D f`: *if* the row `[]` is in `f`'s relation and `f` has the
empty key, then joining `f`'s value into `unit` answers `false`.  This file threads `Quiet` through
the C03 development exactly like `Dominated`: at the end of `run()` every rule instance over the
result has quiet heads (`QClosedRules`).  It is what makes a second `run()` leave `[]` rows alone.
-/
namespace AscentVerif.Engine
open AscentVerif

variable {E B G P A : Type}

/-- joining the head fact into an *empty* row of its relation would answer `false` -/
def Quiet (I : Interp E B G P A) (p : Program E B G P A) (D : DB) (f : Fact) : Prop :=
  (declOf p f.rel).lat = true → D ⟨f.rel, []⟩ → keyOf f.args = [] →
    (I.joinMut f.rel .unit (valOf f.args)).2 = false

/-- lattice relations gain no empty row -/
def NELe (p : Program E B G P A) (D D' : DB) : Prop :=
  ∀ r, (declOf p r).lat = true → D' ⟨r, []⟩ → D ⟨r, []⟩

theorem NELe.refl (p : Program E B G P A) (D : DB) : NELe p D D := fun _ _ h => h

theorem NELe.trans {p : Program E B G P A} {D₁ D₂ D₃ : DB} (h₁ : NELe p D₁ D₂) (h₂ : NELe p D₂ D₃) :
    NELe p D₁ D₃ := fun r hl h => h₁ r hl (h₂ r hl h)

theorem Quiet.mono {I : Interp E B G P A} {p : Program E B G P A} {D D' : DB} {f : Fact}
    (h : Quiet I p D f) (hle : NELe p D D') : Quiet I p D' f :=
  fun hl hm hk => h hl (hle f.rel hl hm) hk

def QClosedRules (I : Interp E B G P A) (p : Program E B G P A) (rules : List (Rule E B G P A)) (D : DB) : Prop :=
  ∀ rule ∈ rules, ∀ ρ, Sat I D nAgg rule.body [] ρ → ∀ h ∈ rule.heads, Quiet I p D (headFact I h ρ)

theorem NELe_of_rows {p : Program E B G P A} {s s' : SccSt} {r : RelId}
    (hne : ∀ r', r' ≠ r → rowsOf s' r' = rowsOf s r')
    (hself : [] ∈ rowsOf s' r → [] ∈ rowsOf s r) : NELe p (FactsS s) (FactsS s') := by
  intro r' _ h
  by_cases hr : r' = r
  · subst hr; exact hself h
  · show [] ∈ rowsOf s r'
    rw [← hne r' hr]; exact h

theorem joinSt_rows_ne {s : SccSt} {r r' : RelId} {d : Dyn} {i : Nat} {x : Val} (hne : r' ≠ r) :
    rowsOf (joinSt s r d i x) r' = rowsOf s r' := by
  simp [joinSt, rowsOf, relSt_setNth_ne _ _ _ _ hne]

section Step
variable {I : Interp E B G P A} {L : LatOrder I} {p : Program E B G P A} {inp : RelId → List Tuple}
  {dynR : List RelId}

theorem headLat_quiet {s : SccSt} (hinv : LInv I L p inp dynR s) (r : RelId) (row : Tuple)
    (hlat : (declOf p r).lat = true) (hdyn : dynR.contains r = true) (hne : row ≠ []) :
    NELe p (FactsS s) (FactsS (headLat I {} s r row)) ∧
      Quiet I p (FactsS (headLat I {} s r row)) ⟨r, row⟩ := by
  have hr := hinv.dlt r hdyn
  have hr' : r < s.rels.length := by rw [hinv.wf.len]; exact hr
  obtain ⟨d, hd⟩ := findDyn_of_dyn hinv hdyn
  have hcov := hinv.wf.cover r d hd
  have hkeys := hinv.keys r hlat
  rw [headLat_eq, hd]
  simp only []
  cases hkr : keyRow (rowsOf s r) d (keyOf row) with
  | none =>
    simp only []
    have hself : [] ∈ rowsOf (pushRow s r d row) r → [] ∈ rowsOf s r := by
      intro h
      rw [pushRow_rows_self hr'] at h
      rcases List.mem_append.mp h with h | h
      · exact h
      · simp only [List.mem_singleton] at h
        exact absurd h.symm hne
    refine ⟨NELe_of_rows (fun r' h => pushRow_rows_ne h) hself, ?_⟩
    intro _ hmem hk
    have h0 : [] ∈ rowsOf s r := hself hmem
    have := keyRow_fresh hcov hkr [] h0
    have hk' : keyOf row = [] := hk
    exact absurd (by rw [hk']; rfl) this
  | some i =>
    obtain ⟨hi, hkey⟩ := keyRow_found hcov hkr
    simp only []
    by_cases hj : (I.joinMut r (valOf (rowAt (rowsOf s r) i)) (valOf row)).2 = true
    · rw [if_pos hj]
      have hself : [] ∈ rowsOf (joinSt s r d i (I.joinMut r (valOf (rowAt (rowsOf s r) i)) (valOf row)).1) r →
          [] ∈ rowsOf s r := by
        intro h
        rw [joinSt_rows_self hr'] at h
        rcases mem_setNth _ _ _ _ h with h | h
        · simp at h
        · exact h
      refine ⟨NELe_of_rows (fun r' h => joinSt_rows_ne h) hself, ?_⟩
      intro _ hmem hk
      exfalso
      have hk' : keyOf row = [] := hk
      have hmem' : [] ∈ rowsOf (joinSt s r d i (I.joinMut r (valOf (rowAt (rowsOf s r) i)) (valOf row)).1) r := hmem
      rw [joinSt_rows_self hr'] at hmem'
      obtain ⟨j, hjl, hrow⟩ := (mem_iff_rowAt _ _).mp hmem'
      rw [joinRows_length] at hjl
      by_cases hji : j = i
      · subst hji
        rw [joinRows_at_self _ hi] at hrow
        simp at hrow
      · rw [joinRows_at_ne _ hji] at hrow
        apply hji
        apply idx_of_key hkeys hjl hi
        rw [hrow, hkey, hk']; rfl
    · rw [if_neg hj]
      refine ⟨NELe.refl p _, ?_⟩
      intro _ hmem hk
      have hk' : keyOf row = [] := hk
      have hmem' : [] ∈ rowsOf s r := hmem
      obtain ⟨j, hjl, hrow⟩ := (mem_iff_rowAt _ _).mp hmem'
      have hji : j = i := by
        apply idx_of_key hkeys hjl hi
        rw [hrow, hkey, hk']; rfl
      subst hji
      rw [hrow] at hj
      show (I.joinMut r Val.unit (valOf row)).2 = false
      have : valOf ([] : Tuple) = Val.unit := rfl
      rw [this] at hj
      simpa using hj

theorem headRel_quiet {s : SccSt} (r : RelId) (row : Tuple) (hlat : (declOf p r).lat = false) :
    NELe p (FactsS s) (FactsS (headRel s r row)) ∧ Quiet I p (FactsS (headRel s r row)) ⟨r, row⟩ := by
  refine ⟨?_, fun hl => by rw [hlat] at hl; cases hl⟩
  rw [headRel_eq]
  cases hd : findDyn s.dyn r with
  | none => exact NELe.refl p _
  | some d =>
    simp only []
    split
    · exact NELe.refl p _
    · intro r' hl h
      have hne : r' ≠ r := by
        intro h'; subst h'; rw [hlat] at hl; cases hl
      show [] ∈ rowsOf s r'
      rw [← pushRow_rows_ne (s := s) (r := r) (d := d) (row := row) hne]; exact h

theorem headUpdate_quiet {s : SccSt} (hinv : LInv I L p inp dynR s) (h : HeadClause E) (ρ : Env)
    (hdyn : dynR.contains h.rel = true) (hne : (declOf p h.rel).lat = true → h.args ≠ []) :
    NELe p (FactsS s) (FactsS (headUpdate I {} p s h ρ)) ∧
      Quiet I p (FactsS (headUpdate I {} p s h ρ)) (headFact I h ρ) := by
  unfold headUpdate
  cases hlat : (declOf p h.rel).lat with
  | true =>
    refine headLat_quiet hinv h.rel _ hlat hdyn ?_
    intro h0
    exact hne hlat (List.map_eq_nil_iff.mp h0)
  | false => exact headRel_quiet h.rel _ hlat

end Step

/-! ## the folds -/

section Pass
variable {I : Interp E B G P A} {L : LatOrder I} {p : Program E B G P A} {inp : RelId → List Tuple}
  {dynR : List RelId}

/-- the heads of an enumerated instance are below every target (from `evalVariant_step'`) -/
theorem belowF_evalBody (rule : Rule E B G P A) (hrule : rule ∈ p.rules) (haf : rule.aggFree = true)
    (vs : List (Option Ver)) (s : SccSt) (hinv : LInv I L p inp dynR s) :
    ∀ ρ ∈ evalBody I {} p s rule.body vs [], ∀ h ∈ rule.heads, BelowF I L p inp (headFact I h ρ) := by
  intro ρ hρ h hh M hM
  have hsv := SatV_of_evalBody I {} p s rule.body vs [] ρ haf hρ
  have hsat : Sat I (FactsS s) (fun _ => []) rule.body [] ρ :=
    SatV.toSat (fun r v t hv => view_sub_rows' {} p hinv.wf hv) hsv
  obtain ⟨ρ', hsat', hdom⟩ := hM.1 (FactsS s) M hinv.keyUnique hM.2.1 (hinv.below M hM) rule hrule ρ hsat
  exact Dominated.single (hdom h hh) (hM.2.2.2 rule hrule ρ' hsat' h hh)

theorem heads_quiet (heads : List (HeadClause E)) (ρ : Env)
    (hbf : ∀ h ∈ heads, BelowF I L p inp (headFact I h ρ))
    (hdyn : ∀ h ∈ heads, dynR.contains h.rel = true)
    (hne : ∀ h ∈ heads, (declOf p h.rel).lat = true → h.args ≠ [])
    (s : SccSt) (hinv : LInv I L p inp dynR s) :
    NELe p (FactsS s) (FactsS (heads.foldl (fun s h => headUpdate I {} p s h ρ) s)) ∧
      ∀ h ∈ heads, Quiet I p (FactsS (heads.foldl (fun s h => headUpdate I {} p s h ρ) s)) (headFact I h ρ) := by
  refine (foldl_track (fun s h => headUpdate I {} p s h ρ) (LInv I L p inp dynR)
    (fun s s' => NELe p (FactsS s) (FactsS s'))
    (fun h s => Quiet I p (FactsS s) (headFact I h ρ)) (fun s => NELe.refl p _) (fun _ _ _ => NELe.trans)
    (fun h s s' hd hle => hd.mono hle) heads ?_ s hinv).2
  intro s h hh hs
  obtain ⟨q1, q2⟩ := headUpdate_quiet hs h ρ (hdyn h hh) (hne h hh)
  exact ⟨(headUpdate_step hs h ρ (hdyn h hh) (hbf h hh)).1, q1, q2⟩

theorem envs_quiet (heads : List (HeadClause E)) (l : List Env)
    (hbf : ∀ ρ ∈ l, ∀ h ∈ heads, BelowF I L p inp (headFact I h ρ))
    (hdyn : ∀ h ∈ heads, dynR.contains h.rel = true)
    (hne : ∀ h ∈ heads, (declOf p h.rel).lat = true → h.args ≠ [])
    (s : SccSt) (hinv : LInv I L p inp dynR s) :
    NELe p (FactsS s) (FactsS (l.foldl (fun s ρ => heads.foldl (fun s h => headUpdate I {} p s h ρ) s) s)) ∧
      ∀ ρ ∈ l, ∀ h ∈ heads, Quiet I p
        (FactsS (l.foldl (fun s ρ => heads.foldl (fun s h => headUpdate I {} p s h ρ) s) s)) (headFact I h ρ) := by
  refine (foldl_track (fun s ρ => heads.foldl (fun s h => headUpdate I {} p s h ρ) s) (LInv I L p inp dynR)
    (fun s s' => NELe p (FactsS s) (FactsS s'))
    (fun ρ s => ∀ h ∈ heads, Quiet I p (FactsS s) (headFact I h ρ)) (fun s => NELe.refl p _)
    (fun _ _ _ => NELe.trans) (fun ρ s s' hd hle h hh => (hd h hh).mono hle) l ?_ s hinv).2
  intro s ρ hρ hs
  obtain ⟨q1, q2⟩ := heads_quiet heads ρ (hbf ρ hρ) hdyn hne s hs
  exact ⟨(heads_step' heads ρ (hbf ρ hρ) hdyn s hs).1, q1, q2⟩

def QDoneV (I : Interp E B G P A) (p : Program E B G P A) (rule : Rule E B G P A)
    (vs : List (Option Ver)) (s : SccSt) : Prop :=
  ∀ ρ, SatV I (PView s) rule.body vs [] ρ → ∀ h ∈ rule.heads, Quiet I p (FactsS s) (headFact I h ρ)

variable (I L p) in
def QExt (s s' : SccSt) : Prop := LExt I L p s s' ∧ NELe p (FactsS s) (FactsS s')

theorem QExt.refl (s : SccSt) : QExt I L p s s := ⟨LExt.refl I L p s, NELe.refl p _⟩

theorem QExt.trans {a b c : SccSt} (h₁ : QExt I L p a b) (h₂ : QExt I L p b c) : QExt I L p a c :=
  ⟨LExt.trans h₁.1 h₂.1, NELe.trans h₁.2 h₂.2⟩

theorem QDoneV.mono {rule : Rule E B G P A} {vs : List (Option Ver)} {s s' : SccSt} (h : QDoneV I p rule vs s)
    (hext : QExt I L p s s') : QDoneV I p rule vs s' := by
  intro ρ hρ hd hhd
  exact (h ρ (SatV.mono (fun r v t hv => PView_anti hext.1 hv) hρ) hd hhd).mono hext.2

theorem evalVariant_quiet (rule : Rule E B G P A) (hrule : rule ∈ p.rules)
    (haf : rule.aggFree = true) (hdyn : ∀ h ∈ rule.heads, dynR.contains h.rel = true)
    (hne : ∀ h ∈ rule.heads, (declOf p h.rel).lat = true → h.args ≠ [])
    (vs : List (Option Ver)) (s : SccSt) (hinv : LInv I L p inp dynR s) :
    LInv I L p inp dynR (evalVariant I {} p s rule vs) ∧ QExt I L p s (evalVariant I {} p s rule vs) ∧
      QDoneV I p rule vs (evalVariant I {} p s rule vs) := by
  have hbf := belowF_evalBody rule hrule haf vs s hinv
  obtain ⟨h1, h2, _⟩ := evalVariant_step' rule hrule haf hdyn vs s hinv
  obtain ⟨q1, q2⟩ := envs_quiet rule.heads (evalBody I {} p s rule.body vs []) hbf hdyn hne s hinv
  refine ⟨h1, ⟨h2, q1⟩, ?_⟩
  intro ρ hρ h hh
  have hρ' : SatV I (viewOf {} p s) rule.body vs [] ρ :=
    SatV.mono (fun r v t hv => PView_sub_view {} p (PView_anti h2 hv)) hρ
  exact q2 ρ (evalBody_of_SatV I {} p s hρ') h hh

theorem evalRule_quiet (rule : Rule E B G P A) (hrule : rule ∈ p.rules)
    (haf : rule.aggFree = true) (hdyn : ∀ h ∈ rule.heads, dynR.contains h.rel = true)
    (hne : ∀ h ∈ rule.heads, (declOf p h.rel).lat = true → h.args ≠ [])
    (vss : List (List (Option Ver))) (s : SccSt) (hinv : LInv I L p inp dynR s) :
    LInv I L p inp dynR (vss.foldl (fun s vs => evalVariant I {} p s rule vs) s) ∧
      QExt I L p s (vss.foldl (fun s vs => evalVariant I {} p s rule vs) s) ∧
      ∀ vs ∈ vss, QDoneV I p rule vs (vss.foldl (fun s vs => evalVariant I {} p s rule vs) s) := by
  refine foldl_track (fun s vs => evalVariant I {} p s rule vs) (LInv I L p inp dynR) (QExt I L p)
    (fun vs s => QDoneV I p rule vs s) QExt.refl (fun _ _ _ => QExt.trans)
    (fun vs s s' hd hle => hd.mono hle) vss ?_ s hinv
  intro s vs _ hs
  exact evalVariant_quiet rule hrule haf hdyn hne vs s hs

theorem evalRules_quiet (rules : List (Rule E B G P A))
    (hrules : ∀ rule ∈ rules, rule ∈ p.rules) (haf : ∀ rule ∈ rules, rule.aggFree = true)
    (hdyn : ∀ rule ∈ rules, ∀ h ∈ rule.heads, dynR.contains h.rel = true)
    (hne : ∀ rule ∈ rules, ∀ h ∈ rule.heads, (declOf p h.rel).lat = true → h.args ≠ [])
    (s : SccSt) (hinv : LInv I L p inp dynR s) :
    LInv I L p inp dynR (evalRules I {} p dynR rules s) ∧ QExt I L p s (evalRules I {} p dynR rules s) ∧
      ∀ rule ∈ rules, ∀ vs ∈ variants dynR rule, QDoneV I p rule vs (evalRules I {} p dynR rules s) := by
  unfold evalRules
  refine foldl_track (fun s r => (variants dynR r).foldl (fun s vs => evalVariant I {} p s r vs) s)
    (LInv I L p inp dynR) (QExt I L p)
    (fun rule s => ∀ vs ∈ variants dynR rule, QDoneV I p rule vs s)
    QExt.refl (fun _ _ _ => QExt.trans) (fun rule s s' hd hle vs hvs => (hd vs hvs).mono hle)
    rules ?_ s hinv
  intro s rule hr hs
  exact evalRule_quiet rule (hrules rule hr) (haf rule hr) (hdyn rule hr) (hne rule hr) (variants dynR rule) s hs

end Pass

/-! ## iterations, one SCC, strata -/

section Iter
variable {I : Interp E B G P A} {L : LatOrder I} {p : Program E B G P A} {inp : RelId → List Tuple}
  {dynR : List RelId}

variable (I p) in
def QFrontier (rules : List (Rule E B G P A)) (Q : Rule E B G P A → Prop) (s : SccSt) : Prop :=
  ∀ rule ∈ rules, Q rule → ∀ ρ, Sat I (fun f => PView s f.rel (some .total) f.args) nAgg rule.body [] ρ →
    ∀ h ∈ rule.heads, Quiet I p (FactsS s) (headFact I h ρ)

theorem QFrontier.weaken {rules : List (Rule E B G P A)} {Q Q' : Rule E B G P A → Prop} {s : SccSt}
    (h : QFrontier I p rules Q s) (hq : ∀ r, Q' r → Q r) : QFrontier I p rules Q' s :=
  fun rule hr hq' ρ hs hd hh => h rule hr (hq _ hq') ρ hs hd hh

/-- one iteration -/
theorem iter_quiet (rules : List (Rule E B G P A))
    (hrules : ∀ rule ∈ rules, rule ∈ p.rules) (haf : ∀ rule ∈ rules, rule.aggFree = true)
    (hdyn : ∀ rule ∈ rules, ∀ h ∈ rule.heads, dynR.contains h.rel = true)
    (hne : ∀ rule ∈ rules, ∀ h ∈ rule.heads, (declOf p h.rel).lat = true → h.args ≠ [])
    (s s₁ : SccSt) (hs₁ : s₁ = evalRules I {} p dynR rules { s with changed := false })
    (hinv : LLoopInv I L p inp dynR rules (hasDyn dynR) s)
    (hq : QFrontier I p rules (hasDyn dynR) s) :
    QFrontier I p rules (fun _ => True) (shift s₁) ∧ NELe p (FactsS s) (FactsS (shift s₁)) := by
  obtain ⟨hinv1, hext, hdone⟩ := evalRules_quiet rules hrules haf hdyn hne _ (LInv_reset hinv.inv)
  rw [← hs₁] at hinv1 hext hdone
  refine ⟨?_, hext.2⟩
  intro rule hr _ ρ hsat h hh
  show Quiet I p (FactsS s₁) (headFact I h ρ)
  have hsat' : Sat I (fun f => PView s₁ f.rel (some .totalDelta) f.args) nAgg rule.body [] ρ :=
    Sat.mono (fun f hf => PView_shift hf) hsat
  rcases seminaive_cover I (PView s₁) dynR
      (fun r hr v v' t hv => PView_nd hinv1.wf hr v v' t hv)
      (fun r t hv => PView_split r t hv) rule (haf rule hr) hsat' with ⟨hn, htot⟩ | ⟨vs, hvs, hsv⟩
  · have htot' : Sat I (fun f => PView s f.rel (some .total) f.args) nAgg rule.body [] ρ :=
      Sat.mono (fun f hf => PView_anti hext.1 hf) htot
    exact (hq rule hr hn ρ htot' h hh).mono hext.2
  · exact hdone rule hr vs hvs ρ hsv h hh

/-- the loop of a looping SCC -/
theorem sccLoop_quiet (rules : List (Rule E B G P A))
    (hrules : ∀ rule ∈ rules, rule ∈ p.rules) (haf : ∀ rule ∈ rules, rule.aggFree = true)
    (hdyn : ∀ rule ∈ rules, ∀ h ∈ rule.heads, dynR.contains h.rel = true)
    (hne : ∀ rule ∈ rules, ∀ h ∈ rule.heads, (declOf p h.rel).lat = true → h.args ≠ [])
    (dl : Deadline) (D0 : DB) : ∀ (fuel : Nat) (rs rs' : RunSt),
      LLoopInv I L p inp dynR rules (hasDyn dynR) rs.st → QFrontier I p rules (hasDyn dynR) rs.st →
      NELe p D0 (FactsS rs.st) →
      sccLoop I {} p dynR rules dl fuel rs = .done rs' →
      QFrontier I p rules (fun _ => True) rs'.st ∧ NELe p D0 (FactsS rs'.st) := by
  intro fuel
  induction fuel with
  | zero => intro rs rs' _ _ _ h; simp [sccLoop] at h
  | succ fuel ih =>
    intro rs rs' hinv hq h0 h
    obtain ⟨hinv', _⟩ := iter_step' rules hrules haf hdyn rs.st hinv
    obtain ⟨hq', hne'⟩ := iter_quiet rules hrules haf hdyn hne rs.st _ rfl hinv hq
    simp only [sccLoop] at h
    split at h
    · simp only [Outcome.done.injEq] at h
      subst h
      exact ⟨hq', NELe.trans h0 hne'⟩
    · split at h
      · cases h
      · exact ih _ rs' (hinv'.weaken fun _ _ => trivial) (hq'.weaken fun _ _ => trivial) (NELe.trans h0 hne') h

theorem QFrontier_enter {st : St} (rules : List (Rule E B G P A)) :
    QFrontier I p rules (hasDyn dynR) (enterScc st dynR) := by
  intro rule _ hq ρ hsat
  exfalso
  apply hq
  refine Sat.no_dyn dynR ?_ hsat
  intro r t hc hD
  obtain ⟨i, _, hm⟩ := hD
  have hd : findDyn (enterScc st dynR).dyn r = some ⟨r, [], (relSt st r).idx, []⟩ := by
    rw [findDyn_enter, hc]; rfl
  have := ((PMem_some hd).mp hm).2
  have h' : i ∈ ([] : List Nat) ∧ i ∉ (relSt st r).idx := this
  cases h'.1

/-- **one SCC** -/
theorem runScc_quiet (haf : ∀ r ∈ p.rules, r.aggFree = true)
    (hh : ∀ r ∈ p.rules, ∀ h ∈ r.heads, h.rel < p.rels.length)
    (hne : ∀ r ∈ p.rules, ∀ h ∈ r.heads, (declOf p h.rel).lat = true → h.args ≠ [])
    (dl : Deadline) (fuel : Nat) (scc : List Nat) (ps ps' : ProgSt)
    (hp : LPInv I L p inp ps.st) (h : runScc I {} p dl fuel scc ps = .done ps') :
    NELe p (factsOf ps.st) (factsOf ps'.st) ∧ QClosedRules I p (sccRules p scc) (factsOf ps'.st) := by
  have hrules := sccRules_sub p scc
  have hafs : ∀ rule ∈ sccRules p scc, rule.aggFree = true := fun r hr => haf r (hrules r hr)
  have hnes : ∀ rule ∈ sccRules p scc, ∀ h ∈ rule.heads, (declOf p h.rel).lat = true → h.args ≠ [] :=
    fun r hr => hne r (hrules r hr)
  have hdyn : ∀ rule ∈ sccRules p scc, ∀ h ∈ rule.heads, (dynRels p scc).contains h.rel = true :=
    fun rule hr h hhd => (dynRels_mem p scc h.rel).mpr ⟨rule, hr, h, hhd, rfl⟩
  have hlt : ∀ r, (dynRels p scc).contains r = true → r < p.rels.length := by
    intro r hr
    obtain ⟨rule, hrule, h, hhd, rfl⟩ := (dynRels_mem p scc r).mp hr
    exact hh rule (hrules rule hrule) h hhd
  have hinv0 := LLoopInv_enter (dynRels p scc) hlt hp (sccRules p scc)
  have hb0 : LBase I L p (dynRels p scc) ps.st (enterScc ps.st (dynRels p scc)) := LBase_enter ps.st (dynRels p scc)
  have hq0 : QFrontier I p (sccRules p scc) (hasDyn (dynRels p scc)) (enterScc ps.st (dynRels p scc)) :=
    QFrontier_enter (sccRules p scc)
  have hn0 : NELe p (factsOf ps.st) (FactsS (enterScc ps.st (dynRels p scc))) := by
    rw [FactsS_enter]; exact NELe.refl p _
  simp only [runScc] at h
  split at h
  · -- looping
    split at h
    · rename_i rs hloop
      simp only [Outcome.done.injEq] at h
      subst h
      obtain ⟨hinv, hset, _⟩ := sccLoop_spec' (sccRules p scc) hrules hafs hdyn dl ps.st fuel _ rs hinv0 hb0 hloop
      obtain ⟨hq, hn⟩ := sccLoop_quiet (sccRules p scc) hrules hafs hdyn hnes dl (factsOf ps.st) fuel _ rs
        hinv0 hq0 hn0 hloop
      obtain ⟨_, hfacts, _⟩ := leave_spec' hinv.inv hset
      show NELe p (factsOf ps.st) (factsOf (leaveScc rs.st)) ∧
        QClosedRules I p (sccRules p scc) (factsOf (leaveScc rs.st))
      rw [hfacts]
      refine ⟨hn, ?_⟩
      intro rule hr ρ hsat hd hhd
      refine hq rule hr trivial ρ (Sat.mono ?_ hsat) hd hhd
      exact fun f hf => facts_sub_PView hinv.inv.wf hset f hf
    · cases h
    · cases h
  · -- not looping
    rename_i hnl
    have hnl' : isLooping p scc = false := by simpa using hnl
    split at h
    · cases h
    · simp only [Outcome.done.injEq] at h
      subst h
      obtain ⟨hinv, _⟩ := iter_step' (sccRules p scc) hrules hafs hdyn _ hinv0
      obtain ⟨hq, hn⟩ := iter_quiet (sccRules p scc) hrules hafs hdyn hnes _ _ rfl hinv0 hq0
      have hinv2 := LInv_shift hinv.inv
      have hset : Settled (shift (shift (evalRules I {} p (dynRels p scc) (sccRules p scc)
          (enterScc ps.st (dynRels p scc))))) := by
        intro r d'' hd''
        rw [findDyn_shift] at hd''
        cases hd : findDyn (shift (evalRules I {} p (dynRels p scc) (sccRules p scc)
            (enterScc ps.st (dynRels p scc)))).dyn r with
        | none => rw [hd] at hd''; cases hd''
        | some d' =>
          rw [hd] at hd''; cases hd''
          exact ⟨hinv.newE r d' hd, rfl⟩
      have hfacts : factsOf (leaveScc (shift (shift (evalRules I {} p (dynRels p scc) (sccRules p scc)
          (enterScc ps.st (dynRels p scc)))))) = FactsS (shift (shift (evalRules I {} p (dynRels p scc) (sccRules p scc)
          (enterScc ps.st (dynRels p scc))))) := (leave_spec' hinv2 hset).2.1
      show NELe p (factsOf ps.st) (factsOf (leaveScc _)) ∧
        QClosedRules I p (sccRules p scc) (factsOf (leaveScc _))
      rw [hfacts]
      refine ⟨NELe.trans hn0 hn, ?_⟩
      intro rule hr ρ hsat hd hhd
      refine hq rule hr trivial ρ (Sat.congr_rels hsat ?_) hd hhd
      intro r hr' t ht
      exact facts_sub_PView_nd hinv.inv.wf r (notLooping p scc hnl' rule hr r hr') t ht

theorem runSccs_quiet (haf : ∀ r ∈ p.rules, r.aggFree = true)
    (hh : ∀ r ∈ p.rules, ∀ h ∈ r.heads, h.rel < p.rels.length)
    (hne : ∀ r ∈ p.rules, ∀ h ∈ r.heads, (declOf p h.rel).lat = true → h.args ≠ [])
    (o : SccOrder) (ho : validOrder p o = true) (dl : Deadline) (fuel : Nat) :
    ∀ (rest done : SccOrder) (ps ps' : ProgSt),
    done ++ rest = o → LPInv I L p inp ps.st →
    (∀ scc ∈ done, QClosedRules I p (sccRules p scc) (factsOf ps.st)) →
    runSccs I {} p dl fuel rest ps = .done ps' →
    ∀ scc ∈ o, QClosedRules I p (sccRules p scc) (factsOf ps'.st) := by
  intro rest
  induction rest with
  | nil =>
    intro done ps ps' hdone _ hcl h
    simp only [runSccs, Outcome.done.injEq] at h
    subst h
    rw [List.append_nil] at hdone
    subst hdone
    exact hcl
  | cons scc rest ih =>
    intro done ps ps' hdone hp hcl h
    simp only [runSccs] at h
    split at h
    · rename_i ps1 hscc
      obtain ⟨hp1, hsame, _, _⟩ := runScc_spec' haf hh dl fuel scc ps ps1 hp hscc
      obtain ⟨hn, hq1⟩ := runScc_quiet haf hh hne dl fuel scc ps ps1 hp hscc
      refine ih (done ++ [scc]) ps1 ps' (by rw [List.append_assoc]; exact hdone) hp1 ?_ h
      intro scc' hscc'
      rcases List.mem_append.mp hscc' with hscc' | hscc'
      · intro rule hrule ρ hsat hd hhd
        have hfw := validOrder_forward p o ho done scc rest hdone scc' hscc' rule hrule
        have hsat' : Sat I (factsOf ps.st) nAgg rule.body [] ρ := by
          refine Sat.congr_rels hsat ?_
          intro r hr t ht
          have : relSt ps1.st r = relSt ps.st r := hsame r (hfw r hr)
          simp only [factsOf] at ht ⊢
          rw [← this]; exact ht
        exact (hcl scc' hscc' rule hrule ρ hsat' hd hhd).mono hn
      · simp only [List.mem_singleton] at hscc'
        subst hscc'
        exact hq1
    · rename_i hne'
      cases hr : runScc I {} p dl fuel scc ps with
      | done x => exact absurd hr (hne' x)
      | timedOut x => rw [hr] at h; cases h
      | outOfFuel => rw [hr] at h; cases h

include L in
/-- after a completed run every rule instance over the result has quiet heads -/
theorem run_from_quiet (haf : ∀ r ∈ p.rules, r.aggFree = true)
    (hh : ∀ r ∈ p.rules, ∀ h ∈ r.heads, h.rel < p.rels.length)
    (hne : ∀ r ∈ p.rules, ∀ h ∈ r.heads, (declOf p h.rel).lat = true → h.args ≠ [])
    (o : SccOrder) (ho : validOrder p o = true) (dl : Deadline) (fuel : Nat) (s : St) (ps : ProgSt)
    (hs : WFSt' p s)
    (hk : ∀ r, r < p.rels.length → (declOf p r).lat = true → ((relSt s r).rows.map keyOf).Nodup)
    (hrun : runTimeout I {} p o dl fuel s = .done ps) :
    QClosedRules I p p.rules (factsOf ps.st) := by
  obtain ⟨hp0, _⟩ := LPInv_from (I := I) (L := L) s hs hk
  have h := runSccs_quiet haf hh hne o ho dl fuel o [] _ ps (by simp) hp0
    (by intro scc hscc; simp at hscc) hrun
  intro rule hrule ρ hsat hd hhd
  obtain ⟨i, hi, hri⟩ := List.mem_iff_getElem.mp hrule
  obtain ⟨scc, hscc, hiscc⟩ := validOrder_cover p o ho i hi
  have : rule ∈ sccRules p scc := (mem_sccRules p scc rule).mpr ⟨i, hiscc, by rw [List.getElem?_eq_getElem hi, hri]⟩
  exact h scc hscc rule this ρ hsat hd hhd

end Iter

end AscentVerif.Engine
