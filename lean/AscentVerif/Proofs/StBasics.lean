import AscentVerif.Model.Engine
/-!
# Elementary facts about the state accessors of the engine model
(`setNth`, `relSt`, `rowAt`, `findDyn`, `setDyn`, `eraseDups`) — used by the C01 proof.
-/
namespace AscentVerif.Engine
open AscentVerif

variable {E B G P A : Type}

theorem setNth_eq_set {α : Type} (l : List α) (i : Nat) (x : α) : setNth l i x = l.set i x := by
  induction l generalizing i with
  | nil => rfl
  | cons y ys ih =>
    cases i with
    | zero => rfl
    | succ i => simp [setNth, ih]

@[simp] theorem length_setNth {α : Type} (l : List α) (i : Nat) (x : α) : (setNth l i x).length = l.length := by
  rw [setNth_eq_set, List.length_set]

theorem relSt_setNth_self (s : St) (r : RelId) (x : RelSt) (h : r < s.length) : relSt (setNth s r x) r = x := by
  simp [relSt, setNth_eq_set, List.getD_eq_getElem?_getD, h]

theorem relSt_setNth_ne (s : St) (r r' : RelId) (x : RelSt) (h : r' ≠ r) : relSt (setNth s r x) r' = relSt s r' := by
  simp [relSt, setNth_eq_set, List.getD_eq_getElem?_getD, List.getElem?_set_ne (Ne.symm h)]

theorem relSt_of_ge (s : St) (r : RelId) (h : s.length ≤ r) : relSt s r = ⟨[], []⟩ := by
  simp [relSt, List.getD_eq_getElem?_getD, List.getElem?_eq_none h]

theorem relSt_mem (s : St) (r : RelId) (h : r < s.length) : relSt s r ∈ s := by
  simp only [relSt, List.getD_eq_getElem?_getD, List.getElem?_eq_getElem h, Option.getD_some]
  exact List.getElem_mem h

theorem lt_of_mem_rows (s : St) (r : RelId) (t : Tuple) (h : t ∈ (relSt s r).rows) : r < s.length := by
  apply Classical.byContradiction
  intro hn
  rw [relSt_of_ge s r (Nat.le_of_not_lt hn)] at h
  simp at h

theorem rowAt_append_left (rows ex : List Tuple) (i : Nat) (h : i < rows.length) :
    rowAt (rows ++ ex) i = rowAt rows i := by
  simp [rowAt, List.getD_eq_getElem?_getD, List.getElem?_append_left h]

theorem rowAt_length_append (rows : List Tuple) (t : Tuple) : rowAt (rows ++ [t]) rows.length = t := by
  simp [rowAt, List.getD_eq_getElem?_getD]

theorem rowAt_mem (rows : List Tuple) (i : Nat) (h : i < rows.length) : rowAt rows i ∈ rows := by
  simp only [rowAt, List.getD_eq_getElem?_getD, List.getElem?_eq_getElem h, Option.getD_some]
  exact List.getElem_mem h

theorem mem_iff_rowAt (rows : List Tuple) (t : Tuple) : t ∈ rows ↔ ∃ i, i < rows.length ∧ rowAt rows i = t := by
  constructor
  · intro h
    obtain ⟨i, hi, rfl⟩ := List.mem_iff_getElem.mp h
    refine ⟨i, hi, ?_⟩
    simp [rowAt, List.getD_eq_getElem?_getD, List.getElem?_eq_getElem hi]
  · rintro ⟨i, hi, rfl⟩
    exact rowAt_mem rows i hi

theorem mem_bagTuples (rows : List Tuple) (bag : List Nat) (t : Tuple) :
    (bagTuples rows bag).contains t = true ↔ ∃ i ∈ bag, rowAt rows i = t := by
  simp [bagTuples]

/-! ## `eraseDups` -/

theorem mem_eraseDups {α : Type} [BEq α] [LawfulBEq α] (a : α) :
    ∀ (n : Nat) (l : List α), l.length ≤ n → (a ∈ l.eraseDups ↔ a ∈ l)
  | _, [], _ => by simp
  | 0, _ :: _, h => by simp at h
  | n + 1, b :: l, h => by
    rw [List.eraseDups_cons, List.mem_cons, List.mem_cons]
    have hlen : (l.filter fun x => !x == b).length ≤ n :=
      Nat.le_trans (List.length_filter_le _ _) (by simpa using h)
    rw [mem_eraseDups a n _ hlen, List.mem_filter]
    constructor
    · rintro (h | h)
      · exact .inl h
      · exact .inr h.1
    · rintro (h | h)
      · exact .inl h
      · by_cases hab : a = b
        · exact .inl hab
        · exact .inr ⟨h, by simpa using hab⟩

theorem mem_eraseDups' {α : Type} [BEq α] [LawfulBEq α] (a : α) (l : List α) : a ∈ l.eraseDups ↔ a ∈ l :=
  mem_eraseDups a l.length l (Nat.le_refl _)

/-! ## `findDyn`, `setDyn` -/

theorem findDyn_rel {dyn : List Dyn} {r : RelId} {d : Dyn} (h : findDyn dyn r = some d) : d.rel = r := by
  have := List.find?_some h
  simpa using this

theorem findDyn_mem {dyn : List Dyn} {r : RelId} {d : Dyn} (h : findDyn dyn r = some d) : d ∈ dyn :=
  List.mem_of_find?_eq_some h

theorem findDyn_map (dyn : List Dyn) (f : Dyn → Dyn) (hf : ∀ x, (f x).rel = x.rel) (r : RelId) :
    findDyn (dyn.map f) r = (findDyn dyn r).map f := by
  unfold findDyn
  rw [List.find?_map]
  congr 2
  funext x
  simp [Function.comp, hf]

theorem setDyn_eq_map (dyn : List Dyn) (d : Dyn) : setDyn dyn d = dyn.map fun x => if x.rel == d.rel then d else x := rfl

theorem setDyn_fn_rel (d : Dyn) (x : Dyn) : (if x.rel == d.rel then d else x).rel = x.rel := by
  by_cases h : x.rel = d.rel
  · simp [h]
  · simp [h]

theorem findDyn_setDyn (dyn : List Dyn) (d : Dyn) (r : RelId) :
    findDyn (setDyn dyn d) r = (findDyn dyn r).map fun x => if x.rel == d.rel then d else x := by
  rw [setDyn_eq_map]
  exact findDyn_map dyn _ (setDyn_fn_rel d) r

theorem findDyn_setDyn_self (dyn : List Dyn) (d d₀ : Dyn) (h : findDyn dyn d.rel = some d₀) :
    findDyn (setDyn dyn d) d.rel = some d := by
  rw [findDyn_setDyn, h]
  simp [findDyn_rel h]

theorem findDyn_setDyn_ne (dyn : List Dyn) (d : Dyn) (r : RelId) (hne : r ≠ d.rel) :
    findDyn (setDyn dyn d) r = findDyn dyn r := by
  rw [findDyn_setDyn]
  cases h : findDyn dyn r with
  | none => rfl
  | some x =>
    have : x.rel = r := findDyn_rel h
    have hx : ¬ x.rel = d.rel := by rw [this]; exact hne
    simp [hx]

/-- programs without lattices: `readBag` is the identity -/
theorem declOf_lat (p : Program E B G P A) (hl : ∀ d ∈ p.rels, d.lat = false) (r : RelId) : (declOf p r).lat = false := by
  unfold declOf
  by_cases h : r < p.rels.length
  · simp only [List.getD_eq_getElem?_getD, List.getElem?_eq_getElem h, Option.getD_some]
    exact hl _ (List.getElem_mem h)
  · simp [List.getD_eq_getElem?_getD, List.getElem?_eq_none (Nat.le_of_not_lt h)]

theorem readBag_id (cfg : Config) (p : Program E B G P A) (hl : ∀ d ∈ p.rels, d.lat = false) (r : RelId) (bag : List Nat) :
    readBag cfg (declOf p r) bag = bag := by
  simp [readBag, setLike, declOf_lat p hl r]

end AscentVerif.Engine
