import AscentVerif.Proofs.PhysParBasic
/-!
# The steps of the parallel physical engine against the bag engine

`Flags`: the frozen / unfrozen protocol state and the shape of every concurrent index.  Under it the head update, the
merge, SCC entry and exit never panic, re-establish `Flags`, and `erase` of the result is in the serial simulation relation
`Sim` (of `Proofs/PhysSim.lean`) with the corresponding step of the bag engine.
-/
namespace AscentVerif.PhysPar
open AscentVerif AscentVerif.Engine AscentVerif.Index AscentVerif.Phys

variable {E B G P A : Type}

/-! ## the protocol state -/

/-- a dynamic relation inside an SCC: `total` and `delta` frozen iff `fz` (rule evaluation), `new` always unfrozen -/
structure DynFlags (N : Nat) (fz : Bool) (d : PCDyn) : Prop where
  ft : d.full.total.frozen = fz
  fd : d.full.delta.frozen = fz
  fn : d.full.new.frozen = false
  ix : ∀ ci ∈ d.idxs, Shape N ci.1 ci.2.total ∧ Shape N ci.1 ci.2.delta ∧ Shape N ci.1 ci.2.new ∧
    ci.2.total.isFrozen = fz ∧ ci.2.delta.isFrozen = fz ∧ ci.2.new.isFrozen = false

def RelFlags (N : Nat) (fz : Bool) (pr : PCRel) : Prop :=
  pr.full.frozen = fz ∧ ∀ ci ∈ pr.idxs, Shape N ci.1 ci.2 ∧ ci.2.isFrozen = fz

/-- inside an SCC whose body-only relations are `bo` -/
structure Flags (N : Nat) (bo : List RelId) (fz : Bool) (s : PCScc) : Prop where
  dyn : ∀ d ∈ s.dyn, DynFlags N fz d ∧ bo.contains d.rel = false
  rels : ∀ r, r < s.rels.length → RelFlags N (bo.contains r) (pcrel s.rels r)

/-- between SCCs: everything unfrozen -/
def StFlags (N : Nat) (st : PCSt) : Prop := ∀ pr ∈ st, RelFlags N false pr

theorem pcrel_setNth_self (s : PCSt) (r : RelId) (x : PCRel) (h : r < s.length) : pcrel (setNth s r x) r = x := by
  simp [pcrel, setNth_eq_set, List.getD_eq_getElem?_getD, h]

theorem pcrel_setNth_ne (s : PCSt) (r r' : RelId) (x : PCRel) (h : r' ≠ r) : pcrel (setNth s r x) r' = pcrel s r' := by
  simp [pcrel, setNth_eq_set, List.getD_eq_getElem?_getD, List.getElem?_set_ne (Ne.symm h)]

theorem pcrel_mem (s : PCSt) (r : RelId) (h : r < s.length) : pcrel s r ∈ s := by
  simp only [pcrel, List.getD_eq_getElem?_getD, List.getElem?_eq_getElem h, Option.getD_some]
  exact List.getElem_mem h

theorem pcrel_of_ge (s : PCSt) (r : RelId) (h : s.length ≤ r) : pcrel s r = ⟨[], PCFull.new, []⟩ := by
  simp [pcrel, List.getD_eq_getElem?_getD, List.getElem?_eq_none h]

theorem pcrel_rangeMap (f : Nat → PCRel) (m : Nat) (r : RelId) (hr : r < m) : pcrel ((List.range m).map f) r = f r := by
  simp [pcrel, List.getD_eq_getElem?_getD, List.getElem?_map, List.getElem?_range hr]

/-! ## the head update -/

/-- `push_sim` of `Proofs/PhysSim.lean` for ANY new dynamic entry that satisfies the index invariant -/
theorem push_sim' {p : Program E B G P A} {ix : IxSets} {dynR : List RelId} {n : Nat} {a : SccSt} {ph : PScc}
    (hsim : Sim p ix a ph) (_hwf : WF n dynR a) {r : RelId} {d : Dyn} {pd : PDyn} (hd : findDyn a.dyn r = some d)
    (hok : DynOk ix (fun r => (relSt a.rels r).rows) d pd) (hr : r < a.rels.length) (row : Tuple)
    (hlen : row.length = arityOf p r) (pd' : PDyn) (hrel' : pd'.rel = pd.rel)
    (htri : TriOk (ix r) ((relSt a.rels r).rows ++ [row]) { d with new := d.new ++ [(relSt a.rels r).rows.length] }
      pd'.full pd'.idxs) :
    Sim p ix (pushRow a r d row)
      { rels := setNth ph.rels r { prel ph.rels r with rows := (prel ph.rels r).rows ++ [row] }
        dyn := setPDyn ph.dyn pd', changed := true } := by
  have hrel : d.rel = r := findDyn_rel hd
  have hprel : pd.rel = r := by rw [hok.rel, hrel]
  have hrp : r < ph.rels.length := by rw [← hsim.len]; exact hr
  have hrows_self : (relSt (pushRow a r d row).rels r).rows = (relSt a.rels r).rows ++ [row] := by
    simp [pushRow, relSt_setNth_self _ _ _ hr]
  have hrows_ne : ∀ r', r' ≠ r → relSt (pushRow a r d row).rels r' = relSt a.rels r' := by
    intro r' hne; simp [pushRow, relSt_setNth_ne _ _ _ _ hne]
  refine ⟨?_, ?_, rfl, ?_, ?_, ?_⟩
  · simp [pushRow, hsim.len]
  · intro r'
    by_cases hne : r' = r
    · subst hne
      rw [hrows_self, hsim.rows]
      simp [prel_setNth_self _ _ _ hrp]
    · rw [hrows_ne r' hne]
      simp only [prel_setNth_ne _ _ _ _ hne]
      exact hsim.rows r'
  · show Rel2 _ (setDyn a.dyn _) (setPDyn ph.dyn _)
    rw [setDyn_eq_map]
    unfold setPDyn
    refine Rel2.map _ _ ?_ hsim.dyn
    intro x px hx
    have hxr : px.rel = x.rel := hx.rel
    by_cases hc : x.rel = r
    · have h1 : (x.rel == ({ d with new := d.new ++ [(relSt a.rels r).rows.length] } : Dyn).rel) = true := by
        simp [hc, hrel]
      have h2 : (px.rel == pd'.rel) = true := by simp [hxr, hc, hprel, hrel']
      simp only [h1, h2, if_true]
      refine ⟨by rw [hrel', hok.rel], ?_⟩
      show TriOk (ix d.rel) (relSt (pushRow a r d row).rels d.rel).rows _ _ _
      rw [show ix d.rel = ix r from by rw [hrel],
        show (relSt (pushRow a r d row).rels d.rel).rows = (relSt a.rels r).rows ++ [row] from by rw [hrel]; exact hrows_self]
      exact htri
    · have h1 : (x.rel == ({ d with new := d.new ++ [(relSt a.rels r).rows.length] } : Dyn).rel) = false := by
        simp [hc, hrel]
      have h2 : (px.rel == pd'.rel) = false := by simp [hxr, hc, hprel, hrel']
      simp only [h1, h2, Bool.false_eq_true, if_false]
      exact hx.congr (by show (relSt (pushRow a r d row).rels x.rel).rows = _; rw [hrows_ne _ hc])
  · intro r' hr' hnd
    have hnd0 : findDyn a.dyn r' = none := by
      have : findDyn (pushRow a r d row).dyn r' = none := hnd
      simp only [pushRow, findDyn_setDyn, Option.map_eq_none_iff] at this
      exact this
    have hne : r' ≠ r := by intro h; rw [h, hd] at hnd0; cases hnd0
    rw [hrows_ne r' hne]
    simp only [prel_setNth_ne _ _ _ _ hne]
    exact hsim.nd r' (by simpa [pushRow] using hr') hnd0
  · intro r' t ht
    by_cases hne : r' = r
    · subst hne
      rw [hrows_self] at ht
      rcases List.mem_append.mp ht with ht | ht
      · exact hsim.typed r' t ht
      · simp only [List.mem_singleton] at ht; rw [ht]; exact hlen
    · rw [hrows_ne r' hne] at ht; exact hsim.typed r' t ht

theorem containsKey_frozen (x : PCFull) (row : Tuple) (h : x.frozen = true) :
    x.containsKey row = .ok (FullIdx.containsKey x.m row) := by
  simp [PCFull.containsKey, h]

theorem insertIfNotPresent_unfrozen (x : PCFull) (row : Tuple) (h : x.frozen = false) :
    x.insertIfNotPresent row =
      .ok ({ x with m := (FullIdx.insertIfNotPresent x.m row ()).1 }, (FullIdx.insertIfNotPresent x.m row ()).2) := by
  simp [PCFull.insertIfNotPresent, h]

/-- the state after a row was pushed -/
def pushPC (s : PCScc) (r : RelId) (d : PCDyn) (row : Tuple) (newFull : PCFull) (idxs : List (List Nat × Tri PCx)) : PCScc :=
  { rels := setNth s.rels r { pcrel s.rels r with rows := (pcrel s.rels r).rows ++ [row] }
    dyn := setPCDyn s.dyn { d with full := { d.full with new := newFull }, idxs := idxs }
    changed := true }

theorem headRelPar_eq (s : PCScc) (thread : Nat) (r : RelId) (row : Tuple) :
    headRelPar s thread r row =
      match findPCDyn s.dyn r with
      | none => .ok s
      | some d =>
        d.full.total.containsKey row >>= fun inT =>
        d.full.delta.containsKey row >>= fun inD =>
        if inT || inD then pure s
        else
          d.full.new.insertIfNotPresent row >>= fun ins =>
          if !ins.2 then pure s
          else
            foldRes (fun (done : List (List Nat × Tri PCx)) (ci : List Nat × Tri PCx) =>
              ci.2.new.insert thread (Plan.proj ci.1 row) (projC ci.1 row) >>= fun x =>
              pure (done ++ [(ci.1, { ci.2 with new := x })])) d.idxs [] >>= fun idxs =>
            pure (pushPC s r d row ins.1 idxs) := by
  unfold headRelPar
  cases findPCDyn s.dyn r <;> rfl

/-- flags and erasure of the pushed state -/
theorem Flags_push {N : Nat} {bo : List RelId} {s : PCScc} (hfl : Flags N bo true s) {r : RelId} {d : PCDyn}
    (hd : findPCDyn s.dyn r = some d) (row : Tuple) (newFull : PCFull) (idxs : List (List Nat × Tri PCx))
    (hnf : newFull.frozen = false)
    (hix : ∀ ci ∈ idxs, Shape N ci.1 ci.2.total ∧ Shape N ci.1 ci.2.delta ∧ Shape N ci.1 ci.2.new ∧
      ci.2.total.isFrozen = true ∧ ci.2.delta.isFrozen = true ∧ ci.2.new.isFrozen = false) :
    Flags N bo true (pushPC s r d row newFull idxs) := by
  have hdm := findPCDyn_mem hd
  obtain ⟨hdf, hdb⟩ := hfl.dyn d hdm
  refine ⟨?_, ?_⟩
  · intro x hx
    simp only [pushPC, setPCDyn, List.mem_map] at hx
    obtain ⟨y, hy, rfl⟩ := hx
    split
    · exact ⟨⟨hdf.ft, hdf.fd, hnf, hix⟩, hdb⟩
    · exact hfl.dyn y hy
  · intro r' hr'
    have hr'' : r' < s.rels.length := by simpa [pushPC] using hr'
    by_cases hne : r' = r
    · subst hne
      simp only [pushPC, pcrel_setNth_self _ _ _ hr'']
      exact hfl.rels r' hr''
    · simp only [pushPC, pcrel_setNth_ne _ _ _ _ hne]
      exact hfl.rels r' hr''

theorem erase_push (s : PCScc) (r : RelId) (d : PCDyn) (row : Tuple) (newFull : PCFull) (idxs : List (List Nat × Tri PCx)) :
    (pushPC s r d row newFull idxs).erase =
      { rels := setNth s.erase.rels r { prel s.erase.rels r with rows := (prel s.erase.rels r).rows ++ [row] }
        dyn := setPDyn s.erase.dyn (PCDyn.erase { d with full := { d.full with new := newFull }, idxs := idxs })
        changed := true } := by
  show PScc.mk _ _ _ = _
  congr 1
  · show (setNth s.rels r _).map PCRel.erase = setNth (s.rels.map PCRel.erase) r _
    rw [setNth_map]
    congr 1
    rw [show prel s.erase.rels r = (pcrel s.rels r).erase from prel_erase s.rels r]
    rfl
  · exact setPCDyn_erase _ _

theorem headRelPar_sim {p : Program E B G P A} {ix : IxSets} {dynR : List RelId} {n N : Nat} {bo : List RelId}
    {a : SccSt} {s : PCScc} (hN : 0 < N) (hsim : Sim p ix a s.erase) (hwf : WF n dynR a)
    (hlt : ∀ r, dynR.contains r = true → r < n) (hfl : Flags N bo true s) (tid : Nat) (r : RelId) (row : Tuple)
    (hlen : row.length = arityOf p r) :
    ∃ s', headRelPar s tid r row = .ok s' ∧ Sim p ix (Engine.headRel a r row) s'.erase ∧ Flags N bo true s' := by
  rw [headRel_eq, headRelPar_eq]
  have hfind : findPDyn s.erase.dyn r = (findPCDyn s.dyn r).map PCDyn.erase := findPDyn_erase s.dyn r
  rcases hsim.dyn.find r with ⟨h1, h2⟩ | ⟨d, pd, h1, h2, hok⟩
  · rw [h2] at hfind
    have hnone : findPCDyn s.dyn r = none := by
      cases hh : findPCDyn s.dyn r with
      | none => rfl
      | some x => rw [hh] at hfind; cases hfind
    rw [h1, hnone]
    exact ⟨s, rfl, hsim, hfl⟩
  · rw [h2] at hfind
    obtain ⟨cd, hcd, rfl⟩ : ∃ cd, findPCDyn s.dyn r = some cd ∧ pd = cd.erase := by
      cases hh : findPCDyn s.dyn r with
      | none => rw [hh] at hfind; cases hfind
      | some x =>
        rw [hh] at hfind
        simp only [Option.map_some, Option.some.injEq] at hfind
        exact ⟨x, rfl, hfind⟩
    rw [h1, hcd]
    obtain ⟨hdf, _⟩ := hfl.dyn cd (findPCDyn_mem hcd)
    have hrel : d.rel = r := findDyn_rel h1
    have hr : r < a.rels.length := by
      rw [hwf.len]; apply hlt
      rw [← hwf.dyn_iff, h1]; rfl
    have tri : TriOk (ix r) (relSt a.rels r).rows d cd.erase.full cd.erase.idxs := by
      have := hok.tri; rw [hrel] at this; exact this
    have hbT : ∀ i ∈ d.total, i < (relSt a.rels r).rows.length := fun i hi => (hwf.cover r d h1 i).mpr (.inl hi)
    have hbD : ∀ i ∈ d.delta, i < (relSt a.rels r).rows.length := fun i hi => (hwf.cover r d h1 i).mpr (.inr (.inl hi))
    have hbN : ∀ i ∈ d.new, i < (relSt a.rels r).rows.length := fun i hi => (hwf.cover r d h1 i).mpr (.inr (.inr hi))
    have eT := contains_eq_of_fullOk tri.ft row
    have eD := contains_eq_of_fullOk tri.fd row
    have eN := contains_eq_of_fullOk tri.fn row
    simp only [containsKey_frozen _ _ hdf.ft, containsKey_frozen _ _ hdf.fd, bind_ok,
      insertIfNotPresent_unfrozen _ _ hdf.fn]
    show ∃ s' : PCScc, _ = Res.ok s' ∧ Sim p ix (if ((bagTuples (relSt a.rels r).rows d.total).contains row ||
        (bagTuples (relSt a.rels r).rows d.delta).contains row || (bagTuples (relSt a.rels r).rows d.new).contains row) = true
        then a else pushRow a r d row) s'.erase ∧ _
    rw [← eT, ← eD, ← eN]
    change ∃ s' : PCScc, _ = Res.ok s' ∧ Sim p ix (if (FullIdx.containsKey cd.full.total.m row ||
        FullIdx.containsKey cd.full.delta.m row || FullIdx.containsKey cd.full.new.m row) = true
        then a else pushRow a r d row) s'.erase ∧ _
    by_cases h12 : (FullIdx.containsKey cd.full.total.m row || FullIdx.containsKey cd.full.delta.m row) = true
    · rw [if_pos h12, if_pos (by rw [h12]; rfl)]
      exact ⟨s, rfl, hsim, hfl⟩
    · rw [if_neg h12]
      have h12' : (FullIdx.containsKey cd.full.total.m row || FullIdx.containsKey cd.full.delta.m row) = false := by
        simpa using h12
      by_cases hNw : FullIdx.containsKey cd.full.new.m row = true
      · rw [insertIfNotPresent_present hNw, if_pos (show (FullIdx.containsKey cd.full.total.m row ||
          FullIdx.containsKey cd.full.delta.m row || FullIdx.containsKey cd.full.new.m row) = true by rw [hNw]; simp)]
        simp only [Bool.not_false, if_true, pure_eq_ok]
        exact ⟨s, rfl, hsim, hfl⟩
      · have hN' : FullIdx.containsKey cd.full.new.m row = false := by simpa using hNw
        have tfn : FullOk (relSt a.rels r).rows d.new cd.full.new.m := tri.fn
        obtain ⟨hi2, hfull⟩ := FullOk_insertIfNotPresent row tfn hbN hN'
        rw [if_neg (show ¬ (FullIdx.containsKey cd.full.total.m row ||
          FullIdx.containsKey cd.full.delta.m row || FullIdx.containsKey cd.full.new.m row) = true by rw [h12', hN']; simp), hi2]
        simp only [Bool.not_true, Bool.false_eq_true, if_false]
        -- the index inserts
        obtain ⟨idxs, hfold, hrel2⟩ := foldRes_collect
          (fun (ci : List Nat × Tri PCx) => ci.2.new.insert tid (Plan.proj ci.1 row) (projC ci.1 row))
          (fun ci x => (ci.1, { ci.2 with new := x }))
          (fun ci ci' => ci'.1 = ci.1 ∧ Shape N ci'.1 ci'.2.total ∧ Shape N ci'.1 ci'.2.delta ∧ Shape N ci'.1 ci'.2.new ∧
            ci'.2.total.isFrozen = true ∧ ci'.2.delta.isFrozen = true ∧ ci'.2.new.isFrozen = false ∧
            IxOk ((relSt a.rels r).rows ++ [row]) d.total ci'.1 ci'.2.total.erase ∧
            IxOk ((relSt a.rels r).rows ++ [row]) d.delta ci'.1 ci'.2.delta.erase ∧
            IxOk ((relSt a.rels r).rows ++ [row]) (d.new ++ [(relSt a.rels r).rows.length]) ci'.1 ci'.2.new.erase)
          cd.idxs (by
            intro ci hci
            obtain ⟨s1, s2, s3, f1, f2, f3⟩ := hdf.ix ci hci
            have hmem : (ci.1, eraseTri ci.2) ∈ cd.erase.idxs := List.mem_map.mpr ⟨ci, hci, rfl⟩
            have i1 : IxOk (relSt a.rels r).rows d.total ci.1 ci.2.total.erase := tri.it _ hmem
            have i2 : IxOk (relSt a.rels r).rows d.delta ci.1 ci.2.delta.erase := tri.id _ hmem
            have i3 : IxOk (relSt a.rels r).rows d.new ci.1 ci.2.new.erase := tri.inw _ hmem
            obtain ⟨x', hx1, hx2, hx3, hx4⟩ := PCx_insert_ok hN s3 f3 i3 hbN tid row
            exact ⟨x', hx1, rfl, s1, s2, hx2, f1, f2, hx3, IxOk_rows_append row i1 hbT, IxOk_rows_append row i2 hbD, hx4⟩)
        rw [hfold]
        simp only [bind_ok, pure_eq_ok]
        refine ⟨_, rfl, ?_, ?_⟩
        · rw [erase_push]
          refine push_sim' hsim hwf h1 hok hr row hlen _ rfl ?_
          refine ⟨FullOk_rows_append row tri.ft hbT, FullOk_rows_append row tri.fd hbD, hfull, ?_, ?_, ?_, ?_⟩
          · show (idxs.map fun ci => (ci.1, eraseTri ci.2)).map (·.1) = _
            rw [← tri.cols]
            show _ = (cd.idxs.map fun ci => (ci.1, eraseTri ci.2)).map (·.1)
            rw [List.map_map, List.map_map]
            exact (Rel2.map_eq _ _ (fun c c' hq => hq.1.symm) hrel2).symm
          · intro ci hci
            obtain ⟨c', hc', rfl⟩ := List.mem_map.mp hci
            obtain ⟨c, _, hq⟩ := hrel2.forall_right c' hc'
            exact hq.2.2.2.2.2.2.2.1
          · intro ci hci
            obtain ⟨c', hc', rfl⟩ := List.mem_map.mp hci
            obtain ⟨c, _, hq⟩ := hrel2.forall_right c' hc'
            exact hq.2.2.2.2.2.2.2.2.1
          · intro ci hci
            obtain ⟨c', hc', rfl⟩ := List.mem_map.mp hci
            obtain ⟨c, _, hq⟩ := hrel2.forall_right c' hc'
            exact hq.2.2.2.2.2.2.2.2.2
        · refine Flags_push hfl hcd row _ idxs hdf.fn ?_
          intro c' hc'
          obtain ⟨c, _, hq⟩ := hrel2.forall_right c' hc'
          exact ⟨hq.2.1, hq.2.2.1, hq.2.2.2.1, hq.2.2.2.2.1, hq.2.2.2.2.2.1, hq.2.2.2.2.2.2.1⟩


/-! ## the merge -/

theorem mergeFull_ok (t : Tri PCFull) (h1 : t.total.frozen = false) (h2 : t.delta.frozen = false) :
    ∃ t', mergeFull t = .ok t' ∧ eraseTriF t' = shiftFull (eraseTriF t) ∧ t'.total.frozen = false ∧
      t'.delta.frozen = t.new.frozen ∧ t'.new.frozen = false := by
  unfold mergeFull
  rw [h1, h2]
  exact ⟨_, rfl, rfl, h1, rfl, h2⟩

theorem mergeDyn_eq (d : PCDyn) :
    mergeDyn d = (mergeFull d.full >>= fun full =>
      foldRes (fun (done : List (List Nat × Tri PCx)) (ci : List Nat × Tri PCx) =>
        mergeIx ci.2 >>= fun t => pure (done ++ [(ci.1, t)])) d.idxs [] >>= fun idxs =>
      pure { d with full := full, idxs := idxs }) := rfl

/-- the bags after `merge_delta_to_total_new_to_delta` -/
def shiftD (d : Dyn) : Dyn := { d with total := d.total ++ d.delta, delta := d.new, new := [] }

theorem mergeDyn_ok {N : Nat} {d : PCDyn} (hf : DynFlags N false d) :
    ∃ d', mergeDyn d = .ok d' ∧ d'.rel = d.rel ∧ DynFlags N false d' ∧
      ∀ (ixr : List (List Nat)) (rows : List Tuple) (ad : Dyn), TriOk ixr rows ad d.erase.full d.erase.idxs →
        TriOk ixr rows (shiftD ad) d'.erase.full d'.erase.idxs := by
  obtain ⟨full', hfull, hfe, g1, g2, g3⟩ := mergeFull_ok d.full hf.ft hf.fd
  obtain ⟨idxs, hfold, hrel2⟩ := foldRes_collect (fun (ci : List Nat × Tri PCx) => mergeIx ci.2)
    (fun ci t => (ci.1, t))
    (fun ci ci' => ci'.1 = ci.1 ∧ Shape N ci'.1 ci'.2.total ∧ Shape N ci'.1 ci'.2.delta ∧ Shape N ci'.1 ci'.2.new ∧
      ci'.2.total.isFrozen = false ∧ ci'.2.delta.isFrozen = false ∧ ci'.2.new.isFrozen = false ∧
      ∀ (rows : List Tuple) (bt bd bn : List Nat), IxOk rows bt ci.1 ci.2.total.erase → IxOk rows bd ci.1 ci.2.delta.erase →
        IxOk rows bn ci.1 ci.2.new.erase →
        IxOk rows (bt ++ bd) ci'.1 ci'.2.total.erase ∧ IxOk rows bn ci'.1 ci'.2.delta.erase ∧
          IxOk rows [] ci'.1 ci'.2.new.erase)
    d.idxs (by
      intro ci hci
      obtain ⟨s1, s2, s3, f1, f2, f3⟩ := hf.ix ci hci
      obtain ⟨t', h1, h2, h3, h4, h5, h6, h7, h8⟩ := mergeIx_ok s1 s2 s3 f1 f2 f3
      exact ⟨t', h1, rfl, h2, h3, h4, h5, h6, h7, h8⟩)
  refine ⟨{ d with full := full', idxs := idxs }, ?_, rfl, ?_, ?_⟩
  · rw [mergeDyn_eq, hfull, bind_ok, hfold]; rfl
  · refine ⟨g1, by rw [g2]; exact hf.fn, g3, ?_⟩
    intro c' hc'
    obtain ⟨c, _, hq⟩ := hrel2.forall_right c' hc'
    exact ⟨hq.2.1, hq.2.2.1, hq.2.2.2.1, hq.2.2.2.2.1, hq.2.2.2.2.2.1, hq.2.2.2.2.2.2.1⟩
  · intro ixr rows ad tri
    have tft : FullOk rows ad.total (eraseTriF d.full).total := tri.ft
    have tfd : FullOk rows ad.delta (eraseTriF d.full).delta := tri.fd
    have tfn : FullOk rows ad.new (eraseTriF d.full).new := tri.fn
    obtain ⟨f1, f2, f3⟩ := FullOk_shift tft tfd tfn
    have hmem : ∀ c ∈ d.idxs, (c.1, eraseTri c.2) ∈ d.erase.idxs := fun c hc => List.mem_map.mpr ⟨c, hc, rfl⟩
    have hall : ∀ c' ∈ idxs, IxOk rows (ad.total ++ ad.delta) c'.1 c'.2.total.erase ∧ IxOk rows ad.new c'.1 c'.2.delta.erase ∧
        IxOk rows [] c'.1 c'.2.new.erase := by
      intro c' hc'
      obtain ⟨c, hc, hq⟩ := hrel2.forall_right c' hc'
      exact hq.2.2.2.2.2.2.2 rows _ _ _ (tri.it _ (hmem c hc)) (tri.id _ (hmem c hc)) (tri.inw _ (hmem c hc))
    refine ⟨?_, ?_, ?_, ?_, ?_, ?_, ?_⟩
    · show FullOk rows (ad.total ++ ad.delta) (eraseTriF full').total
      rw [hfe]; exact f1
    · show FullOk rows ad.new (eraseTriF full').delta
      rw [hfe]; exact f2
    · show FullOk rows [] (eraseTriF full').new
      rw [hfe, f3]; exact FullOk_nil _
    · show (idxs.map fun ci => (ci.1, eraseTri ci.2)).map (·.1) = _
      rw [← tri.cols]
      show _ = (d.idxs.map fun ci => (ci.1, eraseTri ci.2)).map (·.1)
      rw [List.map_map, List.map_map]
      exact (Rel2.map_eq _ _ (fun c c' hq => hq.1.symm) hrel2).symm
    · intro ci hci
      obtain ⟨c', hc', rfl⟩ := List.mem_map.mp hci
      exact (hall c' hc').1
    · intro ci hci
      obtain ⟨c', hc', rfl⟩ := List.mem_map.mp hci
      exact (hall c' hc').2.1
    · intro ci hci
      obtain ⟨c', hc', rfl⟩ := List.mem_map.mp hci
      exact (hall c' hc').2.2

theorem shiftPar_eq (s : PCScc) :
    shiftPar s = (foldRes (fun (done : List PCDyn) (d : PCDyn) => mergeDyn d >>= fun d' => pure (done ++ [d'])) s.dyn [] >>=
      fun dyn => pure { s with dyn := dyn }) := rfl

theorem shiftPar_sim {p : Program E B G P A} {ix : IxSets} {N : Nat} {bo : List RelId} {a : SccSt} {s : PCScc}
    (hsim : Sim p ix a s.erase) (hfl : Flags N bo false s) :
    ∃ s', shiftPar s = .ok s' ∧ Sim p ix (Engine.shift a) s'.erase ∧ Flags N bo false s' ∧ s'.changed = s.changed := by
  obtain ⟨dyn', hfold, hrel2⟩ := foldRes_collect mergeDyn (fun _ d' => d')
    (fun d d' => d'.rel = d.rel ∧ DynFlags N false d' ∧
      ∀ (ixr : List (List Nat)) (rows : List Tuple) (ad : Dyn), TriOk ixr rows ad d.erase.full d.erase.idxs →
        TriOk ixr rows (shiftD ad) d'.erase.full d'.erase.idxs)
    s.dyn (fun d hd => mergeDyn_ok (hfl.dyn d hd).1)
  refine ⟨{ s with dyn := dyn' }, by rw [shiftPar_eq, hfold]; rfl, ?_, ?_, rfl⟩
  · refine ⟨hsim.len, hsim.rows, hsim.changed, ?_, ?_, hsim.typed⟩
    · have h1 : Rel2 (fun (d : Dyn) (cd : PCDyn) => DynOk ix (fun r => (relSt a.rels r).rows) d cd.erase) a.dyn s.dyn :=
        Rel2.of_map_right PCDyn.erase hsim.dyn
      show Rel2 _ (a.dyn.map _) (dyn'.map PCDyn.erase)
      refine Rel2.map _ _ ?_ (h1.comp hrel2)
      rintro d cd' ⟨cd, hok, hq⟩
      refine ⟨by show cd'.rel = d.rel; rw [hq.1]; exact hok.rel, ?_⟩
      exact hq.2.2 _ _ d hok.tri
    · intro r hr hnd
      have hnd0 : findDyn a.dyn r = none := by
        rw [findDyn_shift, Option.map_eq_none_iff] at hnd; exact hnd
      exact hsim.nd r hr hnd0
  · refine ⟨?_, hfl.rels⟩
    intro d' hd'
    obtain ⟨d, hd, hq⟩ := hrel2.forall_right d' hd'
    exact ⟨hq.2.1, by rw [hq.1]; exact (hfl.dyn d hd).2⟩

/-! ## freezing and unfreezing `total` / `delta` around the rules of an iteration -/

theorem erase_freezeDyn (d : PCDyn) : (freezeDyn d).erase = d.erase := by
  show PDyn.mk _ _ _ = PDyn.mk _ _ _
  congr 1
  show (d.idxs.map _).map _ = d.idxs.map _
  rw [List.map_map]
  apply List.map_congr_left
  intro ci _
  simp [eraseTri]

theorem erase_unfreezeDyn (d : PCDyn) : (unfreezeDyn d).erase = d.erase := by
  show PDyn.mk _ _ _ = PDyn.mk _ _ _
  congr 1
  show (d.idxs.map _).map _ = d.idxs.map _
  rw [List.map_map]
  apply List.map_congr_left
  intro ci _
  simp [eraseTri]

theorem DynFlags_freeze {N : Nat} {d : PCDyn} (h : DynFlags N false d) : DynFlags N true (freezeDyn d) := by
  refine ⟨rfl, rfl, h.fn, ?_⟩
  intro ci hci
  obtain ⟨c, hc, rfl⟩ := List.mem_map.mp hci
  obtain ⟨s1, s2, s3, _, _, f3⟩ := h.ix c hc
  exact ⟨Shape_freeze s1, Shape_freeze s2, s3, isFrozen_freeze _, isFrozen_freeze _, f3⟩

theorem DynFlags_unfreeze {N : Nat} {d : PCDyn} (h : DynFlags N true d) : DynFlags N false (unfreezeDyn d) := by
  refine ⟨rfl, rfl, h.fn, ?_⟩
  intro ci hci
  obtain ⟨c, hc, rfl⟩ := List.mem_map.mp hci
  obtain ⟨s1, s2, s3, _, _, f3⟩ := h.ix c hc
  exact ⟨Shape_unfreeze s1, Shape_unfreeze s2, s3, isFrozen_unfreeze _, isFrozen_unfreeze _, f3⟩

theorem erase_freezeAll (s : PCScc) :
    PCScc.erase { s with dyn := s.dyn.map freezeDyn, changed := false } = { s.erase with changed := false } := by
  show PScc.mk _ _ _ = PScc.mk _ _ _
  congr 1
  show (s.dyn.map freezeDyn).map PCDyn.erase = s.dyn.map PCDyn.erase
  rw [List.map_map]
  exact List.map_congr_left fun d _ => erase_freezeDyn d

theorem erase_unfreezeAll (s : PCScc) : PCScc.erase { s with dyn := s.dyn.map unfreezeDyn } = s.erase := by
  show PScc.mk _ _ _ = PScc.mk _ _ _
  congr 1
  show (s.dyn.map unfreezeDyn).map PCDyn.erase = s.dyn.map PCDyn.erase
  rw [List.map_map]
  exact List.map_congr_left fun d _ => erase_unfreezeDyn d

theorem Flags_freezeAll {N : Nat} {bo : List RelId} {s : PCScc} (h : Flags N bo false s) :
    Flags N bo true { s with dyn := s.dyn.map freezeDyn, changed := false } := by
  refine ⟨?_, h.rels⟩
  intro d' hd'
  obtain ⟨d, hd, rfl⟩ := List.mem_map.mp hd'
  exact ⟨DynFlags_freeze (h.dyn d hd).1, (h.dyn d hd).2⟩

theorem Flags_unfreezeAll {N : Nat} {bo : List RelId} {s : PCScc} (h : Flags N bo true s) :
    Flags N bo false { s with dyn := s.dyn.map unfreezeDyn } := by
  refine ⟨?_, h.rels⟩
  intro d' hd'
  obtain ⟨d, hd, rfl⟩ := List.mem_map.mp hd'
  exact ⟨DynFlags_unfreeze (h.dyn d hd).1, (h.dyn d hd).2⟩


/-! ## SCC entry -/

/-- the relations the SCC only reads -/
def bodyOnly (p : Program E B G P A) (scc : List Nat) : List RelId :=
  ((sccRules p scc).flatMap Rule.bodyRels).filter fun r => !(dynRels p scc).contains r

theorem bodyOnly_dyn (p : Program E B G P A) (scc : List Nat) (r : RelId) (h : (dynRels p scc).contains r = true) :
    (bodyOnly p scc).contains r = false := by
  cases hb : (bodyOnly p scc).contains r with
  | false => rfl
  | true =>
    have := (List.mem_filter.mp (List.contains_iff_mem.mp hb)).2
    rw [h] at this
    cases this

theorem StFlags_pcrel {N : Nat} {s : PCSt} (hs : StFlags N s) (r : RelId) : RelFlags N false (pcrel s r) := by
  by_cases hr : r < s.length
  · exact hs _ (pcrel_mem s r hr)
  · rw [pcrel_of_ge _ _ (Nat.le_of_not_lt hr)]
    exact ⟨rfl, fun ci h => by cases h⟩

theorem enterScc_eq (threads : Nat) (p : Program E B G P A) (scc : List Nat) (s : PCSt) :
    enterScc threads p scc s =
      { rels := (List.range s.length).map fun r =>
          if (dynRels p scc).contains r then
            { pcrel s r with full := PCFull.new, idxs := (pcrel s r).idxs.map fun ci => (ci.1, PCx.new threads ci.1) }
          else if (bodyOnly p scc).contains r then
            { pcrel s r with full := (pcrel s r).full.freeze, idxs := (pcrel s r).idxs.map fun ci => (ci.1, ci.2.freeze) }
          else pcrel s r
        dyn := (dynRels p scc).map fun r =>
          { rel := r, full := { total := PCFull.new, delta := (pcrel s r).full, new := PCFull.new }
            idxs := (pcrel s r).idxs.map fun ci =>
              (ci.1, { total := PCx.new threads ci.1, delta := ci.2, new := PCx.new threads ci.1 }) }
        changed := false } := rfl

theorem erase_enterScc (threads : Nat) (p : Program E B G P A) (scc : List Nat) (s : PCSt) :
    (enterScc threads p scc s).erase = Phys.enterScc (s.map PCRel.erase) (dynRels p scc) := by
  rw [enterScc_eq]
  show PScc.mk _ _ _ = PScc.mk _ _ _
  congr 1
  · rw [List.map_map, List.length_map]
    apply List.map_congr_left
    intro r _
    show PCRel.erase _ = _
    rw [prel_erase]
    dsimp only
    by_cases hd : (dynRels p scc).contains r = true
    · rw [if_pos hd, if_pos hd]
      show PRel.mk _ _ _ = PRel.mk _ _ _
      congr 1
      show ((pcrel s r).idxs.map _).map _ = ((pcrel s r).idxs.map _).map _
      rw [List.map_map, List.map_map]
      apply List.map_congr_left
      intro ci _
      simp [erase_new]
    · rw [if_neg hd, if_neg hd]
      by_cases hb : (bodyOnly p scc).contains r = true
      · rw [if_pos hb]
        show PRel.mk _ _ _ = PRel.mk _ _ _
        congr 1
        show ((pcrel s r).idxs.map _).map _ = (pcrel s r).idxs.map _
        rw [List.map_map]
        apply List.map_congr_left
        intro ci _
        simp
      · rw [if_neg hb]
  · rw [List.map_map]
    apply List.map_congr_left
    intro r _
    show PCDyn.erase _ = _
    rw [prel_erase]
    show PDyn.mk _ _ _ = PDyn.mk _ _ _
    congr 1
    show ((pcrel s r).idxs.map _).map _ = ((pcrel s r).idxs.map _).map _
    rw [List.map_map, List.map_map]
    apply List.map_congr_left
    intro ci _
    simp [eraseTri, erase_new]

theorem Flags_enterScc (threads : Nat) (p : Program E B G P A) (scc : List Nat) (s : PCSt)
    (hs : StFlags (max threads 1) s) :
    Flags (max threads 1) (bodyOnly p scc) false (enterScc threads p scc s) := by
  rw [enterScc_eq]
  refine ⟨?_, ?_⟩
  · intro d hd
    obtain ⟨r, hr, rfl⟩ := List.mem_map.mp hd
    obtain ⟨g1, g2⟩ := StFlags_pcrel hs r
    refine ⟨⟨rfl, g1, rfl, ?_⟩, bodyOnly_dyn p scc r (List.contains_iff_mem.mpr hr)⟩
    intro ci hci
    obtain ⟨c, hc, rfl⟩ := List.mem_map.mp hci
    exact ⟨Shape_new _ _, (g2 c hc).1, Shape_new _ _, isFrozen_new _ _, (g2 c hc).2, isFrozen_new _ _⟩
  · intro r hr
    have hr' : r < s.length := by simpa using hr
    obtain ⟨g1, g2⟩ := StFlags_pcrel hs r
    simp only [pcrel_rangeMap _ _ _ hr']
    by_cases hd : (dynRels p scc).contains r = true
    · rw [if_pos hd, bodyOnly_dyn p scc r hd]
      refine ⟨rfl, ?_⟩
      intro ci hci
      obtain ⟨c, hc, rfl⟩ := List.mem_map.mp hci
      exact ⟨Shape_new _ _, isFrozen_new _ _⟩
    · rw [if_neg hd]
      by_cases hb : (bodyOnly p scc).contains r = true
      · rw [if_pos hb, hb]
        refine ⟨rfl, ?_⟩
        intro ci hci
        obtain ⟨c, hc, rfl⟩ := List.mem_map.mp hci
        exact ⟨Shape_freeze (g2 c hc).1, isFrozen_freeze _⟩
      · rw [if_neg hb]
        have hb' : (bodyOnly p scc).contains r = false := by simpa using hb
        rw [hb']
        exact ⟨g1, g2⟩

/-! ## SCC exit -/

def leaveStepPC (st : PCSt) (d : PCDyn) : PCSt :=
  setNth st d.rel { pcrel st d.rel with full := d.full.total, idxs := d.idxs.map fun ci => (ci.1, ci.2.total) }

theorem leaveScc_eq (p : Program E B G P A) (scc : List Nat) (s : PCScc) :
    leaveScc p scc s =
      (List.range (s.dyn.foldl leaveStepPC s.rels).length).map fun r =>
        if (bodyOnly p scc).contains r then
          { pcrel (s.dyn.foldl leaveStepPC s.rels) r with
            full := (pcrel (s.dyn.foldl leaveStepPC s.rels) r).full.unfreeze
            idxs := (pcrel (s.dyn.foldl leaveStepPC s.rels) r).idxs.map fun ci => (ci.1, ci.2.unfreeze) }
        else pcrel (s.dyn.foldl leaveStepPC s.rels) r := rfl

theorem leaveStep_erase (st : PCSt) (d : PCDyn) : (leaveStepPC st d).map PCRel.erase = leaveStepP (st.map PCRel.erase) d.erase := by
  unfold leaveStepPC leaveStepP
  rw [setNth_map]
  show setNth _ d.rel _ = setNth _ d.rel _
  congr 1
  rw [prel_erase]
  show PRel.mk _ _ _ = PRel.mk _ _ _
  congr 1
  show (d.idxs.map _).map _ = (d.idxs.map _).map _
  rw [List.map_map, List.map_map]
  rfl

theorem leaveFold_erase (dyn : List PCDyn) : ∀ (st : PCSt),
    (dyn.foldl leaveStepPC st).map PCRel.erase = (dyn.map PCDyn.erase).foldl leaveStepP (st.map PCRel.erase) := by
  induction dyn with
  | nil => intro st; rfl
  | cons d l ih =>
    intro st
    simp only [List.foldl_cons, List.map_cons]
    rw [ih, leaveStep_erase]

theorem erase_leaveScc (p : Program E B G P A) (scc : List Nat) (s : PCScc) :
    (leaveScc p scc s).map PCRel.erase = Phys.leaveScc s.erase := by
  rw [leaveScc_eq, physLeaveScc_eq]
  show _ = (s.dyn.map PCDyn.erase).foldl leaveStepP (s.rels.map PCRel.erase)
  rw [← leaveFold_erase]
  generalize s.dyn.foldl leaveStepPC s.rels = st
  apply List.ext_getElem
  · simp
  · intro i h1 h2
    have hi : i < st.length := by simpa using h2
    simp only [List.getElem_map, List.getElem_range]
    have hp : pcrel st i = st[i] := by
      simp [pcrel, List.getD_eq_getElem?_getD, List.getElem?_eq_getElem hi]
    rw [hp]
    split
    · show PRel.mk _ _ _ = PRel.mk _ _ _
      congr 1
      show (st[i].idxs.map _).map _ = st[i].idxs.map _
      rw [List.map_map]
      apply List.map_congr_left
      intro ci _
      simp
    · rfl

theorem leaveFold_flags {N : Nat} {bo : List RelId} (dyn : List PCDyn)
    (hd : ∀ d ∈ dyn, DynFlags N false d ∧ bo.contains d.rel = false) : ∀ (st : PCSt),
    (∀ r, r < st.length → RelFlags N (bo.contains r) (pcrel st r)) →
    (dyn.foldl leaveStepPC st).length = st.length ∧
      ∀ r, r < st.length → RelFlags N (bo.contains r) (pcrel (dyn.foldl leaveStepPC st) r) := by
  induction dyn with
  | nil => intro st h; exact ⟨rfl, h⟩
  | cons d l ih =>
    intro st h
    simp only [List.foldl_cons]
    have hlen : (leaveStepPC st d).length = st.length := by simp [leaveStepPC]
    obtain ⟨g1, g2⟩ := ih (fun x hx => hd x (List.mem_cons_of_mem _ hx)) (leaveStepPC st d) (by
      intro r hr
      rw [hlen] at hr
      by_cases hne : r = d.rel
      · subst hne
        simp only [leaveStepPC, pcrel_setNth_self _ _ _ hr]
        obtain ⟨hf, hb⟩ := hd d List.mem_cons_self
        rw [hb]
        refine ⟨hf.ft, ?_⟩
        intro ci hci
        obtain ⟨c, hc, rfl⟩ := List.mem_map.mp hci
        obtain ⟨s1, _, _, f1, _, _⟩ := hf.ix c hc
        exact ⟨s1, f1⟩
      · simp only [leaveStepPC, pcrel_setNth_ne _ _ _ _ hne]
        exact h r hr)
    exact ⟨by rw [g1, hlen], fun r hr => g2 r (by rw [hlen]; exact hr)⟩

theorem Flags_leaveScc {N : Nat} (p : Program E B G P A) (scc : List Nat) (s : PCScc)
    (hfl : Flags N (bodyOnly p scc) false s) :
    StFlags N (leaveScc p scc s) ∧ (leaveScc p scc s).length = s.rels.length := by
  obtain ⟨g1, g2⟩ := leaveFold_flags s.dyn hfl.dyn s.rels hfl.rels
  rw [leaveScc_eq]
  refine ⟨?_, by simp [g1]⟩
  intro pr hpr
  obtain ⟨r, hr, rfl⟩ := List.mem_map.mp hpr
  have hr' : r < s.rels.length := by rw [← g1]; exact List.mem_range.mp hr
  obtain ⟨f1, f2⟩ := g2 r hr'
  split
  · refine ⟨rfl, ?_⟩
    intro ci hci
    obtain ⟨c, hc, rfl⟩ := List.mem_map.mp hci
    exact ⟨Shape_unfreeze (f2 c hc).1, isFrozen_unfreeze _⟩
  · rename_i hb
    have hb' : (bodyOnly p scc).contains r = false := by simpa using hb
    rw [hb'] at f1 f2
    exact ⟨f1, f2⟩


/-! ## `update_indices` -/

theorem _root_.AscentVerif.Phys.Rel2.length_eq {α β : Type} {R : α → β → Prop} {l : List α} {l' : List β}
    (h : Rel2 R l l') : l.length = l'.length := by
  induction h with
  | nil => rfl
  | cons _ _ ih => simp only [List.length_cons, ih]

theorem _root_.AscentVerif.Phys.Rel2.get {α β : Type} {R : α → β → Prop} {l : List α} {l' : List β}
    (h : Rel2 R l l') : ∀ (i : Nat) (a : α) (b : β), l[i]? = some a → l'[i]? = some b → R a b := by
  induction h with
  | nil => intro i a b h1; simp at h1
  | cons h1 _ ih =>
    intro i a b ha hb
    cases i with
    | zero =>
      simp only [List.getElem?_cons_zero, Option.some.injEq] at ha hb
      subst ha; subst hb; exact h1
    | succ i =>
      simp only [List.getElem?_cons_succ] at ha hb
      exact ih i a b ha hb

theorem FullOk_insert {rows : List Tuple} {bag : List Nat} {m : FIx} (t : Tuple) (h : FullOk rows bag m)
    (hb : ∀ i ∈ bag, i < rows.length) : FullOk (rows ++ [t]) (bag ++ [rows.length]) (FullIdx.insert m t ()) := by
  obtain ⟨h1, h2⟩ := FullOk_rows_append t h hb
  obtain ⟨g1, g2⟩ := containsKey_foldl_insert [t] () m h1
  refine ⟨g1, fun u => ?_⟩
  have := g2 u
  simp only [List.foldl_cons, List.foldl_nil, List.mem_singleton] at this
  rw [this, mem_bagTuples', exists_mem_append_singleton bag rows.length (fun i => rowAt (rows ++ [t]) i = u),
    rowAt_length_append, ← mem_bagTuples', ← h2 u]
  constructor
  · rintro (h | h)
    · exact .inl h
    · exact .inr h.symm
  · rintro (h | h)
    · exact .inl h
    · exact .inr h.symm

/-- the indices only know the SET of rows they were built from -/
theorem FullOk_rows_congr {rows rows' : List Tuple} {m : FIx} (hm : ∀ t, t ∈ rows ↔ t ∈ rows')
    (h : FullOk rows (List.range rows.length) m) : FullOk rows' (List.range rows'.length) m := by
  refine ⟨h.1, fun t => ?_⟩
  rw [h.2 t, mem_bagTuples_range, mem_bagTuples_range, hm t]

theorem exists_range_rowAt (rows : List Tuple) (P : Tuple → Prop) :
    (∃ i ∈ List.range rows.length, P (rowAt rows i)) ↔ ∃ t ∈ rows, P t := by
  constructor
  · rintro ⟨i, hi, h⟩
    exact ⟨_, rowAt_mem rows i (List.mem_range.mp hi), h⟩
  · rintro ⟨t, ht, h⟩
    obtain ⟨i, hi, rfl⟩ := (mem_iff_rowAt rows t).mp ht
    exact ⟨i, List.mem_range.mpr hi, h⟩

theorem IxOk_rows_congr {rows rows' : List Tuple} {cols : List Nat} {m : PIx} (hm : ∀ t, t ∈ rows ↔ t ∈ rows')
    (h : IxOk rows (List.range rows.length) cols m) : IxOk rows' (List.range rows'.length) cols m := by
  refine ⟨h.1, h.2.1, fun k x => ?_⟩
  rw [h.2.2 k x, exists_range_rowAt rows (fun t => k = Plan.proj cols t ∧ x = projC cols t),
    exists_range_rowAt rows' (fun t => k = Plan.proj cols t ∧ x = projC cols t)]
  constructor
  · rintro ⟨t, ht, h⟩; exact ⟨t, (hm t).mp ht, h⟩
  · rintro ⟨t, ht, h⟩; exact ⟨t, (hm t).mpr ht, h⟩

/-- the loop body of `update_indices` -/
def insRow (σ : Sched E B G P A) (acc : PCFull × List (List Nat × PCx) × Nat) (row : Tuple) :
    Res (PCFull × List (List Nat × PCx) × Nat) :=
  acc.1.insert row >>= fun full =>
  foldRes (fun (done : List (List Nat × PCx)) (ci : List Nat × PCx) =>
    ci.2.insert (σ.tid acc.2.2) (Plan.proj ci.1 row) (projC ci.1 row) >>= fun x => pure (done ++ [(ci.1, x)])) acc.2.1 [] >>=
  fun idxs => pure (full, idxs, acc.2.2 + 1)

theorem updateRel_eq (threads : Nat) (σ : Sched E B G P A) (k : Nat) (ixr : List (List Nat)) (rows : List Tuple) :
    updateRel threads σ k ixr rows =
      (foldRes (insRow σ) (σ.permRows k rows) (PCFull.new, ixr.map fun c => (c, PCx.new threads c), k * 1000003)).map
        fun acc => ⟨rows, acc.1, acc.2.1⟩ := rfl

theorem updateRel_ok (threads : Nat) (σ : Sched E B G P A) (k : Nat) (ixr : List (List Nat)) (rows : List Tuple) :
    ∃ pr, updateRel threads σ k ixr rows = .ok pr ∧ pr.rows = rows ∧ RelFlags (max threads 1) false pr ∧
      VerOk ixr rows (List.range rows.length) pr.erase.full pr.erase.idxs := by
  have hN : 0 < max threads 1 := by omega
  obtain ⟨acc, hfold, hf, hfull, hcols, hidx⟩ := foldRes_inv (insRow σ)
    (fun done (acc : PCFull × List (List Nat × PCx) × Nat) => acc.1.frozen = false ∧
      FullOk done (List.range done.length) acc.1.m ∧ acc.2.1.map (·.1) = ixr ∧
      ∀ ci ∈ acc.2.1, Shape (max threads 1) ci.1 ci.2 ∧ ci.2.isFrozen = false ∧
        IxOk done (List.range done.length) ci.1 ci.2.erase)
    (σ.permRows k rows) (by
      intro done acc row _ hinv
      obtain ⟨hf, hfull, hcols, hidx⟩ := hinv
      have hb : ∀ i ∈ List.range done.length, i < done.length := fun i hi => List.mem_range.mp hi
      obtain ⟨idxs, hfold, hrel2⟩ := foldRes_collect
        (fun (ci : List Nat × PCx) => ci.2.insert (σ.tid acc.2.2) (Plan.proj ci.1 row) (projC ci.1 row))
        (fun ci x => (ci.1, x))
        (fun ci ci' => ci'.1 = ci.1 ∧ Shape (max threads 1) ci'.1 ci'.2 ∧ ci'.2.isFrozen = false ∧
          IxOk (done ++ [row]) (List.range done.length ++ [done.length]) ci'.1 ci'.2.erase)
        acc.2.1 (by
          intro ci hci
          obtain ⟨s1, f1, i1⟩ := hidx ci hci
          obtain ⟨x', h1, h2, h3, h4⟩ := PCx_insert_ok hN s1 f1 i1 hb (σ.tid acc.2.2) row
          exact ⟨x', h1, rfl, h2, h3, h4⟩)
      refine ⟨(⟨false, FullIdx.insert acc.1.m row ()⟩, idxs, acc.2.2 + 1), ?_, rfl, ?_, ?_, ?_⟩
      · have e1 : acc.1.insert row = .ok ⟨false, FullIdx.insert acc.1.m row ()⟩ := by
          unfold PCFull.insert; rw [hf]; rfl
        unfold insRow
        rw [e1, bind_ok, hfold]; rfl
      · rw [List.length_append, List.length_singleton, List.range_succ]
        exact FullOk_insert row hfull hb
      · rw [← hcols]
        exact (Rel2.map_eq _ _ (fun c c' hq => hq.1.symm) hrel2).symm
      · intro c' hc'
        obtain ⟨c, _, hq⟩ := hrel2.forall_right c' hc'
        rw [List.length_append, List.length_singleton, List.range_succ]
        exact ⟨hq.2.1, hq.2.2.1, hq.2.2.2⟩)
    (PCFull.new, ixr.map fun c => (c, PCx.new threads c), k * 1000003)
    ⟨rfl, FullOk_nil _, by rw [List.map_map]; exact List.map_id _, by
      intro ci hci
      obtain ⟨c, _, rfl⟩ := List.mem_map.mp hci
      refine ⟨Shape_new _ _, isFrozen_new _ _, ?_⟩
      show IxOk [] [] c (PCx.new threads c).erase
      rw [erase_new]; exact IxOk_nil _ _⟩
  have hm : ∀ t, t ∈ σ.permRows k rows ↔ t ∈ rows := fun t => (σ.permRows_perm k rows).mem_iff
  refine ⟨⟨rows, acc.1, acc.2.1⟩, by rw [updateRel_eq, hfold]; rfl, rfl, ⟨hf, fun ci hci => ⟨(hidx ci hci).1, (hidx ci hci).2.1⟩⟩,
    FullOk_rows_congr hm hfull, ?_, ?_⟩
  · show (acc.2.1.map fun ci => (ci.1, ci.2.erase)).map (·.1) = ixr
    rw [List.map_map, ← hcols]; rfl
  · intro ci hci
    obtain ⟨c, hc, rfl⟩ := List.mem_map.mp hci
    exact IxOk_rows_congr hm (hidx c hc).2.2

theorem updateIndices_eq (threads : Nat) (σ : Sched E B G P A) (ix : IxSets) (s : PCSt) :
    updateIndices threads σ ix s =
      foldRes (fun (done : PCSt) (r : Nat) => updateRel threads σ r (ix r) (pcrel s r).rows >>= fun pr => pure (done ++ [pr]))
        (List.range s.length) [] := rfl

theorem updateIndices_ok (threads : Nat) (σ : Sched E B G P A) (ix : IxSets) (s : PCSt) :
    ∃ st, updateIndices threads σ ix s = .ok st ∧ st.length = s.length ∧ StFlags (max threads 1) st ∧
      ∀ r, r < s.length → (pcrel st r).rows = (pcrel s r).rows ∧
        VerOk (ix r) (pcrel s r).rows (List.range (pcrel s r).rows.length) (pcrel st r).erase.full (pcrel st r).erase.idxs := by
  obtain ⟨st, hfold, hrel2⟩ := foldRes_collect (fun r => updateRel threads σ r (ix r) (pcrel s r).rows) (fun _ pr => pr)
    (fun r pr => pr.rows = (pcrel s r).rows ∧ RelFlags (max threads 1) false pr ∧
      VerOk (ix r) (pcrel s r).rows (List.range (pcrel s r).rows.length) pr.erase.full pr.erase.idxs)
    (List.range s.length) (fun r _ => updateRel_ok threads σ r (ix r) (pcrel s r).rows)
  have hlen : st.length = s.length := by rw [← hrel2.length_eq, List.length_range]
  refine ⟨st, by rw [updateIndices_eq, hfold], hlen, ?_, ?_⟩
  · intro pr hpr
    obtain ⟨r, _, hq⟩ := hrel2.forall_right pr hpr
    exact hq.2.1
  · intro r hr
    have hr' : r < st.length := by rw [hlen]; exact hr
    have hq := hrel2.get r r (pcrel st r) (List.getElem?_range hr) (by
      simp [pcrel, List.getD_eq_getElem?_getD, List.getElem?_eq_getElem hr'])
    exact ⟨hq.1, hq.2.2⟩

theorem updateIndices_simSt (p : Program E B G P A) (threads : Nat) (σ : Sched E B G P A) (ix : IxSets) (s : PCSt)
    (hty : ∀ r, ∀ t ∈ (pcrel s r).rows, t.length = arityOf p r) :
    ∃ st, updateIndices threads σ ix s = .ok st ∧ st.length = s.length ∧ StFlags (max threads 1) st ∧
      SimSt p ix (Engine.updateIndices (absSt (s.map PCRel.erase))) (st.map PCRel.erase) := by
  obtain ⟨st, h1, h2, h3, h4⟩ := updateIndices_ok threads σ ix s
  refine ⟨st, h1, h2, h3, ?_⟩
  have hrows : ∀ r, (relSt (absSt (s.map PCRel.erase)) r).rows = (pcrel s r).rows := by
    intro r; rw [relSt_absSt, prel_erase]; rfl
  refine ⟨by simp [Engine.updateIndices, absSt, h2], ?_, ?_, ?_⟩
  · intro r
    rw [relSt_updateIndices, prel_erase, hrows]
    by_cases hr : r < s.length
    · exact (h4 r hr).1.symm
    · have hr' : s.length ≤ r := Nat.le_of_not_lt hr
      rw [pcrel_of_ge _ _ hr', pcrel_of_ge _ _ (by rw [h2]; exact hr')]
      rfl
  · intro r hr
    have hr' : r < s.length := by simpa [Engine.updateIndices, absSt] using hr
    rw [relSt_updateIndices, prel_erase, hrows]
    exact (h4 r hr').2
  · intro r t ht
    rw [relSt_updateIndices, hrows] at ht
    exact hty r t ht

end AscentVerif.PhysPar
