import AscentVerif.Proofs.TrRelCollapseStep
/-!
# `merge_multiple`, statement by statement

* `Fix`: the effect of one of the four "fix the (reverse) connections" loops on the stored
  relation: for every `z` selected by `cond`, the entry of `z` loses `in_between` and `to` and gains
  `from`; other entries are untouched.
* `mergeAbsorb_spec`: the absorbing loop (sets, subsumptions, removal of the absorbed keys).
* `mergeMultiple_spec`: the whole function never panics under explicit side conditions, and its
  result is described exactly (`MergePost`).
-/
namespace AscentVerif.TrRel
open TrRel (getDominantIdAux getDominantIdMutAux)

/-- the relation stored after one fixing loop -/
def Fix (cond M : Nat → Prop) (X Y : Nat) (r : Nat → Nat → Prop) (z w : Nat) : Prop :=
  (cond z ∧ ((r z w ∧ ¬ M w ∧ w ≠ Y) ∨ w = X)) ∨ (¬ cond z ∧ r z w)

/-- one step of a fixing loop on a map -/
def fixStep (upd : NSet → NSet) (m : NMap) (z : Nat) : NMap :=
  alSet (entryOrDefault m z).1 z (upd (entryOrDefault m z).2)

theorem rel_fixStep (upd : NSet → NSet) (m : NMap) (z a w : Nat) :
    rel (fixStep upd m z) a w ↔ if z = a then w ∈ upd ((alGet m z).getD []) else rel m a w := by
  unfold fixStep
  rw [rel_alSet, entryOrDefault_snd]
  by_cases h : z = a
  · simp [h]
  · simp only [if_neg h, rel_entryOrDefault]

theorem rel_foldl_fixStep {upd : NSet → NSet} {K : Nat → Prop} {frm : Nat}
    (hupd : ∀ s w, w ∈ upd s ↔ (w ∈ s ∧ K w) ∨ w = frm) (l : List Nat) (m : NMap) (a w : Nat) :
    rel (l.foldl (fixStep upd) m) a w ↔ (a ∈ l ∧ ((rel m a w ∧ K w) ∨ w = frm)) ∨ (a ∉ l ∧ rel m a w) := by
  induction l generalizing m with
  | nil => simp
  | cons z rest ih =>
    simp only [List.foldl_cons, ih, rel_fixStep, hupd, List.mem_cons]
    have hm : ∀ w, w ∈ (alGet m z).getD [] ↔ rel m z w := by
      intro w; unfold rel
      cases alGet m z <;> simp
    by_cases hz : z = a
    · subst hz
      simp only [if_true, hm, true_or, true_and, not_true_eq_false, false_and, or_false]
      by_cases hr : z ∈ rest
      · simp only [hr, true_and, not_true_eq_false, false_and, or_false]
        constructor
        · rintro (⟨h | h, hk⟩ | h)
          · exact Or.inl h
          · exact Or.inr h
          · exact Or.inr h
        · rintro (⟨h, hk⟩ | h)
          · exact Or.inl ⟨Or.inl ⟨h, hk⟩, hk⟩
          · exact Or.inr h
      · simp [hr]
    · have hz' : ¬ a = z := fun e => hz e.symm
      simp only [if_neg hz, hz', false_or]

theorem mapOk_fixStep {m : NMap} (h : MapOk m) {upd : NSet → NSet} (hupd : ∀ s, s.Nodup → (upd s).Nodup) (z : Nat) :
    MapOk (fixStep upd m z) := by
  unfold fixStep
  exact (h.orDefault z).1.alSet _ (hupd _ (h.orDefault z).2)

theorem mapOk_foldl_fixStep {m : NMap} (h : MapOk m) {upd : NSet → NSet} (hupd : ∀ s, s.Nodup → (upd s).Nodup) (l : List Nat) :
    MapOk (l.foldl (fixStep upd) m) := by
  induction l generalizing m with
  | nil => exact h
  | cons z rest ih => simp only [List.foldl_cons]; exact ih (mapOk_fixStep h hupd z)

theorem isSome_fixStep {m : NMap} {k : Nat} (h : (alGet m k).isSome = true) (upd : NSet → NSet) (z : Nat) :
    (alGet (fixStep upd m z) k).isSome = true := by
  unfold fixStep
  rw [alGet_alSet]
  split
  · rfl
  · cases hk : alGet m k with
    | none => simp [hk] at h
    | some s => rw [alGet_entryOrDefault_of_some z hk]; rfl

theorem isSome_foldl_fixStep {m : NMap} {k : Nat} (h : (alGet m k).isSome = true) (upd : NSet → NSet) (l : List Nat) :
    (alGet (l.foldl (fixStep upd) m) k).isSome = true := by
  induction l generalizing m with
  | nil => exact h
  | cons z rest ih => simp only [List.foldl_cons]; exact ih (isSome_fixStep h upd z)

/-- the set update of the forward loop -/
def updFwd (frm to : Nat) (ib : NSet) (s : NSet) : NSet := (nsInsert (nsRemove (keepDifference s ib) to) frm).1
/-- the set update of the backward loop -/
def updBwd (frm to : Nat) (ib : NSet) (s : NSet) : NSet := nsRemove (nsInsert (keepDifference s ib) frm).1 to

theorem nodup_updFwd (frm to : Nat) (ib : NSet) (s : NSet) (h : s.Nodup) : (updFwd frm to ib s).Nodup :=
  nodup_nsInsert (nodup_nsRemove (nodup_keepDifference h ib) to) frm

theorem nodup_updBwd (frm to : Nat) (ib : NSet) (s : NSet) (h : s.Nodup) : (updBwd frm to ib s).Nodup :=
  nodup_nsRemove (nodup_nsInsert (nodup_keepDifference h ib) frm) to

theorem mem_updFwd (frm to : Nat) (ib s : NSet) (w : Nat) :
    w ∈ updFwd frm to ib s ↔ (w ∈ s ∧ (w ∉ ib ∧ w ≠ to)) ∨ w = frm := by
  unfold updFwd
  rw [mem_nsInsert, mem_nsRemove, mem_keepDifference]
  constructor
  · rintro (⟨⟨h1, h2⟩, h3⟩ | h)
    · exact Or.inl ⟨h1, h2, h3⟩
    · exact Or.inr h
  · rintro (⟨h1, h2, h3⟩ | h)
    · exact Or.inl ⟨⟨h1, h2⟩, h3⟩
    · exact Or.inr h

theorem mem_updBwd {frm to : Nat} (hne : frm ≠ to) (ib s : NSet) (w : Nat) :
    w ∈ updBwd frm to ib s ↔ (w ∈ s ∧ (w ∉ ib ∧ w ≠ to)) ∨ w = frm := by
  unfold updBwd
  rw [mem_nsRemove, mem_nsInsert, mem_keepDifference]
  constructor
  · rintro ⟨⟨h1, h2⟩ | h, h3⟩
    · exact Or.inl ⟨h1, h2, h3⟩
    · exact Or.inr h
  · rintro (⟨h1, h2, h3⟩ | h)
    · exact ⟨Or.inl ⟨h1, h2⟩, h3⟩
    · exact ⟨Or.inr h, by rw [h]; exact hne⟩

theorem mergeFixForward_eq (t : TrRel) (s frm to : Nat) (ib : NSet) :
    t.mergeFixForward s frm to ib =
      { t with rconn := (nsDiff ((alGet t.conn s).getD []) ib).foldl (fixStep (updFwd frm to ib)) t.rconn } := by
  unfold TrRel.mergeFixForward
  cases h : alGet t.conn s with
  | none => simp [nsDiff]
  | some sConn =>
    simp only [Option.getD_some]
    generalize nsDiff sConn ib = l
    induction l generalizing t with
    | nil => rfl
    | cons z rest ih =>
      simp only [List.foldl_cons]
      have := ih { t with rconn := fixStep (updFwd frm to ib) t.rconn z } (by exact h)
      simp only at this
      rw [← this]
      rfl

theorem mergeFixBackward_eq (t : TrRel) (s frm to : Nat) (ib : NSet) :
    t.mergeFixBackward s frm to ib =
      { t with conn := (nsDiff ((alGet t.rconn s).getD []) ib).foldl (fixStep (updBwd frm to ib)) t.conn } := by
  unfold TrRel.mergeFixBackward
  cases h : alGet t.rconn s with
  | none => simp [nsDiff]
  | some sRev =>
    simp only [Option.getD_some]
    generalize nsDiff sRev ib = l
    induction l generalizing t with
    | nil => rfl
    | cons z rest ih =>
      simp only [List.foldl_cons]
      have := ih { t with conn := fixStep (updBwd frm to ib) t.conn z } (by exact h)
      simp only at this
      rw [← this]
      rfl

theorem mem_getD_iff (m : NMap) (s z : Nat) : z ∈ (alGet m s).getD [] ↔ rel m s z := by
  unfold rel
  cases alGet m s <;> simp

theorem rel_mergeFixForward (t : TrRel) (s frm to : Nat) (ib : NSet) (z w : Nat) :
    rel (t.mergeFixForward s frm to ib).rconn z w ↔
      Fix (fun z => rel t.conn s z ∧ z ∉ ib) (· ∈ ib) frm to (rel t.rconn) z w := by
  rw [mergeFixForward_eq]
  simp only
  rw [rel_foldl_fixStep (mem_updFwd frm to ib), mem_nsDiff, mem_getD_iff]
  rfl

theorem rel_mergeFixBackward (t : TrRel) {frm to : Nat} (hne : frm ≠ to) (s : Nat) (ib : NSet) (z w : Nat) :
    rel (t.mergeFixBackward s frm to ib).conn z w ↔
      Fix (fun z => rel t.rconn s z ∧ z ∉ ib) (· ∈ ib) frm to (rel t.conn) z w := by
  rw [mergeFixBackward_eq]
  simp only
  rw [rel_foldl_fixStep (mem_updBwd hne ib), mem_nsDiff, mem_getD_iff]
  rfl


/-! ## the absorbing loop -/

structure AbsorbPost (t u : TrRel) (frm : Nat) (l : List Nat) : Prop where
  len : u.sets.length = t.sets.length
  mem : ∀ d v, Mem u d v ↔ (d = frm ∧ (Mem t frm v ∨ ∃ s ∈ l, Mem t s v)) ∨ (d ≠ frm ∧ d ∉ l ∧ Mem t d v)
  subs_get : ∀ j, alGet u.subs j = if j ∈ l then some frm else alGet t.subs j
  forest : (∀ j, ∃ e, getDominantIdAux t.subs j (t.subs.length + 1) = .ok e) →
    ∀ j, ∃ e, getDominantIdAux u.subs j (u.subs.length + 1) = .ok e
  conn : ∀ a b, rel u.conn a b ↔ a ∉ l ∧ rel t.conn a b
  rconn : ∀ a b, rel u.rconn a b ↔ a ∉ l ∧ rel t.rconn a b
  elemIds : u.elemIds = t.elemIds
  keys : KeysOk t → KeysOk u
  sets_nodup : (∀ (d : Nat) (s : List Int), t.sets[d]? = some s → s.Nodup) → ∀ (d : Nat) (s : List Int), u.sets[d]? = some s → s.Nodup
  conn_key : ∀ k, k ∉ l → (alGet t.conn k).isSome = true → (alGet u.conn k).isSome = true
  rconn_key : ∀ k, k ∉ l → (alGet t.rconn k).isSome = true → (alGet u.rconn k).isSome = true

theorem absorbPost_nil (t : TrRel) (frm : Nat) : AbsorbPost t t frm [] := by
  refine ⟨rfl, ?_, by simp, fun h => h, by simp, by simp, rfl, fun h => h, fun h => h, fun _ _ h => h, fun _ _ h => h⟩
  intro d v
  by_cases hd : d = frm
  · subst hd; simp
  · simp [hd]

/-- the state after absorbing one set -/
def absorbOne (t : TrRel) (s frm : Nat) (fS sT : List Int) : TrRel :=
  { t with conn := alRemove t.conn s, rconn := alRemove t.rconn s,
           sets := setNth (setNth t.sets s []) frm (mergeSets fS sT), subs := alSet t.subs s frm }

theorem absorbPost_step {t : TrRel} {s frm : Nat} {sT fS : List Int} (hs : s ≠ frm) (hsT : t.sets[s]? = some sT)
    (hfS : t.sets[frm]? = some fS) (hdom : alGet t.subs s = none ∨ alGet t.subs s = some frm)
    (hfrm : alGet t.subs frm = none) : AbsorbPost t (absorbOne t s frm fS sT) frm [s] := by
  unfold absorbOne
  have hflt : frm < t.sets.length := (List.getElem?_eq_some_iff.mp hfS).1
  have hslt : s < t.sets.length := (List.getElem?_eq_some_iff.mp hsT).1
  refine ⟨by simp [setNth], ?_, ?_, ?_, ?_, ?_, rfl, fun h => ⟨h.1.alRemove s, h.2.alRemove s⟩, ?_, ?_, ?_⟩
  rotate_left 5
  · intro hn d s' hs'
    simp only [setNth, List.getElem?_set, List.length_set] at hs'
    by_cases hd : frm = d
    · rw [if_pos hd, if_pos hflt] at hs'; cases hs'
      exact nodup_mergeSets (hn _ _ hfS) (hn _ _ hsT)
    · rw [if_neg hd] at hs'
      by_cases hsd : s = d
      · rw [if_pos hsd, if_pos hslt] at hs'; cases hs'; exact List.nodup_nil
      · rw [if_neg hsd] at hs'; exact hn d s' hs'
  rotate_right 5
  · intro d v
    unfold Mem
    simp only [setNth, List.getElem?_set, List.length_set]
    by_cases hd : frm = d
    · subst hd
      simp only [if_true, hflt, Option.some.injEq, exists_eq_left', mem_mergeSets, hfS, hsT, List.mem_singleton,
        exists_eq_left, true_and, ne_eq, not_true_eq_false, false_and, or_false]
    · have hd' : ¬ d = frm := fun e => hd e.symm
      simp only [if_neg hd, hd', false_and, ne_eq, not_false_eq_true, List.mem_singleton, true_and, false_or]
      by_cases hsd : s = d
      · subst hsd; simp [hslt]
      · have hsd' : ¬ d = s := fun e => hsd e.symm
        simp [hsd, hsd']
  · intro j
    show alGet (alSet t.subs s frm) j = _
    rw [alGet_alSet]
    by_cases hj : s = j
    · subst hj; simp
    · have : ¬ j = s := fun e => hj e.symm
      simp [hj, this]
  · intro hforest j
    obtain ⟨e, he⟩ := hforest j
    show ∃ e, getDominantIdAux (alSet t.subs s frm) j ((alSet t.subs s frm).length + 1) = .ok e
    rcases hdom with hn | hsome
    · rw [alSet_length_of_none _ hn]
      exact ⟨_, aux_absorb_step hn hfrm hs he⟩
    · rw [alSet_length_of_some _ hsome]
      refine ⟨e, ?_⟩
      rw [aux_congr (s := t.subs)]
      · exact he
      · intro j'
        rw [alGet_alSet]
        by_cases hj : s = j'
        · subst hj; simp [hsome]
        · simp [hj]
  · intro a b
    show rel (alRemove t.conn s) a b ↔ _
    rw [rel_alRemove]; simp
  · intro a b
    show rel (alRemove t.rconn s) a b ↔ _
    rw [rel_alRemove]; simp
  · intro k hk h
    show (alGet (alRemove t.conn s) k).isSome = true
    rw [alGet_alRemove, if_neg (by intro e; subst e; simp at hk)]; exact h
  · intro k hk h
    show (alGet (alRemove t.rconn s) k).isSome = true
    rw [alGet_alRemove, if_neg (by intro e; subst e; simp at hk)]; exact h

theorem AbsorbPost.cons {t t1 u : TrRel} {s frm : Nat} {rest : List Nat} (hs : s ≠ frm) (hrest : ∀ s' ∈ rest, s' ≠ frm)
    (P1 : AbsorbPost t t1 frm [s]) (P2 : AbsorbPost t1 u frm rest) : AbsorbPost t u frm (s :: rest) := by
  refine ⟨P2.len.trans P1.len, ?_, ?_, fun h => P2.forest (P1.forest h), ?_, ?_, P2.elemIds.trans P1.elemIds,
    fun h => P2.keys (P1.keys h), fun h => P2.sets_nodup (P1.sets_nodup h), ?_, ?_⟩
  · intro d v
    rw [P2.mem]
    have h1 : ∀ d, Mem t1 d v ↔ (d = frm ∧ (Mem t frm v ∨ Mem t s v)) ∨ (d ≠ frm ∧ d ≠ s ∧ Mem t d v) := by
      intro d; rw [P1.mem]; simp
    by_cases hd : d = frm
    · subst hd
      simp only [true_and, ne_eq, not_true_eq_false, false_and, or_false, List.mem_cons, exists_eq_or_imp]
      rw [h1 d]
      simp only [true_and, ne_eq, not_true_eq_false, false_and, or_false]
      constructor
      · rintro ((h | h) | ⟨s', hs', h⟩)
        · exact Or.inl h
        · exact Or.inr (Or.inl h)
        · rcases (h1 s').mp h with ⟨e, _⟩ | ⟨_, _, h⟩
          · exact absurd e (hrest s' hs')
          · exact Or.inr (Or.inr ⟨s', hs', h⟩)
      · rintro (h | h | ⟨s', hs', h⟩)
        · exact Or.inl (Or.inl h)
        · exact Or.inl (Or.inr h)
        · by_cases e : s' = s
          · subst e; exact Or.inl (Or.inr h)
          · exact Or.inr ⟨s', hs', (h1 s').mpr (Or.inr ⟨hrest s' hs', e, h⟩)⟩
    · simp only [hd, false_and, ne_eq, not_false_eq_true, true_and, false_or, List.mem_cons, not_or]
      rw [h1 d]
      simp only [hd, false_and, ne_eq, not_false_eq_true, true_and, false_or]
      constructor
      · rintro ⟨h1, h2, h3⟩; exact ⟨⟨h2, h1⟩, h3⟩
      · rintro ⟨⟨h2, h1⟩, h3⟩; exact ⟨h1, h2, h3⟩
  · intro j
    rw [P2.subs_get, P1.subs_get]
    by_cases h1 : j ∈ rest
    · simp [h1]
    · by_cases h2 : j = s
      · simp [h2]
      · simp [h1, h2]
  · intro a b
    rw [P2.conn, P1.conn]
    constructor
    · rintro ⟨h1, h2, h3⟩
      refine ⟨fun h => ?_, h3⟩
      rcases List.mem_cons.mp h with e | e
      · exact h2 (by simp [e])
      · exact h1 e
    · rintro ⟨h, h3⟩
      exact ⟨fun e => h (List.mem_cons_of_mem _ e), fun e => h (by simp at e; simp [e]), h3⟩
  · intro a b
    rw [P2.rconn, P1.rconn]
    constructor
    · rintro ⟨h1, h2, h3⟩
      refine ⟨fun h => ?_, h3⟩
      rcases List.mem_cons.mp h with e | e
      · exact h2 (by simp [e])
      · exact h1 e
    · rintro ⟨h, h3⟩
      exact ⟨fun e => h (List.mem_cons_of_mem _ e), fun e => h (by simp at e; simp [e]), h3⟩
  · intro k hk h
    simp only [List.mem_cons, not_or] at hk
    exact P2.conn_key k hk.2 (P1.conn_key k (by simp [hk.1]) h)
  · intro k hk h
    simp only [List.mem_cons, not_or] at hk
    exact P2.rconn_key k hk.2 (P1.rconn_key k (by simp [hk.1]) h)

/-- the absorbing loop never panics on valid, different-from-`frm` ids that are dominant (or
already absorbed by `frm`), and its result is as described -/
theorem mergeAbsorb_spec {frm : Nat} (l : List Nat) (t : TrRel) (hl : ∀ s ∈ l, s ≠ frm ∧ s < t.sets.length)
    (hf : frm < t.sets.length) (hdom : ∀ s ∈ l, alGet t.subs s = none ∨ alGet t.subs s = some frm)
    (hfrm : alGet t.subs frm = none) : ∃ u, t.mergeAbsorb frm l = .ok u ∧ AbsorbPost t u frm l := by
  induction l generalizing t with
  | nil => exact ⟨t, rfl, absorbPost_nil t frm⟩
  | cons s rest ih =>
    obtain ⟨hs, hslt⟩ := hl s (List.mem_cons_self ..)
    have hsT : t.sets[s]? = some t.sets[s] := List.getElem?_eq_getElem hslt
    have hfS : t.sets[frm]? = some t.sets[frm] := List.getElem?_eq_getElem hf
    have P1 := absorbPost_step hs hsT hfS (hdom s (List.mem_cons_self ..)) hfrm
    have hfS' : (setNth t.sets s [])[frm]? = some t.sets[frm] := by
      simp only [setNth, List.getElem?_set, if_neg hs]; exact hfS
    unfold TrRel.mergeAbsorb
    simp only [if_neg (Ne.symm hs), hsT, hfS', unwrap, Res.bind_ok]
    show ∃ u, (absorbOne t s frm t.sets[frm] t.sets[s]).mergeAbsorb frm rest = .ok u ∧ _
    have hlen1 : (absorbOne t s frm t.sets[frm] t.sets[s]).sets.length = t.sets.length := P1.len
    obtain ⟨u, hu, P2⟩ := ih (absorbOne t s frm t.sets[frm] t.sets[s]) (fun s' hs' => by rw [hlen1]; exact hl s' (List.mem_cons_of_mem _ hs')) (by rw [hlen1]; exact hf)
      (fun s' hs' => by
        rw [P1.subs_get]
        by_cases e : s' ∈ [s]
        · simp [e]
        · simp only [e, if_false]; exact hdom s' (List.mem_cons_of_mem _ hs'))
      (by rw [P1.subs_get]; simp [Ne.symm hs, hfrm])
    exact ⟨u, hu, AbsorbPost.cons hs (fun s' hs' => (hl s' (List.mem_cons_of_mem _ hs')).1) P1 P2⟩


/-! ## the whole of `merge_multiple` -/

theorem Fix_congr {cond cond' M : Nat → Prop} {X Y : Nat} {r r' : Nat → Nat → Prop} (hc : ∀ z, cond z ↔ cond' z)
    (hr : ∀ z w, r z w ↔ r' z w) (z w : Nat) : Fix cond M X Y r z w ↔ Fix cond' M X Y r' z w := by
  unfold Fix; rw [hc, hr]

def R4 (c3 r3 : Nat → Nat → Prop) (M : Nat → Prop) (X Y : Nat) : Nat → Nat → Prop :=
  Fix (fun z => c3 X z ∧ ¬ M z) M X Y r3
def C5 (c3 r3 : Nat → Nat → Prop) (M : Nat → Prop) (X Y : Nat) : Nat → Nat → Prop :=
  Fix (fun z => R4 c3 r3 M X Y X z ∧ ¬ M z) M X Y c3
def R6 (c3 r3 : Nat → Nat → Prop) (M : Nat → Prop) (X Y : Nat) : Nat → Nat → Prop :=
  Fix (fun z => C5 c3 r3 M X Y Y z ∧ ¬ M z) M X Y (R4 c3 r3 M X Y)
def C7 (c3 r3 : Nat → Nat → Prop) (M : Nat → Prop) (X Y : Nat) : Nat → Nat → Prop :=
  Fix (fun z => R6 c3 r3 M X Y Y z ∧ ¬ M z) M X Y (C5 c3 r3 M X Y)
/-- not absorbed -/
def Clean (M : Nat → Prop) (Y : Nat) (z : Nat) : Prop := ¬ M z ∧ z ≠ Y
/-- `set_connections` after `merge_multiple(X, Y, M)`, in terms of the two maps before -/
def C9 (c3 r3 : Nat → Nat → Prop) (M : Nat → Prop) (X Y : Nat) (z w : Nat) : Prop :=
  Clean M Y z ∧ C7 c3 r3 M X Y z w ∧ (z = X → Clean M Y w)
/-- `reverse_set_connections` after `merge_multiple(X, Y, M)` -/
def R9 (c3 r3 : Nat → Nat → Prop) (M : Nat → Prop) (X Y : Nat) (z w : Nat) : Prop :=
  Clean M Y z ∧ R6 c3 r3 M X Y z w ∧ (z = X → Clean M Y w)

theorem mergeFixForward_conn (t : TrRel) (s frm to : Nat) (ib : NSet) : (t.mergeFixForward s frm to ib).conn = t.conn := by
  rw [mergeFixForward_eq]
theorem mergeFixForward_sets (t : TrRel) (s frm to : Nat) (ib : NSet) : (t.mergeFixForward s frm to ib).sets = t.sets := by
  rw [mergeFixForward_eq]
theorem mergeFixForward_elemIds (t : TrRel) (s frm to : Nat) (ib : NSet) :
    (t.mergeFixForward s frm to ib).elemIds = t.elemIds := by
  rw [mergeFixForward_eq]
theorem mergeFixBackward_rconn (t : TrRel) (s frm to : Nat) (ib : NSet) : (t.mergeFixBackward s frm to ib).rconn = t.rconn := by
  rw [mergeFixBackward_eq]
theorem mergeFixBackward_sets (t : TrRel) (s frm to : Nat) (ib : NSet) : (t.mergeFixBackward s frm to ib).sets = t.sets := by
  rw [mergeFixBackward_eq]
theorem mergeFixBackward_elemIds (t : TrRel) (s frm to : Nat) (ib : NSet) :
    (t.mergeFixBackward s frm to ib).elemIds = t.elemIds := by
  rw [mergeFixBackward_eq]

theorem mergeFixForward_keys {t : TrRel} (h : KeysOk t) (s frm to : Nat) (ib : NSet) : KeysOk (t.mergeFixForward s frm to ib) := by
  rw [mergeFixForward_eq]
  exact ⟨h.1, mapOk_foldl_fixStep h.2 (nodup_updFwd frm to ib) _⟩

theorem mergeFixBackward_keys {t : TrRel} (h : KeysOk t) (s frm to : Nat) (ib : NSet) : KeysOk (t.mergeFixBackward s frm to ib) := by
  rw [mergeFixBackward_eq]
  exact ⟨mapOk_foldl_fixStep h.1 (nodup_updBwd frm to ib) _, h.2⟩

theorem mergeFixForward_rconn_key {t : TrRel} {k : Nat} (h : (alGet t.rconn k).isSome = true) (s frm to : Nat) (ib : NSet) :
    (alGet (t.mergeFixForward s frm to ib).rconn k).isSome = true := by
  rw [mergeFixForward_eq]
  exact isSome_foldl_fixStep h _ _

theorem mergeFixBackward_conn_key {t : TrRel} {k : Nat} (h : (alGet t.conn k).isSome = true) (s frm to : Nat) (ib : NSet) :
    (alGet (t.mergeFixBackward s frm to ib).conn k).isSome = true := by
  rw [mergeFixBackward_eq]
  exact isSome_foldl_fixStep h _ _

structure MergePost (t t9 : TrRel) (frm to : Nat) (ib : NSet) : Prop where
  len : t9.sets.length = t.sets.length
  mem : ∀ d v, Mem t9 d v ↔
    (d = frm ∧ (Mem t frm v ∨ ∃ s ∈ ib ++ [to], Mem t s v)) ∨ (d ≠ frm ∧ d ∉ ib ++ [to] ∧ Mem t d v)
  subs_get : ∀ j, alGet t9.subs j = if j ∈ ib ++ [to] then some frm else alGet t.subs j
  forest : (∀ j, ∃ e, getDominantIdAux t.subs j (t.subs.length + 1) = .ok e) →
    ∀ j, ∃ e, getDominantIdAux t9.subs j (t9.subs.length + 1) = .ok e
  elemIds : t9.elemIds = t.elemIds
  keys : KeysOk t → KeysOk t9
  sets_nodup : (∀ (d : Nat) (s : List Int), t.sets[d]? = some s → s.Nodup) → ∀ (d : Nat) (s : List Int), t9.sets[d]? = some s → s.Nodup
  conn : ∀ a b, rel t9.conn a b ↔ C9 (rel t.conn) (rel t.rconn) (· ∈ ib) frm to a b
  rconn : ∀ a b, rel t9.rconn a b ↔ R9 (rel t.conn) (rel t.rconn) (· ∈ ib) frm to a b

theorem mergeMultiple_spec {t : TrRel} {frm to : Nat} {ib : NSet} (hne : frm ≠ to) (hfib : frm ∉ ib)
    (hlt : ∀ s ∈ ib ++ [to], s < t.sets.length) (hflt : frm < t.sets.length)
    (hdomL : ∀ s ∈ ib ++ [to], alGet t.subs s = none) (hfrm : alGet t.subs frm = none)
    (hck : (alGet t.conn frm).isSome = true) (hrk : (alGet t.rconn frm).isSome = true)
    (hdisj : ∀ d d' v, Mem t d v → Mem t d' v → d = d') :
    ∃ t9, t.mergeMultiple frm to ib = .ok (t9, frm) ∧ MergePost t t9 frm to ib := by
  unfold TrRel.mergeMultiple
  simp only
  -- the four fixing loops
  have e4c := mergeFixForward_conn t frm frm to ib
  have e4r := rel_mergeFixForward t frm frm to ib
  generalize ht4 : t.mergeFixForward frm frm to ib = t4 at e4c e4r
  have s4 : t4.sets = t.sets ∧ t4.subs = t.subs ∧ t4.elemIds = t.elemIds := by
    subst ht4; exact ⟨mergeFixForward_sets .., mergeFixForward_subs .., mergeFixForward_elemIds ..⟩
  have k4 : KeysOk t → KeysOk t4 := by subst ht4; exact fun h => mergeFixForward_keys h ..
  have ck4 : (alGet t4.conn frm).isSome = true := by rw [e4c]; exact hck
  have rk4 : (alGet t4.rconn frm).isSome = true := by subst ht4; exact mergeFixForward_rconn_key hrk ..
  clear ht4
  have e5r := mergeFixBackward_rconn t4 frm frm to ib
  have e5c := rel_mergeFixBackward t4 hne frm ib
  generalize ht5 : t4.mergeFixBackward frm frm to ib = t5 at e5c e5r
  have s5 : t5.sets = t.sets ∧ t5.subs = t.subs ∧ t5.elemIds = t.elemIds := by
    subst ht5; exact ⟨(mergeFixBackward_sets ..).trans s4.1, (mergeFixBackward_subs ..).trans s4.2.1,
      (mergeFixBackward_elemIds ..).trans s4.2.2⟩
  have k5 : KeysOk t → KeysOk t5 := by subst ht5; exact fun h => mergeFixBackward_keys (k4 h) ..
  have ck5 : (alGet t5.conn frm).isSome = true := by subst ht5; exact mergeFixBackward_conn_key ck4 ..
  have rk5 : (alGet t5.rconn frm).isSome = true := by rw [e5r]; exact rk4
  clear ht5
  have e6c := mergeFixForward_conn t5 to frm to ib
  have e6r := rel_mergeFixForward t5 to frm to ib
  generalize ht6 : t5.mergeFixForward to frm to ib = t6 at e6c e6r
  have s6 : t6.sets = t.sets ∧ t6.subs = t.subs ∧ t6.elemIds = t.elemIds := by
    subst ht6; exact ⟨(mergeFixForward_sets ..).trans s5.1, (mergeFixForward_subs ..).trans s5.2.1,
      (mergeFixForward_elemIds ..).trans s5.2.2⟩
  have k6 : KeysOk t → KeysOk t6 := by subst ht6; exact fun h => mergeFixForward_keys (k5 h) ..
  have ck6 : (alGet t6.conn frm).isSome = true := by rw [e6c]; exact ck5
  have rk6 : (alGet t6.rconn frm).isSome = true := by subst ht6; exact mergeFixForward_rconn_key rk5 ..
  clear ht6
  have e7r := mergeFixBackward_rconn t6 to frm to ib
  have e7c := rel_mergeFixBackward t6 hne to ib
  generalize ht7 : t6.mergeFixBackward to frm to ib = t7 at e7c e7r
  have s7 : t7.sets = t.sets ∧ t7.subs = t.subs ∧ t7.elemIds = t.elemIds := by
    subst ht7; exact ⟨(mergeFixBackward_sets ..).trans s6.1, (mergeFixBackward_subs ..).trans s6.2.1,
      (mergeFixBackward_elemIds ..).trans s6.2.2⟩
  have k7 : KeysOk t → KeysOk t7 := by subst ht7; exact fun h => mergeFixBackward_keys (k6 h) ..
  have ck7 : (alGet t7.conn frm).isSome = true := by subst ht7; exact mergeFixBackward_conn_key ck6 ..
  have rk7 : (alGet t7.rconn frm).isSome = true := by rw [e7r]; exact rk6
  clear ht7
  -- the stored relations before absorbing
  have r4 : ∀ z w, rel t4.rconn z w ↔ R4 (rel t.conn) (rel t.rconn) (· ∈ ib) frm to z w := e4r
  have c5 : ∀ z w, rel t5.conn z w ↔ C5 (rel t.conn) (rel t.rconn) (· ∈ ib) frm to z w := by
    intro z w
    rw [e5c]
    exact Fix_congr (fun z => by rw [r4]) (fun z w => by rw [e4c]) z w
  have r6 : ∀ z w, rel t6.rconn z w ↔ R6 (rel t.conn) (rel t.rconn) (· ∈ ib) frm to z w := by
    intro z w
    rw [e6r]
    exact Fix_congr (fun z => by rw [c5]) (fun z w => by rw [e5r, r4]) z w
  have c7 : ∀ z w, rel t7.conn z w ↔ C7 (rel t.conn) (rel t.rconn) (· ∈ ib) frm to z w := by
    intro z w
    rw [e7c]
    exact Fix_congr (fun z => by rw [r6]) (fun z w => by rw [e6c, c5]) z w
  have r7 : ∀ z w, rel t7.rconn z w ↔ R6 (rel t.conn) (rel t.rconn) (· ∈ ib) frm to z w := by
    intro z w; rw [e7r]; exact r6 z w
  -- the absorbing loop
  have hfl : frm ∉ ib ++ [to] := by
    intro h
    rcases List.mem_append.mp h with h | h
    · exact hfib h
    · simp at h; exact hne h
  obtain ⟨u, hu, P⟩ := mergeAbsorb_spec (frm := frm) (ib ++ [to]) t7
    (fun s hs => ⟨fun e => hfl (e ▸ hs), by rw [s7.1]; exact hlt s hs⟩) (by rw [s7.1]; exact hflt)
    (fun s hs => Or.inl (by rw [s7.2.1]; exact hdomL s hs)) (by rw [s7.2.1]; exact hfrm)
  simp only [hu, Res.bind_ok]
  obtain ⟨fc, hfc⟩ := Option.isSome_iff_exists.mp (P.conn_key frm hfl ck7)
  obtain ⟨fr, hfr⟩ := Option.isSome_iff_exists.mp (P.rconn_key frm hfl rk7)
  simp only [hfc, hfr, unwrap, Res.bind_ok]
  have hmemT7 : ∀ d v, Mem t7 d v ↔ Mem t d v := by intro d v; unfold Mem; rw [s7.1]
  have hmem : ∀ d v, Mem u d v ↔
      (d = frm ∧ (Mem t frm v ∨ ∃ s ∈ ib ++ [to], Mem t s v)) ∨ (d ≠ frm ∧ d ∉ ib ++ [to] ∧ Mem t d v) := by
    intro d v; rw [P.mem]; simp only [hmemT7]
  refine ⟨{ u with conn := alSet u.conn frm (keepDifference (nsRemove fc to) ib),
                   rconn := alSet u.rconn frm (keepDifference (nsRemove fr to) ib) }, ?_, ⟨?_, ?_, ?_, ?_, ?_, ?_, ?_, ?_, ?_⟩⟩
  · -- `assert_disjoint_invariant`
    have hd : ({ u with conn := alSet u.conn frm (keepDifference (nsRemove fc to) ib),
                        rconn := alSet u.rconn frm (keepDifference (nsRemove fr to) ib) } : TrRel).disjointInvariant = true := by
      rw [disjointInvariant_iff]
      intro d d' v g g'
      have g1 : Mem u d v := g
      have g2 : Mem u d' v := g'
      rw [hmem] at g1 g2
      clear g g'
      rcases g1 with ⟨e1, k1⟩ | ⟨hd1, hd2, k1⟩ <;> rcases g2 with ⟨e2, k2⟩ | ⟨hd1', hd2', k2⟩
      · rw [e1, e2]
      · exfalso
        rcases k1 with k1 | ⟨s, hs, k1⟩
        · exact hd1' (hdisj _ _ v k2 k1)
        · exact hd2' ((hdisj _ _ v k2 k1) ▸ hs)
      · exfalso
        rcases k2 with k2 | ⟨s, hs, k2⟩
        · exact hd1 (hdisj _ _ v k1 k2)
        · exact hd2 ((hdisj _ _ v k1 k2) ▸ hs)
      · exact hdisj _ _ v k1 k2
    simp only [hd, Bool.not_true, Bool.false_eq_true, if_false, Res.pure_eq]
  · show u.sets.length = t.sets.length
    rw [P.len, s7.1]
  · exact hmem
  · intro j
    show alGet u.subs j = _
    rw [P.subs_get, s7.2.1]
  · intro hf
    show ∀ j, ∃ e, getDominantIdAux u.subs j (u.subs.length + 1) = .ok e
    exact P.forest (by rw [s7.2.1]; exact hf)
  · show u.elemIds = t.elemIds
    rw [P.elemIds, s7.2.2]
  · intro hk
    obtain ⟨h1, h2⟩ := P.keys (k7 hk)
    exact ⟨h1.alSet _ (nodup_keepDifference (nodup_nsRemove (h1.2 _ _ hfc) _) _),
      h2.alSet _ (nodup_keepDifference (nodup_nsRemove (h2.2 _ _ hfr) _) _)⟩
  · intro hn
    show ∀ (d : Nat) (s : List Int), u.sets[d]? = some s → s.Nodup
    exact P.sets_nodup (by rw [s7.1]; exact hn)
  · intro a b
    show rel (alSet u.conn frm (keepDifference (nsRemove fc to) ib)) a b ↔ _
    rw [rel_alSet]
    unfold C9 Clean
    by_cases ha : frm = a
    · subst ha
      rw [if_pos rfl, mem_keepDifference, mem_nsRemove, mem_of_alGet hfc, P.conn, c7]
      simp only [List.mem_append, List.mem_singleton, not_or, true_imp_iff]
      constructor
      · rintro ⟨⟨⟨h1, h2⟩, h3⟩, h4⟩; exact ⟨h1, h2, h4, h3⟩
      · rintro ⟨h1, h2, h4, h3⟩; exact ⟨⟨⟨h1, h2⟩, h3⟩, h4⟩
    · have ha' : ¬ a = frm := fun e => ha e.symm
      rw [if_neg ha, P.conn, c7]
      simp only [List.mem_append, List.mem_singleton, not_or, ha', false_imp_iff, and_true]
  · intro a b
    show rel (alSet u.rconn frm (keepDifference (nsRemove fr to) ib)) a b ↔ _
    rw [rel_alSet]
    unfold R9 Clean
    by_cases ha : frm = a
    · subst ha
      rw [if_pos rfl, mem_keepDifference, mem_nsRemove, mem_of_alGet hfr, P.rconn, r7]
      simp only [List.mem_append, List.mem_singleton, not_or, true_imp_iff]
      constructor
      · rintro ⟨⟨⟨h1, h2⟩, h3⟩, h4⟩; exact ⟨h1, h2, h4, h3⟩
      · rintro ⟨h1, h2, h4, h3⟩; exact ⟨⟨⟨h1, h2⟩, h3⟩, h4⟩
    · have ha' : ¬ a = frm := fun e => ha e.symm
      rw [if_neg ha, P.rconn, r7]
      simp only [List.mem_append, List.mem_singleton, not_or, ha', false_imp_iff, and_true]

end AscentVerif.TrRel
