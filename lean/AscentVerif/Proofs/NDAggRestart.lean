import AscentVerif.Proofs.NDAgg
import AscentVerif.Proofs.AggRestart
/-!
# Stratified restart for the nondeterministic engine

`Proofs/AggRestart.lean` for EXECUTIONS of the nondeterministic engine (`RunND`, `Proofs/NDEngine.lean`) and for PREFIXES of
executions (`RunPreND`: some completed SCCs, then — inside one SCC — some completed passes each followed by `shift`; the abstract
counterpart of a `run_timeout` that took the early return):

* `restartND_facts`: reference execution `RunND … s sM`; `t` extends `s` and holds only facts of `sM`; then any execution from
  `t` ends with exactly the facts of `sM`;
* `timeoutND_sound_from`: the state reached by a prefix of an execution from such a `t` again extends `s` and holds only facts
  of `sM`.

Both reduce to the specification-level strata induction `Agg.strata_agree` (`Proofs/AggRestartSpec.lean`) through
`Agg.runND_spec` (`Proofs/NDAggStrata.lean`), exactly as `Agg.restart_facts` / `Agg.timeout_sound_from` do through `Agg.run_spec`.
-/
namespace AscentVerif.Engine.Agg
open AscentVerif AscentVerif.Engine

variable {E B G P A : Type}

/-! ## prefixes of executions -/

/-- some (at least one) completed passes of a looping SCC, each followed by `shift` -/
inductive LoopPreND (I : Interp E B G P A) (cfg : Config) (p : Program E B G P A) (dyn : List RelId)
    (rules : List (Rule E B G P A)) : SccSt → SccSt → Prop where
  | last {s s1 : SccSt} : PassND I cfg p dyn rules s s1 → LoopPreND I cfg p dyn rules s (shift s1)
  | more {s s1 s' : SccSt} : PassND I cfg p dyn rules s s1 → LoopPreND I cfg p dyn rules (shift s1) s' →
      LoopPreND I cfg p dyn rules s s'

/-- the SCC state in which an SCC is abandoned: after some iterations of a looping SCC, after the pass and the two merges of a
non-looping one -/
def SccPreND (I : Interp E B G P A) (cfg : Config) (p : Program E B G P A) (scc : List Nat) (st : St) (a' : SccSt) : Prop :=
  if isLooping p scc then
    LoopPreND I cfg p (dynRels p scc) (sccRules p scc) (enterScc st (dynRels p scc)) a'
  else
    ∃ s1, PassND I cfg p (dynRels p scc) (sccRules p scc) (enterScc st (dynRels p scc)) s1 ∧ a' = shift (shift s1)

/-- a prefix of an execution: `update_indices`, some completed SCCs, a part of the next one -/
def RunPreND (I : Interp E B G P A) (cfg : Config) (p : Program E B G P A) (order : SccOrder) (s : St) (a' : SccSt) : Prop :=
  ∃ (done : SccOrder) (scc : List Nat) (rest : SccOrder) (stMid : St),
    order = done ++ scc :: rest ∧ SccsND I cfg p done (updateIndices s) stMid ∧ SccPreND I cfg p scc stMid a'

/-! ## the interrupted SCC keeps the soundness part of the invariant -/

section Pre
variable (I : Interp E B G P A) (cfg : Config) (p : Program E B G P A) (inp : RelId → List Tuple)
  (aggv : AggClause E A → List Tuple) (K : Prop)

section Loop
variable (n : Nat) (dynR : List RelId) (hlt : ∀ r, dynR.contains r = true → r < n)
  (hl : ∀ d ∈ p.rels, d.lat = false)

include hlt hl in
theorem loopPreND_good (rules : List (Rule E B G P A))
    (hrules : ∀ rule ∈ rules, rule ∈ p.rules)
    (hdyn : ∀ rule ∈ rules, ∀ h ∈ rule.heads, dynR.contains h.rel = true)
    (s s' : SccSt) (hloop : LoopPreND I cfg p dynR rules s s') :
    LoopInv I cfg p inp aggv K n dynR rules (hasDyn dynR) s → WF n dynR s' ∧ Good I p inp aggv n s' := by
  induction hloop with
  | @last s s1 hpass =>
    intro hinv
    obtain ⟨hinv', _⟩ := iter_step_nd I cfg p inp aggv K n dynR hlt hl rules hrules hdyn s s1 hinv hpass
    exact ⟨hinv'.wf, hinv'.good⟩
  | @more s s1 s' hpass _ ih =>
    intro hinv
    obtain ⟨hinv', _⟩ := iter_step_nd I cfg p inp aggv K n dynR hlt hl rules hrules hdyn s s1 hinv hpass
    exact ih (hinv'.weaken I cfg p inp aggv K n dynR fun _ _ => trivial)

end Loop

variable (hl : ∀ d ∈ p.rels, d.lat = false)
  (hh : ∀ r ∈ p.rules, ∀ h ∈ r.heads, h.rel < p.rels.length)

include hl hh in
/-- one SCC, abandoned: provided its aggregation items range over non-dynamic relations and read `aggv` from the program value
at SCC entry (the analogue of `Agg.runScc_timedOut`) -/
theorem sccPreND_good (scc : List Nat) (st : St) (a' : SccSt)
    (hp : PInv I p inp aggv K p.rels.length st)
    (hagg : ∀ rule ∈ sccRules p scc, ∀ a, Item.agg a ∈ rule.body →
      (dynRels p scc).contains a.rel = false ∧ aggOf cfg p st a = aggv a)
    (h : SccPreND I cfg p scc st a') :
    WF p.rels.length (dynRels p scc) a' ∧ Good I p inp aggv p.rels.length a' := by
  have hrules := sccRules_sub p scc
  have hdyn : ∀ rule ∈ sccRules p scc, ∀ h ∈ rule.heads, (dynRels p scc).contains h.rel = true :=
    fun rule hr h hhd => (dynRels_mem p scc h.rel).mpr ⟨rule, hr, h, hhd, rfl⟩
  have hlt : ∀ r, (dynRels p scc).contains r = true → r < p.rels.length := by
    intro r hr
    obtain ⟨rule, hrule, h, hhd, rfl⟩ := (dynRels_mem p scc r).mp hr
    exact hh rule (hrules rule hrule) h hhd
  have hagg0 : ∀ rule ∈ sccRules p scc, AggOK cfg p aggv (dynRels p scc) rule (enterScc st (dynRels p scc)) := by
    intro rule hr a ha
    obtain ⟨h1, h2⟩ := hagg rule hr a ha
    refine ⟨h1, ?_⟩
    rw [aggTuples_eq_aggOf, enterScc_rels]; exact h2
  have hinv0 := LoopInv_enter I cfg p inp aggv K p.rels.length (dynRels p scc) hl hp (sccRules p scc) hagg0
  unfold SccPreND at h
  split at h
  · exact loopPreND_good I cfg p inp aggv K p.rels.length (dynRels p scc) hlt hl (sccRules p scc) hrules hdyn _ a' h hinv0
  · obtain ⟨s1, hpass, rfl⟩ := h
    obtain ⟨hinv, _⟩ := iter_step_nd I cfg p inp aggv K p.rels.length (dynRels p scc) hlt hl (sccRules p scc)
      hrules hdyn _ s1 hinv0 hpass
    exact ⟨WF_shift hinv.wf, hinv.good⟩

end Pre

/-! ## the strata induction over a completed prefix of the order (`Agg.runSccs_prefix_spec` for `SccsND`) -/

section Prefix
variable (I : Interp E B G P A) (cfg : Config) (p : Program E B G P A) (inp : RelId → List Tuple) (K : Prop)
  (hl : ∀ d ∈ p.rels, d.lat = false)
  (hh : ∀ r ∈ p.rules, ∀ h ∈ r.heads, h.rel < p.rels.length)
  (o : SccOrder) (ho : validOrder p o = true) (hs : ∀ s ∈ o, aggOverDynamic p s = false)
  (aggv : AggClause E A → List Tuple)

include hl hh ho hs in
/-- `Agg.sccsND_spec` for a prefix `done ++ rest` of the order (`post` is not run): the view `aggv` must be what the items of the
SCCs that are run read from the value `st'` reached -/
theorem sccsND_prefix_spec (post : SccOrder) :
    ∀ (rest : SccOrder) (st st' : St), SccsND I cfg p rest st st' → ∀ (done : SccOrder),
    done ++ (rest ++ post) = o → PInv I p inp aggv K p.rels.length st →
    (∀ scc ∈ done, ClosedRules I aggv (sccRules p scc) (factsOf st)) →
    (∀ scc ∈ rest, ∀ rule ∈ sccRules p scc, ∀ a, Item.agg a ∈ rule.body → aggOf cfg p st' a = aggv a) →
    PInv I p inp aggv K p.rels.length st' ∧
      ∀ scc ∈ done ++ rest, ClosedRules I aggv (sccRules p scc) (factsOf st') := by
  intro rest st st' hrun
  induction hrun with
  | nil =>
    intro done _ hp hcl _
    rw [List.append_nil]
    exact ⟨hp, hcl⟩
  | @cons scc rest st st1 st2 hscc hrest ih =>
    intro done hdone hp hcl hfin
    have hdone' : done ++ scc :: (rest ++ post) = o := by simpa using hdone
    have hagg : ∀ rule ∈ sccRules p scc, ∀ a, Item.agg a ∈ rule.body →
        (dynRels p scc).contains a.rel = false ∧ aggOf cfg p st a = aggv a := by
      intro rule hrule a ha
      subst hdone'
      have hnl := agg_rel_not_later p done (rest ++ post) scc ho hs rule hrule a ha
      refine ⟨hnl scc (by simp), ?_⟩
      rw [← hfin scc (by simp) rule hrule a ha]
      refine (aggOf_congr cfg p a ?_).symm
      refine sccsND_stable I cfg p a.rel (scc :: rest) st st2 (SccsND.cons hscc hrest) ?_
      intro scc' hscc'
      apply hnl scc'
      rcases List.mem_cons.mp hscc' with e | e
      · exact e ▸ List.mem_cons_self
      · exact List.mem_cons_of_mem _ (List.mem_append_left _ e)
    obtain ⟨hp1, hsame, hmono, hcl1⟩ := sccND_spec I cfg p inp aggv K hl hh scc st st1 hp hagg hscc
    have := ih (done ++ [scc]) (by rw [List.append_assoc]; exact hdone') hp1 ?_
      (fun s hs' => hfin s (List.mem_cons_of_mem _ hs'))
    · refine ⟨this.1, ?_⟩
      intro s hs'
      apply this.2 s
      simpa using hs'
    intro scc' hscc'
    rcases List.mem_append.mp hscc' with hscc' | hscc'
    · intro rule hrule ρ hsat hd hhd
      have hfw := validOrder_forward p o ho done scc (rest ++ post) hdone' scc' hscc' rule hrule
      have hsat' : SatA I (factsOf st) aggv rule.body [] ρ := by
        refine SatA.congr_rels hsat ?_
        intro r hr t ht
        have : relSt st1 r = relSt st r := hsame r (hfw r hr)
        simp only [factsOf] at ht ⊢
        rw [← this]; exact ht
      exact hmono _ _ (hcl scc' hscc' rule hrule ρ hsat' hd hhd)
    · simp only [List.mem_singleton] at hscc'
      subst hscc'
      exact hcl1

end Prefix

/-! ## the two restart theorems -/

section Main
variable (I : Interp E B G P A) (cfg : Config) (p : Program E B G P A) (order : SccOrder)
  (hl : ∀ d ∈ p.rels, d.lat = false)
  (hh : ∀ r ∈ p.rules, ∀ h ∈ r.heads, h.rel < p.rels.length)
  (ho : validOrder p order = true) (hs : ∀ s ∈ order, aggOverDynamic p s = false)
  (hperm : PermInv I)

include hl hh ho hs hperm in
/-- **stratified restart, any execution**: `sM` is the result of a reference execution from `s`; `t` extends `s` and holds only
facts of `sM`; then any execution from `t` ends with exactly the facts of `sM` -/
theorem restartND_facts (s t sM s' : St) (hs0 : WFSt' p s) (ht0 : WFSt' p t)
    (hM : RunND I cfg p order s sM)
    (hext : ExtSt p s t) (hsound : ∀ f, factsOf t f → factsOf sM f)
    (hrun : RunND I cfg p order t s') :
    ∀ f, factsOf s' f ↔ factsOf sM f := by
  obtain ⟨hpM, hclM⟩ := runND_spec I cfg p (fun r => (relSt s r).rows) True hl hh order ho hs s sM hs0 (fun _ _ => rfl) hM
  obtain ⟨hp2, hcl2⟩ := runND_spec I cfg p (fun r => (relSt t r).rows) True hl hh order ho hs t s' ht0 (fun _ _ => rfl) hrun
  have hagree := strata_agree I p order ho hs (aggOf cfg p sM) (aggOf cfg p s')
    (inDB p fun r => (relSt s r).rows) (inDB p fun r => (relSt t r).rows) (factsOf sM) (factsOf s')
    order.length hpM.sound hp2.sound
    (fun f hf => hp2.inp_sub f ⟨hf.1, hext.facts hs0.1 ⟨f.rel, f.args⟩ hf.2⟩)
    (fun f hf => hsound ⟨f.rel, f.args⟩ hf.2)
    (fun i rule hget _ => hclM rule (List.mem_of_getElem? hget))
    (fun i rule hget _ => hcl2 rule (List.mem_of_getElem? hget))
    (fun i rule a _ _ _ hsame => aggEq_states I cfg p hl hperm s sM s' hpM hp2
      ((ExtSt.refl p s).of_pinv hpM) (hext.of_pinv hp2) a hsame)
  intro f
  exact (hagree order.length (Nat.le_refl _) f.rel (definedBy_all p order ho f.rel) f.args).symm

include hl hh ho hs in
/-- what an execution does to a value: the result is well-formed and extends the start value -/
theorem runND_wf_extends (s s' : St) (hs0 : WFSt' p s) (hrun : RunND I cfg p order s s') :
    WFSt' p s' ∧ ExtSt p s s' ∧ (∀ f, factsOf s f → factsOf s' f) := by
  have hspec := runND_spec I cfg p (fun r => (relSt s r).rows) True hl hh order ho hs s s' hs0 (fun _ _ => rfl) hrun
  refine ⟨(PInv.sinvA I p _ _ True hspec.1).wfSt, fun r hr => (hspec.1.good r hr).2, ?_⟩
  intro f hf
  exact PInv.inp_sub hspec.1 f ⟨facts_lt_of_len hs0.1 hf, hf⟩

include hl hh ho hs hperm in
/-- **a prefix of an execution from a value between `s` and the reference result reaches such a value** (`a'` is the SCC
state in which the execution is abandoned; only its row vectors survive) -/
theorem timeoutND_sound_from (s t sM : St) (a' : SccSt) (hs0 : WFSt' p s) (ht0 : WFSt' p t)
    (hM : RunND I cfg p order s sM)
    (hext : ExtSt p s t) (hsound : ∀ f, factsOf t f → factsOf sM f)
    (hpre : RunPreND I cfg p order t a') :
    a'.rels.length = p.rels.length ∧ ExtSt p s a'.rels ∧ (∀ f, factsOf a'.rels f → factsOf sM f) := by
  obtain ⟨hpM, hclM⟩ := runND_spec I cfg p (fun r => (relSt s r).rows) True hl hh order ho hs s sM hs0 (fun _ _ => rfl) hM
  obtain ⟨done, scc, rest, stMid, hsplit, hdone, hto⟩ := hpre
  subst hsplit
  -- the hybrid view
  let aggv₁ := aggOf cfg p sM
  let aggv' := hybrid p (done ++ scc :: rest) (done.length + 1) (aggOf cfg p stMid) aggv₁
  let inp₁ : RelId → List Tuple := fun r => (relSt t r).rows
  have hitem_done : ∀ scc' ∈ done, ∀ rule ∈ sccRules p scc', ∀ a, Item.agg a ∈ rule.body →
      ItemIn p (done ++ scc :: rest) done.length a := by
    intro scc' hscc' rule hrule a ha
    obtain ⟨i, hget, hpre⟩ := inPrefix_of_mem_done p done (scc :: rest) hscc' hrule
    exact ⟨i, rule, hget, hpre, ha⟩
  have hitem_mono : ∀ a, ItemIn p (done ++ scc :: rest) done.length a →
      ItemIn p (done ++ scc :: rest) (done.length + 1) a := by
    rintro a ⟨i, rule, hget, hpre, ha⟩
    exact ⟨i, rule, hget, hpre.mono (Nat.le_succ _), ha⟩
  -- the completed prefix
  have hp0 : PInv I p inp₁ aggv' True p.rels.length (updateIndices t) :=
    PInv_start I p inp₁ True aggv' t ht0 (fun _ _ => rfl)
  obtain ⟨hpMid, hclMid⟩ := sccsND_prefix_spec I cfg p inp₁ True hl hh (done ++ scc :: rest) ho hs aggv'
    (scc :: rest) done _ stMid hdone [] (by simp) hp0 (by intro scc' hscc'; simp at hscc')
    (fun scc' hscc' rule hrule a ha => (hybrid_pos (hitem_mono a (hitem_done scc' hscc' rule hrule a ha))).symm)
  -- the interrupted SCC
  obtain ⟨hwf', hgood'⟩ : WF p.rels.length (dynRels p scc) a' ∧ Good I p inp₁ aggv' p.rels.length a' := by
    refine sccPreND_good I cfg p inp₁ aggv' True hl hh scc stMid a' hpMid ?_ hto
    intro rule hrule a ha
    refine ⟨agg_rel_not_later p done rest scc ho hs rule hrule a ha scc (by simp), ?_⟩
    obtain ⟨i, hi, hget⟩ := (mem_sccRules p scc rule).mp hrule
    refine (hybrid_pos ⟨i, rule, hget, ⟨done.length, Nat.lt_succ_self _, ?_⟩, ha⟩).symm
    rw [getD_append_length]; exact hi
  have hextMid : ExtSt p s stMid := hext.of_pinv hpMid
  -- the two values agree on everything defined by the completed prefix
  have hlink : ∀ a, ItemIn p (done ++ scc :: rest) (done.length + 1) a →
      (∀ x, factsOf sM ⟨a.rel, x⟩ ↔ factsOf stMid ⟨a.rel, x⟩) → AggEq I aggv₁ aggv' a := by
    intro a hin hsame ρ
    show aggEnvs I a ρ (aggOf cfg p sM a) = aggEnvs I a ρ (aggv' a)
    rw [show aggv' a = aggOf cfg p stMid a from hybrid_pos hin]
    exact aggEq_states I cfg p hl hperm s sM stMid hpM hpMid ((ExtSt.refl p s).of_pinv hpM) hextMid a hsame ρ
  have hagree := strata_agree I p (done ++ scc :: rest) ho hs aggv₁ aggv'
    (inDB p fun r => (relSt s r).rows) (inDB p inp₁) (factsOf sM) (factsOf stMid)
    done.length hpM.sound hpMid.sound
    (fun f hf => hpMid.inp_sub f ⟨hf.1, hext.facts hs0.1 ⟨f.rel, f.args⟩ hf.2⟩)
    (fun f hf => hsound ⟨f.rel, f.args⟩ hf.2)
    (fun i rule hget _ => hclM rule (List.mem_of_getElem? hget))
    (fun i rule hget hpre => by
      obtain ⟨scc', hscc', hrule⟩ := mem_done_of_inPrefix p done (scc :: rest) hget hpre
      exact hclMid scc' (by simpa using hscc') rule hrule)
    (fun i rule a hget hpre ha hsame => hlink a (hitem_mono a ⟨i, rule, hget, hpre, ha⟩) hsame)
  -- hence the hybrid view is interchangeable with the reference view on every item
  have haggEq : ∀ a, AggEq I aggv₁ aggv' a := by
    intro a
    by_cases hin : ItemIn p (done ++ scc :: rest) (done.length + 1) a
    · refine hlink a hin ?_
      obtain ⟨i, rule, hget, ⟨j, hj, hij⟩, ha⟩ := hin
      exact hagree j (Nat.le_of_lt_succ hj) a.rel (agg_definedBy p _ ho hs hget hij ha)
    · exact AggEq.of_eq (hybrid_neg hin).symm
  have hclosed : ClosedA I p.rules aggv' (inDB p inp₁) (factsOf sM) := by
    refine ⟨fun f hf => hsound ⟨f.rel, f.args⟩ hf.2, ?_⟩
    rintro f ⟨rule, hrule, ρ, hsat, h, hhd, rfl⟩
    exact hclM rule hrule ρ (SatA.congr_aggEq hsat (fun a _ => (haggEq a).symm)) h hhd
  refine ⟨hwf'.len, hext.append (fun r hr => (hgood' r hr).2), ?_⟩
  intro f hf
  have hd : DerA I p.rules aggv' (inDB p inp₁) f := by
    have := (hgood' f.rel (facts_lt_of_len hwf'.len hf)).1 f.args hf
    cases f; exact this
  exact derA_least I p.rules aggv' (inDB p inp₁) _ hclosed f hd

end Main

end AscentVerif.Engine.Agg
