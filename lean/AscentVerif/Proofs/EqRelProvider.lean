import AscentVerif.Proofs.EqRelOps
/-!
# The binary `eqrel` provider (`EqRelIndCommon`, new / delta / total) meets its contract

`Content c` = the tuples a version of the relation holds = `combined \ old`.
`Inv t T D N`: the state of the triple after some history, described by three relations —
`T` what total holds, `D` what `delta.combined` holds (total ∪ delta, closed), `N` the pairs inserted into
`new` since the last merge.  `ins` and `merge` are shown to preserve it with the contract's updates
(`T := D; D := closure(D ∪ N); N := ∅` for a merge), hence by induction over every op sequence.
-/
namespace AscentVerif.EqRelM
open AscentVerif.TrRel (Res unwrap alGet alSet)

theorem EqClosure.empty {α : Type} {a b : α} : ¬ EqClosure (fun _ _ : α => False) a b := by
  intro h
  obtain ⟨y, h | h⟩ := EqClosure.mentioned_left h <;> exact h

theorem EqClosure.union_closed_right {α : Type} {R T : α → α → Prop} {x y : α} :
    EqClosure (fun a b => T a b ∨ EqClosure R a b) x y ↔ EqClosure (fun a b => T a b ∨ R a b) x y := by
  rw [EqClosure.congr' (S := fun a b => EqClosure R a b ∨ T a b) (fun a b => Or.comm), EqClosure.union_closed_left]
  exact EqClosure.congr' fun a b => Or.comm

/-- the tuples a version holds -/
def Content (c : IndCommon) (x y : Int) : Prop := rel c.combined x y ∧ ¬ rel c.old x y

/-! ## reads -/

theorem containsKey_spec {c : IndCommon} (hc : WF c.combined) (ho : WF c.old) (x y : Int) :
    ∃ b, c.containsKey x y = .ok b ∧ (b = true ↔ Content c x y) := by
  obtain ⟨b1, h1, hb1⟩ := contains_spec hc x y
  obtain ⟨b2, h2, hb2⟩ := contains_spec ho x y
  unfold IndCommon.containsKey
  rw [h1]
  cases b1 with
  | false =>
    refine ⟨false, rfl, ?_⟩
    simp only [Content, ← hb1]; simp
  | true =>
    simp only [h2]
    refine ⟨!b2, rfl, ?_⟩
    simp only [Content, ← hb1, ← hb2]
    cases b2 <;> simp

theorem filterAdded_spec {old : EqRel} (ho : WF old) : ∀ (l : List (Int × Int)),
    ∃ r, IndCommon.filterAdded old l = .ok r ∧ ∀ a b, (a, b) ∈ r ↔ (a, b) ∈ l ∧ ¬ rel old a b := by
  intro l
  induction l with
  | nil => exact ⟨[], rfl, fun a b => by simp⟩
  | cons p rest ih =>
    obtain ⟨x, y⟩ := p
    obtain ⟨r, hr, hmem⟩ := ih
    obtain ⟨o, ho', hob⟩ := contains_spec ho x y
    refine ⟨if o then r else (x, y) :: r, by simp only [IndCommon.filterAdded, ho', hr], fun a b => ?_⟩
    cases o with
    | true =>
      have hxy : rel old x y := hob.1 rfl
      simp only [if_true, hmem, List.mem_cons, Prod.mk.injEq]
      constructor
      · rintro ⟨h1, h2⟩; exact ⟨.inr h1, h2⟩
      · rintro ⟨⟨rfl, rfl⟩ | h1, h2⟩
        · exact absurd hxy h2
        · exact ⟨h1, h2⟩
    | false =>
      have hxy : ¬ rel old x y := fun h => by have := hob.2 h; cases this
      simp only [Bool.false_eq_true, if_false, List.mem_cons, Prod.mk.injEq, hmem]
      constructor
      · rintro (⟨rfl, rfl⟩ | ⟨h1, h2⟩)
        · exact ⟨.inl ⟨rfl, rfl⟩, hxy⟩
        · exact ⟨.inr h1, h2⟩
      · rintro ⟨⟨rfl, rfl⟩ | h1, h2⟩
        · exact .inl ⟨rfl, rfl⟩
        · exact .inr ⟨h1, h2⟩

/-- `iter_all_added` (= `iter_all` of the full index and of the no-column view): exactly the content -/
theorem iterAllAdded_spec {c : IndCommon} (hc : WF c.combined) (ho : WF c.old) :
    ∃ l, c.iterAllAdded = .ok l ∧ ∀ a b, (a, b) ∈ l ↔ Content c a b := by
  obtain ⟨l, hl, hmem⟩ := filterAdded_spec ho c.combined.iterAll
  refine ⟨l, hl, fun a b => ?_⟩
  rw [hmem, iterAll_spec hc]; rfl

/-- `set_of_added` (= `index_get` of view [0]): `None` iff the element is unknown, else exactly its content row -/
theorem setOfAdded_spec {c : IndCommon} (hc : WF c.combined) (ho : WF c.old) (x : Int) :
    (alGet c.combined.elemIds x = none → c.setOfAdded x = .ok none) ∧
    (alGet c.combined.elemIds x ≠ none → ∃ l, c.setOfAdded x = .ok (some l) ∧ ∀ y, y ∈ l ↔ Content c x y) := by
  constructor
  · intro h
    unfold IndCommon.setOfAdded; rw [setOf_none h]
  · intro h
    cases hx : alGet c.combined.elemIds x with
    | none => exact absurd hx h
    | some i =>
      obtain ⟨d, hd⟩ := root_total hc hx
      obtain ⟨s, hs, hsm⟩ := setOf_some hc hd
      unfold IndCommon.setOfAdded
      rw [hs]
      simp only
      cases hox : alGet c.old.elemIds x with
      | none =>
        rw [setOf_none hox]
        refine ⟨_, rfl, fun y => ?_⟩
        simp only [Option.any_none, Bool.not_false, List.mem_filter, and_true, hsm, Content]
        constructor
        · intro h'; exact ⟨h', not_rel_of_unknown hox y⟩
        · exact fun h' => h'.1
      | some j =>
        obtain ⟨d', hd'⟩ := root_total ho hox
        obtain ⟨os, hos, hosm⟩ := setOf_some ho hd'
        rw [hos]
        refine ⟨_, rfl, fun y => ?_⟩
        simp only [Option.any_some, List.mem_filter, Bool.not_eq_true', List.contains_eq_mem, decide_eq_false_iff_not, hsm, hosm,
          Content]

/-- `iter_all` of view [0] pairs every element with its whole class in `combined` — `old` is NOT subtracted:
on delta it yields total ∪ delta (an over-approximation of the contract, harmless for set semantics) -/
theorem ind0IterAll_spec {c : IndCommon} (hc : WF c.combined) (x y : Int) :
    (∃ s, (x, s) ∈ c.ind0IterAll ∧ y ∈ s) ↔ rel c.combined x y := by
  rw [rel_iff_sets hc]
  unfold IndCommon.ind0IterAll
  simp only [List.mem_flatMap, List.mem_map, Prod.mk.injEq]
  constructor
  · rintro ⟨s, ⟨s', hs', x', hx', rfl, rfl⟩, hy⟩
    exact ⟨s', hs', hx', hy⟩
  · rintro ⟨s, hs, hx, hy⟩
    exact ⟨s, ⟨s, hs, x, hx, rfl, rfl⟩, hy⟩

/-! ## the triple -/

structure Inv (t : Triple) (T D N : Int → Int → Prop) : Prop where
  wf_new : WF t.new.combined
  new_old : t.new.old = {}
  wf_delta : WF t.delta.combined
  delta_old : t.delta.old = t.total.combined
  wf_total : WF t.total.combined
  total_old : t.total.old = {}
  relT : ∀ a b, rel t.total.combined a b ↔ T a b
  relD : ∀ a b, rel t.delta.combined a b ↔ D a b
  relN : ∀ a b, rel t.new.combined a b ↔ EqClosure N a b
  sub : ∀ a b, T a b → D a b

def Empty : Int → Int → Prop := fun _ _ => False

theorem inv_init : Inv {} Empty Empty Empty := by
  refine ⟨wf_empty, rfl, wf_empty, rfl, wf_empty, rfl, ?_, ?_, ?_, fun _ _ h => h⟩
  · intro a b; exact ⟨fun h => absurd h (rel_empty a b), fun h => h.elim⟩
  · intro a b; exact ⟨fun h => absurd h (rel_empty a b), fun h => h.elim⟩
  · intro a b; exact ⟨fun h => absurd h (rel_empty a b), fun h => absurd h EqClosure.empty⟩

/-- `insert_if_not_present` on `new` -/
theorem ins_contract {t : Triple} {T D N : Int → Int → Prop} (h : Inv t T D N) (x y : Int) :
    ∃ t' b, t.ins x y = .ok (t', b) ∧ Inv t' T D (fun p q => N p q ∨ (p = x ∧ q = y)) ∧
      (b = true ↔ ¬ EqClosure N x y) := by
  obtain ⟨e', b, he, hk, hb⟩ := add_spec h.wf_new x y
  refine ⟨{ t with new := { t.new with combined := e' } }, b, ?_, ?_, ?_⟩
  · simp only [Triple.ins, IndCommon.insertIfNotPresent, he]
  · refine ⟨hk.wf, h.new_old, h.wf_delta, h.delta_old, h.wf_total, h.total_old, h.relT, h.relD, fun a c => ?_, h.sub⟩
    show rel e' a c ↔ _
    rw [hk.rel_closure]
    rw [EqClosure.congr' (S := fun p q => EqClosure N p q ∨ (p = x ∧ q = y)) (fun p q => by rw [h.relN])]
    exact EqClosure.union_closed_left
  · rw [← h.relN, ← hb]
    cases b <;> simp

/-- `merge_delta_to_total_new_to_delta` -/
theorem merge_contract {t : Triple} {T D N : Int → Int → Prop} (h : Inv t T D N) :
    ∃ t', t.merge = .ok t' ∧ Inv t' D (EqClosure fun p q => D p q ∨ N p q) Empty := by
  obtain ⟨c, hc, hwc, hrel⟩ := combine_spec h.wf_delta h.wf_new
  refine ⟨{ new := { t.new with combined := {} }, delta := { old := t.delta.combined, combined := c },
            total := { t.total with combined := t.delta.combined } }, by simp only [Triple.merge, hc], ?_⟩
  refine ⟨wf_empty, h.new_old, hwc, rfl, h.wf_delta, h.total_old, h.relD, fun a b => ?_, fun a b => ?_, fun a b hd => ?_⟩
  · show rel c a b ↔ _
    rw [hrel]
    rw [EqClosure.congr' (S := fun p q => D p q ∨ EqClosure N p q) (fun p q => by rw [h.relD, h.relN])]
    exact EqClosure.union_closed_right
  · exact ⟨fun h' => absurd h' (rel_empty a b), fun h' => absurd h' EqClosure.empty⟩
  · exact .base (.inl hd)

/-! ## what the versions hold, in terms of the history -/

theorem content_total {t : Triple} {T D N : Int → Int → Prop} (h : Inv t T D N) (a b : Int) : Content t.total a b ↔ T a b := by
  unfold Content
  rw [h.total_old, h.relT]
  exact ⟨fun h' => h'.1, fun h' => ⟨h', rel_empty a b⟩⟩

theorem content_delta {t : Triple} {T D N : Int → Int → Prop} (h : Inv t T D N) (a b : Int) :
    Content t.delta a b ↔ D a b ∧ ¬ T a b := by
  unfold Content
  rw [h.delta_old, h.relT, h.relD]

/-! ## op sequences -/

inductive Op where
  | ins (x y : Int)
  | merge

def runOps : List Op → Triple → Res Triple
  | [], t => .ok t
  | .ins x y :: rest, t =>
    match t.ins x y with
    | .panic => .panic
    | .ok (t', _) => runOps rest t'
  | .merge :: rest, t =>
    match t.merge with
    | .panic => .panic
    | .ok t' => runOps rest t'

/-- the contract's view of a history -/
structure Spec where
  T : Int → Int → Prop
  D : Int → Int → Prop
  N : Int → Int → Prop

def Spec.step (s : Spec) : Op → Spec
  | .ins x y => { s with N := fun p q => s.N p q ∨ (p = x ∧ q = y) }
  | .merge => { T := s.D, D := EqClosure fun p q => s.D p q ∨ s.N p q, N := Empty }

def Spec.run (s : Spec) (ops : List Op) : Spec := ops.foldl Spec.step s

theorem run_contract_from : ∀ (ops : List Op) {t : Triple} {s : Spec}, Inv t s.T s.D s.N →
    ∃ t', runOps ops t = .ok t' ∧ Inv t' (s.run ops).T (s.run ops).D (s.run ops).N := by
  intro ops
  induction ops with
  | nil => intro t s h; exact ⟨t, rfl, h⟩
  | cons op rest ih =>
    intro t s h
    cases op with
    | ins x y =>
      obtain ⟨t', b, he, hinv, _⟩ := ins_contract h x y
      obtain ⟨t'', he', hinv'⟩ := ih (s := s.step (.ins x y)) hinv
      exact ⟨t'', by simp only [runOps, he]; exact he', hinv'⟩
    | merge =>
      obtain ⟨t', he, hinv⟩ := merge_contract h
      obtain ⟨t'', he', hinv'⟩ := ih (s := s.step .merge) hinv
      exact ⟨t'', by simp only [runOps, he]; exact he', hinv'⟩

end AscentVerif.EqRelM
