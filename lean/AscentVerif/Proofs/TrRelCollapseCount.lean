import AscentVerif.Proofs.TrRelCollapseQueries
/-!
# `count_exact` under the invariant

`count_exact` never panics on a state satisfying `Inv t ps` and returns the length of a
duplicate-free list that enumerates exactly the pairs of `Closure ps` — i.e. the number of
closure pairs.
-/
namespace AscentVerif.TrRel
open TrRel (getDominantIdAux getDominantIdMutAux)

/-! ## list helpers -/

theorem nodup_eraseDups_aux : ∀ (n : Nat) (l : List Nat), l.length ≤ n → l.eraseDups.Nodup
  | 0, l, h => by
    have : l = [] := List.eq_nil_of_length_eq_zero (by omega)
    subst this; simp
  | n + 1, [], _ => by simp
  | n + 1, a :: as, h => by
    rw [List.eraseDups_cons, List.nodup_cons]
    constructor
    · intro hm
      rw [List.mem_eraseDups, List.mem_filter] at hm
      simp at hm
    · apply nodup_eraseDups_aux n
      have := List.length_filter_le (fun b => !b == a) as
      simp only [List.length_cons] at h
      omega

theorem nodup_eraseDups (l : List Nat) : l.eraseDups.Nodup := nodup_eraseDups_aux l.length l (Nat.le_refl _)

theorem dedupConsecutive_of_nodup : ∀ (l : List Nat), l.Nodup → TrRel.dedupConsecutive l = l
  | [], _ => rfl
  | [x], _ => rfl
  | x :: y :: rest, h => by
    rw [TrRel.dedupConsecutive]
    have hxy : x ≠ y := by
      intro e; subst e
      simp at h
    rw [if_neg hxy, dedupConsecutive_of_nodup (y :: rest) (List.nodup_cons.mp h).2]

/-- a `for` loop whose body always yields is a fold -/
theorem forIn_yield {α β : Type} (L : List α) (b : β) (f : α → β → Res (ForInStep β)) (g : α → β → β)
    (h : ∀ a ∈ L, ∀ b, f a b = .ok (.yield (g a b))) : forIn L b f = .ok (L.foldl (fun b a => g a b) b) := by
  induction L generalizing b with
  | nil => rfl
  | cons a rest ih =>
    rw [List.forIn_cons, h a (List.mem_cons_self ..) b]
    simp only [Res.bind_ok, List.foldl_cons]
    exact ih _ fun a' ha' b' => h a' (List.mem_cons_of_mem _ ha') b'

theorem length_flatMap_map {α β γ : Type} (xs : List α) (l : List β) (g : α → β → γ) :
    (xs.flatMap fun x => l.map (g x)).length = xs.length * l.length := by
  induction xs with
  | nil => simp
  | cons x rest ih =>
    simp only [List.flatMap_cons, List.length_append, List.length_map, ih, List.length_cons]
    rw [Nat.add_mul]; omega

/-! ## the pieces of `count_exact` -/

/-- the set stored at `d` (empty if out of range) -/
def setAt (t : TrRel) (d : Nat) : List Int := (unwrap t.sets[d]?).getD []

theorem unwrap_sets_of_lt {t : TrRel} {d : Nat} (h : d < t.sets.length) : unwrap t.sets[d]? = .ok (setAt t d) := by
  unfold setAt
  rw [List.getElem?_eq_getElem h]; rfl

theorem mem_setAt (t : TrRel) (d : Nat) (y : Int) : y ∈ setAt t d ↔ Mem t d y := mem_unwrap_sets t d y

/-- the inner loop of `count_exact` as a fold -/
theorem inner_fold (t : TrRel) (d : Nat) (c : List Nat) (r0 : Nat) :
    c.foldl (fun r s2 => if d = s2 then r else r + (setAt t d).length * (setAt t s2).length) r0 =
      r0 + (setAt t d).length * ((c.filter (· != d)).map (setAt t)).flatten.length := by
  induction c generalizing r0 with
  | nil => simp
  | cons s2 rest ih =>
    simp only [List.foldl_cons, ih]
    by_cases h : d = s2
    · subst h
      simp
    · have h' : (s2 != d) = true := by simp [Ne.symm h]
      simp only [if_neg h, List.filter_cons, h', if_true, List.map_cons, List.flatten_cons, List.length_append]
      rw [Nat.mul_add]; omega

/-- the pairs `count_exact` counts for the dominant id `d` -/
def pairsAt (t : TrRel) (d : Nat) : List (Int × Int) :=
  (setAt t d).flatMap fun x => (setList t t.conn d).map fun y => (x, y)

theorem length_setList (t : TrRel) (m : NMap) (d : Nat) :
    (setList t m d).length = ((((alGet m d).getD []).filter (· != d)).map (setAt t)).flatten.length + (setAt t d).length := by
  unfold setList setAt
  simp [List.map_append, List.flatten_append]

/-- the dominant ids, as `count_exact` computes them -/
def domList (t : TrRel) : List Nat := ((List.range t.sets.length).map fun i => (t.getDominantId i).getD 0).eraseDups

theorem mem_domList {t : TrRel} {ps : List (Int × Int)} (C : Core t ps) (d : Nat) : d ∈ domList t ↔ IsDom t d := by
  unfold domList
  rw [List.mem_eraseDups, List.mem_map]
  constructor
  · rintro ⟨i, hi, rfl⟩
    rw [List.mem_range] at hi
    obtain ⟨d', hd'⟩ := C.forest i
    have : t.getDominantId i = .ok d' := hd'
    rw [this]
    exact ⟨aux_lt (fun i p h => (C.subs_lt i p h).2) hi hd', aux_root_none hd'⟩
  · intro hd
    exact ⟨d, List.mem_range.mpr hd.1, by rw [getDominantId_dom hd]; rfl⟩

/-- the outer loop body of `count_exact` for a dominant id -/
theorem outer_body {t : TrRel} {ps : List (Int × Int)} (C : Core t ps) {d : Nat} (hd : IsDom t d) (r : Nat) :
    (do
      let __do_lift ← unwrap t.sets[d]?
      let __do_lift_1 ← t.getSetConnections d
      match __do_lift_1 with
        | none => pure (ForInStep.yield (r + __do_lift.length * __do_lift.length))
        | some ss => do
          let __s ← forIn ss (r + __do_lift.length * __do_lift.length) fun s2 __s =>
            if (d == s2) = true then pure (ForInStep.yield __s)
            else do
              let __do_lift_2 ← unwrap t.sets[s2]?
              pure (ForInStep.yield (__s + __do_lift.length * __do_lift_2.length))
          pure (ForInStep.yield __s) : Res (ForInStep Nat)) = .ok (.yield (r + (pairsAt t d).length)) := by
  have hlen : (pairsAt t d).length = (setAt t d).length * (setAt t d).length +
      (setAt t d).length * ((((alGet t.conn d).getD []).filter (· != d)).map (setAt t)).flatten.length := by
    unfold pairsAt
    rw [length_flatMap_map, length_setList, Nat.mul_add]; omega
  rw [unwrap_sets_of_lt hd.1]
  simp only [Res.bind_ok]
  unfold TrRel.getSetConnections
  cases hc : alGet t.conn d with
  | none =>
    simp only [Res.bind_ok, Res.pure_eq]
    rw [hlen, hc]; simp
  | some c =>
    have hdoms : ∀ s ∈ c, IsDom t s := fun s hs => (C.conn_dom d s ⟨c, hc, hs⟩).2
    simp only [mapM_getDominantId_dom c hdoms, Res.bind_ok, Res.pure_eq,
      dedupConsecutive_of_nodup c (C.conn_vals d c hc)]
    rw [forIn_yield c _ _ (fun s2 r => if d = s2 then r else r + (setAt t d).length * (setAt t s2).length)]
    · simp only [Res.bind_ok]
      rw [inner_fold, hlen, hc]
      simp only [Option.getD_some]
      congr 2; omega
    · intro s2 hs2 r'
      by_cases h : d = s2
      · simp [h]
      · have : (d == s2) = false := by simp [h]
        simp only [this, Bool.false_eq_true, if_false, if_neg h, unwrap_sets_of_lt (hdoms s2 hs2).1, Res.bind_ok]

/-- **`count_exact`** never panics and returns the number of pairs of the reference closure -/
theorem countExact_spec {t : TrRel} {ps : List (Int × Int)} (I : Inv t ps) :
    ∃ L : List (Int × Int), L.Nodup ∧ (∀ p, p ∈ L ↔ Closure ps p.1 p.2) ∧ t.countExact = .ok L.length := by
  have C := I.core
  refine ⟨(domList t).flatMap (pairsAt t), ?_, ?_, ?_⟩
  · -- no pair is listed twice
    unfold List.Nodup
    rw [List.pairwise_flatMap]
    constructor
    · intro d hd
      have hd' := (mem_domList C d).mp hd
      have hl := (setOfBySetIdIn_eq C ⟨C.conn_keys, C.conn_vals⟩ (rt_of_none hd'.2) hd' (fun s h => (C.conn_dom d s h).2)).2.1
      unfold pairsAt
      rw [List.pairwise_flatMap]
      constructor
      · intro x _
        rw [List.pairwise_map]
        exact List.Pairwise.imp (fun hab e => hab (by cases e; rfl)) hl
      · have hs : (setAt t d).Nodup := by
          unfold setAt
          rw [List.getElem?_eq_getElem hd'.1]
          exact C.sets_nodup d _ (List.getElem?_eq_getElem hd'.1)
        refine List.Pairwise.imp ?_ hs
        intro a b hab p hp q hq hpq
        simp only [List.mem_map] at hp hq
        obtain ⟨_, _, rfl⟩ := hp
        obtain ⟨_, _, rfl⟩ := hq
        exact hab (by cases hpq; rfl)
    · refine List.Pairwise.imp ?_ (nodup_eraseDups _)
      intro a b hab p hp q hq hpq
      subst hpq
      unfold pairsAt at hp hq
      simp only [List.mem_flatMap, List.mem_map] at hp hq
      obtain ⟨x, hx, _, _, rfl⟩ := hp
      obtain ⟨x', hx', _, _, e⟩ := hq
      cases e
      exact hab (C.disjoint a b x ((mem_setAt t a x).mp hx) ((mem_setAt t b x).mp hx'))
  · -- exactly the closure pairs
    rintro ⟨p1, p2⟩
    simp only [List.mem_flatMap]
    constructor
    · rintro ⟨d, hd, hp⟩
      have hd' := (mem_domList C d).mp hd
      have hm := (setOfBySetIdIn_eq C ⟨C.conn_keys, C.conn_vals⟩ (rt_of_none hd'.2) hd' (fun s h => (C.conn_dom d s h).2)).2.2
      unfold pairsAt at hp
      simp only [List.mem_flatMap, List.mem_map, Prod.mk.injEq] at hp
      obtain ⟨x, hx, y, hy, rfl, rfl⟩ := hp
      exact (linked_iff_closure I x y).mp ⟨d, (mem_setAt t d x).mp hx, (hm y).mp hy⟩
    · intro hc
      obtain ⟨d, hx, h⟩ := (linked_iff_closure I p1 p2).mpr hc
      have hd' := C.mem_dom hx
      have hm := (setOfBySetIdIn_eq C ⟨C.conn_keys, C.conn_vals⟩ (rt_of_none hd'.2) hd' (fun s h => (C.conn_dom d s h).2)).2.2
      refine ⟨d, (mem_domList C d).mpr hd', ?_⟩
      unfold pairsAt
      simp only [List.mem_flatMap, List.mem_map, Prod.mk.injEq]
      exact ⟨p1, (mem_setAt t d p1).mpr hx, p2, (hm p2).mpr h, rfl, rfl⟩
  · -- the computation
    unfold TrRel.countExact
    rw [mapM_ok_map (f := fun s => t.getDominantId s) 0 _ fun i _ => C.forest i]
    simp only [Res.bind_ok]
    have hbody : ∀ d ∈ domList t, ∀ r, (do
        let __do_lift ← unwrap t.sets[d]?
        let __do_lift_1 ← t.getSetConnections d
        match __do_lift_1 with
          | none => pure (ForInStep.yield (r + __do_lift.length * __do_lift.length))
          | some ss => do
            let __s ← forIn ss (r + __do_lift.length * __do_lift.length) fun s2 __s =>
              if (d == s2) = true then pure (ForInStep.yield __s)
              else do
                let __do_lift_2 ← unwrap t.sets[s2]?
                pure (ForInStep.yield (__s + __do_lift.length * __do_lift_2.length))
            pure (ForInStep.yield __s) : Res (ForInStep Nat)) = .ok (.yield (r + (pairsAt t d).length)) :=
      fun d hd r => outer_body C ((mem_domList C d).mp hd) r
    have hfold : ∀ (L : List Nat) (r0 : Nat), L.foldl (fun r d => r + (pairsAt t d).length) r0 = r0 + (L.flatMap (pairsAt t)).length := by
      intro L
      induction L with
      | nil => simp
      | cons d rest ih => intro r0; simp only [List.foldl_cons, ih, List.flatMap_cons, List.length_append]; omega
    unfold domList at hbody ⊢
    refine Eq.trans (congrArg (fun x : Res Nat => x >>= fun s => pure s)
      (forIn_yield _ 0 _ (fun d r => r + (pairsAt t d).length) ?_)) ?_
    · exact hbody
    · simp only [Res.bind_ok, Res.pure_eq, hfold, Nat.zero_add]

end AscentVerif.TrRel
