import AscentVerif.Proofs.DesugarPWNSem
/-!
# Semantic correctness of the pattern-argument pass `patItems`
-/
namespace AscentVerif.Surface
open AscentVerif AscentVerif.Engine

variable {E B G P A : Type}

theorem patScoped_tail {varsE : E → List Var} {a : SArg E P} {as : List (SArg E P)} (h : PatScopedArgs varsE (a :: as)) :
    PatScopedArgs varsE as := by
  intro pre p vs post he v hv hmem
  refine h (a :: pre) p vs post (by rw [he]; rfl) v hv ?_
  simp only [List.cons_append, List.flatMap_cons, List.mem_append]
  exact .inr hmem

/-- the generated `if let` condition reads the generated column -/
theorem satConds_ifLet_var {I : Interp E B G P A} {ops : Ops E B G A} (hS : SugarSound I ops) (p : P) (vs : List Var) (g : Var)
    (C : List (Cond E B P)) (ρ₁ : Env) (x : Val) (hg : Env.get? ρ₁ g = some x) :
    satConds I (Cond.ifLet p vs (ops.varE g) :: C) ρ₁ =
      (I.pat p x).bind fun ys => if ys.length = vs.length then satConds I C (vs.zip ys ++ ρ₁) else none := by
  simp only [satConds, satCond, hS.varE g ρ₁ x hg]
  cases I.pat p x with
  | none => rfl
  | some ys =>
    simp only [Option.bind_some]
    split <;> rfl

/-- one `?pattern` argument: the column variable now, the `if let` after all the arguments -/
theorem pat_step {I : Interp E B G P A} {ops : Ops E B G A} {varsB : B → List Var} {varsG : G → List Var}
    (hS : SugarSound I ops) (hV : VarsSound I ops.varsE varsB varsG) (p : P) (vs : List Var)
    (as as' : List (SArg E P)) (C : List (Cond E B P)) (k k'' : Nat) (x : Val) (xs : Tuple) (ρ σ : Env)
    (hvs_np : ∀ v ∈ vs, ¬ GenOf gsPat v)
    (has' : ∀ v ∈ as'.flatMap (SArg.mentions ops.varsE), v ∉ vs ∧ v ≠ gsPat k)
    (ha : AgreeOff (GenOf gsPat) ρ σ) (hu : Unbound gsPat k ρ)
    (ih : ∀ ρ σ, AgreeOff (GenOf gsPat) ρ σ → Unbound gsPat (k + 1) ρ →
      OptRel (fun ρ₂ σ₁ => AgreeOff (GenOf gsPat) ρ₂ σ₁ ∧ Unbound gsPat k'' ρ₂)
        ((matchSArgs I as' xs ρ).bind (satConds I C)) (matchSArgs I as xs σ)) :
    OptRel (fun ρ₂ σ₁ => AgreeOff (GenOf gsPat) ρ₂ σ₁ ∧ Unbound gsPat k'' ρ₂)
      ((matchSArgs I as' xs ((gsPat k, x) :: ρ)).bind (satConds I (Cond.ifLet p vs (ops.varE (gsPat k)) :: C)))
      ((I.pat p x).bind fun ys => if ys.length = vs.length then matchSArgs I as xs (vs.zip ys ++ σ) else none) := by
  have hagree : ∀ ys : List Val, Agree (as'.flatMap (SArg.mentions ops.varsE))
      (vs.zip ys ++ (gsPat k, x) :: ρ) ((gsPat k, x) :: ρ) :=
    fun ys => agree_append_left (fun q hq hmem => (has' _ hmem).1 (zip_keys hq)) _
  have hih : ∀ ys : List Val, OptRel (fun ρ₂ σ₁ => AgreeOff (GenOf gsPat) ρ₂ σ₁ ∧ Unbound gsPat k'' ρ₂)
      ((matchSArgs I as' xs (vs.zip ys ++ (gsPat k, x) :: ρ)).bind (satConds I C)) (matchSArgs I as xs (vs.zip ys ++ σ)) :=
    fun ys => ih _ _ ((ha.cons_left ⟨k, rfl⟩ x).append _)
      ((hu.cons_gen gsPat_inj x).append (fun q hq => hvs_np _ (zip_keys hq)))
  cases hM : matchSArgs I as' xs ((gsPat k, x) :: ρ) with
  | none =>
    simp only [Option.bind_none]
    cases hq : I.pat p x with
    | none => simp only [Option.bind_none, optRel_none_none]
    | some ys =>
      simp only [Option.bind_some]
      by_cases hl : ys.length = vs.length
      · simp only [if_pos hl]
        have h1 := hih ys
        have hnone : matchSArgs I as' xs (vs.zip ys ++ (gsPat k, x) :: ρ) = none := by
          cases hM' : matchSArgs I as' xs (vs.zip ys ++ (gsPat k, x) :: ρ) with
          | none => rfl
          | some ρ'' =>
            obtain ⟨n, _, _, hf⟩ := matchSArgs_frame hV as' xs _ ρ'' hM'
            rw [hf ((gsPat k, x) :: ρ) (hagree ys)] at hM
            cases hM
        rw [hnone] at h1
        simp only [Option.bind_none] at h1
        cases hN : matchSArgs I as xs (vs.zip ys ++ σ) with
        | none => trivial
        | some _ => rw [hN] at h1; exact h1.elim
      · simp only [if_neg hl, optRel_none_none]
  | some ρ₁ =>
    obtain ⟨n, rfl, hk, hf⟩ := matchSArgs_frame hV as' xs _ ρ₁ hM
    have hgx : Env.get? (n ++ (gsPat k, x) :: ρ) (gsPat k) = some x := by
      rw [get?_append_of_not_key (fun q hq he => (has' _ (hk q hq)).2 he), get?_cons, if_pos rfl]
    simp only [Option.bind_some]
    rw [satConds_ifLet_var hS p vs (gsPat k) C _ x hgx]
    cases hq : I.pat p x with
    | none => simp only [Option.bind_none, optRel_none_none]
    | some ys =>
      simp only [Option.bind_some]
      by_cases hl : ys.length = vs.length
      · simp only [if_pos hl]
        have h1 := hih ys
        rw [hf (vs.zip ys ++ (gsPat k, x) :: ρ) (hagree ys).symm] at h1
        simp only [Option.bind_some] at h1
        have heqv : EnvEqv (vs.zip ys ++ (n ++ (gsPat k, x) :: ρ)) (n ++ (vs.zip ys ++ (gsPat k, x) :: ρ)) :=
          envEqv_append_comm (fun q hq q' hq' he => (has' _ (hk q' hq')).1 (he ▸ zip_keys hq)) _
        exact (satConds_envEqv hV C heqv).trans_left h1
          (fun a b c hab hbc => ⟨AgreeOff.of_envEqv_left hab hbc.1, Unbound.of_envEqv hab hbc.2⟩)
      · simp only [if_neg hl, optRel_none_none]

theorem patArgs_sim {I : Interp E B G P A} {ops : Ops E B G A} {varsB : B → List Var} {varsG : G → List Var}
    (hS : SugarSound I ops) (hV : VarsSound I ops.varsE varsB varsG) (as : List (SArg E P)) :
    ∀ (t : Tuple) (k : Nat) (ρ σ : Env),
      (∀ v ∈ as.flatMap (SArg.mentions ops.varsE), ¬ GenOf gsPat v) → PatScopedArgs ops.varsE as →
      AgreeOff (GenOf gsPat) ρ σ → Unbound gsPat k ρ →
      OptRel (fun ρ₂ σ₁ => AgreeOff (GenOf gsPat) ρ₂ σ₁ ∧ Unbound gsPat (patArgs (B := B) ops as k).2.2 ρ₂)
        ((matchSArgs I (patArgs (B := B) ops as k).1 t ρ).bind (satConds I (patArgs ops as k).2.1)) (matchSArgs I as t σ) := by
  induction as with
  | nil =>
    intro t k ρ σ _ _ ha hu
    cases t with
    | nil => simp only [patArgs, matchSArgs, Option.bind_some, satConds, optRel_some_some]; exact ⟨ha, hu⟩
    | cons x xs => simp only [patArgs, matchSArgs, Option.bind_none, optRel_none_none]
  | cons a as ih =>
    intro t k ρ σ hm hps ha hu
    have hm' : ∀ v ∈ as.flatMap (SArg.mentions ops.varsE), ¬ GenOf gsPat v :=
      fun v hv => hm v (by simp only [List.flatMap_cons, List.mem_append]; exact .inr hv)
    have hma : ∀ v ∈ SArg.mentions ops.varsE a, ¬ GenOf gsPat v :=
      fun v hv => hm v (by simp only [List.flatMap_cons, List.mem_append]; exact .inl hv)
    have hps' := patScoped_tail hps
    cases t with
    | nil => cases a <;> simp [patArgs, matchSArgs]
    | cons x xs =>
      cases a with
      | var v =>
        have hv : ¬ GenOf gsPat v := hma v (by simp [SArg.mentions])
        simp only [patArgs, matchSArgs]
        rw [ha v hv]
        cases hg : σ.get? v with
        | none => exact ih xs k _ _ hm' hps' (ha.cons v x) (hu.cons hv x)
        | some y =>
          simp only
          by_cases hxy : x = y
          · simp only [if_pos hxy]; exact ih xs k ρ σ hm' hps' ha hu
          · simp only [if_neg hxy, Option.bind_none, optRel_none_none]
      | expr e =>
        have he : I.expr e ρ = I.expr e σ :=
          hV.expr e ρ σ (ha.agree (fun v hv => hma v (by simpa [SArg.mentions] using hv)))
        simp only [patArgs, matchSArgs, he]
        by_cases hx : I.expr e σ = x
        · simp only [if_pos hx]; exact ih xs k ρ σ hm' hps' ha hu
        · simp only [if_neg hx, Option.bind_none, optRel_none_none]
      | wild =>
        simp only [patArgs, matchSArgs]
        exact ih xs k ρ σ hm' hps' ha hu
      | pat p vs =>
        have hvs_np : ∀ v ∈ vs, ¬ GenOf gsPat v := fun v hv => hma v (by simpa [SArg.mentions] using hv)
        have hvs_as : ∀ v ∈ vs, v ∉ as.flatMap (SArg.mentions ops.varsE) := fun v hv => hps [] p vs as rfl v hv
        simp only [patArgs, matchSArgs, hu k (Nat.le_refl k)]
        refine pat_step hS hV p vs as _ _ k _ x xs ρ σ hvs_np ?_ ha hu
          (fun ρ' σ' ha' hu' => ih xs (k + 1) ρ' σ' hm' hps' ha' hu')
        intro v hv
        rcases patArgs_mentions ops ops.varsE as (k + 1) v hv with ⟨j, hj, rfl⟩ | hmem
        · exact ⟨fun hin => hvs_np _ hin ⟨j, rfl⟩, fun he => by have := gsPat_inj _ _ he; omega⟩
        · exact ⟨fun hin => hvs_as v hin hmem, fun he => hm' v hmem ⟨k, he⟩⟩

theorem patItems_sim {I : Interp E B G P A} {ops : Ops E B G A} {varsB : B → List Var} {varsG : G → List Var}
    (hS : SugarSound I ops) (hV : VarsSound I ops.varsE varsB varsG) (D : DB) (agg : RelId → List Tuple)
    (fs : List (FItem E B G P A)) :
    ∀ k, (∀ f ∈ fs, ∀ v ∈ FItem.mentions ops.varsE varsB varsG f, ¬ GenOf gsPat v) →
      (∀ r as cs, FItem.clause r as cs ∈ fs → PatScopedArgs ops.varsE as) →
      ListSim I D agg gsPat (patItems ops fs k) fs k := by
  induction fs with
  | nil => intro k _ _; exact listSim_nil I D agg gsPat k
  | cons f rest ih =>
    intro k hm hps
    have hmf := hm f (by simp)
    have hmr : ∀ f ∈ rest, ∀ v ∈ FItem.mentions ops.varsE varsB varsG f, ¬ GenOf gsPat v :=
      fun g hg => hm g (List.mem_cons_of_mem _ hg)
    have hpsr : ∀ r as cs, FItem.clause r as cs ∈ rest → PatScopedArgs ops.varsE as :=
      fun r as cs h => hps r as cs (List.mem_cons_of_mem _ h)
    cases f with
    | clause r as cs =>
      simp only [patItems]
      refine listSim_cons ?_ (ih _ hmr hpsr)
      refine itemSim_clause r
        (fun t ρ => ((matchSArgs I (patArgs (B := B) ops as k).1 t ρ).bind (satConds I (patArgs ops as k).2.1)).bind (satConds I cs))
        (fun t ρ => (matchSArgs I as t ρ).bind (satConds I cs)) ?_ (stepF_clause_iff I D agg r as cs) ?_
      · intro ρ ρ'
        rw [stepF_clause_iff]
        have : ∀ t, (matchSArgs I (patArgs (B := B) ops as k).1 t ρ).bind (satConds I ((patArgs ops as k).2.1 ++ cs)) =
            ((matchSArgs I (patArgs (B := B) ops as k).1 t ρ).bind (satConds I (patArgs ops as k).2.1)).bind (satConds I cs) := by
          intro t
          cases matchSArgs I (patArgs (B := B) ops as k).1 t ρ with
          | none => rfl
          | some ρ₁ => simp only [Option.bind_some, satConds_append]
        simp only [this]
      · intro t ρ σ ha hu
        refine (patArgs_sim hS hV as t k ρ σ ?_ (hps r as cs (by simp)) ha hu).bind ?_
        · intro v hv
          exact hmf v (by simp only [FItem.mentions, List.mem_append]; exact .inl hv)
        · rintro ρ₁ σ₁ ⟨ha₁, hu₁⟩
          exact satConds_sim hV gsPat cs
            (fun v hv => hmf v (by simp only [FItem.mentions, List.mem_append]; exact .inr hv)) _ ha₁ hu₁
    | cond c => simp only [patItems]; exact listSim_cons (itemSim_same hV D agg gsPat _ hmf k) (ih k hmr hpsr)
    | gen w g => simp only [patItems]; exact listSim_cons (itemSim_same hV D agg gsPat _ hmf k) (ih k hmr hpsr)
    | agg a => simp only [patItems]; exact listSim_cons (itemSim_same hV D agg gsPat _ hmf k) (ih k hmr hpsr)
    | neg r as => simp only [patItems]; exact listSim_cons (itemSim_same hV D agg gsPat _ hmf k) (ih k hmr hpsr)

end AscentVerif.Surface
