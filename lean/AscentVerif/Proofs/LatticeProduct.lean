import AscentVerif.Spec.LatticeLaws
/-!
# Component-wise products: a generic "pair of lawful lattices" lemma
-/
namespace AscentVerif.Lat

/-- the product of two comparison results -/
def comb2 (p q : Option Ordering) : Option Ordering :=
  match p, q with
  | some o1, some o2 => combineOrderings o1 o2
  | _, _ => none

theorem combineOrderings_comm (o1 o2 : Ordering) : combineOrderings o1 o2 = combineOrderings o2 o1 := by
  cases o1 <;> cases o2 <;> rfl

theorem combineOrderings_eq_right (o : Ordering) : combineOrderings o .eq = some o := by
  cases o <;> rfl

theorem combineOrderings_eq_left (o : Ordering) : combineOrderings .eq o = some o := by
  cases o <;> rfl

theorem combineOrderings_assoc (o ord res : Ordering) :
    (combineOrderings o ord).bind (fun r => combineOrderings r res) =
      (combineOrderings ord res).bind (fun r => combineOrderings o r) := by
  cases o <;> cases ord <;> cases res <;> rfl

def leO (p : Option Ordering) : Bool := p == some .lt || p == some .eq

theorem le_eq_leO {α : Type} [Lat α] (a b : α) : le a b = leO (pcmp a b) := rfl

theorem leO_comb2 (p q : Option Ordering) : leO (comb2 p q) = (leO p && leO q) := by
  rcases p with _ | p <;> rcases q with _ | q
  · rfl
  · cases q <;> rfl
  · cases p <;> rfl
  · cases p <;> cases q <;> rfl

theorem comb2_eq_eq (p q : Option Ordering) (h : comb2 p q = some .eq) : p = some .eq ∧ q = some .eq := by
  rcases p with _ | p <;> rcases q with _ | q
  · cases h
  · cases h
  · cases h
  · cases p <;> cases q <;> first | exact ⟨rfl, rfl⟩ | cases h

theorem comb2_swap (p q : Option Ordering) :
    comb2 (p.map Ordering.swap) (q.map Ordering.swap) = (comb2 p q).map Ordering.swap := by
  rcases p with _ | p <;> rcases q with _ | q
  · rfl
  · rfl
  · rfl
  · cases p <;> cases q <;> rfl

/-- `γ` (restricted to `WFc`) is the component-wise product of `α` and `β` via `mk` -/
structure PairLike (α β γ : Type) [Lat α] [Lat β] [Lat γ] (WFa : α → Prop) (WFb : β → Prop)
    (WFc : γ → Prop) (mk : α → β → γ) : Prop where
  surj : ∀ c, WFc c → ∃ a b, c = mk a b
  inj : ∀ a b a' b', mk a b = mk a' b' → a = a' ∧ b = b'
  wf : ∀ a b, WFc (mk a b) ↔ WFa a ∧ WFb b
  pcmp_mk : ∀ a b a' b', pcmp (mk a b) (mk a' b') = comb2 (pcmp a a') (pcmp b b')
  join_mk : ∀ a b a' b', WFa a → WFb b → WFa a' → WFb b' →
    join (mk a b) (mk a' b') = mk (join a a') (join b b')
  meet_mk : ∀ a b a' b', WFa a → WFb b → WFa a' → WFb b' →
    meet (mk a b) (mk a' b') = mk (meet a a') (meet b b')
  joinMut_mk : ∀ a b a' b', WFa a → WFb b → WFa a' → WFb b' →
    joinMut (mk a b) (mk a' b') =
      (mk (joinMut a a').1 (joinMut b b').1, (joinMut a a').2 || (joinMut b b').2)
  meetMut_mk : ∀ a b a' b', WFa a → WFb b → WFa a' → WFb b' →
    meetMut (mk a b) (mk a' b') =
      (mk (meetMut a a').1 (meetMut b b').1, (meetMut a a').2 || (meetMut b b').2)

section
variable {α β γ : Type} [Lat α] [Lat β] [Lat γ] {WFa : α → Prop} {WFb : β → Prop}
    {WFc : γ → Prop} {mk : α → β → γ}

theorem PairLike.le_mk (P : PairLike α β γ WFa WFb WFc mk) (a : α) (b : β) (a' : α) (b' : β) :
    le (mk a b) (mk a' b') = (le a a' && le b b') := by
  rw [le_eq_leO, P.pcmp_mk, leO_comb2]; rfl

theorem PairLike.le_mk_iff (P : PairLike α β γ WFa WFb WFc mk) (a : α) (b : β) (a' : α) (b' : β) :
    le (mk a b) (mk a' b') = true ↔ (le a a' = true ∧ le b b' = true) := by
  rw [P.le_mk, Bool.and_eq_true]

theorem lawful_pair (P : PairLike α β γ WFa WFb WFc mk) (ha : LawfulLat α WFa) (hb : LawfulLat β WFb) :
    LawfulLat γ WFc where
  pcmp_refl c hc := by
    obtain ⟨a, b, rfl⟩ := P.surj c hc
    obtain ⟨wa, wb⟩ := (P.wf a b).1 hc
    rw [P.pcmp_mk, ha.pcmp_refl a wa, hb.pcmp_refl b wb]; rfl
  eq_of_pcmp_eq c d hc hd h := by
    obtain ⟨a, b, rfl⟩ := P.surj c hc
    obtain ⟨a', b', rfl⟩ := P.surj d hd
    obtain ⟨wa, wb⟩ := (P.wf a b).1 hc
    obtain ⟨wa', wb'⟩ := (P.wf a' b').1 hd
    rw [P.pcmp_mk] at h
    obtain ⟨h1, h2⟩ := comb2_eq_eq _ _ h
    rw [ha.eq_of_pcmp_eq a a' wa wa' h1, hb.eq_of_pcmp_eq b b' wb wb' h2]
  pcmp_swap c d hc hd := by
    obtain ⟨a, b, rfl⟩ := P.surj c hc
    obtain ⟨a', b', rfl⟩ := P.surj d hd
    obtain ⟨wa, wb⟩ := (P.wf a b).1 hc
    obtain ⟨wa', wb'⟩ := (P.wf a' b').1 hd
    rw [P.pcmp_mk, P.pcmp_mk, ha.pcmp_swap a a' wa wa', hb.pcmp_swap b b' wb wb', comb2_swap]
  le_trans c d e hc hd he h1 h2 := by
    obtain ⟨a, b, rfl⟩ := P.surj c hc
    obtain ⟨a', b', rfl⟩ := P.surj d hd
    obtain ⟨a'', b'', rfl⟩ := P.surj e he
    obtain ⟨wa, wb⟩ := (P.wf a b).1 hc
    obtain ⟨wa', wb'⟩ := (P.wf a' b').1 hd
    obtain ⟨wa'', wb''⟩ := (P.wf a'' b'').1 he
    rw [P.le_mk_iff] at *
    exact ⟨ha.le_trans a a' a'' wa wa' wa'' h1.1 h2.1, hb.le_trans b b' b'' wb wb' wb'' h1.2 h2.2⟩
  join_wf c d hc hd := by
    obtain ⟨a, b, rfl⟩ := P.surj c hc
    obtain ⟨a', b', rfl⟩ := P.surj d hd
    obtain ⟨wa, wb⟩ := (P.wf a b).1 hc
    obtain ⟨wa', wb'⟩ := (P.wf a' b').1 hd
    rw [P.join_mk a b a' b' wa wb wa' wb', P.wf]
    exact ⟨ha.join_wf a a' wa wa', hb.join_wf b b' wb wb'⟩
  meet_wf c d hc hd := by
    obtain ⟨a, b, rfl⟩ := P.surj c hc
    obtain ⟨a', b', rfl⟩ := P.surj d hd
    obtain ⟨wa, wb⟩ := (P.wf a b).1 hc
    obtain ⟨wa', wb'⟩ := (P.wf a' b').1 hd
    rw [P.meet_mk a b a' b' wa wb wa' wb', P.wf]
    exact ⟨ha.meet_wf a a' wa wa', hb.meet_wf b b' wb wb'⟩
  le_join_left c d hc hd := by
    obtain ⟨a, b, rfl⟩ := P.surj c hc
    obtain ⟨a', b', rfl⟩ := P.surj d hd
    obtain ⟨wa, wb⟩ := (P.wf a b).1 hc
    obtain ⟨wa', wb'⟩ := (P.wf a' b').1 hd
    rw [P.join_mk a b a' b' wa wb wa' wb', P.le_mk_iff]
    exact ⟨ha.le_join_left a a' wa wa', hb.le_join_left b b' wb wb'⟩
  le_join_right c d hc hd := by
    obtain ⟨a, b, rfl⟩ := P.surj c hc
    obtain ⟨a', b', rfl⟩ := P.surj d hd
    obtain ⟨wa, wb⟩ := (P.wf a b).1 hc
    obtain ⟨wa', wb'⟩ := (P.wf a' b').1 hd
    rw [P.join_mk a b a' b' wa wb wa' wb', P.le_mk_iff]
    exact ⟨ha.le_join_right a a' wa wa', hb.le_join_right b b' wb wb'⟩
  join_le c d e hc hd he h1 h2 := by
    obtain ⟨a, b, rfl⟩ := P.surj c hc
    obtain ⟨a', b', rfl⟩ := P.surj d hd
    obtain ⟨a'', b'', rfl⟩ := P.surj e he
    obtain ⟨wa, wb⟩ := (P.wf a b).1 hc
    obtain ⟨wa', wb'⟩ := (P.wf a' b').1 hd
    obtain ⟨wa'', wb''⟩ := (P.wf a'' b'').1 he
    rw [P.join_mk a b a' b' wa wb wa' wb']
    rw [P.le_mk_iff] at *
    exact ⟨ha.join_le a a' a'' wa wa' wa'' h1.1 h2.1, hb.join_le b b' b'' wb wb' wb'' h1.2 h2.2⟩
  meet_le_left c d hc hd := by
    obtain ⟨a, b, rfl⟩ := P.surj c hc
    obtain ⟨a', b', rfl⟩ := P.surj d hd
    obtain ⟨wa, wb⟩ := (P.wf a b).1 hc
    obtain ⟨wa', wb'⟩ := (P.wf a' b').1 hd
    rw [P.meet_mk a b a' b' wa wb wa' wb', P.le_mk_iff]
    exact ⟨ha.meet_le_left a a' wa wa', hb.meet_le_left b b' wb wb'⟩
  meet_le_right c d hc hd := by
    obtain ⟨a, b, rfl⟩ := P.surj c hc
    obtain ⟨a', b', rfl⟩ := P.surj d hd
    obtain ⟨wa, wb⟩ := (P.wf a b).1 hc
    obtain ⟨wa', wb'⟩ := (P.wf a' b').1 hd
    rw [P.meet_mk a b a' b' wa wb wa' wb', P.le_mk_iff]
    exact ⟨ha.meet_le_right a a' wa wa', hb.meet_le_right b b' wb wb'⟩
  le_meet c d e hc hd he h1 h2 := by
    obtain ⟨a, b, rfl⟩ := P.surj c hc
    obtain ⟨a', b', rfl⟩ := P.surj d hd
    obtain ⟨a'', b'', rfl⟩ := P.surj e he
    obtain ⟨wa, wb⟩ := (P.wf a b).1 hc
    obtain ⟨wa', wb'⟩ := (P.wf a' b').1 hd
    obtain ⟨wa'', wb''⟩ := (P.wf a'' b'').1 he
    rw [P.meet_mk a b a' b' wa wb wa' wb']
    rw [P.le_mk_iff] at *
    exact ⟨ha.le_meet a a' a'' wa wa' wa'' h1.1 h2.1, hb.le_meet b b' b'' wb wb' wb'' h1.2 h2.2⟩
  joinMut_fst c d hc hd := by
    obtain ⟨a, b, rfl⟩ := P.surj c hc
    obtain ⟨a', b', rfl⟩ := P.surj d hd
    obtain ⟨wa, wb⟩ := (P.wf a b).1 hc
    obtain ⟨wa', wb'⟩ := (P.wf a' b').1 hd
    rw [P.joinMut_mk a b a' b' wa wb wa' wb', P.join_mk a b a' b' wa wb wa' wb',
      ha.joinMut_fst a a' wa wa', hb.joinMut_fst b b' wb wb']
  joinMut_snd c d hc hd := by
    obtain ⟨a, b, rfl⟩ := P.surj c hc
    obtain ⟨a', b', rfl⟩ := P.surj d hd
    obtain ⟨wa, wb⟩ := (P.wf a b).1 hc
    obtain ⟨wa', wb'⟩ := (P.wf a' b').1 hd
    rw [P.joinMut_mk a b a' b' wa wb wa' wb', P.join_mk a b a' b' wa wb wa' wb']
    show ((joinMut a a').2 || (joinMut b b').2) = true ↔ _
    rw [Bool.or_eq_true, ha.joinMut_snd a a' wa wa', hb.joinMut_snd b b' wb wb']
    constructor
    · intro h e
      obtain ⟨e1, e2⟩ := P.inj _ _ _ _ e
      rcases h with h | h
      · exact h e1
      · exact h e2
    · intro h
      by_cases e1 : join a a' = a
      · right
        intro e2
        apply h
        rw [e1, e2]
      · exact Or.inl e1
  meetMut_fst c d hc hd := by
    obtain ⟨a, b, rfl⟩ := P.surj c hc
    obtain ⟨a', b', rfl⟩ := P.surj d hd
    obtain ⟨wa, wb⟩ := (P.wf a b).1 hc
    obtain ⟨wa', wb'⟩ := (P.wf a' b').1 hd
    rw [P.meetMut_mk a b a' b' wa wb wa' wb', P.meet_mk a b a' b' wa wb wa' wb',
      ha.meetMut_fst a a' wa wa', hb.meetMut_fst b b' wb wb']
  meetMut_snd c d hc hd := by
    obtain ⟨a, b, rfl⟩ := P.surj c hc
    obtain ⟨a', b', rfl⟩ := P.surj d hd
    obtain ⟨wa, wb⟩ := (P.wf a b).1 hc
    obtain ⟨wa', wb'⟩ := (P.wf a' b').1 hd
    rw [P.meetMut_mk a b a' b' wa wb wa' wb', P.meet_mk a b a' b' wa wb wa' wb']
    show ((meetMut a a').2 || (meetMut b b').2) = true ↔ _
    rw [Bool.or_eq_true, ha.meetMut_snd a a' wa wa', hb.meetMut_snd b b' wb wb']
    constructor
    · intro h e
      obtain ⟨e1, e2⟩ := P.inj _ _ _ _ e
      rcases h with h | h
      · exact h e1
      · exact h e2
    · intro h
      by_cases e1 : meet a a' = a
      · right
        intro e2
        apply h
        rw [e1, e2]
      · exact Or.inl e1

end

end AscentVerif.Lat
