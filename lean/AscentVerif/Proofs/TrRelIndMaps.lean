import AscentVerif.Model.TrRelInd
/-!
# Association-list lemmas for `Model/TrRelInd.lean`

`smGet` / `smHas` / `smPush` / `smPairs` / `smAppend`, the well-formedness predicates `KeysNodup` (every key at most once)
and `SetsNodup` (every stored collection without repetition), and `RelWF` (a `BinaryRel` whose reverse map mirrors its map).
-/
namespace AscentVerif.TrRelInd

/-- every key occurs at most once -/
def KeysNodup (m : SetMap) : Prop := m.Pairwise (fun a b => a.1 ≠ b.1)

/-- every stored collection is duplicate free -/
def SetsNodup (m : SetMap) : Prop := ∀ ks ∈ m, ks.2.Nodup

theorem keysNodup_nil : KeysNodup [] := List.Pairwise.nil
theorem setsNodup_nil : SetsNodup [] := fun _ h => by cases h

/-! ## `smGet`, `smHas` -/

theorem smGet_mem {m : SetMap} {k : Int} {s : List Int} (h : smGet m k = some s) : (k, s) ∈ m := by
  induction m with
  | nil => simp [smGet] at h
  | cons e rest ih =>
    obtain ⟨k', s'⟩ := e
    simp only [smGet] at h
    split at h
    · cases h; subst_vars; simp
    · exact List.mem_cons_of_mem _ (ih h)

theorem smGet_of_mem {m : SetMap} {k : Int} {s : List Int} (hk : KeysNodup m) (h : (k, s) ∈ m) : smGet m k = some s := by
  induction m with
  | nil => cases h
  | cons e rest ih =>
    obtain ⟨k', s'⟩ := e
    have hk' := List.pairwise_cons.mp hk
    simp only [smGet]
    rcases List.mem_cons.mp h with h | h
    · cases h; simp
    · have : k' ≠ k := hk'.1 _ h
      simp [this, ih hk'.2 h]

theorem smHas_iff {m : SetMap} {a b : Int} : smHas m a b = true ↔ ∃ s, smGet m a = some s ∧ b ∈ s := by
  unfold smHas
  cases smGet m a with
  | none => simp
  | some s => simp

theorem smHas_nil (a b : Int) : smHas [] a b = false := rfl

theorem smHas_false_iff {m : SetMap} {a b : Int} : smHas m a b = false ↔ ¬ smHas m a b = true := by
  cases smHas m a b <;> simp

/-! ## `smPush` -/

theorem smGet_smPush (m : SetMap) (x y k : Int) :
    smGet (smPush m x y) k = if k = x then some ((smGet m x).getD [] ++ [y]) else smGet m k := by
  induction m with
  | nil =>
    simp only [smPush, smGet]
    by_cases h : k = x
    · subst h; simp
    · have : ¬ x = k := fun e => h e.symm
      simp [h, this]
  | cons e rest ih =>
    obtain ⟨k', s'⟩ := e
    simp only [smPush]
    by_cases h1 : k' = x
    · subst h1
      simp only [if_true, smGet]
      by_cases h2 : k' = k
      · subst h2; simp
      · have : ¬ k = k' := fun e => h2 e.symm
        simp [h2, this]
    · simp only [h1, if_false, smGet, ih]
      by_cases h2 : k' = k
      · subst h2; simp [h1]
      · simp [h2]

theorem smHas_smPush {m : SetMap} {x y a b : Int} :
    smHas (smPush m x y) a b = true ↔ (smHas m a b = true ∨ (a = x ∧ b = y)) := by
  simp only [smHas_iff, smGet_smPush]
  by_cases h : a = x
  · subst h
    cases hg : smGet m a with
    | none => simp
    | some s => simp
  · simp [h]

theorem mem_smPush_key {m : SetMap} {x y : Int} {e : Int × List Int} (h : e ∈ smPush m x y) :
    e.1 = x ∨ ∃ e' ∈ m, e'.1 = e.1 := by
  induction m with
  | nil => simp [smPush] at h; left; simp [h]
  | cons e0 rest ih =>
    obtain ⟨k', s'⟩ := e0
    simp only [smPush] at h
    split at h
    · rcases List.mem_cons.mp h with h | h
      · right; exact ⟨(k', s'), by simp, by simp [h]⟩
      · right; exact ⟨e, List.mem_cons_of_mem _ h, rfl⟩
    · rcases List.mem_cons.mp h with h | h
      · right; exact ⟨(k', s'), by simp, by simp [h]⟩
      · rcases ih h with h | ⟨e', he', hk⟩
        · left; exact h
        · right; exact ⟨e', List.mem_cons_of_mem _ he', hk⟩

theorem keysNodup_smPush {m : SetMap} (x y : Int) (hk : KeysNodup m) : KeysNodup (smPush m x y) := by
  induction m with
  | nil => simp [smPush, KeysNodup]
  | cons e0 rest ih =>
    obtain ⟨k', s'⟩ := e0
    have hk' := List.pairwise_cons.mp hk
    simp only [smPush]
    split
    · exact List.pairwise_cons.mpr ⟨fun e he => hk'.1 e he, hk'.2⟩
    · rename_i hne
      refine List.pairwise_cons.mpr ⟨fun e he => ?_, ih hk'.2⟩
      rcases mem_smPush_key he with h | ⟨e', he', hk2⟩
      · simpa [h] using hne
      · have := hk'.1 e' he'
        simpa [hk2] using this

theorem setsNodup_smPush {m : SetMap} {x y : Int} (hs : SetsNodup m) (hn : smHas m x y = false) :
    SetsNodup (smPush m x y) := by
  induction m with
  | nil =>
    intro e he
    simp [smPush] at he
    subst he; simp
  | cons e0 rest ih =>
    obtain ⟨k', s'⟩ := e0
    have hs0 : s'.Nodup := hs (k', s') (by simp)
    have hsr : SetsNodup rest := fun e he => hs e (List.mem_cons_of_mem _ he)
    simp only [smPush]
    split
    · rename_i heq
      subst heq
      have hy : y ∉ s' := by
        intro hy
        have : smHas ((k', s') :: rest) k' y = true := by simp [smHas, smGet, hy]
        rw [hn] at this; cases this
      intro e he
      rcases List.mem_cons.mp he with he | he
      · subst he
        simp only
        refine List.nodup_append.mpr ⟨hs0, by simp, ?_⟩
        intro a ha b hb
        simp at hb; subst hb
        intro e; subst e; exact hy ha
      · exact hsr e he
    · rename_i hne
      have hn' : smHas rest x y = false := by
        simpa [smHas, smGet, hne] using hn
      intro e he
      rcases List.mem_cons.mp he with he | he
      · subst he; exact hs0
      · exact ih hsr hn' e he

/-! ## `smPairs` -/

theorem mem_smPairs {m : SetMap} {a b : Int} : (a, b) ∈ smPairs m ↔ ∃ s, (a, s) ∈ m ∧ b ∈ s := by
  simp only [smPairs, List.mem_flatMap, List.mem_map]
  constructor
  · rintro ⟨⟨k, s⟩, hm, y, hy, he⟩
    simp only [Prod.mk.injEq] at he
    obtain ⟨rfl, rfl⟩ := he
    exact ⟨s, hm, hy⟩
  · rintro ⟨s, hm, hb⟩
    exact ⟨(a, s), hm, b, hb, rfl⟩

theorem mem_smPairs_of_smHas {m : SetMap} {a b : Int} (h : smHas m a b = true) : (a, b) ∈ smPairs m := by
  obtain ⟨s, hg, hb⟩ := smHas_iff.mp h
  exact mem_smPairs.mpr ⟨s, smGet_mem hg, hb⟩

theorem smHas_of_mem_smPairs {m : SetMap} {a b : Int} (hk : KeysNodup m) (h : (a, b) ∈ smPairs m) : smHas m a b = true := by
  obtain ⟨s, hm, hb⟩ := mem_smPairs.mp h
  exact smHas_iff.mpr ⟨s, smGet_of_mem hk hm, hb⟩

theorem mem_smPairs_iff {m : SetMap} {a b : Int} (hk : KeysNodup m) : (a, b) ∈ smPairs m ↔ smHas m a b = true :=
  ⟨smHas_of_mem_smPairs hk, mem_smPairs_of_smHas⟩

theorem smPairs_cons (e : Int × List Int) (m : SetMap) :
    smPairs (e :: m) = (e.2.map fun y => (e.1, y)) ++ smPairs m := by
  simp [smPairs]

theorem smPairs_nodup {m : SetMap} (hk : KeysNodup m) (hs : SetsNodup m) : (smPairs m).Nodup := by
  induction m with
  | nil => simp [smPairs]
  | cons e rest ih =>
    have hk' := List.pairwise_cons.mp hk
    have hs0 : e.2.Nodup := hs e (by simp)
    have hsr : SetsNodup rest := fun e he => hs e (List.mem_cons_of_mem _ he)
    rw [smPairs_cons]
    refine List.nodup_append.mpr ⟨?_, ih hk'.2 hsr, ?_⟩
    · refine (List.pairwise_map).mpr ?_
      exact hs0.imp (fun h e => h (by simpa using e))
    · intro p hp q hq e
      subst e
      obtain ⟨y, _, rfl⟩ := List.mem_map.mp hp
      obtain ⟨s, hm, _⟩ := mem_smPairs.mp hq
      exact hk'.1 _ hm rfl

/-! ## folds of `smPush` (`smAppend`) -/

theorem smHas_foldl_push (ps : List (Int × Int)) (m : SetMap) (a b : Int) :
    smHas (ps.foldl (fun acc p => smPush acc p.1 p.2) m) a b = true ↔ (smHas m a b = true ∨ (a, b) ∈ ps) := by
  induction ps generalizing m with
  | nil => simp
  | cons p rest ih =>
    simp only [List.foldl_cons, ih, smHas_smPush, List.mem_cons]
    obtain ⟨p1, p2⟩ := p
    simp only [Prod.mk.injEq]
    constructor
    · rintro ((h | h) | h)
      · exact Or.inl h
      · exact Or.inr (Or.inl h)
      · exact Or.inr (Or.inr h)
    · rintro (h | h | h)
      · exact Or.inl (Or.inl h)
      · exact Or.inl (Or.inr h)
      · exact Or.inr h

theorem keysNodup_foldl_push (ps : List (Int × Int)) (m : SetMap) (hk : KeysNodup m) :
    KeysNodup (ps.foldl (fun acc p => smPush acc p.1 p.2) m) := by
  induction ps generalizing m with
  | nil => exact hk
  | cons p rest ih => exact ih _ (keysNodup_smPush _ _ hk)

theorem setsNodup_foldl_push (ps : List (Int × Int)) (m : SetMap) (hs : SetsNodup m) (hp : ps.Nodup)
    (hd : ∀ p ∈ ps, smHas m p.1 p.2 = false) :
    SetsNodup (ps.foldl (fun acc p => smPush acc p.1 p.2) m) := by
  induction ps generalizing m with
  | nil => exact hs
  | cons p rest ih =>
    have hp' := List.nodup_cons.mp hp
    refine ih _ (setsNodup_smPush hs (hd p (by simp))) hp'.2 ?_
    intro q hq
    rw [smHas_false_iff, smHas_smPush]
    rintro (h | ⟨h1, h2⟩)
    · rw [hd q (List.mem_cons_of_mem _ hq)] at h; cases h
    · apply hp'.1
      have : q = p := Prod.ext h1 h2
      rw [← this]; exact hq

theorem smHas_smAppend {d s : SetMap} (hk : KeysNodup s) (a b : Int) :
    smHas (smAppend d s) a b = true ↔ (smHas d a b = true ∨ smHas s a b = true) := by
  unfold smAppend
  rw [smHas_foldl_push, mem_smPairs_iff hk]

theorem keysNodup_smAppend {d : SetMap} (s : SetMap) (hk : KeysNodup d) : KeysNodup (smAppend d s) :=
  keysNodup_foldl_push _ _ hk

theorem setsNodup_smAppend {d s : SetMap} (hd : SetsNodup d) (hks : KeysNodup s) (hs : SetsNodup s)
    (hdis : ∀ a b, smHas s a b = true → smHas d a b = false) : SetsNodup (smAppend d s) := by
  unfold smAppend
  refine setsNodup_foldl_push _ _ hd (smPairs_nodup hks hs) ?_
  intro p hp
  exact hdis _ _ (smHas_of_mem_smPairs hks hp)

theorem smAppend_nil (d : SetMap) : smAppend d [] = d := rfl

/-! ## well-formed `BinaryRel`s -/

structure RelWF (r : BinaryRel) : Prop where
  km : KeysNodup r.map
  kr : KeysNodup r.rev
  sm : SetsNodup r.map
  sr : SetsNodup r.rev
  mir : ∀ x y, smHas r.rev y x = smHas r.map x y

theorem RelWF.empty : RelWF {} :=
  ⟨keysNodup_nil, keysNodup_nil, setsNodup_nil, setsNodup_nil, fun _ _ => rfl⟩

theorem bool_eq_of_iff {a b : Bool} (h : a = true ↔ b = true) : a = b := by
  cases a <;> cases b <;> simp_all

theorem RelWF.push {r : BinaryRel} (h : RelWF r) {x y : Int} (hn : smHas r.map x y = false) :
    RelWF { map := smPush r.map x y, rev := smPush r.rev y x } := by
  refine ⟨keysNodup_smPush _ _ h.km, keysNodup_smPush _ _ h.kr, setsNodup_smPush h.sm hn,
    setsNodup_smPush h.sr (by rw [h.mir]; exact hn), ?_⟩
  intro a b
  apply bool_eq_of_iff
  simp only [smHas_smPush, h.mir]
  constructor
  · rintro (h | ⟨h1, h2⟩)
    · exact Or.inl h
    · exact Or.inr ⟨h2, h1⟩
  · rintro (h | ⟨h1, h2⟩)
    · exact Or.inl h
    · exact Or.inr ⟨h2, h1⟩

theorem RelWF.append {r q : BinaryRel} (hr : RelWF r) (hq : RelWF q)
    (hdis : ∀ a b, smHas q.map a b = true → smHas r.map a b = false) :
    RelWF { map := smAppend r.map q.map, rev := smAppend r.rev q.rev } := by
  refine ⟨keysNodup_smAppend _ hr.km, keysNodup_smAppend _ hr.kr, setsNodup_smAppend hr.sm hq.km hq.sm hdis,
    setsNodup_smAppend hr.sr hq.kr hq.sr ?_, ?_⟩
  · intro a b
    rw [hq.mir, hr.mir]; exact hdis b a
  · intro a b
    apply bool_eq_of_iff
    simp only [smHas_smAppend hq.kr, smHas_smAppend hq.km, hr.mir, hq.mir]

theorem RelWF.insert {r : BinaryRel} (h : RelWF r) (x y : Int) : RelWF (r.insert x y).1 := by
  unfold BinaryRel.insert
  split
  · exact h
  · rename_i hn
    exact h.push (by simpa using hn)

theorem smHas_insert {r : BinaryRel} (x y a b : Int) :
    smHas (r.insert x y).1.map a b = true ↔ (smHas r.map a b = true ∨ (a = x ∧ b = y)) := by
  unfold BinaryRel.insert
  split
  · rename_i hh
    constructor
    · exact Or.inl
    · rintro (h | ⟨rfl, rfl⟩)
      · exact h
      · exact hh
  · exact smHas_smPush

/-- `HashMap::get` returns a duplicate-free collection -/
theorem smGet_nodup {m : SetMap} (hs : SetsNodup m) {k : Int} {s : List Int} (h : smGet m k = some s) : s.Nodup :=
  hs _ (smGet_mem h)

end AscentVerif.TrRelInd
