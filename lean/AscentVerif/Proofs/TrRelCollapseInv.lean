import AscentVerif.Proofs.TrRelCollapseBasic
/-!
# The invariant of `TrRelUnionFind` for arbitrary histories (`Core` / `Inv`)

The invariant speaks about DOMINANT set ids:

* following `set_subsumptions` from any id reaches a dominant id within the fuel of
  `get_dominant_id` (`forest`), subsumption keys and values are valid indices, dominated sets
  are empty, dominant sets are not, the sets are pairwise disjoint, every element's `elem_ids`
  entry leads to the set that contains it and every element of a set has an entry;
* the classes are exactly the strongly connected components of the added pairs (`same`, `scc`);
* all hash maps have pairwise different keys and all hash sets pairwise different members (the list
  model does not enforce this structurally);
* OFF THE DIAGONAL `set_connections` holds exactly the pairs of distinct dominant ids whose
  elements are connected by the added pairs, and `reverse_set_connections` is its mirror image.
  ON THE DIAGONAL both maps may hold junk (`s ∈ set_connections[s]` is created by `add(x, x)` and by
  `merge_multiple`, and need not be mirrored); all queries filter it.  Both maps mention dominant
  ids only.

`contains` is evaluated under this invariant at the end of the file.
-/
namespace AscentVerif.TrRel
open TrRel (getDominantIdAux getDominantIdMutAux)

/-- `x` is in the set stored at index `d` -/
def Mem (t : TrRel) (d : Nat) (x : Int) : Prop := ∃ s, t.sets[d]? = some s ∧ x ∈ s

/-- `d` is a dominant set id -/
def IsDom (t : TrRel) (d : Nat) : Prop := d < t.sets.length ∧ alGet t.subs d = none

/-- some element of set `a` reaches some element of set `b` -/
def Sem (t : TrRel) (ps : List (Int × Int)) (a b : Nat) : Prop := ∃ x y, Mem t a x ∧ Mem t b y ∧ Reach ps x y

structure Core (t : TrRel) (ps : List (Int × Int)) : Prop where
  forest : ∀ i, ∃ d, getDominantIdAux t.subs i (t.subs.length + 1) = .ok d
  subs_lt : ∀ i p, alGet t.subs i = some p → i < t.sets.length ∧ p < t.sets.length
  dominated_empty : ∀ i p x, alGet t.subs i = some p → ¬ Mem t i x
  nonempty : ∀ d, IsDom t d → ∃ x, Mem t d x
  disjoint : ∀ d d' x, Mem t d x → Mem t d' x → d = d'
  elem : ∀ x id, alGet t.elemIds x = some id → ∃ d, Rt t.subs id d ∧ Mem t d x
  elem_of_mem : ∀ d x, Mem t d x → (alGet t.elemIds x).isSome = true
  known : ∀ x, Mentioned ps x → (alGet t.elemIds x).isSome = true
  conn_dom : ∀ a b, rel t.conn a b → IsDom t a ∧ IsDom t b
  rconn_dom : ∀ a b, rel t.rconn a b → IsDom t a ∧ IsDom t b
  conn_iff : ∀ a b, a ≠ b → (rel t.conn a b ↔ Sem t ps a b)
  rconn_iff : ∀ a b, a ≠ b → (rel t.rconn b a ↔ Sem t ps a b)
  same : ∀ d x y, Mem t d x → Mem t d y → Reach ps x y
  scc : ∀ a b x y, Mem t a x → Mem t b y → Reach ps x y → Reach ps y x → a = b
  conn_keys : KeysNodup t.conn
  rconn_keys : KeysNodup t.rconn
  conn_vals : ValsNodup t.conn
  rconn_vals : ValsNodup t.rconn
  elem_keys : KeysNodup t.elemIds
  sets_nodup : ∀ (d : Nat) (s : List Int), t.sets[d]? = some s → s.Nodup

/-- the full invariant: `Core`, and only mentioned elements are known -/
structure Inv (t : TrRel) (ps : List (Int × Int)) : Prop where
  core : Core t ps
  mentioned : ∀ x, (alGet t.elemIds x).isSome = true → Mentioned ps x

theorem Mem.lt {t : TrRel} {d : Nat} {x : Int} (h : Mem t d x) : d < t.sets.length := by
  obtain ⟨s, hs, _⟩ := h
  exact (List.getElem?_eq_some_iff.mp hs).1

theorem Core.mem_dom {t : TrRel} {ps : List (Int × Int)} (C : Core t ps) {d : Nat} {x : Int} (h : Mem t d x) :
    IsDom t d := by
  refine ⟨h.lt, ?_⟩
  cases hs : alGet t.subs d with
  | none => rfl
  | some p => exact absurd h (C.dominated_empty d p x hs)

theorem inv_empty : Inv {} [] := by
  refine ⟨⟨?_, ?_, ?_, ?_, ?_, ?_, ?_, ?_, ?_, ?_, ?_, ?_, ?_, ?_, keysNodup_nil, keysNodup_nil,
    fun k s h => by simp [alGet] at h, fun k s h => by simp [alGet] at h, keysNodup_nil, fun d s h => by simp at h⟩, ?_⟩
  · intro i; exact ⟨i, by simp [getDominantIdAux, alGet]⟩
  · intro i p h; simp [alGet] at h
  · intro i p x h; simp [alGet] at h
  · rintro d ⟨h, _⟩; simp at h
  · rintro d d' x ⟨s, h, _⟩; simp at h
  · intro x id h; simp [alGet] at h
  · rintro d x ⟨s, h, _⟩; simp at h
  · rintro x ⟨p, hp, _⟩; simp at hp
  · rintro a b ⟨s, h, _⟩; simp [alGet] at h
  · rintro a b ⟨s, h, _⟩; simp [alGet] at h
  · intro a b _
    constructor
    · rintro ⟨s, h, _⟩; simp [alGet] at h
    · rintro ⟨x, y, ⟨s, h, _⟩, _⟩; simp at h
  · intro a b _
    constructor
    · rintro ⟨s, h, _⟩; simp [alGet] at h
    · rintro ⟨x, y, ⟨s, h, _⟩, _⟩; simp at h
  · rintro d x y ⟨s, h, _⟩; simp at h
  · rintro a b x y ⟨s, h, _⟩; simp at h
  · intro x h; simp [alGet] at h

/-- the class of a known element -/
theorem Core.class_of {t : TrRel} {ps : List (Int × Int)} (C : Core t ps) {x : Int}
    (h : (alGet t.elemIds x).isSome = true) :
    ∃ id d, alGet t.elemIds x = some id ∧ t.getDominantId id = .ok d ∧ Rt t.subs id d ∧ Mem t d x ∧ IsDom t d := by
  cases hi : alGet t.elemIds x with
  | none => simp [hi] at h
  | some id =>
    obtain ⟨d, hr, hm⟩ := C.elem x id hi
    obtain ⟨d', hd'⟩ := C.forest id
    have : d' = d := Rt.unique ⟨_, hd'⟩ hr
    subst this
    exact ⟨id, d', rfl, hd', hr, hm, C.mem_dom hm⟩

theorem getDominantId_dom {t : TrRel} {d : Nat} (h : IsDom t d) : t.getDominantId d = .ok d := by
  simp [TrRel.getDominantId, getDominantIdAux, h.2]

theorem mapM_getDominantId_dom {t : TrRel} (c : List Nat) (h : ∀ s ∈ c, IsDom t s) :
    c.mapM (fun x => t.getDominantId x) = .ok c := by
  induction c with
  | nil => rfl
  | cons a rest ih =>
    rw [List.mapM_cons, getDominantId_dom (h a (List.mem_cons_self ..)), ih fun s hs => h s (List.mem_cons_of_mem _ hs)]
    rfl

theorem anyM_eq {t : TrRel} {y : Int} {ss : List Nat} (hall : ∀ s ∈ ss, ∃ set, t.sets[s]? = some set) :
    ∃ r, TrRel.contains.anyM t y ss = .ok r ∧ (r = true ↔ ∃ s ∈ ss, Mem t s y) := by
  induction ss with
  | nil => exact ⟨false, rfl, by simp⟩
  | cons s rest ih =>
    obtain ⟨set, hset⟩ := hall s (List.mem_cons_self ..)
    obtain ⟨r, hr, hiff⟩ := ih fun s' hs' => hall s' (List.mem_cons_of_mem _ hs')
    unfold TrRel.contains.anyM
    rw [hset]
    simp only
    by_cases hy : y ∈ set
    · refine ⟨true, by simp [hy], ?_⟩
      simp only [true_iff]
      exact ⟨s, List.mem_cons_self .., set, hset, hy⟩
    · have hc : set.contains y = false := by simpa using hy
      rw [hc]
      simp only [Bool.false_eq_true, if_false]
      refine ⟨r, hr, hiff.trans ?_⟩
      constructor
      · rintro ⟨s', hs', h⟩; exact ⟨s', List.mem_cons_of_mem _ hs', h⟩
      · rintro ⟨s', hs', h⟩
        rcases List.mem_cons.mp hs' with rfl | hs'
        · obtain ⟨set', hset', hy'⟩ := h
          rw [hset] at hset'; cases hset'; exact absurd hy' hy
        · exact ⟨s', hs', h⟩

/-- `contains` never panics under the invariant; it answers `true` exactly when `x`'s set is `y`'s
set or is connected to it -/
theorem contains_eq {t : TrRel} {ps : List (Int × Int)} (C : Core t ps) (x y : Int) :
    ∃ r, t.contains x y = .ok r ∧
      (r = true ↔ ∃ d, Mem t d x ∧ (Mem t d y ∨ ∃ s, rel t.conn d s ∧ Mem t s y)) := by
  unfold TrRel.contains TrRel.elemSet
  cases hi : alGet t.elemIds x with
  | none =>
    refine ⟨false, rfl, ?_⟩
    simp only [Bool.false_eq_true, false_iff]
    rintro ⟨d, hm, _⟩
    have := C.elem_of_mem d x hm
    simp [hi] at this
  | some id =>
    obtain ⟨id', d, hid, hgd, _, hm, hdom⟩ := C.class_of (x := x) (by simp [hi])
    rw [hi] at hid; cases hid
    obtain ⟨own, hown, hxown⟩ := hm
    simp only [hgd, Res.bind_ok, Res.pure_eq, hown, unwrap]
    have huniq : ∀ d', Mem t d' x → d' = d := fun d' h => C.disjoint d' d x h ⟨own, hown, hxown⟩
    by_cases hy : y ∈ own
    · refine ⟨true, by simp [hy], ?_⟩
      simp only [true_iff]
      exact ⟨d, ⟨own, hown, hxown⟩, Or.inl ⟨own, hown, hy⟩⟩
    · have hc : own.contains y = false := by simpa using hy
      rw [hc]
      simp only [Bool.false_eq_true, if_false]
      unfold TrRel.getSetConnections
      cases hca : alGet t.conn d with
      | none =>
        refine ⟨false, rfl, ?_⟩
        simp only [Bool.false_eq_true, false_iff]
        rintro ⟨d', hm', h⟩
        have := huniq d' hm'; subst this
        rcases h with ⟨own', hown', hy'⟩ | ⟨s, ⟨c, hc', _⟩, _⟩
        · rw [hown] at hown'; cases hown'; exact hy hy'
        · rw [hca] at hc'; cases hc'
      | some c =>
        have hdoms : ∀ s ∈ c, IsDom t s := fun s hs => (C.conn_dom d s ⟨c, hca, hs⟩).2
        simp only [mapM_getDominantId_dom c hdoms, Res.bind_ok, Res.pure_eq]
        have hall : ∀ s ∈ TrRel.dedupConsecutive c, ∃ set, t.sets[s]? = some set := by
          intro s hs
          have := (hdoms s (mem_dedupConsecutive _ _ hs)).1
          exact ⟨_, List.getElem?_eq_getElem this⟩
        obtain ⟨r, hr, hiff⟩ := anyM_eq (y := y) hall
        refine ⟨r, hr, hiff.trans ?_⟩
        constructor
        · rintro ⟨s, hs, hm'⟩
          exact ⟨d, ⟨own, hown, hxown⟩, Or.inr ⟨s, ⟨c, hca, mem_dedupConsecutive _ _ hs⟩, hm'⟩⟩
        · rintro ⟨d', hm', h⟩
          have := huniq d' hm'; subst this
          rcases h with ⟨own', hown', hy'⟩ | ⟨s, ⟨c', hc', hs⟩, hm''⟩
          · rw [hown] at hown'; cases hown'; exact absurd hy' hy
          · rw [hca] at hc'; cases hc'
            exact ⟨s, mem_dedupConsecutive_of_mem _ _ hs, hm''⟩

/-- what `contains` looks at is exactly the reference closure -/
theorem linked_iff_closure {t : TrRel} {ps : List (Int × Int)} (I : Inv t ps) (x y : Int) :
    (∃ d, Mem t d x ∧ (Mem t d y ∨ ∃ s, rel t.conn d s ∧ Mem t s y)) ↔ Closure ps x y := by
  have C := I.core
  constructor
  · rintro ⟨d, hx, h⟩
    have mx : Mentioned ps x := I.mentioned x (C.elem_of_mem d x hx)
    rcases h with hy | ⟨s, hr, hy⟩
    · exact ⟨mx, I.mentioned y (C.elem_of_mem d y hy), C.same d x y hx hy⟩
    · refine ⟨mx, I.mentioned y (C.elem_of_mem s y hy), ?_⟩
      by_cases hds : d = s
      · subst hds; exact C.same d x y hx hy
      · obtain ⟨x', y', hx', hy', hreach⟩ := (C.conn_iff d s hds).mp hr
        exact reach_trans ps _ _ _ (C.same d x x' hx hx') (reach_trans ps _ _ _ hreach (C.same s y' y hy' hy))
  · rintro ⟨mx, my, hreach⟩
    obtain ⟨_, d, _, _, _, hx, _⟩ := C.class_of (C.known x mx)
    obtain ⟨_, s, _, _, _, hy, _⟩ := C.class_of (C.known y my)
    refine ⟨d, hx, ?_⟩
    by_cases hds : d = s
    · subst hds; exact Or.inl hy
    · exact Or.inr ⟨s, (C.conn_iff d s hds).mpr ⟨x, y, hx, hy, hreach⟩, hy⟩

/-- **`contains` decides the reference closure on every state satisfying the invariant** -/
theorem contains_iff_of_inv {t : TrRel} {ps : List (Int × Int)} (I : Inv t ps) (x y : Int) :
    (t.contains x y = .ok true ↔ Closure ps x y) ∧ (t.contains x y = .ok false ↔ ¬ Closure ps x y) := by
  obtain ⟨r, hr, hiff⟩ := contains_eq I.core x y
  rw [linked_iff_closure I] at hiff
  rw [hr, ← hiff]
  cases r <;> simp

/-! ## the two Boolean self-checks -/

theorem go_iff (l : List (List Int)) (seen : List Int) :
    TrRel.disjointInvariant.go l seen = true ↔
      (∀ (i j : Nat) (s s' : List Int) (x : Int), l[i]? = some s → l[j]? = some s' → x ∈ s → x ∈ s' → i = j) ∧
        ∀ s ∈ l, ∀ x ∈ s, x ∉ seen := by
  induction l generalizing seen with
  | nil => simp [TrRel.disjointInvariant.go]
  | cons s rest ih =>
    simp only [TrRel.disjointInvariant.go, Bool.and_eq_true, ih, List.all_eq_true, Bool.not_eq_eq_eq_not, Bool.not_true,
      List.contains_eq_mem, decide_eq_false_iff_not, List.mem_append, not_or, List.mem_cons, forall_eq_or_imp]
    constructor
    · rintro ⟨h1, h2, h3⟩
      refine ⟨?_, h1, fun s' hs' x hx => (h3 s' hs' x hx).1⟩
      intro i j a b x hi hj ha hb
      cases i with
      | zero =>
        cases j with
        | zero => rfl
        | succ j =>
          simp only [List.getElem?_cons_zero, Option.some.injEq] at hi
          simp only [List.getElem?_cons_succ] at hj
          subst hi
          exact absurd ha (h3 b (List.mem_of_getElem? hj) x hb).2
      | succ i =>
        cases j with
        | zero =>
          simp only [List.getElem?_cons_zero, Option.some.injEq] at hj
          simp only [List.getElem?_cons_succ] at hi
          subst hj
          exact absurd hb (h3 a (List.mem_of_getElem? hi) x ha).2
        | succ j =>
          simp only [List.getElem?_cons_succ] at hi hj
          rw [h2 i j a b x hi hj ha hb]
    · rintro ⟨h1, h2, h3⟩
      refine ⟨h2, fun i j a b x hi hj ha hb => ?_, fun s' hs' x hx => ⟨h3 s' hs' x hx, fun hxs => ?_⟩⟩
      · have := h1 (i + 1) (j + 1) a b x (by simpa using hi) (by simpa using hj) ha hb
        omega
      · obtain ⟨j, hj⟩ := List.mem_iff_getElem?.mp hs'
        have := h1 0 (j + 1) s s' x (by simp) (by simpa using hj) hxs hx
        omega

theorem disjointInvariant_iff (t : TrRel) :
    t.disjointInvariant = true ↔ ∀ d d' x, Mem t d x → Mem t d' x → d = d' := by
  unfold TrRel.disjointInvariant
  rw [go_iff]
  constructor
  · rintro ⟨h, _⟩ d d' x ⟨s, hs, hx⟩ ⟨s', hs', hx'⟩
    exact h d d' s s' x hs hs' hx hx'
  · intro h
    exact ⟨fun i j s s' x hi hj hx hx' => h i j x ⟨s, hi, hx⟩ ⟨s', hj, hx'⟩, by simp⟩

theorem Core.disjointInvariant {t : TrRel} {ps : List (Int × Int)} (C : Core t ps) : t.disjointInvariant = true :=
  (disjointInvariant_iff t).mpr C.disjoint

theorem Core.connectionsDominant {t : TrRel} {ps : List (Int × Int)} (C : Core t ps) : t.connectionsDominant = true := by
  unfold TrRel.connectionsDominant
  simp only [Bool.and_eq_true, List.all_eq_true, List.isEmpty_iff]
  have key : ∀ (m : NMap), KeysNodup m → (∀ a b, rel m a b → IsDom t a ∧ IsDom t b) → ∀ kv ∈ m,
      nsInter kv.2 ((List.range t.sets.length).filter fun s => (alGet t.subs s).isSome) = [] := by
    intro m hk hd kv hkv
    obtain ⟨k, sc⟩ := kv
    have hget := hk.alGet_of_mem hkv
    apply List.eq_nil_iff_forall_not_mem.mpr
    intro b hb
    rw [mem_nsInter] at hb
    obtain ⟨hb1, hb2⟩ := hb
    have := (hd k b ⟨sc, hget, hb1⟩).2.2
    simp [this] at hb2
  exact ⟨fun kv hkv => key t.conn C.conn_keys C.conn_dom kv hkv, fun kv hkv => key t.rconn C.rconn_keys C.rconn_dom kv hkv⟩

end AscentVerif.TrRel
