import AscentVerif.Proofs.NDAggStrata
import AscentVerif.Props.C04
/-!
# The nondeterministic engine with aggregation items: the aggregation view after an execution

The analogue of the (private) helpers of `Props/C04.lean` (`aggOf_eq_of_nodup`, `view_once_from`) for an arbitrary
execution `RunND` of the nondeterministic engine, and the final statement in terms of `aggView` / `Derivable`.
-/
namespace AscentVerif.Engine.Agg
open AscentVerif AscentVerif.Engine

variable {E B G P A : Type}

theorem eraseDups_of_nodup_nd {α : Type} [BEq α] [LawfulBEq α] :
    ∀ (n : Nat) (l : List α), l.length ≤ n → l.Nodup → l.eraseDups = l
  | _, [], _, _ => by simp
  | 0, _ :: _, h, _ => by simp at h
  | n + 1, b :: l, h, hnd => by
    have hb : b ∉ l := (List.nodup_cons.mp hnd).1
    have hf : (l.filter fun x => !x == b) = l := by
      rw [List.filter_eq_self]
      intro a ha
      have : a ≠ b := fun e => hb (e ▸ ha)
      simpa using this
    rw [List.eraseDups_cons, hf, eraseDups_of_nodup_nd n l (by simpa using h) (List.nodup_cons.mp hnd).2]

theorem map_rowAt_range_nd (rows : List Tuple) : (List.range rows.length).map (rowAt rows) = rows := by
  apply List.ext_getElem
  · simp
  · intro i h1 h2
    simp [rowAt, List.getD_eq_getElem?_getD, List.getElem?_eq_getElem h2]

/-- what an aggregation item reads from a program value is the relation's `aggView`, deduplicated for full-key items -/
theorem aggOf_eq_nd (cfg : Config) (p : Program E B G P A) (hl : ∀ d ∈ p.rels, d.lat = false) (st : St)
    (a : AggClause E A) :
    aggOf cfg p st a = if aggIsFull a then dedupTuples (aggView st a.rel) else aggView st a.rel := by
  simp [aggOf, aggTuples, aggView, readBag_id cfg p hl, declOf_lat p hl]

theorem aggOf_eq_of_nodup_nd (cfg : Config) (p : Program E B G P A) (hl : ∀ d ∈ p.rels, d.lat = false) (st : St)
    (a : AggClause E A) (hnd : (aggView st a.rel).Nodup) : aggOf cfg p st a = aggView st a.rel := by
  rw [aggOf_eq_nd cfg p hl]
  split
  · exact eraseDups_of_nodup_nd _ _ (Nat.le_refl _) hnd
  · rfl

/-- after any execution from a well-formed program value whose row vectors are duplicate-free, the view of every relation
(declared or not) is duplicate-free and a permutation of the rows -/
theorem view_once_nd (I : Interp E B G P A) (cfg : Config) (p : Program E B G P A) (order : SccOrder)
    (s s' : St)
    (hp : RelationalAgg p) (ho : validOrder p order = true) (hs : Stratified p order) (hs0 : WFSt p s)
    (hnd : ∀ r, (relSt s r).rows.Nodup)
    (hrun : RunND I cfg p order s s') :
    ∀ r, (aggView s' r).Nodup ∧ (aggView s' r).Perm (relSt s' r).rows := by
  have hspec := runND_spec I cfg p (fun r => (relSt s r).rows) True hp.1 hp.2 order ho hs s s'
    hs0 (fun _ _ => rfl) hrun
  intro r
  have hperm : (aggView s' r).Perm (relSt s' r).rows := by
    have h1 : ((relSt s' r).idx).Perm (List.range (relSt s' r).rows.length) := by
      rw [List.perm_ext_iff_of_nodup (hspec.1.idxNd trivial r) List.nodup_range]
      intro i
      rw [List.mem_range]
      exact (hspec.1.idxAll r i).symm
    have h2 := h1.map (rowAt (relSt s' r).rows)
    rw [map_rowAt_range_nd] at h2
    exact h2
  refine ⟨?_, hperm⟩
  rw [hperm.nodup_iff]
  by_cases hr : r < p.rels.length
  · obtain ⟨derived, hrows, hd1, hd2⟩ := (hspec.1.good r hr).2
    rw [hrows, List.nodup_append]
    exact ⟨hnd r, hd1, fun a ha b hb e => hd2 b hb (e ▸ ha)⟩
  · rw [relSt_of_ge _ _ (by rw [hspec.1.len]; exact Nat.le_of_not_lt hr)]
    exact List.nodup_nil

/-- the program-level invariant is a well-formed program value -/
theorem PInv.wfSt {I : Interp E B G P A} {p : Program E B G P A} {inp : RelId → List Tuple}
    {aggv : AggClause E A → List Tuple} {K : Prop} {st : St}
    (h : PInv I p inp aggv K p.rels.length st) : WFSt p st := by
  refine ⟨h.len, ?_⟩
  intro rs hrs i hi
  obtain ⟨r, hr, rfl⟩ := List.mem_iff_getElem.mp hrs
  have e : relSt st r = st[r] := by
    simp [relSt, List.getD_eq_getElem?_getD, List.getElem?_eq_getElem hr]
  rw [← e] at hi ⊢
  exact (h.idxAll r i).mpr hi

end AscentVerif.Engine.Agg
