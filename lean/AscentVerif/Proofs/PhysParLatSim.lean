import AscentVerif.Proofs.PhysParLatBasic
/-!
# The head updates of the parallel engine with lattices against the bag engine

`headLatPar_sim`: the parallel lattice head update never panics under the protocol flags and simulates `Engine.headLat`
(serial mode) — PROVIDED `join_mut` leaves the stored value alone whenever it reports "unchanged" (`hff`; `joinRow` writes
the value back unconditionally) and a non-empty `new` means `changed` is already set (the update does not set `changed` when
the key was found in `new`).  `headRelPar_simP`: the head update of a plain relation (`PhysPar.headRelPar` on the plain part).
-/
namespace AscentVerif.PhysParLat
open AscentVerif AscentVerif.Engine AscentVerif.Index AscentVerif.Phys AscentVerif.PhysLat AscentVerif.PhysPar

variable {E B G P A : Type}

/-! ## look-ups in the indices of a lattice -/

theorem lookupL_map (idxs : List (List Nat × Tri LCx)) (f : Tri LCx → LCx) (cols : List Nat) :
    lookupL (idxs.map fun ci => (ci.1, f ci.2)) cols = (idxs.find? (·.1 == cols)).map fun ci => f ci.2 := by
  induction idxs with
  | nil => rfl
  | cons a l ih =>
    simp only [lookupL, List.map_cons, List.find?_cons] at ih ⊢
    cases a.1 == cols
    · exact ih
    · rfl

theorem lookupX_map (idxs : List (List Nat × Tri LCx)) (f : Tri LCx → XIx) (cols : List Nat) :
    lookupX (idxs.map fun ci => (ci.1, f ci.2)) cols = (idxs.find? (·.1 == cols)).map fun ci => f ci.2 := by
  induction idxs with
  | nil => rfl
  | cons a l ih =>
    simp only [lookupX, List.map_cons, List.find?_cons] at ih ⊢
    cases a.1 == cols
    · exact ih
    · rfl

theorem find?_cols {α : Type} (idxs : List (List Nat × α)) (cs : List (List Nat)) (hm : idxs.map (·.1) = cs) (cols : List Nat)
    (hc : cols ∈ cs) : ∃ c ∈ idxs, c.1 = cols ∧ idxs.find? (·.1 == cols) = some c := by
  cases hf : idxs.find? (·.1 == cols) with
  | none =>
    rw [← hm, List.mem_map] at hc
    obtain ⟨ci, hci, e⟩ := hc
    have := List.find?_eq_none.mp hf ci hci
    simp [e] at this
  | some ci =>
    exact ⟨ci, List.mem_of_find?_eq_some hf, by simpa using List.find?_some hf, rfl⟩

theorem keyGet_erase (x : LCx) (k : List Val) : keyGet x.erase k = x.getCloned k := by cases x <;> rfl

theorem eraseLDyn_idxs_map (ld : LCDyn) (f : Tri XIx → XIx) :
    ((eraseLDyn ld).idxs.map fun ci => (ci.1, f ci.2)) =
      ld.idxs.map fun ci => (ci.1, f ⟨ci.2.total.erase, ci.2.delta.erase, ci.2.new.erase⟩) := by
  simp only [eraseLDyn, List.map_map]
  rfl

theorem mem_eraseLDyn {ld : LCDyn} {c : List Nat × Tri LCx} (hc : c ∈ ld.idxs) :
    (c.1, (⟨c.2.total.erase, c.2.delta.erase, c.2.new.erase⟩ : Tri XIx)) ∈ (eraseLDyn ld).idxs :=
  List.mem_map.mpr ⟨c, hc, rfl⟩

theorem kc_mem_latIxOf (p : Program E B G P A) (ix : IxSets) (r : RelId) : keyCols p r ∈ latIxOf p ix r := by
  simp [latIxOf]

theorem eraseLDyn_cols (ld : LCDyn) : (eraseLDyn ld).idxs.map (·.1) = ld.idxs.map (·.1) := by
  simp only [eraseLDyn, List.map_map]
  rfl

/-- the three versions of the key index of a dynamic lattice -/
theorem ldyn_key {p : Program E B G P A} {ix : IxSets} {r : RelId} {rows : List Tuple} {d : Dyn} {ld : LCDyn}
    (hlat : isLatRel p r = true) (har : 0 < arityOf p r)
    (tri : XTriOk p (ixP p ix) r rows d ⟨[], [], []⟩ (eraseLDyn ld).idxs) :
    ∃ c ∈ ld.idxs, c.1 = keyCols p r ∧ ld.idxs.find? (·.1 == keyCols p r) = some c ∧
      LOk (keyCols p r) rows d.new (keyCols p r) c.2.new.erase ∧
      LOk (keyCols p r) rows d.delta (keyCols p r) c.2.delta.erase ∧
      LOk (keyCols p r) rows d.total (keyCols p r) c.2.total.erase := by
  have hcols : ld.idxs.map (·.1) = latIxOf p ix r := by
    rw [← eraseLDyn_cols, tri.cols, ixOf_ixP_lat p ix r hlat har]
  obtain ⟨c, hc, hc1, hfind⟩ := find?_cols ld.idxs _ hcols _ (kc_mem_latIxOf p ix r)
  have hkcs : ∀ j ∈ keyCols p r, j < arityOf p r - 1 := fun j hj => List.mem_range.mp hj
  refine ⟨c, hc, hc1, hfind, ?_, ?_, ?_⟩
  · have := (tri.inw _ (mem_eraseLDyn hc)).1 hlat (by rw [hc1]; exact hkcs)
    rw [hc1] at this; exact this
  · have := (tri.id _ (mem_eraseLDyn hc)).1 hlat (by rw [hc1]; exact hkcs)
    rw [hc1] at this; exact this
  · have := (tri.it _ (mem_eraseLDyn hc)).1 hlat (by rw [hc1]; exact hkcs)
    rw [hc1] at this; exact this

/-! ## `update_indices(i)` of the head update -/

theorem LCx_insert_ok (x : LCx) (k : List Val) (i : Nat) (hf : x.isFrozen = false) :
    ∃ x', x.insert k i = .ok x' ∧ x'.isFrozen = false ∧ x'.isKey = x.isKey := by
  cases x with
  | key fz m =>
    have : fz = false := hf
    subst this
    exact ⟨_, rfl, rfl, rfl⟩
  | rows fz m =>
    have : fz = false := hf
    subst this
    exact ⟨_, rfl, rfl, rfl⟩

theorem LCx_insert_erase (x x' : LCx) (cols : List Nat) (row : Tuple) (i : Nat)
    (h : x.insert (Plan.proj cols row) i = .ok x') : x'.erase = x.erase.insert cols row i := by
  cases x with
  | key fz m =>
    simp only [LCx.insert] at h
    split at h
    · cases h
    · cases h; rfl
  | rows fz m =>
    simp only [LCx.insert] at h
    split at h
    · cases h
    · cases h; rfl

/-- what `updNew` does to one index -/
def UpdNewRel (p : Program E B G P A) (r : RelId) (row : Tuple) (i : Nat) (ci ci' : List Nat × Tri LCx) : Prop :=
  ci'.1 = ci.1 ∧ ci'.2.total = ci.2.total ∧ ci'.2.delta = ci.2.delta ∧ ci'.2.new.isFrozen = false ∧
    ci'.2.new.isKey = ci.2.new.isKey ∧
    ci'.2.new.erase = if ci.1.length == arityOf p r then ci.2.new.erase else ci.2.new.erase.insert ci.1 row i

theorem updNew_ok (p : Program E B G P A) (r : RelId) (idxs : List (List Nat × Tri LCx)) (row : Tuple) (i : Nat)
    (hfn : ∀ ci ∈ idxs, ci.2.new.isFrozen = false) :
    ∃ idxs', updNew p r idxs row i = .ok idxs' ∧ Rel2 (UpdNewRel p r row i) idxs idxs' := by
  obtain ⟨out, h1, h2⟩ := foldRes_inv
    (fun (done : List (List Nat × Tri LCx)) (ci : List Nat × Tri LCx) =>
      if ci.1.length == arityOf p r then Res.ok (done ++ [ci])
      else do
        let x ← ci.2.new.insert (Plan.proj ci.1 row) i
        pure (done ++ [(ci.1, { ci.2 with new := x })]))
    (fun done out => Rel2 (UpdNewRel p r row i) done out) idxs (by
      intro done out ci hci hinv
      by_cases hfull : (ci.1.length == arityOf p r) = true
      · refine ⟨out ++ [ci], by simp only [hfull, if_true], hinv.snoc ?_⟩
        exact ⟨rfl, rfl, rfl, hfn ci hci, rfl, by simp only [hfull, if_true]⟩
      · obtain ⟨x', hx1, hx2, hx3⟩ := LCx_insert_ok ci.2.new (Plan.proj ci.1 row) i (hfn ci hci)
        refine ⟨out ++ [(ci.1, { ci.2 with new := x' })], by simp only [hfull, Bool.false_eq_true, if_false, hx1]; rfl,
          hinv.snoc ?_⟩
        exact ⟨rfl, rfl, rfl, hx2, hx3, by
          simp only [hfull, Bool.false_eq_true, if_false]
          exact LCx_insert_erase _ _ _ _ _ hx1⟩) [] .nil
  exact ⟨out, h1, h2⟩

/-! ## the state after a lattice head update -/

/-- relation `r` gets the row vector `rows'`, the dynamic lattices become `ldyn'`, `changed` becomes `c` -/
def updL (s : PLScc) (r : RelId) (rows' : List Tuple) (ldyn' : List LCDyn) (c : Bool) : PLScc :=
  { pc := { s.pc with changed := c }, lrels := setNth s.lrels r { lrel s.lrels r with rows := rows' }, ldyn := ldyn' }

theorem headLatPar_eq (I : Interp E B G P A) (p : Program E B G P A) (s : PLScc) (r : RelId) (row : Tuple) :
    headLatPar I p s r row =
      match findLDyn s.ldyn r with
      | none => .ok s
      | some d =>
        match d.idxs.find? (·.1 == keyCols p r) with
        | none => .ok s
        | some c =>
          match (c.2.new.getCloned row.dropLast).orElse fun _ =>
              (c.2.delta.getCloned row.dropLast).orElse fun _ => c.2.total.getCloned row.dropLast with
          | some i =>
            if (lrel s.lrels r).rows.length ≤ i then .panic
            else if (I.joinMut r (valOf (rowAt (lrel s.lrels r).rows i)) (valOf row)).2 &&
                !(c.2.new.getCloned row.dropLast).isSome then
              updNew p r d.idxs row i >>= fun idxs =>
                pure (updL s r (joinRows (lrel s.lrels r).rows i (I.joinMut r (valOf (rowAt (lrel s.lrels r).rows i)) (valOf row)).1)
                  (setLDyn s.ldyn { d with idxs := idxs }) true)
            else pure (updL s r (joinRows (lrel s.lrels r).rows i (I.joinMut r (valOf (rowAt (lrel s.lrels r).rows i)) (valOf row)).1)
                  s.ldyn s.pc.changed)
          | none =>
            c.2.new.hashUsize >>= fun _ =>
            match c.2.new.getCloned row.dropLast with
            | some i =>
              if (lrel s.lrels r).rows.length ≤ i then .panic
              else pure (updL s r (joinRows (lrel s.lrels r).rows i (I.joinMut r (valOf (rowAt (lrel s.lrels r).rows i)) (valOf row)).1)
                  s.ldyn s.pc.changed)
            | none =>
              updNew p r d.idxs row (lrel s.lrels r).rows.length >>= fun idxs =>
                pure (updL s r ((lrel s.lrels r).rows ++ [row]) (setLDyn s.ldyn { d with idxs := idxs }) true) := by
  unfold headLatPar
  cases findLDyn s.ldyn r with
  | none => rfl
  | some d =>
    simp only [lookupL_map]
    cases d.idxs.find? (·.1 == keyCols p r) with
    | none => rfl
    | some c => rfl

theorem updL_wf {p : Program E B G P A} {s : PLScc} (hpl : PLWf p s) (r : RelId) (hlat : isLatRel p r = true)
    (rows' : List Tuple) (ldyn' : List LCDyn) (c : Bool) (hld : ∀ d ∈ ldyn', isLatRel p d.rel = true)
    (hnd : ldyn'.map (·.rel) = s.ldyn.map (·.rel)) :
    PLWf p (updL s r rows' ldyn' c) := by
  refine ⟨hpl.len, by simp [updL, hpl.llen], hpl.pdyn, hld, hpl.prow, ?_, hpl.pnd, by
    show (ldyn'.map (·.rel)).Nodup
    rw [hnd]; exact hpl.lnd⟩
  intro r' hl'
  have hne : r' ≠ r := by
    intro h; subst h; rw [hlat] at hl'; cases hl'
  simp only [updL, lrel_setNth_ne _ _ _ _ hne]
  exact hpl.lrow r' hl'

theorem updL_flags {p : Program E B G P A} {bo : List RelId} {fz : Bool} {s : PLScc} (hfl : LFlags p bo fz s) (r : RelId)
    (rows' : List Tuple) (ldyn' : List LCDyn) (c : Bool)
    (hdyn : ∀ d ∈ ldyn', LDynFlags p fz d ∧ bo.contains d.rel = false) : LFlags p bo fz (updL s r rows' ldyn' c) := by
  refine ⟨hdyn, ?_⟩
  intro r' hr' hl'
  have hr'' : r' < s.lrels.length := by simpa [updL] using hr'
  by_cases hne : r' = r
  · subst hne
    simp only [updL, lrel_setNth_self _ _ _ hr'']
    exact hfl.rels r' hr'' hl'
  · simp only [updL, lrel_setNth_ne _ _ _ _ hne]
    exact hfl.rels r' hr'' hl'

theorem setLDyn_mem {dyn : List LCDyn} {d x : LCDyn} (h : x ∈ setLDyn dyn d) : x = d ∨ x ∈ dyn := by
  simp only [setLDyn, List.mem_map] at h
  obtain ⟨y, hy, rfl⟩ := h
  split
  · exact .inl rfl
  · exact .inr hy

theorem updL_sim {p : Program E B G P A} {ix : IxSets} {a : SccSt} {s : PLScc} (hsim : SimP p ix a (s.erase p))
    (hpl : PLWf p s) {r : RelId} (hlat : isLatRel p r = true) {d : Dyn} (hd : findDyn a.dyn r = some d)
    (hr : r < a.rels.length) (d' : Dyn) (hdrel : d'.rel = r) (rows' : List Tuple) (ldyn' : List LCDyn) (ld' : LCDyn)
    (hall : ∀ x ∈ ldyn', isLatRel p x.rel = true)
    (hfind : findLDyn ldyn' r = some ld') (hne : ∀ r', r' ≠ r → findLDyn ldyn' r' = findLDyn s.ldyn r')
    (hrel' : ld'.rel = r) (htri : XTriOk p ix r rows' d' ⟨[], [], []⟩ (eraseLDyn ld').idxs)
    (htyped : ∀ t ∈ rows', t.length = arityOf p r) :
    SimP p ix (upd a r d' rows') ((updL s r rows' ldyn' true).erase p) := by
  have hwf'len : (updL s r rows' ldyn' true).pc.rels.length = p.rels.length := hpl.len
  have hwf'pdyn : ∀ d ∈ (updL s r rows' ldyn' true).pc.dyn, isLatRel p d.rel = false := hpl.pdyn
  have hwf'ldyn : ∀ d ∈ (updL s r rows' ldyn' true).ldyn, isLatRel p d.rel = true := hall
  have hrl : r < s.lrels.length := by
    rw [hpl.llen, ← hpl.len, ← erase_rels_length p s, ← hsim.len]; exact hr
  refine upd_simP hsim hd hr d' hdrel rows' ?_ ?_ ?_ rfl (eraseLDyn ld') ?_ hrel' htri ?_ htyped
  · rw [erase_rels_length, erase_rels_length]; rfl
  · rw [xrel_erase p _ hwf'len, eraseRel_lat p _ _ r hlat]
    simp only [updL, lrel_setNth_self _ _ _ hrl]
  · intro r' hr'
    rw [xrel_erase p _ hwf'len, xrel_erase p _ hpl.len]
    simp only [eraseRel, updL, lrel_setNth_ne _ _ _ _ hr']
  · rw [findXDyn_erase_lat p _ hwf'pdyn r hlat]
    show (findLDyn ldyn' r).map eraseLDyn = _
    rw [hfind]; rfl
  · intro r' hr'
    cases hl' : isLatRel p r' with
    | true =>
      rw [findXDyn_erase_lat p _ hwf'pdyn r' hl', findXDyn_erase_lat p _ hpl.pdyn r' hl']
      show (findLDyn ldyn' r').map eraseLDyn = _
      rw [hne r' hr']
    | false =>
      rw [findXDyn_erase_plain p _ hwf'ldyn r' hl', findXDyn_erase_plain p _ hpl.ldyn r' hl']
      rfl

theorem updL_self (s : PLScc) (r : RelId) (h : r < s.lrels.length) :
    updL s r (lrel s.lrels r).rows s.ldyn s.pc.changed = s := by
  unfold updL
  have : ({ lrel s.lrels r with rows := (lrel s.lrels r).rows } : LCRel) = lrel s.lrels r := rfl
  rw [this, setNth_lrel_self _ _ h]

/-! ## `XTriOk` and the flags after `update_indices(i)` -/

theorem full_cols_of_mem (p : Program E B G P A) (ix : IxSets) (r : RelId) (har : 0 < arityOf p r) (cols : List Nat)
    (hm : cols ∈ latIxOf p ix r) (hl : cols.length = arityOf p r) : cols = List.range (arityOf p r) := by
  simp only [latIxOf, List.mem_cons, List.mem_filter] at hm
  rcases hm with h | h | ⟨_, h⟩
  · subst h
    simp [keyCols] at hl
    omega
  · exact h
  · simp only [Bool.and_eq_true, bne_iff_ne, ne_eq] at h
    exact absurd hl h.2

theorem XOk_full {p : Program E B G P A} {r : RelId} (hlat : isLatRel p r = true) (har : 0 < arityOf p r)
    (rows : List Tuple) (bag : List Nat) (x : XIx) : XOk p r rows bag (List.range (arityOf p r)) x := by
  refine ⟨fun _ hc => ?_, fun hf => by rw [hlat] at hf; cases hf⟩
  have := hc (arityOf p r - 1) (List.mem_range.mpr (by omega))
  omega

theorem updNew_tri {p : Program E B G P A} {ix : IxSets} {r : RelId} (hlat : isLatRel p r = true) (har : 0 < arityOf p r)
    {rows rows' : List Tuple} {d d' : Dyn} {ld : LCDyn} {idxs' : List (List Nat × Tri LCx)} {row : Tuple} {i : Nat}
    (tri : XTriOk p (ixP p ix) r rows d ⟨[], [], []⟩ (eraseLDyn ld).idxs)
    (hrel2 : Rel2 (UpdNewRel p r row i) ld.idxs idxs')
    (hproj : ∀ cols : List Nat, (∀ c ∈ cols, c < arityOf p r - 1) → ∀ j, (j ∈ d.total ∨ j ∈ d.delta ∨ j ∈ d.new) →
      Plan.proj cols (rowAt rows' j) = Plan.proj cols (rowAt rows j))
    (ht : ∀ j, j ∈ d'.total ↔ j ∈ d.total) (hdl : ∀ j, j ∈ d'.delta ↔ j ∈ d.delta)
    (hn : ∀ j, j ∈ d'.new ↔ j ∈ d.new ∨ j = i)
    (hrow : ∀ cols : List Nat, (∀ c ∈ cols, c < arityOf p r - 1) → Plan.proj cols (rowAt rows' i) = Plan.proj cols row)
    (hu : ∀ j ∈ d.new, Plan.proj (keyCols p r) (rowAt rows' j) = Plan.proj (keyCols p r) row → j = i) :
    XTriOk p (ixP p ix) r rows' d' ⟨[], [], []⟩ (eraseLDyn { ld with idxs := idxs' }).idxs := by
  have hnoF : ∀ {α : Prop}, isLatRel p r = false → α := fun hf => by rw [hlat] at hf; cases hf
  have hcols0 : ld.idxs.map (·.1) = latIxOf p ix r := by
    rw [← eraseLDyn_cols, tri.cols, ixOf_ixP_lat p ix r hlat har]
  have hfst : idxs'.map (·.1) = ld.idxs.map (·.1) := (Rel2.map_eq _ _ (fun c c' hq => hq.1.symm) hrel2).symm
  refine ⟨hnoF, hnoF, hnoF, ?_, ?_, ?_, ?_⟩
  · rw [eraseLDyn_cols]
    show idxs'.map (·.1) = _
    rw [hfst, ← eraseLDyn_cols, tri.cols]
  · intro ci hci
    obtain ⟨c', hc', rfl⟩ := List.mem_map.mp hci
    obtain ⟨c0, hc0, hq⟩ := hrel2.forall_right c' hc'
    show XOk p r rows' d'.total c'.1 c'.2.total.erase
    rw [hq.1, hq.2.1]
    exact XOk_lat_congr hlat (tri.it _ (mem_eraseLDyn hc0)) ht (fun hcl j hj => hproj _ hcl j (.inl hj))
  · intro ci hci
    obtain ⟨c', hc', rfl⟩ := List.mem_map.mp hci
    obtain ⟨c0, hc0, hq⟩ := hrel2.forall_right c' hc'
    show XOk p r rows' d'.delta c'.1 c'.2.delta.erase
    rw [hq.1, hq.2.2.1]
    exact XOk_lat_congr hlat (tri.id _ (mem_eraseLDyn hc0)) hdl (fun hcl j hj => hproj _ hcl j (.inr (.inl hj)))
  · intro ci hci
    obtain ⟨c', hc', rfl⟩ := List.mem_map.mp hci
    obtain ⟨c0, hc0, hq⟩ := hrel2.forall_right c' hc'
    show XOk p r rows' d'.new c'.1 c'.2.new.erase
    rw [hq.1, hq.2.2.2.2.2]
    by_cases hfull : (c0.1.length == arityOf p r) = true
    · have hm : c0.1 ∈ latIxOf p ix r := by rw [← hcols0]; exact List.mem_map.mpr ⟨c0, hc0, rfl⟩
      rw [full_cols_of_mem p ix r har c0.1 hm (by simpa using hfull)]
      exact XOk_full hlat har _ _ _
    · simp only [hfull, Bool.false_eq_true, if_false]
      have h0 : XOk p r rows' d.new c0.1 c0.2.new.erase :=
        XOk_lat_congr hlat (tri.inw _ (mem_eraseLDyn hc0)) (fun _ => Iff.rfl) (fun hcl j hj => hproj _ hcl j (.inr (.inr hj)))
      apply XOk_lat_insert hlat row i h0 (fun hcl => hrow _ hcl) hn
      intro hc1 j hj hp
      rw [hc1] at hp
      exact hu j hj hp

theorem updNew_flags {p : Program E B G P A} {r : RelId} {fz : Bool} {ld : LCDyn} {idxs' : List (List Nat × Tri LCx)}
    {row : Tuple} {i : Nat} (hfl : LDynFlags p fz ld) (hrel2 : Rel2 (UpdNewRel p r row i) ld.idxs idxs') :
    LDynFlags p fz { ld with idxs := idxs' } := by
  intro c' hc'
  obtain ⟨c0, hc0, hq⟩ := hrel2.forall_right c' hc'
  obtain ⟨k1, k2, k3, f1, f2, _⟩ := hfl c0 hc0
  exact ⟨by rw [hq.1, hq.2.1]; exact k1, by rw [hq.1, hq.2.2.1]; exact k2, by rw [hq.1, hq.2.2.2.2.1]; exact k3,
    by rw [hq.2.1]; exact f1, by rw [hq.2.2.1]; exact f2, hq.2.2.2.1⟩

theorem dropLast_append_getLastD (t : Tuple) (h : t ≠ []) : t.dropLast ++ [t.getLastD Val.unit] = t := by
  have : t.getLastD Val.unit = t.getLast h := by
    rw [List.getLastD_eq_getLast?, List.getLast?_eq_some_getLast h]; rfl
  rw [this, List.dropLast_concat_getLast]

theorem joinRows_unchanged {rows : List Tuple} {i : Nat} (hi : i < rows.length) (hne : rowAt rows i ≠ []) :
    joinRows rows i (valOf (rowAt rows i)) = rows := by
  unfold joinRows
  have : keyOf (rowAt rows i) ++ [valOf (rowAt rows i)] = rowAt rows i := dropLast_append_getLastD _ hne
  rw [this]
  exact setNth_getD_self rows i [] hi

theorem keyRow_none_new {rows : List Tuple} {d : Dyn} {key : Tuple} (h : keyRow rows d key = none) :
    findKey rows d.new key = none := by
  unfold keyRow at h
  cases h1 : findKey rows d.new key with
  | none => rfl
  | some x => rw [h1] at h; cases h

theorem keyRow_new {rows : List Tuple} {d : Dyn} {key : Tuple} {i : Nat} (h : findKey rows d.new key = some i) :
    keyRow rows d key = some i := by
  unfold keyRow
  rw [h]; rfl

/-! ## the parallel lattice head update -/

/-- `new` non-empty only when `changed` is set (what makes skipping `changed = true` for a key found in `new` harmless) -/
def NewCh (a : SccSt) : Prop := a.changed = false → NewEmpty a

theorem headLatPar_sim (I : Interp E B G P A)
    (hff : ∀ r a b, (I.joinMut r a b).2 = false → (I.joinMut r a b).1 = a)
    {p : Program E B G P A} {ix : IxSets} {dynR : List RelId} {a : SccSt} {s : PLScc} {bo : List RelId}
    (hsim : SimP p (ixP p ix) a (s.erase p)) (hwf : WF p.rels.length dynR a)
    (hlt : ∀ r, dynR.contains r = true → r < p.rels.length) (hnc : NewCh a) (hpl : PLWf p s) (hfl : LFlags p bo true s)
    (r : RelId) (row : Tuple) (hlat : isLatRel p r = true) (har : 0 < arityOf p r) (hlen : row.length = arityOf p r)
    (hkeys : ((rowsOf a r).map keyOf).Nodup) :
    ∃ s', headLatPar I p s r row = .ok s' ∧ SimP p (ixP p ix) (Engine.headLat I {} a r row) (s'.erase p) ∧
      PLWf p s' ∧ LFlags p bo true s' ∧ s'.pc.rels = s.pc.rels ∧ s'.pc.dyn = s.pc.dyn := by
  rw [headLat_eq, headLatPar_eq]
  have hfx := findXDyn_erase_lat p s hpl.pdyn r hlat
  rcases hsim.find r with ⟨h1, h2⟩ | ⟨d, pd, h1, h2, hprel, tri⟩
  · rw [hfx] at h2
    have hnone : findLDyn s.ldyn r = none := by
      cases hh : findLDyn s.ldyn r with
      | none => rfl
      | some x => rw [hh] at h2; cases h2
    rw [h1, hnone]
    exact ⟨s, rfl, hsim, hpl, hfl, rfl, rfl⟩
  · rw [hfx] at h2
    obtain ⟨ld, hld, rfl⟩ : ∃ ld, findLDyn s.ldyn r = some ld ∧ pd = eraseLDyn ld := by
      cases hh : findLDyn s.ldyn r with
      | none => rw [hh] at h2; cases h2
      | some x =>
        rw [hh] at h2
        simp only [Option.map_some, Option.some.injEq] at h2
        exact ⟨x, rfl, h2.symm⟩
    rw [h1, hld]
    simp only []
    have hldm := findLDyn_mem hld
    have hldrel : ld.rel = r := findLDyn_rel hld
    obtain ⟨hldf, hldb⟩ := hfl.dyn ld hldm
    have hrel : d.rel = r := findDyn_rel h1
    have hr : r < a.rels.length := by
      rw [hwf.len]; apply hlt
      rw [← hwf.dyn_iff, h1]; rfl
    have hrl : r < s.lrels.length := by
      rw [hpl.llen, ← hwf.len]; exact hr
    have tri' : XTriOk p (ixP p ix) r (rowsOf a r) d ⟨[], [], []⟩ (eraseLDyn ld).idxs := tri
    obtain ⟨c, hc, hc1, hfindc, okn, okd, okt⟩ := ldyn_key hlat har tri'
    obtain ⟨_, _, _, _, _, hcfn⟩ := hldf c hc
    rw [hfindc]
    simp only []
    have hxr : (lrel s.lrels r).rows = rowsOf a r := by
      have := hsim.rows r
      rw [xrel_erase p s hpl.len, eraseRel_lat p _ _ r hlat] at this
      exact this.symm
    rw [hxr]
    have hcov := hwf.cover r d h1
    have hty : ∀ i, i < (rowsOf a r).length → (rowAt (rowsOf a r) i).length = arityOf p r :=
      fun i hi => hsim.typed r _ (rowAt_mem _ i hi)
    have hproj : ∀ i, i < (rowsOf a r).length → Plan.proj (keyCols p r) (rowAt (rowsOf a r) i) = keyOf (rowAt (rowsOf a r) i) :=
      fun i hi => proj_keyCols (hty i hi)
    have hu : ∀ i j, i < (rowsOf a r).length → j < (rowsOf a r).length →
        keyOf (rowAt (rowsOf a r) i) = keyOf (rowAt (rowsOf a r) j) → i = j := fun i j hi hj h => idx_of_key hkeys hi hj h
    have hprow : Plan.proj (keyCols p r) row = keyOf row := proj_keyCols hlen
    have hkcs : ∀ c ∈ keyCols p r, c < arityOf p r - 1 := fun c hc => List.mem_range.mp hc
    have bN : ∀ i ∈ d.new, i < (rowsOf a r).length := fun i hi => (hcov i).mpr (.inr (.inr hi))
    have bD : ∀ i ∈ d.delta, i < (rowsOf a r).length := fun i hi => (hcov i).mpr (.inr (.inl hi))
    have bT : ∀ i ∈ d.total, i < (rowsOf a r).length := fun i hi => (hcov i).mpr (.inl hi)
    have bAll : ∀ j, (j ∈ d.total ∨ j ∈ d.delta ∨ j ∈ d.new) → j < (rowsOf a r).length := fun j hj => (hcov j).mpr hj
    have en : c.2.new.getCloned row.dropLast = findKey (rowsOf a r) d.new row.dropLast := by
      rw [← keyGet_erase]
      exact keyGet_eq_findKey okn (fun i hi => hproj i (bN i hi)) (fun i hi j hj => hu i j (bN i hi) (bN j hj)) row.dropLast
    have ed : c.2.delta.getCloned row.dropLast = findKey (rowsOf a r) d.delta row.dropLast := by
      rw [← keyGet_erase]
      exact keyGet_eq_findKey okd (fun i hi => hproj i (bD i hi)) (fun i hi j hj => hu i j (bD i hi) (bD j hj)) row.dropLast
    have et : c.2.total.getCloned row.dropLast = findKey (rowsOf a r) d.total row.dropLast := by
      rw [← keyGet_erase]
      exact keyGet_eq_findKey okt (fun i hi => hproj i (bT i hi)) (fun i hi j hj => hu i j (bT i hi) (bT j hj)) row.dropLast
    rw [en, ed, et]
    have hkr : ((findKey (rowsOf a r) d.new row.dropLast).orElse fun _ =>
        (findKey (rowsOf a r) d.delta row.dropLast).orElse fun _ => findKey (rowsOf a r) d.total row.dropLast) =
        keyRow (rowsOf a r) d (keyOf row) := rfl
    rw [hkr]
    -- the common part of the two branches that call `update_indices(i)`
    have hafter : ∀ (i : Nat) (rows' : List Tuple) (d' : Dyn), d'.rel = r →
        (∀ cols : List Nat, (∀ c ∈ cols, c < arityOf p r - 1) → ∀ j, (j ∈ d.total ∨ j ∈ d.delta ∨ j ∈ d.new) →
          Plan.proj cols (rowAt rows' j) = Plan.proj cols (rowAt (rowsOf a r) j)) →
        (∀ j, j ∈ d'.total ↔ j ∈ d.total) → (∀ j, j ∈ d'.delta ↔ j ∈ d.delta) → (∀ j, j ∈ d'.new ↔ j ∈ d.new ∨ j = i) →
        (∀ cols : List Nat, (∀ c ∈ cols, c < arityOf p r - 1) → Plan.proj cols (rowAt rows' i) = Plan.proj cols row) →
        (∀ j ∈ d.new, Plan.proj (keyCols p r) (rowAt rows' j) = Plan.proj (keyCols p r) row → j = i) →
        (∀ t ∈ rows', t.length = arityOf p r) →
        ∃ s', (updNew p r ld.idxs row i >>= fun idxs =>
            (pure (updL s r rows' (setLDyn s.ldyn { ld with idxs := idxs }) true) : Res PLScc)) = .ok s' ∧
          SimP p (ixP p ix) (upd a r d' rows') (s'.erase p) ∧ PLWf p s' ∧ LFlags p bo true s' ∧
          s'.pc.rels = s.pc.rels ∧ s'.pc.dyn = s.pc.dyn := by
      intro i rows' d' hd'rel hpj ht hdl hn hrow hun htyped
      obtain ⟨idxs', hupd, hrel2⟩ := updNew_ok p r ld.idxs row i (fun ci hci => (hldf ci hci).fn)
      rw [hupd]
      simp only [bind_ok, pure_eq_ok]
      have hall : ∀ x ∈ setLDyn s.ldyn { ld with idxs := idxs' }, isLatRel p x.rel = true := by
        intro x hx
        rcases setLDyn_mem hx with rfl | hx
        · show isLatRel p ld.rel = true
          rw [hldrel]; exact hlat
        · exact hpl.ldyn x hx
      refine ⟨_, rfl, ?_, updL_wf hpl r hlat _ _ _ hall (setLDyn_rels _ _), ?_, rfl, rfl⟩
      · refine updL_sim hsim hpl hlat h1 hr d' hd'rel rows' _ { ld with idxs := idxs' } hall ?_ ?_ hldrel
          (updNew_tri hlat har tri' hrel2 hpj ht hdl hn hrow hun) htyped
        · rw [findLDyn_setLDyn, if_pos hldrel.symm, hld]; rfl
        · intro r' hr'
          rw [findLDyn_setLDyn, if_neg (by rw [show ({ ld with idxs := idxs' } : LCDyn).rel = r from hldrel]; exact hr')]
      · apply updL_flags hfl
        intro x hx
        rcases setLDyn_mem hx with rfl | hx
        · exact ⟨updNew_flags hldf hrel2, hldb⟩
        · exact hfl.dyn x hx
    cases hk : keyRow (rowsOf a r) d (keyOf row) with
    | none =>
      simp only []
      have hfresh := keyRow_fresh hcov hk
      have hnn : findKey (rowsOf a r) d.new row.dropLast = none := keyRow_none_new hk
      have hhash : c.2.new.hashUsize = .ok () := by simp [LCx.hashUsize, hcfn]
      rw [hhash, hnn]
      simp only [bind_ok]
      rw [pushRow_eq_upd]
      refine hafter (rowsOf a r).length (rowsOf a r ++ [row]) { d with new := d.new ++ [(rowsOf a r).length] } hrel ?_
        (fun _ => Iff.rfl) (fun _ => Iff.rfl) (by intro j; simp) ?_ ?_ ?_
      · intro cols _ j hj
        rw [rowAt_append_left _ _ _ (bAll j hj)]
      · intro cols _
        rw [rowAt_length_append]
      · intro j hj hp
        exfalso
        rw [rowAt_append_left _ _ _ (bN j hj), hproj j (bN j hj), hprow] at hp
        exact hfresh _ (rowAt_mem _ j (bN j hj)) hp
      · intro t ht
        rcases List.mem_append.mp ht with ht | ht
        · exact hsim.typed r t ht
        · simp only [List.mem_singleton] at ht; rw [ht]; exact hlen
    | some i =>
      obtain ⟨hi, hkey⟩ := keyRow_found hcov hk
      simp only []
      rw [if_neg (Nat.not_le.mpr hi)]
      have hpj : ∀ cols : List Nat, (∀ c ∈ cols, c < arityOf p r - 1) → ∀ j,
          Plan.proj cols (rowAt (joinRows (rowsOf a r) i (I.joinMut r (valOf (rowAt (rowsOf a r) i)) (valOf row)).1) j) =
            Plan.proj cols (rowAt (rowsOf a r) j) :=
        fun cols hc j => proj_joinRows _ hi (hty i hi) har hc j
      have htyped' : ∀ t ∈ joinRows (rowsOf a r) i (I.joinMut r (valOf (rowAt (rowsOf a r) i)) (valOf row)).1,
          t.length = arityOf p r := by
        intro t ht
        rcases mem_setNth _ _ _ _ ht with ht | ht
        · subst ht
          have := hty i hi
          simp [keyOf, this]; omega
        · exact hsim.typed r t ht
      by_cases hj : (I.joinMut r (valOf (rowAt (rowsOf a r) i)) (valOf row)).2 = true
      · rw [if_pos hj, joinSt_eq_upd hwf h1]
        have hrel' : (requeue d i).rel = r := by rw [requeue_rel]; exact hrel
        cases hn : findKey (rowsOf a r) d.new row.dropLast with
        | none =>
          rw [if_pos (by rw [hj]; rfl)]
          refine hafter i _ (requeue d i) hrel' (fun cols hc j _ => hpj cols hc j) (fun j => by rw [requeue_total])
            (fun j => by rw [requeue_delta]) (fun j => mem_requeue_new d i j) ?_ ?_ htyped'
          · intro cols hcl
            rw [hpj _ hcl i]
            exact proj_congr_key (hty i hi) hlen hkey hcl
          · intro j hj2 hp
            rw [hpj _ hkcs j, hproj j (bN j hj2), hprow] at hp
            exact hu j i (bN j hj2) hi (hp.trans hkey.symm)
        | some i' =>
          have hii : i' = i := by
            have := keyRow_new (d := d) hn
            rw [show keyOf row = row.dropLast from rfl] at hk
            rw [hk] at this
            exact (Option.some.inj this).symm
          subst hii
          have hin : i' ∈ d.new := (findKey_some hn).1
          rw [if_neg (by simp)]
          simp only [pure_eq_ok]
          have hch : s.pc.changed = true := by
            have h0 : a.changed = s.pc.changed := hsim.changed
            rw [← h0]
            cases hc0 : a.changed with
            | true => rfl
            | false =>
              have := hnc hc0 r d h1
              rw [this] at hin; cases hin
          rw [hch]
          refine ⟨_, rfl, ?_, updL_wf hpl r hlat _ _ _ hpl.ldyn rfl, updL_flags hfl r _ _ _ hfl.dyn, rfl, rfl⟩
          refine updL_sim hsim hpl hlat h1 hr (requeue d i') hrel' _ s.ldyn ld hpl.ldyn hld (fun _ _ => rfl) hldrel ?_ htyped'
          have hnoF : ∀ {α : Prop}, isLatRel p r = false → α := fun hf => by rw [hlat] at hf; cases hf
          refine ⟨hnoF, hnoF, hnoF, tri'.cols, ?_, ?_, ?_⟩
          · intro ci hci
            exact XOk_lat_congr hlat (tri'.it ci hci) (fun j => by rw [requeue_total]) (fun hcl j _ => hpj _ hcl j)
          · intro ci hci
            exact XOk_lat_congr hlat (tri'.id ci hci) (fun j => by rw [requeue_delta]) (fun hcl j _ => hpj _ hcl j)
          · intro ci hci
            refine XOk_lat_congr hlat (tri'.inw ci hci) (fun j => ?_) (fun hcl j _ => hpj _ hcl j)
            rw [mem_requeue_new]
            constructor
            · rintro (h | h)
              · exact h
              · rw [h]; exact hin
            · exact .inl
      · have hj' : (I.joinMut r (valOf (rowAt (rowsOf a r) i)) (valOf row)).2 = false := by simpa using hj
        rw [if_neg hj, if_neg (by rw [hj']; simp)]
        simp only [pure_eq_ok]
        have hne : rowAt (rowsOf a r) i ≠ [] := by
          intro h0
          have := hty i hi
          rw [h0] at this
          simp at this; omega
        rw [hff _ _ _ hj', joinRows_unchanged hi hne, ← hxr, updL_self s r hrl]
        exact ⟨s, rfl, hsim, hpl, hfl, rfl, rfl⟩

/-! ## the head update of a plain relation -/

theorem setPCDyn_mem {dyn : List PCDyn} {d x : PCDyn} (h : x ∈ setPCDyn dyn d) : x = d ∨ x ∈ dyn := by
  simp only [setPCDyn, List.mem_map] at h
  obtain ⟨y, hy, rfl⟩ := h
  split
  · exact .inl rfl
  · exact .inr hy

theorem headRelPar_simP {p : Program E B G P A} {ix : IxSets} {dynR : List RelId} {N : Nat} {bo : List RelId}
    {a : SccSt} {s : PLScc} (hN : 0 < N) (hsim : SimP p (ixP p ix) a (s.erase p)) (hwf : WF p.rels.length dynR a)
    (hlt : ∀ r, dynR.contains r = true → r < p.rels.length) (hpl : PLWf p s) (hfl : Flags N bo true s.pc) (tid : Nat)
    (r : RelId) (row : Tuple) (hlat : isLatRel p r = false) (hlen : row.length = arityOf p r) :
    ∃ pc', headRelPar s.pc tid r row = .ok pc' ∧
      SimP p (ixP p ix) (Engine.headRel a r row) (({ s with pc := pc' } : PLScc).erase p) ∧
      PLWf p { s with pc := pc' } ∧ Flags N bo true pc' := by
  rw [headRel_eq, headRelPar_eq]
  have hfx := findXDyn_erase_plain p s hpl.ldyn r hlat
  rcases hsim.find r with ⟨h1, h2⟩ | ⟨d, pd, h1, h2, hprel, xtri⟩
  · rw [hfx] at h2
    have hnone : findPCDyn s.pc.dyn r = none := by
      cases hh : findPCDyn s.pc.dyn r with
      | none => rfl
      | some x => rw [hh] at h2; cases h2
    rw [h1, hnone]
    exact ⟨s.pc, rfl, hsim, hpl, hfl⟩
  · rw [hfx] at h2
    obtain ⟨cd, hcd, rfl⟩ : ∃ cd, findPCDyn s.pc.dyn r = some cd ∧ pd = erasePDyn cd := by
      cases hh : findPCDyn s.pc.dyn r with
      | none => rw [hh] at h2; cases h2
      | some x =>
        rw [hh] at h2
        simp only [Option.map_some, Option.some.injEq] at h2
        exact ⟨x, rfl, h2.symm⟩
    rw [h1, hcd]
    obtain ⟨hdf, hdb⟩ := hfl.dyn cd (findPCDyn_mem hcd)
    have hcdrel : cd.rel = r := findPCDyn_rel hcd
    have hrel : d.rel = r := findDyn_rel h1
    have hr : r < a.rels.length := by
      rw [hwf.len]; apply hlt
      rw [← hwf.dyn_iff, h1]; rfl
    have hrp : r < s.pc.rels.length := by rw [hpl.len, ← hwf.len]; exact hr
    have tri : TriOk (ixOf p (ixP p ix) r) (relSt a.rels r).rows d cd.erase.full cd.erase.idxs := (XTriOk_plain hlat).mp xtri
    have hbT : ∀ i ∈ d.total, i < (relSt a.rels r).rows.length := fun i hi => (hwf.cover r d h1 i).mpr (.inl hi)
    have hbD : ∀ i ∈ d.delta, i < (relSt a.rels r).rows.length := fun i hi => (hwf.cover r d h1 i).mpr (.inr (.inl hi))
    have hbN : ∀ i ∈ d.new, i < (relSt a.rels r).rows.length := fun i hi => (hwf.cover r d h1 i).mpr (.inr (.inr hi))
    have eT := contains_eq_of_fullOk tri.ft row
    have eD := contains_eq_of_fullOk tri.fd row
    have eN := contains_eq_of_fullOk tri.fn row
    simp only [containsKey_frozen _ _ hdf.ft, containsKey_frozen _ _ hdf.fd, bind_ok,
      insertIfNotPresent_unfrozen _ _ hdf.fn]
    show ∃ pc' : PCScc, _ = Res.ok pc' ∧ SimP p (ixP p ix) (if ((bagTuples (relSt a.rels r).rows d.total).contains row ||
        (bagTuples (relSt a.rels r).rows d.delta).contains row || (bagTuples (relSt a.rels r).rows d.new).contains row) = true
        then a else pushRow a r d row) _ ∧ _
    rw [← eT, ← eD, ← eN]
    change ∃ pc' : PCScc, _ = Res.ok pc' ∧ SimP p (ixP p ix) (if (FullIdx.containsKey cd.full.total.m row ||
        FullIdx.containsKey cd.full.delta.m row || FullIdx.containsKey cd.full.new.m row) = true
        then a else pushRow a r d row) _ ∧ _
    by_cases h12 : (FullIdx.containsKey cd.full.total.m row || FullIdx.containsKey cd.full.delta.m row) = true
    · rw [if_pos h12, if_pos (by rw [h12]; rfl)]
      exact ⟨s.pc, rfl, hsim, hpl, hfl⟩
    · rw [if_neg h12]
      have h12' : (FullIdx.containsKey cd.full.total.m row || FullIdx.containsKey cd.full.delta.m row) = false := by
        simpa using h12
      by_cases hNw : FullIdx.containsKey cd.full.new.m row = true
      · rw [insertIfNotPresent_present hNw, if_pos (show (FullIdx.containsKey cd.full.total.m row ||
          FullIdx.containsKey cd.full.delta.m row || FullIdx.containsKey cd.full.new.m row) = true by rw [hNw]; simp)]
        simp only [Bool.not_false, if_true, pure_eq_ok]
        exact ⟨s.pc, rfl, hsim, hpl, hfl⟩
      · have hN' : FullIdx.containsKey cd.full.new.m row = false := by simpa using hNw
        have tfn : FullOk (relSt a.rels r).rows d.new cd.full.new.m := tri.fn
        obtain ⟨hi2, hfull⟩ := FullOk_insertIfNotPresent row tfn hbN hN'
        rw [if_neg (show ¬ (FullIdx.containsKey cd.full.total.m row ||
          FullIdx.containsKey cd.full.delta.m row || FullIdx.containsKey cd.full.new.m row) = true by rw [h12', hN']; simp), hi2]
        simp only [Bool.not_true, Bool.false_eq_true, if_false]
        obtain ⟨idxs, hfold, hrel2⟩ := foldRes_collect
          (fun (ci : List Nat × Tri PCx) => ci.2.new.insert tid (Plan.proj ci.1 row) (projC ci.1 row))
          (fun ci x => (ci.1, { ci.2 with new := x }))
          (fun ci ci' => ci'.1 = ci.1 ∧ Shape N ci'.1 ci'.2.total ∧ Shape N ci'.1 ci'.2.delta ∧ Shape N ci'.1 ci'.2.new ∧
            ci'.2.total.isFrozen = true ∧ ci'.2.delta.isFrozen = true ∧ ci'.2.new.isFrozen = false ∧
            IxOk ((relSt a.rels r).rows ++ [row]) d.total ci'.1 ci'.2.total.erase ∧
            IxOk ((relSt a.rels r).rows ++ [row]) d.delta ci'.1 ci'.2.delta.erase ∧
            IxOk ((relSt a.rels r).rows ++ [row]) (d.new ++ [(relSt a.rels r).rows.length]) ci'.1 ci'.2.new.erase)
          cd.idxs (by
            intro ci hci
            obtain ⟨s1, s2, s3, f1, f2, f3⟩ := hdf.ix ci hci
            have hmem : (ci.1, eraseTri ci.2) ∈ cd.erase.idxs := List.mem_map.mpr ⟨ci, hci, rfl⟩
            have i1 : IxOk (relSt a.rels r).rows d.total ci.1 ci.2.total.erase := tri.it _ hmem
            have i2 : IxOk (relSt a.rels r).rows d.delta ci.1 ci.2.delta.erase := tri.id _ hmem
            have i3 : IxOk (relSt a.rels r).rows d.new ci.1 ci.2.new.erase := tri.inw _ hmem
            obtain ⟨x', hx1, hx2, hx3, hx4⟩ := PCx_insert_ok hN s3 f3 i3 hbN tid row
            exact ⟨x', hx1, rfl, s1, s2, hx2, f1, f2, hx3, IxOk_rows_append row i1 hbT, IxOk_rows_append row i2 hbD, hx4⟩)
        rw [hfold]
        simp only [bind_ok, pure_eq_ok]
        obtain ⟨nf, hnf⟩ : ∃ nf : PCFull,
            nf = ⟨cd.full.new.frozen, (FullIdx.insertIfNotPresent cd.full.new.m row ()).1⟩ := ⟨_, rfl⟩
        rw [← hnf]
        have hnfz : nf.frozen = false := by rw [hnf]; exact hdf.fn
        have hnfm : nf.m = (FullIdx.insertIfNotPresent cd.full.new.m row ()).1 := by rw [hnf]
        have hpdyn' : ∀ x ∈ (pushPC s.pc r cd row nf idxs).dyn, isLatRel p x.rel = false := by
          intro x hx
          rcases setPCDyn_mem hx with rfl | hx
          · show isLatRel p cd.rel = false
            rw [hcdrel]; exact hlat
          · exact hpl.pdyn x hx
        have hpl' : PLWf p { s with pc := pushPC s.pc r cd row nf idxs } := by
          refine ⟨by simp [pushPC, hpl.len], hpl.llen, hpdyn', hpl.ldyn, ?_, hpl.lrow, by
            show ((setPCDyn s.pc.dyn _).map (·.rel)).Nodup
            rw [setPCDyn_rels]; exact hpl.pnd, hpl.lnd⟩
          intro r' hl'
          have hne : r' ≠ r := by
            intro h; subst h; rw [hlat] at hl'; cases hl'
          simp only [pushPC, pcrel_setNth_ne _ _ _ _ hne]
          exact hpl.prow r' hl'
        refine ⟨_, rfl, ?_, hpl', ?_⟩
        · rw [pushRow_eq_upd]
          refine upd_simP hsim h1 hr { d with new := d.new ++ [(rowsOf a r).length] } hrel (rowsOf a r ++ [row]) ?_ ?_ ?_ rfl
            (erasePDyn { cd with full := { cd.full with new := nf }, idxs := idxs }) ?_ hcdrel ?_ ?_ ?_
          · rw [erase_rels_length, erase_rels_length]; simp [pushPC]
          · rw [xrel_erase p _ hpl'.len, eraseRel_plain p _ _ r hlat]
            simp only [pushPC, pcrel_setNth_self _ _ _ hrp]
            have := hsim.rows r
            rw [xrel_erase p s hpl.len, eraseRel_plain p _ _ r hlat] at this
            show (pcrel s.pc.rels r).rows ++ [row] = rowsOf a r ++ [row]
            have h' : rowsOf a r = (pcrel s.pc.rels r).rows := this
            rw [h']
          · intro r' hr'
            rw [xrel_erase p _ hpl'.len, xrel_erase p _ hpl.len]
            simp only [eraseRel, pushPC, pcrel_setNth_ne _ _ _ _ hr']
          · rw [findXDyn_erase_plain p _ hpl'.ldyn r hlat]
            show (findPCDyn (setPCDyn s.pc.dyn _) r).map erasePDyn = _
            rw [findPCDyn_setPCDyn, if_pos hcdrel.symm, hcd]; rfl
          · apply (XTriOk_plain hlat).mpr
            refine ⟨FullOk_rows_append row tri.ft hbT, FullOk_rows_append row tri.fd hbD, ?_, ?_, ?_, ?_, ?_⟩
            · show FullOk _ _ nf.m
              rw [hnfm]; exact hfull
            · show (idxs.map fun ci => (ci.1, eraseTri ci.2)).map (·.1) = _
              rw [← tri.cols]
              show _ = (cd.idxs.map fun ci => (ci.1, eraseTri ci.2)).map (·.1)
              rw [List.map_map, List.map_map]
              exact (Rel2.map_eq _ _ (fun c c' hq => hq.1.symm) hrel2).symm
            · intro ci hci
              obtain ⟨c', hc', rfl⟩ := List.mem_map.mp hci
              obtain ⟨c, _, hq⟩ := hrel2.forall_right c' hc'
              exact hq.2.2.2.2.2.2.2.1
            · intro ci hci
              obtain ⟨c', hc', rfl⟩ := List.mem_map.mp hci
              obtain ⟨c, _, hq⟩ := hrel2.forall_right c' hc'
              exact hq.2.2.2.2.2.2.2.2.1
            · intro ci hci
              obtain ⟨c', hc', rfl⟩ := List.mem_map.mp hci
              obtain ⟨c, _, hq⟩ := hrel2.forall_right c' hc'
              exact hq.2.2.2.2.2.2.2.2.2
          · intro r' hr'
            cases hl' : isLatRel p r' with
            | true =>
              rw [findXDyn_erase_lat p _ hpl'.pdyn r' hl', findXDyn_erase_lat p _ hpl.pdyn r' hl']
            | false =>
              rw [findXDyn_erase_plain p _ hpl'.ldyn r' hl', findXDyn_erase_plain p _ hpl.ldyn r' hl']
              show (findPCDyn (setPCDyn s.pc.dyn _) r').map erasePDyn = _
              rw [findPCDyn_setPCDyn, if_neg (by
                show ¬ r' = cd.rel
                rw [hcdrel]; exact hr')]
          · intro t ht
            rcases List.mem_append.mp ht with ht | ht
            · exact hsim.typed r t ht
            · simp only [List.mem_singleton] at ht; rw [ht]; exact hlen
        · refine Flags_push hfl hcd row _ idxs hnfz ?_
          intro c' hc'
          obtain ⟨c, _, hq⟩ := hrel2.forall_right c' hc'
          exact ⟨hq.2.1, hq.2.2.1, hq.2.2.2.1, hq.2.2.2.2.1, hq.2.2.2.2.2.1, hq.2.2.2.2.2.2.1⟩

end AscentVerif.PhysParLat
