import AscentVerif.Proofs.AggRestartSpec
/-!
# Stratified restart, the link between program values and aggregation views (step 2)

Two program values that extend the same value `s` (rows appended once each), whose stored indices
enumerate every row number once, and that hold the same SET of tuples in relation `a.rel`, hand
aggregation item `a` lists that are permutations of each other; a permutation-invariant aggregator
cannot tell them apart (`aggEq_states`).
-/
namespace AscentVerif.Engine.Agg
open AscentVerif AscentVerif.Engine

variable {E B G P A : Type}

/-- aggregators do not depend on the order of the tuples handed to them
(`AggPermInvariant` of `Props/C13Agg.lean`) -/
def PermInv (I : Interp E B G P A) : Prop :=
  ∀ (fn : A) (l l' : List Tuple), l.Perm l' → I.agg fn l = I.agg fn l'

/-- `t` extends `s` (`Extends` of `Props/C13Agg.lean`) -/
def ExtSt (p : Program E B G P A) (s t : St) : Prop :=
  ∀ r, r < p.rels.length → ∃ extra : List Tuple,
    (relSt t r).rows = (relSt s r).rows ++ extra ∧ extra.Nodup ∧ ∀ x ∈ extra, x ∉ (relSt s r).rows

theorem ExtSt.refl (p : Program E B G P A) (s : St) : ExtSt p s s :=
  fun _ _ => ⟨[], by simp, List.nodup_nil, fun x hx => by simp at hx⟩

theorem ExtSt.facts {p : Program E B G P A} {s t : St} (h : ExtSt p s t) (hlen : s.length = p.rels.length) :
    ∀ f, factsOf s f → factsOf t f := by
  intro f hf
  have hr : f.rel < p.rels.length := by
    have := lt_of_mem_rows s f.rel f.args hf
    rw [hlen] at this; exact this
  obtain ⟨extra, he, _, _⟩ := h f.rel hr
  show f.args ∈ (relSt t f.rel).rows
  rw [he]; exact List.mem_append_left _ hf

/-- appending derived rows (each once, none already present) keeps `ExtSt` -/
theorem ExtSt.append {p : Program E B G P A} {s t u : St} (h : ExtSt p s t)
    (hu : ∀ r, r < p.rels.length → ∃ derived : List Tuple,
      (relSt u r).rows = (relSt t r).rows ++ derived ∧ derived.Nodup ∧ ∀ x ∈ derived, x ∉ (relSt t r).rows) :
    ExtSt p s u := by
  intro r hr
  obtain ⟨extra, he, hen, hed⟩ := h r hr
  obtain ⟨derived, hd, hdn, hdd⟩ := hu r hr
  refine ⟨extra ++ derived, by rw [hd, he, List.append_assoc], ?_, ?_⟩
  · rw [List.nodup_append]
    refine ⟨hen, hdn, ?_⟩
    intro a ha b hb e
    subst e
    apply hdd a hb
    rw [he]; exact List.mem_append_right _ ha
  · intro x hx
    rcases List.mem_append.mp hx with hx | hx
    · exact hed x hx
    · intro hin
      apply hdd x hx
      rw [he]; exact List.mem_append_left _ hin

theorem ExtSt.of_pinv {I : Interp E B G P A} {p : Program E B G P A} {aggv : AggClause E A → List Tuple} {K : Prop}
    {s t u : St} (h : ExtSt p s t)
    (hp : PInv I p (fun r => (relSt t r).rows) aggv K p.rels.length u) : ExtSt p s u :=
  h.append fun r hr => (hp.good r hr).2

/-! ## lists -/

theorem nodup_eraseDups {α : Type} [BEq α] [LawfulBEq α] :
    ∀ (n : Nat) (l : List α), l.length ≤ n → l.eraseDups.Nodup
  | _, [], _ => by simp
  | 0, _ :: _, h => by simp at h
  | n + 1, b :: l, h => by
    have hlen : (l.filter fun x => !x == b).length ≤ n :=
      Nat.le_trans (List.length_filter_le _ _) (by simpa using h)
    rw [List.eraseDups_cons, List.nodup_cons]
    refine ⟨?_, nodup_eraseDups n _ hlen⟩
    rw [mem_eraseDups', List.mem_filter]
    rintro ⟨_, hb⟩
    simp at hb

theorem eraseDups_perm {α : Type} [BEq α] [LawfulBEq α] {l l' : List α} (h : l.Perm l') :
    l.eraseDups.Perm l'.eraseDups := by
  rw [List.perm_ext_iff_of_nodup (nodup_eraseDups _ l (Nat.le_refl _)) (nodup_eraseDups _ l' (Nat.le_refl _))]
  intro a
  rw [mem_eraseDups', mem_eraseDups']
  exact h.mem_iff

theorem map_rowAt_range (rows : List Tuple) : (List.range rows.length).map (rowAt rows) = rows := by
  apply List.ext_getElem
  · simp
  · intro i h1 h2
    simp [rowAt, List.getD_eq_getElem?_getD, List.getElem?_eq_getElem h2]

/-- an index enumerating every row number once, read through the rows: a permutation of the rows -/
theorem view_perm (rows : List Tuple) (idx : List Nat) (hnd : idx.Nodup)
    (hall : ∀ i, i < rows.length ↔ i ∈ idx) : (idx.map (rowAt rows)).Perm rows := by
  have h1 : idx.Perm (List.range rows.length) := by
    rw [List.perm_ext_iff_of_nodup hnd List.nodup_range]
    intro i
    rw [List.mem_range]
    exact (hall i).symm
  have h2 := h1.map (rowAt rows)
  rw [map_rowAt_range] at h2
  exact h2

/-- same prefix, duplicate-free fresh suffixes, same members: permutations of each other -/
theorem rows_perm {base X₁ X₂ : List Tuple} (hn₁ : X₁.Nodup) (hn₂ : X₂.Nodup)
    (hd₁ : ∀ x ∈ X₁, x ∉ base) (hd₂ : ∀ x ∈ X₂, x ∉ base)
    (hmem : ∀ t, t ∈ base ++ X₁ ↔ t ∈ base ++ X₂) : (base ++ X₁).Perm (base ++ X₂) := by
  apply List.Perm.append_left
  rw [List.perm_ext_iff_of_nodup hn₁ hn₂]
  intro x
  constructor
  · intro hx
    rcases List.mem_append.mp ((hmem x).mp (List.mem_append_right _ hx)) with h | h
    · exact absurd h (hd₁ x hx)
    · exact h
  · intro hx
    rcases List.mem_append.mp ((hmem x).mpr (List.mem_append_right _ hx)) with h | h
    · exact absurd h (hd₂ x hx)
    · exact h

theorem aggBag_perm (I : Interp E B G P A) (a : AggClause E A) (ρ : Env) {l l' : List Tuple} (h : l.Perm l') :
    (aggBag I a ρ l).Perm (aggBag I a ρ l') := by
  unfold aggBag
  exact h.filterMap _

theorem aggEnvs_perm {I : Interp E B G P A} (hperm : PermInv I) (a : AggClause E A) (ρ : Env) {l l' : List Tuple}
    (h : l.Perm l') : aggEnvs I a ρ l = aggEnvs I a ρ l' := by
  unfold aggEnvs
  rw [hperm a.fn _ _ (aggBag_perm I a ρ h)]

/-! ## what an item reads from a program value -/

theorem aggOf_eq' (cfg : Config) (p : Program E B G P A) (hl : ∀ d ∈ p.rels, d.lat = false) (st : St)
    (a : AggClause E A) :
    aggOf cfg p st a =
      if aggIsFull a then dedupTuples (((relSt st a.rel).idx).map (rowAt (relSt st a.rel).rows))
      else ((relSt st a.rel).idx).map (rowAt (relSt st a.rel).rows) := by
  simp [aggOf, aggTuples, readBag_id cfg p hl, declOf_lat p hl]

section Link
variable (I : Interp E B G P A) (cfg : Config) (p : Program E B G P A) (hl : ∀ d ∈ p.rels, d.lat = false)
  (hperm : PermInv I)

include hl hperm in
/-- permuted rows, complete duplicate-free indices: the item cannot tell the two values apart -/
theorem aggEq_of_rows (st₁ st₂ : St) (a : AggClause E A)
    (hnd₁ : (relSt st₁ a.rel).idx.Nodup) (hall₁ : ∀ i, i < (relSt st₁ a.rel).rows.length ↔ i ∈ (relSt st₁ a.rel).idx)
    (hnd₂ : (relSt st₂ a.rel).idx.Nodup) (hall₂ : ∀ i, i < (relSt st₂ a.rel).rows.length ↔ i ∈ (relSt st₂ a.rel).idx)
    (hrows : (relSt st₁ a.rel).rows.Perm (relSt st₂ a.rel).rows) :
    AggEq I (aggOf cfg p st₁) (aggOf cfg p st₂) a := by
  intro ρ
  have hv : (((relSt st₁ a.rel).idx).map (rowAt (relSt st₁ a.rel).rows)).Perm
      (((relSt st₂ a.rel).idx).map (rowAt (relSt st₂ a.rel).rows)) :=
    ((view_perm _ _ hnd₁ hall₁).trans hrows).trans (view_perm _ _ hnd₂ hall₂).symm
  rw [aggOf_eq' cfg p hl st₁ a, aggOf_eq' cfg p hl st₂ a]
  split
  · exact aggEnvs_perm hperm a ρ (eraseDups_perm hv)
  · exact aggEnvs_perm hperm a ρ hv

include hl hperm in
/-- **two values extending `s`, indices complete and duplicate-free, same set of tuples in `a.rel`** -/
theorem aggEq_states {inp₁ inp₂ : RelId → List Tuple} {aggvA aggvB : AggClause E A → List Tuple}
    (s st₁ st₂ : St)
    (hp₁ : PInv I p inp₁ aggvA True p.rels.length st₁) (hp₂ : PInv I p inp₂ aggvB True p.rels.length st₂)
    (hx₁ : ExtSt p s st₁) (hx₂ : ExtSt p s st₂) (a : AggClause E A)
    (hsame : ∀ t, factsOf st₁ ⟨a.rel, t⟩ ↔ factsOf st₂ ⟨a.rel, t⟩) :
    AggEq I (aggOf cfg p st₁) (aggOf cfg p st₂) a := by
  by_cases hr : a.rel < p.rels.length
  · obtain ⟨X₁, he₁, hn₁, hd₁⟩ := hx₁ a.rel hr
    obtain ⟨X₂, he₂, hn₂, hd₂⟩ := hx₂ a.rel hr
    refine aggEq_of_rows I cfg p hl hperm st₁ st₂ a (hp₁.idxNd trivial a.rel) (hp₁.idxAll a.rel)
      (hp₂.idxNd trivial a.rel) (hp₂.idxAll a.rel) ?_
    rw [he₁, he₂]
    refine rows_perm hn₁ hn₂ hd₁ hd₂ ?_
    intro t
    rw [← he₁, ← he₂]
    exact hsame t
  · have h1 : relSt st₁ a.rel = ⟨[], []⟩ := relSt_of_ge _ _ (by rw [hp₁.len]; exact Nat.le_of_not_lt hr)
    have h2 : relSt st₂ a.rel = ⟨[], []⟩ := relSt_of_ge _ _ (by rw [hp₂.len]; exact Nat.le_of_not_lt hr)
    exact AggEq.of_eq (aggOf_congr cfg p a (h1.trans h2.symm))

end Link

end AscentVerif.Engine.Agg
