import AscentVerif.Proofs.ParPass
import AscentVerif.Proofs.RunScc
/-!
# One parallel iteration, the parallel SCC loop and `runSccPar` — step 4/5 of the C02 proof
(mirrors `iter_step` of `Proofs/SccStep.lean`, `sccLoop_spec` of `Proofs/Scc.lean` and
`runScc_spec` of `Proofs/RunScc.lean`; every schedule)
-/
namespace AscentVerif.Engine
open AscentVerif

variable {E B G P A : Type}

section ParIter
variable (I : Interp E B G P A) (cfg : Config) (p : Program E B G P A) (inp : RelId → List Tuple)
  (n : Nat) (dynR : List RelId) (hlt : ∀ r, dynR.contains r = true → r < n)
  (hl : ∀ d ∈ p.rels, d.lat = false)

include hlt hl in
/-- **one parallel iteration** (`evalRulesPar` from a state with `changed = false`, then `shift`) -/
theorem iter_step_par (rules : List (Rule E B G P A))
    (hrules : ∀ rule ∈ rules, rule ∈ p.rules) (haf : ∀ rule ∈ rules, rule.aggFree = true)
    (hdyn : ∀ rule ∈ rules, ∀ h ∈ rule.heads, dynR.contains h.rel = true)
    (σ : Sched E B G P A) (k : Nat)
    (s : SccSt) (hinv : LoopInv I cfg p inp n dynR rules (hasDyn dynR) s) :
    LoopInv I cfg p inp n dynR rules (fun _ => True)
        (shift (evalRulesPar I cfg p dynR rules σ k { s with changed := false })) ∧
      Ext { s with changed := false } (evalRulesPar I cfg p dynR rules σ k { s with changed := false }) := by
  have hwf0 : WF n dynR { s with changed := false } := WF_reset n dynR hinv.wf
  obtain ⟨hpost, hle, hproc⟩ := evalRulesPar_spec I cfg p inp n dynR hlt hl hwf0 hinv.good rules hrules haf hdyn σ k
  refine ⟨⟨WF_shift hpost.wf, hpost.good, ?_, ?_⟩, hpost.ext⟩
  · intro r d' hd'
    rw [findDyn_shift] at hd'
    cases hd : findDyn (evalRulesPar I cfg p dynR rules σ k { s with changed := false }).dyn r with
    | none => rw [hd] at hd'; cases hd'
    | some d => rw [hd] at hd'; cases hd'; rfl
  · intro rule hr _ ρ hsat h hh
    have hsat' : Sat I (Dall cfg p { s with changed := false }) nAgg rule.body [] ρ :=
      Sat.mono (fun f hf => Dtot_shift_sub cfg p n dynR hl hwf0 hpost.ext f hf) hsat
    show FactsS (evalRulesPar I cfg p dynR rules σ k { s with changed := false }) (headFact I h ρ)
    rcases seminaive_cover I (viewOf cfg p { s with changed := false }) dynR
        (fun r hr v v' t hv => view_nd cfg p hl hwf0 hr v v' t hv)
        (fun r t hv => view_split cfg p hl hwf0 r t hv) rule (haf rule hr) hsat' with ⟨hn, htot⟩ | ⟨vs, hvs, hsv⟩
    · exact hle _ _ (hinv.front rule hr hn ρ htot h hh)
    · exact hproc rule hr vs hvs ρ hsv h hh

include hlt hl in
/-- the loop of a looping SCC under any schedule -/
theorem sccLoopPar_spec (rules : List (Rule E B G P A))
    (hrules : ∀ rule ∈ rules, rule ∈ p.rules) (haf : ∀ rule ∈ rules, rule.aggFree = true)
    (hdyn : ∀ rule ∈ rules, ∀ h ∈ rule.heads, dynR.contains h.rel = true)
    (σ : Sched E B G P A) (st : St) : ∀ (fuel : Nat) (rs rs' : ParSt),
      LoopInv I cfg p inp n dynR rules (hasDyn dynR) rs.st → Base dynR st rs.st →
      sccLoopPar I cfg p dynR rules σ fuel rs = some rs' →
      LoopInv I cfg p inp n dynR rules (fun _ => True) rs'.st ∧ Settled rs'.st ∧ Base dynR st rs'.st := by
  intro fuel
  induction fuel with
  | zero => intro rs rs' _ _ h; simp [sccLoopPar] at h
  | succ fuel ih =>
    intro rs rs' hinv hb h
    obtain ⟨hinv', hext⟩ := iter_step_par I cfg p inp n dynR hlt hl rules hrules haf hdyn σ rs.clock rs.st hinv
    have hb' := Base_step n dynR hinv.wf hb hext
    simp only [sccLoopPar] at h
    split at h
    · rename_i hch
      simp only [Option.some.injEq] at h
      subst h
      refine ⟨hinv', ?_, hb'⟩
      have hch' : (evalRulesPar I cfg p dynR rules σ rs.clock { rs.st with changed := false }).changed = false := by
        simpa using hch
      have heq := hext.unchanged hch'
      intro r d' hd'
      simp only [] at hd'
      rw [findDyn_shift, heq] at hd'
      cases hd : findDyn rs.st.dyn r with
      | none =>
        have : findDyn ({ rs.st with changed := false } : SccSt).dyn r = none := hd
        rw [this] at hd'; cases hd'
      | some d =>
        have : findDyn ({ rs.st with changed := false } : SccSt).dyn r = some d := hd
        rw [this] at hd'; cases hd'
        exact ⟨hinv.newE r d hd, rfl⟩
    · exact ih _ rs' (hinv'.weaken I cfg p inp n dynR fun _ _ => trivial) hb' h

end ParIter

section RunSccPar
variable (I : Interp E B G P A) (cfg : Config) (p : Program E B G P A) (inp : RelId → List Tuple)
  (hl : ∀ d ∈ p.rels, d.lat = false) (haf : ∀ r ∈ p.rules, r.aggFree = true)
  (hh : ∀ r ∈ p.rules, ∀ h ∈ r.heads, h.rel < p.rels.length)

include hl haf hh in
theorem runSccPar_spec (σ : Sched E B G P A) (fuel : Nat) (scc : List Nat) (ps ps' : ParProgSt)
    (hp : PInv I p inp p.rels.length ps.st) (h : runSccPar I cfg p σ fuel scc ps = some ps') :
    PInv I p inp p.rels.length ps'.st ∧
      (∀ r, (dynRels p scc).contains r = false → relSt ps'.st r = relSt ps.st r) ∧
      (∀ r t, t ∈ (relSt ps.st r).rows → t ∈ (relSt ps'.st r).rows) ∧
      ClosedRules I (sccRules p scc) (factsOf ps'.st) := by
  have hrules := sccRules_sub p scc
  have hafs : ∀ rule ∈ sccRules p scc, rule.aggFree = true := fun r hr => haf r (hrules r hr)
  have hdyn : ∀ rule ∈ sccRules p scc, ∀ h ∈ rule.heads, (dynRels p scc).contains h.rel = true :=
    fun rule hr h hhd => (dynRels_mem p scc h.rel).mpr ⟨rule, hr, h, hhd, rfl⟩
  have hlt : ∀ r, (dynRels p scc).contains r = true → r < p.rels.length := by
    intro r hr
    obtain ⟨rule, hrule, h, hhd, rfl⟩ := (dynRels_mem p scc r).mp hr
    exact hh rule (hrules rule hrule) h hhd
  have hinv0 := LoopInv_enter I cfg p inp p.rels.length (dynRels p scc) hl hp (sccRules p scc)
  have hb0 := Base_enter (dynRels p scc) ps.st
  simp only [runSccPar] at h
  split at h
  · -- looping
    simp only [Option.map_eq_some_iff] at h
    obtain ⟨rs, hloop, rfl⟩ := h
    obtain ⟨hinv, hset, hb⟩ := sccLoopPar_spec I cfg p inp p.rels.length (dynRels p scc) hlt hl (sccRules p scc)
      hrules hafs hdyn σ ps.st fuel _ rs hinv0 hb0 hloop
    apply leave_full I p inp p.rels.length (dynRels p scc) hlt (sccRules p scc) hinv.wf hinv.good hset hb
    intro rule hr ρ hsat hd hhd
    refine hinv.front rule hr trivial ρ (Sat.mono ?_ hsat) hd hhd
    exact fun f hf => facts_sub_Dtot cfg p p.rels.length (dynRels p scc) hl hinv.wf hset f hf
  · -- not looping
    rename_i hnl
    have hnl' : isLooping p scc = false := by simpa using hnl
    simp only [Option.some.injEq] at h
    subst h
    obtain ⟨hinv, hext⟩ := iter_step_par I cfg p inp p.rels.length (dynRels p scc) hlt hl (sccRules p scc)
      hrules hafs hdyn σ ps.clock _ hinv0
    have hb := Base_step p.rels.length (dynRels p scc) hinv0.wf hb0 hext
    have hwf2 := WF_shift hinv.wf
    have hset : Settled (shift (shift (evalRulesPar I cfg p (dynRels p scc) (sccRules p scc) σ ps.clock
        (enterScc ps.st (dynRels p scc))))) := by
      intro r d'' hd''
      rw [findDyn_shift] at hd''
      cases hd : findDyn (shift (evalRulesPar I cfg p (dynRels p scc) (sccRules p scc) σ ps.clock
          (enterScc ps.st (dynRels p scc)))).dyn r with
      | none => rw [hd] at hd''; cases hd''
      | some d' =>
        rw [hd] at hd''; cases hd''
        exact ⟨hinv.newE r d' hd, rfl⟩
    have hb2 : Base (dynRels p scc) ps.st (shift (shift (evalRulesPar I cfg p (dynRels p scc) (sccRules p scc) σ ps.clock
        (enterScc ps.st (dynRels p scc))))) := hb
    apply leave_full I p inp p.rels.length (dynRels p scc) hlt (sccRules p scc) hwf2 hinv.good hset hb2
    intro rule hr ρ hsat hd hhd
    refine hinv.front rule hr trivial ρ (Sat.congr_rels hsat ?_) hd hhd
    intro r hr' t ht
    exact facts_sub_Dtot_nd cfg p p.rels.length (dynRels p scc) hl hinv.wf r (notLooping p scc hnl' rule hr r hr') t ht

end RunSccPar

end AscentVerif.Engine
