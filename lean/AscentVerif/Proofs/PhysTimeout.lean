import AscentVerif.Model.EnginePhysTimeout
import AscentVerif.Proofs.PhysRun
/-!
# `run_timeout` over the physical indices: a completed call is a `run()`, an interrupted one is a prefix of an ND run

* `sccLoopT_done` / `runSccT_done` / `runSccsT_done` / `runTimeout_done`: a call that returned `true` never took the
  early return, so it computed exactly what `run()` computes (same value, same iteration counts);
* `sccLoopT_timedOut` / `runSccT_timedOut` / `runSccsT_timedOut` / `runTimeout_timedOut`: an interrupted call corresponds to
  completed SCCs of the nondeterministic engine followed by some passes and merges of the interrupted SCC; the invariants of
  `Proofs/NDEngine.lean` (`PInv` between SCCs, `LoopInv` inside) hold along that prefix, and `abandonScc` keeps the rows:
  the returned value is `SoundSt` (typed, every row derivable, rows = input prefix ++ duplicate-free derived part).
-/
namespace AscentVerif.Phys
open AscentVerif AscentVerif.Engine AscentVerif.Index

variable {E B G P A : Type}

/-! ## a completed `run_timeout` is a `run()` -/

theorem sccLoopT_done (I : Interp E B G P A) (V : Hir.VarsOf E B) (p : Program E B G P A) (dyn : List RelId)
    (rules : List (Rule E B G P A)) (dl : Deadline) : ∀ (fuel : Nat) (rs rs' : RunStT),
    sccLoopT I V p dyn rules dl fuel rs = .done rs' →
    sccLoop I V p dyn rules fuel ⟨rs.st, rs.iters⟩ = some ⟨rs'.st, rs'.iters⟩ := by
  intro fuel
  induction fuel with
  | zero => intro rs rs' h; simp [sccLoopT] at h
  | succ fuel ih =>
    intro rs rs' h
    simp only [sccLoopT] at h
    simp only [sccLoop]
    split at h
    · rename_i hch
      rw [if_pos hch]
      cases h
      rfl
    · rename_i hch
      rw [if_neg hch]
      split at h
      · cases h
      · exact ih _ rs' h

theorem runSccT_done (I : Interp E B G P A) (V : Hir.VarsOf E B) (p : Program E B G P A) (dl : Deadline) (fuel : Nat)
    (scc : List Nat) (ps ps' : ProgStT) (h : runSccT I V p dl fuel scc ps = .done ps') :
    runScc I V p fuel scc ⟨ps.st, ps.iters⟩ = some ⟨ps'.st, ps'.iters⟩ := by
  simp only [runSccT] at h
  simp only [runScc]
  split at h
  · rename_i hlp
    rw [if_pos hlp]
    split at h
    · rename_i rs hloop
      cases h
      rw [sccLoopT_done I V p _ _ dl fuel _ rs hloop]
      rfl
    · cases h
    · cases h
  · rename_i hlp
    rw [if_neg hlp]
    split at h
    · cases h
    · cases h
      rfl

theorem runSccsT_done (I : Interp E B G P A) (V : Hir.VarsOf E B) (p : Program E B G P A) (dl : Deadline) (fuel : Nat) :
    ∀ (order : SccOrder) (ps ps' : ProgStT), runSccsT I V p dl fuel order ps = .done ps' →
    runSccs I V p fuel order ⟨ps.st, ps.iters⟩ = some ⟨ps'.st, ps'.iters⟩ := by
  intro order
  induction order with
  | nil =>
    intro ps ps' h
    simp only [runSccsT] at h
    cases h
    rfl
  | cons scc rest ih =>
    intro ps ps' h
    simp only [runSccsT] at h
    simp only [runSccs]
    split at h
    · rename_i ps1 hscc
      rw [runSccT_done I V p dl fuel scc ps ps1 hscc]
      exact ih ps1 ps' h
    · rename_i other hne
      cases hr : runSccT I V p dl fuel scc ps with
      | done x => exact absurd hr (hne x)
      | timedOut x => rw [hr] at h; cases h
      | outOfFuel => rw [hr] at h; cases h

/-- `run_timeout` returned `true`: it computed what `run()` computes -/
theorem runTimeout_done (I : Interp E B G P A) (V : Hir.VarsOf E B) (p : Program E B G P A) (ix : IxSets) (order : SccOrder)
    (dl : Deadline) (fuel : Nat) (s : PSt) (o : ProgStT) (h : runTimeout I V p ix order dl fuel s = .done o) :
    run I V p ix order fuel s = some ⟨o.st, o.iters⟩ :=
  runSccsT_done I V p dl fuel order _ o h

/-! ## the value an interrupted call leaves -/

/-- typed, every row derivable from the input rows, rows = input prefix ++ duplicate-free derived part -/
def SoundSt (I : Interp E B G P A) (p : Program E B G P A) (inp : RelId → List Tuple) (pst : PSt) : Prop :=
  pst.length = p.rels.length ∧ (∀ r, ∀ t ∈ (prel pst r).rows, t.length = arityOf p r) ∧
    ∀ r, r < p.rels.length → GoodRows I p inp r (prel pst r).rows

theorem abandon_length (p : Program E B G P A) (scc : List Nat) (ph : PScc) :
    (abandonScc p scc ph).length = ph.rels.length := by
  simp [abandonScc]

theorem abandon_rows (p : Program E B G P A) (scc : List Nat) (ph : PScc) (r : RelId) :
    (prel (abandonScc p scc ph) r).rows = (prel ph.rels r).rows := by
  by_cases hr : r < ph.rels.length
  · simp only [abandonScc, prel_rangeMap _ _ _ hr]
    split <;> rfl
  · have hr' : ph.rels.length ≤ r := Nat.le_of_not_lt hr
    simp only [abandonScc, prel_rangeMap_ge _ _ _ hr', prel_of_ge _ _ hr']

theorem abandon_sound (I : Interp E B G P A) (p : Program E B G P A) (ix : IxSets) (inp : RelId → List Tuple)
    (dynR : List RelId) (scc : List Nat) {a : SccSt} {ph : PScc} (hwf : WF p.rels.length dynR a)
    (hgood : Good I p inp p.rels.length a) (hsim : Sim p ix a ph) : SoundSt I p inp (abandonScc p scc ph) := by
  refine ⟨by rw [abandon_length, ← hsim.len, hwf.len], ?_, ?_⟩
  · intro r t ht
    rw [abandon_rows, ← hsim.rows] at ht
    exact hsim.typed r t ht
  · intro r hr
    rw [abandon_rows, ← hsim.rows]
    exact hgood r hr

/-! ## the loop of a looping SCC, interrupted -/

section Loop
variable (I : Interp E B G P A) (hI : Plan.Ext I) (cfg : Config) (V : Hir.VarsOf E B) (hS : Plan.Supp I V)
  (p : Program E B G P A) (hl : ∀ d ∈ p.rels, d.lat = false) (ix : IxSets) (inp : RelId → List Tuple)
  (dynR : List RelId) (hlt : ∀ r, dynR.contains r = true → r < p.rels.length)

include hI hS hl hlt cfg in
theorem sccLoopT_timedOut (rules : List (Rule E B G P A)) (hR : ∀ r ∈ rules, RuleFit V p ix r)
    (hrules : ∀ rule ∈ rules, rule ∈ p.rules)
    (hdyn : ∀ rule ∈ rules, ∀ h ∈ rule.heads, dynR.contains h.rel = true) (dl : Deadline) :
    ∀ (fuel : Nat) (rs rs' : RunStT) (a : SccSt), sccLoopT I V p dynR rules dl fuel rs = .timedOut rs' →
      LoopInv I cfg p inp p.rels.length dynR rules (hasDyn dynR) a → Sim p ix a rs.st →
      ∃ a', WF p.rels.length dynR a' ∧ Good I p inp p.rels.length a' ∧ Sim p ix a' rs'.st := by
  have haf : ∀ rule ∈ rules, rule.aggFree = true := fun r hr => (hR r hr).aggFree
  intro fuel
  induction fuel with
  | zero => intro rs rs' a h; simp [sccLoopT] at h
  | succ fuel ih =>
    intro rs rs' a h hinv hsim
    obtain ⟨a1, hpass, hsim1⟩ := pass_sim I hI cfg V hS p hl ix dynR hlt rules hR a rs.st hinv.wf hsim
    obtain ⟨hinv', _⟩ := iter_step_nd I cfg p inp p.rels.length dynR hlt hl rules hrules haf hdyn a a1 hinv hpass
    simp only [sccLoopT] at h
    split at h
    · cases h
    · split at h
      · cases h
        exact ⟨Engine.shift a1, hinv'.wf, hinv'.good, shift_sim hsim1⟩
      · exact ih _ rs' (Engine.shift a1) h
          (hinv'.weaken I cfg p inp p.rels.length dynR fun _ _ => trivial) (shift_sim hsim1)

end Loop

/-! ## one SCC, the SCCs in order -/

section Run
variable (I : Interp E B G P A) (hI : Plan.Ext I) (cfg : Config) (V : Hir.VarsOf E B) (hS : Plan.Supp I V)
  (p : Program E B G P A) (hp : Relational p) (ix : IxSets) (inp : RelId → List Tuple)
  (hR : ∀ r ∈ p.rules, RuleFit V p ix r)

include hI hS hp hR cfg in
theorem runSccT_timedOut (dl : Deadline) (fuel : Nat) (scc : List Nat) (ps ps' : ProgStT) (st : St)
    (hinv : PInv I p inp p.rels.length st) (hs : SimSt p ix st ps.st)
    (h : runSccT I V p dl fuel scc ps = .timedOut ps') : SoundSt I p inp ps'.st := by
  obtain ⟨_, hl, hh⟩ := hp
  have hrules := sccRules_sub p scc
  have hRs : ∀ r ∈ sccRules p scc, RuleFit V p ix r := fun r hr => hR r (hrules r hr)
  have hdyn : ∀ rule ∈ sccRules p scc, ∀ h ∈ rule.heads, (dynRels p scc).contains h.rel = true :=
    fun rule hr h hhd => (dynRels_mem p scc h.rel).mpr ⟨rule, hr, h, hhd, rfl⟩
  have hlt : ∀ r, (dynRels p scc).contains r = true → r < p.rels.length := by
    intro r hr
    obtain ⟨rule, hrule, h, hhd, rfl⟩ := (dynRels_mem p scc r).mp hr
    exact hh rule (hrules rule hrule) h hhd
  have hinv0 := LoopInv_enter I cfg p inp p.rels.length (dynRels p scc) hl hinv (sccRules p scc)
  have hsim0 : Sim p ix (Engine.enterScc st (dynRels p scc)) (Phys.enterScc ps.st (dynRels p scc)) :=
    enter_sim hs _ (fun r hr => by rw [hinv.len]; exact hlt r (List.contains_iff_mem.mpr hr))
  simp only [runSccT] at h
  split at h
  · split at h
    · cases h
    · rename_i rs hloop
      cases h
      obtain ⟨a', hwf', hgood', hsim'⟩ := sccLoopT_timedOut I hI cfg V hS p hl ix inp (dynRels p scc) hlt (sccRules p scc)
        hRs hrules hdyn dl fuel _ rs _ hloop hinv0 hsim0
      exact abandon_sound I p ix inp (dynRels p scc) scc hwf' hgood' hsim'
    · cases h
  · split at h
    · cases h
      obtain ⟨a1, hpass, hsim1⟩ := pass_sim I hI cfg V hS p hl ix (dynRels p scc) hlt (sccRules p scc) hRs _ _
        hinv0.wf hsim0
      obtain ⟨hinv', _⟩ := iter_step_nd I cfg p inp p.rels.length (dynRels p scc) hlt hl (sccRules p scc) hrules
        (fun r hr => (hRs r hr).aggFree) hdyn _ a1 hinv0 hpass
      exact abandon_sound I p ix inp (dynRels p scc) scc (a := Engine.shift (Engine.shift a1)) (WF_shift hinv'.wf)
        hinv'.good (shift_sim (shift_sim hsim1))
    · cases h

include hI hS hp hR cfg in
theorem runSccsT_timedOut (dl : Deadline) (fuel : Nat) : ∀ (order : SccOrder) (ps ps' : ProgStT) (st : St),
    PInv I p inp p.rels.length st → SimSt p ix st ps.st → runSccsT I V p dl fuel order ps = .timedOut ps' →
    SoundSt I p inp ps'.st := by
  intro order
  induction order with
  | nil =>
    intro ps ps' st _ _ h
    simp only [runSccsT] at h
    cases h
  | cons scc rest ih =>
    intro ps ps' st hinv hs h
    simp only [runSccsT] at h
    split at h
    · rename_i ps1 hscc
      have hscc' := runSccT_done I V p dl fuel scc ps ps1 hscc
      obtain ⟨st1, hnd, hs1⟩ := runScc_sim I hI cfg V hS p hp ix inp hR fuel scc ⟨ps.st, ps.iters⟩ ⟨ps1.st, ps1.iters⟩ st
        hinv hs hscc'
      have hinv1 := (sccND_spec I cfg p inp hp.2.1 hp.1 hp.2.2 scc st st1 hinv hnd).1
      exact ih ps1 ps' st1 hinv1 hs1 h
    · rename_i other hne
      cases hr : runSccT I V p dl fuel scc ps with
      | done x => exact absurd hr (hne x)
      | timedOut x =>
        rw [hr] at h
        cases h
        exact runSccT_timedOut I hI cfg V hS p hp ix inp hR dl fuel scc ps ps' st hinv hs hr
      | outOfFuel => rw [hr] at h; cases h

end Run

/-- **`run_timeout` returned `false`**: the value left is typed, holds only derivable rows, and keeps the start rows as a
prefix of every row vector -/
theorem runTimeout_timedOut (I : Interp E B G P A) (hI : Plan.Ext I) (V : Hir.VarsOf E B) (hS : Plan.Supp I V)
    (p : Program E B G P A) (ix : IxSets) (order : SccOrder) (dl : Deadline) (s : PSt) (fuel : Nat) (o : ProgStT)
    (hp : Relational p) (hplan : planOk V p ix = true)
    (hd : ∀ r ∈ p.rules, Hir.Desugared V r = true ∧ Plan.WellScoped V r = true)
    (hs : WFPSt p s) (hrun : runTimeout I V p ix order dl fuel s = .timedOut o) :
    SoundSt I p (fun r => (prel s r).rows) o.st := by
  have hR := ruleFit_of_planOk V p ix hp hplan hd
  have hwfs : WFSt' p (absSt s) := by
    refine ⟨by simpa [absSt] using hs.1, ?_⟩
    intro rs hrs i hi
    simp only [absSt, List.mem_map] at hrs
    obtain ⟨pr, _, rfl⟩ := hrs
    cases hi
  have hinv0 : PInv I p (fun r => (prel s r).rows) p.rels.length (Engine.updateIndices (absSt s)) :=
    PInv_start I p _ (absSt s) hwfs (fun r _ => relSt_absSt s r)
  exact runSccsT_timedOut I hI {} V hS p hp ix _ hR dl fuel order _ o _ hinv0 (updateIndices_sim p ix s hs) hrun

end AscentVerif.Phys
