import AscentVerif.Proofs.NDEngine
import AscentVerif.Proofs.AggStrata
/-!
# The nondeterministic engine with aggregation items: one pass, the loop, one SCC

`Proofs/AggPass.lean` / `Proofs/AggScc.lean` with the deterministic `evalRules` replaced by a pass of the nondeterministic
engine (`PassND`: the head updates of ANY list of rows with exactly the members of `iterRows`), exactly as
`Proofs/NDEngine.lean` mirrors `Proofs/Pass.lean` / `Proofs/Scc.lean`.  Everything about `headRel`, `shift`, `enterScc`,
`leaveScc` is re-used as is.
-/
namespace AscentVerif.Engine.Agg
open AscentVerif AscentVerif.Engine

variable {E B G P A : Type}

section NDPass
variable (I : Interp E B G P A) (cfg : Config) (p : Program E B G P A) (inp : RelId → List Tuple)
  (aggv : AggClause E A → List Tuple) (K : Prop)
  (n : Nat) (dynR : List RelId) (hlt : ∀ r, dynR.contains r = true → r < n)
  (hl : ∀ d ∈ p.rels, d.lat = false)

include hlt hl in
/-- folding `headRel` over ANY list of head rows of variant instances over the state `s₀` at pass start -/
theorem rows_step_nd {s₀ : SccSt} (hwf0 : WF n dynR s₀) (hgood0 : Good I p inp aggv n s₀)
    (rules : List (Rule E B G P A))
    (hrules : ∀ rule ∈ rules, rule ∈ p.rules) (hagg : ∀ rule ∈ rules, AggOK cfg p aggv dynR rule s₀)
    (hdyn : ∀ rule ∈ rules, ∀ h ∈ rule.heads, dynR.contains h.rel = true)
    (l : List (RelId × Tuple)) (hl' : ∀ x ∈ l, x ∈ iterRows I cfg p dynR rules s₀)
    (s : SccSt) (hpost : Post I p inp aggv K n dynR s₀ s) :
    Post I p inp aggv K n dynR s₀ (applyRows s l) ∧ Le s (applyRows s l) ∧
      ∀ x ∈ l, FactsS (applyRows s l) ⟨x.1, x.2⟩ := by
  refine foldl_track (fun s (x : RelId × Tuple) => headRel s x.1 x.2)
    (Post I p inp aggv K n dynR s₀) Le (fun x s => FactsS s ⟨x.1, x.2⟩) Le.refl (fun _ _ _ => Le.trans)
    (fun x s s' hd hle => hle _ _ hd) l ?_ s hpost
  intro s x hx hs
  obtain ⟨t, ht, h, hh, rfl⟩ := (mem_iterRows I cfg p dynR rules s₀ x).mp (hl' x hx)
  obtain ⟨hr, vs, _, hρ⟩ := (mem_iterTasks I cfg p dynR rules s₀ t).mp ht
  have hder : DerA I p.rules aggv (inDB p inp) (headFact I h t.2) := by
    have hsv := SatV.congr_agg (SatV_of_evalBody I cfg p s₀ t.1.body vs [] t.2 hρ)
      (fun a ha => (hagg t.1 hr a ha).2)
    have hsat : SatA I (DerA I p.rules aggv (inDB p inp)) aggv t.1.body [] t.2 := by
      refine SatV.toSatA ?_ hsv
      intro r v x hv
      have hmem := view_sub_rows cfg p hl hwf0 hv
      have hrn : r < n := by
        have := lt_of_mem_rows s₀.rels r x hmem
        rw [hwf0.len] at this; exact this
      exact (hgood0 r hrn).1 x hmem
    exact derA_cons ⟨t.1, hrules t.1 hr, t.2, hsat, h, hh, rfl⟩
  obtain ⟨h1, h2, h3⟩ := headRel_step I p inp aggv K n dynR hlt hs h.rel (h.args.map fun e => I.expr e t.2) hder
  exact ⟨h1, h2, h3 (hdyn t.1 hr h hh)⟩

include hlt hl in
/-- **one pass, any enumeration**: the invariants are kept and every variant instance over the
view at the start of the pass has all its head facts stored afterwards -/
theorem passND_spec {s₀ : SccSt} (hwf0 : WF n dynR s₀) (hgood0 : Good I p inp aggv n s₀) (hnd0 : K → ND s₀)
    (rules : List (Rule E B G P A))
    (hrules : ∀ rule ∈ rules, rule ∈ p.rules) (hagg : ∀ rule ∈ rules, AggOK cfg p aggv dynR rule s₀)
    (hdyn : ∀ rule ∈ rules, ∀ h ∈ rule.heads, dynR.contains h.rel = true)
    (l : List (RelId × Tuple)) (hmem : ∀ x, x ∈ l ↔ x ∈ iterRows I cfg p dynR rules s₀) :
    Post I p inp aggv K n dynR s₀ (applyRows s₀ l) ∧ Le s₀ (applyRows s₀ l) ∧
      ∀ rule ∈ rules, ∀ vs ∈ variants dynR rule, ∀ ρ, SatV I (viewOf cfg p s₀) aggv rule.body vs [] ρ →
        ∀ h ∈ rule.heads, FactsS (applyRows s₀ l) (headFact I h ρ) := by
  obtain ⟨h1, h2, h3⟩ := rows_step_nd I cfg p inp aggv K n dynR hlt hl hwf0 hgood0 rules hrules hagg hdyn
    l (fun x hx => (hmem x).mp hx) s₀ ⟨hwf0, Ext.refl _, hgood0, hnd0⟩
  refine ⟨h1, h2, ?_⟩
  intro rule hr vs hvs ρ hρ h hh
  have hρ' : SatV I (viewOf cfg p s₀) (aggTuples cfg p s₀) rule.body vs [] ρ :=
    SatV.congr_agg hρ (fun a ha => (hagg rule hr a ha).2.symm)
  have hx : (h.rel, h.args.map fun e => I.expr e ρ) ∈ l :=
    (hmem _).mpr ((mem_iterRows I cfg p dynR rules s₀ _).mpr
      ⟨(rule, ρ), (mem_iterTasks I cfg p dynR rules s₀ (rule, ρ)).mpr ⟨hr, vs, hvs, evalBody_of_SatV I cfg p s₀ hρ'⟩,
        h, hh, rfl⟩)
  exact h3 _ hx

include hlt hl in
/-- **one iteration** (a pass from the state with `changed = false`, then `shift`) -/
theorem iter_step_nd (rules : List (Rule E B G P A))
    (hrules : ∀ rule ∈ rules, rule ∈ p.rules)
    (hdyn : ∀ rule ∈ rules, ∀ h ∈ rule.heads, dynR.contains h.rel = true)
    (s s1 : SccSt) (hinv : LoopInv I cfg p inp aggv K n dynR rules (hasDyn dynR) s)
    (hpass : PassND I cfg p dynR rules s s1) :
    LoopInv I cfg p inp aggv K n dynR rules (fun _ => True) (shift s1) ∧ Ext { s with changed := false } s1 := by
  obtain ⟨l, hmem, rfl⟩ := hpass
  have hwf0 : WF n dynR { s with changed := false } := WF_reset n dynR hinv.wf
  have hagg0 : ∀ rule ∈ rules, AggOK cfg p aggv dynR rule { s with changed := false } :=
    fun rule hr a ha => hinv.aggOK rule hr a ha
  obtain ⟨hpost, hle, hproc⟩ := passND_spec I cfg p inp aggv K n dynR hlt hl hwf0 hinv.good
    (fun hk => ⟨(hinv.nd hk).dyn, (hinv.nd hk).nondyn⟩) rules hrules hagg0 hdyn l hmem
  refine ⟨⟨WF_shift hpost.wf, hpost.good, ?_, ?_, fun hk => ND_shift (hpost.nd hk), ?_⟩, hpost.ext⟩
  · intro r d' hd'
    rw [findDyn_shift] at hd'
    cases hd : findDyn (applyRows { s with changed := false } l).dyn r with
    | none => rw [hd] at hd'; cases hd'
    | some d => rw [hd] at hd'; cases hd'; rfl
  · intro rule hr _ ρ hsat h hh
    have hsat' : SatA I (Dall cfg p { s with changed := false }) aggv rule.body [] ρ :=
      SatA.mono (fun f hf => Dtot_shift_sub cfg p n dynR hl hwf0 hpost.ext f hf) hsat
    show FactsS (applyRows { s with changed := false } l) (headFact I h ρ)
    rcases seminaive_cover I (viewOf cfg p { s with changed := false }) aggv dynR
        (fun r hr v v' t hv => view_nd cfg p hl hwf0 hr v v' t hv)
        (fun r t hv => view_split cfg p hl hwf0 r t hv) rule hsat' with ⟨hn, htot⟩ | ⟨vs, hvs, hsv⟩
    · exact hle _ _ (hinv.front rule hr hn ρ htot h hh)
    · exact hproc rule hr vs hvs ρ hsv h hh
  · intro rule hr a ha
    exact (hagg0 rule hr).ext cfg p aggv n dynR hwf0 hpost.ext a ha

include hlt hl in
/-- the loop of a looping SCC, any enumeration in every pass -/
theorem loopND_spec (rules : List (Rule E B G P A))
    (hrules : ∀ rule ∈ rules, rule ∈ p.rules)
    (hdyn : ∀ rule ∈ rules, ∀ h ∈ rule.heads, dynR.contains h.rel = true)
    (st : St) (s s' : SccSt) (k : Nat) (hloop : LoopND I cfg p dynR rules s s' k) :
    LoopInv I cfg p inp aggv K n dynR rules (hasDyn dynR) s → Base dynR st s →
      LoopInv I cfg p inp aggv K n dynR rules (fun _ => True) s' ∧ Settled s' ∧ Base dynR st s' := by
  induction hloop with
  | @exit s s1 hpass hch =>
    intro hinv hb
    obtain ⟨hinv', hext⟩ := iter_step_nd I cfg p inp aggv K n dynR hlt hl rules hrules hdyn s s1 hinv hpass
    have hb' := Base_step n dynR hinv.wf hb hext
    refine ⟨hinv', ?_, hb'⟩
    have heq := hext.unchanged hch
    intro r d' hd'
    rw [findDyn_shift, heq] at hd'
    cases hd : findDyn s.dyn r with
    | none =>
      have : findDyn ({ s with changed := false } : SccSt).dyn r = none := hd
      rw [this] at hd'; cases hd'
    | some d =>
      have : findDyn ({ s with changed := false } : SccSt).dyn r = some d := hd
      rw [this] at hd'; cases hd'
      exact ⟨hinv.newE r d hd, rfl⟩
  | @more s s1 s' k hpass _ _ ih =>
    intro hinv hb
    obtain ⟨hinv', hext⟩ := iter_step_nd I cfg p inp aggv K n dynR hlt hl rules hrules hdyn s s1 hinv hpass
    have hb' := Base_step n dynR hinv.wf hb hext
    exact ih (hinv'.weaken I cfg p inp aggv K n dynR fun _ _ => trivial) hb'

end NDPass

/-! ## one SCC (mirrors `Agg.runScc_spec`) -/

section NDScc
variable (I : Interp E B G P A) (cfg : Config) (p : Program E B G P A) (inp : RelId → List Tuple)
  (aggv : AggClause E A → List Tuple) (K : Prop)
  (hl : ∀ d ∈ p.rels, d.lat = false)
  (hh : ∀ r ∈ p.rules, ∀ h ∈ r.heads, h.rel < p.rels.length)

include hl hh in
/-- what processing one SCC establishes (any enumeration in every pass), provided its aggregation items range over
non-dynamic relations and read `aggv` from the program value at SCC entry -/
theorem sccND_spec (scc : List Nat) (st st' : St)
    (hp : PInv I p inp aggv K p.rels.length st)
    (hagg : ∀ rule ∈ sccRules p scc, ∀ a, Item.agg a ∈ rule.body →
      (dynRels p scc).contains a.rel = false ∧ aggOf cfg p st a = aggv a)
    (h : SccND I cfg p scc st st') :
    PInv I p inp aggv K p.rels.length st' ∧
      (∀ r, (dynRels p scc).contains r = false → relSt st' r = relSt st r) ∧
      (∀ r t, t ∈ (relSt st r).rows → t ∈ (relSt st' r).rows) ∧
      ClosedRules I aggv (sccRules p scc) (factsOf st') := by
  have hrules := sccRules_sub p scc
  have hdyn : ∀ rule ∈ sccRules p scc, ∀ h ∈ rule.heads, (dynRels p scc).contains h.rel = true :=
    fun rule hr h hhd => (dynRels_mem p scc h.rel).mpr ⟨rule, hr, h, hhd, rfl⟩
  have hlt : ∀ r, (dynRels p scc).contains r = true → r < p.rels.length := by
    intro r hr
    obtain ⟨rule, hrule, h, hhd, rfl⟩ := (dynRels_mem p scc r).mp hr
    exact hh rule (hrules rule hrule) h hhd
  have hagg0 : ∀ rule ∈ sccRules p scc, AggOK cfg p aggv (dynRels p scc) rule (enterScc st (dynRels p scc)) := by
    intro rule hr a ha
    obtain ⟨h1, h2⟩ := hagg rule hr a ha
    refine ⟨h1, ?_⟩
    rw [aggTuples_eq_aggOf, enterScc_rels]; exact h2
  have hinv0 := LoopInv_enter I cfg p inp aggv K p.rels.length (dynRels p scc) hl hp (sccRules p scc) hagg0
  have hb0 := Base_enter (dynRels p scc) st
  unfold SccND at h
  split at h
  · -- looping
    obtain ⟨s', k, hloop, rfl⟩ := h
    obtain ⟨hinv, hset, hb⟩ := loopND_spec I cfg p inp aggv K p.rels.length (dynRels p scc) hlt hl (sccRules p scc)
      hrules hdyn st _ s' k hloop hinv0 hb0
    apply leave_full I p inp aggv K p.rels.length (dynRels p scc) hlt (sccRules p scc) hinv.wf hinv.good hset
      hinv.nd hb
    intro rule hr ρ hsat hd hhd
    refine hinv.front rule hr trivial ρ (SatA.mono ?_ hsat) hd hhd
    exact fun f hf => facts_sub_Dtot cfg p p.rels.length (dynRels p scc) hl hinv.wf hset f hf
  · -- not looping
    rename_i hnl
    have hnl' : isLooping p scc = false := by simpa using hnl
    obtain ⟨s1, hpass, rfl⟩ := h
    obtain ⟨hinv, hext⟩ := iter_step_nd I cfg p inp aggv K p.rels.length (dynRels p scc) hlt hl (sccRules p scc)
      hrules hdyn _ s1 hinv0 hpass
    have hb := Base_step p.rels.length (dynRels p scc) hinv0.wf hb0 hext
    have hwf2 := WF_shift hinv.wf
    have hset : Settled (shift (shift s1)) := by
      intro r d'' hd''
      rw [findDyn_shift] at hd''
      cases hd : findDyn (shift s1).dyn r with
      | none => rw [hd] at hd''; cases hd''
      | some d' =>
        rw [hd] at hd''; cases hd''
        exact ⟨hinv.newE r d' hd, rfl⟩
    have hb2 : Base (dynRels p scc) st (shift (shift s1)) := hb
    apply leave_full I p inp aggv K p.rels.length (dynRels p scc) hlt (sccRules p scc) hwf2 hinv.good hset
      (fun hk => ND_shift (hinv.nd hk)) hb2
    intro rule hr ρ hsat hd hhd
    refine hinv.front rule hr trivial ρ (SatA.congr_rels hsat ?_) hd hhd
    intro r hr' t ht
    exact facts_sub_Dtot_nd cfg p p.rels.length (dynRels p scc) hl hinv.wf r (notLooping p scc hnl' rule hr r hr') t ht

end NDScc

end AscentVerif.Engine.Agg
