import AscentVerif.Spec.TrClosure
import AscentVerif.Model.StdInterp
/-!
# C12 (a): in the explicit-closure twin, the tagged relation is exactly the closure of what the other rules insert

`others` are the rules of the program (they may read and write `t` freely); the twin program is
`others ++ closureRules t`.  Both directions, binary and ternary-per-key form.
-/
namespace AscentVerif.C12
open AscentVerif

variable {E B G P A : Type}

/-! ## generic helpers -/

theorem cons_append (I : Interp E B G P A) (l1 l2 : List (Rule E B G P A)) (agg : RelId → List Tuple) (D : DB) (f : Fact) :
    Cons I (l1 ++ l2) agg D f ↔ Cons I l1 agg D f ∨ Cons I l2 agg D f := by
  unfold Cons
  constructor
  · rintro ⟨r, hr, h⟩
    rcases List.mem_append.1 hr with h1 | h2
    · exact Or.inl ⟨r, h1, h⟩
    · exact Or.inr ⟨r, h2, h⟩
  · rintro (⟨r, hr, h⟩ | ⟨r, hr, h⟩)
    · exact ⟨r, List.mem_append_left _ hr, h⟩
    · exact ⟨r, List.mem_append_right _ hr, h⟩

theorem cons_mono {I : Interp E B G P A} {rules : List (Rule E B G P A)} {agg : RelId → List Tuple} {D D' : DB}
    (h : ∀ f, D f → D' f) {f : Fact} : Cons I rules agg D f → Cons I rules agg D' f
  | ⟨r, hr, ρ, hs, hh⟩ => ⟨r, hr, ρ, Sat.mono h hs, hh⟩

theorem reflTrans_ends {α : Type} {R : α → α → Prop} {x y : α} (h : ReflTrans R x y) :
    ReflTrans R x x ∧ ReflTrans R y y := by
  induction h with
  | base h => exact ⟨.reflL h, .reflR h⟩
  | reflL h => exact ⟨.reflL h, .reflL h⟩
  | reflR h => exact ⟨.reflR h, .reflR h⟩
  | trans _ _ ih1 ih2 => exact ⟨ih1.1, ih2.2⟩

theorem matchArgs_nil {I : Interp E B G P A} {ρ₀ : Env} {tup : Tuple} {ρ ρ₁ : Env}
    (h : matchArgs I ρ₀ [] tup ρ = some ρ₁) : tup = [] ∧ ρ₁ = ρ := by
  cases tup with
  | nil => simp [matchArgs] at h; exact ⟨rfl, h.symm⟩
  | cons a l => simp [matchArgs] at h

theorem matchArgs_var_fresh {I : Interp E B G P A} {ρ₀ : Env} {v : Var} {as : List (Arg E)} {tup : Tuple} {ρ ρ₁ : Env}
    (hfresh : ρ.get? v = none) (h : matchArgs I ρ₀ (.var v :: as) tup ρ = some ρ₁) :
    ∃ x xs, tup = x :: xs ∧ matchArgs I ρ₀ as xs ((v, x) :: ρ) = some ρ₁ := by
  cases tup with
  | nil => simp [matchArgs] at h
  | cons a l =>
    simp [matchArgs, hfresh] at h
    exact ⟨a, l, rfl, h⟩

theorem matchArgs_var_bound {I : Interp E B G P A} {ρ₀ : Env} {v : Var} {as : List (Arg E)} {tup : Tuple} {ρ ρ₁ : Env}
    {y : Val} (hb : ρ.get? v = some y) (h : matchArgs I ρ₀ (.var v :: as) tup ρ = some ρ₁) :
    ∃ xs, tup = y :: xs ∧ matchArgs I ρ₀ as xs ρ = some ρ₁ := by
  cases tup with
  | nil => simp [matchArgs] at h
  | cons a l =>
    simp [matchArgs, hb] at h
    exact ⟨l, by rw [h.1], h.2⟩

/-- the abstract argument: if the one-step consequences of `C` are exactly "reflexive on mentioned" + "transitive"
on the facts `mk k · ·`, then `mk k x y` is in the least model of `others ++ C` iff `(x, y)` is in the closure of what
the input and `others` insert -/
theorem closure_generic {K : Type} (I : Interp E B G P A) (others C : List (Rule E B G P A))
    (agg : RelId → List Tuple) (inp : DB) (mk : K → Val → Val → Fact)
    (hinj : ∀ k x y k' x' y', mk k x y = mk k' x' y' → k = k' ∧ x = x' ∧ y = y')
    (hC : ∀ (D : DB) (f : Fact), Cons I C agg D f ↔
        ((∃ k x y, D (mk k x y) ∧ (f = mk k x x ∨ f = mk k y y)) ∨
         (∃ k x y z, D (mk k x y) ∧ D (mk k y z) ∧ f = mk k x z)))
    (k : K) (x y : Val) :
    Derivable I (others ++ C) agg inp (mk k x y) ↔
      ReflTrans (fun a b => inp (mk k a b) ∨
        Cons I others agg (Derivable I (others ++ C) agg inp) (mk k a b)) x y := by
  constructor
  · intro h
    have hcl : Closed I (others ++ C) agg inp (fun f => Derivable I (others ++ C) agg inp f ∧
        ∀ k a b, f = mk k a b → ReflTrans (fun a b => inp (mk k a b) ∨
          Cons I others agg (Derivable I (others ++ C) agg inp) (mk k a b)) a b) := by
      refine ⟨?_, ?_⟩
      · intro f hf
        refine ⟨derivable_input hf, ?_⟩
        intro k a b hfe
        exact .base (Or.inl (hfe ▸ hf))
      · intro f hf
        have hder : Derivable I (others ++ C) agg inp f := derivable_cons (cons_mono (fun g hg => hg.1) hf)
        refine ⟨hder, ?_⟩
        rcases (cons_append I others C agg _ f).1 hf with ho | hc
        · intro k a b hfe
          exact .base (Or.inr (hfe ▸ cons_mono (fun g hg => hg.1) ho))
        · intro k a b hfe
          rcases (hC _ f).1 hc with ⟨k', u, v, hD, hf' | hf'⟩ | ⟨k', u, v, w, hD1, hD2, hf'⟩
          · obtain ⟨rfl, rfl, rfl⟩ := hinj _ _ _ _ _ _ (hfe.symm.trans hf')
            exact (reflTrans_ends (hD.2 _ _ _ rfl)).1
          · obtain ⟨rfl, rfl, rfl⟩ := hinj _ _ _ _ _ _ (hfe.symm.trans hf')
            exact (reflTrans_ends (hD.2 _ _ _ rfl)).2
          · obtain ⟨rfl, rfl, rfl⟩ := hinj _ _ _ _ _ _ (hfe.symm.trans hf')
            exact .trans (hD1.2 _ _ _ rfl) (hD2.2 _ _ _ rfl)
    exact (derivable_least I _ agg inp _ hcl _ h).2 k x y rfl
  · intro h
    have hbase : ∀ a b, (inp (mk k a b) ∨ Cons I others agg (Derivable I (others ++ C) agg inp) (mk k a b)) →
        Derivable I (others ++ C) agg inp (mk k a b) := by
      intro a b hab
      rcases hab with hi | hc
      · exact derivable_input hi
      · exact derivable_cons ((cons_append I others C agg _ _).2 (Or.inl hc))
    have hclo : ∀ f, Cons I C agg (Derivable I (others ++ C) agg inp) f → Derivable I (others ++ C) agg inp f :=
      fun f hf => derivable_cons ((cons_append I others C agg _ _).2 (Or.inr hf))
    induction h with
    | base hab => exact hbase _ _ hab
    | reflL hab => exact hclo _ ((hC _ _).2 (Or.inl ⟨k, _, _, hbase _ _ hab, Or.inl rfl⟩))
    | reflR hab => exact hclo _ ((hC _ _).2 (Or.inl ⟨k, _, _, hbase _ _ hab, Or.inr rfl⟩))
    | trans _ _ ih1 ih2 => exact hclo _ ((hC _ _).2 (Or.inr ⟨k, _, _, _, ih1, ih2, rfl⟩))

/-! ## one-step consequences of the closure rules -/

theorem cons_closure2 (I : Interp E B G P A) (varE : Var → E) (hv : VarExpr I varE) (agg : RelId → List Tuple)
    (t : RelId) (D : DB) (f : Fact) :
    Cons I (closureRules2 varE t) agg D f ↔
      ((∃ (_ : Unit) (x y : Val), D ⟨t, [x, y]⟩ ∧ (f = ⟨t, [x, x]⟩ ∨ f = ⟨t, [y, y]⟩)) ∨
       (∃ (_ : Unit) (x y z : Val), D ⟨t, [x, y]⟩ ∧ D ⟨t, [y, z]⟩ ∧ f = ⟨t, [x, z]⟩)) := by
  constructor
  · rintro ⟨r, hr, ρ, hs, h, hh, rfl⟩
    simp only [closureRules2, List.mem_cons, List.not_mem_nil, or_false] at hr
    rcases hr with rfl | rfl
    · cases hs with
      | clause tup hD hm hc hrest =>
        cases hrest
        simp only [satConds, Option.some.injEq] at hc
        subst hc
        obtain ⟨x, xs, rfl, hm_1⟩ := matchArgs_var_fresh (by simp [Env.get?]) hm
        obtain ⟨y, ys, rfl, hm_2⟩ := matchArgs_var_fresh (by simp [Env.get?]) hm_1
        obtain ⟨rfl, rfl⟩ := matchArgs_nil hm_2
        left
        refine ⟨(), x, y, hD, ?_⟩
        simp only [List.mem_cons, List.not_mem_nil, or_false] at hh
        rcases hh with rfl | rfl
        · left; simp [headFact, hv _ _, Env.get?]
        · right; simp [headFact, hv _ _, Env.get?]
    · cases hs with
      | clause tup hD hm hc hrest =>
        simp only [satConds, Option.some.injEq] at hc
        subst hc
        obtain ⟨x, xs, rfl, hm_1⟩ := matchArgs_var_fresh (by simp [Env.get?]) hm
        obtain ⟨y, ys, rfl, hm_2⟩ := matchArgs_var_fresh (by simp [Env.get?]) hm_1
        obtain ⟨rfl, rfl⟩ := matchArgs_nil hm_2
        cases hrest with
        | clause tup2 hD2 hm2 hc2 hrest2 =>
          cases hrest2
          simp only [satConds, Option.some.injEq] at hc2
          subst hc2
          obtain ⟨ys, rfl, hm2_1⟩ := matchArgs_var_bound (y := y) (by simp [Env.get?]) hm2
          obtain ⟨z, zs, rfl, hm2_2⟩ := matchArgs_var_fresh (by simp [Env.get?]) hm2_1
          obtain ⟨rfl, rfl⟩ := matchArgs_nil hm2_2
          right
          refine ⟨(), x, y, z, hD, hD2, ?_⟩
          simp only [List.mem_cons, List.not_mem_nil, or_false] at hh
          subst hh
          simp [headFact, hv _ _, Env.get?]
  · rintro (⟨_, x, y, hD, hf⟩ | ⟨_, x, y, z, hD1, hD2, rfl⟩)
    · refine ⟨_, List.mem_cons_self, [(1, y), (0, x)], ?_, ?_⟩
      · exact .clause [x, y] hD (ρ₁ := [(1, y), (0, x)]) (ρ₂ := [(1, y), (0, x)]) (by simp [matchArgs, Env.get?]) (by rfl) (.nil _)
      · rcases hf with rfl | rfl
        · exact ⟨_, List.mem_cons_self, by simp [headFact, hv _ _, Env.get?]⟩
        · exact ⟨_, List.mem_cons_of_mem _ List.mem_cons_self, by simp [headFact, hv _ _, Env.get?]⟩
    · refine ⟨_, List.mem_cons_of_mem _ List.mem_cons_self, [(2, z), (1, y), (0, x)], ?_, ?_⟩
      · exact .clause [x, y] hD1 (ρ₁ := [(1, y), (0, x)]) (ρ₂ := [(1, y), (0, x)]) (by simp [matchArgs, Env.get?]) (by rfl)
          (.clause [y, z] hD2 (ρ₁ := [(2, z), (1, y), (0, x)]) (ρ₂ := [(2, z), (1, y), (0, x)])
            (by simp [matchArgs, Env.get?]) (by rfl) (.nil _))
      · exact ⟨_, List.mem_cons_self, by simp [headFact, hv _ _, Env.get?]⟩

theorem cons_closure2_rel (I : Interp E B G P A) (varE : Var → E) (agg : RelId → List Tuple)
    (t : RelId) (D : DB) (f : Fact) (h : Cons I (closureRules2 varE t) agg D f) : f.rel = t := by
  obtain ⟨r, hr, ρ, hs, h, hh, rfl⟩ := h
  simp only [closureRules2, List.mem_cons, List.not_mem_nil, or_false] at hr
  rcases hr with rfl | rfl
  · simp only [List.mem_cons, List.not_mem_nil, or_false] at hh
    rcases hh with rfl | rfl <;> rfl
  · simp only [List.mem_cons, List.not_mem_nil, or_false] at hh
    subst hh; rfl

theorem cons_closure3 (I : Interp E B G P A) (varE : Var → E) (hv : VarExpr I varE) (agg : RelId → List Tuple)
    (t : RelId) (D : DB) (f : Fact) :
    Cons I (closureRules3 varE t) agg D f ↔
      ((∃ (k x y : Val), D ⟨t, [k, x, y]⟩ ∧ (f = ⟨t, [k, x, x]⟩ ∨ f = ⟨t, [k, y, y]⟩)) ∨
       (∃ (k x y z : Val), D ⟨t, [k, x, y]⟩ ∧ D ⟨t, [k, y, z]⟩ ∧ f = ⟨t, [k, x, z]⟩)) := by
  constructor
  · rintro ⟨r, hr, ρ, hs, h, hh, rfl⟩
    simp only [closureRules3, List.mem_cons, List.not_mem_nil, or_false] at hr
    rcases hr with rfl | rfl
    · cases hs with
      | clause tup hD hm hc hrest =>
        cases hrest
        simp only [satConds, Option.some.injEq] at hc
        subst hc
        obtain ⟨k, ks, rfl, hm_1⟩ := matchArgs_var_fresh (by simp [Env.get?]) hm
        obtain ⟨x, xs, rfl, hm_2⟩ := matchArgs_var_fresh (by simp [Env.get?]) hm_1
        obtain ⟨y, ys, rfl, hm_3⟩ := matchArgs_var_fresh (by simp [Env.get?]) hm_2
        obtain ⟨rfl, rfl⟩ := matchArgs_nil hm_3
        left
        refine ⟨k, x, y, hD, ?_⟩
        simp only [List.mem_cons, List.not_mem_nil, or_false] at hh
        rcases hh with rfl | rfl
        · left; simp [headFact, hv _ _, Env.get?]
        · right; simp [headFact, hv _ _, Env.get?]
    · cases hs with
      | clause tup hD hm hc hrest =>
        simp only [satConds, Option.some.injEq] at hc
        subst hc
        obtain ⟨k, ks, rfl, hm_1⟩ := matchArgs_var_fresh (by simp [Env.get?]) hm
        obtain ⟨x, xs, rfl, hm_2⟩ := matchArgs_var_fresh (by simp [Env.get?]) hm_1
        obtain ⟨y, ys, rfl, hm_3⟩ := matchArgs_var_fresh (by simp [Env.get?]) hm_2
        obtain ⟨rfl, rfl⟩ := matchArgs_nil hm_3
        cases hrest with
        | clause tup2 hD2 hm2 hc2 hrest2 =>
          cases hrest2
          simp only [satConds, Option.some.injEq] at hc2
          subst hc2
          obtain ⟨ks, rfl, hm2_1⟩ := matchArgs_var_bound (y := k) (by simp [Env.get?]) hm2
          obtain ⟨ys, rfl, hm2_2⟩ := matchArgs_var_bound (y := y) (by simp [Env.get?]) hm2_1
          obtain ⟨z, zs, rfl, hm2_3⟩ := matchArgs_var_fresh (by simp [Env.get?]) hm2_2
          obtain ⟨rfl, rfl⟩ := matchArgs_nil hm2_3
          right
          refine ⟨k, x, y, z, hD, hD2, ?_⟩
          simp only [List.mem_cons, List.not_mem_nil, or_false] at hh
          subst hh
          simp [headFact, hv _ _, Env.get?]
  · rintro (⟨k, x, y, hD, hf⟩ | ⟨k, x, y, z, hD1, hD2, rfl⟩)
    · refine ⟨_, List.mem_cons_self, [(1, y), (0, x), (9, k)], ?_, ?_⟩
      · exact .clause [k, x, y] hD (ρ₁ := [(1, y), (0, x), (9, k)]) (ρ₂ := [(1, y), (0, x), (9, k)])
          (by simp [matchArgs, Env.get?]) (by rfl) (.nil _)
      · rcases hf with rfl | rfl
        · exact ⟨_, List.mem_cons_self, by simp [headFact, hv _ _, Env.get?]⟩
        · exact ⟨_, List.mem_cons_of_mem _ List.mem_cons_self, by simp [headFact, hv _ _, Env.get?]⟩
    · refine ⟨_, List.mem_cons_of_mem _ List.mem_cons_self, [(2, z), (1, y), (0, x), (9, k)], ?_, ?_⟩
      · exact .clause [k, x, y] hD1 (ρ₁ := [(1, y), (0, x), (9, k)]) (ρ₂ := [(1, y), (0, x), (9, k)])
          (by simp [matchArgs, Env.get?]) (by rfl)
          (.clause [k, y, z] hD2 (ρ₁ := [(2, z), (1, y), (0, x), (9, k)]) (ρ₂ := [(2, z), (1, y), (0, x), (9, k)])
            (by simp [matchArgs, Env.get?]) (by rfl) (.nil _))
      · exact ⟨_, List.mem_cons_self, by simp [headFact, hv _ _, Env.get?]⟩

/-! ## the main statements -/

/-- binary form: `t(x, y)` is in the least model of the twin iff `(x, y)` is in the reflexive (on mentioned elements)
transitive closure of the pairs inserted into `t` by the input and by the other rules -/
theorem twin2_iff (I : Interp E B G P A) (varE : Var → E) (hv : VarExpr I varE) (others : List (Rule E B G P A))
    (agg : RelId → List Tuple) (inp : DB) (t : RelId) (x y : Val) :
    Derivable I (others ++ closureRules2 varE t) agg inp ⟨t, [x, y]⟩ ↔
      ReflTrans (fun a b => Inserted I others (others ++ closureRules2 varE t) agg inp t [a, b]) x y := by
  exact closure_generic I others (closureRules2 varE t) agg inp (fun (_ : Unit) a b => ⟨t, [a, b]⟩)
    (by intro k x y k' x' y' h; simp at h; exact ⟨rfl, h.1, h.2⟩)
    (cons_closure2 I varE hv agg t) () x y

/-- ternary form `t(K, T, T)`: per key `k`, the closure of the pairs inserted under that key -/
theorem twin3_iff (I : Interp E B G P A) (varE : Var → E) (hv : VarExpr I varE) (others : List (Rule E B G P A))
    (agg : RelId → List Tuple) (inp : DB) (t : RelId) (k x y : Val) :
    Derivable I (others ++ closureRules3 varE t) agg inp ⟨t, [k, x, y]⟩ ↔
      ReflTrans (fun a b => Inserted I others (others ++ closureRules3 varE t) agg inp t [k, a, b]) x y := by
  exact closure_generic I others (closureRules3 varE t) agg inp (fun (k : Val) a b => ⟨t, [k, a, b]⟩)
    (by intro k x y k' x' y' h; simp at h; exact h)
    (cons_closure3 I varE hv agg t) k x y

/-- every relation other than `t` is derived by the other rules only (the closure rules have no other head) -/
theorem twin2_other_rel (I : Interp E B G P A) (varE : Var → E) (others : List (Rule E B G P A))
    (agg : RelId → List Tuple) (inp : DB) (t : RelId) (f : Fact) (hf : f.rel ≠ t) :
    Derivable I (others ++ closureRules2 varE t) agg inp f ↔
      (inp f ∨ Cons I others agg (Derivable I (others ++ closureRules2 varE t) agg inp) f) := by
  constructor
  · intro h
    have hcl : Closed I (others ++ closureRules2 varE t) agg inp (fun g =>
        Derivable I (others ++ closureRules2 varE t) agg inp g ∧
        (g.rel ≠ t → (inp g ∨ Cons I others agg (Derivable I (others ++ closureRules2 varE t) agg inp) g))) := by
      refine ⟨fun g hg => ⟨derivable_input hg, fun _ => Or.inl hg⟩, ?_⟩
      intro g hg
      refine ⟨derivable_cons (cons_mono (fun g hg => hg.1) hg), ?_⟩
      intro hne
      rcases (cons_append I others _ agg _ g).1 hg with ho | hc
      · exact Or.inr (cons_mono (fun g hg => hg.1) ho)
      · exact absurd (cons_closure2_rel I varE agg t _ g hc) hne
    exact (derivable_least I _ agg inp _ hcl _ h).2 hf
  · rintro (h | h)
    · exact derivable_input h
    · exact derivable_cons ((cons_append I others _ agg _ _).2 (Or.inl h))

/-! ## non-vacuity: a concrete twin over the standard interpretation

`t(x, y) <-- e(x, y)` with `e = {(1,2), (2,3)}` (relation 0 = t, relation 1 = e): the twin derives t(1,3) and t(3,3)
but not t(3,1) and not t(4,4). -/

def exOthers : List (Rule Std.Ex Std.Bx Std.Gx Std.Px Std.Ax) :=
  [ { heads := [⟨0, [.var 0, .var 1]⟩], body := [.clause 1 [.var 0, .var 1] []] } ]

def exInp : DB := fun f => f = ⟨1, [.int 1, .int 2]⟩ ∨ f = ⟨1, [.int 2, .int 3]⟩

-- `Std.interp` : the standard interpretation (see Model/StdInterp.lean for its exact name and arguments)
-- state and prove, with I := that interpretation, varE := Std.Ex.var, others := exOthers, inp := exInp, t := 0, agg := fun _ => []:
--   example_derives_1_3 : Derivable … ⟨0, [.int 1, .int 3]⟩
--   example_derives_3_3 : Derivable … ⟨0, [.int 3, .int 3]⟩
--   example_not_3_1     : ¬ Derivable … ⟨0, [.int 3, .int 1]⟩
--   example_not_4_4     : ¬ Derivable … ⟨0, [.int 4, .int 4]⟩
--   and `VarExpr` for the standard interpretation with `Std.Ex.var`.

/-- `Std.Ex.var` denotes variables under the standard interpretation, whatever the lattice kinds -/
theorem varExpr_std (kinds : RelId → Std.LatKind) : VarExpr (Std.interp kinds) Std.Ex.var := by
  intro v ρ
  rfl

/-- the standard interpretation used by the examples -/
abbrev exI : Interp Std.Ex Std.Bx Std.Gx Std.Px Std.Ax := Std.interp (fun _ => .maxInt)

/-- the twin program of the example -/
abbrev exAll : List (Rule Std.Ex Std.Bx Std.Gx Std.Px Std.Ax) := exOthers ++ closureRules2 Std.Ex.var 0

abbrev exDer : DB := Derivable exI exAll (fun _ => []) exInp

/-- what the non-closure part inserts into `t` in the example: exactly the pairs of `e` -/
theorem ex_inserted_iff (a b : Val) :
    Inserted exI exOthers exAll (fun _ => []) exInp 0 [a, b] ↔ exInp ⟨1, [a, b]⟩ := by
  constructor
  · rintro (h | ⟨r, hr, ρ, hs, h, hh, hf⟩)
    · simp [exInp] at h
    · simp only [exOthers, List.mem_cons, List.not_mem_nil, or_false] at hr
      subst hr
      cases hs with
      | clause tup hD hm hc hrest =>
        cases hrest
        simp only [satConds, Option.some.injEq] at hc
        subst hc
        obtain ⟨x, xs, rfl, hm1⟩ := matchArgs_var_fresh (by simp [Env.get?]) hm
        obtain ⟨y, ys, rfl, hm2⟩ := matchArgs_var_fresh (by simp [Env.get?]) hm1
        obtain ⟨rfl, rfl⟩ := matchArgs_nil hm2
        simp only [List.mem_cons, List.not_mem_nil, or_false] at hh
        subst hh
        simp [headFact, Std.interp, Std.evalEx, Env.get?] at hf
        obtain ⟨rfl, rfl⟩ := hf
        rcases (twin2_other_rel exI Std.Ex.var exOthers (fun _ => []) exInp 0 ⟨1, [a, b]⟩ (by simp)).1 hD with
          hi | ⟨r, hr, ρ, _, h, hh, hf⟩
        · exact hi
        · simp only [exOthers, List.mem_cons, List.not_mem_nil, or_false] at hr
          subst hr
          simp only [List.mem_cons, List.not_mem_nil, or_false] at hh
          subst hh
          simp [headFact] at hf
  · intro h
    refine Or.inr ⟨_, List.mem_cons_self, [(1, b), (0, a)], ?_, _, List.mem_cons_self, ?_⟩
    · exact .clause [a, b] (derivable_input h) (ρ₁ := [(1, b), (0, a)]) (ρ₂ := [(1, b), (0, a)])
        (by simp [matchArgs, Env.get?]) (by rfl) (.nil _)
    · simp [headFact, Std.interp, Std.evalEx, Env.get?]

theorem ex_derivable_iff (x y : Val) :
    exDer ⟨0, [x, y]⟩ ↔ ReflTrans (fun a b => exInp ⟨1, [a, b]⟩) x y := by
  have h := twin2_iff exI Std.Ex.var (varExpr_std _) exOthers (fun _ => []) exInp 0 x y
  have e : (fun a b => Inserted exI exOthers exAll (fun _ => []) exInp 0 [a, b]) = (fun a b => exInp ⟨1, [a, b]⟩) := by
    funext a b
    exact propext (ex_inserted_iff a b)
  rw [e] at h
  exact h

/-- an invariant of the closure of `e = {(1,2), (2,3)}`: both ends are integers in `1..3`, in order -/
theorem ex_reflTrans_inv {x y : Val} (h : ReflTrans (fun a b => exInp ⟨1, [a, b]⟩) x y) :
    ∃ m n : Int, x = .int m ∧ y = .int n ∧ 1 ≤ m ∧ m ≤ n ∧ n ≤ 3 := by
  have hb : ∀ a b : Val, exInp ⟨1, [a, b]⟩ → (a = .int 1 ∧ b = .int 2) ∨ (a = .int 2 ∧ b = .int 3) := by
    intro a b hab
    simp [exInp] at hab
    exact hab
  induction h with
  | base hab =>
    rcases hb _ _ hab with ⟨rfl, rfl⟩ | ⟨rfl, rfl⟩
    · exact ⟨1, 2, rfl, rfl, by omega, by omega, by omega⟩
    · exact ⟨2, 3, rfl, rfl, by omega, by omega, by omega⟩
  | reflL hab =>
    rcases hb _ _ hab with ⟨rfl, rfl⟩ | ⟨rfl, rfl⟩
    · exact ⟨1, 1, rfl, rfl, by omega, by omega, by omega⟩
    · exact ⟨2, 2, rfl, rfl, by omega, by omega, by omega⟩
  | reflR hab =>
    rcases hb _ _ hab with ⟨rfl, rfl⟩ | ⟨rfl, rfl⟩
    · exact ⟨2, 2, rfl, rfl, by omega, by omega, by omega⟩
    · exact ⟨3, 3, rfl, rfl, by omega, by omega, by omega⟩
  | trans _ _ ih1 ih2 =>
    obtain ⟨m, n, rfl, rfl, h1, h2, h3⟩ := ih1
    obtain ⟨m', n', he, rfl, h1', h2', h3'⟩ := ih2
    injection he with he
    subst he
    exact ⟨m, n', rfl, rfl, h1, by omega, h3'⟩

theorem example_derives_1_3 :
    Derivable (Std.interp (fun _ => .maxInt)) (exOthers ++ closureRules2 Std.Ex.var 0) (fun _ => []) exInp
      ⟨0, [.int 1, .int 3]⟩ :=
  (ex_derivable_iff _ _).2 (.trans (.base (Or.inl rfl)) (.base (Or.inr rfl)))

theorem example_derives_3_3 :
    Derivable (Std.interp (fun _ => .maxInt)) (exOthers ++ closureRules2 Std.Ex.var 0) (fun _ => []) exInp
      ⟨0, [.int 3, .int 3]⟩ :=
  (ex_derivable_iff _ _).2 (.reflR (x := .int 2) (Or.inr rfl))

theorem example_not_3_1 :
    ¬ Derivable (Std.interp (fun _ => .maxInt)) (exOthers ++ closureRules2 Std.Ex.var 0) (fun _ => []) exInp
      ⟨0, [.int 3, .int 1]⟩ := by
  intro h
  obtain ⟨m, n, hm, hn, h1, h2, h3⟩ := ex_reflTrans_inv ((ex_derivable_iff _ _).1 h)
  injection hm with hm
  injection hn with hn
  omega

theorem example_not_4_4 :
    ¬ Derivable (Std.interp (fun _ => .maxInt)) (exOthers ++ closureRules2 Std.Ex.var 0) (fun _ => []) exInp
      ⟨0, [.int 4, .int 4]⟩ := by
  intro h
  obtain ⟨m, n, hm, hn, h1, h2, h3⟩ := ex_reflTrans_inv ((ex_derivable_iff _ _).1 h)
  injection hm with hm
  injection hn with hn
  omega

#print axioms twin2_iff
#print axioms twin3_iff
#print axioms twin2_other_rel
#print axioms varExpr_std
#print axioms example_derives_1_3
#print axioms example_derives_3_3
#print axioms example_not_3_1
#print axioms example_not_4_4

end AscentVerif.C12
