import AscentVerif.Proofs.LatScc
import AscentVerif.Proofs.Strata
/-!
# Strata: `runSccs` over a valid SCC order for programs with lattice relations (C03)
-/
namespace AscentVerif.Engine
open AscentVerif

variable {E B G P A : Type}

section Strata
variable {I : Interp E B G P A} {L : LatOrder I} {p : Program E B G P A} {inp : RelId → List Tuple}

theorem runSccs_spec' (haf : ∀ r ∈ p.rules, r.aggFree = true)
    (hh : ∀ r ∈ p.rules, ∀ h ∈ r.heads, h.rel < p.rels.length)
    (o : SccOrder) (ho : validOrder p o = true) (dl : Deadline) (fuel : Nat) :
    ∀ (rest done : SccOrder) (ps ps' : ProgSt),
    done ++ rest = o → LPInv I L p inp ps.st →
    (∀ scc ∈ done, LClosedRules I L p (sccRules p scc) (factsOf ps.st)) →
    DBLe I L p (inDB p inp) (factsOf ps.st) →
    runSccs I {} p dl fuel rest ps = .done ps' →
    LPInv I L p inp ps'.st ∧ (∀ scc ∈ o, LClosedRules I L p (sccRules p scc) (factsOf ps'.st)) ∧
      DBLe I L p (inDB p inp) (factsOf ps'.st) := by
  intro rest
  induction rest with
  | nil =>
    intro done ps ps' hdone hp hcl hin h
    simp only [runSccs, Outcome.done.injEq] at h
    subst h
    rw [List.append_nil] at hdone
    subst hdone
    exact ⟨hp, hcl, hin⟩
  | cons scc rest ih =>
    intro done ps ps' hdone hp hcl hin h
    simp only [runSccs] at h
    split at h
    · rename_i ps1 hscc
      obtain ⟨hp1, hsame, hle, hcl1⟩ := runScc_spec' haf hh dl fuel scc ps ps1 hp hscc
      refine ih (done ++ [scc]) ps1 ps' (by rw [List.append_assoc]; exact hdone) hp1 ?_ (DBLe.trans hin hle) h
      intro scc' hscc'
      rcases List.mem_append.mp hscc' with hscc' | hscc'
      · intro rule hrule ρ hsat hd hhd
        have hfw := validOrder_forward p o ho done scc rest hdone scc' hscc' rule hrule
        have hsat' : Sat I (factsOf ps.st) nAgg rule.body [] ρ := by
          refine Sat.congr_rels hsat ?_
          intro r hr t ht
          have : relSt ps1.st r = relSt ps.st r := hsame r (hfw r hr)
          simp only [factsOf] at ht ⊢
          rw [← this]; exact ht
        exact Dominated.mono (hcl scc' hscc' rule hrule ρ hsat' hd hhd) hle
      · simp only [List.mem_singleton] at hscc'
        subst hscc'
        exact hcl1
    · rename_i hne
      cases hr : runScc I {} p dl fuel scc ps with
      | done x => exact absurd hr (hne x)
      | timedOut x => rw [hr] at h; cases h
      | outOfFuel => rw [hr] at h; cases h

/-- the fresh program value after `update_indices` -/
theorem LPInv_start
    (hi1 : ∀ r, r < p.rels.length → (declOf p r).lat = true → ((inp r).map keyOf).Nodup) :
    LPInv I L p inp (updateIndices (initSt p inp)) ∧
      DBLe I L p (inDB p inp) (factsOf (updateIndices (initSt p inp))) := by
  have hrows : ∀ r, r < p.rels.length → (relSt (updateIndices (initSt p inp)) r).rows = inp r := by
    intro r hr
    rw [relSt_updateIndices]
    exact rows_initSt p inp r hr
  have hlen : (updateIndices (initSt p inp)).length = p.rels.length := by simp [updateIndices, initSt]
  refine ⟨⟨hlen, ?_, ?_, ?_, ?_⟩, ?_⟩
  · intro r hl
    have hr := lat_lt p hl
    rw [hrows r hr]; exact hi1 r hr hl
  · intro r hr _
    rw [hrows r hr]
    exact ⟨[], by simp, List.nodup_nil, fun t ht => by simp at ht⟩
  · intro r i
    rw [relSt_updateIndices]
    simp only [List.mem_range]
  · intro M hM f hf
    have hr : f.rel < p.rels.length := by
      have := lt_of_mem_rows _ f.rel f.args hf
      rw [hlen] at this; exact this
    have hf' : f.args ∈ (relSt (updateIndices (initSt p inp)) f.rel).rows := hf
    rw [hrows _ hr] at hf'
    exact hM.2.2.1 f ⟨hr, hf'⟩
  · intro f hf
    apply Dominated.of_mem
    show f.args ∈ (relSt (updateIndices (initSt p inp)) f.rel).rows
    rw [hrows _ hf.1]; exact hf.2

/-- everything the final theorems need about a completed run -/
theorem run_spec' (haf : ∀ r ∈ p.rules, r.aggFree = true)
    (hh : ∀ r ∈ p.rules, ∀ h ∈ r.heads, h.rel < p.rels.length)
    (hi1 : ∀ r, r < p.rels.length → (declOf p r).lat = true → ((inp r).map keyOf).Nodup)
    (o : SccOrder) (ho : validOrder p o = true) (fuel : Nat) (ps : ProgSt)
    (hrun : run I {} p o fuel (initSt p inp) = .done ps) :
    LPInv I L p inp ps.st ∧ LClosedRules I L p p.rules (factsOf ps.st) ∧
      DBLe I L p (inDB p inp) (factsOf ps.st) := by
  obtain ⟨hp0, hin0⟩ := LPInv_start (I := I) (L := L) (p := p) (inp := inp) hi1
  have h := runSccs_spec' haf hh o ho never fuel o [] _ ps (by simp) hp0
    (by intro scc hscc; simp at hscc) hin0 hrun
  refine ⟨h.1, ?_, h.2.2⟩
  intro rule hrule ρ hsat hd hhd
  obtain ⟨i, hi, hri⟩ := List.mem_iff_getElem.mp hrule
  obtain ⟨scc, hscc, hiscc⟩ := validOrder_cover p o ho i hi
  have : rule ∈ sccRules p scc := (mem_sccRules p scc rule).mpr ⟨i, hiscc, by rw [List.getElem?_eq_getElem hi, hri]⟩
  exact h.2.1 scc hscc rule this ρ hsat hd hhd

end Strata

end AscentVerif.Engine
