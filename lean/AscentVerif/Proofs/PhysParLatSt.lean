import AscentVerif.Proofs.PhysParLatScc
/-!
# The parallel engine with lattices: SCC exit and `update_indices`
-/
namespace AscentVerif.PhysParLat
open AscentVerif AscentVerif.Engine AscentVerif.Index AscentVerif.Phys AscentVerif.PhysLat AscentVerif.PhysPar

variable {E B G P A : Type}

/-! ## folds that store the `total` version back -/

section Fold
variable {α δ : Type} (dflt : α) (key : δ → Nat) (f : α → δ → α)

theorem foldl_setNth_length : ∀ (L : List δ) (l : List α),
    (L.foldl (fun l d => setNth l (key d) (f (l.getD (key d) dflt) d)) l).length = l.length
  | [], _ => rfl
  | d :: L, l => by
    rw [List.foldl_cons, foldl_setNth_length L]; simp

theorem foldl_setNth_untouched (r : Nat) : ∀ (L : List δ) (l : List α), (∀ d ∈ L, key d ≠ r) →
    (L.foldl (fun l d => setNth l (key d) (f (l.getD (key d) dflt) d)) l).getD r dflt = l.getD r dflt
  | [], _, _ => rfl
  | d :: L, l, h => by
    rw [List.foldl_cons, foldl_setNth_untouched r L _ (fun d' hd' => h d' (List.mem_cons_of_mem _ hd'))]
    have hne : r ≠ key d := Ne.symm (h d (by simp))
    simp [setNth_eq_set, List.getD_eq_getElem?_getD, List.getElem?_set_ne (Ne.symm hne)]

theorem foldl_setNth_touched (r : Nat) (d0 : δ) (hid : ∀ x, f (f x d0) d0 = f x d0) : ∀ (L : List δ) (l : List α),
    (∀ d ∈ L, key d < l.length) → (∀ d ∈ L, key d = r → d = d0) → (∃ d ∈ L, key d = r) →
    (L.foldl (fun l d => setNth l (key d) (f (l.getD (key d) dflt) d)) l).getD r dflt = f (l.getD r dflt) d0
  | [], _, _, _, h => by
    obtain ⟨d, hd, _⟩ := h
    cases hd
  | d :: L, l, hlt, hu, _ => by
    rw [List.foldl_cons]
    have hlt' : ∀ d' ∈ L, key d' < (setNth l (key d) (f (l.getD (key d) dflt) d)).length := by
      intro d' hd'
      rw [length_setNth]; exact hlt d' (List.mem_cons_of_mem _ hd')
    have hu' : ∀ d' ∈ L, key d' = r → d' = d0 := fun d' hd' => hu d' (List.mem_cons_of_mem _ hd')
    have hstep : (setNth l (key d) (f (l.getD (key d) dflt) d)).getD r dflt =
        if key d = r then f (l.getD r dflt) d else l.getD r dflt := by
      by_cases hk : key d = r
      · subst hk
        simp [setNth_eq_set, List.getD_eq_getElem?_getD, hlt d (by simp)]
      · simp [hk, setNth_eq_set, List.getD_eq_getElem?_getD, List.getElem?_set_ne hk]
    by_cases hex : ∃ d' ∈ L, key d' = r
    · rw [foldl_setNth_touched r d0 hid L _ hlt' hu' hex, hstep]
      by_cases hk : key d = r
      · rw [if_pos hk, hu d (by simp) hk, hid]
      · rw [if_neg hk]
    · have hno : ∀ d' ∈ L, key d' ≠ r := fun d' hd' hk => hex ⟨d', hd', hk⟩
      rw [foldl_setNth_untouched dflt key f r L _ hno, hstep]
      by_cases hk : key d = r
      · rw [if_pos hk, hu d (by simp) hk]
      · exfalso
        rename_i h
        obtain ⟨d', hd', hk'⟩ := h
        rcases List.mem_cons.mp hd' with rfl | hd'
        · exact hk hk'
        · exact hno d' hd' hk'

end Fold

/-! ## SCC exit -/

def leaveStepL (ls : List LCRel) (d : LCDyn) : List LCRel :=
  setNth ls d.rel { lrel ls d.rel with idxs := d.idxs.map fun ci => (ci.1, ci.2.total) }

theorem leaveScc_lat (p : Program E B G P A) (scc : List Nat) (s : PLScc) :
    (leaveScc p scc s).lat = (List.range (s.ldyn.foldl leaveStepL s.lrels).length).map fun r =>
      if isLatRel p r && (bodyOnly p scc).contains r then
        { lrel (s.ldyn.foldl leaveStepL s.lrels) r with
          idxs := (lrel (s.ldyn.foldl leaveStepL s.lrels) r).idxs.map fun ci => (ci.1, ci.2.unfreeze) }
      else lrel (s.ldyn.foldl leaveStepL s.lrels) r := rfl

theorem leaveL_length (L : List LCDyn) (ls : List LCRel) : (L.foldl leaveStepL ls).length = ls.length :=
  foldl_setNth_length (⟨[], []⟩ : LCRel) (fun d : LCDyn => d.rel)
    (fun x d => { x with idxs := d.idxs.map fun ci => (ci.1, ci.2.total) }) L ls

theorem leaveL_find (L : List LCDyn) (ls : List LCRel) (hnd : (L.map (·.rel)).Nodup) (hlt : ∀ d ∈ L, d.rel < ls.length)
    (r : RelId) :
    lrel (L.foldl leaveStepL ls) r =
      match findLDyn L r with
      | some ld => { lrel ls r with idxs := ld.idxs.map fun ci => (ci.1, ci.2.total) }
      | none => lrel ls r := by
  cases hf : findLDyn L r with
  | none =>
    exact foldl_setNth_untouched (⟨[], []⟩ : LCRel) (fun d : LCDyn => d.rel)
      (fun x d => { x with idxs := d.idxs.map fun ci => (ci.1, ci.2.total) }) r L ls (by
        intro d hd he
        have := List.find?_eq_none.mp hf d hd
        simp [he] at this)
  | some ld =>
    exact foldl_setNth_touched (⟨[], []⟩ : LCRel) (fun d : LCDyn => d.rel)
      (fun x d => { x with idxs := d.idxs.map fun ci => (ci.1, ci.2.total) }) r ld (fun _ => rfl) L ls hlt
      (fun d hd hk => eq_of_find?_nodup (fun d : LCDyn => d.rel) hnd hf hd hk) ⟨ld, findLDyn_mem hf, findLDyn_rel hf⟩

theorem leavePC_find (L : List PCDyn) (st : PCSt) (hnd : (L.map (·.rel)).Nodup) (hlt : ∀ d ∈ L, d.rel < st.length)
    (r : RelId) :
    pcrel (L.foldl leaveStepPC st) r =
      match findPCDyn L r with
      | some cd => { pcrel st r with full := cd.full.total, idxs := cd.idxs.map fun ci => (ci.1, ci.2.total) }
      | none => pcrel st r := by
  cases hf : findPCDyn L r with
  | none =>
    exact foldl_setNth_untouched (⟨[], PCFull.new, []⟩ : PCRel) (fun d : PCDyn => d.rel)
      (fun x d => { x with full := d.full.total, idxs := d.idxs.map fun ci => (ci.1, ci.2.total) }) r L st (by
        intro d hd he
        have := List.find?_eq_none.mp hf d hd
        simp [he] at this)
  | some cd =>
    exact foldl_setNth_touched (⟨[], PCFull.new, []⟩ : PCRel) (fun d : PCDyn => d.rel)
      (fun x d => { x with full := d.full.total, idxs := d.idxs.map fun ci => (ci.1, ci.2.total) }) r cd (fun _ => rfl) L st hlt
      (fun d hd hk => eq_of_find?_nodup (fun d : PCDyn => d.rel) hnd hf hd hk) ⟨cd, findPCDyn_mem hf, findPCDyn_rel hf⟩

theorem leavePC_length (L : List PCDyn) (st : PCSt) : (L.foldl leaveStepPC st).length = st.length :=
  foldl_setNth_length (⟨[], PCFull.new, []⟩ : PCRel) (fun d : PCDyn => d.rel)
    (fun x d => { x with full := d.full.total, idxs := d.idxs.map fun ci => (ci.1, ci.2.total) }) L st

/-- what the erased value shows of a lattice after SCC exit -/
theorem leave_erase_lat (p : Program E B G P A) (scc : List Nat) (s : PLScc) (r : RelId) (hl : isLatRel p r = true)
    (hr : r < s.lrels.length) :
    eraseRel p (leaveScc p scc s).pc (leaveScc p scc s).lat r =
      ⟨(lrel (s.ldyn.foldl leaveStepL s.lrels) r).rows, [],
        (lrel (s.ldyn.foldl leaveStepL s.lrels) r).idxs.map fun ci => (ci.1, ci.2.erase)⟩ := by
  rw [eraseRel_lat p _ _ r hl, leaveScc_lat, lrel_rangeMap _ _ _ (by rw [leaveL_length]; exact hr)]
  split
  · show XRel.mk _ _ _ = XRel.mk _ _ _
    congr 1
    show (((lrel (s.ldyn.foldl leaveStepL s.lrels) r).idxs.map _).map _) = _
    rw [List.map_map]
    apply List.map_congr_left
    intro ci _
    simp
  · rfl

/-- what the erased value shows of a plain relation after SCC exit -/
theorem leave_erase_plain (p : Program E B G P A) (scc : List Nat) (s : PLScc) (r : RelId) (hl : isLatRel p r = false)
    (hr : r < s.pc.rels.length) :
    eraseRel p (leaveScc p scc s).pc (leaveScc p scc s).lat r =
      ⟨(pcrel (s.pc.dyn.foldl leaveStepPC s.pc.rels) r).rows, (pcrel (s.pc.dyn.foldl leaveStepPC s.pc.rels) r).full.m,
        (pcrel (s.pc.dyn.foldl leaveStepPC s.pc.rels) r).idxs.map fun ci => (ci.1, XIx.vals ci.2.erase)⟩ := by
  rw [eraseRel_plain p _ _ r hl]
  have hpc : pcrel (leaveScc p scc s).pc r =
      if (bodyOnly p scc).contains r then
        { pcrel (s.pc.dyn.foldl leaveStepPC s.pc.rels) r with
          full := (pcrel (s.pc.dyn.foldl leaveStepPC s.pc.rels) r).full.unfreeze
          idxs := (pcrel (s.pc.dyn.foldl leaveStepPC s.pc.rels) r).idxs.map fun ci => (ci.1, ci.2.unfreeze) }
      else pcrel (s.pc.dyn.foldl leaveStepPC s.pc.rels) r := by
    show pcrel (PhysPar.leaveScc p scc s.pc) r = _
    rw [PhysPar.leaveScc_eq, pcrel_rangeMap _ _ _ (by rw [leavePC_length]; exact hr)]
  rw [hpc]
  split
  · show XRel.mk _ _ _ = XRel.mk _ _ _
    congr 1
    show (((pcrel (s.pc.dyn.foldl leaveStepPC s.pc.rels) r).idxs.map _).map _) = _
    rw [List.map_map]
    apply List.map_congr_left
    intro ci _
    simp
  · rfl

theorem leave_inv (p : Program E B G P A) (scc : List Nat) {ix : IxSets} {N : Nat} {dynR : List RelId} {a : SccSt} {s : PLScc}
    (hsim : SimP p (ixP p ix) a (s.erase p)) (hwf : WF p.rels.length dynR a)
    (hdlt : ∀ d ∈ a.dyn, d.rel < a.rels.length) (hpl : PLWf p s)
    (hfl : Flags N (bodyOnly p scc) false s.pc) (hlfl : LFlags p (bodyOnly p scc) false s) :
    PStInv p ix N (Engine.leaveScc a) (leaveScc p scc s) := by
  have hpclen : (leaveScc p scc s).pc.length = p.rels.length := by
    show (PhysPar.leaveScc p scc s.pc).length = _
    rw [(Flags_leaveScc p scc s.pc hfl).2, hpl.len]
  have hlatlen : (leaveScc p scc s).lat.length = p.rels.length := by
    rw [leaveScc_lat]; simp [leaveL_length, hpl.llen]
  have hltL : ∀ d ∈ s.ldyn, d.rel < s.lrels.length := by
    intro d hd
    rw [hpl.llen]; exact lat_lt p (hpl.ldyn d hd)
  -- plain dynamic entries are in range: they are found from the abstract side
  have hltP : ∀ d ∈ s.pc.dyn, d.rel < s.pc.rels.length := by
    intro d hd
    have hl := hpl.pdyn d hd
    have hf : findPCDyn s.pc.dyn d.rel = some d := find?_of_nodup (fun d : PCDyn => d.rel) _ hpl.pnd d hd
    cases ha : findDyn a.dyn d.rel with
    | none =>
      have := hsim.dynN _ ha
      rw [findXDyn_erase_plain p _ hpl.ldyn _ hl, hf] at this
      cases this
    | some ad =>
      have h1 := hdlt ad (findDyn_mem ha)
      rw [findDyn_rel ha, hwf.len] at h1
      rw [hpl.len]; exact h1
  have hLf := fun r => leaveL_find s.ldyn s.lrels hpl.lnd hltL r
  have hPf := fun r => leavePC_find s.pc.dyn s.pc.rels hpl.pnd hltP r
  have hxs : ∀ r, xrel ((leaveScc p scc s).erase p) r = eraseRel p (leaveScc p scc s).pc (leaveScc p scc s).lat r :=
    xrel_eraseSt p _ hpclen
  have hxr : ∀ r, xrel (s.erase p).rels r = eraseRel p s.pc.rels s.lrels r := xrel_erase p s hpl.len
  have halen : a.rels.length = p.rels.length := hwf.len
  -- rows
  have hrows : ∀ r, (eraseRel p (leaveScc p scc s).pc (leaveScc p scc s).lat r).rows = (eraseRel p s.pc.rels s.lrels r).rows := by
    intro r
    by_cases hr : r < p.rels.length
    · cases hl : isLatRel p r with
      | true =>
        rw [leave_erase_lat p scc s r hl (by rw [hpl.llen]; exact hr), eraseRel_lat p _ _ r hl, hLf r]
        cases findLDyn s.ldyn r <;> rfl
      | false =>
        rw [leave_erase_plain p scc s r hl (by rw [hpl.len]; exact hr), eraseRel_plain p _ _ r hl, hPf r]
        cases findPCDyn s.pc.dyn r <;> rfl
    · have hr' : p.rels.length ≤ r := Nat.le_of_not_lt hr
      rw [eraseRel_ge p _ _ r hr' (by rw [hpclen]; exact hr'), eraseRel_ge p _ _ r hr' (by rw [hpl.len]; exact hr')]
  refine ⟨⟨?_, ?_, ?_, ?_⟩, hpclen, hlatlen, (Flags_leaveScc p scc s.pc hfl).1, ?_, ?_, ?_⟩
  · rw [Engine.leaveScc_eq, leave_length, halen]
    simp [PLSt.erase, hpclen]
  · intro r
    rw [Engine.leaveScc_eq, leave_rows r _ _ hdlt, hxs, hrows, ← hxr]
    exact hsim.rows r
  · intro r hr
    rw [Engine.leaveScc_eq, leave_length, halen] at hr
    rw [Engine.leaveScc_eq, leave_rows r _ _ hdlt, hxs]
    rcases hsim.find r with ⟨h1, h2⟩ | ⟨d, pd, h1, h2, _, tri⟩
    · have hun : relSt (a.dyn.foldl leaveStep a.rels) r = relSt a.rels r := by
        apply leave_untouched
        intro d hd he
        have := hwf.uniq d hd
        rw [he, h1] at this; cases this
      rw [hun]
      have key : eraseRel p (leaveScc p scc s).pc (leaveScc p scc s).lat r = eraseRel p s.pc.rels s.lrels r := by
        cases hl : isLatRel p r with
        | true =>
          rw [findXDyn_erase_lat p _ hpl.pdyn r hl, Option.map_eq_none_iff] at h2
          rw [leave_erase_lat p scc s r hl (by rw [hpl.llen]; exact hr), eraseRel_lat p _ _ r hl, hLf r, h2]
        | false =>
          rw [findXDyn_erase_plain p _ hpl.ldyn r hl, Option.map_eq_none_iff] at h2
          rw [leave_erase_plain p scc s r hl (by rw [hpl.len]; exact hr), eraseRel_plain p _ _ r hl, hPf r, h2]
      rw [key, ← hxr]
      exact hsim.nd r (by rw [halen]; exact hr) h1
    · have hidx : (relSt (a.dyn.foldl leaveStep a.rels) r).idx = d.total := by
        apply leave_touched r d.total _ _ hdlt
        · intro d' hd' he
          have := hwf.uniq d' hd'
          rw [he, h1] at this
          cases this; rfl
        · exact .inl ⟨d, findDyn_mem h1, findDyn_rel h1⟩
      rw [hidx]
      cases hl : isLatRel p r with
      | true =>
        rw [findXDyn_erase_lat p _ hpl.pdyn r hl] at h2
        obtain ⟨ld, hld, rfl⟩ := Option.map_eq_some_iff.mp h2
        rw [leave_erase_lat p scc s r hl (by rw [hpl.llen]; exact hr), hLf r, hld]
        have hv := tri.verT
        have hrw : (lrel s.lrels r).rows = (relSt a.rels r).rows := by
          have := hsim.rows r
          rw [hxr, eraseRel_lat p _ _ r hl] at this
          exact this.symm
        have he : ((eraseLDyn ld).idxs.map fun ci => (ci.1, ci.2.total)) =
            (ld.idxs.map fun ci => (ci.1, ci.2.total)).map fun ci => (ci.1, ci.2.erase) := by
          simp only [eraseLDyn, List.map_map]; rfl
        rw [he] at hv
        exact hv
      | false =>
        rw [findXDyn_erase_plain p _ hpl.ldyn r hl] at h2
        obtain ⟨cd, hcd, rfl⟩ := Option.map_eq_some_iff.mp h2
        rw [leave_erase_plain p scc s r hl (by rw [hpl.len]; exact hr), hPf r, hcd]
        have hv := tri.verT
        have he : ((erasePDyn cd).idxs.map fun ci => (ci.1, ci.2.total)) =
            (cd.idxs.map fun ci => (ci.1, ci.2.total)).map fun ci => (ci.1, XIx.vals ci.2.erase) := by
          simp only [erasePDyn, List.map_map]; rfl
        rw [he] at hv
        exact hv
  · intro r t ht
    rw [Engine.leaveScc_eq, leave_rows r _ _ hdlt] at ht
    exact hsim.typed r t ht
  · -- the lattice indices that are stored back are unfrozen
    intro r hr hl
    have hr' : r < s.lrels.length := by rw [hpl.llen, ← hlatlen]; exact hr
    rw [leaveScc_lat, lrel_rangeMap _ _ _ (by rw [leaveL_length]; exact hr')]
    have hbase : ∀ ci ∈ (lrel (s.ldyn.foldl leaveStepL s.lrels) r).idxs,
        ci.2.isKey = (ci.1 == keyCols p r) ∧ (ci.2.isFrozen = false ∨ (bodyOnly p scc).contains r = true) := by
      rw [hLf r]
      cases hf : findLDyn s.ldyn r with
      | none =>
        intro ci hci
        obtain ⟨g1, g2⟩ := hlfl.rels r hr' hl ci hci
        refine ⟨g1, ?_⟩
        cases hb : (bodyOnly p scc).contains r with
        | true => exact .inr rfl
        | false => rw [hb] at g2; exact .inl g2
      | some ld =>
        intro ci hci
        obtain ⟨c, hc, rfl⟩ := List.mem_map.mp hci
        obtain ⟨k1, _, _, f1, _, _⟩ := (hlfl.dyn ld (findLDyn_mem hf)).1 c hc
        rw [findLDyn_rel hf] at k1
        exact ⟨k1, .inl f1⟩
    split
    · intro ci hci
      obtain ⟨c, hc, rfl⟩ := List.mem_map.mp hci
      exact ⟨by simpa using (hbase c hc).1, LCx.isFrozen_unfreeze _⟩
    · rename_i hcond
      intro ci hci
      obtain ⟨g1, g2⟩ := hbase ci hci
      refine ⟨g1, ?_⟩
      rcases g2 with g2 | g2
      · exact g2
      · exfalso; apply hcond; rw [hl, g2]; rfl
  · intro r hl
    have hr : r < s.pc.rels.length := by rw [hpl.len]; exact lat_lt p hl
    have hpc : pcrel (leaveScc p scc s).pc r =
        if (bodyOnly p scc).contains r then
          { pcrel (s.pc.dyn.foldl leaveStepPC s.pc.rels) r with
            full := (pcrel (s.pc.dyn.foldl leaveStepPC s.pc.rels) r).full.unfreeze
            idxs := (pcrel (s.pc.dyn.foldl leaveStepPC s.pc.rels) r).idxs.map fun ci => (ci.1, ci.2.unfreeze) }
        else pcrel (s.pc.dyn.foldl leaveStepPC s.pc.rels) r := by
      show pcrel (PhysPar.leaveScc p scc s.pc) r = _
      rw [PhysPar.leaveScc_eq, pcrel_rangeMap _ _ _ (by rw [leavePC_length]; exact hr)]
    have hnone : findPCDyn s.pc.dyn r = none := findPCDyn_none_of (by
      intro d hd he
      have := hpl.pdyn d hd
      rw [he, hl] at this; cases this)
    have hrows0 : (pcrel (s.pc.dyn.foldl leaveStepPC s.pc.rels) r).rows = [] := by
      rw [hPf r, hnone]; exact hpl.prow r hl
    rw [hpc]
    split
    · exact hrows0
    · exact hrows0
  · intro r hl
    by_cases hr : r < s.lrels.length
    · rw [leaveScc_lat, lrel_rangeMap _ _ _ (by rw [leaveL_length]; exact hr)]
      simp only [hl, Bool.false_and, Bool.false_eq_true, if_false]
      have hnone : findLDyn s.ldyn r = none := findLDyn_none_of (by
        intro d hd he
        have := hpl.ldyn d hd
        rw [he, hl] at this; cases this)
      rw [hLf r, hnone]
      exact hpl.lrow r hl
    · rw [lrel_of_ge _ _ (by rw [hlatlen, ← hpl.llen]; exact Nat.le_of_not_lt hr)]

/-! ## `update_indices` -/

theorem untag_tag (i : Nat) (row : Tuple) : untag (Val.int (Int.ofNat i) :: row) = (i, row) := by
  simp [untag]

theorem tagRows_untag (rows : List Tuple) :
    (tagRows rows).map untag = (List.range rows.length).map fun i => (i, rowAt rows i) := by
  unfold tagRows
  rw [zip_range_rows, List.map_map, List.map_map]
  apply List.map_congr_left
  intro i _
  exact untag_tag i _

theorem LCx_new_erase (b : Bool) : (LCx.new b).erase = XIx.empty true b := by cases b <;> rfl

/-- the loop body of `updateLat`: row `ir.1` is inserted into every index -/
def insRowL (acc : List (List Nat × LCx)) (ir : Nat × Tuple) : Res (List (List Nat × LCx)) :=
  foldRes (fun (done : List (List Nat × LCx)) (ci : List Nat × LCx) =>
    ci.2.insert (Plan.proj ci.1 ir.2) ir.1 >>= fun x => pure (done ++ [(ci.1, x)])) acc []

theorem updateLat_eq (σ : PhysPar.Sched E B G P A) (k : Nat) (p : Program E B G P A) (r : RelId) (colss : List (List Nat))
    (rows : List Tuple) :
    updateLat σ k p r colss rows =
      (foldRes insRowL ((σ.permRows k (tagRows rows)).map untag)
        (colss.map fun c => (c, LCx.new (c == keyCols p r)))).map fun idxs => ⟨rows, idxs⟩ := rfl

theorem updateLat_ok (σ : PhysPar.Sched E B G P A) (k : Nat) (p : Program E B G P A) (r : RelId) (hl : isLatRel p r = true)
    (colss : List (List Nat)) (rows : List Tuple) (hty : ∀ t ∈ rows, t.length = arityOf p r)
    (hkeys : (rows.map keyOf).Nodup) :
    ∃ l, updateLat σ k p r colss rows = .ok l ∧ l.rows = rows ∧ l.idxs.map (·.1) = colss ∧ LRelFlags p r false l ∧
      ∀ ci ∈ l.idxs, XOk p r rows (List.range rows.length) ci.1 ci.2.erase := by
  have hperm : ((σ.permRows k (tagRows rows)).map untag).Perm ((List.range rows.length).map fun i => (i, rowAt rows i)) := by
    rw [← tagRows_untag]
    exact (σ.permRows_perm k (tagRows rows)).map untag
  have hmem : ∀ ir ∈ (σ.permRows k (tagRows rows)).map untag, ir.1 < rows.length ∧ ir.2 = rowAt rows ir.1 := by
    intro ir hir
    obtain ⟨i, hi, rfl⟩ := List.mem_map.mp (hperm.mem_iff.mp hir)
    exact ⟨List.mem_range.mp hi, rfl⟩
  obtain ⟨acc, hfold, hcols, hbd, hall⟩ := foldRes_inv insRowL
    (fun (done : List (Nat × Tuple)) (acc : List (List Nat × LCx)) => acc.map (·.1) = colss ∧
      (∀ x ∈ done, x.1 < rows.length) ∧
      ∀ ci ∈ acc, ci.2.isFrozen = false ∧ ci.2.isKey = (ci.1 == keyCols p r) ∧
        ((∀ c ∈ ci.1, c < arityOf p r - 1) → LOk (keyCols p r) rows (done.map (·.1)) ci.1 ci.2.erase))
    ((σ.permRows k (tagRows rows)).map untag) (by
      intro done acc ir hir hinv
      obtain ⟨hcols, hbd, hall⟩ := hinv
      obtain ⟨hi, hrow⟩ := hmem ir hir
      obtain ⟨acc', hf, hrel2⟩ := foldRes_collect
        (fun (ci : List Nat × LCx) => ci.2.insert (Plan.proj ci.1 ir.2) ir.1) (fun ci x => (ci.1, x))
        (fun ci ci' => ci'.1 = ci.1 ∧ ci'.2.isFrozen = false ∧ ci'.2.isKey = ci.2.isKey ∧
          ci'.2.erase = ci.2.erase.insert ci.1 ir.2 ir.1)
        acc (by
          intro ci hci
          obtain ⟨x', h1, h2, h3⟩ := LCx_insert_ok ci.2 (Plan.proj ci.1 ir.2) ir.1 (hall ci hci).1
          exact ⟨x', h1, rfl, h2, h3, LCx_insert_erase _ _ _ _ _ h1⟩)
      refine ⟨acc', hf, ?_, ?_, ?_⟩
      · rw [← hcols]
        exact (Rel2.map_eq _ _ (fun c c' hq => hq.1.symm) hrel2).symm
      · intro x hx
        rcases List.mem_append.mp hx with hx | hx
        · exact hbd x hx
        · simp only [List.mem_singleton] at hx; rw [hx]; exact hi
      · intro c' hc'
        obtain ⟨c, hc, hq⟩ := hrel2.forall_right c' hc'
        obtain ⟨g1, g2, g3⟩ := hall c hc
        refine ⟨hq.2.1, by rw [hq.2.2.1, hq.1]; exact g2, ?_⟩
        intro hkc
        rw [hq.2.2.2, hq.1]
        apply LOk_insert ir.2 ir.1 (g3 (by rw [← hq.1]; exact hkc)) (by rw [hrow])
        · intro j; simp
        · intro hck j hj hp
          obtain ⟨x, hx, rfl⟩ := List.mem_map.mp hj
          have hjl := hbd x hx
          rw [hrow, hck] at hp
          have e1 : Plan.proj (keyCols p r) (rowAt rows x.1) = keyOf (rowAt rows x.1) :=
            proj_keyCols (hty _ (rowAt_mem _ _ hjl))
          have e2 : Plan.proj (keyCols p r) (rowAt rows ir.1) = keyOf (rowAt rows ir.1) :=
            proj_keyCols (hty _ (rowAt_mem _ _ hi))
          rw [e1, e2] at hp
          exact idx_of_key hkeys hjl hi hp)
    (colss.map fun c => (c, LCx.new (c == keyCols p r)))
    ⟨by rw [List.map_map]; exact List.map_id _, fun x hx => (by cases hx), (by
      intro ci hci
      obtain ⟨c, _, rfl⟩ := List.mem_map.mp hci
      refine ⟨LCx.isFrozen_new _, LCx.isKey_new _, fun _ => ?_⟩
      show LOk _ _ [] c (LCx.new (c == keyCols p r)).erase
      rw [LCx_new_erase]
      exact LOk_empty _ _ _)⟩
  refine ⟨⟨rows, acc⟩, by rw [updateLat_eq, hfold]; rfl, rfl, hcols, fun ci hci => ⟨(hall ci hci).2.1, (hall ci hci).1⟩, ?_⟩
  intro ci hci
  refine ⟨fun _ hkc => ?_, fun hf => by rw [hl] at hf; cases hf⟩
  refine LOk_congr ((hall ci hci).2.2 hkc) ?_ (fun _ _ => rfl)
  intro i
  rw [List.mem_range]
  constructor
  · intro hi
    have : (i, rowAt rows i) ∈ (σ.permRows k (tagRows rows)).map untag :=
      hperm.mem_iff.mpr (List.mem_map.mpr ⟨i, List.mem_range.mpr hi, rfl⟩)
    exact List.mem_map.mpr ⟨_, this, rfl⟩
  · intro hi
    obtain ⟨x, hx, rfl⟩ := List.mem_map.mp hi
    exact hbd x hx

theorem updateIndices_eq (threads : Nat) (σ : PhysPar.Sched E B G P A) (p : Program E B G P A) (ix : IxSets) (s : PLSt) :
    updateIndices threads σ p ix s =
      (PhysPar.updateIndices threads σ (plainIx p ix) s.pc >>= fun pc =>
       foldRes (fun (done : List LCRel) (r : Nat) =>
          if isLatRel p r then
            updateLat σ r p r (latIxOf p ix r) (lrel s.lat r).rows >>= fun l => pure (done ++ [l])
          else pure (done ++ [{ rows := (lrel s.lat r).rows, idxs := [] }])) (List.range s.pc.length) [] >>= fun lat =>
       pure ⟨pc, lat⟩) := rfl

theorem xrows_lat (p : Program E B G P A) {s : PLSt} (hs : WFSt p s) (r : RelId) (hl : isLatRel p r = true) :
    xrows s r = (lrel s.lat r).rows := by
  unfold xrows
  rw [hs.2.2.1 r hl]; rfl

theorem xrows_plain (p : Program E B G P A) {s : PLSt} (hs : WFSt p s) (r : RelId) (hl : isLatRel p r = false) :
    xrows s r = (pcrel s.pc r).rows := by
  unfold xrows
  rw [hs.2.2.2.1 r hl, List.append_nil]

/-- **`update_indices`** never panics and establishes the invariant between SCCs -/
theorem updateIndices_inv (threads : Nat) (σ : PhysPar.Sched E B G P A) (p : Program E B G P A) (ix : IxSets) (s : PLSt)
    (hs : WFSt p s) (hi : InputOK p (xrows s)) (har : ∀ r, isLatRel p r = true → 0 < arityOf p r) :
    ∃ s0, updateIndices threads σ p ix s = .ok s0 ∧
      PStInv p ix (max threads 1) (Engine.updateIndices (Engine.initSt p (xrows s))) s0 ∧ ∀ r, xrows s0 r = xrows s r := by
  obtain ⟨⟨hplen, hpty, _⟩, hllen, hprow, hlrow, hlty, _⟩ := hs
  have hs' : WFSt p s := ⟨⟨hplen, hpty, by assumption⟩, hllen, hprow, hlrow, hlty, by assumption⟩
  obtain ⟨pc, hpc, hpclen, hpfl, hpok⟩ := updateIndices_ok threads σ (plainIx p ix) s.pc
  obtain ⟨lat, hlat, hrel2⟩ := foldRes_inv
    (fun (done : List LCRel) (r : Nat) =>
      if isLatRel p r then
        updateLat σ r p r (latIxOf p ix r) (lrel s.lat r).rows >>= fun l => pure (done ++ [l])
      else (pure (done ++ [{ rows := (lrel s.lat r).rows, idxs := [] }]) : Res (List LCRel)))
    (fun done out => Rel2 (fun (r : Nat) (l : LCRel) => l.rows = (lrel s.lat r).rows ∧
      (isLatRel p r = true → l.idxs.map (·.1) = latIxOf p ix r ∧ LRelFlags p r false l ∧
        ∀ ci ∈ l.idxs, XOk p r (lrel s.lat r).rows (List.range (lrel s.lat r).rows.length) ci.1 ci.2.erase) ∧
      (isLatRel p r = false → l.idxs = [])) done out)
    (List.range s.pc.length) (by
      intro done out r hr hinv
      have hrl : r < p.rels.length := by rw [← hplen]; exact List.mem_range.mp hr
      cases hl : isLatRel p r with
      | true =>
        have hk : ((lrel s.lat r).rows.map keyOf).Nodup := by
          have := hi.2 r hrl hl
          rw [xrows_lat p hs' r hl] at this; exact this
        obtain ⟨l, h1, h2, h3, h4, h5⟩ := updateLat_ok σ r p r hl (latIxOf p ix r) (lrel s.lat r).rows (hlty r) hk
        refine ⟨out ++ [l], by simp only [if_true, h1, bind_ok, pure_eq_ok], hinv.snoc ⟨h2, fun _ => ⟨h3, h4, h5⟩, fun hf => ?_⟩⟩
        rw [hl] at hf; cases hf
      | false =>
        refine ⟨out ++ [{ rows := (lrel s.lat r).rows, idxs := [] }], by simp only [Bool.false_eq_true, if_false, pure_eq_ok],
          hinv.snoc ⟨rfl, fun hf => ?_, fun _ => rfl⟩⟩
        rw [hl] at hf; cases hf) [] .nil
  have hlatlen : lat.length = s.pc.length := by rw [← hrel2.length_eq, List.length_range]
  have hget : ∀ r, r < s.pc.length → (lrel lat r).rows = (lrel s.lat r).rows ∧
      (isLatRel p r = true → (lrel lat r).idxs.map (·.1) = latIxOf p ix r ∧ LRelFlags p r false (lrel lat r) ∧
        ∀ ci ∈ (lrel lat r).idxs, XOk p r (lrel s.lat r).rows (List.range (lrel s.lat r).rows.length) ci.1 ci.2.erase) ∧
      (isLatRel p r = false → (lrel lat r).idxs = []) := by
    intro r hr
    exact hrel2.get r r (lrel lat r) (List.getElem?_range hr) (by
      simp [lrel, List.getD_eq_getElem?_getD, List.getElem?_eq_getElem (show r < lat.length by rw [hlatlen]; exact hr)])
  have hxlat : ∀ r, (lrel lat r).rows = (lrel s.lat r).rows := by
    intro r
    by_cases hr : r < s.pc.length
    · exact (hget r hr).1
    · have hr' : s.pc.length ≤ r := Nat.le_of_not_lt hr
      rw [lrel_of_ge _ _ (by rw [hlatlen]; exact hr'), lrel_of_ge _ _ (by rw [hllen, ← hplen]; exact hr')]
  have hxpc : ∀ r, (pcrel pc r).rows = (pcrel s.pc r).rows := by
    intro r
    by_cases hr : r < s.pc.length
    · exact (hpok r hr).1
    · have hr' : s.pc.length ≤ r := Nat.le_of_not_lt hr
      rw [pcrel_of_ge _ _ (by rw [hpclen]; exact hr'), pcrel_of_ge _ _ hr']
  have hxrows : ∀ r, xrows ⟨pc, lat⟩ r = xrows s r := by
    intro r
    show (pcrel pc r).rows ++ (lrel lat r).rows = _
    rw [hxpc, hxlat]; rfl
  have hlen0 : (⟨pc, lat⟩ : PLSt).pc.length = p.rels.length := by rw [← hplen]; exact hpclen
  refine ⟨⟨pc, lat⟩, by rw [updateIndices_eq, hpc, bind_ok, hlat]; rfl, ?_, hxrows⟩
  have hst : ∀ r, relSt (Engine.updateIndices (Engine.initSt p (xrows s))) r =
      { rows := (relSt (Engine.initSt p (xrows s)) r).rows,
        idx := List.range (relSt (Engine.initSt p (xrows s)) r).rows.length } := relSt_updateIndices _
  have hinit : ∀ r, (relSt (Engine.initSt p (xrows s)) r).rows = (eraseRel p pc lat r).rows := by
    intro r
    by_cases hr : r < p.rels.length
    · rw [rows_initSt p _ r hr]
      cases hl : isLatRel p r with
      | true => rw [xrows_lat p hs' r hl, eraseRel_lat p _ _ r hl]; exact (hxlat r).symm
      | false => rw [xrows_plain p hs' r hl, eraseRel_plain p _ _ r hl]; exact (hxpc r).symm
    · have hr' : p.rels.length ≤ r := Nat.le_of_not_lt hr
      rw [relSt_of_ge _ _ (by simpa [Engine.initSt] using hr'), eraseRel_ge p _ _ r hr' (by rw [hpclen, hplen]; exact hr')]
  have hxs : ∀ r, xrel ((⟨pc, lat⟩ : PLSt).erase p) r = eraseRel p pc lat r := xrel_eraseSt p ⟨pc, lat⟩ hlen0
  refine ⟨⟨?_, ?_, ?_, ?_⟩, hlen0, by rw [hlatlen]; exact hplen, hpfl, ?_, ?_, ?_⟩
  · simp [Engine.updateIndices, Engine.initSt, PLSt.erase, hpclen, hplen]
  · intro r
    rw [hst, hxs]; exact hinit r
  · intro r hr
    have hrl : r < p.rels.length := by simpa [Engine.updateIndices, Engine.initSt] using hr
    have hrs : r < s.pc.length := by rw [hplen]; exact hrl
    rw [hst, hxs, hinit]
    cases hl : isLatRel p r with
    | true =>
      obtain ⟨g1, g2, g3⟩ := (hget r hrs).2.1 hl
      rw [eraseRel_lat p _ _ r hl]
      refine ⟨fun hf => (by rw [hl] at hf; cases hf), ?_, ?_⟩
      · rw [List.map_map, ixOf_ixP_lat p ix r hl (har r hl), ← g1]; rfl
      · intro ci hci
        obtain ⟨c, hc, rfl⟩ := List.mem_map.mp hci
        have := g3 c hc
        rw [← hxlat r] at this
        exact this
    | false =>
      obtain ⟨_, hv1, hv2, hv3⟩ := hpok r hrs
      rw [eraseRel_plain p _ _ r hl]
      show XVerOk p (ixP p ix) r (pcrel pc r).rows (List.range (pcrel pc r).rows.length) _ _
      rw [hxpc r]
      refine ⟨fun _ => hv1, ?_, ?_⟩
      · rw [List.map_map, ixOf_ixP_plain p ix r hl]
        have : plainIx p ix r = ix r := by simp [plainIx, hl]
        rw [← this, ← hv2]
        show _ = ((pcrel pc r).idxs.map fun ci => (ci.1, ci.2.erase)).map (·.1)
        rw [List.map_map]; rfl
      · intro ci hci
        obtain ⟨c, hc, rfl⟩ := List.mem_map.mp hci
        exact XOk_plain hl (hv3 _ (List.mem_map.mpr ⟨c, hc, rfl⟩))
  · intro r t ht
    rw [hst] at ht
    by_cases hr : r < p.rels.length
    · rw [rows_initSt p _ r hr] at ht
      exact hi.1 r hr t ht
    · rw [relSt_of_ge _ _ (by simpa [Engine.initSt] using Nat.le_of_not_lt hr)] at ht
      cases ht
  · intro r hr hl
    exact ((hget r (by rw [← hlatlen]; exact hr)).2.1 hl).2.1
  · intro r hl
    show (pcrel pc r).rows = []
    rw [hxpc]; exact hprow r hl
  · intro r hl
    by_cases hr : r < s.pc.length
    · obtain ⟨g1, _, g3⟩ := hget r hr
      have h1 : (lrel lat r).rows = [] := by rw [g1]; exact hlrow r hl
      have h2 := g3 hl
      show lrel lat r = ⟨[], []⟩
      cases hh : lrel lat r with
      | mk rows idxs =>
        rw [hh] at h1 h2
        simp only at h1 h2
        rw [h1, h2]
    · exact lrel_of_ge _ _ (by rw [hlatlen]; exact Nat.le_of_not_lt hr)

end AscentVerif.PhysParLat
